"""Per-property configuration of ./check (harness test, trusted-base notes)."""

COMMON_TRUSTED = [
    "Coq 8.16.1 kernel (coqc, full .vo build through coq_makefile/make; vm_compute used, native_compute not used; coqchk -o in the thorough tier)",
    "no Axiom/Parameter/Admitted/admit anywhere (grep is part of every check); std++ gmap, lia, vm_compute need no axioms",
    "hand-written Gallina model of the contract (coq/Model), tied to /repo by the differential correspondence check: contracts compiled from the working tree, run by the real neo-go VM on a neotest chain, observables compared with the model inside Coq (cases_*.v, vm_compute)",
    "correspondence harness (/verif/harness, Go) and neo-go v0.107.0 VM/compiler/native contracts as reference platform",
]

COMMON_ASSUMPTIONS = [
    "VM transaction atomicity: a faulting invocation changes no storage and its notifications are void",
    "storage.Find iterates a snapshot taken at the call, in ascending byte order of keys",
    "runtime.CheckWitness(h) <=> h signed the transaction with a covering scope (Global in the harness) or h is the calling contract; witness scopes and gas are not modelled",
    "NeoVM integers are 256-bit signed; runtime.Notify enforces manifest event types (all hardforks enabled, as on the neotest chain)",
]

HOOK_COMMITS = []

NOT_APPLICABLE = []

TECH_INV = "machine-checked proof in Rocq (Coq): invariant by induction over histories + model/implementation correspondence"

PROPS = {
    "C01": {
        "level_text": "Invariant (supply = sum of balances, no negative balance, supply delta, inert failures, notification replay) proved in Coq for every history of the Balance model; model tied to the code by a differential correspondence check on the compiled contract",
        "level_note": "Trusted: Coq kernel; hand-written model validated by seeded differential runs against the real contract on the neo-go VM; VM atomicity, CheckWitness and Notify type checks as modelled; premise: lock targets are fresh",
        "technique": TECH_INV,
        "harness_test": "TestC01",
        "explanation": "Invariant proved by induction over all histories (Proofs/Balance.v); correspondence on seeded histories incl. the F1 witness corpus",
        "assumptions": ["quantifier's premise: lock targets hold nothing when locked (wf_bal); Null address arguments to Alphabet-only methods are outside the model's op type"],
    },
    "C02": {
        "level_text": "One-step authorisation theorem (a balance decreases only with the holder's witness or the Alphabet's; the public transfer can lower only a witnessed from) proved for every state, context and argument of the Balance model; correspondence as for C01",
        "level_note": "Trusted: Coq kernel; hand-written model validated differentially; witness scopes not modelled",
        "technique": "machine-checked proof in Rocq (Coq): one-step theorem for all states + model/implementation correspondence",
        "harness_test": "TestC02",
        "explanation": "One-step authorisation theorem valid from every state, hence over every history",
    },
    "C09": {
        "level_text": "Lock lifecycle theorems (lock creates exactly one fresh lock account; a tick releases every due lock in full to its parent, exactly once, and touches nothing else; early ticks are inert; burns reduce/delete; frame) proved for every state of the Balance model, the epoch loop by induction over the storage snapshot; until=0 refuted (known finding); correspondence on the compiled contract with ticks",
        "level_note": "Trusted: Coq kernel; hand-written model validated differentially; premise nochain (no due lock has a due lock as parent); until=0 never released is a recorded finding",
        "technique": TECH_INV,
        "harness_test": "TestC09",
        "explanation": "Lock lifecycle theorems over the epoch loop (snapshot iteration)",
    },
    "C15": {
        "harness_test": "TestC15",
        "technique": "machine-checked proof in Rocq (Coq): closed finite statements over tables regenerated from the working tree by a translator + Go monitor/differential deployment",
        "level_text": "Byte equality of all 33 committed artifacts with their regeneration by the pinned compiler/generator, ABI/safemethods agreement, binding call table vs manifest (name, arity, unwrap, coverage), topological deployment order and version agreement, proved by vm_compute over tables the translator regenerates from /repo on every run",
        "level_note": "Trusted: Coq kernel incl. primitive Uint63.int (listed by Print Assumptions; no axioms), neo-go 0.107.0 compiler/NEF+manifest readers/rpcbinding generator, the translator (go/packages constant reader, go/ast walks over rpcbinding.go, _deploy call graph, deploy.Deploy), the unwrap-admissibility and generator-coverage tables stated in Proofs/Artifacts.v",
        "explanation": "Translator route: Gen/{Params,Abi,Artifacts}.v regenerated and re-proved each run; TestC15 recomputes the comparisons, checks the embedded files, and runs version() and all safe parameterless methods on committed vs fresh deployments",
        "trusted": ["harness/cmd/translate + harness/c15lib (Go AST/const extraction, artifact regeneration through compiler.CompileAndSave and rpcbinding.Generate with config.Version=0.107.0)"],
        "assumptions": ["NNS name <x>.neofs denotes the contract of directory contracts/<x>; dependency edges are those on the static call graph from _deploy (ResolveFSContract*, InferNNSHash with constant names)"],
    },
    "C17": {
        "level_text": "Refinement of an abstract per-decision tally (distinct voters, 20-block freshness, threshold 2n/3+1) by the stored ballots proved in Coq for every history of the Vote/NeoFS model; fires-iff, only-Alphabet, once-per-tally, stale-votes and threshold/quorum-intersection theorems; quorum of distinct current members proved for a fixed Alphabet list and refuted (vm_compute) across alphabetUpdate; model tied to the code by differential runs of the compiled neofs contract in notary-disabled mode",
        "level_note": "Trusted: Coq kernel; hand-written model validated differentially (n=1..7, exhaustive voter sequences, timing patterns 0/1/20/21 blocks); premise: ledger.CurrentIndex() non-decreasing; crypto primitives abstract; payee is a plain account; ballots survive alphabetUpdate (observation W1/W2, outside the quantifier's fixed list)",
        "technique": TECH_INV,
        "harness_test": "TestC17",
        "explanation": "Simulation between the contract model and the spec machine (same methods over the abstract tally) by induction over histories; step theorems read off a normal form of the gated methods",
        "assumptions": ["heights non-decreasing from one transaction to the next", "arguments of declared types, notifications below 1024 bytes, cheque payee has no contract deployed, fees paid by a separate account (harness conventions listed in Model/NeoFSVote.v)"],
    },
    "C03": {
        "level_text": "Requirement table for all 90 non-safe manifest methods (11 contracts) with kernel-checked threshold arithmetic, monotonicity, no-vacuous-row and table-coverage statements; inertness proved for every state/context/operation of the Balance model; for the other ten contracts the table is tied to the code by the exhaustive witness sweep on the compiled contracts (committees of 1 and 3 keys, thorough 1,2,3,4,5,7), every outcome re-checked against eval_req inside Coq",
        "level_note": "Trusted: Coq kernel; the hand-written table (each row cites the guard file:line; the harness's independent copy is compared row by row in Coq); inertness of contracts other than Balance is tested by the sweep, not proved; witness scopes other than Global/None and calls through other contracts are not swept; update's success path stops at CheckVersion (same version)",
        "technique": "machine-checked proof in Rocq (Coq): table properties + Balance inertness for all inputs; exhaustive signer-set sweep of the compiled contracts checked in Coq",
        "harness_test": "TestC03",
        "explanation": "eval_req of the table vs. observed effect for every (method, argument variant, signer set); coverage of the manifests compiled now is a closed vm_compute statement in the cases file",
        "assumptions": ["principals named by arguments / NNS owner and admin are supplied by the harness from the arguments it built and from ownerOf/properties read on chain"],
    },
    "C19": {
        "level_text": "Deposit acceptance rule (iff, exactly one Deposit), exact withdraw/candidate fee movement, exact cheque payout, balance identity gas(NeoFS)=initial+received-cheques over every history, honesty of Deposit notifications, emit permission and split arithmetic for all g>=0 and N>=1 (floors, non-negative rest, total conserved, fault branches), accept-only of Proxy/Processing/Alphabet: proved in Coq for every state, context, deployment and receiver behaviour; models tied to the code by a differential check on real native GAS/NEO of a neotest chain",
        "level_note": "Trusted: Coq kernel; shape of native GAS transfer (debit, credit, synchronous onNEP17Payment, fault reverts) as written in Model/Gas.v; hand-written models validated differentially; CreateStandardAccount/CreateMultisigAccount as finite tables; GAS minted by NEO is an input read back from the chain; premises of the identity: NeoFS never signs a transaction, no key's standard account is the contract hash; emit theorems assume non-negative balance and mint",
        "technique": TECH_INV,
        "harness_test": "TestC19",
        "explanation": "Method specifications for every callback/state (Proofs/GasNeoFS.v, GasAlphabet.v), lifted to histories by induction over fold_left (Proofs/GasWorld.v); correspondence on corpus + seeded histories over random deployments (committee 1..7, both notary modes, alphabet lists 1..7, fees unset/0/negative/oversized, inner ring 0..7)",
        "assumptions": ["every transaction is paid by a separate account, NEO is held by the validator: observed balances move only by what the contracts do", "Global witness scopes; arguments of declared types; sha256(key||'delete') modelled as the injective key++'delete'", "ledger non-negativity is a premise of the emit theorems (not proved as a history invariant)"],
    },
    "C20": {
        "level_text": "Refinement of the NeoFSID, configuration (Netmap, NeoFS) and estimation stores to reference objects keyed by the numbers (owner/key set, key->value map, (epoch,cid,node)->value map with exact cleanup by the two deltas) proved in Coq for every history; access theorems; for the epoch-prefix listings of reputation, audit and container: exact characterisation for every history, refutation of exactness (witness epochs 1/257) and exactness under the precise no-foreign-prefix condition; models tied to the code by differential correspondence on the compiled contracts",
        "level_note": "Trusted: Coq kernel; hand-written storage-level models validated differentially (SHA-256/RIPEMD-160 abstract: hashes supplied by the harness; truncated node hash collision-free on the history is a premise; container existence, witnesses and netmap.snapshot(1) are inputs read on the chain; NeoFS in notary mode; epoch-list capacity parametric, measured each run); six F2 call sites are recorded findings",
        "technique": TECH_INV,
        "harness_test": "TestC20",
        "explanation": "Refinement theorems by induction over all histories (Proofs/Stores*.v); listings via a generic prefix-scan library (Proofs/StoreLib.v); correspondence on seeded histories over epochs {0,1,127,128,255,256,257,65535,65536,2^31,-1} incl. the F2 witness corpus",
        "assumptions": ["container ids are 32-byte SHA-256 digests and node hashes 20-byte RIPEMD-160 digests whose 10-byte truncation does not collide within a history (ehist_ok); CleanupDelta >= 0", "neo-go 0.107: storage Get/Find with a key longer than 64 bytes faults (modelled, observed)"],
    },
}
