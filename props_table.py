"""Per-property configuration of ./check (harness test, trusted-base notes)."""

COMMON_TRUSTED = [
    "Coq 8.16.1 kernel (coqc, full .vo build through coq_makefile/make; vm_compute used, native_compute not used; coqchk -o in the thorough tier)",
    "no Axiom/Parameter/Admitted/admit anywhere (grep is part of every check); std++ gmap, lia, vm_compute need no axioms",
    "hand-written Gallina model of the contract (coq/Model), tied to /repo by the differential correspondence check: contracts compiled from the working tree, run by the real neo-go VM on a neotest chain, observables compared with the model inside Coq (cases_*.v, vm_compute)",
    "correspondence harness (/verif/harness, Go) and neo-go v0.107.0 VM/compiler/native contracts as reference platform",
]

COMMON_ASSUMPTIONS = [
    "VM transaction atomicity: a faulting invocation changes no storage and its notifications are void",
    "storage.Find iterates a snapshot taken at the call, in ascending byte order of keys",
    "runtime.CheckWitness(h) <=> h signed the transaction with a covering scope (Global in the harness) or h is the calling contract; witness scopes and gas are not modelled",
    "NeoVM integers are 256-bit signed; runtime.Notify enforces manifest event types (all hardforks enabled, as on the neotest chain)",
]

HOOK_COMMITS = []

NOT_APPLICABLE = []

TECH_INV = "machine-checked proof in Rocq (Coq): invariant by induction over histories + model/implementation correspondence"

PROPS = {
    "C01": {
        "level_text": "Invariant (supply = sum of balances, no negative balance, supply delta, inert failures, notification replay) proved in Coq for every history of the Balance model; model tied to the code by a differential correspondence check on the compiled contract",
        "level_note": "Trusted: Coq kernel; hand-written model validated by seeded differential runs against the real contract on the neo-go VM; VM atomicity, CheckWitness and Notify type checks as modelled; premise: lock targets are fresh",
        "technique": TECH_INV,
        "harness_test": "TestC01",
        "explanation": "Invariant proved by induction over all histories (Proofs/Balance.v); correspondence on seeded histories incl. the F1 witness corpus",
        "assumptions": ["quantifier's premise: lock targets hold nothing when locked (wf_bal); Null address arguments to Alphabet-only methods are outside the model's op type"],
    },
    "C02": {
        "level_text": "One-step authorisation theorem (a balance decreases only with the holder's witness or the Alphabet's; the public transfer can lower only a witnessed from) proved for every state, context and argument of the Balance model; correspondence as for C01",
        "level_note": "Trusted: Coq kernel; hand-written model validated differentially; witness scopes not modelled",
        "technique": "machine-checked proof in Rocq (Coq): one-step theorem for all states + model/implementation correspondence",
        "harness_test": "TestC02",
        "explanation": "One-step authorisation theorem valid from every state, hence over every history",
    },
    "C09": {
        "level_text": "Lock lifecycle theorems (lock creates exactly one fresh lock account; a tick releases every due lock in full to its parent, exactly once, and touches nothing else; early ticks are inert; burns reduce/delete; frame) proved for every state of the Balance model, the epoch loop by induction over the storage snapshot; until=0 refuted (known finding); correspondence on the compiled contract with ticks",
        "level_note": "Trusted: Coq kernel; hand-written model validated differentially; premise nochain (no due lock has a due lock as parent); until=0 never released is a recorded finding",
        "technique": TECH_INV,
        "harness_test": "TestC09",
        "explanation": "Lock lifecycle theorems over the epoch loop (snapshot iteration)",
    },
}
