"""Per-property configuration of ./check (harness test, trusted-base notes)."""

COMMON_TRUSTED = [
    "Coq 8.16.1 kernel (coqc, full .vo build through coq_makefile/make; vm_compute used, native_compute not used; coqchk -o in the thorough tier)",
    "no Axiom/Parameter/Admitted/admit anywhere (grep is part of every check); std++ gmap, lia, vm_compute need no axioms",
    "hand-written Gallina model of the contract (coq/Model), tied to /repo by the differential correspondence check: contracts compiled from the working tree, run by the real neo-go VM on a neotest chain, observables compared with the model inside Coq (cases_*.v, vm_compute)",
    "correspondence harness (/verif/harness, Go) and neo-go v0.107.0 VM/compiler/native contracts as reference platform",
]

COMMON_ASSUMPTIONS = [
    "VM transaction atomicity: a faulting invocation changes no storage and its notifications are void",
    "storage.Find iterates a snapshot taken at the call, in ascending byte order of keys",
    "runtime.CheckWitness(h) <=> h signed the transaction with a covering scope (Global in the harness) or h is the calling contract; witness scopes and gas are not modelled",
    "NeoVM integers are 256-bit signed; runtime.Notify enforces manifest event types (all hardforks enabled, as on the neotest chain)",
]

HOOK_COMMITS = ["02a5fb3"]

NOT_APPLICABLE = []

TECH_INV = "machine-checked proof in Rocq (Coq): invariant by induction over histories + model/implementation correspondence"

PROPS = {
    "C01": {
        "level_text": "Invariant (supply = sum of balances, no negative balance, supply delta, inert failures, notification replay) proved in Coq for every history of the Balance model; model tied to the code by a differential correspondence check on the compiled contract",
        "level_note": "Trusted: Coq kernel; hand-written model validated by seeded differential runs against the real contract on the neo-go VM; VM atomicity, CheckWitness and Notify type checks as modelled; premise: lock targets are fresh",
        "technique": TECH_INV,
        "harness_test": "TestC01",
        "explanation": "Invariant proved by induction over all histories (Proofs/Balance.v); correspondence on seeded histories incl. the F1 witness corpus",
        "assumptions": ["quantifier's premise: lock targets hold nothing when locked (wf_bal); Null address arguments to Alphabet-only methods are outside the model's op type"],
    },
    "C02": {
        "level_text": "One-step authorisation theorem (a balance decreases only with the holder's witness or the Alphabet's; the public transfer can lower only a witnessed from) proved for every state, context and argument of the Balance model; correspondence as for C01",
        "level_note": "Trusted: Coq kernel; hand-written model validated differentially; witness scopes not modelled",
        "technique": "machine-checked proof in Rocq (Coq): one-step theorem for all states + model/implementation correspondence",
        "harness_test": "TestC02",
        "explanation": "One-step authorisation theorem valid from every state, hence over every history",
    },
    "C09": {
        "level_text": "Lock lifecycle theorems (lock creates exactly one fresh lock account; a tick releases every due lock in full to its parent, exactly once, and touches nothing else; early ticks are inert; burns reduce/delete; frame) proved for every state of the Balance model, the epoch loop by induction over the storage snapshot; until=0 refuted (known finding); correspondence on the compiled contract with ticks",
        "level_note": "Trusted: Coq kernel; hand-written model validated differentially; premise nochain (no due lock has a due lock as parent); until=0 never released is a recorded finding",
        "technique": TECH_INV,
        "harness_test": "TestC09",
        "explanation": "Lock lifecycle theorems over the epoch loop (snapshot iteration)",
    },
    "C15": {
        "harness_test": "TestC15",
        "technique": "machine-checked proof in Rocq (Coq): closed finite statements over tables regenerated from the working tree by a translator + Go monitor/differential deployment",
        "level_text": "Byte equality of all 33 committed artifacts with their regeneration by the pinned compiler/generator, ABI/safemethods agreement, binding call table vs manifest (name, arity, unwrap, coverage), topological deployment order and version agreement, proved by vm_compute over tables the translator regenerates from /repo on every run",
        "level_note": "Trusted: Coq kernel incl. primitive Uint63.int (listed by Print Assumptions; no axioms), neo-go 0.107.0 compiler/NEF+manifest readers/rpcbinding generator, the translator (go/packages constant reader, go/ast walks over rpcbinding.go, _deploy call graph, deploy.Deploy), the unwrap-admissibility and generator-coverage tables stated in Proofs/Artifacts.v",
        "explanation": "Translator route: Gen/{Params,Abi,Artifacts}.v regenerated and re-proved each run; TestC15 recomputes the comparisons, checks the embedded files, and runs version() and all safe parameterless methods on committed vs fresh deployments",
        "trusted": ["harness/cmd/translate + harness/c15lib (Go AST/const extraction, artifact regeneration through compiler.CompileAndSave and rpcbinding.Generate with config.Version=0.107.0)"],
        "assumptions": ["NNS name <x>.neofs denotes the contract of directory contracts/<x>; dependency edges are those on the static call graph from _deploy (ResolveFSContract*, InferNNSHash with constant names)"],
    },
    "C17": {
        "level_text": "Refinement of an abstract per-decision tally (distinct voters, 20-block freshness, threshold 2n/3+1) by the stored ballots proved in Coq for every history of the Vote/NeoFS model; fires-iff, only-Alphabet, once-per-tally, stale-votes and threshold/quorum-intersection theorems; quorum of distinct current members proved for a fixed Alphabet list and refuted (vm_compute) across alphabetUpdate; model tied to the code by differential runs of the compiled neofs contract in notary-disabled mode",
        "level_note": "Trusted: Coq kernel; hand-written model validated differentially (n=1..7, exhaustive voter sequences, timing patterns 0/1/20/21 blocks); premise: ledger.CurrentIndex() non-decreasing; crypto primitives abstract; payee is a plain account; ballots survive alphabetUpdate (observation W1/W2, outside the quantifier's fixed list)",
        "technique": TECH_INV,
        "harness_test": "TestC17",
        "explanation": "Simulation between the contract model and the spec machine (same methods over the abstract tally) by induction over histories; step theorems read off a normal form of the gated methods",
        "assumptions": ["heights non-decreasing from one transaction to the next", "arguments of declared types, notifications below 1024 bytes, cheque payee has no contract deployed, fees paid by a separate account (harness conventions listed in Model/NeoFSVote.v)"],
    },
    "C03": {
        "level_text": "Requirement table for all 90 non-safe manifest methods (11 contracts) with kernel-checked threshold arithmetic, monotonicity, no-vacuous-row and table-coverage statements; inertness proved for every state/context/operation of the Balance model; for the other ten contracts the table is tied to the code by the exhaustive witness sweep on the compiled contracts (committees of 1 and 3 keys, thorough 1,2,3,4,5,7), every outcome re-checked against eval_req inside Coq",
        "level_note": "Trusted: Coq kernel; the hand-written table (each row cites the guard file:line; the harness's independent copy is compared row by row in Coq); inertness of contracts other than Balance is tested by the sweep, not proved; witness scopes other than Global/None and calls through other contracts are not swept; update's success path stops at CheckVersion (same version)",
        "technique": "machine-checked proof in Rocq (Coq): table properties + Balance inertness for all inputs; exhaustive signer-set sweep of the compiled contracts checked in Coq",
        "harness_test": "TestC03",
        "explanation": "eval_req of the table vs. observed effect for every (method, argument variant, signer set); coverage of the manifests compiled now is a closed vm_compute statement in the cases file",
        "assumptions": ["principals named by arguments / NNS owner and admin are supplied by the harness from the arguments it built and from ownerOf/properties read on chain"],
    },
    "C19": {
        "level_text": "Deposit acceptance rule (iff, exactly one Deposit), exact withdraw/candidate fee movement, exact cheque payout, balance identity gas(NeoFS)=initial+received-cheques over every history, honesty of Deposit notifications, emit permission and split arithmetic for all g>=0 and N>=1 (floors, non-negative rest, total conserved, fault branches), accept-only of Proxy/Processing/Alphabet: proved in Coq for every state, context, deployment and receiver behaviour; models tied to the code by a differential check on real native GAS/NEO of a neotest chain",
        "level_note": "Trusted: Coq kernel; shape of native GAS transfer (debit, credit, synchronous onNEP17Payment, fault reverts) as written in Model/Gas.v; hand-written models validated differentially; CreateStandardAccount/CreateMultisigAccount as finite tables; GAS minted by NEO is an input read back from the chain; premises of the identity: NeoFS never signs a transaction, no key's standard account is the contract hash; emit theorems assume non-negative balance and mint",
        "technique": TECH_INV,
        "harness_test": "TestC19",
        "explanation": "Method specifications for every callback/state (Proofs/GasNeoFS.v, GasAlphabet.v), lifted to histories by induction over fold_left (Proofs/GasWorld.v); correspondence on corpus + seeded histories over random deployments (committee 1..7, both notary modes, alphabet lists 1..7, fees unset/0/negative/oversized, inner ring 0..7)",
        "assumptions": ["every transaction is paid by a separate account, NEO is held by the validator: observed balances move only by what the contracts do", "Global witness scopes; arguments of declared types; sha256(key||'delete') modelled as the injective key++'delete'", "ledger non-negativity is a premise of the emit theorems (not proved as a history invariant)"],
    },
    "C20": {
        "level_text": "Refinement of the NeoFSID, configuration (Netmap, NeoFS) and estimation stores to reference objects keyed by the numbers (owner/key set, key->value map, (epoch,cid,node)->value map with exact cleanup by the two deltas) proved in Coq for every history; access theorems; for the epoch-prefix listings of reputation, audit and container: exact characterisation for every history, refutation of exactness (witness epochs 1/257) and exactness under the precise no-foreign-prefix condition; models tied to the code by differential correspondence on the compiled contracts",
        "level_note": "Trusted: Coq kernel; hand-written storage-level models validated differentially (SHA-256/RIPEMD-160 abstract: hashes supplied by the harness; truncated node hash collision-free on the history is a premise; container existence, witnesses and netmap.snapshot(1) are inputs read on the chain; NeoFS in notary mode; epoch-list capacity parametric, measured each run); six F2 call sites are recorded findings",
        "technique": TECH_INV,
        "harness_test": "TestC20",
        "explanation": "Refinement theorems by induction over all histories (Proofs/Stores*.v); listings via a generic prefix-scan library (Proofs/StoreLib.v); correspondence on seeded histories over epochs {0,1,127,128,255,256,257,65535,65536,2^31,-1} incl. the F2 witness corpus",
        "assumptions": ["container ids are 32-byte SHA-256 digests and node hashes 20-byte RIPEMD-160 digests whose 10-byte truncation does not collide within a history (ehist_ok); CleanupDelta >= 0", "neo-go 0.107: storage Get/Find with a key longer than 64 bytes faults (modelled, observed)"],
    },
    "C04": {
        "level_text": "Refinement of the Container storage (six key prefixes) to a registry spec (live map + tombstone set) proved in Coq for every history: index consistency invariant, all getters = spec getters (sorted, duplicate-free listings), get is a SHA-256 pre-image, not-found faults, deletion wipes every storage trace and is final, exactly one Put/Delete/SetEACLSuccess per successful call; the NNS-record part of deletion is refuted for the code as it is (second alias of a live container, finding C04/realias) and proved under 'at most one alias per id, alias domain live at deletion, foreign NNS writes are not ids'; model tied to the five compiled contracts by a differential correspondence check",
        "level_note": "Trusted: Coq kernel; hand-written model (Container + NNS slice + NeoFSID.addKey + Netmap config over the Balance model) validated by seeded differential runs on the neo-go VM (committee 1; 4 and 7 in thorough); SHA-256/Base58 injective (explicit premises); Serialize/Deserialize inverse; prefix families independent (raw scan compared); storage size limits, gas, NNS admin field, non-TXT records not modelled",
        "technique": TECH_INV,
        "harness_test": "TestC04",
        "explanation": "Invariant + refinement by induction over histories (Proofs/ContainerRegistry.v, ContainerNNS.v); corpus: F13 witness, fee thresholds, malformed inputs, NNS interplay incl. expired alias domain",
        "assumptions": ["cid_of (SHA-256) injective", "for C04_delete_total_partial: b58 injective, wf_alias (one alias per id; alias domain registered and unexpired at delete; direct NNS TXT writes are not Base58 ids)"],
    },
    "C05": {
        "level_text": "Exact-fee and atomicity theorems proved in Coq for every state, context (any Alphabet size, signer set, time) and argument of the combined Container/Balance/Netmap-config/NNS/NeoFSID model: a successful put/putNamed/putMeta debits the owner fee*N, credits fee per Alphabet account, emits exactly N TransferX (details 0x10++cid) + PutSuccess and stores the container in the same step, with the fee values configured at that moment (config = accepted setConfig calls over any history); insufficient balance, negative/missing fee or any other fault leaves all five states unchanged; correspondence on the compiled contracts",
        "level_note": "Trusted: Coq kernel; hand-written model validated differentially (balances steered to fee*N-1, fee*N, fee*N+1; fees 0,1,7,10^9,-1,2^254; committee 1 quick, 4 and 7 thorough); VM atomicity; relies on the F1 fix for negative fees",
        "technique": "machine-checked proof in Rocq (Coq): one-step theorems for all states + history lemma + model/implementation correspondence",
        "harness_test": "TestC05",
        "explanation": "One-step exactness from every state (Proofs/Container.v: pay_all_spec over Balance.transfer_spec), lifted over histories with fee changes",
        "assumptions": ["none beyond the common ones (no premise on hashes)"],
    },
    "C14": {
        "level_text": "Refinement theorem (storage-level roster with the real counter codec refines the list specification after every history: nodes/replicasNumbers = last commit in submission order, commit empties pending, acceptance = add_ok/commit_ok incl. contiguity) and soundness/completeness/submit theorems for verifyPlacementSignatures (for every store, matrix and verification relation) proved in Coq; model tied to the code by a differential correspondence check on the compiled container contract with real P-256 signatures",
        "level_note": "Trusted: Coq kernel; hand-written model validated differentially (ECDSA, key decoding, std.Deserialize and the 1024-byte event limit enter the model as tables computed by neo-go's own code); premises: 32-byte cid, other methods do not write under u/n/r++cid (frame_ok), no pending vector exceeds 65535 keys (range_ok; C14_counter_order shows the bound is sharp)",
        "technique": TECH_INV,
        "harness_test": "TestC14",
        "explanation": "Invariant Rc (storage encodes the list specification) by induction over all histories (Proofs/PlacementRefine.v); verify soundness/completeness by induction over the nested loops for an abstract sigvalid (Proofs/PlacementVerify.v); counter order by kernel computation over 0..65535; correspondence incl. the F6 witness corpus, 300-key vectors, boundary vector/REP values, submitObjectPut variants",
        "assumptions": ["replicas/publicKeys/sigs items are byte strings resp. integers (type-confused arguments such as a Null public-key list are outside the op type)", "sigvalid/pubvalid/deser/notify_fits are arbitrary in the theorems; in the correspondence they are tables computed by neo-go"],
    },
    "C18": {
        "level_text": "Equivalences for ALL byte strings between the NNS scanners (model of checkFragment/safeSplitAndCheck, checkIPv4, checkIPv6, checkRecord over models of std.StringSplit/Atoi10/Atoi16) and a grammar written from the property text and RFC 1035/4291: names, A, AAAA, TXT, CNAME, type dispatch; boolean grammar proved equivalent to the declarative one and evaluated on every observed string",
        "level_note": "Trusted: Coq kernel; hand-written models of the scanners and of three StdLib natives, tied to the compiled contract by 3-valued (accept / reject / fault-in-check) comparison on exhaustive families enumerated on both sides and on listed mutation/random strings; 'public unicast'/'global unicast' are the exclusion lists the source documents (DESIGN section 5); inertness of a rejection = VM atomicity (checked on 20 persisted rejected transactions)",
        "technique": "machine-checked proof in Rocq (Coq): scanner = grammar for all strings + model/implementation correspondence",
        "harness_test": "TestC18",
        "explanation": "Proofs by split/join algebra, characterisation lemmas for Atoi10/Atoi16, and a shape classification of the checkIPv6 loop; cases_C18*.v print M/MX (impl vs model) and MG (impl vs grammar_b)",
        "assumptions": ["entry points exercised: isAvailable, register, registerTLD (names); addRecord on a domain without records, setRecord on a domain with one record per type (data); invocations are test invocations on a fixed state, so non-syntactic faults are classified by their message ('TLD not found', 'TLD denied', 'not a TLD', ... come after the check)"],
    },
    "C13": {
        "level_text": "Pure helpers (fund division, nonce/VUB window, shared-data codec, checksum) proved for all inputs; Notary-bootstrap protocol model: safety proved for every committee size and every schedule (restarts, delays, foreign records); 'any live majority incl. the leader completes' proved for the repaired code on the fair schedule for n<=7 (and refuted for the code before fix commits 70faaf5/d247004, with an exact blocked/partial characterisation); real helpers, real enableNotary loops, real tick closures and the public deploy.Deploy are run on an in-process chain and compared with the model inside Coq",
        "level_note": "partial: liveness proved as possibility on the fair round-robin schedule for n<=7; end-to-end convergence/exactly-once/idempotent re-run is run (n=1..4 quick; 2..7 with cancel/restart and late member thorough), not proved. Trusted: Coq kernel; hand-written protocol model (signatures abstracted to (key index, tx data), RPC never fails, pooled txs do not expire) tied to the real ticks step by step; neo-go node/RPC/Notary service; hook deploy/verif_export.go (add-only, build tag verif)",
        "technique": "machine-checked proof in Rocq (Coq): invariant by induction over histories of a protocol model + computed characterisation for n<=7 + model/implementation correspondence by replaying observed schedules",
        "harness_test": "TestC13",
        "explanation": "(a) 900+ helper cases through the hook; (b) 23 (thorough 77) schedules of the real leader/signer ticks replayed in the model label by label, runs of the real enableNotary loops; (c) concurrent deploy.Deploy runs with final state and idle re-run compared with DeployProto.final_state",
        "assumptions": ["members hold GAS for their own transactions (pre-funded by the harness)", "the chain includes every valid pooled transaction eventually; ErrInvalidSignature (-508) / ErrVerificationFailed (-500) as mapped by neo-go rpcsrv"],
    },
    "C16": {
        "level_text": "Gate theorem (update halts only with the witness of the n/2+1 multisignature account of the committee - of the designated NeoFS Alphabet for neofs/processing - and only for PrevVersion <= v < Version; otherwise nothing changes), per-contract preservation theorems (key-by-key characterisation of the Balance and Container re-keying loops over the Find snapshot, Netmap snapshot/candidate re-encoding via a proved Serialize/Deserialize round trip, subscribers, NNS TLD owners, notary leftovers, trivial contracts) and the pending-votes block proved in Coq for every storage, version and signer context; container listing preservation refuted for a 57-byte estimation key (known finding) and proved under a decidable layout predicate; model tied to the code by differential runs of the 11 real contracts (version constant patched per deployed version) and of real migrations on injected legacy storages",
        "level_note": "Trusted: Coq kernel; hand-written model validated differentially (gate sweep, storage-injector stub, Alphabet GAS distribution); CreateMultisigAccount/CreateStandardAccount/RIPEMD-160 abstract (tables of real values in the cases); Management's NEF/manifest checks abstracted as a boolean; legacy read API defined from the legacy layout; witness scopes and gas not modelled",
        "technique": "machine-checked proof in Rocq (Coq): one-step theorems for all states + model/implementation correspondence",
        "harness_test": "TestC16",
        "explanation": "Gate/preservation/pending-votes theorems valid from every storage (Proofs/Migration.v); correspondence: 11 real contracts x deployed versions around both bounds x 9 signer sets, plus seeded legacy storages migrated by the real _deploy through the injector stub, plus the Alphabet GAS distribution",
        "assumptions": ["layout premises of the quantifier: legacy_wf_balance (no prefixed namesake of an account), legacy_wf_container (decidable; every 57-byte key is a genuine owner-index entry, nothing else under 'x'/'o'), legacy snapshot/candidate values were written by std.Serialize", "recipients of the Alphabet's GAS transfers accept them (oracle); Notary native not active on the test chain"],
    },
    "C10": {
        "level_text": "NEP-11 accounting invariant (supply = number of non-TLD names ever registered = sum of balances = size of the token index; tokensOf exact, expired names included), availability boundary (exp-1, exp, exp+1), takeover of expired names, transfer/renew frames, readers need a live chain, exactly one Transfer notification per ownership change: proved in Coq for every history of the NNS model (any ops, any times); model tied to the compiled contract by differential correspondence incl. block-time stepping across expiry",
        "level_note": "Trusted: Coq kernel; hand-written model validated differentially (payer pays fees, others only witness; block timestamps chosen by the harness); premise: name hash injective",
        "technique": TECH_INV,
        "harness_test": "TestC10",
        "explanation": "Invariant by induction over all histories (Proofs/NNSAcct.v) + correspondence on seeded histories with time jumps to exp-1/exp/exp+1",
        "assumptions": ["RIPEMD-160 injective on names (explicit premise hash_inj / injective hash)", "name/record-data syntax is C18's (Section variables, boolean tables in the cases files)", "receiving contracts' onNEP11Payment does not re-enter NNS; gas not modelled except BurnGas needing > 0"],
    },
    "C11": {
        "level_text": "authorised(ctx, state, op) written from the property text, independent of the model's control flow; C11_sound (any state change or notification implies authorised) and C11_unauthorised_inert for every state, context and method; follows-ownership corollaries after transfer, takeover and for registered sub-names over histories; committee majority arithmetic",
        "level_note": "Trusted: Coq kernel; hand-written model validated differentially with signer sets {owner, admin, former owner, former admin, parent owner, stranger, committee}; no premise",
        "technique": "machine-checked proof in Rocq (Coq): one-step theorem for all states + history corollaries + model/implementation correspondence",
        "harness_test": "TestC11",
        "explanation": "One-step soundness/inertness from every state (Proofs/NNSAuth.v), lifted to histories",
        "assumptions": ["RIPEMD-160 injective on names (explicit premise hash_inj / injective hash)", "name/record-data syntax is C18's (Section variables, boolean tables in the cases files)", "receiving contracts' onNEP11Payment does not re-enter NNS; gas not modelled except BurnGas needing > 0"],
    },
    "C12": {
        "level_text": "Record-store invariant (ids 0..k-1, k<=16, at most one CNAME/SOA), the three readers = spec lists, add appends / set replaces / delete empties one type and never SOA (for all typ incl. byte aliases), records located under the longest registered unexpired enclosing name, SOA serial refreshed, resolve = resolve_spec with the exact fault condition (three or more links), conflicting parent records block register, expired names unreachable, distinct values: proved in Coq for every history; correspondence on the compiled contract",
        "level_note": "Trusted: Coq kernel; hand-written model validated differentially (CNAME graphs of depth 0..4 with cycles, trailing dots, deep sub-names, expiry); premise: name hash injective",
        "technique": TECH_INV,
        "harness_test": "TestC12",
        "explanation": "Invariant + refinement by induction over all histories (Proofs/NNSRecords.v); corpus keeps the F14 (setRecord duplicate) and deep-sub-name reader histories as regression guards",
        "assumptions": ["RIPEMD-160 injective on names (explicit premise hash_inj / injective hash)", "name/record-data syntax is C18's (Section variables, boolean tables in the cases files)", "receiving contracts' onNEP11Payment does not re-enter NNS; gas not modelled except BurnGas needing > 0"],
    },
    "C06": {
        "level_text": "Tick theorems (success iff Alphabet witness, e > epoch and no rejecting subscriber; epoch monotone and changing only in successful ticks; publication of the candidate set in both formats with tick height, candidates unchanged; ordered exactly-once fan-out; idempotent subscription with indices 0,1,2,...) proved for every history of the Netmap model from a deployment; model tied to the code by differential runs with probe subscriber contracts and the real Balance subscriber",
        "level_note": "Trusted: Coq kernel; hand-written model validated differentially; subscribers abstract (sub_ok/sub_accepts, do not call back into Netmap); per-epoch list statements for epochs < 2^32 (four-byte keys); storage value size limit and gas not modelled",
        "technique": TECH_INV,
        "harness_test": "TestC06",
        "explanation": "Invariant (count 1..254, ring index in range, indexed subscriber keys, lists only for past epochs) by induction over all histories; exact outcome equation of NewEpoch",
        "assumptions": ["subscriber contracts do not re-enter Netmap mutators; fewer than 256 subscribers is enforced by the model (256th subscription faults; not reachable in the correspondence)"],
    },
    "C07": {
        "level_text": "Refinement of the candidate registry of the property text (success predicate cs_ok and effect cs_apply) by both candidate lists, proved for every history of the Netmap model, plus one-step theorems: state-only update in every representation, removal from both lists, successful no-op removal, faults for unknown candidate/state and malformed keys/infos, double witness",
        "level_note": "Trusted: Coq kernel; hand-written model validated differentially (keys in legacy/structured/both/neither, invalid states, malformed and over-long keys); CheckWitness of a 33-byte key = that key signed; witness scopes not modelled",
        "technique": TECH_INV,
        "harness_test": "TestC07",
        "explanation": "refines (nrun ops) (cs_run ops) by induction; Go monitor runs an independent reference state machine written from the property text",
    },
    "C08": {
        "level_text": "Ring invariant with ghost window across ticks and updateSnapshotCount (enlarging and both shrinking cases, general proof), snapshot/snapshotByEpoch/listNodes/netmap return exactly the published map inside the window and nothing outside, resize preserves min(window,new) maps and leaks nothing, every reachable state can tick, bad counts rejected, exact acceptance condition of a resize (Put(nil) observation) - proved for every history with consecutive successful ticks; count positivity for all histories",
        "level_note": "Trusted: Coq kernel; hand-written model validated differentially (quick: corpus + 30 random points of the scope; thorough: exhaustive (old,new,position) for counts <= 12 + 150 random histories with up to 3 resizes); listNodes statements for 0 <= e, epoch < 2^32 (four-byte key aliasing of other arguments is an observation); storage value size limit and gas not modelled",
        "technique": TECH_INV,
        "harness_test": "TestC08",
        "explanation": "Pointwise slot description slot_val(cur,count,window,epoch,pub) preserved by tick and by the move/delete loops (loop lemma move_fold_spec); per-epoch list invariant uses injectivity of fourBytesBE on [0,2^32) and a finite check that negative loop bounds alias only future epochs",
        "assumptions": ["quantifier's premise: every successful tick is epoch+1 (consecutive, decidable)"],
    },
}
