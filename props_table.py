"""Per-property configuration of ./check (harness test, trusted-base notes)."""

COMMON_TRUSTED = [
    "Coq 8.16.1 kernel (coqc, full .vo build through coq_makefile/make; vm_compute used, native_compute not used; coqchk -o in the thorough tier)",
    "no Axiom/Parameter/Admitted/admit anywhere (grep is part of every check); std++ gmap, lia, vm_compute need no axioms",
    "hand-written Gallina model of the contract (coq/Model), tied to /repo by the differential correspondence check: contracts compiled from the working tree, run by the real neo-go VM on a neotest chain, observables compared with the model inside Coq (cases_*.v, vm_compute)",
    "correspondence harness (/verif/harness, Go) and neo-go v0.107.0 VM/compiler/native contracts as reference platform",
]

COMMON_ASSUMPTIONS = [
    "VM transaction atomicity: a faulting invocation changes no storage and its notifications are void",
    "storage.Find iterates a snapshot taken at the call, in ascending byte order of keys",
    "runtime.CheckWitness(h) <=> h signed the transaction with a covering scope (Global in the harness) or h is the calling contract; witness scopes and gas are not modelled",
    "NeoVM integers are 256-bit signed; runtime.Notify enforces manifest event types (all hardforks enabled, as on the neotest chain)",
]

PROPS = {
    "C01": {
        "harness_test": "TestC01",
        "explanation": "Invariant proved by induction over all histories (Proofs/Balance.v); correspondence on seeded histories incl. the F1 witness corpus",
        "assumptions": ["quantifier's premise: lock targets hold nothing when locked (wf_bal); Null address arguments to Alphabet-only methods are outside the model's op type"],
    },
    "C02": {
        "harness_test": "TestC02",
        "explanation": "One-step authorisation theorem valid from every state, hence over every history",
    },
    "C09": {
        "harness_test": "TestC09",
        "explanation": "Lock lifecycle theorems over the epoch loop (snapshot iteration)",
    },
}
