(** Base/Prelude.v — common substrate: bytes, outcomes, observable values.
    std++ style (gmap); no axioms. *)
From stdpp Require Export base list gmap sorting.
From Coq Require Export ZArith Lia.
From Coq Require Import ZifyBool ZifyNat ZifyN.

(** Bytes are lists of [N] (each < 256 when they come from the chain). *)
Definition bytes := list N.

Definition bytes_eqb (a b : bytes) : bool := bool_decide (a = b).
Lemma bytes_eqb_eq a b : bytes_eqb a b = true <-> a = b.
Proof. unfold bytes_eqb. rewrite bool_decide_eq_true. tauto. Qed.
Lemma bytes_eqb_refl a : bytes_eqb a a = true.
Proof. apply bytes_eqb_eq. reflexivity. Qed.
Lemma bytes_eqb_neq a b : bytes_eqb a b = false <-> a <> b.
Proof. unfold bytes_eqb. rewrite bool_decide_eq_false. tauto. Qed.

(** Byte-lexicographic order: the order of [storage.Find]. *)
Fixpoint bytes_leb (a b : bytes) : bool :=
  match a, b with
  | [], _ => true
  | _ :: _, [] => false
  | x :: a', y :: b' =>
      if N.ltb x y then true else if N.eqb x y then bytes_leb a' b' else false
  end.

Definition bytes_le (a b : bytes) : Prop := bytes_leb a b = true.
Global Instance bytes_le_dec a b : Decision (bytes_le a b).
Proof. unfold bytes_le. apply _. Defined.

Lemma bytes_leb_refl a : bytes_leb a a = true.
Proof. induction a as [|x a IH]; simpl; [reflexivity|].
  rewrite N.ltb_irrefl, N.eqb_refl. exact IH. Qed.

Lemma bytes_leb_total a b : bytes_leb a b = true \/ bytes_leb b a = true.
Proof.
  revert b; induction a as [|x a IH]; intros [|y b]; simpl; auto.
  destruct (N.ltb_spec x y), (N.ltb_spec y x), (N.eqb_spec x y), (N.eqb_spec y x);
    auto; try lia.
Qed.

Lemma bytes_leb_trans a b c :
  bytes_leb a b = true -> bytes_leb b c = true -> bytes_leb a c = true.
Proof.
  revert b c; induction a as [|x a IH]; intros [|y b] [|z c]; simpl; auto; try discriminate.
  destruct (N.ltb_spec x y), (N.ltb_spec y z), (N.ltb_spec x z),
    (N.eqb_spec x y), (N.eqb_spec y z), (N.eqb_spec x z);
    auto; try lia; try discriminate.
  apply IH.
Qed.

Lemma bytes_leb_antisym a b :
  bytes_leb a b = true -> bytes_leb b a = true -> a = b.
Proof.
  revert b; induction a as [|x a IH]; intros [|y b]; simpl; auto; try discriminate.
  destruct (N.ltb_spec x y), (N.ltb_spec y x), (N.eqb_spec x y), (N.eqb_spec y x);
    try lia; try discriminate.
  intros H1 H2. subst. f_equal. auto.
Qed.

Global Instance bytes_le_total : Total bytes_le.
Proof. intros a b. apply bytes_leb_total. Qed.
Global Instance bytes_le_trans : Transitive bytes_le.
Proof. intros a b c. apply bytes_leb_trans. Qed.
Global Instance bytes_le_refl : Reflexive bytes_le.
Proof. intros a. apply bytes_leb_refl. Qed.
Global Instance bytes_le_antisym : AntiSymm (=) bytes_le.
Proof. intros a b. apply bytes_leb_antisym. Qed.

Fixpoint is_prefix (p b : bytes) : bool :=
  match p, b with
  | [], _ => true
  | _ :: _, [] => false
  | x :: p', y :: b' => N.eqb x y && is_prefix p' b'
  end.

Lemma is_prefix_app p b : is_prefix p b = true <-> exists r, b = p ++ r.
Proof.
  revert b; induction p as [|x p IH]; intros b; simpl.
  - split; eauto.
  - destruct b as [|y b]; [split; [discriminate|intros [r Hr]; discriminate]|].
    rewrite andb_true_iff, N.eqb_eq, IH. split.
    + intros [-> [r ->]]. eauto.
    + intros [r Hr]. injection Hr as -> ->. eauto.
Qed.

(** Sorted key listing of a map keyed by bytes: iteration order of
    [storage.Find]. *)
Definition skeys {V} (m : gmap bytes V) : list bytes :=
  merge_sort bytes_le (map fst (map_to_list m)).

Lemma skeys_perm {V} (m : gmap bytes V) : skeys m ≡ₚ map fst (map_to_list m).
Proof. apply merge_sort_Permutation. Qed.

Lemma elem_of_skeys {V} (m : gmap bytes V) k : k ∈ skeys m <-> is_Some (m !! k).
Proof.
  rewrite skeys_perm, elem_of_list_fmap. split.
  - intros [[k' v] [-> Hin]]. apply elem_of_map_to_list in Hin. eauto.
  - intros [v Hv]. exists (k, v). split; [reflexivity|]. by apply elem_of_map_to_list.
Qed.

Lemma NoDup_skeys {V} (m : gmap bytes V) : NoDup (skeys m).
Proof. rewrite skeys_perm. apply NoDup_fst_map_to_list. Qed.

Lemma Sorted_skeys {V} (m : gmap bytes V) : Sorted bytes_le (skeys m).
Proof. apply Sorted_merge_sort. apply _. Qed.

(** Outcome of a contract invocation. *)
Inductive outcome (A : Type) : Type := Halt (a : A) | Fault.
Arguments Halt {A} a.
Arguments Fault {A}.

Definition obind {A B} (o : outcome A) (f : A -> outcome B) : outcome B :=
  match o with Halt a => f a | Fault => Fault end.
Notation "x <-! o ; k" := (obind o (fun x => k))
  (at level 100, o at next level, k at level 200, right associativity).
Notation "' p <-! o ; k" := (obind o (fun x => match x with p => k end))
  (at level 100, p pattern, o at next level, k at level 200, right associativity).
Definition oassert (b : bool) : outcome unit := if b then Halt tt else Fault.

(** NeoVM integers are 256-bit signed; arithmetic results outside fault. *)
Definition int_ok (z : Z) : bool := ((- 2 ^ 255 <=? z) && (z <? 2 ^ 255))%Z.
Definition vm_add (a b : Z) : outcome Z :=
  if int_ok (a + b) then Halt (a + b)%Z else Fault.
Definition vm_sub (a b : Z) : outcome Z :=
  if int_ok (a - b) then Halt (a - b)%Z else Fault.

(** Observable values: the canonical form in which the harness writes down
    what the implementation returned and the model predicts. *)
Inductive val : Type :=
| VInt (z : Z)
| VBytes (b : bytes)
| VBool (b : bool)
| VNull
| VFault
| VList (l : list val).

Fixpoint val_eqb (a b : val) {struct a} : bool :=
  match a, b with
  | VInt x, VInt y => Z.eqb x y
  | VBytes x, VBytes y => bytes_eqb x y
  | VBool x, VBool y => Bool.eqb x y
  | VNull, VNull => true
  | VFault, VFault => true
  | VList xs, VList ys =>
      (fix go (xs ys : list val) : bool :=
         match xs, ys with
         | [], [] => true
         | x :: xs', y :: ys' => val_eqb x y && go xs' ys'
         | _, _ => false
         end) xs ys
  | _, _ => false
  end.

(** Generic comparison of a model run with the observed trace:
    [run_case] returns the index of the first step whose model observable
    differs from the recorded one, with the model's value. *)
Section Compare.
  Context {S O : Type} (step : S -> O -> S * val).

  Fixpoint run_case (s : S) (i : nat) (tr : list (O * val)) : option (nat * val) :=
    match tr with
    | [] => None
    | (o, expected) :: tr' =>
        let '(s', got) := step s o in
        if val_eqb got expected then run_case s' (Datatypes.S i) tr'
        else Some (i, got)
    end.
End Compare.

Fixpoint failures_from {X} (c : nat) (rs : list (option X)) : list (nat * X) :=
  match rs with
  | [] => []
  | None :: rest => failures_from (Datatypes.S c) rest
  | Some x :: rest => (c, x) :: failures_from (Datatypes.S c) rest
  end.
