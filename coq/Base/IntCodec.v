(** Base/IntCodec.v — NeoVM integer <-> byte-string conversion: minimal
    little-endian two's complement, [0 |-> []]. *)
From Verif Require Import Base.Prelude.
Local Open Scope Z_scope.

Fixpoint le_bytes (k : nat) (v : Z) : bytes :=
  match k with
  | O => []
  | S k' => Z.to_N (v mod 256) :: le_bytes k' (v / 256)
  end.

Definition int_nbytes (z : Z) : nat :=
  if z =? 0 then O
  else let m := if z <? 0 then - z - 1 else z in
       Z.to_nat ((Z.log2 m + 1) / 8 + 1).

Definition int_to_bytes (z : Z) : bytes := le_bytes (int_nbytes z) z.

Fixpoint le_to_Z (b : bytes) : Z :=
  match b with
  | [] => 0
  | x :: b' => Z.of_N x + 256 * le_to_Z b'
  end.

Definition bytes_to_int (b : bytes) : Z :=
  let u := le_to_Z b in
  let k := Z.of_nat (length b) in
  if (k =? 0) then 0
  else if u <? 2 ^ (8 * k - 1) then u else u - 2 ^ (8 * k).

Example int_to_bytes_samples :
  map int_to_bytes [0; 1; 127; 128; 255; 256; 257; -1; -128; -129; 32767; 32768; 65535; 65536]
  = [[]; [1]; [127]; [128; 0]; [255; 0]; [0; 1]; [1; 1]; [255]; [128]; [127; 255];
     [255; 127]; [0; 128; 0]; [255; 255; 0]; [0; 0; 1]]%N.
Proof. vm_compute. reflexivity. Qed.

Example bytes_to_int_samples :
  map (fun z => bytes_to_int (int_to_bytes z))
      [0; 1; 127; 128; 255; 256; 257; -1; -128; -129; 32767; 32768; 65535; 65536; -32768; -32769]
  = [0; 1; 127; 128; 255; 256; 257; -1; -128; -129; 32767; 32768; 65535; 65536; -32768; -32769].
Proof. vm_compute. reflexivity. Qed.
