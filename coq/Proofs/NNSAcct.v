(** Proofs/NNSAcct.v — NNS ownership lifecycle and NEP-11 accounting
    (property C10).  Model: Model/NNS.v; shared tactics: Proofs/NNSBase.v.

    Contents
      1. generic facts: sums / counts over gmaps, split/join of names;
      2. the accounting invariant [acct_inv] and the five shapes of a state
         transition that preserve it;
      3. inversion lemmas for every mutating method, frame lemmas for the
         safe ones;
      4. [acct_inv] along every history; the C10 lemmas proper.

    The only assumption (a Section hypothesis that becomes an explicit premise
    of the closed theorems): [hash] (RIPEMD-160) is injective. *)
From Verif Require Import Base.Prelude Model.NNS Proofs.NNSBase.
From Coq Require Import ZifyBool ZifyNat ZifyN.
Local Open Scope Z_scope.

(** * 1. Generic facts *)

(** ** Sum of a map of integers *)
Definition zsum (m : gmap bytes Z) : Z := map_fold (fun _ v acc => v + acc) 0 m.

Lemma zsum_empty : zsum ∅ = 0.
Proof. unfold zsum. apply map_fold_empty. Qed.

Lemma zsum_insert_fresh m k v : m !! k = None -> zsum (<[k:=v]> m) = v + zsum m.
Proof.
  intros Hk. unfold zsum. rewrite map_fold_insert_L; [reflexivity| |exact Hk].
  intros; lia.
Qed.

Lemma zsum_delete m k : zsum (delete k m) = zsum m - default 0 (m !! k).
Proof.
  destruct (m !! k) as [v|] eqn:Hk; cbn [from_option id].
  - rewrite <- (insert_delete m k v Hk) at 2.
    rewrite zsum_insert_fresh by apply lookup_delete. lia.
  - rewrite delete_notin by exact Hk. lia.
Qed.

Lemma zsum_insert m k v : zsum (<[k:=v]> m) = zsum m - default 0 (m !! k) + v.
Proof.
  rewrite <- insert_delete_insert. rewrite zsum_insert_fresh by apply lookup_delete.
  rewrite zsum_delete. lia.
Qed.

(** ** Number of entries of a map that satisfy a predicate *)
Section Count.
  Context `{Countable K} {A : Type} (P : K * A -> Prop) `{!forall x, Decision (P x)}.

  Definition mcount (m : gmap K A) : nat := length (filter P (map_to_list m)).

  Lemma mcount_empty : mcount ∅ = 0%nat.
  Proof. unfold mcount. rewrite map_to_list_empty. reflexivity. Qed.

  Lemma mcount_insert_fresh m k v :
    m !! k = None ->
    mcount (<[k:=v]> m) = if decide (P (k, v)) then S (mcount m) else mcount m.
  Proof.
    intros Hk. unfold mcount.
    rewrite (Permutation_length (filter_Permutation P _ _ (map_to_list_insert m k v Hk))).
    rewrite filter_cons. destruct (decide (P (k, v))); reflexivity.
  Qed.

  Lemma mcount_delete m k v :
    m !! k = Some v ->
    mcount m = if decide (P (k, v)) then S (mcount (delete k m)) else mcount (delete k m).
  Proof.
    intros Hk. unfold mcount.
    rewrite <- (Permutation_length (filter_Permutation P _ _ (map_to_list_delete m k v Hk))).
    rewrite filter_cons. destruct (decide (P (k, v))); reflexivity.
  Qed.

  Lemma mcount_insert_over m k v v' :
    m !! k = Some v -> (P (k, v) <-> P (k, v')) ->
    mcount (<[k:=v']> m) = mcount m.
  Proof.
    intros Hk Hiff. rewrite <- insert_delete_insert.
    rewrite mcount_insert_fresh by apply lookup_delete.
    rewrite (mcount_delete m k v Hk).
    destruct (decide (P (k, v'))), (decide (P (k, v))); tauto.
  Qed.

  Lemma mcount_le_size m : (mcount m <= size m)%nat.
  Proof. unfold mcount, size, map_size. apply filter_length. Qed.
End Count.

Lemma filter_all {A} (P : A -> Prop) `{!forall x, Decision (P x)} (l : list A) :
  (forall x, P x) -> filter P l = l.
Proof.
  intros HP. induction l as [|x l IH]; [reflexivity|].
  rewrite filter_cons_True by apply HP. f_equal. exact IH.
Qed.

Lemma omap_filter_length {A B} (f : A -> option B) (P : A -> Prop) `{!forall x, Decision (P x)} l :
  (forall x, is_Some (f x) <-> P x) -> length (omap f l) = length (filter P l).
Proof.
  intros Hf. induction l as [|x l IH]; [reflexivity|]. csimpl. rewrite filter_cons.
  destruct (f x) as [y|] eqn:E, (decide (P x)) as [p|np]; cbn [length].
  - f_equal. exact IH.
  - exfalso. apply np, Hf. rewrite E. eauto.
  - exfalso. apply Hf in p. rewrite E in p. destruct p; discriminate.
  - exact IH.
Qed.

Lemma NoDup_omap {A B} (f : A -> option B) l :
  NoDup l ->
  (forall x y z, x ∈ l -> y ∈ l -> f x = Some z -> f y = Some z -> x = y) ->
  NoDup (omap f l).
Proof.
  induction 1 as [|x l Hx Hnd IH]; intros Hinj; csimpl; [constructor|].
  assert (IH' : NoDup (omap f l)).
  { apply IH. intros a b z Ha Hb. apply Hinj; apply elem_of_list_further; assumption. }
  destruct (f x) as [z|] eqn:E; [|exact IH']. constructor; [|exact IH'].
  intros Hin. apply elem_of_list_omap in Hin as (y & Hy & Hfy).
  assert (x = y).
  { apply (Hinj x y z); [apply elem_of_list_here|apply elem_of_list_further, Hy|exact E|exact Hfy]. }
  subst y. contradiction.
Qed.

(** ** [strings.Split] / [strings.Join] *)
Lemma split_on_nonnil sep s : split_on sep s <> [].
Proof.
  destruct s as [|c s]; cbn [split_on]; [discriminate|].
  destruct (N.eqb c sep); [discriminate|]. destruct (split_on sep s); discriminate.
Qed.

Lemma join_split sep s : join_with sep (split_on sep s) = s.
Proof.
  induction s as [|c s IH]; [reflexivity|]. cbn [split_on].
  destruct (N.eqb_spec c sep) as [->|Hne].
  - pose proof (split_on_nonnil sep s) as Hn.
    destruct (split_on sep s) as [|f fs] eqn:E; [congruence|].
    cbn [join_with]. cbn [join_with] in IH. rewrite IH. reflexivity.
  - pose proof (split_on_nonnil sep s) as Hn.
    destruct (split_on sep s) as [|f fs] eqn:E; [congruence|].
    destruct fs as [|g fs].
    + cbn [join_with] in *. congruence.
    + cbn [join_with] in *. rewrite <- IH. reflexivity.
Qed.

Lemma join_split_dot n : join_dot (split_dot n) = n.
Proof. apply join_split. Qed.

Lemma split_dot_length_pos n : (1 <= length (split_dot n))%nat.
Proof.
  pose proof (split_on_nonnil DOT n) as Hn. unfold split_dot.
  destruct (split_on DOT n); [congruence|cbn [length]; lia].
Qed.

(** a name with a single fragment: a TLD *)
Definition is_tld (n : bytes) : bool := (length (split_dot n) =? 1)%nat.

(** ** Arithmetic of the VM *)
Lemma vm_mul_halt a b x : vm_mul a b = Halt x -> x = a * b.
Proof. unfold vm_mul. destruct (int_ok (a * b)); [|discriminate]. intros E. injection E as <-. reflexivity. Qed.
Lemma vm_add_halt a b x : vm_add a b = Halt x -> x = a + b.
Proof. unfold vm_add. destruct (int_ok (a + b)); [|discriminate]. intros E. injection E as <-. reflexivity. Qed.

(** ** [updateBalance] on the two maps *)
Definition bal_adj (m : gmap bytes Z) (o : bytes) (d : Z) : gmap bytes Z :=
  let b := default 0 (m !! o) + d in
  if b =? 0 then delete o m else <[o := b]> m.

Lemma bal_adj_lookup m o d x :
  default 0 (bal_adj m o d !! x) = default 0 (m !! x) + (if decide (x = o) then d else 0).
Proof.
  unfold bal_adj. destruct (default 0 (m !! o) + d =? 0) eqn:E.
  - destruct (decide (x = o)) as [->|Hne].
    + rewrite lookup_delete. cbn [from_option id]. lia.
    + rewrite lookup_delete_ne by congruence. lia.
  - destruct (decide (x = o)) as [->|Hne].
    + rewrite lookup_insert. cbn [from_option id]. lia.
    + rewrite lookup_insert_ne by congruence. lia.
Qed.

Lemma bal_adj_nz m o d :
  (forall x, m !! x <> Some 0) -> forall x, bal_adj m o d !! x <> Some 0.
Proof.
  intros Hm x. unfold bal_adj. destruct (default 0 (m !! o) + d =? 0) eqn:E.
  - destruct (decide (x = o)) as [->|Hne].
    + rewrite lookup_delete. discriminate.
    + rewrite lookup_delete_ne by congruence. apply Hm.
  - destruct (decide (x = o)) as [->|Hne].
    + rewrite lookup_insert. intros Hx. injection Hx as Hx. lia.
    + rewrite lookup_insert_ne by congruence. apply Hm.
Qed.

Lemma zsum_bal_adj m o d : zsum (bal_adj m o d) = zsum m + d.
Proof.
  unfold bal_adj. destruct (default 0 (m !! o) + d =? 0) eqn:E.
  - rewrite zsum_delete. lia.
  - rewrite zsum_insert. lia.
Qed.

(** number of token-index entries of owner [o] *)
Definition cnt (o : bytes) (m : gmap (bytes * bytes) bytes) : nat :=
  mcount (fun kv : (bytes * bytes) * bytes => fst (fst kv) = o) m.
(** number of non-TLD name states *)
Definition nontld_count (m : gmap bytes namestate) : nat :=
  mcount (fun kv : bytes * namestate => is_tld (ns_name (snd kv)) = false) m.

Lemma cnt_insert_fresh x m o k n :
  m !! (o, k) = None ->
  cnt x (<[(o, k) := n]> m) = if decide (x = o) then S (cnt x m) else cnt x m.
Proof.
  intros Hk. unfold cnt. rewrite mcount_insert_fresh by exact Hk. cbn [fst].
  destruct (decide (o = x)), (decide (x = o)); congruence.
Qed.

Lemma cnt_delete x m o k n :
  m !! (o, k) = Some n ->
  cnt x m = if decide (x = o) then S (cnt x (delete (o, k) m)) else cnt x (delete (o, k) m).
Proof.
  intros Hk. unfold cnt. rewrite (mcount_delete _ m (o, k) n Hk). cbn [fst].
  destruct (decide (o = x)), (decide (x = o)); congruence.
Qed.

Section Acct.
Variable hash : bytes -> bytes.
Variable valid_name : bytes -> bool.
Variable valid_data : Z -> bytes -> bool.
Variable str_ok : bytes -> bool.
Hypothesis hash_inj : forall a b, hash a = hash b -> a = b.

Collection noinj := hash valid_name valid_data str_ok.

Notation nexec := (nexec hash valid_name valid_data str_ok).
Notation nstep := (nstep hash valid_name valid_data str_ok).
Notation nrun := (nrun hash valid_name valid_data str_ok).
Notation nrun_from := (nrun_from hash valid_name valid_data str_ok).
Notation get_ns := (get_ns hash).
Notation live := (live hash).
Notation parent_expired := (parent_expired hash).
Notation parent_conflict := (parent_conflict hash).

(** * 2. The accounting invariant *)
Record acct_inv (s : nstate) : Prop := mkInv {
  (* (a) a name state is stored under the hash of its own name *)
  inv_key : forall k ns, names s !! k = Some ns -> k = hash (ns_name ns);
  (* (b) TLDs are committee-owned, other names have a 20-byte owner *)
  inv_own : forall k ns, names s !! k = Some ns ->
            if is_tld (ns_name ns) then ns_owner ns = None
            else exists o, ns_owner ns = Some o /\ length o = 20%nat;
  (* (c) the token index = the non-TLD name states, by owner *)
  inv_tok : forall o k n, acctok s !! (o, k) = Some n <->
            exists ns, names s !! k = Some ns /\ ns_owner ns = Some o /\ ns_name ns = n /\ is_tld n = false;
  (* (d) balance = number of index entries of the owner; no zero is stored *)
  inv_bal : forall o, default 0 (balances s !! o) = Z.of_nat (cnt o (acctok s));
  inv_nz : forall o, balances s !! o <> Some 0;
  (* (e) supply = size of the index = number of non-TLD names *)
  inv_sup : supply s = Z.of_nat (size (acctok s));
  inv_cnt : size (acctok s) = nontld_count (names s);
  (* (f) *)
  inv_sum : zsum (balances s) = supply s
}.

Lemma acct_inv_init : acct_inv ninit.
Proof.
  split; cbn [ninit names acctok balances supply].
  - intros k ns Hk. rewrite lookup_empty in Hk. discriminate.
  - intros k ns Hk. rewrite lookup_empty in Hk. discriminate.
  - intros o k n. rewrite lookup_empty. split; [discriminate|].
    intros (ns & Hk & _). rewrite lookup_empty in Hk. discriminate.
  - intros o. rewrite lookup_empty. unfold cnt. rewrite mcount_empty. reflexivity.
  - intros o. rewrite lookup_empty. discriminate.
  - rewrite map_size_empty. reflexivity.
  - rewrite map_size_empty. unfold nontld_count. rewrite mcount_empty. reflexivity.
  - apply zsum_empty.
Qed.

(** ** Shapes of transitions *)

(** nothing of the accounting part changes *)
Definition acc_same (s s' : nstate) : Prop :=
  names s' = names s /\ supply s' = supply s /\ balances s' = balances s /\ acctok s' = acctok s.

Lemma inv_same s s' : acct_inv s -> acc_same s s' -> acct_inv s'.
Proof.
  intros [I1 I2 I3 I4 I5 I6 I7 I8] (E1 & E2 & E3 & E4).
  split; rewrite ?E1, ?E2, ?E3, ?E4; assumption.
Qed.

(** an existing name state is rewritten keeping name and owner *)
Definition acc_meta (s s' : nstate) (k : bytes) (ns0 ns1 : namestate) : Prop :=
  names s !! k = Some ns0 /\ ns_owner ns1 = ns_owner ns0 /\ ns_name ns1 = ns_name ns0 /\
  names s' = <[k := ns1]> (names s) /\
  supply s' = supply s /\ balances s' = balances s /\ acctok s' = acctok s.

Lemma inv_meta s s' k ns0 ns1 : acct_inv s -> acc_meta s s' k ns0 ns1 -> acct_inv s'.
Proof.
  intros [I1 I2 I3 I4 I5 I6 I7 I8] (Hk & Ho & Hn & E1 & E2 & E3 & E4).
  split; rewrite ?E1, ?E2, ?E3, ?E4; try assumption.
  - intros k' ns Hl. destruct (decide (k' = k)) as [->|Hne].
    + rewrite lookup_insert in Hl. injection Hl as <-. rewrite Hn. exact (I1 _ _ Hk).
    + rewrite lookup_insert_ne in Hl by congruence. exact (I1 _ _ Hl).
  - intros k' ns Hl. destruct (decide (k' = k)) as [->|Hne].
    + rewrite lookup_insert in Hl. injection Hl as <-. rewrite Hn, Ho. exact (I2 _ _ Hk).
    + rewrite lookup_insert_ne in Hl by congruence. exact (I2 _ _ Hl).
  - intros o k' n. rewrite I3. destruct (decide (k' = k)) as [->|Hne].
    + rewrite lookup_insert. split.
      * intros (ns & Hl & H1 & H2 & H3). rewrite Hk in Hl. injection Hl as <-.
        exists ns1. rewrite Ho, Hn. auto.
      * intros (ns & Hl & H1 & H2 & H3). injection Hl as <-.
        exists ns0. rewrite <- Ho, <- Hn. auto.
    + rewrite lookup_insert_ne by congruence. reflexivity.
  - rewrite I7. unfold nontld_count. symmetry.
    apply (mcount_insert_over _ _ _ ns0); [exact Hk|]. cbn [snd]. rewrite Hn. reflexivity.
Qed.

(** a fresh TLD *)
Definition acc_newtld (s s' : nstate) (n : bytes) (ns1 : namestate) : Prop :=
  names s !! hash n = None /\ is_tld n = true /\ ns_name ns1 = n /\ ns_owner ns1 = None /\
  names s' = <[hash n := ns1]> (names s) /\
  supply s' = supply s /\ balances s' = balances s /\ acctok s' = acctok s.

Lemma inv_newtld s s' n ns1 : acct_inv s -> acc_newtld s s' n ns1 -> acct_inv s'.
Proof.
  intros [I1 I2 I3 I4 I5 I6 I7 I8] (Hk & Ht & Hn & Ho & E1 & E2 & E3 & E4).
  split; rewrite ?E1, ?E2, ?E3, ?E4; try assumption.
  - intros k' ns Hl. destruct (decide (k' = hash n)) as [->|Hne].
    + rewrite lookup_insert in Hl. injection Hl as <-. rewrite Hn. reflexivity.
    + rewrite lookup_insert_ne in Hl by congruence. exact (I1 _ _ Hl).
  - intros k' ns Hl. destruct (decide (k' = hash n)) as [->|Hne].
    + rewrite lookup_insert in Hl. injection Hl as <-. rewrite Hn, Ht. exact Ho.
    + rewrite lookup_insert_ne in Hl by congruence. exact (I2 _ _ Hl).
  - intros o k' m. rewrite I3. destruct (decide (k' = hash n)) as [->|Hne].
    + rewrite lookup_insert, Hk. split.
      * intros (ns & Hl & _). discriminate.
      * intros (ns & Hl & H1 & H2 & H3). injection Hl as <-. congruence.
    + rewrite lookup_insert_ne by congruence. reflexivity.
  - rewrite I7. unfold nontld_count. rewrite mcount_insert_fresh by exact Hk.
    cbn [snd]. rewrite Hn. destruct (decide (is_tld n = false)); [congruence|reflexivity].
Qed.

(** a fresh non-TLD name for owner [o] *)
Definition acc_mint (s s' : nstate) (o n : bytes) (ns1 : namestate) : Prop :=
  names s !! hash n = None /\ is_tld n = false /\ length o = 20%nat /\
  ns_name ns1 = n /\ ns_owner ns1 = Some o /\
  names s' = <[hash n := ns1]> (names s) /\
  supply s' = supply s + 1 /\ balances s' = bal_adj (balances s) o 1 /\
  acctok s' = <[(o, hash n) := n]> (acctok s).

Lemma inv_mint s s' o n ns1 : acct_inv s -> acc_mint s s' o n ns1 -> acct_inv s'.
Proof.
  intros [I1 I2 I3 I4 I5 I6 I7 I8] (Hk & Ht & Hlen & Hn & Ho & E1 & E2 & E3 & E4).
  assert (Hfresh : acctok s !! (o, hash n) = None).
  { destruct (acctok s !! (o, hash n)) as [m|] eqn:E; [|reflexivity].
    apply I3 in E as (ns & Hl & _). congruence. }
  split; rewrite ?E1, ?E2, ?E3, ?E4.
  - intros k' ns Hl. destruct (decide (k' = hash n)) as [->|Hne].
    + rewrite lookup_insert in Hl. injection Hl as <-. rewrite Hn. reflexivity.
    + rewrite lookup_insert_ne in Hl by congruence. exact (I1 _ _ Hl).
  - intros k' ns Hl. destruct (decide (k' = hash n)) as [->|Hne].
    + rewrite lookup_insert in Hl. injection Hl as <-. rewrite Hn, Ht. eauto.
    + rewrite lookup_insert_ne in Hl by congruence. exact (I2 _ _ Hl).
  - intros x k' m. destruct (decide (k' = hash n)) as [->|Hne].
    + rewrite lookup_insert. destruct (decide (x = o)) as [->|Hxo].
      * rewrite lookup_insert. split.
        -- intros E. injection E as <-. exists ns1. auto.
        -- intros (ns & Hl & H1 & H2 & H3). injection Hl as <-. congruence.
      * rewrite lookup_insert_ne by congruence. rewrite I3, Hk. split.
        -- intros (ns & Hl & _). discriminate.
        -- intros (ns & Hl & H1 & H2 & H3). injection Hl as <-. congruence.
    + rewrite !lookup_insert_ne by congruence. apply I3.
  - intros x. rewrite bal_adj_lookup, I4, cnt_insert_fresh by exact Hfresh.
    destruct (decide (x = o)); lia.
  - apply bal_adj_nz. exact I5.
  - rewrite map_size_insert_None by exact Hfresh. lia.
  - rewrite map_size_insert_None by exact Hfresh. unfold nontld_count.
    rewrite mcount_insert_fresh by exact Hk. cbn [snd]. rewrite Hn.
    destruct (decide (is_tld n = false)); [|congruence]. f_equal. exact I7.
  - rewrite zsum_bal_adj. lia.
Qed.

(** an existing non-TLD name moves from [o0] to [o] (possibly the same) *)
Definition acc_move (s s' : nstate) (o0 o n : bytes) (ns0 ns1 : namestate) : Prop :=
  names s !! hash n = Some ns0 /\ ns_name ns0 = n /\ ns_owner ns0 = Some o0 /\
  is_tld n = false /\ length o = 20%nat /\
  ns_name ns1 = n /\ ns_owner ns1 = Some o /\
  names s' = <[hash n := ns1]> (names s) /\
  supply s' = supply s /\
  balances s' = bal_adj (bal_adj (balances s) o0 (-1)) o 1 /\
  acctok s' = <[(o, hash n) := n]> (delete (o0, hash n) (acctok s)).

Lemma inv_move s s' o0 o n ns0 ns1 : acct_inv s -> acc_move s s' o0 o n ns0 ns1 -> acct_inv s'.
Proof.
  intros [I1 I2 I3 I4 I5 I6 I7 I8]
    (Hk & Hn0 & Ho0 & Ht & Hlen & Hn & Ho & E1 & E2 & E3 & E4).
  assert (Hold : acctok s !! (o0, hash n) = Some n).
  { apply I3. exists ns0. auto. }
  assert (Hfresh : delete (o0, hash n) (acctok s) !! (o, hash n) = None).
  { destruct (decide (o = o0)) as [->|Hne]; [apply lookup_delete|].
    rewrite lookup_delete_ne by congruence.
    destruct (acctok s !! (o, hash n)) as [m|] eqn:E; [|reflexivity].
    apply I3 in E as (ns & Hl & H1 & _). congruence. }
  split; rewrite ?E1, ?E2, ?E3, ?E4.
  - intros k' ns Hl. destruct (decide (k' = hash n)) as [->|Hne].
    + rewrite lookup_insert in Hl. injection Hl as <-. rewrite Hn. reflexivity.
    + rewrite lookup_insert_ne in Hl by congruence. exact (I1 _ _ Hl).
  - intros k' ns Hl. destruct (decide (k' = hash n)) as [->|Hne].
    + rewrite lookup_insert in Hl. injection Hl as <-. rewrite Hn, Ht. eauto.
    + rewrite lookup_insert_ne in Hl by congruence. exact (I2 _ _ Hl).
  - intros x k' m. destruct (decide (k' = hash n)) as [->|Hne].
    + rewrite lookup_insert. destruct (decide (x = o)) as [->|Hxo].
      * rewrite lookup_insert. split.
        -- intros E. injection E as <-. exists ns1. auto.
        -- intros (ns & Hl & H1 & H2 & H3). injection Hl as <-. congruence.
      * rewrite lookup_insert_ne by congruence. split.
        -- intros E. exfalso. destruct (decide (x = o0)) as [->|Hx0].
           ++ rewrite lookup_delete in E. discriminate.
           ++ rewrite lookup_delete_ne in E by congruence.
              apply I3 in E as (ns & Hl & H1 & _). congruence.
        -- intros (ns & Hl & H1 & H2 & H3). injection Hl as <-. congruence.
    + rewrite lookup_insert_ne by congruence. rewrite lookup_delete_ne by congruence.
      rewrite lookup_insert_ne by congruence. apply I3.
  - intros x. rewrite !bal_adj_lookup, I4, cnt_insert_fresh by exact Hfresh.
    rewrite (cnt_delete x _ _ _ _ Hold).
    destruct (decide (x = o)), (decide (x = o0)); lia.
  - apply bal_adj_nz, bal_adj_nz. exact I5.
  - rewrite map_size_insert_None by exact Hfresh.
    rewrite map_size_delete_Some by (rewrite Hold; eauto).
    assert (size (acctok s) <> 0%nat).
    { intros Hz. apply map_size_empty_iff in Hz. rewrite Hz, lookup_empty in Hold. discriminate. }
    lia.
  - rewrite map_size_insert_None by exact Hfresh.
    rewrite map_size_delete_Some by (rewrite Hold; eauto).
    assert (size (acctok s) <> 0%nat).
    { intros Hz. apply map_size_empty_iff in Hz. rewrite Hz, lookup_empty in Hold. discriminate. }
    unfold nontld_count. rewrite (mcount_insert_over _ _ _ ns0 ns1 Hk).
    + fold (nontld_count (names s)). lia.
    + cbn [snd]. rewrite Hn, Hn0. reflexivity.
  - rewrite !zsum_bal_adj. lia.
Qed.


(** * 3. Inversion of the methods *)

(** everything but [records] is kept *)
Definition keeps (s s' : nstate) : Prop :=
  names s' = names s /\ roots s' = roots s /\ supply s' = supply s /\
  balances s' = balances s /\ acctok s' = acctok s /\ price s' = price s.

Lemma keeps_refl s : keeps s s.
Proof. repeat split. Qed.
Lemma keeps_trans s1 s2 s3 : keeps s1 s2 -> keeps s2 s3 -> keeps s1 s3.
Proof. unfold keeps. intros (A1&A2&A3&A4&A5&A6) (B1&B2&B3&B4&B5&B6). repeat split; congruence. Qed.
Lemma keeps_acc_same s s' : keeps s s' -> acc_same s s'.
Proof. unfold keeps, acc_same. tauto. Qed.

Lemma put_soa_keeps c s n e a b d f s' :
  put_soa hash valid_name c s n e a b d f = Halt s' -> keeps s s'.
Proof. unfold put_soa. intros H. inv1 H. injection H as <-. repeat split. Qed.

Lemma update_soa_serial_keeps c s t s' :
  update_soa_serial hash str_ok c s t = Halt s' -> keeps s s'.
Proof.
  unfold update_soa_serial. intros H.
  destruct (records s !! _) as [rec|]; [|discriminate].
  destruct (negb (str_ok (r_data rec))); [discriminate|].
  destruct (split_nonempty (r_data rec)) as [|f0 [|f1 [|f2 [|f3 [|f4 [|f5 [|f6 [|f7 l]]]]]]]]; try discriminate.
  injection H as <-. repeat split.
Qed.

Lemma save_domain_halt c s name em rf rt ex ttl owner s' :
  save_domain hash valid_name c s name em rf rt ex ttl owner = Halt s' ->
  names s' = <[hash name := mkNS owner name (now c + ex * millisecondsInSecond) None]> (names s) /\
  roots s' = roots s /\ supply s' = supply s /\ balances s' = balances s /\
  acctok s' = acctok s /\ price s' = price s.
Proof.
  unfold save_domain. intros H.
  destruct (vm_mul ex millisecondsInSecond) as [ems|] eqn:E1; [cbn [obind] in H|discriminate].
  destruct (vm_add (now c) ems) as [exp|] eqn:E2; [cbn [obind] in H|discriminate].
  apply vm_mul_halt in E1. apply vm_add_halt in E2. subst.
  apply put_soa_keeps in H. destruct H as (H1&H2&H3&H4&H5&H6).
  cbn [names roots supply balances acctok price set_names] in *. repeat split; assumption.
Qed.

Lemma post_transfer_halt c f t n ns :
  post_transfer c f t n = Halt ns ->
  ns = [NTransfer f t n] /\ existsb (bytes_eqb (akey t)) (rejecting c) = false.
Proof.
  unfold post_transfer. destruct (existsb _ _); [discriminate|]. intros H. injection H as <-. auto.
Qed.

Lemma is_valid_some a : is_valid a = true -> exists o, a = Some o /\ length o = 20%nat.
Proof.
  destruct a as [o|]; [|discriminate]. cbn [is_valid]. unfold hash_len. intros H.
  apply Nat.eqb_eq in H. eauto.
Qed.

(** projections of [update_balance] *)
Lemma ub_names s t a d : names (update_balance hash s t a d) = names s.
Proof. reflexivity. Qed.
Lemma ub_roots s t a d : roots (update_balance hash s t a d) = roots s.
Proof. reflexivity. Qed.
Lemma ub_supply s t a d : supply (update_balance hash s t a d) = supply s.
Proof. reflexivity. Qed.
Lemma ub_price s t a d : price (update_balance hash s t a d) = price s.
Proof. reflexivity. Qed.
Lemma ub_records s t a d : records (update_balance hash s t a d) = records s.
Proof. reflexivity. Qed.
Lemma ub_balances s t o d : balances (update_balance hash s t (Some o) d) = bal_adj (balances s) o d.
Proof. reflexivity. Qed.
Lemma ub_acctok_dec s t o : acctok (update_balance hash s t (Some o) (-1)) = delete (o, hash t) (acctok s).
Proof. reflexivity. Qed.
Lemma ub_acctok_inc s t o : acctok (update_balance hash s t (Some o) 1) = <[(o, hash t) := t]> (acctok s).
Proof. reflexivity. Qed.

(** NNSBase's lemmas, instantiated (they are generalised over all section
    variables there) *)
Definition gnwk_halt := get_ns_with_key_halt hash valid_name valid_data str_ok.
Definition gfn_halt := get_frag_ns_halt hash valid_name valid_data str_ok.

(** a stored non-TLD name: its state carries the name and a 20-byte owner *)
Lemma stored_nontld s n ns :
  acct_inv s -> get_ns s n = Some ns -> ns_name ns = n /\
  (is_tld n = false -> exists o, ns_owner ns = Some o /\ length o = 20%nat) /\
  (is_tld n = true -> ns_owner ns = None).
Proof.
  intros Inv Hg. unfold NNS.get_ns in Hg.
  pose proof (inv_key _ Inv _ _ Hg) as Hk. apply hash_inj in Hk. subst n.
  split; [reflexivity|]. pose proof (inv_own _ Inv _ _ Hg) as Ho.
  split; intros Ht; rewrite Ht in Ho; exact Ho.
Qed.

(** ** register *)
Lemma register_inv c s name owner em rf rt ex ttl s' r ns :
  acct_inv s ->
  nexec c s (Register name owner em rf rt ex ttl) = Halt (s', r, ns) ->
  exists o, owner = Some o /\ length o = 20%nat /\ is_tld name = false /\ valid_name name = true /\
    is_Some (roots s !! List.last (split_dot name) []) /\
    parent_expired c s 1 (split_dot name) = false /\
    parent_conflict s name (join_dot (drop 1 (split_dot name))) = false /\
    wit_of c o = true /\ 0 < price s /\
    roots s' = roots s /\ price s' = price s /\
    ((exists ns0, get_ns s name = Some ns0 /\ now c < ns_exp ns0 /\
        s' = s /\ r = VBool false /\ ns = []) \/
     (exists ns0 o0, get_ns s name = Some ns0 /\ ns_exp ns0 <= now c /\
        r = VBool true /\ ns = [NTransfer (Some o0) (Some o) name] /\
        acc_move s s' o0 o name ns0 (mkNS (Some o) name (now c + ex * millisecondsInSecond) None)) \/
     (get_ns s name = None /\ r = VBool true /\ ns = [NTransfer None (Some o) name] /\
        acc_mint s s' o name (mkNS (Some o) name (now c + ex * millisecondsInSecond) None))).
Proof.
  intros Inv H. unfold NNS.nexec in H. cbv zeta in H.
  inv1 H. rename E into Evalid.
  inv1 H. rename E into Etld. apply negb_true_iff in Etld.
  inv1 H. rename E into Eroot. apply bool_decide_eq_true in Eroot.
  inv1 H. rename E into Epar. apply negb_true_iff in Epar.
  inv1 H. rename E into Eadm.
  inv1 H. rename E into Econf. apply negb_true_iff in Econf.
  inv1 H. rename E into Eval. apply is_valid_some in Eval as (o & -> & Hlen).
  inv1 H. rename E into Ewit. apply check_owner_witness_halt in Ewit as [Ewit _].
  change (akey (Some o)) with o in Ewit.
  inv1 H. rename E into Egas. unfold burn_gas in Egas. apply oassert_halt in Egas.
  apply Z.ltb_lt in Egas.
  exists o. do 9 (split; [first [reflexivity|assumption]|]).
  destruct (get_ns s name) as [ns0|] eqn:Eg.
  - destruct (now c <? ns_exp ns0) eqn:El.
    + injection H as <- <- <-. split; [reflexivity|]. split; [reflexivity|].
      left. exists ns0. repeat split; try reflexivity. lia.
    + destruct (stored_nontld _ _ _ Inv Eg) as (Hn0 & Ho0 & _).
      destruct (Ho0 Etld) as (o0 & Ho0' & Hl0). rewrite Ho0' in H.
      inv1 H. rename E into Esave. rename x2 into s2.
      inv1 H. rename E into Epost. apply post_transfer_halt in Epost as [-> _].
      injection H as <- <- <-.
      apply save_domain_halt in Esave as (S1 & S2 & S3 & S4 & S5 & S6).
      rewrite ?ub_names, ?ub_roots, ?ub_supply, ?ub_price, ?ub_balances, ?ub_acctok_dec in *.
      split; [rewrite ?ub_roots; exact S2|]. split; [rewrite ?ub_price; exact S6|].
      right; left. exists ns0, o0. split; [reflexivity|]. split; [lia|].
      split; [reflexivity|]. split; [reflexivity|].
      unfold acc_move. rewrite ?ub_names, ?ub_supply, ?ub_balances, ?ub_acctok_inc, S1, S3, S4, S5.
      repeat split; try assumption; try reflexivity.
  - inv1 H. rename E into Esup. apply vm_add_halt in Esup. subst.
    inv1 H. rename E into Esave.
    inv1 H. rename E into Epost. apply post_transfer_halt in Epost as [-> _].
    injection H as <- <- <-.
    apply save_domain_halt in Esave as (S1 & S2 & S3 & S4 & S5 & S6).
    cbn [names roots supply balances acctok price set_supply] in S1, S2, S3, S4, S5, S6.
    split; [rewrite ?ub_roots; exact S2|]. split; [rewrite ?ub_price; exact S6|].
    right; right. split; [reflexivity|]. split; [reflexivity|]. split; [reflexivity|].
    unfold acc_mint. rewrite ub_names, ub_supply, ub_balances, ub_acctok_inc, S1, S3, S4, S5.
    repeat split; try assumption; try reflexivity.
Qed.


(** ** registerTLD *)
Lemma register_tld_inv c s name em rf rt ex ttl s' r ns :
  acct_inv s ->
  nexec c s (RegisterTLD name em rf rt ex ttl) = Halt (s', r, ns) ->
  cmt c = true /\ valid_name name = true /\ is_tld name = true /\
  r = VNull /\ ns = [] /\
  names s' = <[hash name := mkNS None name (now c + ex * millisecondsInSecond) None]> (names s) /\
  roots s' = <[name := tt]> (roots s) /\
  supply s' = supply s /\ balances s' = balances s /\ acctok s' = acctok s /\ price s' = price s.
Proof.
  intros Inv H. unfold NNS.nexec in H. cbv zeta in H.
  inv1 H. rename E into Ecmt. apply check_committee_halt in Ecmt.
  inv1 H. rename E into Evalid.
  inv1 H. rename E into Etld.
  inv1 H. rename E into Efree.
  inv1 H. rename E into Esave.
  injection H as <- <- <-.
  apply save_domain_halt in Esave as (S1 & S2 & S3 & S4 & S5 & S6).
  cbn [names roots supply balances acctok price set_roots] in S1, S2, S3, S4, S5, S6.
  repeat split; assumption.
Qed.

(** ** transfer *)
Lemma transfer_inv c s to tok s' r ns :
  acct_inv s ->
  nexec c s (Transfer to tok) = Halt (s', r, ns) ->
  exists t ns0 o0, to = Some t /\ length t = 20%nat /\ is_tld tok = false /\
    get_ns s tok = Some ns0 /\ now c < ns_exp ns0 /\ ns_name ns0 = tok /\ ns_owner ns0 = Some o0 /\
    ((wit_of c o0 = false /\ s' = s /\ r = VBool false /\ ns = []) \/
     (wit_of c o0 = true /\ r = VBool true /\ ns = [NTransfer (Some o0) (Some t) tok] /\
      ((o0 = t /\ s' = s) \/
       (o0 <> t /\ roots s' = roots s /\ records s' = records s /\ price s' = price s /\
        acc_move s s' o0 t tok ns0 (mkNS (Some t) tok (ns_exp ns0) None))))).
Proof.
  intros Inv H. unfold NNS.nexec in H. cbv zeta in H.
  inv1 H. rename E into Eval. apply is_valid_some in Eval as (t & -> & Hlen).
  inv1 H. rename E into Etld. apply negb_true_iff in Etld.
  inv1 H. rename E into Eg. rename x into ns0. apply gnwk_halt in Eg as [Eg Elive].
  destruct (stored_nontld _ _ _ Inv Eg) as (Hn0 & Ho0 & _).
  destruct (Ho0 Etld) as (o0 & Ho0' & Hl0). rewrite Ho0' in H.
  change (akey (Some o0)) with o0 in H. change (akey (Some t)) with t in H.
  inv1 H. rename E into Ew. apply witness_halt in Ew as [-> _].
  exists t, ns0, o0. do 7 (split; [first [reflexivity|assumption]|]).
  destruct (wit_of c o0) eqn:Ew; cbn [negb] in H.
  - right. split; [reflexivity|].
    inv1 H. rename E into Epost. apply post_transfer_halt in Epost as [-> _].
    injection H as <- <- <-. split; [reflexivity|]. split; [reflexivity|].
    destruct (bytes_eqb o0 t) eqn:Eeq.
    + apply bytes_eqb_eq in Eeq. left. auto.
    + apply bytes_eqb_neq in Eeq. right. split; [exact Eeq|].
      rewrite ?ub_roots, ?ub_records, ?ub_price. cbn [roots records price set_names].
      do 3 (split; [reflexivity|]).
      unfold acc_move.
      rewrite ?ub_names, ?ub_supply, ?ub_balances, ?ub_acctok_inc, ?ub_acctok_dec.
      cbn [names supply balances acctok set_names]. rewrite Hn0.
      repeat split; try assumption; try reflexivity.
  - left. injection H as <- <- <-. auto.
Qed.

(** ** renew *)
Lemma renew_inv c s name y s' r ns :
  acct_inv s ->
  nexec c s (Renew name y) = Halt (s', r, ns) ->
  exists ns0, 1 <= y <= 10 /\ 0 < price s * y /\
    get_ns s name = Some ns0 /\ now c < ns_exp ns0 /\
    parent_expired c s 1 (split_dot name) = false /\ may_admin c ns0 = true /\
    valid_name name = true /\
    (is_tld name = false -> ns_exp ns0 + y * millisecondsInYear <= now c + millisecondsInTenYears) /\
    r = VInt (ns_exp ns0 + y * millisecondsInYear) /\
    ns = [NRenew name (ns_exp ns0) (ns_exp ns0 + y * millisecondsInYear)] /\
    s' = set_names s (<[hash name := mkNS (ns_owner ns0) (ns_name ns0) (ns_exp ns0 + y * millisecondsInYear) (ns_admin ns0)]> (names s)).
Proof.
  intros Inv H. unfold NNS.nexec in H. cbv zeta in H.
  inv1 H. rename E into Ey.
  inv1 H. rename E into Elen.
  inv1 H. rename E into Emul. apply vm_mul_halt in Emul. subst.
  inv1 H. rename E into Egas. unfold burn_gas in Egas. apply oassert_halt in Egas.
  inv1 H. rename E into Eg. apply gfn_halt in Eg as (Eg & Elive & Epar).
  inv1 H. rename E into Eadm. apply check_admin_halt in Eadm.
  inv1 H. rename E into Emul. apply vm_mul_halt in Emul. subst.
  inv1 H. rename E into Eadd. apply vm_add_halt in Eadd. subst.
  inv1 H. rename E into Evalid.
  inv1 H. rename E into Eten. apply negb_true_iff in Eten.
  injection H as <- <- <-.
  match goal with Hg : names s !! hash name = Some ?n |- _ => exists n; rename Hg into Eg'; pose (ns0 := n) end.
  replace (millisecondsInYear * y) with (y * millisecondsInYear) in * by lia.
  split; [lia|]. split; [lia|]. split; [exact Eg'|]. split; [exact Elive|].
  split; [exact Epar|]. split; [exact Eadm|]. split; [first [exact Evalid|reflexivity]|].
  split.
  { intros Ht. unfold is_tld in Ht. apply andb_false_iff in Eten as [Eten|Eten]; [|lia].
    pose proof (split_dot_length_pos name). lia. }
  split; [reflexivity|]. split; [reflexivity|].
  unfold put_ns. cbn [ns_name]. rewrite <- (inv_key _ Inv _ _ Eg'). reflexivity.
Qed.

(** ** setAdmin *)
Lemma set_admin_inv c s name admin s' r ns :
  acct_inv s ->
  nexec c s (SetAdmin name admin) = Halt (s', r, ns) ->
  exists ns0, get_ns s name = Some ns0 /\ now c < ns_exp ns0 /\ is_tld name = false /\
    r = VNull /\ ns = [NSetAdmin name (ns_admin ns0) admin] /\
    s' = set_names s (<[hash name := mkNS (ns_owner ns0) (ns_name ns0) (ns_exp ns0) admin]> (names s)).
Proof.
  intros Inv H. unfold NNS.nexec in H. cbv zeta in H.
  inv1 H. rename E into Elen.
  inv1 H. rename E into Etld. apply negb_true_iff in Etld.
  inv1 H. rename E into Eadm.
  inv1 H. rename E into Eg. apply gfn_halt in Eg as (Eg & Elive & Epar).
  inv1 H. rename E into Eow.
  injection H as <- <- <-.
  match goal with Hg : names s !! hash name = Some ?n |- _ => exists n; rename Hg into Eg' end.
  split; [exact Eg'|]. split; [exact Elive|]. split; [exact Etld|].
  split; [reflexivity|]. split; [reflexivity|].
  unfold put_ns. cbn [ns_name]. rewrite <- (inv_key _ Inv _ _ Eg'). reflexivity.
Qed.

(** ** the record methods and setPrice keep the accounting part *)
Lemma add_record_keeps c s name typ data s' r ns :
  nexec c s (AddRecord name typ data) = Halt (s', r, ns) -> keeps s s' /\ ns = [].
Proof.
  intros H. unfold NNS.nexec in H. cbv zeta in H. inv_binds H. injection H as <- <- <-.
  match goal with E : update_soa_serial _ _ _ _ _ = Halt _ |- _ => apply update_soa_serial_keeps in E; auto end.
Qed.

Lemma set_record_keeps c s name typ id data s' r ns :
  nexec c s (SetRecord name typ id data) = Halt (s', r, ns) -> keeps s s' /\ ns = [].
Proof.
  intros H. unfold NNS.nexec in H. cbv zeta in H. inv_binds H.
  destruct (records s !! _) as [old|]; [|discriminate]. inv_binds H. injection H as <- <- <-.
  match goal with E : update_soa_serial _ _ _ _ _ = Halt _ |- _ => apply update_soa_serial_keeps in E; auto end.
Qed.

Lemma delete_records_keeps c s name typ s' r ns :
  nexec c s (DeleteRecords name typ) = Halt (s', r, ns) -> keeps s s' /\ ns = [].
Proof.
  intros H. unfold NNS.nexec in H. cbv zeta in H. inv_binds H. injection H as <- <- <-.
  match goal with E : update_soa_serial _ _ _ _ _ = Halt _ |- _ => apply update_soa_serial_keeps in E; auto end.
Qed.

Lemma update_soa_keeps c s name em rf rt ex ttl s' r ns :
  nexec c s (UpdateSOA name em rf rt ex ttl) = Halt (s', r, ns) -> keeps s s' /\ ns = [].
Proof.
  intros H. unfold NNS.nexec in H. cbv zeta in H. inv_binds H. injection H as <- <- <-.
  match goal with E : put_soa _ _ _ _ _ _ _ _ _ _ = Halt _ |- _ => apply put_soa_keeps in E; auto end.
Qed.

Lemma set_price_inv c s p s' r ns :
  nexec c s (SetPrice p) = Halt (s', r, ns) ->
  s' = set_price s p /\ ns = [] /\ r = VNull /\ cmt c = true /\ 0 <= p <= maxRegisterPrice.
Proof.
  intros H. unfold NNS.nexec in H. cbv zeta in H.
  inv1 H. rename E into Ecmt. apply check_committee_halt in Ecmt.
  inv1 H. rename E into Ep. apply negb_true_iff in Ep.
  injection H as <- <- <-. repeat split; try assumption; lia.
Qed.

(** ** safe methods *)
Definition is_safe (o : nop) : bool :=
  match o with
  | IsAvailable _ | OwnerOf _ | Properties _ | BalanceOf _ | TokensOf _ | Tokens | TotalSupply
  | GetRecords _ _ | GetAllRecords _ | Resolve _ _ | Roots | GetPrice => true
  | _ => false
  end.

Ltac crunch H :=
  repeat first
    [ inv1 H
    | match type of H with
      | (match ?x with _ => _ end) = Halt _ => destruct x eqn:?; try discriminate H
      end ].

Lemma safe_same c s o s' r ns :
  is_safe o = true -> nexec c s o = Halt (s', r, ns) -> s' = s /\ ns = [].
Proof.
  intros Hs H. destruct o; try discriminate Hs; unfold NNS.nexec in H; cbv zeta in H;
    crunch H; injection H as <- <- <-; auto.
Qed.


(** * 4. Every halting invocation has one of six shapes *)
Definition no_transfer (ns : list nnotif) : Prop := forall f t n, NTransfer f t n ∉ ns.

Lemma no_transfer_nil : no_transfer [].
Proof. intros f t n Hin. apply elem_of_nil in Hin. exact Hin. Qed.
Lemma no_transfer_renew a b d : no_transfer [NRenew a b d].
Proof. intros f t n Hin. apply elem_of_list_singleton in Hin. discriminate. Qed.
Lemma no_transfer_admin a b d : no_transfer [NSetAdmin a b d].
Proof. intros f t n Hin. apply elem_of_list_singleton in Hin. discriminate. Qed.

Inductive shape (s s' : nstate) (ns : list nnotif) : Prop :=
| sh_same : acc_same s s' -> no_transfer ns -> shape s s' ns
| sh_self o n ns0 : s' = s -> get_ns s n = Some ns0 -> ns_owner ns0 = Some o ->
    ns = [NTransfer (Some o) (Some o) n] -> shape s s' ns
| sh_meta k ns0 ns1 : acc_meta s s' k ns0 ns1 -> no_transfer ns -> shape s s' ns
| sh_newtld n ns1 : acc_newtld s s' n ns1 -> ns = [] -> shape s s' ns
| sh_mint o n ns1 : acc_mint s s' o n ns1 -> ns = [NTransfer None (Some o) n] -> shape s s' ns
| sh_move o0 o n ns0 ns1 : acc_move s s' o0 o n ns0 ns1 ->
    ns = [NTransfer (Some o0) (Some o) n] -> shape s s' ns.

Lemma acc_same_refl s : acc_same s s.
Proof. repeat split. Qed.

Lemma nexec_shape c s o s' r ns :
  acct_inv s -> nexec c s o = Halt (s', r, ns) -> shape s s' ns.
Proof.
  intros Inv H. destruct o.
  - (* Register *)
    apply (register_inv _ _ _ _ _ _ _ _ _ _ _ _ Inv) in H
      as (o & -> & Hlen & Ht & _ & _ & _ & _ & _ & _ & _ & _ & Hc).
    destruct Hc as [(ns0 & Hg & Hl & -> & -> & ->)|[(ns0 & o0 & Hg & Hl & -> & -> & Hm)|(Hg & -> & -> & Hm)]].
    + apply sh_same; [apply acc_same_refl|apply no_transfer_nil].
    + eapply sh_move; [exact Hm|reflexivity].
    + eapply sh_mint; [exact Hm|reflexivity].
  - (* RegisterTLD *)
    apply (register_tld_inv _ _ _ _ _ _ _ _ _ _ _ Inv) in H
      as (_ & _ & Ht & -> & -> & N1 & N2 & N3 & N4 & N5 & N6).
    destruct (names s !! hash name) as [ns0|] eqn:Eg.
    + destruct (stored_nontld _ _ _ Inv Eg) as (Hn0 & _ & Ho0).
      apply (sh_meta _ _ _ (hash name) ns0
               (mkNS None name (now c + expire * millisecondsInSecond) None)); [|apply no_transfer_nil].
      unfold acc_meta. rewrite (Ho0 Ht), Hn0. cbn [ns_owner ns_name]. repeat split; try assumption.
    + apply (sh_newtld _ _ _ name (mkNS None name (now c + expire * millisecondsInSecond) None)); [|reflexivity].
      unfold acc_newtld. cbn [ns_owner ns_name]. repeat split; try assumption.
  - (* Transfer *)
    apply (transfer_inv _ _ _ _ _ _ _ Inv) in H
      as (t & ns0 & o0 & -> & Hlen & Ht & Hg & Hl & Hn0 & Ho0 & Hc).
    destruct Hc as [(_ & -> & -> & ->)|(_ & -> & -> & [(-> & ->)|(Hne & _ & _ & _ & Hm)])].
    + apply sh_same; [apply acc_same_refl|apply no_transfer_nil].
    + eapply sh_self; [reflexivity|exact Hg|exact Ho0|reflexivity].
    + eapply sh_move; [exact Hm|reflexivity].
  - (* Renew *)
    apply (renew_inv _ _ _ _ _ _ _ Inv) in H
      as (ns0 & _ & _ & Hg & _ & _ & _ & _ & _ & -> & -> & ->).
    apply (sh_meta _ _ _ (hash name) ns0
             (mkNS (ns_owner ns0) (ns_name ns0) (ns_exp ns0 + years * millisecondsInYear) (ns_admin ns0)));
      [|apply no_transfer_renew].
    unfold acc_meta. cbn [names supply balances acctok set_names ns_owner ns_name].
    repeat split; try assumption.
  - (* SetAdmin *)
    apply (set_admin_inv _ _ _ _ _ _ _ Inv) in H as (ns0 & Hg & _ & _ & -> & -> & ->).
    apply (sh_meta _ _ _ (hash name) ns0
             (mkNS (ns_owner ns0) (ns_name ns0) (ns_exp ns0) admin));
      [|apply no_transfer_admin].
    unfold acc_meta. cbn [names supply balances acctok set_names ns_owner ns_name].
    repeat split; try assumption.
  - apply add_record_keeps in H as [Hk ->].
    apply sh_same; [apply keeps_acc_same, Hk|apply no_transfer_nil].
  - apply set_record_keeps in H as [Hk ->].
    apply sh_same; [apply keeps_acc_same, Hk|apply no_transfer_nil].
  - apply delete_records_keeps in H as [Hk ->].
    apply sh_same; [apply keeps_acc_same, Hk|apply no_transfer_nil].
  - apply update_soa_keeps in H as [Hk ->].
    apply sh_same; [apply keeps_acc_same, Hk|apply no_transfer_nil].
  - apply set_price_inv in H as (-> & -> & _).
    apply sh_same; [repeat split|apply no_transfer_nil].
  - apply safe_same in H as [-> ->]; [|reflexivity]. apply sh_same; [apply acc_same_refl|apply no_transfer_nil].
  - apply safe_same in H as [-> ->]; [|reflexivity]. apply sh_same; [apply acc_same_refl|apply no_transfer_nil].
  - apply safe_same in H as [-> ->]; [|reflexivity]. apply sh_same; [apply acc_same_refl|apply no_transfer_nil].
  - apply safe_same in H as [-> ->]; [|reflexivity]. apply sh_same; [apply acc_same_refl|apply no_transfer_nil].
  - apply safe_same in H as [-> ->]; [|reflexivity]. apply sh_same; [apply acc_same_refl|apply no_transfer_nil].
  - apply safe_same in H as [-> ->]; [|reflexivity]. apply sh_same; [apply acc_same_refl|apply no_transfer_nil].
  - apply safe_same in H as [-> ->]; [|reflexivity]. apply sh_same; [apply acc_same_refl|apply no_transfer_nil].
  - apply safe_same in H as [-> ->]; [|reflexivity]. apply sh_same; [apply acc_same_refl|apply no_transfer_nil].
  - apply safe_same in H as [-> ->]; [|reflexivity]. apply sh_same; [apply acc_same_refl|apply no_transfer_nil].
  - apply safe_same in H as [-> ->]; [|reflexivity]. apply sh_same; [apply acc_same_refl|apply no_transfer_nil].
  - apply safe_same in H as [-> ->]; [|reflexivity]. apply sh_same; [apply acc_same_refl|apply no_transfer_nil].
  - apply safe_same in H as [-> ->]; [|reflexivity]. apply sh_same; [apply acc_same_refl|apply no_transfer_nil].
Qed.

Lemma shape_inv s s' ns : acct_inv s -> shape s s' ns -> acct_inv s'.
Proof.
  intros Inv [Hs _|o n ns0 -> _ _ _|k ns0 ns1 Hm _|n ns1 Hm _|o n ns1 Hm _|o0 o n ns0 ns1 Hm _].
  - exact (inv_same _ _ Inv Hs).
  - exact Inv.
  - exact (inv_meta _ _ _ _ _ Inv Hm).
  - exact (inv_newtld _ _ _ _ Inv Hm).
  - exact (inv_mint _ _ _ _ _ Inv Hm).
  - exact (inv_move _ _ _ _ _ _ _ Inv Hm).
Qed.

(** ** The invariant along every history *)
Lemma nexec_inv c s o s' r ns : acct_inv s -> nexec c s o = Halt (s', r, ns) -> acct_inv s'.
Proof. intros Inv H. exact (shape_inv _ _ _ Inv (nexec_shape _ _ _ _ _ _ Inv H)). Qed.

Lemma nstep_inv s co : acct_inv s -> acct_inv (fst (fst (nstep s co))).
Proof.
  intros Inv.
  destruct (nstep_cases hash valid_name valid_data str_ok s co) as [(s' & r & ns & He & ->)|[_ ->]].
  - cbn [fst]. exact (nexec_inv _ _ _ _ _ _ Inv He).
  - exact Inv.
Qed.

Lemma nrun_from_inv ops : forall s, acct_inv s -> acct_inv (nrun_from s ops).
Proof.
  induction ops as [|co ops IH]; intros s Inv; [exact Inv|].
  unfold NNS.nrun_from. cbn [fold_left]. apply IH, nstep_inv, Inv.
Qed.

Theorem nrun_inv ops : acct_inv (nrun ops).
Proof. apply nrun_from_inv, acct_inv_init. Qed.

(** ** Owners and Transfer notifications *)
(** the owner recorded for a name; [None] for unregistered names and TLDs *)
Definition owner_of (s : nstate) (n : bytes) : option bytes :=
  match get_ns s n with Some ns => ns_owner ns | None => None end.

Lemma hash_ne a b : a <> b -> hash a <> hash b.
Proof. intros Hne Heq. apply Hne, hash_inj, Heq. Qed.

Lemma shape_owner s s' ns :
  acct_inv s -> shape s s' ns ->
  (forall f t n, NTransfer f t n ∈ ns -> f = owner_of s n /\ t = owner_of s' n) /\
  ((forall n, owner_of s' n = owner_of s n) \/
   exists n0, owner_of s' n0 <> owner_of s n0 /\
     ns = [NTransfer (owner_of s n0) (owner_of s' n0) n0] /\
     forall n, n <> n0 -> owner_of s' n = owner_of s n).
Proof.
  intros Inv [Hs Hno|o n0 ns0 -> Hg Ho ->|k ns0 ns1 Hm Hno|n0 ns1 Hm ->|o n0 ns1 Hm ->|o0 o n0 ns0 ns1 Hm ->].
  - split; [intros f t n Hin; destruct (Hno _ _ _ Hin)|].
    left. intros n. unfold owner_of, NNS.get_ns. destruct Hs as (-> & _). reflexivity.
  - split; [|left; reflexivity].
    intros f t n Hin. apply elem_of_list_singleton in Hin. injection Hin as -> -> ->.
    unfold owner_of. rewrite Hg. auto.
  - split; [intros f t n Hin; destruct (Hno _ _ _ Hin)|].
    left. intros n. unfold owner_of, NNS.get_ns.
    destruct Hm as (Hk & Ho & Hn & -> & _).
    destruct (decide (hash n = k)) as [->|Hne].
    + rewrite lookup_insert, Hk. exact Ho.
    + rewrite lookup_insert_ne by congruence. reflexivity.
  - split; [intros f t n Hin; apply elem_of_nil in Hin; destruct Hin|].
    left. intros n. unfold owner_of, NNS.get_ns.
    destruct Hm as (Hk & Ht & Hn & Ho & -> & _).
    destruct (decide (hash n = hash n0)) as [->|Hne].
    + rewrite lookup_insert, Hk. exact Ho.
    + rewrite lookup_insert_ne by congruence. reflexivity.
  - destruct Hm as (Hk & Ht & Hlen & Hn & Ho & E1 & _).
    assert (O0 : owner_of s n0 = None) by (unfold owner_of, NNS.get_ns; rewrite Hk; reflexivity).
    assert (O1 : owner_of s' n0 = Some o) by (unfold owner_of, NNS.get_ns; rewrite E1, lookup_insert; exact Ho).
    assert (Oth : forall n, n <> n0 -> owner_of s' n = owner_of s n).
    { intros n Hne. unfold owner_of, NNS.get_ns. rewrite E1.
      rewrite lookup_insert_ne by (apply not_eq_sym, hash_ne, Hne). reflexivity. }
    split.
    + intros f t n Hin. apply elem_of_list_singleton in Hin. injection Hin as -> -> ->. auto.
    + right. exists n0. rewrite O0, O1. split; [discriminate|]. split; [reflexivity|exact Oth].
  - destruct Hm as (Hk & Hn0 & Ho0 & Ht & Hlen & Hn & Ho & E1 & _).
    assert (O0 : owner_of s n0 = Some o0) by (unfold owner_of, NNS.get_ns; rewrite Hk; exact Ho0).
    assert (O1 : owner_of s' n0 = Some o) by (unfold owner_of, NNS.get_ns; rewrite E1, lookup_insert; exact Ho).
    assert (Oth : forall n, n <> n0 -> owner_of s' n = owner_of s n).
    { intros n Hne. unfold owner_of, NNS.get_ns. rewrite E1.
      rewrite lookup_insert_ne by (apply not_eq_sym, hash_ne, Hne). reflexivity. }
    split.
    + intros f t n Hin. apply elem_of_list_singleton in Hin. injection Hin as -> -> ->. auto.
    + destruct (decide (o = o0)) as [->|Hne].
      * left. intros n. destruct (decide (n = n0)) as [->|Hnn]; [congruence|apply Oth, Hnn].
      * right. exists n0. rewrite O0, O1. split; [congruence|]. split; [reflexivity|exact Oth].
Qed.

(** C10_transfer_notifications, on a step *)
Lemma transfer_notifications s c op s' r ns :
  acct_inv s -> nstep s (c, op) = (s', r, ns) ->
  (* a change of the recorded owner of [n] is announced, by exactly this list *)
  (forall n, owner_of s n <> owner_of s' n -> ns = [NTransfer (owner_of s n) (owner_of s' n) n]) /\
  (* at most one name changes owner *)
  (forall n n', owner_of s n <> owner_of s' n -> owner_of s n' <> owner_of s' n' -> n = n') /\
  (* every Transfer notification tells the truth *)
  (forall f t n, NTransfer f t n ∈ ns -> f = owner_of s n /\ t = owner_of s' n).
Proof.
  intros Inv Hst.
  destruct (nstep_cases hash valid_name valid_data str_ok s (c, op)) as [(s1 & r1 & ns1 & He & Hs)|[_ Hs]];
    rewrite Hs in Hst; injection Hst as <- <- <-.
  - cbn [fst snd] in He.
    destruct (shape_owner _ _ _ Inv (nexec_shape _ _ _ _ _ _ Inv He)) as [Hn [Hall|(n0 & Hd & -> & Hoth)]].
    + split; [|split; [|exact Hn]].
      * intros n Hne. destruct Hne. symmetry. apply Hall.
      * intros n n' Hne. destruct Hne. symmetry. apply Hall.
    + assert (Hone : forall n, owner_of s n <> owner_of s1 n -> n = n0).
      { intros n Hne. destruct (decide (n = n0)) as [->|Hnn]; [reflexivity|].
        destruct Hne. symmetry. apply Hoth, Hnn. }
      split; [|split; [|exact Hn]].
      * intros n Hne. rewrite (Hone n Hne). reflexivity.
      * intros n n' H1 H2. rewrite (Hone n H1), (Hone n' H2). reflexivity.
  - split; [|split].
    + intros n Hne. destruct Hne. reflexivity.
    + intros n n' Hne. destruct Hne. reflexivity.
    + intros f t n Hin. apply elem_of_nil in Hin. destruct Hin.
Qed.

(** names are never deleted, and keep their name *)
Lemma names_persist s co k ns0 :
  acct_inv s -> names s !! k = Some ns0 ->
  exists ns1, names (fst (fst (nstep s co))) !! k = Some ns1 /\ ns_name ns1 = ns_name ns0.
Proof.
  intros Inv Hk.
  destruct (nstep_cases hash valid_name valid_data str_ok s co) as [(s' & r & ns & He & ->)|[_ ->]];
    cbn [fst]; [|eauto].
  destruct (nexec_shape _ _ _ _ _ _ Inv He)
    as [(-> & _) _|o n nsx -> _ _ _|k' nsa nsb Hm _|n ns1 Hm _|o n ns1 Hm _|o0 o n nsa nsb Hm _]; eauto.
  - destruct Hm as (Hk' & _ & Hn & -> & _). destruct (decide (k = k')) as [->|Hne].
    + rewrite lookup_insert. exists nsb. split; [reflexivity|congruence].
    + rewrite lookup_insert_ne by congruence. eauto.
  - destruct Hm as (Hk' & _ & _ & _ & -> & _). destruct (decide (k = hash n)) as [->|Hne]; [congruence|].
    rewrite lookup_insert_ne by congruence. eauto.
  - destruct Hm as (Hk' & _ & _ & _ & _ & -> & _). destruct (decide (k = hash n)) as [->|Hne]; [congruence|].
    rewrite lookup_insert_ne by congruence. eauto.
  - destruct Hm as (Hk' & Hn0 & _ & _ & _ & Hn & _ & -> & _). destruct (decide (k = hash n)) as [->|Hne].
    + rewrite lookup_insert. exists nsb. split; [reflexivity|congruence].
    + rewrite lookup_insert_ne by congruence. eauto.
Qed.


(** * 5. The C10 lemmas *)

(** ** accounting *)
Lemma accounting_state s :
  acct_inv s ->
  supply s = Z.of_nat (nontld_count (names s)) /\
  supply s = zsum (balances s) /\
  supply s = Z.of_nat (size (acctok s)) /\
  (forall o, default 0 (balances s !! o) = Z.of_nat (cnt o (acctok s))) /\
  (forall o, balances s !! o <> Some 0).
Proof.
  intros Inv. split; [rewrite (inv_sup _ Inv), (inv_cnt _ Inv); reflexivity|].
  split; [symmetry; apply (inv_sum _ Inv)|]. split; [apply (inv_sup _ Inv)|].
  split; [apply (inv_bal _ Inv)|apply (inv_nz _ Inv)].
Qed.

(** the unsorted listing of [tokensOf] *)
Definition tok_list (s : nstate) (o : bytes) : list bytes :=
  omap (fun kv : (bytes * bytes) * bytes =>
          if bytes_eqb (fst (fst kv)) o then Some (snd kv) else None)
       (map_to_list (acctok s)).

Lemma tok_list_spec s o :
  acct_inv s ->
  NoDup (tok_list s o) /\ length (tok_list s o) = cnt o (acctok s) /\
  forall n, n ∈ tok_list s o <->
            exists ns, get_ns s n = Some ns /\ ns_owner ns = Some o /\ is_tld n = false.
Proof.
  intros Inv. unfold tok_list. split; [|split].
  - apply NoDup_omap; [apply NoDup_map_to_list|].
    intros [[o1 k1] n1] [[o2 k2] n2] z H1 H2 F1 F2. cbn [fst snd] in F1, F2.
    destruct (bytes_eqb o1 o) eqn:E1; [|discriminate]. destruct (bytes_eqb o2 o) eqn:E2; [|discriminate].
    apply bytes_eqb_eq in E1, E2. injection F1 as ->. injection F2 as ->. subst o1 o2.
    apply elem_of_map_to_list in H1, H2.
    apply (inv_tok _ Inv) in H1 as (nsa & Ha & _ & Hna & _).
    apply (inv_tok _ Inv) in H2 as (nsb & Hb & _ & Hnb & _).
    apply (inv_key _ Inv) in Ha, Hb. congruence.
  - unfold cnt, mcount. apply omap_filter_length. intros [[o1 k1] n1]. cbn [fst snd].
    destruct (bytes_eqb o1 o) eqn:E1.
    + apply bytes_eqb_eq in E1. split; [intros _; exact E1|eauto].
    + apply bytes_eqb_neq in E1. split; [intros [? ?]; discriminate|intros; contradiction].
  - intros n. rewrite elem_of_list_omap. split.
    + intros ([[o1 k1] n1] & Hin & Hf). cbn [fst snd] in Hf.
      destruct (bytes_eqb o1 o) eqn:E1; [|discriminate]. apply bytes_eqb_eq in E1.
      injection Hf as ->. subst o1. apply elem_of_map_to_list in Hin.
      apply (inv_tok _ Inv) in Hin as (ns & Hk & Ho & Hn & Ht).
      exists ns. pose proof (inv_key _ Inv _ _ Hk) as Hkey. rewrite Hn in Hkey. subst k1.
      auto.
    + intros (ns & Hg & Ho & Ht). destruct (stored_nontld _ _ _ Inv Hg) as (Hn & _).
      exists ((o, hash n), n). split.
      * apply elem_of_map_to_list. apply (inv_tok _ Inv). exists ns. auto.
      * cbn [fst snd]. rewrite bytes_eqb_refl. reflexivity.
Qed.

Lemma accounting_readers c s o :
  acct_inv s -> length o = 20%nat ->
  nexec c s TotalSupply = Halt (s, VInt (supply s), []) /\
  nexec c s (BalanceOf (Some o)) = Halt (s, VInt (default 0 (balances s !! o)), []) /\
  exists l, nexec c s (TokensOf (Some o)) = Halt (s, VList (map VBytes l), []) /\
    Sorted bytes_le l /\ NoDup l /\ Z.of_nat (length l) = default 0 (balances s !! o) /\
    forall n, n ∈ l <-> exists ns, get_ns s n = Some ns /\ ns_owner ns = Some o /\ is_tld n = false.
Proof.
  intros Inv Hlen. split; [reflexivity|].
  assert (Hv : is_valid (Some o) = true) by (cbn [is_valid]; unfold hash_len; apply Nat.eqb_eq, Hlen).
  split.
  { unfold NNS.nexec. rewrite Hv. reflexivity. }
  destruct (tok_list_spec s o Inv) as (Hnd & Hl & Hmem).
  exists (merge_sort bytes_le (tok_list s o)). split.
  { unfold NNS.nexec. rewrite Hv. reflexivity. }
  split; [apply Sorted_merge_sort; apply _|].
  split; [rewrite merge_sort_Permutation; exact Hnd|].
  split; [rewrite merge_sort_Permutation, Hl; symmetry; apply (inv_bal _ Inv)|].
  intros n. rewrite merge_sort_Permutation. apply Hmem.
Qed.

(** ** availability *)
Lemma live_iff c s n :
  live c s n = true <-> exists ns, get_ns s n = Some ns /\ now c < ns_exp ns.
Proof using noinj. clear hash_inj.
  unfold NNS.live. destruct (get_ns s n) as [ns|].
  - rewrite Z.ltb_lt. split; [eauto|]. intros (ns' & E & Hl). injection E as <-. exact Hl.
  - split; [discriminate|]. intros (ns' & E & _). discriminate.
Qed.

Lemma live_false_iff c s n :
  live c s n = false <-> forall ns, get_ns s n = Some ns -> ns_exp ns <= now c.
Proof using noinj. clear hash_inj.
  unfold NNS.live. destruct (get_ns s n) as [ns|].
  - rewrite Z.ltb_ge. split; [intros Hl ns' E; injection E as <-; exact Hl|eauto].
  - split; [intros _ ns' E; discriminate|reflexivity].
Qed.

Lemma existsb_false {A} (f : A -> bool) l : existsb f l = false -> forall x, In x l -> f x = false.
Proof using Type. clear hash_inj.
  intros He x Hin. destruct (f x) eqn:E; [|reflexivity].
  assert (existsb f l = true) by (apply existsb_exists; eauto). congruence.
Qed.

(** [parentExpired] from index 0 = the name itself or one of its parents *)
Lemma pe0 c s n :
  parent_expired c s 0 (split_dot n) = negb (live c s n) || parent_expired c s 1 (split_dot n).
Proof using noinj. clear hash_inj.
  unfold NNS.parent_expired. pose proof (split_dot_length_pos n) as Hl.
  replace (length (split_dot n) - 0)%nat with (S (length (split_dot n) - 1)) by lia.
  cbn [seq existsb]. rewrite drop_0, join_split_dot. reflexivity.
Qed.

Lemma pe_chain c s frags first :
  parent_expired c s first frags = false ->
  forall i, (first <= i < length frags)%nat -> live c s (join_dot (drop i frags)) = true.
Proof using noinj. clear hash_inj.
  unfold NNS.parent_expired. intros He i Hi.
  pose proof (existsb_false _ _ He i) as Hx. apply negb_false_iff. apply Hx.
  apply in_seq. lia.
Qed.

Lemma is_available_spec c s n :
  valid_name n = true -> is_tld n = false ->
  is_Some (roots s !! List.last (split_dot n) []) ->
  parent_expired c s 1 (split_dot n) = false ->
  nexec c s (IsAvailable n) =
    Halt (s, VBool (if live c s n then false
                    else negb (parent_conflict s n (join_dot (drop 1 (split_dot n))))), []).
Proof using noinj. clear hash_inj.
  intros Hv Ht [u Hr] Hp. unfold NNS.nexec. cbv zeta. rewrite Hv. cbn [oassert obind].
  rewrite Hr. rewrite pe0, Hp, orb_false_r, negb_involutive.
  destruct (live c s n); [reflexivity|].
  unfold is_tld in Ht. rewrite Ht. reflexivity.
Qed.

(** the guards of [register] that precede the availability test *)
Definition reg_guards (c : nctx) (s : nstate) (name o : bytes) : Prop :=
  valid_name name = true /\ is_tld name = false /\
  is_Some (roots s !! List.last (split_dot name) []) /\
  parent_expired c s 1 (split_dot name) = false /\
  (forall pns, (2 < length (split_dot name))%nat ->
     get_ns s (join_dot (drop 1 (split_dot name))) = Some pns -> check_admin c pns = Halt tt) /\
  parent_conflict s name (join_dot (drop 1 (split_dot name))) = false /\
  length o = 20%nat /\ wit_of c o = true /\ 0 < price s.

(** what [register] does once the guards are passed *)
Definition reg_tail (c : nctx) (s : nstate) (name : bytes) (owner : option bytes) (email : bytes)
    (refresh retry expire ttl : Z) : outcome (nstate * val * list nnotif) :=
  match get_ns s name with
  | Some ns =>
      if now c <? ns_exp ns then Halt (s, VBool false, [])
      else
        let s1 := update_balance hash s name (ns_owner ns) (-1) in
        s2 <-! save_domain hash valid_name c s1 name email refresh retry expire ttl owner;
        let s3 := update_balance hash s2 name owner 1 in
        ns' <-! post_transfer c (ns_owner ns) owner name;
        Halt (s3, VBool true, ns')
  | None =>
      sup <-! vm_add (supply s) 1;
      let s1 := set_supply s sup in
      s2 <-! save_domain hash valid_name c s1 name email refresh retry expire ttl owner;
      let s3 := update_balance hash s2 name owner 1 in
      ns' <-! post_transfer c None owner name;
      Halt (s3, VBool true, ns')
  end.

Lemma reg_guards_pass c s name o em rf rt ex ttl :
  reg_guards c s name o ->
  nexec c s (Register name (Some o) em rf rt ex ttl) = reg_tail c s name (Some o) em rf rt ex ttl.
Proof using noinj. clear hash_inj.
  intros (Hv & Ht & Hr & Hp & Hadm & Hc & Hlen & Hw & Hpr).
  unfold NNS.nexec. cbv zeta. rewrite Hv. cbn [oassert obind].
  unfold is_tld in Ht. rewrite Ht. cbn [negb oassert obind].
  rewrite (bool_decide_eq_true_2 _ Hr). cbn [oassert obind].
  rewrite Hp. cbn [negb oassert obind].
  assert (Hadm' : (if (2 <? length (split_dot name))%nat
                   then match get_ns s (join_dot (drop 1 (split_dot name))) with
                        | Some pns => check_admin c pns
                        | None => Fault
                        end
                   else Halt tt) = Halt tt).
  { destruct (2 <? length (split_dot name))%nat eqn:E2; [|reflexivity].
    apply Nat.ltb_lt in E2.
    pose proof (pe_chain _ _ _ _ Hp 1%nat ltac:(lia)) as Hpl.
    apply live_iff in Hpl as (pns & Hg & _). rewrite Hg. apply Hadm; [exact E2|exact Hg]. }
  rewrite Hadm'. cbn [obind]. rewrite Hc. cbn [negb oassert obind].
  assert (Hhl : hash_len o = true) by (unfold hash_len; apply Nat.eqb_eq, Hlen).
  cbn [is_valid]. rewrite Hhl. cbn [oassert obind].
  change (akey (Some o)) with o. unfold check_owner_witness, witness. rewrite Hhl. cbn [obind].
  fold (wit_of c o). rewrite Hw. cbn [oassert obind].
  unfold burn_gas. rewrite (proj2 (Z.ltb_lt _ _) Hpr). cbn [oassert obind].
  reflexivity.
Qed.

Lemma register_live c s name o em rf rt ex ttl :
  reg_guards c s name o -> live c s name = true ->
  nexec c s (Register name (Some o) em rf rt ex ttl) = Halt (s, VBool false, []).
Proof using noinj. clear hash_inj.
  intros G Hl. rewrite (reg_guards_pass _ _ _ _ _ _ _ _ _ G). unfold reg_tail.
  apply live_iff in Hl as (ns0 & Hg & Hlt). rewrite Hg.
  rewrite (proj2 (Z.ltb_lt _ _) Hlt). reflexivity.
Qed.

(** ... and it does succeed when the name is not live, short of 256-bit
    overflow and of a receiving contract that rejects the token *)
Lemma register_succeeds c s name o em rf rt ex ttl :
  reg_guards c s name o -> live c s name = false ->
  int_ok (ex * millisecondsInSecond) = true ->
  int_ok (now c + ex * millisecondsInSecond) = true ->
  int_ok (supply s + 1) = true ->
  existsb (bytes_eqb o) (rejecting c) = false ->
  exists s', nexec c s (Register name (Some o) em rf rt ex ttl) =
             Halt (s', VBool true, [NTransfer (owner_of s name) (Some o) name]).
Proof using noinj. clear hash_inj.
  intros G Hl I1 I2 I3 Hrej. rewrite (reg_guards_pass _ _ _ _ _ _ _ _ _ G).
  destruct G as (Hv & _). unfold reg_tail, owner_of.
  destruct (get_ns s name) as [ns0|] eqn:Hg.
  - assert (Hlt : (now c <? ns_exp ns0) = false).
    { unfold NNS.live in Hl. rewrite Hg in Hl. exact Hl. }
    rewrite Hlt. cbv zeta. unfold save_domain, vm_mul, vm_add. rewrite I1. cbn [obind].
    rewrite I2. cbn [obind]. unfold put_soa, token_id_from_name. rewrite Hv. cbn [obind].
    unfold post_transfer. change (akey (Some o)) with o. rewrite Hrej. cbn [obind].
    eexists. reflexivity.
  - cbv zeta. unfold vm_add at 1. rewrite I3. cbn [obind].
    unfold save_domain, vm_mul, vm_add. rewrite I1. cbn [obind].
    rewrite I2. cbn [obind]. unfold put_soa, token_id_from_name. rewrite Hv. cbn [obind].
    unfold post_transfer. change (akey (Some o)) with o. rewrite Hrej. cbn [obind].
    eexists. reflexivity.
Qed.

(** [register] answers [false] only for a live name *)
Lemma register_false_live c s name owner em rf rt ex ttl s' ns :
  acct_inv s ->
  nexec c s (Register name owner em rf rt ex ttl) = Halt (s', VBool false, ns) ->
  live c s name = true /\ s' = s /\ ns = [].
Proof.
  intros Inv H.
  apply (register_inv _ _ _ _ _ _ _ _ _ _ _ _ Inv) in H
    as (o & _ & _ & _ & _ & _ & _ & _ & _ & _ & _ & _ & Hc).
  destruct Hc as [(ns0 & Hg & Hlt & -> & _ & ->)|[(ns0 & o0 & _ & _ & Hr & _)|(_ & Hr & _)]];
    [|discriminate Hr|discriminate Hr].
  split; [apply live_iff; eauto|auto].
Qed.

Lemma register_not_live c s name o em rf rt ex ttl s' r ns :
  acct_inv s -> live c s name = false ->
  nexec c s (Register name (Some o) em rf rt ex ttl) = Halt (s', r, ns) ->
  r = VBool true /\
  get_ns s' name = Some (mkNS (Some o) name (now c + ex * millisecondsInSecond) None) /\
  ns = [NTransfer (owner_of s name) (Some o) name].
Proof.
  intros Inv Hl H.
  apply (register_inv _ _ _ _ _ _ _ _ _ _ _ _ Inv) in H
    as (o' & Eo & _ & _ & _ & _ & _ & _ & _ & _ & _ & _ & Hc). injection Eo as <-.
  destruct Hc as [(ns0 & Hg & Hlt & _)|[(ns0 & o0 & Hg & _ & -> & -> & Hm)|(Hg & -> & -> & Hm)]].
  - exfalso. assert (live c s name = true) by (apply live_iff; eauto). congruence.
  - destruct Hm as (_ & _ & Ho0 & _ & _ & _ & _ & E1 & _).
    split; [reflexivity|]. unfold owner_of, NNS.get_ns. rewrite E1, lookup_insert.
    unfold NNS.get_ns in Hg. rewrite Hg, Ho0. auto.
  - destruct Hm as (_ & _ & _ & _ & _ & E1 & _).
    split; [reflexivity|]. unfold owner_of, NNS.get_ns. rewrite E1, lookup_insert.
    unfold NNS.get_ns in Hg. rewrite Hg. auto.
Qed.

(** ** takeover *)
Lemma move_balances b b' o0 o :
  b' = bal_adj (bal_adj b o0 (-1)) o 1 ->
  forall x, default 0 (b' !! x) =
            default 0 (b !! x) - (if decide (x = o0) then 1 else 0) + (if decide (x = o) then 1 else 0).
Proof. intros -> x. rewrite !bal_adj_lookup. destruct (decide (x = o0)), (decide (x = o)); lia. Qed.

Lemma names_insert_get s s' n v :
  names s' = <[hash n := v]> (names s) ->
  get_ns s' n = Some v /\ forall m, m <> n -> get_ns s' m = get_ns s m.
Proof.
  intros E. unfold NNS.get_ns. rewrite E. split; [apply lookup_insert|].
  intros m Hne. apply lookup_insert_ne, not_eq_sym, hash_ne, Hne.
Qed.

Lemma takeover c s name owner em rf rt ex ttl s' ns ns0 :
  acct_inv s -> get_ns s name = Some ns0 ->
  nexec c s (Register name owner em rf rt ex ttl) = Halt (s', VBool true, ns) ->
  exists o o0, owner = Some o /\ ns_owner ns0 = Some o0 /\ ns_exp ns0 <= now c /\
    get_ns s' name = Some (mkNS (Some o) name (now c + ex * millisecondsInSecond) None) /\
    (forall n, n <> name -> get_ns s' n = get_ns s n) /\
    (forall x, default 0 (balances s' !! x) =
               default 0 (balances s !! x) - (if decide (x = o0) then 1 else 0)
                                           + (if decide (x = o) then 1 else 0)) /\
    supply s' = supply s /\
    acctok s' = <[(o, hash name) := name]> (delete (o0, hash name) (acctok s)) /\
    roots s' = roots s /\ price s' = price s /\
    ns = [NTransfer (Some o0) (Some o) name].
Proof.
  intros Inv Hg H.
  apply (register_inv _ _ _ _ _ _ _ _ _ _ _ _ Inv) in H
    as (o & -> & _ & _ & _ & _ & _ & _ & _ & _ & Hro & Hpr & Hc).
  destruct Hc as [(ns1 & _ & _ & _ & Hr & _)|[(ns1 & o0 & Hg' & Hexp & _ & -> & Hm)|(Hg' & _)]];
    [discriminate Hr| |congruence].
  rewrite Hg in Hg'. injection Hg' as <-.
  destruct Hm as (_ & _ & Ho0 & _ & _ & _ & _ & E1 & E2 & E3 & E4).
  exists o, o0. destruct (names_insert_get _ _ _ _ E1) as [G1 G2].
  repeat split; try assumption. apply move_balances, E3.
Qed.

(** ** transfer *)
Lemma transfer_spec c s to tok s' r ns :
  acct_inv s -> nexec c s (Transfer to tok) = Halt (s', r, ns) ->
  exists t ns0 o0, to = Some t /\ is_tld tok = false /\
    get_ns s tok = Some ns0 /\ ns_owner ns0 = Some o0 /\ now c < ns_exp ns0 /\
    ((r = VBool false /\ wit_of c o0 = false /\ s' = s /\ ns = []) \/
     (r = VBool true /\ wit_of c o0 = true /\ ns = [NTransfer (Some o0) (Some t) tok] /\
      (o0 = t -> s' = s) /\
      (o0 <> t ->
         get_ns s' tok = Some (mkNS (Some t) (ns_name ns0) (ns_exp ns0) None) /\
         (forall n, n <> tok -> get_ns s' n = get_ns s n) /\
         records s' = records s /\ roots s' = roots s /\ supply s' = supply s /\ price s' = price s /\
         (forall x, default 0 (balances s' !! x) =
                    default 0 (balances s !! x) - (if decide (x = o0) then 1 else 0)
                                                + (if decide (x = t) then 1 else 0)) /\
         acctok s' = <[(t, hash tok) := tok]> (delete (o0, hash tok) (acctok s))))).
Proof.
  intros Inv H.
  apply (transfer_inv _ _ _ _ _ _ _ Inv) in H
    as (t & ns0 & o0 & -> & Hlen & Ht & Hg & Hl & Hn0 & Ho0 & Hc).
  exists t, ns0, o0. do 5 (split; [first [reflexivity|assumption]|]).
  destruct Hc as [(Hw & -> & -> & ->)|(Hw & -> & -> & Hc)]; [left; auto|right].
  do 3 (split; [first [reflexivity|assumption]|]).
  destruct Hc as [(-> & ->)|(Hne & Hro & Hre & Hpr & Hm)].
  - split; [reflexivity|]. intros Hne. congruence.
  - split; [intros; congruence|]. intros _.
    destruct Hm as (_ & _ & _ & _ & _ & _ & _ & E1 & E2 & E3 & E4).
    destruct (names_insert_get _ _ _ _ E1) as [G1 G2]. rewrite Hn0.
    repeat split; try assumption. apply move_balances, E3.
Qed.

(** ** renew *)
Lemma renew_spec c s name y s' r ns :
  acct_inv s -> nexec c s (Renew name y) = Halt (s', r, ns) ->
  exists ns0, 1 <= y <= 10 /\ get_ns s name = Some ns0 /\ now c < ns_exp ns0 /\
    let e' := ns_exp ns0 + y * millisecondsInYear in
    r = VInt e' /\ ns = [NRenew name (ns_exp ns0) e'] /\
    (is_tld name = false -> e' <= now c + millisecondsInTenYears) /\
    get_ns s' name = Some (mkNS (ns_owner ns0) (ns_name ns0) e' (ns_admin ns0)) /\
    (forall n, n <> name -> get_ns s' n = get_ns s n) /\
    roots s' = roots s /\ supply s' = supply s /\ balances s' = balances s /\
    acctok s' = acctok s /\ records s' = records s /\ price s' = price s.
Proof.
  intros Inv H.
  apply (renew_inv _ _ _ _ _ _ _ Inv) in H
    as (ns0 & Hy & _ & Hg & Hl & _ & _ & _ & Hten & -> & -> & ->).
  exists ns0. cbv zeta. do 6 (split; [first [reflexivity|assumption]|]).
  cbn [roots supply balances acctok records price set_names].
  destruct (names_insert_get s (set_names s (<[hash name := mkNS (ns_owner ns0) (ns_name ns0)
              (ns_exp ns0 + y * millisecondsInYear) (ns_admin ns0)]> (names s))) name _ eq_refl) as [G1 G2].
  repeat split; assumption.
Qed.

(** ** readers need a live chain *)
Lemma frag_chain c s n ns :
  get_frag_ns hash c s n (split_dot n) = Halt ns ->
  get_ns s n = Some ns /\
  forall i, (i < length (split_dot n))%nat -> live c s (join_dot (drop i (split_dot n))) = true.
Proof using noinj. clear hash_inj.
  intros H. apply gfn_halt in H as (Hg & Hl & Hp).
  assert (Hp' : parent_expired c s 1 (split_dot n) = false)
    by (destruct (split_dot n); exact Hp).
  split; [exact Hg|]. intros i Hi. destruct i as [|i].
  - rewrite drop_0, join_split_dot. apply live_iff. exists ns. auto.
  - apply (pe_chain _ _ _ _ Hp'). lia.
Qed.

Lemma frag_reader c s n ns0 :
  length (split_dot n) <> 1%nat -> get_frag_ns hash c s n (split_dot n) = Halt ns0 ->
  (2 <= length (split_dot n))%nat /\
  (forall i, (i < length (split_dot n))%nat -> live c s (join_dot (drop i (split_dot n))) = true) /\
  get_ns s n = Some ns0 /\ now c < ns_exp ns0.
Proof using noinj. clear hash_inj.
  intros Hne Hf. pose proof (split_dot_length_pos n). split; [lia|].
  destruct (frag_chain _ _ _ _ Hf) as [Hg Hch]. split; [exact Hch|].
  apply gfn_halt in Hf as (_ & Hl & _). auto.
Qed.

Lemma owner_of_spec c s n s' r ns :
  nexec c s (OwnerOf n) = Halt (s', r, ns) ->
  (2 <= length (split_dot n))%nat /\
  (forall i, (i < length (split_dot n))%nat -> live c s (join_dot (drop i (split_dot n))) = true) /\
  exists ns0, get_ns s n = Some ns0 /\ now c < ns_exp ns0 /\ s' = s /\ ns = [] /\
    r = oaddr (ns_owner ns0).
Proof using noinj. clear hash_inj.
  intros H. unfold NNS.nexec in H. cbv zeta in H.
  inv1 H. rename E into Ene. apply negb_true_iff, Nat.eqb_neq in Ene.
  inv1 H. rename E into Ef. injection H as <- <- <-.
  destruct (frag_reader _ _ _ _ Ene Ef) as (H1 & H2 & H3 & H4). eauto 10.
Qed.

Lemma properties_spec c s n s' r ns :
  nexec c s (Properties n) = Halt (s', r, ns) ->
  (2 <= length (split_dot n))%nat /\
  (forall i, (i < length (split_dot n))%nat -> live c s (join_dot (drop i (split_dot n))) = true) /\
  exists ns0, get_ns s n = Some ns0 /\ now c < ns_exp ns0 /\ s' = s /\ ns = [] /\
    r = VList [VBytes (ns_name ns0); VInt (ns_exp ns0); oaddr (ns_admin ns0)].
Proof using noinj. clear hash_inj.
  intros H. unfold NNS.nexec in H. cbv zeta in H.
  inv1 H. rename E into Ene. apply negb_true_iff, Nat.eqb_neq in Ene.
  inv1 H. rename E into Ef. injection H as <- <- <-.
  destruct (frag_reader _ _ _ _ Ene Ef) as (H1 & H2 & H3 & H4). eauto 10.
Qed.


(** ** assembled statements used by Props/C10.v *)
Lemma availability c s n :
  valid_name n = true -> is_tld n = false ->
  is_Some (roots s !! List.last (split_dot n) []) ->
  parent_expired c s 1 (split_dot n) = false ->
  (live c s n = true <-> exists ns, get_ns s n = Some ns /\ now c < ns_exp ns) /\
  (live c s n = true -> nexec c s (IsAvailable n) = Halt (s, VBool false, [])) /\
  (live c s n = false ->
     nexec c s (IsAvailable n) =
       Halt (s, VBool (negb (parent_conflict s n (join_dot (drop 1 (split_dot n))))), [])).
Proof using noinj. clear hash_inj.
  intros Hv Ht Hr Hp. split; [apply live_iff|].
  pose proof (is_available_spec c s n Hv Ht Hr Hp) as H.
  split; intros Hl; rewrite Hl in H; exact H.
Qed.

Lemma availability_boundary c s n ns0 :
  valid_name n = true -> is_tld n = false ->
  is_Some (roots s !! List.last (split_dot n) []) ->
  parent_expired c s 1 (split_dot n) = false ->
  get_ns s n = Some ns0 ->
  let avail b := nexec c s (IsAvailable n) = Halt (s, VBool b, []) in
  let noconf := parent_conflict s n (join_dot (drop 1 (split_dot n))) = false in
  (now c < ns_exp ns0 -> avail false) /\
  (ns_exp ns0 <= now c -> noconf -> avail true) /\
  (now c = ns_exp ns0 - 1 -> avail false) /\
  (now c = ns_exp ns0 -> noconf -> avail true) /\
  (now c = ns_exp ns0 + 1 -> noconf -> avail true).
Proof using noinj. clear hash_inj.
  intros Hv Ht Hr Hp Hg avail noconf.
  destruct (availability c s n Hv Ht Hr Hp) as (L & A1 & A2).
  assert (B1 : now c < ns_exp ns0 -> avail false).
  { intros Hlt. apply A1, L. eauto. }
  assert (B2 : ns_exp ns0 <= now c -> noconf -> avail true).
  { intros Hge Hc. unfold avail. rewrite A2; [unfold noconf in Hc; rewrite Hc; reflexivity|].
    apply live_false_iff. intros ns E. rewrite Hg in E. injection E as <-. exact Hge. }
  split; [exact B1|]. split; [exact B2|].
  split; [intros E; apply B1; lia|]. split; intros E; apply B2; lia.
Qed.

Lemma availability_register c s name o em rf rt ex ttl :
  acct_inv s -> reg_guards c s name o ->
  let reg := nexec c s (Register name (Some o) em rf rt ex ttl) in
  (live c s name = true -> reg = Halt (s, VBool false, [])) /\
  (forall s' ns, reg = Halt (s', VBool false, ns) -> live c s name = true) /\
  (live c s name = false -> forall s' r ns, reg = Halt (s', r, ns) ->
     r = VBool true /\
     get_ns s' name = Some (mkNS (Some o) name (now c + ex * millisecondsInSecond) None) /\
     ns = [NTransfer (owner_of s name) (Some o) name]) /\
  (live c s name = false ->
     int_ok (ex * millisecondsInSecond) = true -> int_ok (now c + ex * millisecondsInSecond) = true ->
     int_ok (supply s + 1) = true -> existsb (bytes_eqb o) (rejecting c) = false ->
     exists s', reg = Halt (s', VBool true, [NTransfer (owner_of s name) (Some o) name])).
Proof.
  intros Inv G reg.
  split; [intros Hl; apply register_live; assumption|].
  split; [intros s' ns H; apply (register_false_live _ _ _ _ _ _ _ _ _ _ _ Inv H)|].
  split; [intros Hl s' r ns H; exact (register_not_live _ _ _ _ _ _ _ _ _ _ _ _ Inv Hl H)|].
  intros Hl I1 I2 I3 I4. apply register_succeeds; assumption.
Qed.

(** a live non-TLD name can never be renewed for the full ten years *)
Lemma renew_at_most_nine c s name y s' r ns :
  acct_inv s -> nexec c s (Renew name y) = Halt (s', r, ns) -> is_tld name = false -> y <= 9.
Proof.
  intros Inv H Ht. apply (renew_spec _ _ _ _ _ _ _ Inv) in H as (ns0 & Hy & _ & Hl & H).
  cbv zeta in H. destruct H as (_ & _ & Hten & _). specialize (Hten Ht).
  unfold millisecondsInTenYears in Hten.
  assert (0 < millisecondsInYear) by (vm_compute; reflexivity). nia.
Qed.

Lemma readers_need_live_chain c s n s' r ns :
  let chain :=
    (2 <= length (split_dot n))%nat /\
    forall i, (i < length (split_dot n))%nat -> live c s (join_dot (drop i (split_dot n))) = true in
  (nexec c s (OwnerOf n) = Halt (s', r, ns) ->
     chain /\ exists ns0, get_ns s n = Some ns0 /\ now c < ns_exp ns0 /\ s' = s /\ ns = [] /\
                          r = oaddr (ns_owner ns0)) /\
  (nexec c s (Properties n) = Halt (s', r, ns) ->
     chain /\ exists ns0, get_ns s n = Some ns0 /\ now c < ns_exp ns0 /\ s' = s /\ ns = [] /\
                          r = VList [VBytes (ns_name ns0); VInt (ns_exp ns0); oaddr (ns_admin ns0)]).
Proof using noinj. clear hash_inj.
  intros chain. split; intros H.
  - destruct (owner_of_spec _ _ _ _ _ _ H) as (H1 & H2 & H3). split; [split|]; assumption.
  - destruct (properties_spec _ _ _ _ _ _ H) as (H1 & H2 & H3). split; [split|]; assumption.
Qed.

End Acct.
