(** Proofs/NetmapRing.v — the history ring of Model/Netmap.v (C08): slot
    arithmetic, the move / delete loops of [UpdateSnapshotCount], the ring
    invariant with the ghost window across ticks and resizes (enlarging and
    both shrinking cases), the per-epoch lists, and the read theorems. *)
From Verif Require Import Base.Prelude Base.IntCodec Model.Netmap Spec.NetmapSpec
  Proofs.NetmapBase Proofs.NetmapCand Proofs.NetmapTick.
From Coq Require Import ZifyBool ZifyNat ZifyN.
Local Open Scope Z_scope.

(** * Slot arithmetic *)

(** Age of slot [i] when the current index is [id] in a ring of [K] slots:
    [(id - i) mod K], written without [mod]. *)
Definition dist (id K i : Z) : Z := if i <=? id then id - i else id - i + K.

(** The complete description of a ring: slot [i] holds the map published
    [dist i] ticks ago if that is inside the window [W], nothing otherwise,
    and nothing outside [0, K). *)
Definition slot_val (id K W E : Z) (pub : Z -> list node) (i : Z) : option (list node) :=
  if (0 <=? i) && (i <? K) && (dist id K i <? W) then Some (pub (E - dist id K i)) else None.

(** The index [Snapshot(d)] computes. *)
Lemma need_id id d K : 0 <= id < K -> 0 <= d < K ->
  (id - d + K) mod K = if d <=? id then id - d else id - d + K.
Proof.
  intros Hi Hd. destruct (Z.leb_spec d id).
  - symmetry. apply (Z.mod_unique_pos _ _ 1); lia.
  - symmetry. apply (Z.mod_unique_pos _ _ 0); lia.
Qed.

Lemma next_id id K : 0 <= id < K -> (id + 1) mod K = if id + 1 <? K then id + 1 else 0.
Proof.
  intros Hi. destruct (Z.ltb_spec (id + 1) K).
  - apply Z.mod_small. lia.
  - symmetry. apply (Z.mod_unique_pos _ _ 1); lia.
Qed.

(** * The loops of UpdateSnapshotCount *)

Lemma move_fold_fault (l : list (Z * Z)) :
  fold_left (fun r m => move_snapshot r (fst m) (snd m)) l Fault = Fault.
Proof. induction l as [|m l IH]; [reflexivity|]. exact IH. Qed.

Lemma delete_fold_fault (l : list Z) : fold_left delete_slot l Fault = Fault.
Proof. induction l as [|m l IH]; [reflexivity|]. exact IH. Qed.

(** No later move reads a slot written by an earlier one. *)
Fixpoint moves_ok (step : Z) (ks : list Z) : Prop :=
  match ks with
  | [] => True
  | k :: ks' => (forall k', k' ∈ ks' -> k' + step <> k) /\ moves_ok step ks'
  end.

(** [move(k+step, k)] for [k] in [ks], in order, starting from [rc] which
    agrees with [r] on all the sources: faults iff some source is absent
    (storage.Put(nil)); otherwise every target holds its source's old value
    and every other slot is untouched. *)
Lemma move_fold_spec step ks (r : gmap Z (list node)) : forall rc,
  moves_ok step ks -> NoDup ks ->
  (forall k, k ∈ ks -> 0 <= k <= 255 /\ 0 <= k + step <= 255) ->
  (forall k, k ∈ ks -> rc !! (k + step) = r !! (k + step)) ->
  match fold_left (fun a m => move_snapshot a (fst m) (snd m))
                  (map (fun k => (k + step, k)) ks) (Halt rc) with
  | Halt r' => (forall k, k ∈ ks -> is_Some (r !! (k + step))) /\
               forall x, r' !! x = if decide (x ∈ ks) then r !! (x + step) else rc !! x
  | Fault => exists k, k ∈ ks /\ r !! (k + step) = None
  end.
Proof.
  induction ks as [|k ks IH]; intros rc Hok Hnd Hrg Hsrc.
  - cbn. split; [intros k Hk; by apply elem_of_nil in Hk|].
    intros x. rewrite decide_False by apply not_elem_of_nil. reflexivity.
  - cbn [map fold_left fst snd]. destruct Hok as [Hk Hok]. apply NoDup_cons in Hnd as [Hnk Hnd].
    destruct (Hrg k ltac:(left)) as [Hk1 Hk2].
    unfold move_snapshot at 2. cbn [obind]. rewrite !ring_key_byte by lia. cbn [obind].
    rewrite (Hsrc k) by left. destruct (r !! (k + step)) as [v|] eqn:Ev.
    + specialize (IH (<[k := v]> rc) Hok Hnd).
      destruct (fold_left _ _ (Halt (<[k := v]> rc))) as [r'|].
      * destruct IH as [Hall Hl].
        { intros k' Hk'. apply Hrg. by right. }
        { intros k' Hk'. rewrite lookup_insert_ne by (apply not_eq_sym, Hk, Hk').
          apply Hsrc. by right. }
        split.
        { intros k' [->|Hk']%elem_of_cons; [by rewrite Ev|by apply Hall]. }
        intros x. rewrite Hl. destruct (decide (x = k)) as [->|Hne].
        -- rewrite decide_False by exact Hnk. rewrite decide_True by left.
           by rewrite lookup_insert.
        -- destruct (decide (x ∈ ks)) as [Hin|Hin].
           ++ rewrite decide_True by (by right). reflexivity.
           ++ rewrite decide_False by (rewrite elem_of_cons; tauto).
              by rewrite lookup_insert_ne by congruence.
      * destruct IH as (k' & Hk' & Hn).
        { intros k' Hk'. apply Hrg. by right. }
        { intros k' Hk'. rewrite lookup_insert_ne by (apply not_eq_sym, Hk, Hk').
          apply Hsrc. by right. }
        exists k'. split; [by right|exact Hn].
    + rewrite move_fold_fault. exists k. split; [left|exact Ev].
Qed.

Lemma delete_fold_spec ds : forall (r : gmap Z (list node)),
  (forall k, k ∈ ds -> 0 <= k <= 255) ->
  exists r', fold_left delete_slot ds (Halt r) = Halt r' /\
    forall x, r' !! x = if decide (x ∈ ds) then None else r !! x.
Proof.
  induction ds as [|k ds IH]; intros r Hrg.
  - exists r. split; [reflexivity|]. intros x. by rewrite decide_False by apply not_elem_of_nil.
  - cbn [fold_left]. unfold delete_slot at 2. cbn [obind].
    rewrite ring_key_byte by (apply Hrg; left). cbn [obind].
    destruct (IH (delete k r)) as (r' & Hf & Hl); [intros k' Hk'; apply Hrg; by right|].
    exists r'. split; [exact Hf|]. intros x. rewrite Hl.
    destruct (decide (x = k)) as [->|Hne].
    + rewrite (decide_True (P := k ∈ k :: ds)) by left. destruct (decide (k ∈ ds)); [reflexivity|].
      apply lookup_delete.
    + destruct (decide (x ∈ ds)) as [Hin|Hin].
      * by rewrite decide_True by (by right).
      * rewrite decide_False by (rewrite elem_of_cons; tauto). by apply lookup_delete_ne.
Qed.

Lemma drop_fold_spec ks : forall (m : gmap bytes (gmap bytes node2)) p,
  fold_left drop_netmap ks m !! p =
  if decide (p ∈ four_bytes_be <$> ks) then None else m !! p.
Proof.
  induction ks as [|k ks IH]; intros m p.
  - by rewrite decide_False by apply not_elem_of_nil.
  - cbn [fold_left fmap list_fmap]. rewrite IH. unfold drop_netmap.
    destruct (decide (p = four_bytes_be k)) as [->|Hne].
    + rewrite (decide_True (P := _ ∈ _ :: _)) by left.
      destruct (decide (_ ∈ _)); [reflexivity|apply lookup_delete].
    + destruct (decide (p ∈ four_bytes_be <$> ks)) as [Hin|Hin].
      * by rewrite decide_True by (by right).
      * rewrite decide_False by (rewrite elem_of_cons; tauto). by apply lookup_delete_ne.
Qed.

Lemma moves_ok_asc step a b : 0 < step -> moves_ok step (zrange a b).
Proof.
  intros Hs. destruct (Z_lt_le_dec a b) as [Hab|Hab]; [|by rewrite zrange_nil].
  remember (Z.to_nat (b - a)) as n eqn:Hn. revert a Hab Hn.
  induction n as [|n IH]; intros a Hab Hn; [lia|].
  rewrite zrange_cons by lia. split.
  - intros k' Hk'. apply elem_of_zrange in Hk'. lia.
  - destruct (Z_lt_le_dec (a + 1) b); [apply IH; lia|by rewrite zrange_nil].
Qed.

Lemma moves_ok_desc step a b : step < 0 -> moves_ok step (rev (zrange a b)).
Proof.
  intros Hs. destruct (Z_lt_le_dec a b) as [Hab|Hab]; [|by rewrite zrange_nil].
  remember (Z.to_nat (b - a)) as n eqn:Hn. revert b Hab Hn.
  induction n as [|n IH]; intros b Hab Hn; [lia|].
  rewrite zrange_snoc by lia. rewrite rev_app_distr. cbn [rev app]. split.
  - intros k' Hk'. apply elem_of_list_In, in_rev, elem_of_list_In, elem_of_zrange in Hk'. lia.
  - destruct (Z_lt_le_dec a (b - 1)); [apply IH; lia|by rewrite zrange_nil].
Qed.

Lemma NoDup_zrange a b : NoDup (zrange a b).
Proof.
  unfold zrange. apply NoDup_fmap_2; [intros x y; lia|apply NoDup_seq].
Qed.

Lemma elem_of_rev_zrange a b k : k ∈ rev (zrange a b) <-> a <= k < b.
Proof. rewrite <- elem_of_zrange. rewrite elem_of_list_In, <- in_rev, <- elem_of_list_In. tauto. Qed.

(** * The ring after a resize, slot by slot *)

Definition resized_slot (r : gmap Z (list node)) (old n id x : Z) : option (list node) :=
  if old <? n then
    let diff := n - old in
    if (id + 1 <=? x) && (x <? Z.min (id + 1 + diff) old) then None
    else if (diff + id + 1 <=? x) && (x <? n) then r !! (x - diff)
    else r !! x
  else if (n <=? x) && (x <? old) then None
  else if id <? n then
    (if (id + 1 <=? x) && (x <? n) then r !! (x + (old - n)) else r !! x)
  else
    (if (0 <=? x) && (x <? n) then r !! (x + (id - n + 1)) else r !! x).

Lemma decide_range (P : Prop) `{Decision P} {A} (b : bool) (u v : A) :
  (P <-> b = true) -> (if decide P then u else v) = (if b then u else v).
Proof. intros HP. destruct (decide P), b; try reflexivity; exfalso; intuition congruence. Qed.

Lemma resize_ring_lookup (r : gmap Z (list node)) old n id r2 :
  1 <= old <= 254 -> 1 <= n <= 254 -> n <> old -> 0 <= id < old ->
  resize_ring r old n id = Halt r2 ->
  forall x, r2 !! x = resized_slot r old n id x.
Proof.
  intros Ho Hn Hne Hid H x. unfold resize_ring in H. unfold resized_slot.
  unfold resize_moves, resize_dels in H.
  destruct (Z.ltb_spec old n) as [Hlt|Hge].
  - (* enlarging *)
    cbv zeta in H. cbv zeta.
    rewrite (map_ext _ (fun k => (k + (- (n - old)), k))) in H by (intros k; f_equal; lia).
    assert (Hneg : - (n - old) < 0) by lia.
    pose proof (move_fold_spec (- (n - old)) (rev (zrange (n - old + id + 1) n)) r r
                  (moves_ok_desc _ _ _ Hneg)) as HM.
    destruct (fold_left _ (map _ (rev (zrange (n - old + id + 1) n))) (Halt r)) as [r1|];
      [|rewrite delete_fold_fault in H; discriminate].
    destruct HM as [_ Hl1].
    { apply NoDup_ListNoDup, NoDup_rev, NoDup_ListNoDup, NoDup_zrange. }
    { intros k Hk. apply elem_of_rev_zrange in Hk. lia. }
    { reflexivity. }
    destruct (delete_fold_spec (zrange (id + 1) (Z.min (id + 1 + (n - old)) old)) r1) as (r2' & Hf & Hl2).
    { intros k Hk. apply elem_of_zrange in Hk. lia. }
    rewrite Hf in H. injection H as <-. rewrite Hl2, Hl1.
    rewrite (decide_range (x ∈ zrange _ _) ((id + 1 <=? x) && (x <? Z.min (id + 1 + (n - old)) old)))
      by (rewrite elem_of_zrange; lia).
    destruct ((id + 1 <=? x) && (x <? Z.min (id + 1 + (n - old)) old)); [reflexivity|].
    rewrite (decide_range (x ∈ rev _) ((n - old + id + 1 <=? x) && (x <? n)))
      by (rewrite elem_of_rev_zrange; lia).
    destruct ((n - old + id + 1 <=? x) && (x <? n)); [f_equal; lia|reflexivity].
  - (* shrinking *)
    assert (Hlt : n < old) by lia.
    destruct (Z.ltb_spec id n) as [Hidn|Hidn].
    + pose proof (move_fold_spec (old - n) (zrange (id + 1) n) r r
                    (moves_ok_asc (old - n) (id + 1) n ltac:(lia)) (NoDup_zrange _ _)) as HM.
      destruct (fold_left _ (map _ (zrange (id + 1) n)) (Halt r)) as [r1|];
        [|rewrite delete_fold_fault in H; discriminate].
      destruct HM as [_ Hl1].
      { intros k Hk. apply elem_of_zrange in Hk. lia. }
      { reflexivity. }
      destruct (delete_fold_spec (zrange n old) r1) as (r2' & Hf & Hl2).
      { intros k Hk. apply elem_of_zrange in Hk. lia. }
      rewrite Hf in H. injection H as <-. rewrite Hl2, Hl1.
      rewrite (decide_range (x ∈ zrange n old) ((n <=? x) && (x <? old)))
        by (rewrite elem_of_zrange; lia).
      destruct ((n <=? x) && (x <? old)); [reflexivity|].
      rewrite (decide_range (x ∈ zrange _ _) ((id + 1 <=? x) && (x <? n)))
        by (rewrite elem_of_zrange; lia).
      reflexivity.
    + pose proof (move_fold_spec (id - n + 1) (zrange 0 n) r r
                    (moves_ok_asc (id - n + 1) 0 n ltac:(lia)) (NoDup_zrange _ _)) as HM.
      destruct (fold_left _ (map _ (zrange 0 n)) (Halt r)) as [r1|];
        [|rewrite delete_fold_fault in H; discriminate].
      destruct HM as [_ Hl1].
      { intros k Hk. apply elem_of_zrange in Hk. lia. }
      { reflexivity. }
      destruct (delete_fold_spec (zrange n old) r1) as (r2' & Hf & Hl2).
      { intros k Hk. apply elem_of_zrange in Hk. lia. }
      rewrite Hf in H. injection H as <-. rewrite Hl2, Hl1.
      rewrite (decide_range (x ∈ zrange n old) ((n <=? x) && (x <? old)))
        by (rewrite elem_of_zrange; lia).
      destruct ((n <=? x) && (x <? old)); [reflexivity|].
      rewrite (decide_range (x ∈ zrange _ _) ((0 <=? x) && (x <? n)))
        by (rewrite elem_of_zrange; lia).
      reflexivity.
Qed.

(** * The ring invariant *)

Definition ring_inv (s : nstate) (h : hist) : Prop :=
  ring_ok s /\ 0 <= win h <= count s /\
  forall i, ring s !! i = slot_val (cur s) (count s) (win h) (epoch s) (pubL h) i.

(** Destruct every integer comparison whose operands are free of
    conditionals, pruning impossible branches. *)
Ltac zcmp_step :=
  match goal with
  | |- context [?a <=? ?b] =>
      lazymatch a with context [if _ then _ else _] => fail | _ =>
      lazymatch b with context [if _ then _ else _] => fail | _ =>
        destruct (Z.leb_spec a b) end end
  | |- context [?a <? ?b] =>
      lazymatch a with context [if _ then _ else _] => fail | _ =>
      lazymatch b with context [if _ then _ else _] => fail | _ =>
        destruct (Z.ltb_spec a b) end end
  | |- context [?a =? ?b] =>
      lazymatch a with context [if _ then _ else _] => fail | _ =>
      lazymatch b with context [if _ then _ else _] => fail | _ =>
        destruct (Z.eqb_spec a b) end end
  end.
Ltac zcmp := repeat (zcmp_step; cbn [andb orb negb]; cbv iota; try (exfalso; lia)).
Ltac zfin := first [reflexivity | exfalso; lia | f_equal; f_equal; lia | f_equal; lia].

Lemma ring_inv_tick c s h e :
  ring_inv s h -> e = epoch s + 1 ->
  ring_inv (tick_result c s e) (h_tick h e (count s) (filter_netmap s) (cands2 s)).
Proof.
  intros ((Hc & Hi) & Hw & Hr) ->. unfold tick_result. cbv zeta. rewrite tick_state_eq.
  rewrite next_id by lia.
  split; [split; cbn [count cur]; zcmp; lia|].
  split; [cbn [win h_tick count]; lia|].
  intros i. cbn [ring cur count epoch win pubL h_tick].
  destruct (decide (i = if cur s + 1 <? count s then cur s + 1 else 0)) as [->|Hne].
  - rewrite lookup_insert. unfold slot_val, dist, fupd. zcmp; zfin.
  - rewrite lookup_insert_ne by congruence. rewrite Hr. revert Hne.
    unfold slot_val, dist, fupd. zcmp; intros Hne; zfin.
Qed.

Lemma ring_inv_resize s h n s' :
  ring_inv s h -> update_snapshot_count s n = Halt s' -> ring_inv s' (h_resize h n).
Proof.
  intros ((Hc & Hi) & Hw & Hr) H. apply usc_inv in H as (Hn & Hne & r2 & Hrz & ->).
  pose proof (resize_ring_lookup _ _ _ _ _ Hc Hn Hne Hi Hrz) as Hl.
  split; [split; cbn [count cur]; [lia|unfold resize_cur; zcmp; lia]|].
  split; [cbn [win h_resize count]; lia|].
  intros x. cbn [ring cur count epoch win pubL h_resize]. rewrite Hl.
  unfold resized_slot, resize_cur. cbv zeta.
  destruct (Z.ltb_spec (count s) n) as [Hlt|Hge]; cbn [orb].
  - rewrite !Hr. unfold slot_val, dist. zcmp; zfin.
  - destruct (Z.ltb_spec (cur s) n) as [Hidn|Hidn].
    + rewrite !Hr. unfold slot_val, dist. zcmp; zfin.
    + rewrite !Hr. unfold slot_val, dist. zcmp; zfin.
Qed.

(** * Reads of the ring *)

Lemma snapshot_spec s h d :
  ring_inv s h ->
  r_snapshot s d =
  if (d <? 0) || (count s <=? d) then Fault
  else Halt (if d <? win h then pubL h (epoch s - d) else []).
Proof.
  intros ((Hc & Hi) & Hw & Hr). unfold r_snapshot. cbv zeta.
  destruct ((d <? 0) || (count s <=? d)) eqn:Hg; [reflexivity|].
  rewrite vm_mod_pos by lia. cbn [obind]. rewrite need_id by lia.
  assert (Hk : 0 <= (if d <=? cur s then cur s - d else cur s - d + count s) <= 255)
    by (destruct (Z.leb_spec d (cur s)); lia).
  rewrite ring_key_byte by exact Hk. cbn [obind]. unfold get_snapshot. rewrite Hr.
  f_equal. unfold slot_val, dist. zcmp; cbn [default from_option]; unfold id; zfin.
Qed.

Lemma snapshot_by_epoch_spec s e :
  r_snapshot_by_epoch s e = if int_ok (epoch s - e) then r_snapshot s (epoch s - e) else Fault.
Proof. unfold r_snapshot_by_epoch, vm_sub. destruct (int_ok (epoch s - e)); reflexivity. Qed.

Lemma netmap_spec s h : ring_inv s h -> 0 < win h -> r_netmap s = Halt (pubL h (epoch s)).
Proof.
  intros ((Hc & Hi) & Hw & Hr) Hpos. unfold r_netmap. rewrite ring_key_byte by lia. cbn [obind].
  unfold get_snapshot. rewrite Hr. unfold slot_val, dist. zcmp; cbn; f_equal; f_equal; lia.
Qed.

(** * The per-epoch lists *)

Definition lists_of (s : nstate) (p : bytes) : gmap bytes node2 := default ∅ (nodes2 s !! p).

Definition in_win2 (s : nstate) (h : hist) (e : Z) : Prop :=
  epoch s - win2 h < e <= epoch s /\ 0 < e.

Definition lists_inv (s : nstate) (h : hist) : Prop :=
  0 <= win2 h <= count s /\
  (forall e, e <= 0 -> pub2 h e = ∅) /\
  (forall e, in_win2 s h e -> lists_of s (four_bytes_be e) = pub2 h e) /\
  (forall p, (forall e, in_win2 s h e -> p <> four_bytes_be e) -> nodes2 s !! p = None).

Lemma fbe_ne a b : 0 <= a < 2 ^ 32 -> 0 <= b < 2 ^ 32 -> a <> b -> four_bytes_be a <> four_bytes_be b.
Proof. intros Ha Hb Hne Heq. apply Hne. by apply four_bytes_be_inj. Qed.

(** A key is the key of an epoch of the window, or of none. *)
Lemma win2_key_dec s h p : 0 <= epoch s < 2 ^ 32 ->
  (exists e, in_win2 s h e /\ p = four_bytes_be e) \/ (forall e, in_win2 s h e -> p <> four_bytes_be e).
Proof.
  intros He. set (e0 := key_epoch p).
  destruct (decide (epoch s - win2 h < e0 <= epoch s /\ 0 < e0 /\ p = four_bytes_be e0)) as [(H1 & H2 & H3)|Hn].
  - left. exists e0. split; [split; assumption|exact H3].
  - right. intros e [Hw Hpos] ->. apply Hn.
    assert (e0 = e) as ->; [|auto].
    unfold e0. rewrite key_epoch_nonneg by lia. apply Z.mod_small. lia.
Qed.

Lemma lists_inv_tick c s h e :
  lists_inv s h -> ring_ok s -> 0 <= epoch s -> e = epoch s + 1 -> e < 2 ^ 32 ->
  lists_inv (tick_result c s e) (h_tick h e (count s) (filter_netmap s) (cands2 s)).
Proof.
  intros (Hw & H0 & H1 & H2) (Hc & Hi) He -> Hlt. unfold tick_result. cbv zeta. rewrite tick_state_eq.
  set (e := epoch s + 1) in *.
  assert (Hnone : nodes2 s !! four_bytes_be e = None).
  { apply H2. intros e' [Hw' Hp']. apply fbe_ne; lia. }
  unfold lists_inv, in_win2, lists_of. cbn [count epoch nodes2 win2 pub2 h_tick].
  unfold tick_lists. cbv zeta. rewrite Hnone. cbn [default]. rewrite (right_id_L ∅ (∪)).
  assert (Hlk : forall p,
    (if e >? count s then drop_netmap (<[four_bytes_be e := cands2 s]> (nodes2 s)) (e - count s)
     else <[four_bytes_be e := cands2 s]> (nodes2 s)) !! p =
    if decide (p = four_bytes_be e) then Some (cands2 s)
    else if decide (count s < e /\ p = four_bytes_be (e - count s)) then None
    else nodes2 s !! p).
  { intros p. destruct (Z.gtb_spec e (count s)) as [Hg|Hg].
    - unfold drop_netmap. destruct (decide (p = four_bytes_be e)) as [->|Hne].
      + rewrite lookup_delete_ne by (apply fbe_ne; lia). by rewrite lookup_insert.
      + destruct (decide (count s < e /\ p = four_bytes_be (e - count s))) as [[_ ->]|Hn].
        * by rewrite lookup_delete.
        * rewrite lookup_delete_ne by (intros <-; apply Hn; split; [lia|reflexivity]).
          by rewrite lookup_insert_ne by congruence.
    - destruct (decide (p = four_bytes_be e)) as [->|Hne]; [by rewrite lookup_insert|].
      rewrite decide_False by lia. by rewrite lookup_insert_ne by congruence. }
  split; [lia|]. split; [|split].
  - intros e' He'. unfold fupd. destruct (Z.eqb_spec e' e); [lia|]. by apply H0.
  - intros e' [Hw' Hp']. rewrite Hlk. unfold fupd.
    destruct (Z.eqb_spec e' e) as [->|Hne].
    + by rewrite decide_True by reflexivity.
    + rewrite decide_False by (apply fbe_ne; lia).
      rewrite decide_False by (intros [Hg Heq]; apply fbe_ne in Heq; [exact Heq|lia|lia|lia]).
      apply (H1 e'). split; lia.
  - intros p Hp. rewrite Hlk.
    rewrite decide_False by (apply Hp; split; lia).
    destruct (decide (count s < e /\ p = four_bytes_be (e - count s))) as [_|Hn]; [reflexivity|].
    destruct (win2_key_dec s h p ltac:(lia)) as [(e'' & [Hw'' Hp''] & ->)|Hout]; [|by apply H2].
    exfalso. destruct (Z_le_gt_dec e'' (e - Z.min (win2 h + 1) (count s))) as [Hle|Hgt].
    + apply Hn. split; [lia|]. f_equal. lia.
    + apply (Hp e''); [split; lia|reflexivity].
Qed.

Lemma lists_inv_resize s h n r2 :
  lists_inv s h -> ring_ok s -> 0 <= epoch s < 2 ^ 32 -> 1 <= n <= 254 ->
  lists_inv (mkN (epoch s) (eblock s) n (resize_cur (count s) n (cur s)) r2 (cands s) (cands2 s)
                 (resize_lists (nodes2 s) (epoch s) (count s) n) (subs s) (config s))
            (h_resize h n).
Proof.
  intros (Hw & H0 & H1 & H2) (Hc & Hi) He Hn.
  unfold lists_inv, in_win2, lists_of. cbn [count epoch nodes2 win2 pub2 h_resize].
  unfold resize_lists.
  assert (Hdel : forall p, p ∈ four_bytes_be <$> zrange (epoch s - count s + 1) (epoch s - n + 1) <->
             exists k, epoch s - count s + 1 <= k <= epoch s - n /\ p = four_bytes_be k).
  { intros p. rewrite elem_of_list_fmap. split; intros (k & Hk1 & Hk2).
    - apply elem_of_zrange in Hk2. exists k. split; [lia|exact Hk1].
    - exists k. split; [exact Hk2|]. apply elem_of_zrange. lia. }
  split; [lia|]. split; [exact H0|]. split.
  - intros e' [Hw' Hp']. rewrite drop_fold_spec. rewrite decide_False.
    + apply (H1 e'). split; lia.
    + rewrite Hdel. intros (k & Hk & Heq). destruct (Z_lt_le_dec k 0) as [Hneg|Hnn].
      * symmetry in Heq. revert Heq. apply four_bytes_be_neg_ne; lia.
      * apply fbe_ne in Heq; [exact Heq|lia|lia|lia].
  - intros p Hp. rewrite drop_fold_spec.
    destruct (decide (p ∈ _)) as [_|Hnd]; [reflexivity|].
    destruct (win2_key_dec s h p He) as [(e'' & [Hw'' Hp''] & ->)|Hout]; [|by apply H2].
    exfalso. destruct (Z_le_gt_dec e'' (epoch s - Z.min (win2 h) n)) as [Hle|Hgt].
    + apply Hnd. apply Hdel. exists e''. split; [lia|reflexivity].
    + apply (Hp e''); [split; lia|reflexivity].
Qed.

Lemma list_nodes_spec s h e :
  lists_inv s h -> 0 <= epoch s < 2 ^ 32 -> 0 <= e < 2 ^ 32 ->
  r_list_nodes s e =
  if (epoch s - win2 h <? e) && (e <=? epoch s) then mvals (pub2 h e) else [].
Proof.
  intros (Hw & H0 & H1 & H2) He Hr. unfold r_list_nodes.
  destruct ((epoch s - win2 h <? e) && (e <=? epoch s)) eqn:Hin.
  - destruct (Z_le_gt_dec e 0) as [Hz|Hpos].
    + rewrite (H0 e Hz). rewrite (H2 (four_bytes_be e)); [reflexivity|].
      intros e' [Hw' Hp']. apply fbe_ne; lia.
    + fold (lists_of s (four_bytes_be e)). rewrite (H1 e); [reflexivity|]. split; lia.
  - rewrite (H2 (four_bytes_be e)); [apply mvals_empty|].
    intros e' [Hw' Hp']. apply fbe_ne; lia.
Qed.

(** * The invariant over histories *)

Definition c08_inv (sh : nstate * hist) : Prop :=
  tick_inv (fst sh) /\ ring_inv (fst sh) (snd sh) /\
  (epoch (fst sh) < 2 ^ 32 -> lists_inv (fst sh) (snd sh)).

Lemma ninit_ring_inv cfg : ring_inv (ninit cfg) h_init.
Proof.
  split; [split; cbn; unfold DefaultSnapshotCount; lia|].
  split; [cbn; unfold DefaultSnapshotCount; lia|].
  intros i. cbn [ninit ring cur count epoch win pubL h_init]. unfold DefaultSnapshotCount.
  destruct (decide (0 <= i < 10)) as [Hin|Hout].
  - assert (Hi : i = 0 \/ i = 1 \/ i = 2 \/ i = 3 \/ i = 4 \/ i = 5 \/ i = 6 \/ i = 7 \/ i = 8 \/ i = 9) by lia.
    repeat (destruct Hi as [->|Hi]; [vm_compute; reflexivity|]). subst. vm_compute. reflexivity.
  - rewrite (not_elem_of_list_to_map_1 _ i).
    + unfold slot_val. zcmp; zfin.
    + rewrite <- list_fmap_compose. intros (k & -> & Hk)%elem_of_list_fmap.
      apply elem_of_zrange in Hk. cbn in Hout. lia.
Qed.

Lemma ninit_lists_inv cfg : lists_inv (ninit cfg) h_init.
Proof.
  split; [cbn; unfold DefaultSnapshotCount; lia|]. split; [reflexivity|]. split.
  - intros e [Hw Hp]. cbn in Hw. lia.
  - intros p _. cbn. apply lookup_empty.
Qed.

Section Hist.
  Variable sub_ok : bytes -> bool.
  Variable sub_accepts : bytes -> Z -> bool.
  Notation nexec := (nexec sub_ok sub_accepts).
  Notation nstep := (nstep sub_ok sub_accepts).
  Notation gstep := (gstep sub_ok sub_accepts).
  Notation grun := (grun sub_ok sub_accepts).
  Notation consecutive := (consecutive sub_ok sub_accepts).

  Lemma fst_gstep sh co : fst (gstep sh co) = nstep_state sub_ok sub_accepts (fst sh) co.
  Proof. unfold gstep, nstep_state. cbv zeta. destruct (nstep (fst sh) co) as [[s' ok] ns]. reflexivity. Qed.

  Lemma fst_fold_gstep ops : forall sh,
    fst (fold_left gstep ops sh) = nrun_from sub_ok sub_accepts (fst sh) ops.
  Proof.
    induction ops as [|co ops IH]; intros sh; [reflexivity|].
    cbn [fold_left nrun_from]. rewrite IH, fst_gstep. reflexivity.
  Qed.

  Lemma fst_grun cfg ops : fst (grun cfg ops) = nrun_from sub_ok sub_accepts (ninit cfg) ops.
  Proof. apply fst_fold_gstep. Qed.

  (** Operations other than ticks and resizes leave everything the
      invariants speak about alone. *)
  Lemma nexec_other_frame c s o s' ns :
    tick_inv s -> nexec c s o = Halt (s', ns) ->
    (forall e, o <> NewEpoch e) -> (forall n, o <> UpdateSnapshotCount n) ->
    epoch s' = epoch s /\ count s' = count s /\ cur s' = cur s /\ ring s' = ring s /\
    nodes2 s' = nodes2 s.
  Proof.
    intros Hi H Hne Hnr. destruct (is_cand_op o) eqn:Hop.
    { pose proof (nexec_cand_frame _ _ _ _ _ _ _ Hop H) as (H1 & H2 & H3 & H4 & H5 & H6 & _). auto. }
    destruct o; try discriminate Hop.
    - by destruct (Hne e).
    - by destruct (Hnr n).
    - destruct Hi as (_ & Hs & _). apply nexec_subscribe in H; [|exact Hs].
      destruct H as (_ & _ & [(_ & -> & _)|(_ & _ & -> & _)]); auto.
    - cbn [Netmap.nexec] in H. inv_ob H. injection H as <- <-. auto.
  Qed.

  Lemma gstep_inv sh co :
    c08_inv sh ->
    (forall e, snd co = NewEpoch e -> snd (fst (nstep (fst sh) co)) = true -> e = epoch (fst sh) + 1) ->
    c08_inv (gstep sh co).
  Proof.
    destruct sh as [s h]. destruct co as [c o]. intros (Ht & Hr & Hl) Hcons. cbn [fst snd] in *.
    unfold gstep, Netmap.nstep. cbn [fst snd].
    destruct (nexec c s o) as [[s' ns]|] eqn:He; [|split; [exact Ht|split; [exact Hr|exact Hl]]].
    assert (Ht' : tick_inv s') by (eapply nexec_tick_inv; eassumption).
    unfold Netmap.nstep in Hcons. cbn [fst snd] in Hcons. rewrite He in Hcons. cbn [fst snd] in Hcons.
    split; [exact Ht'|]. cbn [fst snd].
    destruct o.
    1:{ (* NewEpoch *)
      specialize (Hcons e eq_refl eq_refl). destruct Ht as (Hro & Hs & Hep & Hlb).
      rewrite nexec_new_epoch in He by assumption.
      destruct (alpha c && (epoch s <? e) && _); [|discriminate]. injection He as <- <-.
      split; [by apply ring_inv_tick|].
      intros Hlt. assert (Hlt' : e < 2 ^ 32).
      { revert Hlt. unfold tick_result. cbv zeta. rewrite tick_state_eq. cbn. lia. }
      apply lists_inv_tick; try assumption. apply Hl. lia. }
    7:{ (* UpdateSnapshotCount *)
      cbn [Netmap.nexec] in He. inv_ob He. injection He as <- <-.
      split; [by eapply ring_inv_resize|].
      pose proof Eo as Eo'. apply usc_inv in Eo' as (Hn & Hne & r2 & _ & ->). cbn [epoch].
      intros Hlt. destruct Ht as (Hro & _ & Hep & _).
      apply lists_inv_resize; try assumption; [by apply Hl|lia]. }
    (* candidate and other operations: frame *)
    all: assert (Hf := nexec_other_frame _ _ _ _ _ Ht He ltac:(discriminate) ltac:(discriminate));
      destruct Hf as (F1 & F2 & F3 & F4 & F5);
      split;
      [ destruct Hr as ((Hc & Hi) & Hw & Hrr); split; [split; rewrite ?F2, ?F3; assumption|];
        split; [rewrite F2; exact Hw|]; intros i; rewrite F4, F3, F2, F1; apply Hrr
      | intros Hlt; rewrite F1 in Hlt; destruct (Hl Hlt) as (L1 & L2 & L3 & L4);
        split; [rewrite F2; exact L1|]; split; [exact L2|];
        unfold in_win2, lists_of; rewrite F1, F5; split; assumption ].
  Qed.

  Lemma fold_gstep_inv ops : forall sh,
    c08_inv sh -> consecutive (fst sh) ops = true -> c08_inv (fold_left gstep ops sh).
  Proof.
    induction ops as [|co ops IH]; intros sh Hi Hc; [exact Hi|].
    cbn [fold_left]. cbn [Spec.NetmapSpec.consecutive] in Hc.
    destruct (nstep (fst sh) co) as [[s' ok] ns] eqn:Hs.
    apply andb_true_iff in Hc as [Hc1 Hc2]. apply IH.
    - apply gstep_inv; [exact Hi|]. intros e He Hok. rewrite Hs in Hok. cbn in Hok. subst ok.
      rewrite He in Hc1. cbn in Hc1. lia.
    - rewrite fst_gstep. unfold nstep_state. rewrite Hs. exact Hc2.
  Qed.

  Lemma grun_inv cfg ops : consecutive (ninit cfg) ops = true -> c08_inv (grun cfg ops).
  Proof.
    intros Hc. apply fold_gstep_inv; [|exact Hc].
    split; [apply ninit_tick_inv|]. split; [apply ninit_ring_inv|]. intros _. apply ninit_lists_inv.
  Qed.
End Hist.

(** * Corollaries used by Props/C08.v *)

Lemma slot_of_age id d K : 0 <= id < K -> 0 <= d < K ->
  (id - d) mod K = if d <=? id then id - d else id - d + K.
Proof.
  intros Hi Hd. destruct (Z.leb_spec d id).
  - apply Z.mod_small. lia.
  - symmetry. apply (Z.mod_unique_pos _ _ (-1)); lia.
Qed.

Lemma ring_inv_by_age s h :
  ring_inv s h ->
  (forall d, 0 <= d < win h -> ring s !! ((cur s - d) mod count s) = Some (pubL h (epoch s - d))) /\
  (forall d, win h <= d < count s -> ring s !! ((cur s - d) mod count s) = None) /\
  (forall i, i < 0 \/ count s <= i -> ring s !! i = None).
Proof.
  intros ((Hc & Hi) & Hw & Hr). repeat split.
  - intros d Hd. rewrite slot_of_age by lia. rewrite Hr. unfold slot_val, dist. zcmp; zfin.
  - intros d Hd. rewrite slot_of_age by lia. rewrite Hr. unfold slot_val, dist. zcmp; zfin.
  - intros i Hout. rewrite Hr. unfold slot_val. zcmp; zfin.
Qed.

Section Corollaries.
  Variable sub_ok : bytes -> bool.
  Variable sub_accepts : bytes -> Z -> bool.
  Notation nexec := (nexec sub_ok sub_accepts).

  Lemma resize_step_inv c s h n s' ns :
    c08_inv (s, h) -> nexec c s (UpdateSnapshotCount n) = Halt (s', ns) ->
    c08_inv (s', h_resize h n) /\ epoch s' = epoch s /\ count s' = n /\ ns = [] /\
    1 <= n <= 254 /\ n <> count s /\ alpha c = true.
  Proof.
    intros Hi He.
    pose proof (gstep_inv sub_ok sub_accepts (s, h) (c, UpdateSnapshotCount n) Hi) as Hg.
    unfold gstep, nstep in Hg. cbn [fst snd] in Hg. rewrite He in Hg.
    split; [apply Hg; intros e [=]|].
    cbn [Netmap.nexec] in He. inv_ob He. injection He as <- <-.
    apply usc_inv in Eo as (Hn & Hne & r2 & _ & ->). cbn. repeat split; try assumption; lia.
  Qed.

  Lemma tick_step_inv c s h e s' ns :
    c08_inv (s, h) -> nexec c s (NewEpoch e) = Halt (s', ns) -> e = epoch s + 1 ->
    c08_inv (s', h_tick h e (count s) (filter_netmap s) (cands2 s)) /\ epoch s' = e /\ count s' = count s.
  Proof.
    intros Hi He ->.
    pose proof (gstep_inv sub_ok sub_accepts (s, h) (c, NewEpoch (epoch s + 1)) Hi) as Hg.
    unfold gstep, nstep in Hg. cbn [fst snd] in Hg. rewrite He in Hg.
    split; [apply Hg; intros e [= <-]; reflexivity|].
    destruct Hi as ((Hro & Hs & _) & _). cbn [fst] in *.
    rewrite nexec_new_epoch in He by assumption.
    destruct (alpha c && _ && _); [|discriminate]. injection He as <- <-.
    unfold tick_result. cbv zeta. rewrite tick_state_eq. cbn. split; reflexivity.
  Qed.

  (** Any state with the basic invariant can tick. *)
  Lemma can_tick c s :
    tick_inv s -> alpha c = true ->
    (forall h, h ∈ subscribers s -> sub_accepts h (epoch s + 1) = true) ->
    exists s' ns, nexec c s (NewEpoch (epoch s + 1)) = Halt (s', ns).
  Proof.
    intros (Hr & Hs & _) Ha Hacc. rewrite nexec_new_epoch by assumption. rewrite Ha.
    replace (epoch s <? epoch s + 1) with true by lia. cbn [andb].
    replace (forallb _ _) with true; [eauto|]. symmetry. apply forallb_forall.
    intros h Hh. apply Hacc. by apply elem_of_list_In.
  Qed.

  (** Rejected counts. *)
  Lemma bad_count_faults c s n :
    n <= 0 \/ 255 <= n \/ n = count s -> nexec c s (UpdateSnapshotCount n) = Fault.
  Proof.
    intros H. destruct (nexec c s (UpdateSnapshotCount n)) as [[s' ns]|] eqn:He; [|reflexivity].
    exfalso. cbn [Netmap.nexec] in He. inv_ob He. apply usc_inv in Eo as (Hn & Hne & _). lia.
  Qed.
End Corollaries.

(** * When is a resize accepted?  (the storage.Put(nil) observation) *)

(** A resize has to move a slot that holds nothing (left empty by an earlier
    enlargement and not yet refilled: the window is shorter than the count). *)
Definition nil_move (old n id W : Z) : bool :=
  if old <? n then (id <=? old - 2) && (W <? old)
  else if id <? n then (id + 1 <=? n - 1) && (W <? n)
  else W <? n.

Lemma moves_then_deletes (r : gmap Z (list node)) step ks ds :
  moves_ok step ks -> NoDup ks ->
  (forall k, k ∈ ks -> 0 <= k <= 255 /\ 0 <= k + step <= 255) ->
  (forall k, k ∈ ds -> 0 <= k <= 255) ->
  (exists r2, fold_left delete_slot ds
     (fold_left (fun a m => move_snapshot a (fst m) (snd m)) (map (fun k => (k + step, k)) ks) (Halt r))
     = Halt r2) <->
  (forall k, k ∈ ks -> is_Some (r !! (k + step))).
Proof.
  intros Hok Hnd Hrg Hdr.
  pose proof (move_fold_spec step ks r r Hok Hnd Hrg (fun _ _ => eq_refl)) as HM.
  destruct (fold_left _ (map _ ks) (Halt r)) as [r1|].
  - destruct HM as [Hall _]. split; [intros _; exact Hall|]. intros _.
    destruct (delete_fold_spec ds r1 Hdr) as (r2 & Hf & _). eauto.
  - destruct HM as (k & Hk & Hn). rewrite delete_fold_fault. split; [intros (r2 & [=])|].
    intros Hall. destruct (Hall k Hk) as [v Hv]. congruence.
Qed.

Lemma is_Some_slot_val id K W E pub i :
  is_Some (slot_val id K W E pub i) <-> 0 <= i < K /\ dist id K i < W.
Proof.
  unfold slot_val. destruct ((0 <=? i) && (i <? K) && (dist id K i <? W)) eqn:Hb.
  - split; [lia|eauto].
  - split; [intros H; by apply is_Some_None in H|lia].
Qed.

Lemma resize_halts_iff s h n :
  ring_inv s h -> 1 <= n <= 254 -> n <> count s ->
  (exists r2, resize_ring (ring s) (count s) n (cur s) = Halt r2) <->
  nil_move (count s) n (cur s) (win h) = false.
Proof.
  intros ((Hc & Hi) & Hw & Hr) Hn Hne. unfold resize_ring, resize_moves, resize_dels, nil_move.
  destruct (Z.ltb_spec (count s) n) as [Hlt|Hge].
  - cbv zeta.
    rewrite (map_ext _ (fun k => (k + (- (n - count s)), k))) by (intros k; f_equal; lia).
    assert (Hneg : - (n - count s) < 0) by lia.
    rewrite moves_then_deletes.
    + split.
      * intros Hall. destruct ((cur s <=? count s - 2) && (win h <? count s)) eqn:Hb; [|reflexivity].
        exfalso. specialize (Hall (n - count s + cur s + 1)). rewrite Hr, is_Some_slot_val in Hall.
        destruct Hall as [_ Hd]; [apply elem_of_rev_zrange; lia|]. revert Hd. unfold dist. zcmp; lia.
      * intros Hb k Hk. apply elem_of_rev_zrange in Hk. rewrite Hr, is_Some_slot_val.
        unfold dist. zcmp; lia.
    + by apply moves_ok_desc.
    + apply NoDup_ListNoDup, NoDup_rev, NoDup_ListNoDup, NoDup_zrange.
    + intros k Hk. apply elem_of_rev_zrange in Hk. lia.
    + intros k Hk. apply elem_of_zrange in Hk. lia.
  - destruct (Z.ltb_spec (cur s) n) as [Hidn|Hidn].
    + rewrite moves_then_deletes.
      * split.
        -- intros Hall. destruct ((cur s + 1 <=? n - 1) && (win h <? n)) eqn:Hb; [|reflexivity].
           exfalso. specialize (Hall (cur s + 1)). rewrite Hr, is_Some_slot_val in Hall.
           destruct Hall as [_ Hd]; [apply elem_of_zrange; lia|]. revert Hd. unfold dist. zcmp; lia.
        -- intros Hb k Hk. apply elem_of_zrange in Hk. rewrite Hr, is_Some_slot_val.
           unfold dist. zcmp; lia.
      * apply moves_ok_asc. lia.
      * apply NoDup_zrange.
      * intros k Hk. apply elem_of_zrange in Hk. lia.
      * intros k Hk. apply elem_of_zrange in Hk. lia.
    + rewrite moves_then_deletes.
      * split.
        -- intros Hall. destruct (win h <? n) eqn:Hb; [|reflexivity].
           exfalso. specialize (Hall 0). rewrite Hr, is_Some_slot_val in Hall.
           destruct Hall as [_ Hd]; [apply elem_of_zrange; lia|]. revert Hd. unfold dist. zcmp; lia.
        -- intros Hb k Hk. apply elem_of_zrange in Hk. rewrite Hr, is_Some_slot_val.
           unfold dist. zcmp; lia.
      * apply moves_ok_asc. lia.
      * apply NoDup_zrange.
      * intros k Hk. apply elem_of_zrange in Hk. lia.
      * intros k Hk. apply elem_of_zrange in Hk. lia.
Qed.

Section Accept.
  Variable sub_ok : bytes -> bool.
  Variable sub_accepts : bytes -> Z -> bool.

  Lemma resize_accept_iff c s h n :
    ring_inv s h ->
    (exists s' ns, nexec sub_ok sub_accepts c s (UpdateSnapshotCount n) = Halt (s', ns)) <->
    (alpha c = true /\ 1 <= n <= 254 /\ n <> count s /\ nil_move (count s) n (cur s) (win h) = false).
  Proof.
    intros Hr. split.
    - intros (s' & ns & He). cbn [nexec] in He. inv_ob He. injection He as <- <-.
      apply usc_inv in Eo as (Hn & Hne & r2 & Hrz & _).
      repeat split; try assumption; try lia. apply (resize_halts_iff s h n Hr Hn Hne). eauto.
    - intros (Ha & Hn & Hne & Hnil). apply (resize_halts_iff s h n Hr Hn Hne) in Hnil as (r2 & Hrz).
      cbn [nexec]. rewrite Ha. cbn [oassert obind]. unfold update_snapshot_count.
      replace (negb (n <=? 0)) with true by lia. replace (negb (n >=? 255)) with true by lia.
      replace (negb (count s =? n)) with true by lia. cbn [oassert obind]. rewrite Hrz. cbn [obind]. eauto.
  Qed.
End Accept.
