(** Proofs/ContainerNNS.v — the alias records Container keeps in NNS:
    where they sit, when deletion removes them (C04, NNS part), and the
    invariant "every TXT record naming a container sits under that
    container's current alias", which a second alias for a live container
    breaks (finding C04/realias). *)
From Verif Require Import Base.Prelude Base.IntCodec Model.Balance Proofs.BalanceSum Proofs.Balance
  Model.Container Proofs.Container Spec.Registry Proofs.ContainerRegistry.
From Coq Require Import ZifyBool ZifyNat ZifyN.
Local Open Scope Z_scope.

(** * NNS slice: facts about names and records *)

(** [Container.live] (an NNS name is registered and not expired) is shadowed by
    the registry's [live] field. *)
Notation nlive := Container.live.

Lemma nbind_ok {A B} (o : nres A) (f : A -> nres B) b :
  nbind o f = NOk b -> exists a, o = NOk a /\ f a = NOk b.
Proof. destruct o; simpl; [eauto|discriminate|discriminate]. Qed.

Tactic Notation "nbind" hyp(H) "as" simple_intropattern(x) ident(E) :=
  apply nbind_ok in H as (x & E & H).

Lemma nassert_ok b u : nassert b NBad = NOk u -> b = true.
Proof. destruct b; [reflexivity|discriminate]. Qed.

Lemma split_dot_nonnil b : split_dot b <> [].
Proof.
  induction b as [|x r IH]; [discriminate|]. cbn.
  destruct (x =? dot)%N; [discriminate|]. destruct (split_dot r); [contradiction|discriminate].
Qed.

Lemma join_dot_cons2 a b l : join_dot (a :: b :: l) = a ++ dot :: join_dot (b :: l).
Proof. reflexivity. Qed.

Lemma join_split b : join_dot (split_dot b) = b.
Proof.
  induction b as [|x r IH]; [reflexivity|]. cbn [split_dot].
  destruct (x =? dot)%N eqn:E.
  - apply N.eqb_eq in E. subst x. destruct (split_dot r) as [|f fs] eqn:Es.
    + exfalso. eapply split_dot_nonnil; eauto.
    + rewrite join_dot_cons2, IH. reflexivity.
  - destruct (split_dot r) as [|f fs] eqn:Es.
    + exfalso. eapply split_dot_nonnil; eauto.
    + destruct fs as [|g fs].
      * cbn [join_dot] in *. rewrite IH. reflexivity.
      * rewrite join_dot_cons2. rewrite join_dot_cons2 in IH. rewrite <- IH. reflexivity.
Qed.

Lemma split_and_check_ok name fs : split_and_check name = NOk fs -> fs = split_dot name.
Proof.
  unfold split_and_check. destruct ((length name <? 3)%nat || (255 <? length name)%nat); [discriminate|].
  destruct (check_fragments (split_dot name)); [|discriminate]. congruence.
Qed.

(** A live name is its own token. *)
Lemma token_id_live now ns d tok :
  token_id now ns d = NOk tok -> nlive now ns d = true -> tok = d.
Proof.
  unfold token_id. intros H Hl. nbind H as fs Efs. injection H as <-.
  apply split_and_check_ok in Efs. subst fs.
  destruct (split_dot d) as [|f [|g fs]] eqn:Es; cbn [token_id_go]; try reflexivity.
  rewrite <- Es, join_split, Hl. reflexivity.
Qed.

Lemma name_state_live now ns tok fs n : name_state now ns tok fs = NOk n -> nlive now ns tok = true.
Proof.
  unfold name_state, Container.live. destruct (names ns !! tok) as [n0|]; [|discriminate].
  destruct (now <? n_exp n0); [reflexivity|discriminate].
Qed.

Lemma nns_owner_of_live now ns d o : nns_owner_of now ns d = NOk o -> nlive now ns d = true.
Proof.
  unfold nns_owner_of. destruct (length (split_dot d) =? 1)%nat; [discriminate|].
  intros H. nbind H as n E. eapply name_state_live; eauto.
Qed.

Lemma nns_register_inv now wit ca ns name owner expire n' r :
  nns_register now wit ca ns name owner expire = NOk (n', r) ->
  txts n' = txts ns /\
  (r = true -> names n' = <[name := mkName owner (now + expire * 1000)]> (names ns)) /\
  (r = false -> n' = ns).
Proof.
  unfold nns_register. intros H. nbind H as fs Efs.
  destruct (length fs =? 1)%nat; [discriminate|].
  destruct (negb (bool_decide (List.last fs [] ∈ roots ns))); [discriminate|].
  destruct (parent_expired now ns 1 fs); [discriminate|].
  nbind H as u1 E1. nbind H as u2 E2. nbind H as u3 E3. nbind H as u4 E4.
  destruct (nlive now ns name); injection H as <- <-; repeat split; auto; discriminate.
Qed.

Lemma nns_register_live now wit ca ns name owner expire n' :
  nns_register now wit ca ns name owner expire = NOk (n', true) -> 0 < expire ->
  nlive now n' name = true.
Proof.
  intros H He. destruct (nns_register_inv _ _ _ _ _ _ _ _ _ H) as (_ & Hn & _).
  unfold Container.live. rewrite (Hn eq_refl), lookup_insert. cbn. apply Z.ltb_lt. lia.
Qed.

Lemma nns_add_record_inv now wit ca ns name data n' :
  nns_add_record now wit ca ns name data = NOk n' ->
  exists tok, token_id now ns name = NOk tok /\ names n' = names ns /\ roots n' = roots ns /\
    txts n' = <[(tok, name) := txt_of ns tok name ++ [data]]> (txts ns).
Proof.
  unfold nns_add_record. intros H. nbind H as tok Et. nbind H as u1 E1. nbind H as u2 E2.
  injection H as <-. exists tok. split; [|auto].
  unfold check_record in Et. nbind Et as tok' Et'. nbind Et as u3 E3.
  destruct (length (split_dot tok') =? 1)%nat; [discriminate|].
  nbind Et as n E4. nbind Et as u5 E5. injection Et as <-. exact Et'.
Qed.

Lemma nns_delete_records_inv now wit ca ns name n' :
  nns_delete_records now wit ca ns name = NOk n' ->
  exists tok, token_id now ns name = NOk tok /\ names n' = names ns /\ roots n' = roots ns /\
    txts n' = delete (tok, name) (txts ns).
Proof.
  unfold nns_delete_records. intros H. nbind H as tok Et.
  destruct (length (split_dot tok) =? 1)%nat; [discriminate|].
  nbind H as n E1. nbind H as u E2. injection H as <-. eauto.
Qed.

Lemma live_names_eq now ns ns' d : names ns' = names ns -> nlive now ns' d = nlive now ns d.
Proof. unfold Container.live. intros ->. reflexivity. Qed.

Section Alias.
  Variable cid_of : bytes -> bytes.
  Variable b58 : bytes -> bytes.
  Hypothesis cid_inj : forall a b, cid_of a = cid_of b -> a = b.
  Hypothesis b58_inj : forall a b, b58 a = b58 b -> a = b.
  (** Record data that is not the Base58 form of any id (what strangers may
      write into alias zones without confusing anybody). *)
  Variable foreign : bytes -> bool.
  Hypothesis foreign_b58 : forall cid, foreign (b58 cid) = false.

  Notation wexec := (wexec cid_of b58).
  Notation wstep := (wstep cid_of b58).
  Notation wrun_from := (wrun_from cid_of b58).
  Notation put_named := (put_named cid_of b58).
  Notation CInv := (CInv cid_of).

  (** Every TXT record that names a container sits under that container's
      current alias (and under the alias' own token). *)
  Definition alias_sound (w : world) : Prop :=
    forall (tok nm : bytes) (recs : list bytes) (cid : bytes),
      txts (w_n w) !! (tok, nm) = Some recs -> b58 cid ∈ recs ->
      aliases (w_c w) !! cid = Some nm /\ tok = nm.

  Lemma alias_sound_ext w w' :
    txts (w_n w') = txts (w_n w) -> aliases (w_c w') = aliases (w_c w) ->
    alias_sound w -> alias_sound w'.
  Proof. unfold alias_sound. intros -> ->. auto. Qed.

  (** The premise of the partial theorem, per step (decidable; only calls
      that do not fault matter):
      - a named put gives a name to a container that has none ("at most one
        alias per container id");
      - a delete finds the alias domain registered and unexpired, and NNS
        accepts the record removal;
      - records written into NNS directly are [foreign]. *)
  Definition step_cond (w : world) (co : cctx * wop) : bool :=
    let c := fst co in
    match snd co with
    | PutNamed blob _ _ _ name _ =>
        negb (nonempty name) ||
        match aliases (w_c w) !! cid_of blob with None => true | Some _ => false end
    | Delete cid _ _ =>
        match aliases (w_c w) !! cid with
        | Some d => nlive (x_now c) (w_n w) d &&
                    match nns_delete_records (x_now c) (nns_wit c) (x_caddr c) (w_n w) d with
                    | NOk _ => true | _ => false end
        | None => true
        end
    | NnsAddTxt _ data => foreign data
    | _ => true
    end.

  Definition step_ok (w : world) (co : cctx * wop) : bool :=
    val_eqb (snd (fst (wstep w co))) VFault || step_cond w co.

  Fixpoint wf_alias (w : world) (ops : list (cctx * wop)) : bool :=
    match ops with
    | [] => true
    | co :: rest => step_ok w co && wf_alias (fst (fst (wstep w co))) rest
    end.

  Lemma txt_of_elem ns tok nm x : x ∈ txt_of ns tok nm -> exists recs, txts ns !! (tok, nm) = Some recs /\ x ∈ recs.
  Proof.
    unfold txt_of. destruct (txts ns !! (tok, nm)) as [recs|]; cbn; [eauto|]. intros H. inversion H.
  Qed.

  (** *** put *)
  Lemma put_alias_sound c w o blob sig pub tok name zone w' r ns :
    CInv (w_c w) -> alias_sound w ->
    put_shape o = Some (blob, sig, pub, tok, name, zone) ->
    (nonempty name = true -> aliases (w_c w) !! cid_of blob = None) ->
    wexec c w o = Halt (w', r, ns) -> alias_sound w'.
  Proof.
    intros HI HA Hs Hone H.
    destruct (put_state_eq cid_of b58 _ _ _ _ _ _ _ _ _ _ _ _ Hs H) as (owner & Ho & Hd & Hcs).
    destruct (wexec_put _ _ _ _ _ _ _ _ _ _ _ _ _ _ Hs H) as [_ Hp].
    destruct (put_named_inv _ _ _ _ _ _ _ _ _ _ _ _ Hp)
      as [owner' fee0 fee b' bns n' id' need _ _ Hname _ _ _ _ _ Hnns _ _ _ Hw _].
    rewrite pre_put_n in Hname, Hnns.
    assert (Hn' : w_n w' = n') by (subst w'; reflexivity).
    assert (Hal : aliases (w_c w') =
                  match name_opt (nroot (w_c w)) name zone with
                  | Some d => <[cid_of blob := d]> (aliases (w_c w)) | None => aliases (w_c w) end).
    { rewrite Hcs. unfold put_state. destruct (name_opt _ _ _), (meta_flag o); reflexivity. }
    unfold name_opt in Hal.
    destruct (nonempty name) eqn:Hne.
    2:{ eapply alias_sound_ext; [| |exact HA]; [rewrite Hn', Hnns; reflexivity|exact Hal]. }
    set (d := domain_of (w_c (pre_put cid_of w o blob)) name zone) in *.
    assert (Hd' : name ++ dot :: (if nonempty zone then zone else nroot (w_c w)) = d).
    { subst d. unfold domain_of. rewrite pre_put_nroot. reflexivity. }
    rewrite Hd' in Hal.
    destruct Hnns as (n1 & Hreg & Hadd).
    specialize (Hname eq_refl). specialize (Hone eq_refl).
    (* the domain is live in [n1] and records are untouched by registration *)
    assert (Hn1 : txts n1 = txts (w_n w) /\ nlive (x_now c) n1 d = true).
    { destruct need.
      - destruct (nns_register_inv _ _ _ _ _ _ _ _ _ Hreg) as (Ht & _ & _). split; [exact Ht|].
        eapply nns_register_live; [exact Hreg|]. unfold default_expire. lia.
      - subst n1. split; [reflexivity|].
        unfold check_nice_name in Hname. obind Hname as av Eav. destruct av; [discriminate|].
        obind Hname as ow Eow. apply of_nres_halt in Eow. eapply nns_owner_of_live; eauto. }
    destruct Hn1 as [Ht1 Hl1].
    destruct (nns_add_record_inv _ _ _ _ _ _ _ Hadd) as (tk & Etk & _ & _ & Htx).
    apply token_id_live in Etk; [|exact Hl1]. subst tk.
    intros tok0 nm recs cid0 Hl Hin. rewrite Hn', Htx in Hl. rewrite Hal.
    destruct (decide ((tok0, nm) = (d, d))) as [Heq|Hneq].
    - injection Heq as -> ->. rewrite lookup_insert in Hl. injection Hl as <-.
      apply elem_of_app in Hin as [Hin|Hin].
      + apply txt_of_elem in Hin as (recs0 & Hl0 & Hin0). rewrite Ht1 in Hl0.
        destruct (HA _ _ _ _ Hl0 Hin0) as [Ha _]. split; [|reflexivity].
        destruct (decide (cid0 = cid_of blob)) as [->|Hc]; [apply lookup_insert|].
        rewrite lookup_insert_ne by congruence. exact Ha.
      + apply elem_of_list_singleton in Hin. apply b58_inj in Hin. subst cid0.
        split; [apply lookup_insert|reflexivity].
    - rewrite lookup_insert_ne in Hl by congruence. rewrite Ht1 in Hl.
      destruct (HA _ _ _ _ Hl Hin) as [Ha Htk]. split; [|exact Htk].
      destruct (decide (cid0 = cid_of blob)) as [->|Hc]; [congruence|].
      rewrite lookup_insert_ne by congruence. exact Ha.
  Qed.

  (** *** delete: afterwards no TXT record anywhere in NNS names the container *)
  Lemma delete_alias_sound c w cid sig tok w' ns :
    CInv (w_c w) -> alias_sound w ->
    step_cond w (c, Delete cid sig tok) = true ->
    delete_cnr c w cid sig tok = Halt (w', ns) ->
    alias_sound w' /\
    (ns = [NDel cid] -> forall key recs, txts (w_n w') !! key = Some recs -> b58 cid ∉ recs).
  Proof.
    intros HI HA Hc H.
    destruct (del_state_eq cid_of _ _ _ _ _ _ _ HI H)
      as [(Hn & -> & ->)|(cn & owner & Hcn & Ho & _ & Hcs & -> & _ & _ & _ & Hnns)].
    { split; [exact HA|discriminate]. }
    assert (Hal : aliases (w_c w') = delete cid (aliases (w_c w))).
    { rewrite Hcs. reflexivity. }
    unfold step_cond in Hc. cbn [fst snd] in Hc.
    destruct (aliases (w_c w) !! cid) as [d|] eqn:Ed.
    - apply andb_true_iff in Hc as [Hlive Hstrict].
      unfold delete_nns_records in Hnns.
      destruct (nns_delete_records (x_now c) (nns_wit c) (x_caddr c) (w_n w) d) as [n''| |] eqn:Edel; try discriminate.
      injection Hnns as Hn'.
      destruct (nns_delete_records_inv _ _ _ _ _ _ Edel) as (tk & Etk & _ & _ & Htx).
      apply token_id_live in Etk; [|exact Hlive]. subst tk.
      assert (Hkey : forall tok0 nm recs cid0, txts (w_n w') !! (tok0, nm) = Some recs -> b58 cid0 ∈ recs ->
                cid0 <> cid /\ aliases (w_c w) !! cid0 = Some nm /\ tok0 = nm).
      { intros tok0 nm recs cid0 Hl Hin. rewrite <- Hn', Htx in Hl.
        apply lookup_delete_Some in Hl as [Hne Hl]. destruct (HA _ _ _ _ Hl Hin) as [Ha Htk].
        split; [|auto]. intros ->. rewrite Ed in Ha. injection Ha as <-. subst tok0. congruence. }
      split.
      + intros tok0 nm recs cid0 Hl Hin. destruct (Hkey _ _ _ _ Hl Hin) as (Hne & Ha & Htk).
        split; [|exact Htk]. rewrite Hal, lookup_delete_ne by congruence. exact Ha.
      + intros _ [tok0 nm] recs Hl Hin. destruct (Hkey _ _ _ _ Hl Hin) as (Hne & _). congruence.
    - assert (Hn' : w_n w' = w_n w) by exact Hnns.
      assert (Hkey : forall tok0 nm recs cid0, txts (w_n w') !! (tok0, nm) = Some recs -> b58 cid0 ∈ recs ->
                cid0 <> cid /\ aliases (w_c w) !! cid0 = Some nm /\ tok0 = nm).
      { intros tok0 nm recs cid0 Hl Hin. rewrite Hn' in Hl. destruct (HA _ _ _ _ Hl Hin) as [Ha Htk].
        split; [|auto]. intros ->. congruence. }
      split.
      + intros tok0 nm recs cid0 Hl Hin. destruct (Hkey _ _ _ _ Hl Hin) as (Hne & Ha & Htk).
        split; [|exact Htk]. rewrite Hal, lookup_delete_ne by congruence. exact Ha.
      + intros _ [tok0 nm] recs Hl Hin. destruct (Hkey _ _ _ _ Hl Hin) as (Hne & _). congruence.
  Qed.

  (** *** every step *)
  Lemma wexec_alias_sound c w o w' r ns :
    CInv (w_c w) -> alias_sound w -> step_cond w (c, o) = true ->
    wexec c w o = Halt (w', r, ns) -> alias_sound w'.
  Proof.
    intros HI HA Hc H. destruct (put_shape o) as [[[[[[blob sig] pub] tok] name] zone]|] eqn:Hs.
    { eapply put_alias_sound; eauto. intros Hne.
      destruct o; try discriminate; cbn [put_shape] in Hs; injection Hs as ? ? ? ? ? ?; subst; try discriminate.
      unfold step_cond in Hc. cbn [fst snd] in Hc. rewrite Hne in Hc. cbn in Hc.
      destruct (aliases (w_c w) !! cid_of blob); [discriminate|reflexivity]. }
    destruct o; try discriminate.
    - cbn [Container.wexec] in H. obind H as [w1 ns1] E. injection H as <- _ _.
      eapply delete_alias_sound; eauto.
    - cbn [Container.wexec] in H. obind H as [w1 ns1] E. injection H as <- _ _.
      destruct (set_eacl_inv _ _ _ _ _ _ _ _ E) as [cid cn owner _ _ _ _ _ -> _].
      eapply alias_sound_ext; [| |exact HA]; reflexivity.
    - cbn [Container.wexec] in H. obind H as [[b' r'] ns'] E. injection H as <- _ _.
      eapply alias_sound_ext; [| |exact HA]; reflexivity.
    - cbn [Container.wexec] in H. obind H as u E. injection H as <- _ _.
      eapply alias_sound_ext; [| |exact HA]; reflexivity.
    - cbn [Container.wexec] in H. obind H as [n' r'] E. injection H as <- _ _.
      apply of_nres_halt in E. destruct (nns_register_inv _ _ _ _ _ _ _ _ _ E) as (Ht & _).
      eapply alias_sound_ext; [| |exact HA]; [exact Ht|reflexivity].
    - cbn [Container.wexec] in H. obind H as n' E. injection H as <- _ _.
      apply of_nres_halt in E. destruct (nns_add_record_inv _ _ _ _ _ _ _ E) as (tk & _ & _ & _ & Htx).
      unfold step_cond in Hc. cbn [fst snd] in Hc.
      intros tok0 nm recs cid0 Hl Hin. cbn [w_n w_c] in *. rewrite Htx in Hl.
      destruct (decide ((tok0, nm) = (tk, name))) as [Heq|Hneq].
      + injection Heq as -> ->. rewrite lookup_insert in Hl. injection Hl as <-.
        apply elem_of_app in Hin as [Hin|Hin].
        * apply txt_of_elem in Hin as (recs0 & Hl0 & Hin0). eapply HA; eauto.
        * apply elem_of_list_singleton in Hin. subst data. rewrite foreign_b58 in Hc. discriminate.
      + rewrite lookup_insert_ne in Hl by congruence. eapply HA; eauto.
    - cbn [Container.wexec] in H. obind H as n' E. injection H as <- _ _.
      apply of_nres_halt in E. destruct (nns_delete_records_inv _ _ _ _ _ _ E) as (tk & _ & _ & _ & Htx).
      intros tok0 nm recs cid0 Hl Hin. cbn [w_n w_c] in *. rewrite Htx in Hl.
      apply lookup_delete_Some in Hl as [_ Hl]. eapply HA; eauto.
  Qed.

  Lemma wstep_alias_sound w co :
    CInv (w_c w) -> alias_sound w -> step_ok w co = true -> alias_sound (fst (fst (wstep w co))).
  Proof.
    intros HI HA Hok. unfold step_ok in Hok.
    destruct (wstep_cases cid_of b58 w co) as [(w' & r & ns & He & Hw)|(_ & Hw)]; rewrite Hw in *; cbn [fst snd] in *; [|exact HA].
    assert (Hr : val_eqb r VFault = false).
    { pose proof (wexec_ret _ _ _ _ _ _ _ _ He) as Hr. destruct r; try reflexivity. congruence. }
    rewrite Hr in Hok. cbn [orb] in Hok. destruct co as [c o]. eapply wexec_alias_sound; eauto.
  Qed.

  Lemma wrun_alias_sound w ops :
    CInv (w_c w) -> alias_sound w -> wf_alias w ops = true ->
    alias_sound (wrun_from w ops) /\ CInv (w_c (wrun_from w ops)).
  Proof.
    unfold Container.wrun_from. revert w. induction ops as [|co ops IH]; intros w HI HA Hwf; [auto|].
    cbn [fold_left wf_alias] in *. apply andb_true_iff in Hwf as [Hok Hwf].
    apply IH; [|eapply wstep_alias_sound; eauto|exact Hwf].
    apply (wstep_CInv cid_of b58 cid_inj). exact HI.
  Qed.

  Lemma wf_alias_app w pre post :
    wf_alias w (pre ++ post) = wf_alias w pre && wf_alias (wrun_from w pre) post.
  Proof.
    unfold Container.wrun_from. revert w. induction pre as [|co pre IH]; intros w; [reflexivity|].
    cbn [app wf_alias fold_left]. rewrite IH, andb_assoc. reflexivity.
  Qed.

  (** *** C04_delete_total (NNS part), under the premise *)
  Lemma delete_total_nns w0 pre c cid sig tok post w' r ns :
    CInv (w_c w0) -> alias_sound w0 ->
    wf_alias w0 (pre ++ (c, Delete cid sig tok) :: post) = true ->
    wstep (wrun_from w0 pre) (c, Delete cid sig tok) = (w', r, ns) -> In (NDel cid) ns ->
    forall key recs, txts (w_n w') !! key = Some recs -> b58 cid ∉ recs.
  Proof.
    intros HI HA Hwf Hst Hin.
    rewrite wf_alias_app in Hwf. apply andb_true_iff in Hwf as [Hpre Hwf].
    cbn [wf_alias] in Hwf. apply andb_true_iff in Hwf as [Hok _].
    destruct (wrun_alias_sound _ _ HI HA Hpre) as [HA' HI'].
    set (w := wrun_from w0 pre) in *.
    destruct (wstep_cases cid_of b58 w (c, Delete cid sig tok)) as [(w1 & r1 & ns1 & He & Hw)|(_ & Hw)];
      rewrite Hw in Hst; injection Hst as <- <- <-; [|contradiction].
    cbn [fst snd] in He.
    unfold step_ok in Hok. rewrite Hw in Hok. cbn [fst snd] in Hok.
    assert (Hr : val_eqb r1 VFault = false).
    { pose proof (wexec_ret _ _ _ _ _ _ _ _ He) as Hr. destruct r1; try reflexivity. congruence. }
    rewrite Hr in Hok. cbn [orb] in Hok.
    cbn [Container.wexec] in He. obind He as [w2 ns2] E. injection He as <- _ <-.
    destruct (delete_alias_sound _ _ _ _ _ _ _ HI' HA' Hok E) as [_ Hclean].
    apply Hclean.
    destruct (del_state_eq cid_of _ _ _ _ _ _ _ HI' E) as [(_ & _ & ->)|(_ & _ & _ & _ & _ & _ & -> & _)];
      [contradiction|reflexivity].
  Qed.
End Alias.
