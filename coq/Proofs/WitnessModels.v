(** Proofs/WitnessModels.v — the contract models obey their rows of the
    requirement table (C03): for each model a translation from the abstract
    invocation context of Model/Witness.v to the model's own notion of
    witness, and the proof that an unmet requirement makes the model's atomic
    step return the same state, no notification and a refusal.

    The models are imported WITHOUT [Import] (their names clash: every family
    has its own [ctx], [nop], [nstep], ...); they are referred to by
    qualified names. *)
From Coq Require Import String.
From Verif Require Import Base.Prelude Base.IntCodec Model.Balance Proofs.BalanceSum Proofs.Balance
  Model.Witness Proofs.Witness.
From Verif Require Model.StoreLib Model.Reputation Model.NeoFSID Model.Config Model.Audit
  Model.Estimations.
Local Open Scope string_scope.

(** * Common pieces *)

(** What the models that abstract the Alphabet witness as a boolean are
    given: the verdict of [RAlpha]. *)
Definition alpha_of (c : ctx) (a : args) : bool := witnessed c (ch_alpha (a_chain a)).
Lemma alpha_of_sound c a : alpha_of c a = eval_req c a RAlpha.
Proof. reflexivity. Qed.

(** The script hashes [runtime.CheckWitness] accepts, as a list (for the
    models that keep such a list): the calling contract and the signers,
    20-byte entries only. *)
Definition wit_list (c : ctx) : list bytes := filter (fun h => hash_len20 h = true) (wx_caller c :: wx_signers c).

Lemma existsb_filter_len h l :
  existsb (bytes_eqb h) (filter (fun x => hash_len20 x = true) l) = hash_len20 h && existsb (bytes_eqb h) l.
Proof.
  induction l as [|x l IH]; [cbn; rewrite andb_false_r; reflexivity|].
  rewrite filter_cons. cbn [existsb]. destruct (decide (hash_len20 x = true)) as [Hx|Hx].
  - cbn [existsb]. rewrite IH. destruct (bytes_eqb h x) eqn:E.
    + apply bytes_eqb_eq in E. subst. rewrite Hx. reflexivity.
    + cbn [orb]. reflexivity.
  - rewrite IH. destruct (bytes_eqb h x) eqn:E.
    + apply bytes_eqb_eq in E. subst. apply not_true_is_false in Hx. rewrite Hx. reflexivity.
    + reflexivity.
Qed.

Lemma wit_list_sound c h : existsb (bytes_eqb h) (wit_list c) = witnessed c h.
Proof. unfold wit_list, witnessed. apply existsb_filter_len. Qed.

(** * Reputation (Model/Reputation.v) *)
Definition to_rop (c : ctx) (a : args) (e : Z) (p v : bytes) : Reputation.rop :=
  Reputation.RPut (alpha_of c a) e p v.

Lemma inert_Reputation s c a e p v r :
  required (KReputation, "put", 3%nat) = Some r -> eval_req c a r = false ->
  Reputation.rstep s (to_rop c a e p v) = (s, VFault).
Proof.
  intros Hr He. vm_compute in Hr. injection Hr as <-. rewrite <- alpha_of_sound in He.
  unfold to_rop, Reputation.rstep, Reputation.rexec, Reputation.rput. rewrite He. reflexivity.
Qed.

(** * NeoFSID (Model/NeoFSID.v) *)
Definition nid_key (o : NeoFSID.nop) : mkey :=
  match o with
  | NeoFSID.NAdd _ _ _ => (KNeoFSID, "addKey", 2%nat)
  | NeoFSID.NRemove _ _ _ => (KNeoFSID, "removeKey", 2%nat)
  end.
(** The operation with the witness verdict filled in. *)
Definition to_nidop (c : ctx) (a : args) (o : NeoFSID.nop) : NeoFSID.nop :=
  match o with
  | NeoFSID.NAdd _ w ks => NeoFSID.NAdd (alpha_of c a) w ks
  | NeoFSID.NRemove _ w ks => NeoFSID.NRemove (alpha_of c a) w ks
  end.

Lemma nguards_unmet w ks : NeoFSID.nguards false w ks = Fault.
Proof.
  unfold NeoFSID.nguards. destruct (length w =? NeoFSID.owner_size)%nat; [|reflexivity].
  cbn [oassert obind]. destruct (forallb (fun k => (length k =? NeoFSID.pubkey_len)%nat) ks); reflexivity.
Qed.

Lemma inert_NeoFSID s c a o r :
  required (nid_key o) = Some r -> eval_req c a r = false ->
  NeoFSID.nstep s (to_nidop c a o) = (s, VFault).
Proof.
  intros Hr He. destruct o as [x w ks|x w ks]; vm_compute in Hr; injection Hr as <-;
    rewrite <- alpha_of_sound in He;
    unfold to_nidop, NeoFSID.nstep, NeoFSID.nexec, NeoFSID.nadd, NeoFSID.nremove;
    rewrite He, nguards_unmet; reflexivity.
Qed.

(** * Configuration maps (Model/Config.v): netmap.setConfig, and
      neofs.setConfig of a notary-enabled deployment *)
Definition cfg_key (kd : Config.ckind) : mkey :=
  match kd with
  | Config.CNetmap => (KNetmap, "setConfig", 3%nat)
  | Config.CNeoFS => (KNeoFS, "setConfig", 3%nat)
  end.
(* the types of [id], [key], [v] are those of [Config.CSet] *)
Definition to_cop (c : ctx) (a : args) id key v : Config.cop :=
  Config.CSet (alpha_of c a) id key v.

Lemma inert_Config kd s c a id key v r :
  (kd = Config.CNeoFS -> ch_notary_off (a_chain a) = false) ->
  required (cfg_key kd) = Some r -> eval_req c a r = false ->
  Config.cstep kd s (to_cop c a id key v) = (s, VFault, []).
Proof.
  intros Hm Hr He. assert (Ha : alpha_of c a = false).
  { destruct kd; vm_compute in Hr; injection Hr as <-.
    - exact He.
    - cbn [eval_req] in He. rewrite (Hm eq_refl) in He. exact He. }
  unfold to_cop, Config.cstep, Config.cexec. rewrite Ha. reflexivity.
Qed.

(** * Audit (Model/Audit.v) *)
Section AuditSec.
  (** [contract.CreateStandardAccount] (abstract). *)
  Variable acc : bytes -> bytes.

  (** The model takes the designated Inner Ring keys and the public keys that
      witness the transaction; of the latter only those of the Inner Ring
      matter ([from] must be in both lists). *)
  Definition to_aop (c : ctx) (ir : list bytes) (raw hk : bytes) : Audit.aop :=
    Audit.APut ir (filter (fun k => witnessed c (acc k) = true) ir) raw hk.

  Lemma to_aop_sound c ir k :
    existsb (bytes_eqb k) (filter (fun k => witnessed c (acc k) = true) ir) = true ->
    witnessed c (acc k) = true /\ existsb (bytes_eqb (acc k)) (map acc ir) = true.
  Proof.
    intros H. apply existsb_exists in H as (x & Hx & He). apply bytes_eqb_eq in He. subst x.
    apply elem_of_list_In, elem_of_list_filter in Hx as [Hw Hin]. split; [exact Hw|].
    apply existsb_exists. exists (acc k). split; [|apply bytes_eqb_refl].
    apply in_map. apply elem_of_list_In. exact Hin.
  Qed.

  Lemma inert_Audit s c a ir raw hk r :
    ch_ir_keys (a_chain a) = map acc ir ->
    (forall h, Audit.parse_hdr raw = Halt h -> arg_princ a 0 = acc (Audit.h_from h)) ->
    required (KAudit, "put", 1%nat) = Some r -> eval_req c a r = false ->
    Audit.astep s (to_aop c ir raw hk) = (s, VFault).
  Proof.
    intros Hir Hp Hr He. vm_compute in Hr. injection Hr as <-. cbn [eval_req] in He.
    unfold to_aop, Audit.astep, Audit.aexec, Audit.aput.
    destruct (Audit.parse_hdr raw) as [h|] eqn:Eh; [|reflexivity]. cbn [obind].
    rewrite (Hp h eq_refl), Hir in He.
    destruct (existsb (bytes_eqb (Audit.h_from h)) (filter _ ir)) eqn:Ew; [|reflexivity].
    exfalso. apply to_aop_sound in Ew as [H1 H2]. rewrite H1, H2 in He. discriminate He.
  Qed.
End AuditSec.

(** * Container size estimations (Model/Estimations.v):
      container.putContainerSize, container.newEpoch *)
Section EstSec.
  Variable acc : bytes -> bytes.
  Variables (d1 d2 : Z) (cap : list Z -> bool).

  Definition est_key (o : Estimations.eop) : mkey :=
    match o with
    | Estimations.EPut _ _ _ _ _ _ _ _ => (KContainer, "putContainerSize", 4%nat)
    | Estimations.ETick _ _ => (KContainer, "newEpoch", 1%nat)
    end.
  (** The operation with the witness verdicts filled in: the list of
      witnessing public keys is [[pub]] or empty, the flag is [RAlpha]. *)
  Definition to_eop (c : ctx) (a : args) (o : Estimations.eop) : Estimations.eop :=
    match o with
    | Estimations.EPut live _ prev e cid size pub h20 =>
        Estimations.EPut live (if witnessed c (acc pub) then [pub] else []) prev e cid size pub h20
    | Estimations.ETick _ n => Estimations.ETick (alpha_of c a) n
    end.

  Lemma inert_Estimations s c a o r :
    (forall live wit prev e cid size pub h20,
       o = Estimations.EPut live wit prev e cid size pub h20 -> arg_princ a 3 = acc pub) ->
    required (est_key o) = Some r -> eval_req c a r = false ->
    Estimations.estep d1 d2 cap s (to_eop c a o) = (s, VFault).
  Proof.
    intros Hp Hr He. destruct o as [live wit prev e cid size pub h20|x n];
      vm_compute in Hr; injection Hr as <-; cbn [eval_req] in He.
    - rewrite (Hp _ _ _ _ _ _ _ _ eq_refl) in He.
      unfold to_eop, Estimations.estep, Estimations.eexec, Estimations.eput. rewrite He.
      destruct (existsb (bytes_eqb cid) live); reflexivity.
    - change (alpha_of c a = false) in He.
      unfold to_eop, Estimations.estep, Estimations.eexec, Estimations.etick. rewrite He. reflexivity.
  Qed.
End EstSec.

(** * Container placement (Model/Placement.v): addNextEpochNodes,
      commitContainerListUpdate, submitObjectPut *)
From Verif Require Model.Placement.
Section PlacementSec.
  Variable sigvalid : bytes -> bytes -> bytes -> bool.
  Variable pubvalid : bytes -> bool.
  Variable deser : bytes -> option (list (bytes * val)).
  Variable notify_fits : bytes -> bool.
  Variable network : Z.
  Notation pstep := (Placement.pstep sigvalid pubvalid deser notify_fits network).
  Notation pverify := (Placement.verify sigvalid pubvalid).
  Notation psubmit := (Placement.submit sigvalid pubvalid deser notify_fits network).

  Definition pl_key (o : Placement.pop) : option mkey :=
    match o with
    | Placement.OAdd _ _ _ _ => Some (KContainer, "addNextEpochNodes", 3%nat)
    | Placement.OCommit _ _ _ => Some (KContainer, "commitContainerListUpdate", 2%nat)
    | Placement.OSubmit _ _ _ => Some (KContainer, "submitObjectPut", 2%nat)
    | _ => None   (* read-only calls and the abstract "any other method" *)
    end.
  Definition to_pop (c : ctx) (a : args) (o : Placement.pop) : Placement.pop :=
    match o with
    | Placement.OAdd _ cid vec keys => Placement.OAdd (alpha_of c a) cid vec keys
    | Placement.OCommit _ cid reps => Placement.OCommit (alpha_of c a) cid reps
    | o => o
    end.

  (** submitObjectPut is an open row: no transaction witness is consulted;
      what it needs is that the signatures passed as argument satisfy the
      stored placement ([RArgSigs]). *)
  Lemma submit_needs_sigs s raw sigs cur ns :
    psubmit s raw sigs cur = Halt ns -> exists cid, pverify s cid raw sigs = Halt true.
  Proof.
    unfold Placement.submit. destruct (deser raw) as [m|]; [|discriminate].
    repeat match goal with
           | |- obind ?x _ = Halt _ -> _ => destruct x eqn:?; cbn [obind]; [|discriminate]
           end.
    intros _.
    match goal with H : pverify s ?cid raw sigs = Halt ?b |- _ =>
      exists cid; destruct b; [exact H|] end.
    match goal with H : oassert false = Halt _ |- _ => discriminate H end.
  Qed.

  Lemma inert_Placement s c a o k r :
    pl_key o = Some k ->
    (forall raw sigs cur cid, o = Placement.OSubmit raw sigs cur ->
       pverify s cid raw sigs = Halt true -> a_sigs_ok a = true) ->
    required k = Some r -> eval_req c a r = false ->
    pstep s (to_pop c a o) = (s, VFault, []).
  Proof.
    intros Hk Hs Hr He. destruct o as [x cid vec keys|x cid reps| | | |raw sigs cur| |];
      cbn [pl_key] in Hk; try discriminate Hk; injection Hk as <-;
      vm_compute in Hr; injection Hr as <-; cbn [eval_req] in He;
      unfold Placement.pstep, Placement.pexec; cbn [to_pop].
    - change (alpha_of c a = false) in He. rewrite He. unfold Placement.add_next_epoch_nodes.
      destruct (Placement.hash256_len cid); [|reflexivity]. cbn [oassert obind].
      destruct (negb (255 <=? vec)%Z); [|reflexivity]. cbn [oassert obind].
      destruct (Placement.validate_index s cid vec) as [[]|]; reflexivity.
    - change (alpha_of c a = false) in He. rewrite He. unfold Placement.commit_list_update.
      destruct (Placement.hash256_len cid); reflexivity.
    - destruct (psubmit s raw sigs cur) as [ns|] eqn:E; [|reflexivity].
      exfalso. apply submit_needs_sigs in E as [cid Hv].
      rewrite (Hs raw sigs cur cid eq_refl Hv) in He. discriminate He.
  Qed.
End PlacementSec.

(** * Container (Model/Container.v): put / put with meta / putNamed / delete /
      setEACL, and the Balance and Netmap-configuration invocations of that
      world.  (Its NNS slice belongs to the NNS family.) *)
From Verif Require Model.Container Proofs.Container.
Section ContainerSec.
  Variables (cid_of b58 : bytes -> bytes).
  Notation wstep := (Model.Container.wstep cid_of b58).
  Notation wexec := (Model.Container.wexec cid_of b58).

  (** [x_alpha] is the verdict of [RAlpha]; [x_wit] the witnessed script
      hashes; [x_caddr] the committee account.  [alphabet] (the accounts paid
      by put), the block time and the contract's own hash are not about
      witnesses. *)
  Definition to_cctx (c : ctx) (a : args) (alphabet : list bytes) (now : Z) (self : bytes)
    : Model.Container.cctx :=
    Model.Container.mkCC (alpha_of c a) alphabet now (wx_caller c :: wx_signers c)
      (ch_committee (a_chain a)) self.

  Lemma to_cctx_sound c a al now self :
    Model.Container.x_alpha (to_cctx c a al now self) = eval_req c a RAlpha /\
    mkCtx (Model.Container.x_wit (to_cctx c a al now self)) (Model.Container.x_alpha (to_cctx c a al now self))
      = to_bctx c (a_chain a).
  Proof. split; reflexivity. Qed.

  Definition co_key (o : Model.Container.wop) : option mkey :=
    match o with
    | Model.Container.Put _ _ _ _ => Some (KContainer, "put", 4%nat)
    | Model.Container.PutNamed _ _ _ _ _ _ => Some (KContainer, "putNamed", 6%nat)
    | Model.Container.PutMeta _ _ _ _ _ => Some (KContainer, "put", 5%nat)
    | Model.Container.Delete _ _ _ => Some (KContainer, "delete", 3%nat)
    | Model.Container.SetEACL _ _ _ _ => Some (KContainer, "setEACL", 4%nat)
    | Model.Container.Bal bo => Some (bop_key bo)
    | Model.Container.SetConfig _ _ => Some (KNetmap, "setConfig", 3%nat)
    | _ => None   (* direct NNS invocations: NNS family *)
    end.

  Lemma world_eta (w : Model.Container.world) :
    Model.Container.mkW (Model.Container.w_c w) (Model.Container.w_b w) (Model.Container.w_cfg w)
      (Model.Container.w_n w) (Model.Container.w_id w) = w.
  Proof. destruct w. reflexivity. Qed.

  (** The refusal is a fault, [false] (balance.transfer), or — for delete of
      a container that does not exist — the silent return of the source
      (Model/Witness.v [silent_noops]). *)
  Lemma inert_Container w c a al now self o k r :
    co_key o = Some k ->
    (forall bo, o = Model.Container.Bal bo -> a_princ a = bop_princ bo) ->
    required k = Some r -> eval_req c a r = false ->
    exists v, wstep w (to_cctx c a al now self, o) = (w, v, []) /\
      (v = VFault \/ v = VBool false \/
       (v = VNull /\ exists cid sig tok, o = Model.Container.Delete cid sig tok)).
  Proof.
    intros Hk Hb Hr He.
    destruct o as [blob sig pub tok|blob sig pub tok name zone|blob sig pub tok meta|cid sig tok
                  |e sig pub tok|bo|key v| | |]; cbn [co_key] in Hk; try discriminate Hk; injection Hk as <-.
    1-3: (vm_compute in Hr; injection Hr as <-; change (alpha_of c a = false) in He;
          exists VFault; split; [|auto]; unfold Model.Container.wstep; cbn [fst snd];
          erewrite Proofs.Container.put_refused; [reflexivity|reflexivity|];
          right; right; right; left; exact He).
    - (* delete *)
      vm_compute in Hr. injection Hr as <-. change (alpha_of c a = false) in He.
      unfold Model.Container.wstep, Model.Container.wexec, Model.Container.delete_cnr. cbn [fst snd].
      destruct (Model.Container.get_owner_by_id (Model.Container.w_c w) cid) as [[ow|]|]; cbn [obind].
      + cbn [to_cctx Model.Container.x_alpha]. rewrite He. cbn [oassert obind]. exists VFault. auto.
      + exists VNull. split; [reflexivity|]. right. right. split; [reflexivity|]. eauto.
      + exists VFault. auto.
    - (* setEACL *)
      vm_compute in Hr. injection Hr as <-. change (alpha_of c a = false) in He.
      exists VFault. split; [|auto].
      unfold Model.Container.wstep, Model.Container.wexec, Model.Container.set_eacl. cbn [fst snd].
      destruct (Model.Container.cnth 1 e) as [x|]; [|reflexivity]. cbn [obind].
      destruct (Model.Container.cslice _ 32 e) as [cid|]; [|reflexivity]. cbn [obind].
      destruct (Model.Container.get_owner_by_id (Model.Container.w_c w) cid) as [[ow|]|]; cbn [obind]; try reflexivity.
      cbn [to_cctx Model.Container.x_alpha]. rewrite He. reflexivity.
    - (* a Balance invocation: the Balance theorem *)
      pose proof (balance_inert (Model.Container.w_b w) c a bo r (Hb bo eq_refl) Hr He) as Hbi.
      unfold Model.Container.wstep, Model.Container.wexec. cbn [fst snd].
      change (mkCtx _ _) with (to_bctx c (a_chain a)).
      unfold bstep in Hbi. cbn [fst snd] in Hbi.
      destruct (bexec (to_bctx c (a_chain a)) (Model.Container.w_b w) bo) as [[[b' rv] ns]|]; cbn [obind].
      + destruct Hbi as [Hbi|Hbi]; injection Hbi as -> -> ->; rewrite world_eta; cbn [map]; eauto.
      + exists VFault. auto.
    - (* netmap.setConfig *)
      vm_compute in Hr. injection Hr as <-. change (alpha_of c a = false) in He.
      exists VFault. split; [|auto].
      unfold Model.Container.wstep, Model.Container.wexec. cbn [fst snd to_cctx Model.Container.x_alpha].
      rewrite He. reflexivity.
  Qed.
End ContainerSec.

(** * NeoFS in notary-disabled mode (Model/NeoFSVote.v): cheque,
      alphabetUpdate, setConfig, innerRingCandidateRemove, innerRingCandidateAdd *)
From Verif Require Model.Vote Model.NeoFSVote Spec.Tally Proofs.Vote.
Section VoteSec.
  Variable valid_pub : bytes -> bool.
  Variables std_acc del_id : bytes -> bytes.
  Notation nstep := (NeoFSVote.nstep valid_pub std_acc del_id).

  (** The account [runtime.CheckWitness(b)] is about: [b] itself when it is
      20 bytes long, the standard account of the key [b] otherwise. *)
  Definition vprinc (b : bytes) : bytes := if (length b =? 20)%nat then b else std_acc b.

  (** The model keeps the list of byte strings [b] (script hashes and public
      keys) for which CheckWitness answers true: the witnessed script hashes,
      and those of [keys] (the keys the invocation can ask about: the stored
      Alphabet list and the key argument) whose account is witnessed. *)
  Definition to_nctx (c : ctx) (keys : list bytes) (height : Z) (self : bytes) : NeoFSVote.nctx :=
    NeoFSVote.mkNCtx
      (wit_list c ++ filter (fun k => negb (length k =? 20)%nat && witnessed c (std_acc k) = true) keys)
      height self.

  Lemma to_nctx_sound c keys h self b :
    b ∈ NeoFSVote.witnessed (to_nctx c keys h self) -> witnessed c (vprinc b) = true.
  Proof.
    cbn [to_nctx NeoFSVote.witnessed]. rewrite elem_of_app. intros [H|H].
    - apply Proofs.Vote.existsb_bytes in H. rewrite wit_list_sound in H.
      unfold vprinc. pose proof H as H'. unfold witnessed in H'. apply andb_true_iff in H' as [Hl _].
      unfold hash_len20 in Hl. rewrite Hl. exact H.
    - apply elem_of_list_filter in H as [H _]. apply andb_true_iff in H as [Hl Hw].
      unfold vprinc. apply negb_true_iff in Hl. rewrite Hl. exact Hw.
  Qed.

  Definition nv_key (o : NeoFSVote.nop) : option mkey :=
    match o with
    | NeoFSVote.Cheque _ _ _ _ => Some (KNeoFS, "cheque", 4%nat)
    | NeoFSVote.AlphabetUpdate _ _ => Some (KNeoFS, "alphabetUpdate", 2%nat)
    | NeoFSVote.SetConfig _ _ _ => Some (KNeoFS, "setConfig", 3%nat)
    | NeoFSVote.CandidateRemove _ => Some (KNeoFS, "innerRingCandidateRemove", 1%nat)
    | NeoFSVote.CandidateAdd _ => Some (KNeoFS, "innerRingCandidateAdd", 1%nat)
    | NeoFSVote.Fund _ => None   (* not a contract method *)
    end.
  Definition nv_keys (s : NeoFSVote.nstate) (o : NeoFSVote.nop) : list bytes :=
    NeoFSVote.alphabet s ++
    match o with NeoFSVote.CandidateRemove k | NeoFSVote.CandidateAdd k => [k] | _ => [] end.

  Lemma existsb_map_false {A B} (f : B -> bool) (g : A -> B) l x :
    existsb f (map g l) = false -> x ∈ l -> f (g x) = false.
  Proof.
    intros H Hx. destruct (f (g x)) eqn:E; [|reflexivity]. exfalso.
    assert (existsb f (map g l) = true); [|congruence].
    apply existsb_exists. exists (g x). split; [|exact E]. apply in_map, elem_of_list_In, Hx.
  Qed.

  Lemma inert_NeoFSVote (s : NeoFSVote.nstate) c a o k r h self :
    nv_key o = Some k ->
    ch_notary_off (a_chain a) = true ->
    ch_neofs_keys (a_chain a) = map vprinc (NeoFSVote.alphabet s) ->
    (forall key, o = NeoFSVote.CandidateRemove key \/ o = NeoFSVote.CandidateAdd key ->
       arg_princ a 0 = vprinc key) ->
    required k = Some r -> eval_req c a r = false ->
    nstep s (to_nctx c (nv_keys s o) h self, o) = (s, None, []).
  Proof.
    intros Hk Hoff Hkeys Hp Hr He.
    assert (Hstr : eval_req c a RNeoFSMember = false ->
                   forall x, x ∈ NeoFSVote.alphabet s -> x ∉ NeoFSVote.witnessed (to_nctx c (nv_keys s o) h self)).
    { cbn [eval_req]. rewrite Hkeys. intros Hm x Hx Hin.
      apply to_nctx_sound in Hin. rewrite (existsb_map_false _ _ _ _ Hm Hx) in Hin. discriminate Hin. }
    destruct o as [id user amount lk|id ks|id key v|key|key|amt]; cbn [nv_key] in Hk; try discriminate Hk;
      injection Hk as <-; vm_compute in Hr; injection Hr as <-; cbn [eval_req] in He; rewrite ?Hoff in He.
    1-3: (apply Proofs.Vote.nstep_stranger; [cbn; discriminate|apply Hstr; exact He]).
    - (* innerRingCandidateRemove: neither the candidate nor an Alphabet key *)
      apply orb_false_iff in He as [Hkey Hmem]. rewrite (Hp key (or_introl eq_refl)) in Hkey.
      assert (Hnw : key ∉ NeoFSVote.witnessed (to_nctx c (nv_keys s (NeoFSVote.CandidateRemove key)) h self)).
      { intros Hin. apply to_nctx_sound in Hin. congruence. }
      apply Proofs.Vote.nstep_stranger; [|apply Hstr; exact Hmem].
      cbn [Tally.decision_id]. apply Proofs.Vote.existsb_bytes_false in Hnw. rewrite Hnw. discriminate.
    - (* innerRingCandidateAdd: the candidate's own witness *)
      rewrite (Hp key (or_intror eq_refl)) in He.
      assert (Hnw : existsb (bytes_eqb key)
                      (NeoFSVote.witnessed (to_nctx c (nv_keys s (NeoFSVote.CandidateAdd key)) h self)) = false).
      { apply Proofs.Vote.existsb_bytes_false. intros Hin. apply to_nctx_sound in Hin. congruence. }
      unfold NeoFSVote.nstep, NeoFSVote.gstep, NeoFSVote.gexec, NeoFSVote.check_witness. cbn [fst snd].
      rewrite Hnw. destruct ((length key =? 20)%nat || valid_pub key); reflexivity.
  Qed.
End VoteSec.

(** * The governance contracts on GAS (Model/GasWorld.v): NeoFS in both modes
      (withdraw, cheque, bind, unbind, setConfig, alphabetUpdate,
      innerRingCandidateAdd/Remove, onNEP17Payment), alphabet.emit, and the
      onNEP17Payment callbacks of Alphabet, Processing, Proxy *)
From Verif Require Model.Gas Model.ProxyProc Model.Alphabet Model.NeoFSGas Model.GasWorld.
Section GasSec.
  Variable e : Gas.env.

  (** The account [runtime.CheckWitness(b)] is about, in this family's
      environment ([[]] when [b] is neither 20 bytes nor a known key: the
      interop faults). *)
  Definition gprinc (b : bytes) : bytes :=
    if Gas.hash_len b then b else match Gas.std_acc e b with Some h => h | None => [] end.

  (** [wit]: the witnessed script hashes; the three multi-signature accounts
      are those of the chain facts. *)
  Definition to_gctx (c : ctx) (a : args) (committee ir : list bytes) (height : Z) (txhash : bytes) : Gas.ctx :=
    Gas.mkCtx (wit_list c) (ch_alpha (a_chain a)) (ch_committee (a_chain a)) (ch_neofs_alpha (a_chain a))
      committee ir height txhash.

  Lemma inb_wit c h : Gas.inb h (wit_list c) = witnessed c h.
  Proof. apply wit_list_sound. Qed.

  Lemma to_gctx_sound c a cm ir h tx b :
    Gas.check_witness e (to_gctx c a cm ir h tx) b = Halt true -> witnessed c (gprinc b) = true.
  Proof.
    unfold Gas.check_witness, gprinc. cbn [to_gctx Gas.wit]. destruct (Gas.hash_len b).
    - rewrite inb_wit. intros H. injection H as ->. reflexivity.
    - destruct (Gas.std_acc e b) as [x|]; [|discriminate]. rewrite inb_wit. intros H. injection H as ->. reflexivity.
  Qed.

  Lemma to_gctx_alpha c a cm ir h tx :
    Gas.inb (Gas.alpha_addr (to_gctx c a cm ir h tx)) (Gas.wit (to_gctx c a cm ir h tx)) = eval_req c a RAlpha /\
    Gas.inb (Gas.cmt_addr (to_gctx c a cm ir h tx)) (Gas.wit (to_gctx c a cm ir h tx)) = eval_req c a RCommittee /\
    Gas.inb (Gas.fs_alpha_addr (to_gctx c a cm ir h tx)) (Gas.wit (to_gctx c a cm ir h tx)) = eval_req c a RNeoFSAlpha.
  Proof. cbn [to_gctx Gas.wit Gas.alpha_addr Gas.cmt_addr Gas.fs_alpha_addr eval_req]. rewrite !inb_wit. auto. Qed.

  (** An unwitnessed account: CheckWitness faults or answers false. *)
  Lemma check_witness_unmet c a cm ir h tx b :
    witnessed c (gprinc b) = false ->
    Gas.check_witness e (to_gctx c a cm ir h tx) b = Fault \/
    Gas.check_witness e (to_gctx c a cm ir h tx) b = Halt false.
  Proof.
    intros Hw. destruct (Gas.check_witness e (to_gctx c a cm ir h tx) b) as [[|]|] eqn:E; auto.
    apply to_gctx_sound in E. congruence.
  Qed.

  Lemma invoker_unmet c a cm ir h tx nodes :
    existsb (witnessed c) (map gprinc nodes) = false ->
    NeoFSGas.inner_ring_invoker e (to_gctx c a cm ir h tx) nodes = Fault \/
    NeoFSGas.inner_ring_invoker e (to_gctx c a cm ir h tx) nodes = Halt None.
  Proof.
    induction nodes as [|n nodes IH]; cbn [map existsb NeoFSGas.inner_ring_invoker]; [auto|].
    intros H. apply orb_false_iff in H as [H1 H2].
    destruct (check_witness_unmet c a cm ir h tx n H1) as [E|E]; rewrite E; cbn [obind]; auto.
  Qed.

  Lemma alphabet_invoker_unmet c a cm ir h tx s :
    existsb (witnessed c) (map gprinc (NeoFSGas.alphabet s)) = false ->
    NeoFSGas.alphabet_invoker e (to_gctx c a cm ir h tx) s = Fault.
  Proof.
    intros H. unfold NeoFSGas.alphabet_invoker.
    destruct (invoker_unmet c a cm ir h tx _ H) as [E|E]; rewrite E; reflexivity.
  Qed.

  (** The authorisation block of cheque / setConfig / alphabetUpdate. *)
  Lemma alpha_gate_unmet c a cm ir h tx s id :
    ch_notary_off (a_chain a) = NeoFSGas.notary_off s ->
    ch_neofs_keys (a_chain a) = map gprinc (NeoFSGas.alphabet s) ->
    eval_req c a (RNotaryOff RNeoFSMember RAlpha) = false ->
    NeoFSGas.alpha_gate e (to_gctx c a cm ir h tx) s id = Fault.
  Proof.
    intros Hoff Hkeys He. cbn [eval_req] in He. rewrite Hoff, Hkeys in He. unfold NeoFSGas.alpha_gate.
    destruct (NeoFSGas.notary_off s).
    - rewrite (alphabet_invoker_unmet _ _ _ _ _ _ _ He). reflexivity.
    - cbn [to_gctx Gas.wit Gas.alpha_addr]. rewrite inb_wit, He. reflexivity.
  Qed.

  Definition gw_key (o : GasWorld.op) : option mkey :=
    match o with
    | GasWorld.OWithdraw _ _ => Some (KNeoFS, "withdraw", 2%nat)
    | GasWorld.OCheque _ _ _ _ => Some (KNeoFS, "cheque", 4%nat)
    | GasWorld.OCandAdd _ => Some (KNeoFS, "innerRingCandidateAdd", 1%nat)
    | GasWorld.OCandRemove _ => Some (KNeoFS, "innerRingCandidateRemove", 1%nat)
    | GasWorld.OBind _ _ => Some (KNeoFS, "bind", 2%nat)
    | GasWorld.OUnbind _ _ => Some (KNeoFS, "unbind", 2%nat)
    | GasWorld.OSetConfig _ _ _ => Some (KNeoFS, "setConfig", 3%nat)
    | GasWorld.OAlphabetUpdate _ _ => Some (KNeoFS, "alphabetUpdate", 2%nat)
    | GasWorld.OEmit _ _ => Some (KAlphabet, "emit", 0%nat)
    | GasWorld.OTokenPay _ t _ _ _ =>
        match Gas.kind_of e t with
        | Gas.KNeoFS => Some (KNeoFS, "onNEP17Payment", 3%nat)
        | Gas.KProcessing => Some (KProcessing, "onNEP17Payment", 3%nat)
        | Gas.KProxy => Some (KProxy, "onNEP17Payment", 3%nat)
        | Gas.KAlphabet _ _ => Some (KAlphabet, "onNEP17Payment", 3%nat)
        | _ => None
        end
    | _ => None   (* native GAS / NEO transfers and the safe verify *)
    end.

  (** The principal the first argument of the user / key methods designates. *)
  Definition gw_arg0 (o : GasWorld.op) : option bytes :=
    match o with
    | GasWorld.OWithdraw u _ | GasWorld.OBind u _ | GasWorld.OUnbind u _ => Some u
    | GasWorld.OCandAdd k | GasWorld.OCandRemove k => Some k
    | _ => None
    end.

  Lemma caller_unmet c t :
    Gas.hash_len t = true ->
    hash_len20 t && bytes_eqb (wx_caller c) t = false -> bytes_eqb (wx_caller c) t = false.
  Proof. intros Hl. unfold Gas.hash_len in Hl. unfold hash_len20. rewrite Hl. auto. Qed.

  Lemma inert_GasWorld w c a cm ir h tx o k r :
    gw_key o = Some k ->
    ch_notary_off (a_chain a) = NeoFSGas.notary_off (NeoFSGas.fs w) ->
    ch_neofs_keys (a_chain a) = map gprinc (NeoFSGas.alphabet (NeoFSGas.fs w)) ->
    (forall b, gw_arg0 o = Some b -> arg_princ a 0 = gprinc b) ->
    (forall ad mt index proxy node, o = GasWorld.OEmit ad mt ->
       Gas.kind_of e ad = Gas.KAlphabet index proxy ->
       nth_error cm (Z.to_nat index) = Some node -> ch_alpha_key_at (a_chain a) = gprinc node) ->
    (forall tok t f am d, o = GasWorld.OTokenPay tok t f am d ->
       wx_caller c = tok /\ ch_gas (a_chain a) = Gas.gasH e /\ ch_neo (a_chain a) = Gas.neoH e /\
       Gas.hash_len (Gas.gasH e) = true /\ Gas.hash_len (Gas.neoH e) = true) ->
    required k = Some r -> eval_req c a r = false ->
    exists v, GasWorld.wstep e w (to_gctx c a cm ir h tx, o) = (w, v, []) /\
      (v = VFault \/ (v = VNull /\ k = (KNeoFS, "onNEP17Payment", 3%nat))).
  Proof.
    intros Hk Hoff Hkeys H0 Hem Htp Hr He.
    unfold GasWorld.wstep. cbn [fst snd].
    destruct o as [f t am d|tok t f am d|f t am d mt|u x|id u am lk|key|key|u ks|u ks|id key v|id ks|ad mt|ad];
      cbn [gw_key] in Hk; try discriminate Hk.
    - (* a token's callback *)
      destruct (Htp tok t f am d eq_refl) as (Hc & Hg & Hn & Hlg & Hln).
      unfold GasWorld.wexec, GasWorld.world_cb.
      destruct (Gas.kind_of e t) as [| | | |index proxy| |] eqn:Ek; try discriminate Hk; injection Hk as <-;
        vm_compute in Hr; injection Hr as <-; cbn [eval_req token_hash] in He; rewrite ?Hg, ?Hn in He.
      + (* NeoFS *)
        apply (caller_unmet c) in He; [|exact Hlg]. rewrite Hc in He.
        unfold NeoFSGas.neofs_on_payment. cbn [Gas.txhash to_gctx].
        destruct (Gas.data_bytes d) as [rcv|]; cbn [obind]; [|exists VFault; auto].
        destruct (match rcv with Some b => bytes_eqb b NeoFSGas.marker | None => false end).
        * exists VNull. split; [reflexivity|]. right. auto.
        * exists VFault. split; [|auto].
          destruct (am <=? 0)%Z; [reflexivity|]. destruct (NeoFSGas.max_balance_amount_gas <? am)%Z; [reflexivity|].
          rewrite He. reflexivity.
      + exists VFault. split; [|auto]. apply (caller_unmet c) in He; [|exact Hlg]. rewrite Hc in He.
        unfold ProxyProc.processing_on_payment. rewrite He. reflexivity.
      + exists VFault. split; [|auto]. apply (caller_unmet c) in He; [|exact Hlg]. rewrite Hc in He.
        unfold ProxyProc.proxy_on_payment. rewrite He. reflexivity.
      + exists VFault. split; [|auto]. apply orb_false_iff in He as [H1 H2].
        apply (caller_unmet c) in H1; [|exact Hlg]. apply (caller_unmet c) in H2; [|exact Hln].
        rewrite Hc in H1, H2. unfold Alphabet.alphabet_on_payment. rewrite H1, H2. reflexivity.
    - (* withdraw *)
      injection Hk as <-. vm_compute in Hr. injection Hr as <-. cbn [eval_req] in He.
      rewrite (H0 u eq_refl) in He. exists VFault. split; [|auto].
      unfold GasWorld.wexec, NeoFSGas.neofs_withdraw.
      destruct (check_witness_unmet c a cm ir h tx u He) as [E|E]; rewrite E; reflexivity.
    - (* cheque *)
      injection Hk as <-. vm_compute in Hr. injection Hr as <-. exists VFault. split; [|auto].
      unfold GasWorld.wexec, NeoFSGas.neofs_cheque. rewrite (alpha_gate_unmet _ _ _ _ _ _ _ _ Hoff Hkeys He). reflexivity.
    - (* innerRingCandidateAdd *)
      injection Hk as <-. vm_compute in Hr. injection Hr as <-. cbn [eval_req] in He.
      rewrite (H0 key eq_refl) in He. exists VFault. split; [|auto].
      unfold GasWorld.wexec, NeoFSGas.neofs_cand_add.
      destruct (check_witness_unmet c a cm ir h tx key He) as [E|E]; rewrite E; reflexivity.
    - (* innerRingCandidateRemove *)
      injection Hk as <-. vm_compute in Hr. injection Hr as <-. cbn [eval_req] in He.
      apply orb_false_iff in He as [Hkey Hal]. rewrite (H0 key eq_refl) in Hkey. rewrite Hoff, Hkeys in Hal.
      exists VFault. split; [|auto].
      unfold GasWorld.wexec, NeoFSGas.neofs_cand_remove.
      destruct (check_witness_unmet c a cm ir h tx key Hkey) as [E|E]; rewrite E; cbn [obind]; [reflexivity|].
      destruct (NeoFSGas.notary_off (NeoFSGas.fs w)).
      + rewrite (alphabet_invoker_unmet _ _ _ _ _ _ _ Hal). reflexivity.
      + unfold Gas.fs_alpha_witness. cbn [to_gctx Gas.fs_alpha_addr Gas.wit].
        destruct (length (ch_neofs_alpha (a_chain a)) =? 0)%nat; [reflexivity|].
        cbn [eval_req] in Hal. rewrite inb_wit, Hal. reflexivity.
    - (* bind *)
      injection Hk as <-. vm_compute in Hr. injection Hr as <-. cbn [eval_req] in He.
      rewrite (H0 u eq_refl) in He. exists VFault. split; [|auto].
      unfold GasWorld.wexec, NeoFSGas.neofs_bind.
      destruct (check_witness_unmet c a cm ir h tx u He) as [E|E]; rewrite E; reflexivity.
    - (* unbind *)
      injection Hk as <-. vm_compute in Hr. injection Hr as <-. cbn [eval_req] in He.
      rewrite (H0 u eq_refl) in He. exists VFault. split; [|auto].
      unfold GasWorld.wexec, NeoFSGas.neofs_bind.
      destruct (check_witness_unmet c a cm ir h tx u He) as [E|E]; rewrite E; reflexivity.
    - (* setConfig *)
      injection Hk as <-. vm_compute in Hr. injection Hr as <-. exists VFault. split; [|auto].
      unfold GasWorld.wexec, NeoFSGas.neofs_set_config. rewrite (alpha_gate_unmet _ _ _ _ _ _ _ _ Hoff Hkeys He). reflexivity.
    - (* alphabetUpdate *)
      injection Hk as <-. vm_compute in Hr. injection Hr as <-. exists VFault. split; [|auto].
      unfold GasWorld.wexec, NeoFSGas.neofs_alphabet_update.
      destruct (negb (length ks =? 0)%nat); [|reflexivity]. cbn [oassert obind].
      rewrite (alpha_gate_unmet _ _ _ _ _ _ _ _ Hoff Hkeys He). reflexivity.
    - (* alphabet.emit *)
      injection Hk as <-. vm_compute in Hr. injection Hr as <-. cbn [eval_req] in He.
      exists VFault. split; [|auto]. unfold GasWorld.wexec.
      destruct (Gas.kind_of e ad) as [| | | |index proxy| |] eqn:Ek; try reflexivity.
      unfold Alphabet.alphabet_emit, Alphabet.check_permission. cbn [to_gctx Gas.committee].
      destruct (Z.of_nat (length cm) <=? index)%Z; [reflexivity|].
      destruct (index <? 0)%Z; [reflexivity|].
      destruct (nth_error cm (Z.to_nat index)) as [node|] eqn:En; [|reflexivity].
      rewrite (Hem ad mt index proxy node eq_refl Ek En) in He.
      destruct (check_witness_unmet c a cm ir h tx node He) as [E|E];
        change (Gas.mkCtx (wit_list c) (ch_alpha (a_chain a)) (ch_committee (a_chain a))
                  (ch_neofs_alpha (a_chain a)) cm ir h tx) with (to_gctx c a cm ir h tx);
        rewrite E; reflexivity.
  Qed.

  (** The safe [verify] methods of this world answer exactly their rows. *)
  Lemma verify_GasWorld c a cm ir h tx :
    ProxyProc.proxy_verify (to_gctx c a cm ir h tx) = eval_req c a (ROr RAlpha RCommittee) /\
    Alphabet.alphabet_verify (to_gctx c a cm ir h tx) = eval_req c a (ROr RAlpha RCommittee) /\
    (forall b, ProxyProc.processing_verify (to_gctx c a cm ir h tx) = Halt b -> b = eval_req c a RNeoFSAlpha).
  Proof.
    unfold ProxyProc.proxy_verify, Alphabet.alphabet_verify, ProxyProc.processing_verify, Gas.fs_alpha_witness.
    cbn [to_gctx Gas.wit Gas.alpha_addr Gas.cmt_addr Gas.fs_alpha_addr eval_req]. rewrite !inb_wit.
    repeat split; try (destruct (witnessed c (ch_alpha (a_chain a))); reflexivity).
    intros b. destruct (length (ch_neofs_alpha (a_chain a)) =? 0)%nat; [discriminate|].
    intros H. injection H as <-. reflexivity.
  Qed.
End GasSec.

(** * Netmap (Model/Netmap.v): newEpoch, addPeer, addPeerIR, addNode,
      deleteNode, updateState, updateStateIR, updateSnapshotCount,
      subscribeForNewEpoch, setConfig *)
From Verif Require Model.Netmap.
Section NetmapSec.
  Variable acc : bytes -> bytes.            (* contract.CreateStandardAccount *)
  Variable sub_ok : bytes -> bool.
  Variable sub_accepts : bytes -> Z -> bool.
  Notation nmstep := (Netmap.nstep sub_ok sub_accepts).

  Definition nm_key (o : Netmap.nop) : mkey :=
    match o with
    | Netmap.NewEpoch _ => (KNetmap, "newEpoch", 1%nat)
    | Netmap.AddPeer _ => (KNetmap, "addPeer", 1%nat)
    | Netmap.AddPeerIR _ => (KNetmap, "addPeerIR", 1%nat)
    | Netmap.AddNode _ => (KNetmap, "addNode", 1%nat)
    | Netmap.DeleteNode _ => (KNetmap, "deleteNode", 1%nat)
    | Netmap.UpdateState _ _ => (KNetmap, "updateState", 2%nat)
    | Netmap.UpdateStateIR _ _ => (KNetmap, "updateStateIR", 2%nat)
    | Netmap.UpdateSnapshotCount _ => (KNetmap, "updateSnapshotCount", 1%nat)
    | Netmap.Subscribe _ => (KNetmap, "subscribeForNewEpoch", 1%nat)
    | Netmap.SetConfig _ _ => (KNetmap, "setConfig", 3%nat)
    end.

  (** The node key an operation asks CheckWitness about, and the position of
      the argument that carries it. *)
  Definition nm_node_key (o : Netmap.nop) : option (nat * bytes) :=
    match o with
    | Netmap.AddPeer info => match Netmap.slice 2 33 info with Halt k => Some (0%nat, k) | Fault => None end
    | Netmap.AddNode n => Some (0%nat, Netmap.n2key n)
    | Netmap.UpdateState _ k => Some (1%nat, k)
    | _ => None
    end.

  (** [wit]: of the key the operation names, the ones whose account is
      witnessed; [alpha]: the verdict of [RAlpha]. *)
  Definition to_nmctx (c : ctx) (a : args) (o : Netmap.nop) (height : Z) : Netmap.nctx :=
    Netmap.mkNC
      (match nm_node_key o with
       | Some (_, k) => if witnessed c (acc k) then [k] else []
       | None => []
       end)
      (alpha_of c a) height.

  Lemma to_nmctx_sound c a o h i k :
    nm_node_key o = Some (i, k) ->
    Netmap.check_witness (to_nmctx c a o h) k = witnessed c (acc k) /\
    Netmap.alpha (to_nmctx c a o h) = eval_req c a RAlpha.
  Proof.
    intros Hk. split; [|reflexivity]. unfold Netmap.check_witness, to_nmctx. cbn [Netmap.wit]. rewrite Hk.
    destruct (witnessed c (acc k)); cbn [existsb]; [rewrite bytes_eqb_refl|]; reflexivity.
  Qed.

  Lemma inert_Netmap s c a o r h :
    (forall i k, nm_node_key o = Some (i, k) -> arg_princ a i = acc k) ->
    required (nm_key o) = Some r -> eval_req c a r = false ->
    nmstep s (to_nmctx c a o h, o) = (s, false, []).
  Proof.
    intros Hp Hr He. unfold Netmap.nstep. cbn [fst snd].
    destruct o as [e|info|info|n|k|st k|st k|n|hh|k v]; vm_compute in Hr; injection Hr as <-;
      cbn [eval_req] in He; unfold Netmap.nexec.
    - change (alpha_of c a = false) in He. cbn [to_nmctx Netmap.alpha]. rewrite He. reflexivity.
    - (* addPeer *)
      destruct (Netmap.slice 2 33 info) as [k|] eqn:Ek; cbn [obind]; [|reflexivity].
      assert (Hnk : nm_node_key (Netmap.AddPeer info) = Some (0%nat, k)) by (cbn [nm_node_key]; rewrite Ek; reflexivity).
      destruct (to_nmctx_sound c a _ h _ _ Hnk) as [Hw Ha]. rewrite Hw, Ha. cbn [eval_req].
      rewrite (Hp _ _ Hnk) in He. apply andb_false_iff in He as [E|E]; rewrite E; [reflexivity|].
      destruct (witnessed c (acc k)); reflexivity.
    - change (alpha_of c a = false) in He. cbn [to_nmctx Netmap.alpha]. rewrite He. reflexivity.
    - (* addNode *)
      destruct (Netmap.n2st n =? Netmap.Online)%Z; [|reflexivity]. cbn [oassert obind].
      destruct (Netmap.pk_len (Netmap.n2key n)); [|reflexivity]. cbn [oassert obind].
      assert (Hnk : nm_node_key (Netmap.AddNode n) = Some (0%nat, Netmap.n2key n)) by reflexivity.
      destruct (to_nmctx_sound c a _ h _ _ Hnk) as [Hw Ha]. rewrite Hw, Ha. cbn [eval_req].
      rewrite (Hp _ _ Hnk) in He. apply andb_false_iff in He as [E|E]; rewrite E; [reflexivity|].
      destruct (witnessed c (acc (Netmap.n2key n))); reflexivity.
    - change (alpha_of c a = false) in He. cbn [to_nmctx Netmap.alpha]. rewrite He.
      destruct (Netmap.pk_len k); reflexivity.
    - (* updateState *)
      destruct (Netmap.pk_len k); [|reflexivity]. cbn [oassert obind].
      assert (Hnk : nm_node_key (Netmap.UpdateState st k) = Some (1%nat, k)) by reflexivity.
      destruct (to_nmctx_sound c a _ h _ _ Hnk) as [Hw Ha]. rewrite Hw, Ha. cbn [eval_req].
      rewrite (Hp _ _ Hnk) in He. apply andb_false_iff in He as [E|E]; rewrite E; [reflexivity|].
      destruct (witnessed c (acc k)); reflexivity.
    - change (alpha_of c a = false) in He. cbn [to_nmctx Netmap.alpha]. rewrite He. reflexivity.
    - change (alpha_of c a = false) in He. cbn [to_nmctx Netmap.alpha]. rewrite He. reflexivity.
    - change (alpha_of c a = false) in He. cbn [to_nmctx Netmap.alpha]. rewrite He. reflexivity.
    - change (alpha_of c a = false) in He. cbn [to_nmctx Netmap.alpha]. rewrite He. reflexivity.
  Qed.
End NetmapSec.

(** * NNS (Model/NNS.v): register, registerTLD, transfer, renew (both
      overloads: [RenewDefault] is [Renew name 1]), setAdmin, addRecord,
      setRecord, deleteRecords, updateSOA, setPrice *)
From Verif Require Model.NNS Proofs.NNSBase Proofs.NNSAuth.
Section NNSSec.
  Variable hash : bytes -> bytes.
  Variable valid_name : bytes -> bool.
  Variable valid_data : Z -> bytes -> bool.
  Variable str_ok : bytes -> bool.
  Notation nnsstep := (NNS.nstep hash valid_name valid_data str_ok).
  Notation authorised := (NNSAuth.authorised hash valid_name).

  (** [wit]: the witnessed script hashes; [committee]: the committee account. *)
  Definition to_nnsctx (c : ctx) (a : args) (now : Z) (rejecting : list bytes) : NNS.nctx :=
    NNS.mkNC now (wit_list c) (ch_committee (a_chain a)) rejecting.

  Lemma nns_wit_sound c a now rj h : NNSBase.wit_of (to_nnsctx c a now rj) h = witnessed c h.
  Proof. apply wit_list_sound. Qed.
  Lemma nns_cmt_sound c a now rj : NNSBase.cmt (to_nnsctx c a now rj) = eval_req c a RCommittee.
  Proof. apply wit_list_sound. Qed.
  Lemma to_nnsctx_sound c a now rj h :
    NNSBase.wit_of (to_nnsctx c a now rj) h = witnessed c h /\
    NNSBase.cmt (to_nnsctx c a now rj) = eval_req c a RCommittee.
  Proof. split; [apply nns_wit_sound|apply nns_cmt_sound]. Qed.

  Definition nns_keys (o : NNS.nop) : list mkey :=
    match o with
    | NNS.Register _ _ _ _ _ _ _ => [(KNNS, "register", 7%nat)]
    | NNS.RegisterTLD _ _ _ _ _ _ => [(KNNS, "registerTLD", 6%nat)]
    | NNS.Transfer _ _ => [(KNNS, "transfer", 3%nat)]
    | NNS.Renew _ _ => [(KNNS, "renew", 2%nat); (KNNS, "renew", 1%nat)]
    | NNS.SetAdmin _ _ => [(KNNS, "setAdmin", 2%nat)]
    | NNS.AddRecord _ _ _ => [(KNNS, "addRecord", 3%nat)]
    | NNS.SetRecord _ _ _ _ => [(KNNS, "setRecord", 4%nat)]
    | NNS.DeleteRecords _ _ => [(KNNS, "deleteRecords", 2%nat)]
    | NNS.UpdateSOA _ _ _ _ _ _ => [(KNNS, "updateSOA", 6%nat)]
    | NNS.SetPrice _ => [(KNNS, "setPrice", 1%nat)]
    | _ => []   (* safe methods *)
    end.

  Definition ob (o : option bytes) : bytes := match o with Some b => b | None => [] end.

  (** The facts of a call describe the NameState the guard reads. *)
  Definition ns_facts (a : args) (ns : NNS.namestate) : Prop :=
    a_owner a = ob (NNS.ns_owner ns) /\ a_admin a = ob (NNS.ns_admin ns).

  Definition nns_facts (nc : NNS.nctx) (s : NNS.nstate) (a : args) (o : NNS.nop) : Prop :=
    match o with
    | NNS.AddRecord name _ _ | NNS.SetRecord name _ _ _ | NNS.DeleteRecords name _ =>
        forall ns, NNSAuth.token_ns hash valid_name nc s name = Some ns -> ns_facts a ns
    | NNS.UpdateSOA name _ _ _ _ _ | NNS.Renew name _ =>
        forall ns, NNS.get_ns hash s name = Some ns -> ns_facts a ns
    | NNS.Transfer _ tok => forall ns, NNS.get_ns hash s tok = Some ns -> ns_facts a ns
    | NNS.SetAdmin name adm =>
        (forall ns, NNS.get_ns hash s name = Some ns -> ns_facts a ns) /\
        arg_princ a 1 = ob adm /\ (adm = None -> existsb (Nat.eqb 1) (a_null a) = true)
    | NNS.Register name owner _ _ _ _ _ =>
        arg_princ a 1 = ob owner /\ a_shallow a = negb (2 <? NNSAuth.level name)%nat /\
        (forall p, NNS.get_ns hash s (NNSAuth.parent_name name) = Some p -> ns_facts a p)
    | _ => True
    end.

  Lemma witnessed_nil c : witnessed c [] = false.
  Proof. reflexivity. Qed.

  (** [may_admin] is [RNameAdmin], [owner_wit] is [RNameOwner]. *)
  Lemma may_admin_req c a now rj ns :
    ns_facts a ns -> NNSBase.may_admin (to_nnsctx c a now rj) ns = eval_req c a RNameAdmin.
  Proof.
    intros [Ho Ha]. unfold NNSBase.may_admin. cbn [eval_req]. rewrite Ho, Ha.
    destruct (NNS.ns_owner ns) as [o|]; cbn [ob].
    - destruct (length o =? 0)%nat; [apply nns_cmt_sound|].
      rewrite nns_wit_sound. f_equal.
      destruct (NNS.ns_admin ns) as [ad|]; cbn [ob]; [apply nns_wit_sound|reflexivity].
    - cbn [length Nat.eqb]. apply nns_cmt_sound.
  Qed.

  Lemma owner_wit_req c a now rj ns :
    ns_facts a ns -> NNSAuth.owner_wit (to_nnsctx c a now rj) ns = eval_req c a RNameOwner.
  Proof.
    intros [Ho _]. unfold NNSAuth.owner_wit. cbn [eval_req]. rewrite Ho.
    destruct (NNS.ns_owner ns) as [o|]; cbn [ob]; [apply nns_wit_sound|reflexivity].
  Qed.

  (** The family's [authorised] implies the row's requirement. *)
  Lemma authorised_req c a now rj s o k r :
    In k (nns_keys o) -> nns_facts (to_nnsctx c a now rj) s a o ->
    required k = Some r -> authorised (to_nnsctx c a now rj) s o = true -> eval_req c a r = true.
  Proof.
    intros Hk Hf Hr Ha.
    destruct o as [name owner em rf rt ex tt|name em rf rt ex tt|to tok|name y|name adm|name ty d|name ty i d
                  |name ty|name em rf rt ex tt|p| | | | | | | | | | | |];
      cbn [nns_keys In] in Hk; try (destruct Hk; fail);
      repeat (destruct Hk as [<-|Hk]; [vm_compute in Hr; injection Hr as <-|]); try (destruct Hk; fail);
      cbn [NNSAuth.authorised] in Ha; cbn [nns_facts] in Hf.
    - (* register *)
      destruct Hf as (Hp & Hs & Hpar). apply andb_true_iff in Ha as [Ho Hd].
      cbn [eval_req]. rewrite Hp, Hs. destruct owner as [o|]; [|discriminate Ho]. cbn [ob].
      rewrite nns_wit_sound in Ho. rewrite Ho. cbn [andb].
      destruct (2 <? NNSAuth.level name)%nat; [|reflexivity]. cbn [negb orb].
      destruct (NNS.get_ns hash s (NNSAuth.parent_name name)) as [p|] eqn:Ep; [|discriminate Hd].
      rewrite (may_admin_req c a now rj p (Hpar p eq_refl)) in Hd. exact Hd.
    - (* registerTLD *) rewrite nns_cmt_sound in Ha. exact Ha.
    - (* transfer *)
      destruct (NNS.get_ns hash s tok) as [ns|] eqn:En; [|discriminate Ha].
      rewrite (owner_wit_req c a now rj ns (Hf ns eq_refl)) in Ha. exact Ha.
    - (* renew/2 *)
      destruct (NNS.get_ns hash s name) as [ns|] eqn:En; [|discriminate Ha].
      rewrite (may_admin_req c a now rj ns (Hf ns eq_refl)) in Ha. exact Ha.
    - (* renew/1 *)
      destruct (NNS.get_ns hash s name) as [ns|] eqn:En; [|discriminate Ha].
      rewrite (may_admin_req c a now rj ns (Hf ns eq_refl)) in Ha. exact Ha.
    - (* setAdmin *)
      destruct Hf as (Hn & Hp & Hnull).
      destruct (NNS.get_ns hash s name) as [ns|] eqn:En; [|discriminate Ha].
      apply andb_true_iff in Ha as [Ho Hadm].
      rewrite (owner_wit_req c a now rj ns (Hn ns eq_refl)) in Ho.
      change (eval_req c a (RAnd (ROr (RArgNull 1) (RAddr 1)) RNameOwner))
        with ((existsb (Nat.eqb 1) (a_null a) || witnessed c (arg_princ a 1)) && eval_req c a RNameOwner).
      rewrite Ho, andb_true_r. destruct adm as [ad|].
      + rewrite Hp. cbn [ob]. rewrite nns_wit_sound in Hadm.
        rewrite Hadm. apply orb_true_r.
      + rewrite (Hnull eq_refl). reflexivity.
    - (* addRecord *)
      destruct (NNSAuth.token_ns hash valid_name _ s name) as [ns|] eqn:En; [|discriminate Ha].
      rewrite (may_admin_req c a now rj ns (Hf ns eq_refl)) in Ha. exact Ha.
    - (* setRecord *)
      destruct (NNSAuth.token_ns hash valid_name _ s name) as [ns|] eqn:En; [|discriminate Ha].
      rewrite (may_admin_req c a now rj ns (Hf ns eq_refl)) in Ha. exact Ha.
    - (* deleteRecords *)
      destruct (NNSAuth.token_ns hash valid_name _ s name) as [ns|] eqn:En; [|discriminate Ha].
      rewrite (may_admin_req c a now rj ns (Hf ns eq_refl)) in Ha. exact Ha.
    - (* updateSOA *)
      destruct (NNS.get_ns hash s name) as [ns|] eqn:En; [|discriminate Ha].
      rewrite (may_admin_req c a now rj ns (Hf ns eq_refl)) in Ha. exact Ha.
    - (* setPrice *) rewrite nns_cmt_sound in Ha. exact Ha.
  Qed.

  Lemma inert_NNS s c a now rj o k r :
    In k (nns_keys o) -> nns_facts (to_nnsctx c a now rj) s a o ->
    required k = Some r -> eval_req c a r = false ->
    exists v, nnsstep s (to_nnsctx c a now rj, o) = (s, v, []) /\
      (v = VFault \/ (v = VBool false /\ exists t n, o = NNS.Transfer t n)).
  Proof.
    intros Hk Hf Hr He.
    assert (Hna : authorised (to_nnsctx c a now rj) s o = false).
    { destruct (authorised (to_nnsctx c a now rj) s o) eqn:E; [|reflexivity].
      rewrite (authorised_req c a now rj s o k r Hk Hf Hr E) in He. discriminate He. }
    destruct (nnsstep s (to_nnsctx c a now rj, o)) as [[s' v] ns] eqn:E.
    destruct (NNSAuth.step_unauthorised_inert hash valid_name valid_data str_ok _ _ _ _ _ _ E Hna)
      as (-> & -> & Hv).
    exists v. split; [reflexivity|]. destruct Hv as [->|[-> Ht]]; auto.
  Qed.
End NNSSec.

(** * update of every contract (Model/Migration.v): the gate of [Update] *)
From Verif Require Model.MigStore Model.Migration Proofs.Migration.
Section UpdateSec.
  Variable msaddr : Z -> list bytes -> bytes.
  Variable stdacc : bytes -> option bytes.
  Variable h160 : bytes -> bytes.
  Variables prevN verN : Z.

  Definition mc_of (k : contract) : Migration.contract :=
    match k with
    | KAlphabet => Migration.CAlphabet | KAudit => Migration.CAudit | KBalance => Migration.CBalance
    | KContainer => Migration.CContainer | KNeoFS => Migration.CNeoFS | KNeoFSID => Migration.CNeoFSID
    | KNetmap => Migration.CNetmap | KNNS => Migration.CNNS | KProcessing => Migration.CProcessing
    | KProxy => Migration.CProxy | KReputation => Migration.CReputation
    end.

  (** The chain as the invocation sees it, with the witnessed script hashes
      of the abstract context. *)
  Definition to_menv (c : ctx) (e0 : Migration.env) : Migration.env :=
    Migration.mkEnv (Migration.e_height e0) (Migration.e_committee e0) (Migration.e_designated e0)
      (wit_list c) (Migration.e_gas e0) (Migration.e_resolve_proxy e0) (Migration.e_netmap_nodes e0)
      (Migration.e_netmap_ir e0) (Migration.e_payments_ok e0).

  Lemma to_menv_sound c e0 h : Migration.witnessed (to_menv c e0) h = witnessed c h.
  Proof. apply wit_list_sound. Qed.

  (** The account the chain facts call committee / Inner Ring majority is
      the one [Update] computes from the key lists of the environment. *)
  Definition gate_facts (a : args) (k : contract) (e : Migration.env) : Prop :=
    forall addr, Migration.gate_address msaddr (mc_of k) e = Halt addr ->
      addr = match k with
             | KNeoFS | KProcessing => ch_ir_committee (a_chain a)
             | _ => ch_committee (a_chain a)
             end.

  Lemma inert_Update k c a e0 mgmt_ok data st r :
    gate_facts a k (to_menv c e0) ->
    required (k, "update", 3%nat) = Some r -> eval_req c a r = false ->
    Migration.update_tx msaddr stdacc h160 prevN verN (mc_of k) (to_menv c e0) mgmt_ok data st = (st, false).
  Proof.
    intros Hg Hr He. unfold Migration.update_tx, Migration.update, Migration.gate.
    destruct (Migration.gate_address msaddr (mc_of k) (to_menv c e0)) as [addr|] eqn:Ea; [|reflexivity].
    cbn [obind]. rewrite to_menv_sound. rewrite (Hg addr Ea).
    destruct k; vm_compute in Hr; injection Hr as <-; cbn [eval_req] in He; rewrite He; reflexivity.
  Qed.
End UpdateSec.

(** * The three gated methods without a family model, and the underscore
      entry points (Model/WitnessSmall.v) *)
From Verif Require Model.WitnessSmall.
Section SmallSec.
  (** container.startContainerEstimation / stopContainerEstimation *)
  Definition sm_key (o : WitnessSmall.sop) : mkey :=
    match o with
    | WitnessSmall.SStart _ _ => (KContainer, "startContainerEstimation", 1%nat)
    | WitnessSmall.SStop _ _ => (KContainer, "stopContainerEstimation", 1%nat)
    end.
  Definition to_sop (c : ctx) (a : args) (o : WitnessSmall.sop) : WitnessSmall.sop :=
    match o with
    | WitnessSmall.SStart _ e => WitnessSmall.SStart (alpha_of c a) e
    | WitnessSmall.SStop _ e => WitnessSmall.SStop (alpha_of c a) e
    end.

  Lemma inert_Estimation_signals {S : Type} (s : S) c a o r :
    required (sm_key o) = Some r -> eval_req c a r = false ->
    WitnessSmall.sstep s (to_sop c a o) = (s, VFault, []).
  Proof.
    intros Hr He. destruct o as [x e|x e]; vm_compute in Hr; injection Hr as <-;
      change (alpha_of c a = false) in He; unfold to_sop, WitnessSmall.sstep, WitnessSmall.sexec;
      rewrite He; reflexivity.
  Qed.

  (** alphabet.vote *)
  Definition to_vctx (c : ctx) (a : args) (epoch index : Z) (accepts : bytes -> bool) : WitnessSmall.vctx :=
    WitnessSmall.mkVC (alpha_of c a) epoch index accepts.

  Lemma inert_Vote target c a cur index accepts epoch cands r :
    required (KAlphabet, "vote", 2%nat) = Some r -> eval_req c a r = false ->
    WitnessSmall.vote_step target (to_vctx c a cur index accepts) epoch cands = (target, VFault).
  Proof.
    intros Hr He. vm_compute in Hr. injection Hr as <-. change (alpha_of c a = false) in He.
    unfold WitnessSmall.vote_step, WitnessSmall.vote_exec, to_vctx. cbn [WitnessSmall.v_alpha].
    rewrite He. reflexivity.
  Qed.

  (** [_deploy] / [_initialize]: every [RNever] row is a method the platform
      refuses to call, so its body is never entered. *)
  Definition never_rows_ok (x : mkey * req) : bool :=
    let '((_, m, _), r) := x in
    if req_eqb r RNever then negb (WitnessSmall.vm_callable m) else WitnessSmall.vm_callable m.

  Lemma table_never_rows : forallb never_rows_ok table = true.
  Proof. vm_compute. reflexivity. Qed.

  Lemma never_not_callable k m n :
    required (k, m, n) = Some RNever -> WitnessSmall.vm_callable m = false.
  Proof.
    intros Hr. apply lookup_In in Hr.
    pose proof table_never_rows as Ht. rewrite forallb_forall in Ht. specialize (Ht _ Hr).
    cbn [never_rows_ok req_eqb] in Ht. apply negb_true_iff in Ht. exact Ht.
  Qed.

  Lemma inert_Underscore {S N : Type} k m n r c a (body : S -> outcome (S * val * list N)) s :
    required (k, m, n) = Some r -> r = RNever -> eval_req c a r = false /\
    WitnessSmall.vm_invoke m body s = (s, VFault, []).
  Proof.
    intros Hr ->. split; [reflexivity|]. unfold WitnessSmall.vm_invoke.
    rewrite (never_not_callable k m n Hr). reflexivity.
  Qed.

  (** ... and every other row IS callable: the rule refuses nothing else. *)
  Lemma other_rows_callable k m n r :
    required (k, m, n) = Some r -> r <> RNever -> WitnessSmall.vm_callable m = true.
  Proof.
    intros Hr Hn. apply lookup_In in Hr.
    pose proof table_never_rows as Ht. rewrite forallb_forall in Ht. specialize (Ht _ Hr).
    cbn [never_rows_ok] in Ht. destruct (req_eqb r RNever) eqn:E; [|exact Ht].
    exfalso. apply Hn. destruct r; cbn in E; try discriminate E; reflexivity.
  Qed.
End SmallSec.
