(** Proofs/MigStore.v — lemmas about Model/MigStore.v: the prefix scan, the
    Put limits, "re-keying" loops over a storage snapshot (the shape of the
    Balance and Container migrations), the integer codec and the stack item
    (de)serialisation round trip. *)
From Verif Require Import Base.Prelude Base.IntCodec Model.MigStore.
From Coq Require Import ZifyBool ZifyNat ZifyN.

(** * Prefixes *)

Lemma is_prefix_nil b : is_prefix [] b = true.
Proof. destruct b; reflexivity. Qed.

Lemma is_prefix_refl_app p r : is_prefix p (p ++ r) = true.
Proof. apply is_prefix_app. eauto. Qed.

(** * [sfind] *)

Lemma sfind_keys_gen (p : bytes) (s : store) (l : list bytes) :
  (forall k, k ∈ l -> is_Some (s !! k)) ->
  map fst (omap (fun k => if is_prefix p k then (fun v => (k, v)) <$> (s !! k) else None) l)
  = filter (fun k => is_prefix p k = true) l.
Proof.
  induction l as [|k l IH]; intros Hs; [reflexivity|].
  destruct (Hs k) as [v Hv]; [left|].
  assert (IH' := IH (fun k' Hk' => Hs k' (elem_of_list_further _ _ _ Hk'))).
  rewrite filter_cons. cbn [omap list_omap]. rewrite Hv.
  destruct (is_prefix p k) eqn:E.
  - rewrite decide_True by reflexivity. cbn. f_equal. exact IH'.
  - rewrite decide_False by discriminate. cbn. exact IH'.
Qed.

Lemma sfind_keys p s : map fst (sfind p s) = filter (fun k => is_prefix p k = true) (skeys s).
Proof. apply sfind_keys_gen. intros k. apply elem_of_skeys. Qed.

Lemma elem_of_sfind p s k v :
  (k, v) ∈ sfind p s <-> s !! k = Some v /\ is_prefix p k = true.
Proof.
  unfold sfind. rewrite elem_of_list_omap. split.
  - intros (k' & Hin & Hf). destruct (is_prefix p k') eqn:E; [|discriminate].
    destruct (s !! k') as [v'|] eqn:Ev; [|discriminate]. simpl in Hf. injection Hf as -> ->. auto.
  - intros [Hv Hp]. exists k. split; [apply elem_of_skeys; eauto|]. by rewrite Hp, Hv.
Qed.

Lemma elem_of_sdump s k v : (k, v) ∈ sdump s <-> s !! k = Some v.
Proof. unfold sdump. rewrite elem_of_sfind, is_prefix_nil. tauto. Qed.

Lemma NoDup_sfind_keys p s : NoDup (map fst (sfind p s)).
Proof. rewrite sfind_keys. apply NoDup_filter, NoDup_skeys. Qed.

Lemma NoDup_sfind p s : NoDup (sfind p s).
Proof. apply (NoDup_fmap_1 fst). apply NoDup_sfind_keys. Qed.

Lemma StronglySorted_filter {A} (R : relation A) (P : A -> Prop) `{!forall x, Decision (P x)} l :
  StronglySorted R l -> StronglySorted R (filter P l).
Proof.
  induction 1 as [|x l Hs IH Hf]; [constructor|].
  rewrite filter_cons. destruct (decide (P x)); [|exact IH].
  constructor; [exact IH|]. apply Forall_forall. intros y [_ Hy]%elem_of_list_filter.
  rewrite Forall_forall in Hf. auto.
Qed.

(** [Find] order: ascending byte order of the keys. *)
Lemma Sorted_sfind_keys p s : Sorted bytes_le (map fst (sfind p s)).
Proof.
  rewrite sfind_keys. apply StronglySorted_Sorted, StronglySorted_filter.
  apply Sorted_StronglySorted; [apply _|apply Sorted_skeys].
Qed.

(** A sorted duplicate-free listing is determined by its elements. *)
Lemma sorted_keys_unique (l1 l2 : list bytes) :
  Sorted bytes_le l1 -> Sorted bytes_le l2 -> NoDup l1 -> NoDup l2 ->
  (forall k, k ∈ l1 <-> k ∈ l2) -> l1 = l2.
Proof.
  intros S1 S2 N1 N2 He. apply (Sorted_unique bytes_le); auto. by apply NoDup_Permutation.
Qed.

(** * [sput], [store_ok] *)

Lemma sput_halt k v s s' : sput k v s = Halt s' -> s' = <[k := v]> s /\ kv_ok k v = true.
Proof. unfold sput. destruct (kv_ok k v) eqn:E; [|discriminate]. intros [= <-]. auto. Qed.

Lemma sput_ok k v s : kv_ok k v = true -> sput k v s = Halt (<[k := v]> s).
Proof. unfold sput. intros ->. reflexivity. Qed.

Lemma store_okb_spec s : store_okb s = true <-> store_ok s.
Proof.
  unfold store_okb, store_ok. rewrite forallb_forall. split.
  - intros H k v Hkv. apply (H (k, v)). apply elem_of_list_In, elem_of_map_to_list. exact Hkv.
  - intros H [k v] Hin. apply elem_of_list_In, elem_of_map_to_list in Hin. exact (H k v Hin).
Qed.

Lemma store_ok_delete k s : store_ok s -> store_ok (delete k s).
Proof. intros H k' v Hl. apply lookup_delete_Some in Hl as [_ Hl]. eauto. Qed.

Lemma store_ok_insert k v s : store_ok s -> kv_ok k v = true -> store_ok (<[k := v]> s).
Proof.
  intros H Hk k' v' Hl. apply lookup_insert_Some in Hl as [[<- <-]|[_ Hl]]; eauto.
Qed.

Lemma kv_ok_longer k v x :
  kv_ok k v = true -> (length k < 64)%nat -> kv_ok (x :: k) v = true.
Proof. unfold kv_ok, max_key_len, max_val_len. cbn [length]. lia. Qed.

(** * Re-keying loops

    The Balance and Container migrations have the shape
<<
    it := storage.Find(ctx, []byte{}, None)
    for it.Next() { if shape(k) { Put(f(k), v); Delete(k) } }
>>
    over the snapshot taken by [Find].  [f] says where a key goes ([None]:
    the item is skipped), [g] is its inverse.  Side conditions: a new key is
    never itself selected ([f_img]) and differs from the key it comes from. *)
Section Rekey.
  Context (f g : bytes -> option bytes).
  Hypothesis fg : forall k q, f k = Some q <-> g q = Some k.
  Hypothesis f_img : forall k q, f k = Some q -> f q = None.

  Definition rekey_pure (s : store) (kv : bytes * bytes) : store :=
    match f (fst kv) with
    | Some q => delete (fst kv) (<[q := snd kv]> s)
    | None => s
    end.

  Lemma f_ne k q : f k = Some q -> q <> k.
  Proof. intros H ->. pose proof (f_img _ _ H). congruence. Qed.

  Lemma f_inj k1 k2 q : f k1 = Some q -> f k2 = Some q -> k1 = k2.
  Proof. intros H1%fg H2%fg. congruence. Qed.

  Fixpoint assoc (k : bytes) (l : list (bytes * bytes)) : option bytes :=
    match l with
    | [] => None
    | kv :: l' => if bytes_eqb (fst kv) k then Some (snd kv) else assoc k l'
    end.

  Lemma assoc_Some k l v : assoc k l = Some v -> (k, v) ∈ l.
  Proof.
    induction l as [|[k' v'] l IH]; cbn; [discriminate|].
    destruct (bytes_eqb k' k) eqn:E.
    - apply bytes_eqb_eq in E as ->. intros [= ->]. left.
    - intros H. right. auto.
  Qed.

  Lemma assoc_None k l : assoc k l = None -> k ∉ map fst l.
  Proof.
    induction l as [|[k' v'] l IH]; cbn; [intros _ H; inversion H|].
    destruct (bytes_eqb k' k) eqn:E; [discriminate|].
    apply bytes_eqb_neq in E. intros H [->|Hin]%elem_of_cons; [congruence|]. by apply IH.
  Qed.

  (** Value of [q] after the loop over [l] started in [s]. *)
  Definition rekey_lookup (l : list (bytes * bytes)) (s : store) (q : bytes) : option bytes :=
    match f q with
    | Some _ => if bool_decide (q ∈ map fst l) then None else s !! q
    | None =>
        match g q with
        | Some k => match assoc k l with Some v => Some v | None => s !! q end
        | None => s !! q
        end
    end.

  Lemma rekey_fold l : forall s q,
    NoDup (map fst l) ->
    fold_left rekey_pure l s !! q = rekey_lookup l s q.
  Proof.
    induction l as [|[k v] l IH]; intros s q Hnd.
    - unfold rekey_lookup. cbn. destruct (f q); [reflexivity|]. destruct (g q); reflexivity.
    - cbn [fold_left]. apply NoDup_cons in Hnd as [Hk Hnd]. rewrite (IH _ _ Hnd).
      unfold rekey_lookup, rekey_pure. cbn [fst snd map assoc].
      destruct (f q) as [q'|] eqn:Efq.
      + (* q is a selected (old-shape) key *)
        destruct (decide (q = k)) as [->|Hne].
        * rewrite (bool_decide_eq_false_2 _ Hk). rewrite Efq.
          rewrite lookup_delete. rewrite bool_decide_eq_true_2 by (cbn; left). reflexivity.
        * destruct (bool_decide (q ∈ map fst l)) eqn:Ein.
          -- apply bool_decide_eq_true_1 in Ein.
             rewrite bool_decide_eq_true_2 by (cbn; right; exact Ein). reflexivity.
          -- apply bool_decide_eq_false_1 in Ein.
             rewrite bool_decide_eq_false_2
               by (cbn; intros [H|H]%elem_of_cons; [congruence|contradiction]).
             destruct (f k) as [qk|] eqn:Efk; [|reflexivity].
             rewrite lookup_delete_ne by congruence.
             rewrite lookup_insert_ne; [reflexivity|].
             intros ->. pose proof (f_img _ _ Efk). congruence.
      + destruct (g q) as [k0|] eqn:Egq.
        * apply fg in Egq.
          destruct (bytes_eqb k k0) eqn:Ekk.
          -- (* this very item moves to q *)
             apply bytes_eqb_eq in Ekk as ->.
             destruct (assoc k0 l) as [v'|] eqn:El.
             ++ exfalso. apply Hk. apply assoc_Some in El.
                apply elem_of_list_fmap. exists (k0, v'). split; [reflexivity|exact El].
             ++ rewrite Egq. rewrite lookup_delete_ne by (apply not_eq_sym, f_ne; exact Egq).
                rewrite lookup_insert. reflexivity.
          -- apply bytes_eqb_neq in Ekk.
             destruct (assoc k0 l) as [v'|] eqn:El; [reflexivity|].
             destruct (f k) as [qk|] eqn:Efk; [|reflexivity].
             destruct (decide (q = k)) as [->|Hqk]; [congruence|].
             rewrite lookup_delete_ne by congruence.
             rewrite lookup_insert_ne; [reflexivity|].
             intros ->. apply Ekk. eapply f_inj; eassumption.
        * destruct (f k) as [qk|] eqn:Efk; [|reflexivity].
          destruct (decide (q = k)) as [->|Hqk]; [congruence|].
          rewrite lookup_delete_ne by congruence.
          rewrite lookup_insert_ne; [reflexivity|].
          intros ->. apply fg in Efk. congruence.
  Qed.

  (** Over the full snapshot of [s]. *)
  Definition rekeyed (s : store) (q : bytes) : option bytes :=
    match f q with
    | Some _ => None
    | None =>
        match g q with
        | Some k => match s !! k with Some v => Some v | None => s !! q end
        | None => s !! q
        end
    end.

  Lemma rekey_snapshot s q :
    fold_left rekey_pure (sfind [] s) s !! q = rekeyed s q.
  Proof.
    rewrite rekey_fold by apply NoDup_sfind_keys.
    unfold rekey_lookup, rekeyed. destruct (f q) as [q'|] eqn:Efq.
    - destruct (bool_decide (q ∈ map fst (sfind [] s))) eqn:E; [reflexivity|].
      apply bool_decide_eq_false_1 in E. destruct (s !! q) as [v|] eqn:Ev; [|reflexivity].
      exfalso. apply E. apply elem_of_list_fmap. exists (q, v). split; [reflexivity|].
      apply elem_of_sfind. split; [exact Ev|apply is_prefix_nil].
    - destruct (g q) as [k|]; [|reflexivity].
      destruct (assoc k (sfind [] s)) as [v'|] eqn:El.
      + apply assoc_Some, elem_of_sfind in El as [Hv _]. rewrite Hv. reflexivity.
      + apply assoc_None in El. destruct (s !! k) as [v|] eqn:Ev; [|reflexivity]. exfalso.
        apply El. apply elem_of_list_fmap. exists (k, v). split; [reflexivity|].
        apply elem_of_sfind. split; [exact Ev|apply is_prefix_nil].
  Qed.
End Rekey.

(** * Integer codec *)
Local Open Scope Z_scope.

Lemma length_le_bytes n z : length (le_bytes n z) = n.
Proof. revert z; induction n as [|n IH]; intros z; simpl; [reflexivity|]. by rewrite IH. Qed.

Lemma le_to_Z_le_bytes n z : le_to_Z (le_bytes n z) = z mod 256 ^ Z.of_nat n.
Proof.
  revert z; induction n as [|n IH]; intros z.
  - simpl. by rewrite Z.mod_1_r.
  - cbn [le_bytes le_to_Z]. rewrite IH, Z2N.id by (apply Z.mod_pos_bound; lia).
    rewrite Nat2Z.inj_succ, Z.pow_succ_r by lia.
    rewrite Z.rem_mul_r by (try apply Z.pow_nonzero; try apply Z.pow_pos_nonneg; lia).
    reflexivity.
Qed.

Lemma int_nbytes_bound z : z <> 0 ->
  let K := Z.of_nat (int_nbytes z) in
  1 <= K /\ - 2 ^ (8 * K - 1) <= z < 2 ^ (8 * K - 1).
Proof.
  intros Hz. unfold int_nbytes. rewrite (proj2 (Z.eqb_neq z 0) Hz).
  set (m := if z <? 0 then - z - 1 else z).
  assert (Hm : 0 <= m) by (unfold m; destruct (Z.ltb_spec z 0); lia).
  pose proof (Z.log2_nonneg m) as Hl.
  set (K := (Z.log2 m + 1) / 8 + 1).
  assert (HK : 1 <= K /\ Z.log2 m + 1 <= 8 * K - 1).
  { unfold K. pose proof (Z.div_mod (Z.log2 m + 1) 8 ltac:(lia)) as Hd.
    pose proof (Z.mod_pos_bound (Z.log2 m + 1) 8 ltac:(lia)) as Hb.
    pose proof (Z.div_pos (Z.log2 m + 1) 8 ltac:(lia) ltac:(lia)). lia. }
  rewrite Z2Nat.id by lia. cbv zeta. split; [lia|].
  assert (Hmb : m < 2 ^ (8 * K - 1)).
  { destruct (Z.eq_dec m 0) as [->|Hm0]; [apply Z.pow_pos_nonneg; lia|].
    pose proof (Z.log2_spec m ltac:(lia)) as [_ Hu].
    eapply Z.lt_le_trans; [exact Hu|]. replace (Z.succ (Z.log2 m)) with (Z.log2 m + 1) by lia.
    apply Z.pow_le_mono_r; lia. }
  unfold m in Hmb. destruct (Z.ltb_spec z 0); lia.
Qed.

Lemma bytes_to_int_to_bytes z : bytes_to_int (int_to_bytes z) = z.
Proof.
  destruct (Z.eq_dec z 0) as [->|Hz]; [reflexivity|].
  pose proof (int_nbytes_bound z Hz) as [HK Hb]. cbv zeta in HK, Hb.
  unfold bytes_to_int, int_to_bytes. rewrite length_le_bytes, le_to_Z_le_bytes.
  set (K := Z.of_nat (int_nbytes z)) in *.
  rewrite (proj2 (Z.eqb_neq K 0)) by lia.
  assert (Hp : (256 : Z) ^ K = 2 ^ (8 * K)) by (rewrite Z.pow_mul_r by lia; reflexivity).
  assert (Hh : 2 ^ (8 * K) = 2 * 2 ^ (8 * K - 1)).
  { rewrite <- Z.pow_succ_r by lia. f_equal. lia. }
  assert (Hpos : 0 < 2 ^ (8 * K - 1)) by (apply Z.pow_pos_nonneg; lia).
  rewrite Hp. destruct (Z_lt_le_dec z 0) as [Hneg|Hnn].
  - assert (Hm : z mod 2 ^ (8 * K) = z + 2 ^ (8 * K)).
    { symmetry. apply (Z.mod_unique_pos _ _ (-1)); lia. }
    rewrite Hm. destruct (Z.ltb_spec (z + 2 ^ (8 * K)) (2 ^ (8 * K - 1))); lia.
  - rewrite Z.mod_small by lia. destruct (Z.ltb_spec z (2 ^ (8 * K - 1))); lia.
Qed.

(** * Stack item serialisation: [deserialize (ser x) = x] *)

(** Better induction principle for the nested type. *)
Lemma item_ind' (P : item -> Prop) :
  P INull -> (forall b, P (IBool b)) -> (forall z, P (IInt z)) ->
  (forall b, P (IBytes b)) -> (forall b, P (IBuffer b)) ->
  (forall l, Forall P l -> P (IArray l)) -> (forall l, Forall P l -> P (IStruct l)) ->
  forall x, P x.
Proof.
  intros Hn Hb Hi Hy Hu Ha Hs.
  fix IH 1. intros [| b | z | b | b |l|l].
  - exact Hn.
  - apply Hb.
  - apply Hi.
  - apply Hy.
  - apply Hu.
  - apply Ha. induction l as [|y l IHl]; constructor; [apply IH|exact IHl].
  - apply Hs. induction l as [|y l IHl]; constructor; [apply IH|exact IHl].
Qed.

(** Items [std.Serialize] can produce and [std.Deserialize] reads back:
    integers in the VM range, byte strings within MaxSize. *)
Fixpoint wf_item (x : item) : Prop :=
  match x with
  | INull | IBool _ => True
  | IInt z => - 2 ^ 255 <= z < 2 ^ 255
  | IBytes b | IBuffer b => Z.of_nat (length b) <= max_item_size
  | IArray l | IStruct l => fold_right (fun y acc => wf_item y /\ acc) True l
  end.

Lemma wf_item_list l : fold_right (fun y acc => wf_item y /\ acc) True l <-> Forall wf_item l.
Proof. induction l as [|y l IH]; cbn; [split; auto|]. rewrite Forall_cons, IH. tauto. Qed.

Fixpoint depth (x : item) : nat :=
  match x with
  | IArray l | IStruct l => S (fold_right (fun y acc => Nat.max (depth y) acc) O l)
  | _ => 1%nat
  end.

Definition sum_counts (l : list item) : Z := fold_right (fun y acc => item_count y + acc) 0 l.

Lemma item_count_pos x : 1 <= item_count x.
Proof.
  induction x using item_ind'; cbn; try lia.
  - assert (0 <= fold_right (fun y acc => item_count y + acc) 0 l); [|lia].
    induction H as [|y l Hy Hl IH]; cbn; lia.
  - assert (0 <= fold_right (fun y acc => item_count y + acc) 0 l); [|lia].
    induction H as [|y l Hy Hl IH]; cbn; lia.
Qed.

Lemma sum_counts_len l : Z.of_nat (length l) <= sum_counts l.
Proof.
  induction l as [|y l IH]; cbn; [lia|]. pose proof (item_count_pos y). unfold sum_counts in IH. lia.
Qed.

Lemma take_exact_app (d r : bytes) : take_exact (length d) (d ++ r) = Some (d, r).
Proof.
  unfold take_exact. rewrite app_length.
  destruct (Nat.leb_spec (length d) (length d + length r)); [|lia].
  rewrite take_app_alt, drop_app_alt by reflexivity. reflexivity.
Qed.

Lemma le_bytes_small k n : 0 <= n < 256 ^ Z.of_nat k -> le_to_Z (le_bytes k n) = n.
Proof. intros H. rewrite le_to_Z_le_bytes. apply Z.mod_small. exact H. Qed.

Lemma read_varuint_varuint n (r : bytes) :
  0 <= n <= 4294967295 -> read_varuint (varuint n ++ r) = Some (n, r).
Proof.
  intros Hn. unfold varuint.
  destruct (Z.ltb_spec n 253).
  - cbn. assert (Hx : (Z.to_N n < 253)%N) by lia.
    destruct (N.eqb_spec (Z.to_N n) 253); [lia|]. destruct (N.eqb_spec (Z.to_N n) 254); [lia|].
    destruct (N.eqb_spec (Z.to_N n) 255); [lia|]. rewrite Z2N.id by lia. reflexivity.
  - destruct (Z.leb_spec n 65535).
    + cbn [app read_varuint]. cbn [N.eqb Pos.eqb].
      change (le_bytes 2 n ++ r) with (le_bytes 2 n ++ r).
      pose proof (take_exact_app (le_bytes 2 n) r) as Ht. rewrite length_le_bytes in Ht. rewrite Ht.
      rewrite le_bytes_small by (cbn; lia). reflexivity.
    + cbn [app read_varuint]. cbn [N.eqb Pos.eqb].
      destruct (Z.leb_spec n 4294967295); [|lia].
      cbn [app read_varuint]. cbn [N.eqb Pos.eqb].
      pose proof (take_exact_app (le_bytes 4 n) r) as Ht. rewrite length_le_bytes in Ht. rewrite Ht.
      rewrite le_bytes_small by (cbn; lia). reflexivity.
Qed.

Lemma read_varbytes_ok maxn (d r : bytes) :
  Z.of_nat (length d) <= maxn -> maxn <= 4294967295 ->
  read_varbytes maxn (varuint (Z.of_nat (length d)) ++ d ++ r) = Some (d, r).
Proof.
  intros Hd Hm. unfold read_varbytes. rewrite read_varuint_varuint by lia.
  destruct (Z.gtb_spec (Z.of_nat (length d)) maxn); [lia|].
  rewrite Nat2Z.id. apply take_exact_app.
Qed.

Lemma int_to_bytes_len z : - 2 ^ 255 <= z < 2 ^ 255 -> Z.of_nat (length (int_to_bytes z)) <= 32.
Proof.
  intros Hz. unfold int_to_bytes. rewrite length_le_bytes. unfold int_nbytes.
  destruct (Z.eqb_spec z 0); [cbn; lia|].
  set (m := if z <? 0 then - z - 1 else z).
  assert (Hm : 0 <= m < 2 ^ 255) by (unfold m; destruct (Z.ltb_spec z 0); lia).
  clearbody m. clear Hz.
  assert (Hl : Z.log2 m <= 254).
  { destruct (Z.eq_dec m 0) as [->|]; [cbn; lia|].
    assert (Z.log2 m < 255); [|lia]. apply Z.log2_lt_pow2; lia. }
  pose proof (Z.log2_nonneg m).
  rewrite Z2Nat.id by (pose proof (Z.div_pos (Z.log2 m + 1) 8 ltac:(lia) ltac:(lia)); lia).
  assert (H31 : (Z.log2 m + 1) / 8 < 32) by (apply Z.div_lt_upper_bound; lia).
  lia.
Qed.

Lemma deser_list_ok (d : Z -> bytes -> option (item * bytes * Z)) (l : list item) :
  Forall (fun x => forall lim (r : bytes), item_count x <= lim <= max_items -> d lim (ser x ++ r) = Some (x, r, lim - item_count x)) l ->
  forall lim (r : bytes), sum_counts l <= lim <= max_items ->
    deser_list d (length l) lim (flat_map ser l ++ r) = Some (l, r, lim - sum_counts l).
Proof.
  unfold max_items. induction 1 as [|x l Hx Hl IH]; intros lim r Hlim; cbn.
  - f_equal. f_equal. lia.
  - cbn in Hlim. fold (sum_counts l) in Hlim. pose proof (item_count_pos x).
    pose proof (sum_counts_len l).
    rewrite <- app_assoc. rewrite Hx by lia. rewrite IH by lia.
    f_equal. f_equal. fold (sum_counts l). lia.
Qed.

Lemma deser_ser x : wf_item x ->
  forall fuel lim (r : bytes), (depth x <= fuel)%nat -> item_count x <= lim <= max_items ->
    deser fuel lim (ser x ++ r) = Some (x, r, lim - item_count x).
Proof.
  induction x as [| b | z | b | b | l IHl | l IHl] using item_ind'; intros Hwf fuel lim r Hf Hlim;
    unfold max_items in *;
    (destruct fuel as [|f]; [cbn in Hf; lia|]).
  - cbn. destruct (Z.ltb_spec (lim - 1) 0); [cbn in Hlim; lia|]. reflexivity.
  - cbn. destruct (Z.ltb_spec (lim - 1) 0); [cbn in Hlim; lia|]. destruct b; reflexivity.
  - cbn [ser app deser]. destruct (Z.ltb_spec (lim - 1) 0); [cbn in Hlim; lia|].
    cbn [N.eqb Pos.eqb]. cbn in Hwf. cbv zeta. rewrite <- app_assoc.
    rewrite read_varbytes_ok by (try apply int_to_bytes_len; lia).
    rewrite bytes_to_int_to_bytes. reflexivity.
  - cbn [ser app deser]. destruct (Z.ltb_spec (lim - 1) 0); [cbn in Hlim; lia|].
    cbn [N.eqb Pos.eqb]. cbn in Hwf. rewrite <- app_assoc.
    rewrite read_varbytes_ok by (unfold max_item_size in *; lia). reflexivity.
  - cbn [ser app deser]. destruct (Z.ltb_spec (lim - 1) 0); [cbn in Hlim; lia|].
    cbn [N.eqb Pos.eqb]. cbn in Hwf. rewrite <- app_assoc.
    rewrite read_varbytes_ok by (unfold max_item_size in *; lia). reflexivity.
  - cbn [ser app deser]. cbn [item_count] in Hlim. fold (sum_counts l) in Hlim.
    pose proof (sum_counts_len l).
    destruct (Z.ltb_spec (lim - 1) 0); [lia|].
    cbn [N.eqb Pos.eqb orb]. rewrite <- app_assoc.
    rewrite read_varuint_varuint by lia.
    destruct (Z.gtb_spec (Z.of_nat (length l)) (lim - 1)); [lia|].
    rewrite Nat2Z.id. rewrite deser_list_ok.
    + cbn [item_count]. fold (sum_counts l). f_equal. f_equal. lia.
    + cbn [wf_item] in Hwf. apply wf_item_list in Hwf.
      cbn [depth] in Hf. clear -IHl Hwf Hf.
      induction l as [|y l IH]; constructor.
      * apply Forall_cons in IHl as [Hy _]. apply Forall_cons in Hwf as [Hwy _]. cbn in Hf.
        intros lim r Hc. apply Hy; [exact Hwy|lia|exact Hc].
      * apply Forall_cons in IHl as [_ Hl]. apply Forall_cons in Hwf as [_ Hwl]. cbn in Hf.
        apply IH; [exact Hl|exact Hwl|lia].
    + unfold max_items. lia.
  - cbn [ser app deser]. cbn [item_count] in Hlim. fold (sum_counts l) in Hlim.
    pose proof (sum_counts_len l).
    destruct (Z.ltb_spec (lim - 1) 0); [lia|].
    cbn [N.eqb Pos.eqb orb]. rewrite <- app_assoc.
    rewrite read_varuint_varuint by lia.
    destruct (Z.gtb_spec (Z.of_nat (length l)) (lim - 1)); [lia|].
    rewrite Nat2Z.id. rewrite deser_list_ok.
    + cbn [item_count]. fold (sum_counts l). f_equal. f_equal. lia.
    + cbn [wf_item] in Hwf. apply wf_item_list in Hwf.
      cbn [depth] in Hf. clear -IHl Hwf Hf.
      induction l as [|y l IH]; constructor.
      * apply Forall_cons in IHl as [Hy _]. apply Forall_cons in Hwf as [Hwy _]. cbn in Hf.
        intros lim r Hc. apply Hy; [exact Hwy|lia|exact Hc].
      * apply Forall_cons in IHl as [_ Hl]. apply Forall_cons in Hwf as [_ Hwl]. cbn in Hf.
        apply IH; [exact Hl|exact Hwl|lia].
    + unfold max_items. lia.
Qed.

Lemma depth_le_len x : (depth x <= length (ser x))%nat.
Proof.
  induction x as [| b | z | b | b | l IHl | l IHl] using item_ind'; cbn [depth ser length]; try lia.
  - rewrite app_length. assert (fold_right (fun y acc => Nat.max (depth y) acc) O l <= length (flat_map ser l))%nat; [|lia].
    induction IHl as [|y l Hy Hl IH]; cbn; [lia|]. rewrite app_length. lia.
  - rewrite app_length. assert (fold_right (fun y acc => Nat.max (depth y) acc) O l <= length (flat_map ser l))%nat; [|lia].
    induction IHl as [|y l Hy Hl IH]; cbn; [lia|]. rewrite app_length. lia.
Qed.

(** The round trip. *)
Lemma deserialize_ser x :
  wf_item x -> item_count x <= max_items -> deserialize (ser x) = Halt x.
Proof.
  intros Hwf Hc. unfold deserialize.
  pose proof (deser_ser x Hwf (S (length (ser x))) max_items [] ltac:(pose proof (depth_le_len x); lia) ltac:(lia)) as H.
  rewrite app_nil_r in H. rewrite H. reflexivity.
Qed.

Lemma serialize_halt x b : serialize x = Halt b -> b = ser x /\ item_count x <= max_items.
Proof.
  unfold serialize. destruct (Z.leb_spec (item_count x) max_items); [|discriminate].
  destruct (_ <=? max_item_size); [|discriminate]. intros [= <-]. auto.
Qed.

(** * Listings under a re-keyed prefix *)

Lemma pairs_eq (l1 l2 : list (bytes * bytes)) :
  map fst l1 = map fst l2 -> NoDup (map fst l2) ->
  (forall k v, (k, v) ∈ l1 -> (k, v) ∈ l2) -> l1 = l2.
Proof.
  revert l2. induction l1 as [|[k v] l1 IH]; intros [|[k' v'] l2] Hk Hnd Hin; cbn [map fst] in Hk; try discriminate; [reflexivity|].
  injection Hk as -> Hk. cbn [map fst] in Hnd. apply NoDup_cons in Hnd as [Hk' Hnd].
  assert (v = v').
  { assert (H : (k', v) ∈ (k', v') :: l2) by (apply Hin; left).
    apply elem_of_cons in H as [[= ->]|H]; [reflexivity|].
    exfalso. apply Hk'. apply elem_of_list_fmap. exists (k', v). auto. }
  subst v'. f_equal. apply IH; [exact Hk|exact Hnd|].
  intros k2 v2 H2. assert (H : (k2, v2) ∈ (k', v) :: l2) by (apply Hin; right; exact H2).
  apply elem_of_cons in H as [[= -> ->]|H]; [|exact H].
  exfalso. apply Hk'. rewrite <- Hk. apply elem_of_list_fmap. exists (k', v). auto.
Qed.

Lemma sfind_unique (p : bytes) (s : store) (L : list (bytes * bytes)) :
  Sorted bytes_le (map fst L) -> NoDup (map fst L) ->
  (forall k v, (k, v) ∈ L <-> s !! k = Some v /\ is_prefix p k = true) ->
  sfind p s = L.
Proof.
  intros Hs Hnd Hel. apply pairs_eq; [|exact Hnd|].
  - apply sorted_keys_unique; [apply Sorted_sfind_keys|exact Hs|apply NoDup_sfind_keys|exact Hnd|].
    intros k. rewrite !elem_of_list_fmap. split.
    + intros ([k' v] & -> & Hin). exists (k', v). split; [reflexivity|]. apply Hel. apply elem_of_sfind. exact Hin.
    + intros ([k' v] & -> & Hin). exists (k', v). split; [reflexivity|]. apply elem_of_sfind. apply Hel. exact Hin.
  - intros k v Hin. apply Hel. apply elem_of_sfind. exact Hin.
Qed.

Lemma Sorted_fmap_inv {A B} (R : relation B) (f : A -> B) (l : list A) :
  Sorted R (map f l) -> Sorted (fun x y => R (f x) (f y)) l.
Proof.
  induction l as [|x l IH]; cbn; intros H; [constructor|].
  apply Sorted_inv in H as [Hs Hh]. constructor; [exact (IH Hs)|].
  destruct l as [|y l]; constructor. cbn in Hh. apply HdRel_inv in Hh. exact Hh.
Qed.

Lemma bytes_leb_cons x (a b : bytes) : bytes_leb (x :: a) (x :: b) = bytes_leb a b.
Proof. cbn. rewrite N.ltb_irrefl, N.eqb_refl. reflexivity. Qed.

Lemma NoDup_fst_filter (P : bytes * bytes -> Prop) `{!forall x, Decision (P x)} (l : list (bytes * bytes)) :
  NoDup (map fst l) -> NoDup (map fst (filter P l)).
Proof.
  induction l as [|a l IH]; cbn [map]; intros Hnd; [constructor|].
  apply NoDup_cons in Hnd as [Ha Hl]. rewrite filter_cons. destruct (decide (P a)); [|exact (IH Hl)].
  cbn [map]. apply NoDup_cons. split; [|exact (IH Hl)].
  intros Hin. apply Ha. apply elem_of_list_fmap in Hin as (b & -> & Hb).
  apply elem_of_list_filter in Hb as [_ Hb]. apply elem_of_list_fmap. exists b. auto.
Qed.

Definition rekey_pair (x : N) (kv : bytes * bytes) : bytes * bytes := (x :: fst kv, snd kv).

Lemma map_fst_rekey x (l : list (bytes * bytes)) :
  map fst (map (rekey_pair x) l) = map (cons x) (map fst l).
Proof. induction l as [|a l IH]; cbn; [reflexivity|]. f_equal. exact IH. Qed.

Lemma sfind_rekeyed (x : N) (L : nat) (p : bytes) (s s' : store) :
  (forall k0 : bytes, s' !! (x :: k0) = if (length k0 =? L)%nat then s !! k0 else None) ->
  sfind (x :: p) s' =
  map (rekey_pair x) (filter (fun kv : bytes * bytes => length (fst kv) = L) (sfind p s)).
Proof.
  intros Hs'. set (Lst := filter (fun kv : bytes * bytes => length (fst kv) = L) (sfind p s)).
  assert (Hsorted : StronglySorted (fun a b : bytes * bytes => bytes_le (fst a) (fst b)) Lst).
  { apply StronglySorted_filter. apply Sorted_StronglySorted.
    - intros a b c. apply bytes_le_trans.
    - apply Sorted_fmap_inv. apply Sorted_sfind_keys. }
  apply sfind_unique.
  - rewrite <- list_fmap_compose.
    apply (Sorted_fmap _ (fun a b : bytes * bytes => bytes_le (fst a) (fst b)) bytes_le).
    + intros a b Hab. cbn. unfold bytes_le. rewrite bytes_leb_cons. exact Hab.
    + apply StronglySorted_Sorted. exact Hsorted.
  - rewrite map_fst_rekey.
    assert (Hnd : NoDup (map fst Lst)).
    { apply NoDup_fst_filter. apply NoDup_sfind_keys. }
    apply NoDup_fmap_2; [|exact Hnd]. intros a b [= ->]. reflexivity.
  - intros k v. rewrite elem_of_list_fmap. split.
    + intros ([k0 v0] & [= -> ->] & Hin). apply elem_of_list_filter in Hin as [Hl Hin]. cbn in Hl.
      apply elem_of_sfind in Hin as [Hv Hp]. cbn. rewrite Hs'.
      rewrite (proj2 (Nat.eqb_eq _ _) Hl). rewrite N.eqb_refl. auto.
    + intros [Hv Hp]. destruct k as [|y k0]; [discriminate|]. cbn in Hp.
      apply andb_true_iff in Hp as [->%N.eqb_eq Hp]. rewrite Hs' in Hv.
      destruct (Nat.eqb_spec (length k0) L) as [Hl|]; [|discriminate].
      exists (k0, v). split; [reflexivity|]. apply elem_of_list_filter. split; [exact Hl|].
      apply elem_of_sfind. auto.
Qed.
