(** Proofs/TiesMigration.v — ties between the literals of Model/Migration.v
    (and Model/MigStore.v) — property C16: the upgrade is committee-gated,
    version-monotonic, data-preserving — and the constants of the Go sources
    (common/version.go, common/update.go, common/vote.go, common/ir.go, the
    [_deploy], [Update], [switchToNotary] functions of contracts/*/contract.go)
    as extracted into Gen/Params.v (regenerated from /repo's working tree on
    every run).  A constant edited in the source breaks the lemma that names it.

    Named definitions of the model ([real_prev], [real_version], [block_diff],
    the [k_...] / [p_...] storage keys, the prefixes, [notary_deposit_limit],
    [lock_interval]) are tied directly.  Inline literals (the version gates
    16000 / 17000 / 18000 / 19000 / 20000, the key lengths 32 and 57, which
    keys which contract deletes, the subscriber indices 0 and 1, the node state
    1, '.', the argument positions and the GAS shares of the Alphabet switch)
    are tied through closed observable terms: the model's [deploy_<contract>]
    run on a small legacy storage BUILT FROM THE SOURCE'S CONSTANTS at the
    versions N-1, N, N+1 of every gate, compared with the storage that the
    source's constants dictate.  For these runs the section variables
    (prevN, verN) are (0, 10^9) so that common.CheckVersion lets every probe
    through; CheckVersion itself is tied separately at the real constants.
    The abstract platform functions are instantiated by simple concrete ones
    (multisig address: threshold byte :: keys; standard account, RIPEMD-160:
    identity).

    NOT tied, because they are constants of the platform (neo-go / NeoVM / the
    Go language), not of /repo:
      - interop.Hash160Len = 20 (acc_step, alphabet_switch), the 33 bytes of a
        compressed public key as such (node_keys takes 35 - 2, which IS tied);
      - limits.MaxStorageKeyLen = 64, MaxStorageValueLen = 65535 (MigStore.sput);
      - the 32-byte integer / Bool() limit (bytes_to_bool, item_to_int,
        snapshot_count, nns_update_balance_dec), the VM integer range (vm_sub);
      - the stack item (de)serialisation of MigStore.v: type tags 0 / 32 / 33 /
        40 / 48 / 64 / 65, MaxSerialized = 2048, stackitem.MaxSize = 1048576,
        the var-uint markers 253 / 254 / 255;
      - contract.CreateMultisigAccount's 1 <= m <= n <= 1024 (create_multisig);
      - byte(i) fitting 0..255 (snapshot_key);
      - interop/native/notary.Hash ([notary_hash]).
    NOT tied, because the model abstracts them away:
      - the field positions of the migrated structures (Ballot.Height = field 2,
        oldNode.BLOB / oldCandidate.f1.BLOB = field 0, f2 = field 1,
        NameState.Owner / Name = fields 0 / 1, Account.Balance = field 0): they
        follow from Go struct declarations, no constant names them;
      - the error messages of CheckVersion (ErrVersionMismatch, ErrAlreadyUpdated,
        std.Itoa base 10 = p_common_CheckVersion_intlits): a panic is [Fault];
      - the "update" method name of the Management call (p_<pkg>_Update_strlits),
        its NEF / manifest checks: [mgmt_ok];
      - common.ResolveFSContract("proxy"), contract.Call(netmap, "netmap"),
        common.irListMethod = "innerRingList" (p_alphabet_switchToNotary_strlits,
        p_common_irListMethod): the fields [e_resolve_proxy], [e_netmap_nodes],
        [e_netmap_ir] of the environment;
      - blockHeight+1 of roles.GetDesignatedByRole (p_common_InnerRingNodes_intlits,
        p_processing_Update_intlits): [e_designated];
      - common.LegacyOwnerKey = "contractOwner" (common/update.go:8): no
        migration of the source reads or deletes it, the model has no such key
        (it is put into the legacy storages below and must survive).
    neofs, processing and proxy have no version gate ([deploy_trivial]): their
    p_<pkg>_deploy_version_gates lists are empty (tie_trivial_no_gate). *)
From Coq Require Import ZArith NArith List String Ascii.
Import ListNotations.
From Verif Require Import Base.Prelude Base.IntCodec Gen.Params Model.MigStore Model.Migration Proofs.TiesLib.
Local Open Scope Z_scope.

(** * Helpers *)

(** Environments of the extracted expressions. *)
Definition no_var : string -> Z := fun _ => 0.
Definition binds (l : list (string * Z)) : string -> Z :=
  fun x => match find (fun p => String.eqb x (fst p)) l with Some p => snd p | None => 0 end.
Definition only (name : string) (v : Z) : string -> Z := binds [(name, v)].

(** The i-th integer / string literal of a function body. *)
Definition lit (l : list Z) (i : nat) : Z := nth i l 0.
Definition B (s : string) : bytes := bytes_of_string s.
Definition slit (l : list string) (i : nat) : bytes := B (nth i l EmptyString).

(** One [version <op> N] comparison of a _deploy as a predicate on the version. *)
Definition gate_holds (g : string * Z) (v : Z) : bool :=
  let op := fst g in
  let n := snd g in
  if String.eqb op "<" then v <? n
  else if String.eqb op "<=" then v <=? n
  else if String.eqb op ">" then v >? n
  else if String.eqb op ">=" then v >=? n
  else if String.eqb op "==" then v =? n
  else negb (v =? n).
Definition gate_at (l : list (string * Z)) (i : nat) : string * Z := nth i l (EmptyString, 0).
(** The versions around every gate. *)
Definition probes (l : list (string * Z)) : list Z :=
  flat_map (fun g => [snd g - 1; snd g; snd g + 1]) l.

(** Expected storages, written with the source's constants. *)
Definition del (ks : list bytes) (s : store) : store := fold_left (fun acc k => sdel k acc) ks s.
Definition rekey (pfx : N) (ks : list bytes) (s : store) : store :=
  fold_left (fun acc k => match sget k acc with
                          | Some v => <[pfx :: k := v]> (sdel k acc)
                          | None => acc
                          end) ks s.
Definition when (b : bool) (f : store -> store) (s : store) : store := if b then f s else s.
Definition dump (o : outcome store) : option kvs :=
  match o with Halt s => Some (sdump s) | Fault => None end.

(** Probe runs: CheckVersion lets every version of [probes] through. *)
Definition BIG : Z := 1000000000.
Definition E0 : env := env_basic 1000 [] [] [].

(** A legacy (notary-disabled, no ballot in progress) storage holding every key
    that some migration of the source names, each with the value [9]. *)
Definition V1 : bytes := [9%N].
Definition pool : list string :=
  (p_audit_switchToNotary_strlits ++ p_balance_switchToNotary_strlits ++
   p_neofsid_switchToNotary_strlits ++ p_neofsid__deploy_strlits ++ p_netmap_switchToNotary_strlits ++
   [p_netmap_balanceContractKey; p_netmap_containerContractKey; p_common_LegacyOwnerKey;
    p_alphabet_netmapKey; p_alphabet_proxyKey; p_balance_circulation])%list.
Definition legacy (notaryKey : string) (extra : list (bytes * bytes)) : store :=
  of_list ((B notaryKey, [1%N]) :: (B p_common_voteKey, ser (IArray []))
           :: (map (fun k => (B k, V1)) pool ++ extra)%list).

(** * common/version.go *)

(** Version = major*1_000_000 + minor*1_000 + patch *)
Lemma tie_real_version : real_version = p_common_Version.
Proof. reflexivity. Qed.

Lemma tie_real_version_parts :
  real_version = p_common_major * 1000000 + p_common_minor * 1000 + p_common_patch.
Proof. reflexivity. Qed.

(** PrevVersion = prevMajor*1_000_000 + prevMinor*1_000 + prevPatch *)
Lemma tie_real_prev : real_prev = p_common_PrevVersion.
Proof. reflexivity. Qed.

Lemma tie_real_prev_parts :
  real_prev = p_common_prevMajor * 1000000 + p_common_prevMinor * 1000 + p_common_prevPatch.
Proof. reflexivity. Qed.

(** CheckVersion: [from < PrevVersion] and [from >= Version] panic. *)
Lemma tie_check_version :
  map (check_version real_prev real_version)
      [p_common_PrevVersion - 1; p_common_PrevVersion; p_common_Version - 1; p_common_Version]
  = [Fault; Halt tt; Halt tt; Fault].
Proof. vm_compute. reflexivity. Qed.

(** [args[len(args)-1].(int)]: the first integer literal of all eleven _deploy. *)
Definition ARGS3 : list item := [IInt 5; IInt 7; IInt 9].
Lemma tie_args_version :
  map (fun l => item_to_int (nth (length ARGS3 - Z.to_nat (lit l 0)) ARGS3 INull))
      [p_alphabet__deploy_intlits; p_audit__deploy_intlits; p_balance__deploy_intlits;
       p_container__deploy_intlits; p_neofs__deploy_intlits; p_neofsid__deploy_intlits;
       p_netmap__deploy_intlits; p_nns__deploy_intlits; p_processing__deploy_intlits;
       p_proxy__deploy_intlits; p_reputation__deploy_intlits]
  = repeat (args_version ARGS3) (length all_contracts).
Proof. vm_compute. reflexivity. Qed.

(** * common/ir.go, contracts/nns/contract.go: the accounts behind [Update] *)

(** Multiaddress(n, true): threshold = len(n)/2 + 1 (HasUpdateAccess, neofs, processing) *)
Lemma tie_multiaddress_committee ms keys :
  multiaddress ms keys true =
  create_multisig ms (teval_div no_var (only "n" (Z.of_nat (length keys)))
                                p_common_Multiaddress_threshold_2_expr) keys.
Proof. reflexivity. Qed.

(** Multiaddress(n, false): threshold := len(n)*2/3 + 1 *)
Lemma tie_multiaddress_alphabet ms keys :
  multiaddress ms keys false =
  create_multisig ms (teval_div no_var (only "n" (Z.of_nat (length keys)))
                                p_common_Multiaddress_threshold_expr) keys.
Proof. reflexivity. Qed.

(** nns checkCommittee: CreateMultisigAccount(l-(l-1)/2, committee) *)
Lemma tie_gate_address_nns ms e :
  gate_address ms CNNS e =
  create_multisig ms (teval_div (only "l" (Z.of_nat (length (e_committee e)))) no_var
                                p_nns_checkCommittee_multisig_m_expr) (e_committee e).
Proof. reflexivity. Qed.

(** * common/vote.go *)

(** blockDiff = 20 *)
Lemma tie_block_diff : block_diff = p_common_blockDiff.
Proof. reflexivity. Qed.

(** voteKey = "ballots" *)
Lemma tie_k_ballots : k_ballots = B p_common_voteKey.
Proof. reflexivity. Qed.

(** TryPurgeVotes: a ballot blockDiff blocks old is in progress (nothing is
    deleted), one block more and the value under voteKey is removed. *)
Definition ballot (h : Z) : item := IStruct [IBytes [9%N]; IArray []; IInt h].
Definition vote_store (h : Z) : store :=
  of_list [(B p_common_voteKey, ser (IArray [ballot h])); ([5%N], [5%N])].
Lemma tie_try_purge_votes_run :
  map (fun age => match try_purge_votes 1000 (vote_store (1000 - age)) with
                  | Halt (b, s) => Some (b, map fst (sdump s))
                  | Fault => None
                  end) [p_common_blockDiff; p_common_blockDiff + 1]
  = [Some (false, [[5%N]; B p_common_voteKey]); Some (true, [[5%N]])].
Proof. vm_compute. reflexivity. Qed.

(** * Storage keys: named definitions of the model *)

(** const notaryDisabledKey = "notary" of the seven switchToNotary *)
Lemma tie_k_notary :
  map B [p_alphabet_switchToNotary_notaryDisabledKey; p_audit_switchToNotary_notaryDisabledKey;
         p_balance_switchToNotary_notaryDisabledKey; p_container_switchToNotary_notaryDisabledKey;
         p_neofsid_switchToNotary_notaryDisabledKey; p_netmap_switchToNotary_notaryDisabledKey;
         p_reputation_switchToNotary_notaryDisabledKey]
  = repeat k_notary 7.
Proof. reflexivity. Qed.

(** The string literals of the storage.Delete calls: how many there are ... *)
Lemma tie_strlits_lengths :
  map (@length string) [p_audit_switchToNotary_strlits; p_balance_switchToNotary_strlits;
                        p_neofsid_switchToNotary_strlits; p_neofsid__deploy_strlits;
                        p_netmap_switchToNotary_strlits]
  = [1; 2; 1; 1; 1]%nat.
Proof. reflexivity. Qed.

(** ... "netmapScriptHash" (alphabet netmapKey; audit, balance switchToNotary; neofsid _deploy) *)
Lemma tie_k_netmapSH :
  [B p_alphabet_netmapKey; slit p_audit_switchToNotary_strlits 0;
   slit p_balance_switchToNotary_strlits 0; slit p_neofsid__deploy_strlits 0]
  = repeat k_netmapSH 4.
Proof. reflexivity. Qed.

Lemma tie_k_alphabet_netmap : k_alphabet_netmap = B p_alphabet_netmapKey.
Proof. reflexivity. Qed.

(** "containerScriptHash" (balance, neofsid switchToNotary; netmap containerContractKey) *)
Lemma tie_k_containerSH :
  [slit p_balance_switchToNotary_strlits 1; slit p_neofsid_switchToNotary_strlits 0;
   B p_netmap_containerContractKey]
  = repeat k_containerSH 3.
Proof. reflexivity. Qed.

(** netmap balanceContractKey = "balanceScriptHash" *)
Lemma tie_k_balanceSH : k_balanceSH = B p_netmap_balanceContractKey.
Proof. reflexivity. Qed.

(** netmap switchToNotary: storage.Delete(ctx, "innerring") *)
Lemma tie_k_innerring : k_innerring = slit p_netmap_switchToNotary_strlits 0.
Proof. reflexivity. Qed.

(** alphabet proxyKey = "proxyScriptHash" *)
Lemma tie_k_proxySH : k_proxySH = B p_alphabet_proxyKey.
Proof. reflexivity. Qed.

(** balance circulation = "MainnetGAS" *)
Lemma tie_k_supply : k_supply = B p_balance_circulation.
Proof. reflexivity. Qed.

(** netmap snapshotCountKey, snapshotCurrentIDKey, snapshotEpoch, snapshotKeyPrefix *)
Lemma tie_k_snapshotCount : k_snapshotCount = B p_netmap_snapshotCountKey.
Proof. reflexivity. Qed.
Lemma tie_k_snapshotCurrent : k_snapshotCurrent = B p_netmap_snapshotCurrentIDKey.
Proof. reflexivity. Qed.
Lemma tie_k_snapshotEpoch : k_snapshotEpoch = B p_netmap_snapshotEpoch.
Proof. reflexivity. Qed.
(** ... also as evaluated in _deploy's [prefix := []byte(snapshotKeyPrefix)] (both branches) *)
Lemma tie_p_snapshot :
  [B p_netmap_snapshotKeyPrefix; bytes_of_zs p_netmap__deploy_prefix; bytes_of_zs p_netmap__deploy_prefix_2]
  = repeat p_snapshot 3.
Proof. reflexivity. Qed.

(** netmap candidatePrefix = []byte("candidate"), configPrefix = []byte("config"),
    newEpochSubscribersPrefix = "e" *)
Lemma tie_p_candidate : p_candidate = bytes_of_zs p_netmap_candidatePrefix.
Proof. reflexivity. Qed.
Lemma tie_p_config : p_config = bytes_of_zs p_netmap_configPrefix.
Proof. reflexivity. Qed.
Lemma tie_p_subscribers : p_subscribers = B p_netmap_newEpochSubscribersPrefix.
Proof. reflexivity. Qed.

(** container eACLPrefix = []byte("eACL"), estimateKeyPrefix = "cnr" *)
Lemma tie_p_eacl : p_eacl = bytes_of_zs p_container_eACLPrefix.
Proof. reflexivity. Qed.
Lemma tie_p_estimate : p_estimate = B p_container_estimateKeyPrefix.
Proof. reflexivity. Qed.

(** balance accPrefix = 'a' *)
Lemma tie_acc_prefix : acc_prefix = byte_of_z p_balance_accPrefix.
Proof. reflexivity. Qed.

(** container containerKeyPrefix = 'x', ownerKeyPrefix = 'o' (also the key of ContainersOf) *)
Lemma tie_cnr_prefix : cnr_prefix = byte_of_z p_container_containerKeyPrefix.
Proof. reflexivity. Qed.
Lemma tie_owner_prefix : owner_prefix = byte_of_z p_container_ownerKeyPrefix.
Proof. reflexivity. Qed.
Lemma tie_owner_prefix_containers_of : [owner_prefix] = bytes_of_zs p_container_ContainersOf_key.
Proof. reflexivity. Qed.

(** nns prefixBalance, prefixAccountToken, prefixName, prefixRecord, prefixRoot, prefixTotalSupply *)
Lemma tie_nns_prefixes :
  [p_nns_balance; p_nns_acctoken; p_nns_name; p_nns_record; p_nns_root] =
  map byte_of_z [p_nns_prefixBalance; p_nns_prefixAccountToken; p_nns_prefixName;
                 p_nns_prefixRecord; p_nns_prefixRoot].
Proof. reflexivity. Qed.
Lemma tie_k_nns_supply :
  k_nns_supply = [byte_of_z p_nns_prefixTotalSupply] /\ k_nns_supply = bytes_of_zs p_nns_updateTotalSupply_tsKey.
Proof. split; reflexivity. Qed.

(** * Audit: [version < 17_000] -> switchToNotary (no vote purge), deletes
      notaryDisabledKey and "netmapScriptHash" *)
Definition s0_audit : store := legacy p_audit_switchToNotary_notaryDisabledKey [].
Lemma tie_deploy_audit :
  let gs := p_audit_deploy_version_gates in
  length gs = 1%nat /\
  map (fun v => dump (deploy_audit 0 BIG E0 [IInt v] s0_audit)) (probes gs) =
  map (fun v => Some (sdump (
         when (gate_holds (gate_at gs 0) v)
              (del (B p_audit_switchToNotary_notaryDisabledKey :: map B p_audit_switchToNotary_strlits))
              s0_audit))) (probes gs).
Proof. split; vm_compute; reflexivity. Qed.

(** * Reputation: [version < 17_000] -> switchToNotary: TryPurgeVotes, deletes notaryDisabledKey *)
Definition s0_reputation : store := legacy p_reputation_switchToNotary_notaryDisabledKey [].
Lemma tie_deploy_reputation :
  let gs := p_reputation_deploy_version_gates in
  length gs = 1%nat /\
  map (fun v => dump (deploy_reputation 0 BIG E0 [IInt v] s0_reputation)) (probes gs) =
  map (fun v => Some (sdump (
         when (gate_holds (gate_at gs 0) v)
              (del [B p_reputation_switchToNotary_notaryDisabledKey; B p_common_voteKey])
              s0_reputation))) (probes gs).
Proof. split; vm_compute; reflexivity. Qed.

(** * NeoFSID: [version < 17_000] -> switchToNotary (deletes notaryDisabledKey,
      "containerScriptHash", the ballots); [version < 19_000] -> deletes "netmapScriptHash" *)
Definition s0_neofsid : store := legacy p_neofsid_switchToNotary_notaryDisabledKey [].
Lemma tie_deploy_neofsid :
  let gs := p_neofsid_deploy_version_gates in
  length gs = 2%nat /\
  map (fun v => dump (deploy_neofsid 0 BIG E0 [IInt v] s0_neofsid)) (probes gs) =
  map (fun v => Some (sdump (
         when (gate_holds (gate_at gs 1) v) (del (map B p_neofsid__deploy_strlits))
        (when (gate_holds (gate_at gs 0) v)
              (del (B p_neofsid_switchToNotary_notaryDisabledKey :: B p_common_voteKey
                    :: map B p_neofsid_switchToNotary_strlits))
              s0_neofsid)))) (probes gs).
Proof. split; vm_compute; reflexivity. Qed.

(** * Balance: [version < 17_000] -> switchToNotary (deletes notaryDisabledKey,
      "netmapScriptHash", "containerScriptHash", the ballots); [version < 20_000] ->
      switchToAccPrefixes: keys of interop.Hash160Len (= 20, platform) bytes move
      under accPrefix, keys of 19 and 21 bytes stay. *)
Definition ACC : bytes := repeat 3%N 20.
Definition s0_balance : store :=
  legacy p_balance_switchToNotary_notaryDisabledKey
         [(ACC, [7%N]); (repeat 3%N 19, [8%N]); (repeat 3%N 21, [8%N])].
Lemma tie_deploy_balance :
  let gs := p_balance_deploy_version_gates in
  length gs = 2%nat /\
  map (fun v => dump (deploy_balance 0 BIG E0 [IInt v] s0_balance)) (probes gs) =
  map (fun v => Some (sdump (
         when (gate_holds (gate_at gs 1) v) (rekey (byte_of_z p_balance_accPrefix) [ACC])
        (when (gate_holds (gate_at gs 0) v)
              (del (B p_balance_switchToNotary_notaryDisabledKey :: B p_common_voteKey
                    :: map B p_balance_switchToNotary_strlits))
              s0_balance)))) (probes gs).
Proof. split; vm_compute; reflexivity. Qed.

(** ... the read API after the move: BalanceOf under accPrefix, the supply under [circulation]. *)
Lemma tie_balance_read :
  match deploy_balance 0 BIG E0 [IInt (snd (gate_at p_balance_deploy_version_gates 1) - 1)] s0_balance with
  | Halt s' => sget (byte_of_z p_balance_accPrefix :: ACC) s' = Some [7%N] /\ sget ACC s' = None /\
               total_supply s' = Some V1
  | Fault => False
  end.
Proof. vm_compute. auto. Qed.

(** * Container: the re-keying loop (every update): keys of containerIDSize bytes
      move under containerKeyPrefix, keys of 25 (owner id size, the second integer
      literal of _deploy) + containerIDSize bytes under ownerKeyPrefix, one byte
      less or more stays; [version < 17_000] -> switchToNotary (notaryDisabledKey,
      the ballots). *)
Definition CIDSZ : nat := Z.to_nat p_container_containerIDSize.
Definition OWNSZ : nat := Z.to_nat (lit p_container__deploy_intlits 1).
Definition CID : bytes := repeat 4%N CIDSZ.
Definition OWN : bytes := repeat 6%N OWNSZ.
Definition s0_container : store :=
  legacy p_container_switchToNotary_notaryDisabledKey
         [(CID, [7%N]); (repeat 4%N (CIDSZ - 1), [8%N]); (repeat 4%N (CIDSZ + 1), [8%N]);
          (OWN ++ CID, CID)%list; (OWN ++ repeat 4%N (CIDSZ - 1), [8%N])%list;
          (OWN ++ repeat 4%N (CIDSZ + 1), [8%N])%list].

(** the owner id size of the container contract is neofsid's ownerSize *)
Lemma tie_container_owner_size : lit p_container__deploy_intlits 1 = p_neofsid_ownerSize.
Proof. reflexivity. Qed.

Lemma tie_deploy_container :
  let gs := p_container_deploy_version_gates in
  length gs = 1%nat /\
  map (fun v => dump (deploy_container 0 BIG E0 [IInt v] s0_container)) (probes gs) =
  map (fun v => Some (sdump (
         when (gate_holds (gate_at gs 0) v)
              (del [B p_container_switchToNotary_notaryDisabledKey; B p_common_voteKey])
        (rekey (byte_of_z p_container_ownerKeyPrefix) [(OWN ++ CID)%list]
        (rekey (byte_of_z p_container_containerKeyPrefix) [CID] s0_container))))) (probes gs).
Proof. split; vm_compute; reflexivity. Qed.

(** ... the read API before (length filters 32 and 57 of cnr_all_old / cnr_owned_old)
    and after the move. *)
Lemma tie_container_read :
  cnr_all_old s0_container = [(CID, [7%N])] /\
  cnr_owned_old s0_container OWN = [((OWN ++ CID)%list, CID)] /\
  match migrate_container_keys s0_container with
  | Halt s' => cnr_all_new s' = [(CID, [7%N])] /\ cnr_owned_new s' OWN = [((OWN ++ CID)%list, CID)] /\
               cnr_get_new s' CID = Some [7%N] /\ cnr_get_old s' CID = None
  | Fault => False
  end.
Proof. vm_compute. auto 6. Qed.

(** * Netmap: [version < 16*1_000] -> snapshots [snapshotKeyPrefix ++ byte(i)], i <
      storage[snapshotCountKey], become []Node with State = nodestate.Online, the
      candidates under candidatePrefix lose one nesting level; [version < 17_000] ->
      switchToNotary (notaryDisabledKey, "innerring", the ballots); [version < 19_000]
      -> the hashes under balanceContractKey / containerContractKey become the
      subscribers newEpochSubscribersPrefix ++ byte(0) / byte(1) ++ hash (the
      literals 0 and 1: p_netmap__deploy_intlits at 6 and 7). *)
Definition BLOB : item := IBytes (repeat 4%N 40).
Definition snap (i : N) : bytes := (bytes_of_zs p_netmap__deploy_prefix ++ [i])%list.
Definition CAND : bytes := (bytes_of_zs p_netmap_candidatePrefix ++ repeat 2%N 33)%list.
Definition s0_netmap : store :=
  legacy p_netmap_switchToNotary_notaryDisabledKey
         [(B p_netmap_snapshotCountKey, [2%N]); (snap 0, ser (IArray []));
          (snap 1, ser (IArray [IStruct [BLOB]]));
          (snap 2, ser (IArray [IStruct [BLOB]]));      (* beyond the count: untouched *)
          (CAND, ser (IStruct [IStruct [BLOB]; IInt 3]))].
Definition subscriber (i : nat) (h : bytes) : bytes :=
  (B p_netmap_newEpochSubscribersPrefix ++ [byte_of_z (lit p_netmap__deploy_intlits i)] ++ h)%list.

Lemma tie_deploy_netmap :
  let gs := p_netmap_deploy_version_gates in
  length gs = 3%nat /\ length p_netmap__deploy_intlits = 19%nat /\
  map (fun v => dump (deploy_netmap 0 BIG E0 [IInt v] s0_netmap)) (probes gs) =
  map (fun v => Some (sdump (
         when (gate_holds (gate_at gs 2) v)
              (fun s => del [B p_netmap_balanceContractKey; B p_netmap_containerContractKey]
                            (<[subscriber 7 V1 := []]> (<[subscriber 6 V1 := []]> s)))
        (when (gate_holds (gate_at gs 1) v)
              (del (B p_netmap_switchToNotary_notaryDisabledKey :: B p_common_voteKey
                    :: map B p_netmap_switchToNotary_strlits))
        (when (gate_holds (gate_at gs 0) v)
              (fun s => <[CAND := ser (IStruct [BLOB; IInt 3])]>
                        (<[snap 1 := ser (IArray [IStruct [BLOB; IInt p_nodestate_Online]])]> s))
              s0_netmap))))) (probes gs).
Proof. split; [reflexivity|]. split; [reflexivity|]. vm_compute. reflexivity. Qed.

(** * NNS: [version >= 18_000] returns; below, every TLD (no '.' in the name: the
      third integer literal of _deploy) under prefixName loses its owner:
      updateBalance(ctx, name, owner, -1) (the fifth literal) and Owner = nil.
      getTokenKey's RIPEMD-160 is the identity here. *)
Definition DOT : N := byte_of_z (lit p_nns__deploy_intlits 2).
Definition TLD : bytes := [99; 111; 109]%N.
Definition SUB : bytes := ([97%N] ++ [DOT] ++ TLD)%list.
Definition HOLDER : bytes := repeat 8%N 20.
Definition name_state (owner : item) (name : bytes) : bytes :=
  ser (IStruct [owner; IBytes name; IInt 77; INull]).
Definition bal_key : bytes := byte_of_z p_nns_prefixBalance :: HOLDER.
Definition tok_key (name : bytes) : bytes := (byte_of_z p_nns_prefixAccountToken :: HOLDER ++ name)%list.
Definition s0_nns (bal : Z) : store :=
  of_list [([byte_of_z p_nns_prefixName; 1%N], name_state (IBytes HOLDER) TLD);
           ([byte_of_z p_nns_prefixName; 2%N], name_state (IBytes HOLDER) SUB);
           ([byte_of_z p_nns_prefixRecord; 1%N], name_state (IBytes HOLDER) TLD);  (* not under prefixName *)
           (bal_key, int_to_bytes bal); (tok_key TLD, TLD); (tok_key SUB, SUB)].
(** updateBalance: [balance += diff; if balance == 0 { Delete } else { Put }] *)
Definition nns_expected (bal : Z) (s : store) : store :=
  let nb := bal - lit p_nns__deploy_intlits 4 in
  let s1 := if nb =? lit p_nns_updateBalance_intlits 0 then sdel bal_key s else <[bal_key := int_to_bytes nb]> s in
  <[[byte_of_z p_nns_prefixName; 1%N] := name_state INull TLD]> (sdel (tok_key TLD) s1).

Lemma tie_deploy_nns :
  let gs := p_nns_deploy_version_gates in
  length gs = 1%nat /\ length p_nns__deploy_intlits = 6%nat /\ length p_nns_updateBalance_intlits = 2%nat /\
  map (fun bal =>
         map (fun v => dump (deploy_nns (fun x => x) 0 BIG E0 [IInt v] (s0_nns bal))) (probes gs)) [1; 5] =
  map (fun bal =>
         map (fun v => Some (sdump (when (negb (gate_holds (gate_at gs 0) v)) (nns_expected bal) (s0_nns bal))))
             (probes gs)) [1; 5].
Proof. split; [reflexivity|]. split; [reflexivity|]. split; [reflexivity|]. vm_compute. reflexivity. Qed.

(** '.' alone: [is_tld] refuses exactly the names containing that byte. *)
Lemma tie_is_tld_dot :
  map (fun c => is_tld [97%N; c]) (map N.of_nat (seq 0 256)) =
  map (fun c => negb (c =? DOT)%N) (map N.of_nat (seq 0 256)).
Proof. vm_compute. reflexivity. Qed.

(** * Alphabet: [version < 17_000] -> switchToNotary(ctx, args) with the GAS
      distribution.  args[3] = name, args[2] = proxy, args[1] = netmap (integer
      literals 0, 1, 3 of switchToNotary); currentGAS := balance * 3 / 4 (literals
      5, 6); the shares are the extracted expressions; blob[2:35] (literals 11, 12). *)
Lemma tie_notary_deposit_limit : notary_deposit_limit = p_alphabet_switchToNotary_notaryDepositLimit.
Proof. reflexivity. Qed.

Lemma tie_lock_interval : lock_interval = p_alphabet_switchToNotary_lockInterval.
Proof. reflexivity. Qed.

Definition AL : list Z := p_alphabet_switchToNotary_intlits.
Definition PROXY : bytes := repeat 5%N 20.
Definition NETMAP : bytes := repeat 6%N 20.
Definition IR1 : bytes := repeat 11%N 33.
Definition NODE_BLOB : bytes := map N.of_nat (seq 0 40).
Definition NODE_KEY : bytes :=
  firstn (Z.to_nat (lit AL 12 - lit AL 11)) (skipn (Z.to_nat (lit AL 11)) NODE_BLOB).
(** The deploy arguments, laid out by the literals of the source. *)
Definition alpha_args (netmap : bytes) (v : Z) : list item :=
  (map (fun i => if i =? lit AL 0 then IBytes [65%N]
                 else if i =? lit AL 1 then IBytes PROXY
                 else if i =? lit AL 3 then IBytes netmap
                 else INull) (map Z.of_nat (seq 0 5)) ++ [IInt v])%list.
Definition s0_alphabet : store :=
  <[B p_alphabet_netmapKey := NETMAP]> (legacy p_alphabet_switchToNotary_notaryDisabledKey []).
Definition alpha_env (gas : Z) : env :=
  env_alphabet 1000 gas NETMAP [IStruct [IBytes NODE_BLOB]] [IR1].
Definition alpha_run (netmap : bytes) (gas v : Z) : option (kvs * list (bytes * Z * option (bytes * Z))) :=
  match deploy_alphabet (fun k => Some k) 0 BIG (alpha_env gas) (alpha_args netmap v) s0_alphabet with
  | Halt (s, trs) => Some (sdump s, map (fun t => (tr_to t, tr_amount t, tr_data t)) trs)
  | Fault => None
  end.
(** What the source dictates: one inner ring node, one storage node. *)
Definition alpha_source (gas : Z) : list (bytes * Z * option (bytes * Z)) :=
  let cur := Z.quot (gas * lit AL 5) (lit AL 6) in
  let t1 := teval_quot (only "currentGAS" cur) no_var p_alphabet_switchToNotary_toTransfer_expr in
  let t2 := teval_quot (binds [("currentGAS"%string, cur); ("toTransfer"%string, t1)]) no_var
                       p_alphabet_switchToNotary_toTransfer_2_expr in
  let per := teval_quot (binds [("toTransfer"%string, t2); ("nNodes"%string, 2)]) no_var
                        p_alphabet_switchToNotary_perNodeGAS_expr in
  let pn0 := teval_quot (only "perNodeGAS" per) no_var p_alphabet_switchToNotary_perNodeGASNotary_expr in
  let pn := if pn0 >? p_alphabet_switchToNotary_notaryDepositLimit
            then p_alphabet_switchToNotary_notaryDepositLimit else pn0 in
  let till := 1000 + p_alphabet_switchToNotary_lockInterval in
  [(PROXY, t1, None);
   (IR1, per - pn, None); (notary_hash, pn, Some (IR1, till));
   (NODE_KEY, per - pn, None); (notary_hash, pn, Some (NODE_KEY, till))].
Definition alpha_store_after : store :=
  del [B p_alphabet_switchToNotary_notaryDisabledKey; B p_common_voteKey]
      (<[B p_alphabet_proxyKey := PROXY]> s0_alphabet).

(** The gate, the argument positions, the keys written and deleted. *)
Lemma tie_deploy_alphabet :
  let gs := p_alphabet_deploy_version_gates in
  length gs = 1%nat /\ length AL = 14%nat /\
  map (alpha_run NETMAP 1000) (probes gs) =
  map (fun v => if gate_holds (gate_at gs 0) v
                then Some (sdump alpha_store_after, alpha_source 1000)
                else Some (sdump s0_alphabet, [])) (probes gs).
Proof. split; [reflexivity|]. split; [reflexivity|]. vm_compute. reflexivity. Qed.

(** The shares, the notary deposit limit (reached from the fourth amount on), the lock interval. *)
Lemma tie_alphabet_shares :
  let v := snd (gate_at p_alphabet_deploy_version_gates 0) - 1 in
  map (fun g => alpha_run NETMAP g v) [16; 4801; 123456789; 64000000000; 100000000003] =
  map (fun g => Some (sdump alpha_store_after, alpha_source g)) [16; 4801; 123456789; 64000000000; 100000000003].
Proof. vm_compute. reflexivity. Qed.

(** An empty args[1]: the Netmap contract is read from storage under netmapKey. *)
Lemma tie_alphabet_netmap_key :
  let v := snd (gate_at p_alphabet_deploy_version_gates 0) - 1 in
  alpha_run [] 1000 v = Some (sdump alpha_store_after, alpha_source 1000).
Proof. vm_compute. reflexivity. Qed.

(** [storageNodes[i].blob[2:35]]: a blob shorter than the upper bound faults. *)
Lemma tie_node_keys :
  map (fun n => node_keys [IStruct [IBytes (firstn n NODE_BLOB)]])
      [Z.to_nat (lit AL 12) - 1; Z.to_nat (lit AL 12)]%nat = [Fault; Halt [NODE_KEY]].
Proof. vm_compute. reflexivity. Qed.

(** * neofs, processing, proxy: CheckVersion only.  No integer literal of the three
      _deploy bodies can be a version gate: a gate below PrevVersion is dead code
      (CheckVersion has refused such a version before). *)
Lemma tie_trivial_no_gate :
  p_neofs_deploy_version_gates = [] /\ p_processing_deploy_version_gates = [] /\
  p_proxy_deploy_version_gates = [] /\
  p_processing__deploy_intlits = [1] /\ p_proxy__deploy_intlits = [1] /\
  forallb (fun z => z <? p_common_PrevVersion) p_neofs__deploy_intlits = true.
Proof. do 5 (split; [reflexivity|]). reflexivity. Qed.

Lemma tie_deploy_trivial :
  map (fun v => dump (deploy_trivial real_prev real_version E0 [IInt v] s0_audit))
      [p_common_PrevVersion - 1; p_common_PrevVersion; p_common_Version - 1; p_common_Version]
  = [None; Some (sdump s0_audit); Some (sdump s0_audit); None].
Proof. vm_compute. reflexivity. Qed.

(** * Update -> Management.update -> _deploy(AppendVersion(data), true), at the
      real constants: the stored code's version must lie in [PrevVersion, Version)
      and becomes Version. *)
Definition MS (m : Z) (ks : list bytes) : bytes := Z.to_N m :: concat ks.
Definition K1 : bytes := [1%N].
Definition gate_env : env := env_basic 1000 [K1] [(0, [K1])] [MS 1 [K1]].
Definition upd (c : contract) (s : store) (vold : Z) : option (kvs * Z) :=
  match update MS (fun k => Some k) (fun x => x) real_prev real_version c gate_env true INull (mkC s vold) with
  | Halt st => Some (sdump (c_store st), c_version st)
  | Fault => None
  end.

Lemma tie_update_versions :
  map (fun c => map (upd c s0_audit)
                    [p_common_PrevVersion - 1; p_common_PrevVersion; p_common_Version - 1; p_common_Version])
      [CNeoFS; CProcessing; CProxy] =
  repeat [None; Some (sdump s0_audit, p_common_Version); Some (sdump s0_audit, p_common_Version); None] 3.
Proof. vm_compute. reflexivity. Qed.

(** The whole upgrade of Balance from PrevVersion: both migrations apply. *)
Lemma tie_update_balance_from_prev :
  upd CBalance s0_balance p_common_PrevVersion =
  Some (sdump (rekey (byte_of_z p_balance_accPrefix) [ACC]
                 (del (B p_balance_switchToNotary_notaryDisabledKey :: B p_common_voteKey
                       :: map B p_balance_switchToNotary_strlits) s0_balance)),
        p_common_Version).
Proof. vm_compute. reflexivity. Qed.

(** Model/MigStore.v contains no constant of /repo (see the header). *)
