(** Proofs/NetmapCand.v — the candidate operations of Model/Netmap.v refine
    the registry of Spec/NetmapSpec.v (C07), plus the one-step facts about
    them (state-only updates, removal from both lists, faults, double
    witness) and the frame facts used by the other Netmap proofs. *)
From Verif Require Import Base.Prelude Base.IntCodec Model.Netmap Spec.NetmapSpec.
From Coq Require Import ZifyBool ZifyNat ZifyN.
Local Open Scope Z_scope.

(** * Outcome monad inversion *)

Lemma obind_halt {A B} (o : outcome A) (f : A -> outcome B) b :
  obind o f = Halt b -> exists a, o = Halt a /\ f a = Halt b.
Proof. destruct o as [a|]; [|discriminate]. cbn. eauto. Qed.

Lemma oassert_halt b u : oassert b = Halt u -> b = true.
Proof. destruct b; [reflexivity|discriminate]. Qed.

Lemma oassert_true_bind {B} (b : bool) (k : unit -> outcome B) :
  b = true -> obind (oassert b) k = k tt.
Proof. intros ->. reflexivity. Qed.

Lemma oassert_false_bind {B} (b : bool) (k : unit -> outcome B) :
  b = false -> obind (oassert b) k = Fault.
Proof. intros ->. reflexivity. Qed.

(** Invert [H : obind o k = Halt r] step by step: assertions become boolean
    equations, other binds produce an equation for the intermediate result. *)
Lemma obind_oassert_halt {B} (b : bool) (k : unit -> outcome B) r :
  obind (oassert b) k = Halt r -> b = true /\ k tt = Halt r.
Proof. destruct b; [cbn; auto|discriminate]. Qed.

Ltac inv_ob H :=
  repeat (
    cbv zeta in H;
    match type of H with
    | obind (oassert ?b) _ = Halt _ =>
        let E := fresh "Ea" in
        apply obind_oassert_halt in H as [E H]
    | obind ?o _ = Halt _ =>
        let x := fresh "x" in let E := fresh "Eo" in
        destruct o as [x|] eqn:E; [cbn [obind] in H|discriminate H]
    end).

(** * Small facts *)

Lemma existsb_bytes x l : existsb (bytes_eqb x) l = true <-> x ∈ l.
Proof.
  rewrite existsb_exists. split.
  - intros (y & Hy & He). apply bytes_eqb_eq in He. subst. apply elem_of_list_In. exact Hy.
  - intros H. exists x. split; [apply elem_of_list_In; exact H|apply bytes_eqb_refl].
Qed.

Lemma pk_len_key_ok k : pk_len k = true -> key_ok 9 k = true /\ key_ok 1 k = true.
Proof. unfold pk_len, key_ok. intros H. apply Nat.eqb_eq in H. rewrite H. split; reflexivity. Qed.

Lemma key_ok_9_1 k : key_ok 9 k = true -> key_ok 1 k = true.
Proof. unfold key_ok. intros H. apply Nat.leb_le in H. apply Nat.leb_le. lia. Qed.

Lemma slice_info_key info : slice 2 33 info =
  match info_key info with Some k => Halt k | None => Fault end.
Proof.
  unfold slice, info_key. change (2 + 33)%nat with 35%nat.
  destruct (35 <=? length info)%nat; reflexivity.
Qed.

Lemma info_key_len info k : info_key info = Some k -> pk_len k = true.
Proof.
  unfold info_key, pk_len. destruct (Nat.leb_spec 35 (length info)) as [Hl|Hl]; [|discriminate].
  intros [= <-]. rewrite take_length, drop_length. apply Nat.eqb_eq. lia.
Qed.

Lemma bytes_eqb_sym a b : bytes_eqb a b = bytes_eqb b a.
Proof.
  destruct (bytes_eqb a b) eqn:E.
  - apply bytes_eqb_eq in E. subst. symmetry. apply bytes_eqb_refl.
  - apply bytes_eqb_neq in E. symmetry. apply bytes_eqb_neq. congruence.
Qed.

Lemma cs_upd_eq f k c : cs_upd f k c k = c.
Proof. unfold cs_upd. by rewrite bytes_eqb_refl. Qed.
Lemma cs_upd_ne f k c k' : k' <> k -> cs_upd f k c k' = f k'.
Proof. unfold cs_upd. intros H. apply bytes_eqb_neq in H. by rewrite H. Qed.

(** * The refinement, one step *)

  (** Everything except the two candidate maps. *)
  Definition same_but_cands (s s' : nstate) : Prop :=
    epoch s' = epoch s /\ eblock s' = eblock s /\ count s' = count s /\ cur s' = cur s /\
    ring s' = ring s /\ nodes2 s' = nodes2 s /\ subs s' = subs s /\ config s' = config s.

  Lemma same_but_cands_refl s : same_but_cands s s.
  Proof. repeat split. Qed.

  (** [updateCandidateState], successful: what it did. *)
  Lemma update_candidate_state_spec s k st s' ns :
    update_candidate_state s k st = Halt (s', ns) ->
    pk_len k = true /\ ns = [NUpdateState k st] /\ same_but_cands s s' /\
    ((st = Offline /\ cands s' = delete k (cands s) /\ cands2 s' = delete k (cands2 s)) \/
     ((st = Online \/ st = Maintenance) /\
      (is_Some (cands s !! k) \/ is_Some (cands2 s !! k)) /\
      cands s' = (match cands s !! k with
                  | Some n => <[k := mkNode (blob n) st]> (cands s) | None => cands s end) /\
      cands2 s' = (match cands2 s !! k with
                   | Some n => <[k := mkNode2 (n2addrs n) (n2attrs n) (n2key n) st]> (cands2 s)
                   | None => cands2 s end))).
  Proof.
    unfold update_candidate_state. intros H. inv_ob H. injection H as <- <-.
    split; [exact Ea|]. split; [reflexivity|].
    destruct (Z.eqb_spec st Offline) as [->|Hoff].
    - unfold remove_from_netmap in Eo. inv_ob Eo. injection Eo as <-.
      split; [repeat split|]. left. auto.
    - destruct ((st =? Online) || (st =? Maintenance)) eqn:Est; [|discriminate].
      unfold update_netmap_state in Eo.
      destruct (key_ok 9 k) eqn:E9; [|discriminate]. cbn [oassert obind] in Eo.
      rewrite (key_ok_9_1 _ E9) in Eo.
      destruct (cands s !! k) as [n1|] eqn:E1; destruct (cands2 s !! k) as [n2|] eqn:E2;
        cbn [set_cands cands2 oassert obind orb] in Eo; rewrite ?E2 in Eo;
        cbn [oassert obind orb] in Eo; try discriminate; injection Eo as <-;
        (split; [repeat split|]); right;
        (split; [lia|]); (split; [eauto|]); split; reflexivity.
  Qed.

  Lemma present_iff s f k : refines s f ->
    present (f k) = true <-> (is_Some (cands s !! k) \/ is_Some (cands2 s !! k)).
  Proof.
    intros R. destruct (R k) as [R1 R2]. rewrite R1, R2. unfold present.
    rewrite !fmap_is_Some.
    destruct (c_legacy (f k)), (c_struct (f k)); split; intros H; try reflexivity; eauto.
    - discriminate.
    - destruct H as [H|H]; by apply is_Some_None in H.
  Qed.

  (** The shared tail of UpdateState / UpdateStateIR for a 33-byte key. *)
  Lemma upd_refines s f k st : refines s f -> pk_len k = true ->
    let '(s', ok, ns) := match update_candidate_state s k st with
                         | Halt (s', ns) => (s', true, ns) | Fault => (s, false, []) end in
    refines s' (if st_ok f st k
                then (if st =? Offline then cs_upd f k no_cand else cs_upd f k (set_st st (f k)))
                else f) /\
    (true = true -> ok = st_ok f st k).
  Proof.
    intros R Hl. destruct (pk_len_key_ok _ Hl) as [H9 H1].
    destruct (update_candidate_state s k st) as [[s' ns]|] eqn:He.
    - apply update_candidate_state_spec in He as (_ & _ & _ & Hc).
      destruct Hc as [(-> & Hc1 & Hc2)|(Hst & Hp & Hc1 & Hc2)].
      + unfold st_ok. change (Offline =? Offline) with true. cbn [orb]. split; [|reflexivity].
        intros k'. rewrite Hc1, Hc2. destruct (decide (k' = k)) as [->|Hne].
        * rewrite !lookup_delete, cs_upd_eq. split; reflexivity.
        * rewrite !lookup_delete_ne by congruence. rewrite cs_upd_ne by exact Hne. apply R.
      + assert (Hpr : present (f k) = true) by (apply (present_iff s); assumption).
        assert (Hno : (st =? Offline) = false) by (unfold Offline, Online, Maintenance in *; lia).
        assert (Hso : st_ok f st k = true).
        { unfold st_ok. rewrite Hpr, Hno. unfold Online, Maintenance in *. destruct Hst as [->| ->]; reflexivity. }
        rewrite Hso, Hno. split; [|reflexivity].
        intros k'. rewrite Hc1, Hc2. destruct (R k) as [Rk1 Rk2].
        destruct (decide (k' = k)) as [->|Hne].
        * rewrite cs_upd_eq. unfold set_st. cbn [c_legacy c_struct]. split.
          -- rewrite Rk1. destruct (c_legacy (f k)) as [[b st0]|]; cbn; [|exact Rk1].
             by rewrite lookup_insert.
          -- rewrite Rk2. destruct (c_struct (f k)) as [[[a t] st0]|]; cbn; [|exact Rk2].
             by rewrite lookup_insert.
        * rewrite cs_upd_ne by exact Hne. destruct (R k') as [Rk1' Rk2']. split.
          -- destruct (cands s !! k); [rewrite lookup_insert_ne by congruence|]; exact Rk1'.
          -- destruct (cands2 s !! k); [rewrite lookup_insert_ne by congruence|]; exact Rk2'.
    - assert (Hso : st_ok f st k = false).
      { destruct (st_ok f st k) eqn:Hso; [|reflexivity]. exfalso. revert He.
        unfold st_ok in Hso. unfold update_candidate_state.
        destruct (st =? Offline) eqn:Hoff.
        - unfold remove_from_netmap. rewrite H9, H1, Hl. discriminate.
        - cbn [orb] in Hso. apply andb_true_iff in Hso as [Hst Hpr]. rewrite Hst.
          apply (present_iff s) in Hpr; [|exact R].
          unfold update_netmap_state. rewrite H9, H1. cbn [oassert obind].
          destruct (cands s !! k) as [n1|] eqn:E1; destruct (cands2 s !! k) as [n2|] eqn:E2;
            cbn [set_cands cands2 oassert obind orb]; rewrite ?E2; cbn [oassert obind orb];
            rewrite ?Hl; try discriminate.
          destruct Hpr as [[? ?]|[? ?]]; discriminate. }
      rewrite Hso. split; [exact R|reflexivity].
  Qed.

  (** Online / Maintenance on a key known to neither list, or a state
      outside {1,2,3}: fault. *)
  Lemma update_unknown_faults s k st :
    (st <> Offline /\ cands s !! k = None /\ cands2 s !! k = None) \/
    (st <> Online /\ st <> Offline /\ st <> Maintenance) ->
    update_candidate_state s k st = Fault.
  Proof.
    intros H. destruct (update_candidate_state s k st) as [[s' ns]|] eqn:He; [|reflexivity].
    exfalso. apply update_candidate_state_spec in He as (_ & _ & _ & Hc).
    destruct Hc as [(-> & _)|(Hst & Hp & _)].
    - destruct H as [(H & _)|(_ & H & _)]; congruence.
    - destruct H as [(_ & H1 & H2)|(H1 & _ & H3)]; [|destruct Hst; congruence].
      rewrite H1, H2 in Hp. destruct Hp as [Hp|Hp]; by apply is_Some_None in Hp.
  Qed.

Section Cand.
  Variable sub_ok : bytes -> bool.
  Variable sub_accepts : bytes -> Z -> bool.
  Notation nexec := (nexec sub_ok sub_accepts).
  Notation nstep := (nstep sub_ok sub_accepts).



  (** Operations that are not candidate operations do not touch the
      candidate maps. *)
  Lemma nexec_frame_cands c s o s' ns :
    nexec c s o = Halt (s', ns) -> is_cand_op o = false ->
    cands s' = cands s /\ cands2 s' = cands2 s.
  Proof.
    intros H Ho. destruct o; try discriminate Ho; cbn [nexec] in H.
    - (* NewEpoch *) inv_ob H. injection H as <- <-.
      unfold tick_state. cbv zeta.
      destruct (e >? count (fill_netmap (set_epoch s e (height c)) e)); split; reflexivity.
    - (* UpdateSnapshotCount *) inv_ob H. injection H as <- <-.
      unfold update_snapshot_count in Eo. inv_ob Eo. injection Eo as <-. split; reflexivity.
    - (* Subscribe *) inv_ob H. destruct x; [injection H as <- <-; split; reflexivity|].
      inv_ob H. injection H as <- <-. split; reflexivity.
    - (* SetConfig *) inv_ob H. injection H as <- <-. split; reflexivity.
  Qed.

  Lemma refines_lookup_ne (m : gmap bytes node) k k' v :
    k' <> k -> <[k := v]> m !! k' = m !! k'.
  Proof. intros. by rewrite lookup_insert_ne by congruence. Qed.


  (** One step of any operation: the outcome is the one the registry
      prescribes and the new state represents the new registry. *)
  Lemma nstep_refines s f co :
    refines s f ->
    let '(s', ok, ns) := nstep s co in
    refines s' (cs_step f co) /\
    (is_cand_op (snd co) = true -> ok = cs_ok (fst co) f (snd co)).
  Proof.
    intros R. destruct co as [c o]. unfold nstep, cs_step. cbn [fst snd].
    destruct (is_cand_op o) eqn:Hop.
    2:{ (* frame *)
      assert (Hk : cs_ok c f o = false) by (destruct o; try discriminate Hop; reflexivity).
      rewrite Hk. destruct (nexec c s o) as [[s' ns]|] eqn:He; [|split; [exact R|discriminate]].
      destruct (nexec_frame_cands _ _ _ _ _ He Hop) as [H1 H2].
      split; [|discriminate]. intros k. rewrite H1, H2. apply R. }
    destruct o; try discriminate Hop; cbn [nexec cs_ok cs_apply].
    - (* AddPeer *)
      rewrite slice_info_key. destruct (info_key info) as [k|] eqn:Ek; cbn [obind]; [|split; [exact R|reflexivity]].
      pose proof (info_key_len _ _ Ek) as Hl. destruct (pk_len_key_ok _ Hl) as [H9 _].
      destruct (check_witness c k); cbn [oassert obind andb]; [|split; [exact R|reflexivity]].
      destruct (alpha c); cbn [oassert obind]; [|split; [exact R|reflexivity]].
      unfold add_to_netmap. rewrite H9, Hl. cbn [oassert obind]. split; [|reflexivity].
      intros k'. cbn [cands cands2 set_cands]. destruct (decide (k' = k)) as [->|Hne].
      + rewrite lookup_insert, cs_upd_eq. cbn. split; [reflexivity|apply R].
      + rewrite lookup_insert_ne by congruence. rewrite cs_upd_ne by exact Hne. apply R.
    - (* AddPeerIR *)
      destruct (alpha c); cbn [oassert obind];
        [|destruct (info_key info); split; try exact R; reflexivity].
      rewrite slice_info_key. destruct (info_key info) as [k|] eqn:Ek; cbn [obind]; [|split; [exact R|reflexivity]].
      pose proof (info_key_len _ _ Ek) as Hl. destruct (pk_len_key_ok _ Hl) as [H9 _].
      unfold add_to_netmap. rewrite H9, Hl. cbn [oassert obind]. split; [|reflexivity].
      intros k'. cbn [cands cands2 set_cands]. destruct (decide (k' = k)) as [->|Hne].
      + rewrite lookup_insert, cs_upd_eq. cbn. split; [reflexivity|apply R].
      + rewrite lookup_insert_ne by congruence. rewrite cs_upd_ne by exact Hne. apply R.
    - (* AddNode *)
      destruct (n2st n =? Online) eqn:Est; cbn [oassert obind andb]; [|split; [exact R|reflexivity]].
      destruct (pk_len (n2key n)); cbn [oassert obind andb]; [|split; [exact R|reflexivity]].
      destruct (check_witness c (n2key n)); cbn [oassert obind andb]; [|split; [exact R|reflexivity]].
      destruct (alpha c); cbn [oassert obind]; [|split; [exact R|reflexivity]].
      split; [|reflexivity]. apply Z.eqb_eq in Est.
      intros k'. cbn [cands cands2 set_cands2]. destruct (decide (k' = n2key n)) as [->|Hne].
      + rewrite lookup_insert, cs_upd_eq. cbn. split; [apply R|].
        unfold struct_node. cbn. rewrite <- Est. by destruct n.
      + rewrite lookup_insert_ne by congruence. rewrite cs_upd_ne by exact Hne. apply R.
    - (* DeleteNode *)
      destruct (pk_len k) eqn:Hl; cbn [oassert obind andb]; [|split; [exact R|reflexivity]].
      destruct (alpha c); cbn [oassert obind]; [|split; [exact R|reflexivity]].
      destruct (pk_len_key_ok _ Hl) as [H9 H1].
      unfold update_candidate_state, remove_from_netmap. change (Offline =? Offline) with true.
      cbv iota. rewrite H9, H1, Hl. cbn [oassert obind]. split; [|reflexivity].
      intros k'. cbn [cands cands2 set_cands set_cands2]. destruct (decide (k' = k)) as [->|Hne].
      + rewrite !lookup_delete, cs_upd_eq. split; reflexivity.
      + rewrite !lookup_delete_ne by congruence. rewrite cs_upd_ne by exact Hne. apply R.
    - (* UpdateState *)
      destruct (pk_len k) eqn:Hl; cbn [oassert obind andb]; [|split; [exact R|reflexivity]].
      destruct (check_witness c k); cbn [oassert obind andb]; [|split; [exact R|reflexivity]].
      destruct (alpha c); cbn [oassert obind andb]; [|split; [exact R|reflexivity]].
      apply upd_refines; assumption.
    - (* UpdateStateIR *)
      destruct (alpha c); cbn [oassert obind andb];
        [|rewrite andb_false_r; split; [exact R|reflexivity]].
      rewrite andb_true_r. destruct (pk_len k) eqn:Hl; cbn [andb].
      + apply upd_refines; assumption.
      + (* not a public key: faults (at the latest in Notify) *)
        destruct (update_candidate_state s k st) as [[s' ns]|] eqn:He; [|split; [exact R|reflexivity]].
        apply update_candidate_state_spec in He as [He _]. congruence.
  Qed.

  (** Over histories. *)
  Lemma nrun_refines s f ops :
    refines s f -> refines (nrun_from sub_ok sub_accepts s ops) (fold_left cs_step ops f).
  Proof.
    revert s f. induction ops as [|co ops IH]; intros s f R; [exact R|].
    cbn [fold_left]. apply IH. unfold nstep_state.
    pose proof (nstep_refines s f co R) as H. destruct (nstep s co) as [[s' ok] ns]. apply H.
  Qed.

  Lemma ninit_refines cfg : refines (ninit cfg) cs_init.
  Proof. intros k. cbn. rewrite !lookup_empty. split; reflexivity. Qed.

  (** The three ways to reach [updateCandidateState]. *)
  Definition upd_target (o : nop) : option (Z * bytes) :=
    match o with
    | UpdateState st k | UpdateStateIR st k => Some (st, k)
    | DeleteNode k => Some (Offline, k)
    | _ => None
    end.

  Lemma nexec_upd_inv c s o st k s' ns :
    upd_target o = Some (st, k) -> nexec c s o = Halt (s', ns) ->
    update_candidate_state s k st = Halt (s', ns) /\ alpha c = true /\
    (forall st' k', o = UpdateState st' k' -> check_witness c k = true).
  Proof.
    intros Ht H. destruct o; try discriminate Ht; cbn in Ht; injection Ht as <- <-;
      cbn [nexec] in H; inv_ob H; (split; [exact H|]); (split; [assumption|]);
      intros st' k' [=]; subst; assumption.
  Qed.


  (** Malformed keys / infos fault where the code checks or slices. *)
  Lemma malformed_faults c s o :
    match o with
    | AddNode n => pk_len (n2key n) = false \/ n2st n <> Online
    | DeleteNode k | UpdateState _ k | UpdateStateIR _ k => pk_len k = false
    | AddPeer info | AddPeerIR info => (length info < 35)%nat
    | _ => False
    end -> nexec c s o = Fault.
  Proof.
    intros H. destruct (nexec c s o) as [[s' ns]|] eqn:He; [|reflexivity]. exfalso.
    destruct o; try contradiction; cbn [nexec] in He.
    - rewrite slice_info_key in He. unfold info_key in He.
      destruct (Nat.leb_spec 35 (length info)); [lia|discriminate].
    - inv_ob He. rewrite slice_info_key in Eo. unfold info_key in Eo.
      destruct (Nat.leb_spec 35 (length info)); [lia|discriminate].
    - inv_ob He. destruct H as [H|H]; [congruence|]. apply H. by apply Z.eqb_eq.
    - inv_ob He. congruence.
    - inv_ob He. congruence.
    - inv_ob He. apply update_candidate_state_spec in He as (Hl & _). congruence.
  Qed.

  (** Node-initiated requests need both witnesses. *)
  Lemma double_witness c s o s' ns :
    nexec c s o = Halt (s', ns) ->
    match o with
    | AddPeer info => exists k, info_key info = Some k /\ check_witness c k = true /\ alpha c = true
    | AddNode n => check_witness c (n2key n) = true /\ alpha c = true
    | UpdateState _ k => check_witness c k = true /\ alpha c = true
    | NewEpoch _ | AddPeerIR _ | DeleteNode _ | UpdateStateIR _ _
    | UpdateSnapshotCount _ | Subscribe _ | SetConfig _ _ => alpha c = true
    end.
  Proof.
    intros H. destruct o; cbn [nexec] in H.
    - inv_ob H. assumption.
    - rewrite slice_info_key in H. destruct (info_key info) as [k|] eqn:Ek; [|discriminate].
      cbn [obind] in H. inv_ob H. eauto.
    - inv_ob H. assumption.
    - inv_ob H. auto.
    - inv_ob H. assumption.
    - inv_ob H. auto.
    - inv_ob H. assumption.
    - inv_ob H. assumption.
    - inv_ob H. assumption.
    - inv_ob H. assumption.
  Qed.

  (** A fault (and only a fault) leaves [false]; then nothing changed. *)
  Lemma nstep_fault s co :
    nexec (fst co) s (snd co) = Fault -> nstep s co = (s, false, []).
  Proof. unfold nstep. intros ->. reflexivity. Qed.

  Lemma nstep_halt s co s' ns :
    nexec (fst co) s (snd co) = Halt (s', ns) -> nstep s co = (s', true, ns).
  Proof. unfold nstep. intros ->. reflexivity. Qed.

  Lemma nstep_false_inert s co s' ns : nstep s co = (s', false, ns) -> s' = s /\ ns = [].
  Proof.
    unfold nstep. destruct (nexec (fst co) s (snd co)) as [[s1 n1]|]; intros [=]; subst; auto.
  Qed.
End Cand.
