(** Proofs/DeployHelpers.v — lemmas about the pure helpers of /repo/deploy. *)
From Verif Require Import Base.Prelude Model.DeployHelpers.
From Coq Require Import ZifyBool ZifyNat ZifyN.
Local Open Scope Z_scope.

(** * divideFundsEvenly *)

(** Number of callback invocations. *)
Definition calls_of (q r : Z) (fuel : nat) : nat :=
  if q =? 0 then Nat.min (Z.to_nat r) fuel else fuel.

Lemma divide_loop_closed fuel : forall i q r,
  0 <= r -> 0 <= q -> (0 < r -> q + 1 < w64) ->
  divide_loop fuel i q r =
  map (fun j : nat => (i + Z.of_nat j, share_of q r (Z.of_nat j))) (seq 0 (calls_of q r fuel)).
Proof.
  induction fuel as [|fuel IH]; intros i q r Hr Hq Hov.
  - unfold calls_of. simpl. destruct (q =? 0); [rewrite Nat.min_0_r|]; reflexivity.
  - cbn [divide_loop]. destruct (0 <? r) eqn:Er.
    + assert (Hr' : 0 < r) by lia.
      rewrite IH by lia.
      assert (Hk : calls_of q r (S fuel) = S (calls_of q (r - 1) fuel)).
      { unfold calls_of. destruct (q =? 0); [|reflexivity]. cbv iota. lia. }
      rewrite Hk. rewrite <- cons_seq, <- seq_shift, map_cons, map_map.
      f_equal.
      * unfold share_of, u64. specialize (Hov Hr'). change (Z.of_nat 0) with 0.
        replace (0 <? r) with true by lia.
        rewrite (Z.mod_small (q + 1) w64) by lia. f_equal; lia.
      * apply map_ext. intros j. unfold share_of. f_equal; [lia|].
        destruct (Z.of_nat j <? r - 1) eqn:E1, (Z.of_nat (S j) <? r) eqn:E2; lia.
    + assert (r = 0) by lia. subst r.
      destruct (q =? 0) eqn:Eq.
      * unfold calls_of. rewrite Eq. reflexivity.
      * rewrite IH by lia.
        assert (Hk : calls_of q 0 (S fuel) = S (calls_of q 0 fuel)).
        { unfold calls_of. rewrite Eq. reflexivity. }
        rewrite Hk. rewrite <- cons_seq, <- seq_shift, map_cons, map_map.
        f_equal.
        -- unfold share_of. f_equal; lia.
        -- apply map_ext. intros j. unfold share_of. f_equal; [lia|].
           destruct (Z.of_nat j <? 0) eqn:E1, (Z.of_nat (S j) <? 0) eqn:E2; lia.
Qed.

(** Closed form of the whole function, for every uint64 amount and n >= 1. *)
Definition divide_spec (amount n : Z) : list (Z * Z) :=
  let q := amount / n in
  let r := amount mod n in
  map (fun j : nat => (Z.of_nat j, share_of q r (Z.of_nat j)))
      (seq 0 (calls_of q r (Z.to_nat n))).

Lemma divide_funds_spec amount n :
  0 <= amount < w64 -> 1 <= n < w64 ->
  divide_funds amount n = Halt (divide_spec amount n).
Proof.
  intros Ha Hn. unfold divide_funds, divide_spec.
  replace (n =? 0) with false by lia.
  unfold u64. rewrite (Z.mod_small n) by lia.
  assert (Hq : 0 <= amount / n) by (apply Z.div_pos; lia).
  assert (Hr : 0 <= amount mod n < n) by (apply Z.mod_pos_bound; lia).
  assert (Hle : amount / n <= amount) by (apply Z.div_le_upper_bound; nia).
  rewrite divide_loop_closed; [reflexivity|lia|lia|].
  intros Hpos. assert (amount / n < amount \/ amount / n + 1 < w64) as [H|H]; [|lia|lia].
  pose proof (Z.div_mod amount n ltac:(lia)) as Hdm. left. nia.
Qed.

Lemma divide_closed_spec amount n :
  0 <= amount -> 1 <= n -> divide_closed amount n = divide_spec amount n.
Proof.
  intros Ha Hn. unfold divide_closed, divide_spec. cbv zeta. f_equal. f_equal.
  assert (Hr : 0 <= amount mod n < n) by (apply Z.mod_pos_bound; lia).
  unfold calls_of. destruct (amount / n =? 0); lia.
Qed.

Lemma divide_funds_closed amount n :
  0 <= amount < w64 -> 1 <= n < w64 ->
  divide_funds amount n = Halt (divide_closed amount n).
Proof.
  intros Ha Hn. rewrite divide_closed_spec by lia. apply divide_funds_spec; assumption.
Qed.

Definition zsum (l : list Z) : Z := fold_right Z.add 0 l.

Lemma zsum_shares q r : forall k,
  0 <= r ->
  zsum (map (fun j : nat => share_of q r (Z.of_nat j)) (seq 0 k)) =
  Z.of_nat k * q + Z.min r (Z.of_nat k).
Proof.
  induction k as [|k IH]; intros Hr; [simpl; lia|].
  rewrite seq_S, map_app. simpl. unfold zsum in *.
  rewrite fold_right_app. simpl.
  assert (Hgen : forall (l : list Z) a, fold_right Z.add a l = fold_right Z.add 0 l + a).
  { induction l as [|x l IHl]; intros a; simpl; [lia|]. rewrite IHl. lia. }
  rewrite Hgen, IH by lia. unfold share_of.
  destruct (Z.of_nat k <? r) eqn:E; lia.
Qed.

Lemma divide_spec_sum amount n :
  0 <= amount -> 1 <= n -> zsum (map snd (divide_spec amount n)) = amount.
Proof.
  intros Ha Hn. unfold divide_spec. cbv zeta. rewrite map_map. cbn [snd].
  assert (Hq : 0 <= amount / n) by (apply Z.div_pos; lia).
  assert (Hr : 0 <= amount mod n < n) by (apply Z.mod_pos_bound; lia).
  rewrite zsum_shares by lia.
  pose proof (Z.div_mod amount n ltac:(lia)) as Hdm.
  unfold calls_of. destruct (amount / n =? 0) eqn:Eq.
  - assert (amount / n = 0) as -> by lia. lia.
  - rewrite Z2Nat.id by lia. nia.
Qed.

Lemma divide_spec_length amount n :
  0 <= amount -> 1 <= n ->
  Z.of_nat (length (divide_spec amount n)) = Z.min amount n.
Proof.
  intros Ha Hn. unfold divide_spec. cbv zeta. rewrite map_length, seq_length.
  assert (Hq : 0 <= amount / n) by (apply Z.div_pos; lia).
  assert (Hr : 0 <= amount mod n < n) by (apply Z.mod_pos_bound; lia).
  pose proof (Z.div_mod amount n ltac:(lia)) as Hdm.
  unfold calls_of. destruct (amount / n =? 0) eqn:Eq.
  - assert (E0 : amount / n = 0) by lia. rewrite E0 in Hdm. lia.
  - assert (n <= amount) by nia. lia.
Qed.

Lemma divide_spec_fst amount n :
  map fst (divide_spec amount n) = map Z.of_nat (seq 0 (length (divide_spec amount n))).
Proof.
  unfold divide_spec. cbv zeta. rewrite map_length, seq_length, map_map. reflexivity.
Qed.

(** The share of receiver [i]: what the callback handed to index [i], 0 when
    the callback was not invoked for [i]. *)
Definition share (l : list (Z * Z)) (i : Z) : Z :=
  match find (fun p => fst p =? i) l with
  | Some p => snd p
  | None => 0
  end.

Lemma find_map_seq (f : nat -> Z) (i : nat) : forall k s,
  find (fun p : Z * Z => fst p =? Z.of_nat i) (map (fun j : nat => (Z.of_nat j, f j)) (seq s k)) =
  if ((s <=? i)%nat && (i <? s + k)%nat)%bool then Some (Z.of_nat i, f i) else None.
Proof.
  induction k as [|k IH]; intros s.
  - simpl. destruct (s <=? i)%nat eqn:E1, (i <? s + 0)%nat eqn:E2; simpl; try reflexivity. lia.
  - cbn [seq map find fst]. destruct (Z.of_nat s =? Z.of_nat i) eqn:E.
    + assert (s = i) by lia. subst s.
      replace ((i <=? i)%nat && (i <? i + S k)%nat)%bool with true by lia. reflexivity.
    + rewrite IH.
      destruct (s <=? i)%nat eqn:E1, (S s <=? i)%nat eqn:E2,
        (i <? S s + k)%nat eqn:E3, (i <? s + S k)%nat eqn:E4; simpl; try reflexivity; lia.
Qed.

Lemma divide_spec_share amount n i :
  0 <= amount -> 1 <= n -> 0 <= i ->
  share (divide_spec amount n) i =
  if i <? Z.min amount n then share_of (amount / n) (amount mod n) i else 0.
Proof.
  intros Ha Hn Hi. unfold share.
  pose proof (divide_spec_length amount n Ha Hn) as Hlen.
  unfold divide_spec in *. cbv zeta in *. rewrite map_length, seq_length in Hlen.
  assert (Ei : i = Z.of_nat (Z.to_nat i)) by lia. revert Ei.
  generalize (Z.to_nat i). intros k ->.
  rewrite (find_map_seq (fun j => share_of (amount / n) (amount mod n) (Z.of_nat j))).
  simpl (0 <=? _)%nat. cbn [andb].
  destruct (k <? 0 + calls_of (amount / n) (amount mod n) (Z.to_nat n))%nat eqn:E1,
    (Z.of_nat k <? Z.min amount n) eqn:E2; try lia; reflexivity.
Qed.

Lemma divide_spec_balanced amount n i j :
  0 <= amount -> 1 <= n -> 0 <= i < n -> 0 <= j < n ->
  Z.abs (share (divide_spec amount n) i - share (divide_spec amount n) j) <= 1.
Proof.
  intros Ha Hn Hi Hj. rewrite !divide_spec_share by lia.
  assert (Hq : 0 <= amount / n) by (apply Z.div_pos; lia).
  assert (Hr : 0 <= amount mod n < n) by (apply Z.mod_pos_bound; lia).
  pose proof (Z.div_mod amount n ltac:(lia)) as Hdm.
  unfold share_of.
  destruct (Z.le_gt_cases n amount) as [Hge|Hlt].
  - rewrite Z.min_r by lia.
    replace (i <? n) with true by lia. replace (j <? n) with true by lia.
    destruct (i <? amount mod n), (j <? amount mod n); lia.
  - assert (E0 : amount / n = 0) by (apply Z.div_small; lia).
    rewrite E0 in *. rewrite Z.min_l by lia.
    assert (amount mod n = amount) as -> by lia.
    destruct (i <? amount), (j <? amount); lia.
Qed.

Lemma divide_spec_amounts amount n p :
  0 <= amount < w64 -> 1 <= n -> In p (divide_spec amount n) -> 0 < snd p <= amount.
Proof.
  intros Ha Hn Hin. unfold divide_spec in Hin. cbv zeta in Hin.
  apply in_map_iff in Hin as (j & <- & Hj). apply in_seq in Hj. cbn [snd].
  assert (Hq : 0 <= amount / n) by (apply Z.div_pos; lia).
  assert (Hr : 0 <= amount mod n < n) by (apply Z.mod_pos_bound; lia).
  pose proof (Z.div_mod amount n ltac:(lia)) as Hdm.
  unfold share_of, calls_of in *.
  destruct (amount / n =? 0) eqn:Eq.
  - assert (E0 : amount / n = 0) by lia. rewrite E0 in *.
    replace (Z.of_nat j <? amount mod n) with true by lia. lia.
  - destruct (Z.of_nat j <? amount mod n) eqn:E; nia.
Qed.

(** * Nonce / ValidUntilBlock window *)

Lemma tx_modifier_fault h : tx_modifier false h = None.
Proof. reflexivity. Qed.

Lemma tx_modifier_spec h :
  0 <= h < w32 ->
  exists nonce vub, tx_modifier true h = Some (nonce, vub) /\
    nonce = 100 * (h / 100) /\
    0 <= nonce <= h /\ h <= vub < w32 /\
    (h < max_u32 -> h < vub) /\
    (nonce < max_u32 - 100 -> vub = nonce + 100) /\
    (max_u32 - 100 <= nonce -> vub = max_u32).
Proof.
  intros Hh. unfold tx_modifier, window_span, u32, max_u32, w32 in *. cbn [negb].
  pose proof (Z.div_mod h 100 ltac:(lia)) as Hdm.
  pose proof (Z.mod_pos_bound h 100 ltac:(lia)) as Hm.
  assert (Hn : 0 <= h / 100 * 100 <= h) by lia.
  rewrite (Z.mod_small (h / 100 * 100)) by lia.
  destruct (h / 100 * 100 <? 4294967295 - 100) eqn:E.
  - rewrite Z.mod_small by lia. eexists _, _. split; [reflexivity|]. lia.
  - eexists _, _. split; [reflexivity|]. lia.
Qed.

Lemma tx_modifier_window_det h1 h2 :
  h1 / 100 = h2 / 100 -> tx_modifier true h1 = tx_modifier true h2.
Proof. intros E. unfold tx_modifier, window_span. rewrite E. reflexivity. Qed.

(** * sharedTransactionData codec *)

Definition byte_list (b : bytes) : Prop := Forall (fun x => (x < 256)%N) b.

Definition wf_shared (x : shared) : Prop :=
  length (sh_sender x) = uint160_size /\ 0 <= sh_vub x < w32 /\ 0 <= sh_nonce x < w32.

Lemma be32_length z : length (be32 z) = 4%nat.
Proof. reflexivity. Qed.

Lemma be32_dec_be32 z : 0 <= z < w32 -> be32_dec (be32 z) = z.
Proof.
  intros Hz. unfold be32_dec, be32, w32 in *.
  rewrite !Z2N.id by (apply Z.mod_pos_bound; lia).
  pose proof (Z.div_mod z 256 ltac:(lia)).
  pose proof (Z.div_mod (z / 256) 256 ltac:(lia)).
  pose proof (Z.div_mod (z / 256 / 256) 256 ltac:(lia)).
  replace (z / 65536) with (z / 256 / 256) by (rewrite Z.div_div by lia; reflexivity).
  replace (z / 16777216) with (z / 256 / 256 / 256) by (rewrite !Z.div_div by lia; reflexivity).
  assert (z / 256 / 256 / 256 < 256) by (rewrite !Z.div_div by lia; apply Z.div_lt_upper_bound; lia).
  assert (0 <= z / 256 / 256 / 256) by (rewrite !Z.div_div by lia; apply Z.div_pos; lia).
  rewrite (Z.mod_small (z / 256 / 256 / 256) 256) by lia. lia.
Qed.

Lemma be32_dec_app z rest : be32_dec (be32 z ++ rest) = be32_dec (be32 z).
Proof. reflexivity. Qed.

Lemma be32_be32_dec b0 b1 b2 b3 rest :
  (b0 < 256)%N -> (b1 < 256)%N -> (b2 < 256)%N -> (b3 < 256)%N ->
  be32 (be32_dec (b0 :: b1 :: b2 :: b3 :: rest)) = [b0; b1; b2; b3].
Proof.
  intros H0 H1 H2 H3. unfold be32, be32_dec.
  set (z := Z.of_N b0 * 16777216 + Z.of_N b1 * 65536 + Z.of_N b2 * 256 + Z.of_N b3).
  assert (E3 : z mod 256 = Z.of_N b3).
  { symmetry. apply (Z.mod_unique_pos _ _ (Z.of_N b0 * 65536 + Z.of_N b1 * 256 + Z.of_N b2)); lia. }
  assert (E2 : z / 256 mod 256 = Z.of_N b2).
  { assert (z / 256 = Z.of_N b0 * 65536 + Z.of_N b1 * 256 + Z.of_N b2) as ->.
    { symmetry. apply (Z.div_unique_pos _ _ _ (Z.of_N b3)); lia. }
    symmetry. apply (Z.mod_unique_pos _ _ (Z.of_N b0 * 256 + Z.of_N b1)); lia. }
  assert (E1 : z / 65536 mod 256 = Z.of_N b1).
  { assert (z / 65536 = Z.of_N b0 * 256 + Z.of_N b1) as ->.
    { symmetry. apply (Z.div_unique_pos _ _ _ (Z.of_N b2 * 256 + Z.of_N b3)); lia. }
    symmetry. apply (Z.mod_unique_pos _ _ (Z.of_N b0)); lia. }
  assert (E0 : z / 16777216 mod 256 = Z.of_N b0).
  { assert (z / 16777216 = Z.of_N b0) as ->.
    { symmetry. apply (Z.div_unique_pos _ _ _ (Z.of_N b1 * 65536 + Z.of_N b2 * 256 + Z.of_N b3)); lia. }
    apply Z.mod_small. lia. }
  rewrite E0, E1, E2, E3, !N2Z.id. reflexivity.
Qed.

Lemma shared_bytes_length x :
  length (sh_sender x) = uint160_size -> length (shared_bytes x) = shared_len.
Proof. intros H. unfold shared_bytes. rewrite !app_length, H. reflexivity. Qed.

Lemma shared_decode_bytes x : wf_shared x -> shared_decode (shared_bytes x) = Some x.
Proof.
  intros (Hs & Hv & Hn). unfold shared_decode.
  rewrite (shared_bytes_length x Hs). cbn [Nat.eqb shared_len negb].
  unfold shared_bytes. destruct x as [s v n]. cbn [sh_sender sh_vub sh_nonce] in *.
  rewrite take_app_alt by (symmetry; exact Hs).
  rewrite drop_app_alt by (symmetry; exact Hs).
  replace (uint160_size + 4)%nat with (length (s ++ be32 v)) by (rewrite app_length, Hs; reflexivity).
  rewrite (app_assoc s (be32 v) (be32 n)), drop_app.
  rewrite be32_dec_app, !be32_dec_be32 by assumption. reflexivity.
Qed.

Lemma shared_decode_length b : length b <> shared_len -> shared_decode b = None.
Proof.
  intros H. unfold shared_decode.
  destruct (Nat.eqb_spec (length b) shared_len) as [E|E]; [contradiction|reflexivity].
Qed.

Lemma shared_decode_Some b x :
  shared_decode b = Some x -> length b = shared_len /\ length (sh_sender x) = uint160_size.
Proof.
  unfold shared_decode. destruct (Nat.eqb_spec (length b) shared_len) as [E|E]; [|discriminate].
  cbn [negb]. intros [= <-]. split; [exact E|]. cbn [sh_sender].
  rewrite take_length. unfold shared_len, uint160_size in *. lia.
Qed.

(** [decode] is injective on byte strings: it has a left inverse. *)
Lemma shared_bytes_decode b x :
  byte_list b -> shared_decode b = Some x -> shared_bytes x = b /\ wf_shared x.
Proof.
  intros Hb Hd. pose proof (shared_decode_Some b x Hd) as [Hl _].
  do 28 (destruct b as [|? b]; [discriminate Hl|]). destruct b; [|discriminate Hl].
  unfold shared_decode in Hd. cbn [length Nat.eqb shared_len negb] in Hd. injection Hd as <-.
  unfold byte_list in Hb.
  repeat match goal with H : Forall _ (_ :: _) |- _ => apply Forall_cons_1 in H as [? H] end.
  split.
  - unfold shared_bytes. cbn [sh_sender sh_vub sh_nonce take drop uint160_size Nat.add].
    cbn [firstn skipn].
    repeat match goal with
    | |- context [be32 (Z.of_N ?a * 16777216 + Z.of_N ?b * 65536 + Z.of_N ?c * 256 + Z.of_N ?d)] =>
        change (Z.of_N a * 16777216 + Z.of_N b * 65536 + Z.of_N c * 256 + Z.of_N d)
          with (be32_dec [a; b; c; d]);
        rewrite (be32_be32_dec a b c d []) by assumption
    end. reflexivity.
  - unfold wf_shared. cbn [sh_sender sh_vub sh_nonce take drop uint160_size Nat.add firstn skipn].
    split; [reflexivity|]. unfold be32_dec, w32. lia.
Qed.

(** * Checksum *)

Lemma sha256_length m : length (sha256 m) = 32%nat.
Proof.
  unfold sha256. destruct (sha_blocks _ _ _) as [[[[[[[a b] c] d] e] f] g] h].
  rewrite !app_length, !be32_length. reflexivity.
Qed.

Lemma shared_checksum_length x : length (shared_checksum x) = checksum_len.
Proof. unfold shared_checksum. rewrite take_length, sha256_length. reflexivity. Qed.

Lemma is_prefix_refl_app p r : is_prefix p (p ++ r) = true.
Proof. apply is_prefix_app. eauto. Qed.

Lemma shift_unshift x d : shift_checksum x (unshift_checksum x d) = (true, d).
Proof.
  unfold shift_checksum, unshift_checksum.
  pose proof (shared_checksum_length x) as Hl.
  rewrite app_length, Hl.
  replace (checksum_len + length d <? checksum_len)%nat with false by lia.
  rewrite is_prefix_refl_app. cbn [negb].
  rewrite drop_app_alt by (symmetry; exact Hl). reflexivity.
Qed.

Lemma shift_true x data p :
  shift_checksum x data = (true, p) -> data = unshift_checksum x p.
Proof.
  unfold shift_checksum, unshift_checksum.
  destruct (length data <? checksum_len)%nat; [discriminate|].
  destruct (is_prefix (shared_checksum x) data) eqn:E; cbn [negb]; [|discriminate].
  intros [= <-]. apply is_prefix_app in E as [r ->].
  rewrite drop_app_alt by (symmetry; apply shared_checksum_length). reflexivity.
Qed.

Lemma shift_short x data :
  (length data < checksum_len)%nat -> shift_checksum x data = (false, data).
Proof.
  intros H. unfold shift_checksum.
  replace (length data <? checksum_len)%nat with true by lia. reflexivity.
Qed.

Lemma shift_false_long x data :
  (checksum_len <= length data)%nat ->
  fst (shift_checksum x data) = false -> shift_checksum x data = (false, []) /\
  take checksum_len data <> shared_checksum x.
Proof.
  intros Hl. unfold shift_checksum.
  replace (length data <? checksum_len)%nat with false by lia.
  destruct (is_prefix (shared_checksum x) data) eqn:E; cbn [negb fst]; [discriminate|].
  intros _. split; [reflexivity|]. intros Heq.
  assert (is_prefix (shared_checksum x) data = true); [|congruence].
  apply is_prefix_app. exists (drop checksum_len data).
  rewrite <- Heq. symmetry. apply take_drop.
Qed.
