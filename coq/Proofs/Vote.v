(** Proofs/Vote.v — lemmas about Model/Vote.v and Model/NeoFSVote.v used by
    Props/C17.v.  The abstract tally and the vocabulary are in Spec/Tally.v. *)
From Verif Require Import Base.Prelude Base.IntCodec Model.Vote Model.NeoFSVote Spec.Tally.
From Coq Require Import ZifyBool ZifyNat.
Local Open Scope Z_scope.

(** * 1. Threshold arithmetic *)

Lemma thr_bounds n : 1 <= n -> 1 <= thr n <= n /\ n < 2 * thr n /\ n / 2 < thr n.
Proof. unfold thr. intros Hn. Z.div_mod_to_equations. lia. Qed.

Lemma thr_one n : 0 <= n -> thr n <= 1 -> n <= 1.
Proof. unfold thr. intros Hn H. Z.div_mod_to_equations. lia. Qed.

Lemma threshold_thr a : threshold a = thr (Z.of_nat (length a)).
Proof. unfold threshold, thr. f_equal. f_equal. lia. Qed.

(** Two lists without repetition drawn from a list of [n] entries whose
    lengths add up to more than [n] share an element. *)
Lemma lists_intersect (A l1 l2 : list bytes) :
  NoDup l1 -> NoDup l2 -> l1 ⊆ A -> l2 ⊆ A ->
  (length A < length l1 + length l2)%nat -> exists k, k ∈ l1 /\ k ∈ l2.
Proof.
  intros N1 N2 S1 S2 Hlen.
  destruct (decide (Exists (fun k => k ∈ l2) l1)) as [He|Hn].
  - apply Exists_exists in He. exact He.
  - exfalso. rewrite <- Forall_Exists_neg, Forall_forall in Hn.
    assert (Hnd : NoDup (l1 ++ l2)).
    { apply NoDup_app. split; [exact N1|]. split; [|exact N2]. intros x Hx. exact (Hn x Hx). }
    assert (Hsub : l1 ++ l2 ⊆+ A).
    { apply NoDup_submseteq; [exact Hnd|]. intros x Hx. apply elem_of_app in Hx as [Hx|Hx]; auto. }
    apply submseteq_length in Hsub. rewrite app_length in Hsub. lia.
Qed.

(** * 2. Lists of ballots *)

Lemma existsb_bytes x l : existsb (bytes_eqb x) l = true <-> x ∈ l.
Proof.
  rewrite existsb_exists. split.
  - intros (y & Hy & He). apply bytes_eqb_eq in He. subst. apply elem_of_list_In. exact Hy.
  - intros H. exists x. split; [apply elem_of_list_In; exact H|apply bytes_eqb_refl].
Qed.

Lemma existsb_bytes_false x l : existsb (bytes_eqb x) l = false <-> x ∉ l.
Proof. rewrite <- existsb_bytes. destruct (existsb (bytes_eqb x) l); split; congruence. Qed.

Lemma find_id_cons i b l :
  find_id i (b :: l) = if bytes_eqb (bid b) i then Some b else find_id i l.
Proof. reflexivity. Qed.

Lemma find_id_some i l b : find_id i l = Some b -> b ∈ l /\ bid b = i.
Proof.
  unfold find_id. intros H. apply find_some in H as [H1 H2].
  apply bytes_eqb_eq in H2. split; [apply elem_of_list_In; exact H1|exact H2].
Qed.

Lemma find_id_none i l : find_id i l = None <-> i ∉ map bid l.
Proof.
  induction l as [|b l IH]; [split; [intros _; apply not_elem_of_nil|reflexivity]|].
  rewrite find_id_cons. cbn [map]. rewrite not_elem_of_cons.
  destruct (bytes_eqb (bid b) i) eqn:E.
  - apply bytes_eqb_eq in E. split; [discriminate|]. intros [H _]. congruence.
  - apply bytes_eqb_neq in E. rewrite IH. split; [intros H; split; [congruence|exact H]|tauto].
Qed.

Lemma find_id_unique i l b : NoDup (map bid l) -> b ∈ l -> bid b = i -> find_id i l = Some b.
Proof.
  induction l as [|c l IH]; intros Hnd Hin Hb; [inversion Hin|].
  cbn [map] in Hnd. apply NoDup_cons in Hnd as [Hc Hnd].
  rewrite find_id_cons. apply elem_of_cons in Hin as [->|Hin].
  - subst i. rewrite bytes_eqb_refl. reflexivity.
  - destruct (bytes_eqb (bid c) i) eqn:E; [|auto].
    apply bytes_eqb_eq in E. exfalso. apply Hc. rewrite E, <- Hb.
    apply elem_of_list_fmap. exists b. auto.
Qed.

(** Freshness on stored ballots. *)
Definition live_b (h : Z) (ob : option ballot) : option ballot :=
  match ob with
  | Some b => if expired h b then None else Some b
  | None => None
  end.

Lemma live_b_idem h ob : live_b h (live_b h ob) = live_b h ob.
Proof. destruct ob as [b|]; [|reflexivity]. cbn. destruct (expired h b) eqn:E; cbn; [reflexivity|]. rewrite E. reflexivity. Qed.

Definition tally_of (b : ballot) : tally := mkTally (voters b) (bheight b).

Lemma abs_box_find bs i : abs_box bs i = option_map tally_of (find_id i bs).
Proof. unfold abs_box. destruct (find_id i bs); reflexivity. Qed.

Lemma tprune_abs h bs i :
  tprune h (abs_box bs i) = option_map tally_of (live_b h (find_id i bs)).
Proof.
  rewrite abs_box_find. destruct (find_id i bs) as [b|]; [|reflexivity].
  cbn. unfold expired, block_diff. destruct (h - bheight b >? 20); reflexivity.
Qed.

(** * 3. [Vote] *)

(** Where the new list comes from, ballot by ballot (no premise). *)
Lemma vote_loop_elems id from h bs found nc f :
  vote_loop id from h bs found = inr (nc, f) ->
  forall b, b ∈ nc ->
    (b ∈ bs /\ expired h b = false /\ bid b <> id) \/
    (exists cnd, cnd ∈ bs /\ expired h cnd = false /\ bid cnd = id /\
                 from ∉ voters cnd /\ b = mkBallot id (voters cnd ++ [from]) h).
Proof.
  revert found nc f. induction bs as [|cnd rest IH]; intros found nc f H b Hb.
  - cbn in H. injection H as <- <-. inversion Hb.
  - cbn [vote_loop] in H. destruct (expired h cnd) eqn:Ee.
    + destruct (IH _ _ _ H b Hb) as [(H1 & H2 & H3)|(c & H1 & H2)].
      * left. split; [apply elem_of_cons; auto|auto].
      * right. exists c. split; [apply elem_of_cons; auto|exact H2].
    + destruct (bytes_eqb (bid cnd) id) eqn:Ei.
      * destruct (existsb (bytes_eqb from) (voters cnd)) eqn:Ex; [discriminate|].
        destruct (vote_loop id from h rest _) as [n|[nc' f']] eqn:El; [discriminate|].
        injection H as <- <-. apply elem_of_cons in Hb as [->|Hb].
        -- right. exists cnd. apply bytes_eqb_eq in Ei. apply existsb_bytes_false in Ex.
           split; [apply elem_of_cons; auto|auto].
        -- destruct (IH _ _ _ El b Hb) as [(H1 & H2 & H3)|(c & H1 & H2)].
           ++ left. split; [apply elem_of_cons; auto|auto].
           ++ right. exists c. split; [apply elem_of_cons; auto|exact H2].
      * destruct (vote_loop id from h rest found) as [n|[nc' f']] eqn:El; [discriminate|].
        injection H as <- <-. apply elem_of_cons in Hb as [->|Hb].
        -- left. apply bytes_eqb_neq in Ei. split; [apply elem_of_cons; auto|auto].
        -- destruct (IH _ _ _ El b Hb) as [(H1 & H2 & H3)|(c & H1 & H2)].
           ++ left. split; [apply elem_of_cons; auto|auto].
           ++ right. exists c. split; [apply elem_of_cons; auto|exact H2].
Qed.

(** Ballots of other decisions: exactly the expired ones disappear, the
    others stay as they are, in order (no premise). *)
Definition other (id : bytes) (b : ballot) : bool := negb (bytes_eqb (bid b) id).

Lemma vote_loop_others id from h bs found nc f :
  vote_loop id from h bs found = inr (nc, f) ->
  filter (fun b => other id b = true) nc
  = filter (fun b => other id b = true) (filter (fun b => expired h b = false) bs).
Proof.
  revert found nc f. induction bs as [|cnd rest IH]; intros found nc f H.
  - cbn in H. injection H as <- <-. reflexivity.
  - cbn [vote_loop] in H. destruct (expired h cnd) eqn:Ee.
    + rewrite (filter_cons_False (fun b => expired h b = false)) by (rewrite Ee; discriminate). eauto.
    + rewrite (filter_cons_True (fun b => expired h b = false)) by exact Ee.
      destruct (bytes_eqb (bid cnd) id) eqn:Ei.
      * destruct (existsb (bytes_eqb from) (voters cnd)) eqn:Ex; [discriminate|].
        destruct (vote_loop id from h rest _) as [n|[nc' f']] eqn:El; [discriminate|].
        injection H as <- <-.
        rewrite (filter_cons_False _ cnd) by (unfold other; rewrite Ei; discriminate).
        rewrite filter_cons_False by (unfold other; cbn [bid]; rewrite bytes_eqb_refl; discriminate).
        eauto.
      * destruct (vote_loop id from h rest found) as [n|[nc' f']] eqn:El; [discriminate|].
        injection H as <- <-.
        rewrite (filter_cons_True _ cnd) by (unfold other; rewrite Ei; reflexivity).
        rewrite filter_cons_True by (unfold other; rewrite Ei; reflexivity).
        f_equal. eauto.
Qed.

(** The ids of the new list are ids of the old one. *)
Lemma vote_loop_ids id from h bs found nc f :
  vote_loop id from h bs found = inr (nc, f) -> map bid nc `sublist_of` map bid bs.
Proof.
  revert found nc f. induction bs as [|cnd rest IH]; intros found nc f H.
  - cbn in H. injection H as <- <-. constructor.
  - cbn [vote_loop] in H. cbn [map]. destruct (expired h cnd) eqn:Ee.
    + apply sublist_cons. eauto.
    + destruct (bytes_eqb (bid cnd) id) eqn:Ei.
      * destruct (existsb (bytes_eqb from) (voters cnd)) eqn:Ex; [discriminate|].
        destruct (vote_loop id from h rest _) as [n|[nc' f']] eqn:El; [discriminate|].
        injection H as <- <-. cbn [map bid]. apply bytes_eqb_eq in Ei. rewrite Ei.
        apply sublist_skip. eauto.
      * destruct (vote_loop id from h rest found) as [n|[nc' f']] eqn:El; [discriminate|].
        injection H as <- <-. cbn [map]. apply sublist_skip. eauto.
Qed.

(** Full description of the loop when no two stored ballots share an id. *)
Lemma vote_loop_spec id from h bs found :
  NoDup (map bid bs) ->
  match vote_loop id from h bs found with
  | inl n => exists b, find_id id bs = Some b /\ expired h b = false /\
                       from ∈ voters b /\ n = Z.of_nat (length (voters b))
  | inr (nc, f) =>
      (forall i, i <> id -> find_id i nc = live_b h (find_id i bs)) /\
      match live_b h (find_id id bs) with
      | Some b => from ∉ voters b /\
                  find_id id nc = Some (mkBallot id (voters b ++ [from]) h) /\
                  f = Z.of_nat (length (voters b ++ [from]))
      | None => find_id id nc = None /\ f = found
      end
  end.
Proof.
  revert found. induction bs as [|cnd rest IH]; intros found Hnd.
  - cbn. split; [intros; reflexivity|split; reflexivity].
  - cbn [map] in Hnd. apply NoDup_cons in Hnd as [Hc Hnd].
    cbn [vote_loop]. destruct (expired h cnd) eqn:Ee.
    + (* expired: dropped *)
      specialize (IH found Hnd).
      destruct (vote_loop id from h rest found) as [n|[nc f]] eqn:El.
      * destruct IH as (b & H1 & H2). exists b. split; [|exact H2].
        rewrite find_id_cons. destruct (bytes_eqb (bid cnd) id) eqn:Ei; [|exact H1].
        exfalso. apply bytes_eqb_eq in Ei. apply find_id_some in H1 as [H1 H1'].
        apply Hc. rewrite Ei, <- H1'. apply elem_of_list_fmap. eauto.
      * destruct IH as [Ho Hi]. pose proof (vote_loop_ids _ _ _ _ _ _ _ El) as Hsub.
        assert (Hnone : find_id (bid cnd) nc = None).
        { apply find_id_none. intros Hin. apply Hc. eapply sublist_elem_of; eauto. }
        split.
        -- intros i Hne. rewrite find_id_cons. destruct (bytes_eqb (bid cnd) i) eqn:Ei.
           ++ apply bytes_eqb_eq in Ei. subst i. cbn. rewrite Ee. exact Hnone.
           ++ auto.
        -- rewrite find_id_cons. destruct (bytes_eqb (bid cnd) id) eqn:Ei; [|exact Hi].
           apply bytes_eqb_eq in Ei. subst id. cbn. rewrite Ee.
           split; [exact Hnone|].
           assert (Hr : find_id (bid cnd) rest = None) by (apply find_id_none; exact Hc).
           rewrite Hr in Hi. cbn in Hi. tauto.
    + destruct (bytes_eqb (bid cnd) id) eqn:Ei.
      * (* the ballot of this decision *)
        apply bytes_eqb_eq in Ei.
        assert (Hr : find_id id rest = None) by (apply find_id_none; rewrite <- Ei; exact Hc).
        destruct (existsb (bytes_eqb from) (voters cnd)) eqn:Ex.
        -- exists cnd. rewrite find_id_cons, Ei, bytes_eqb_refl. apply existsb_bytes in Ex. auto.
        -- specialize (IH (Z.of_nat (length (voters cnd ++ [from]))) Hnd).
           destruct (vote_loop id from h rest _) as [n|[nc f]] eqn:El.
           ++ destruct IH as (b & H1 & _). congruence.
           ++ destruct IH as [Ho Hi]. rewrite Hr in Hi. cbn in Hi. destruct Hi as [Hi1 Hi2].
              split.
              ** intros i Hne. rewrite !find_id_cons. cbn [bid]. rewrite Ei.
                 destruct (bytes_eqb id i) eqn:Ei2; [apply bytes_eqb_eq in Ei2; congruence|auto].
              ** rewrite find_id_cons, Ei, bytes_eqb_refl. cbn. rewrite Ee.
                 apply existsb_bytes_false in Ex. split; [exact Ex|].
                 rewrite find_id_cons. cbn [bid]. rewrite bytes_eqb_refl. auto.
      * (* a live ballot of another decision: kept *)
        specialize (IH found Hnd).
        destruct (vote_loop id from h rest found) as [n|[nc f]] eqn:El.
        -- destruct IH as (b & H1 & H2). exists b. rewrite find_id_cons, Ei. auto.
        -- destruct IH as [Ho Hi]. split.
           ++ intros i Hne. rewrite !find_id_cons. destruct (bytes_eqb (bid cnd) i) eqn:Ei2.
              ** cbn. rewrite Ee. reflexivity.
              ** auto.
           ++ rewrite !find_id_cons, Ei. exact Hi.
Qed.

Lemma sublist_NoDup {A} (l k : list A) : l `sublist_of` k -> NoDup k -> NoDup l.
Proof. intros Hs Hk. eapply NoDup_submseteq'; [|exact Hk]. apply sublist_submseteq. exact Hs. Qed.
