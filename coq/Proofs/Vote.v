(** Proofs/Vote.v — lemmas about Model/Vote.v and Model/NeoFSVote.v used by
    Props/C17.v.  The abstract tally and the vocabulary are in Spec/Tally.v. *)
From Verif Require Import Base.Prelude Base.IntCodec Model.Vote Model.NeoFSVote Spec.Tally.
From Coq Require Import ZifyBool ZifyNat.
Local Open Scope Z_scope.

(** * 1. Threshold arithmetic *)

Lemma thr_bounds n : 1 <= n -> 1 <= thr n <= n /\ n < 2 * thr n /\ n / 2 < thr n.
Proof. unfold thr. intros Hn. Z.div_mod_to_equations. lia. Qed.

Lemma thr_one n : 0 <= n -> thr n <= 1 -> n <= 1.
Proof. unfold thr. intros Hn H. Z.div_mod_to_equations. lia. Qed.

Lemma threshold_thr a : threshold a = thr (Z.of_nat (length a)).
Proof. unfold threshold, thr. f_equal. f_equal. lia. Qed.

(** Two lists without repetition drawn from a list of [n] entries whose
    lengths add up to more than [n] share an element. *)
Lemma lists_intersect (A l1 l2 : list bytes) :
  NoDup l1 -> NoDup l2 -> l1 ⊆ A -> l2 ⊆ A ->
  (length A < length l1 + length l2)%nat -> exists k, k ∈ l1 /\ k ∈ l2.
Proof.
  intros N1 N2 S1 S2 Hlen.
  destruct (decide (Exists (fun k => k ∈ l2) l1)) as [He|Hn].
  - apply Exists_exists in He. exact He.
  - exfalso. rewrite <- Forall_Exists_neg, Forall_forall in Hn.
    assert (Hnd : NoDup (l1 ++ l2)).
    { apply NoDup_app. split; [exact N1|]. split; [|exact N2]. intros x Hx. exact (Hn x Hx). }
    assert (Hsub : l1 ++ l2 ⊆+ A).
    { apply NoDup_submseteq; [exact Hnd|]. intros x Hx. apply elem_of_app in Hx as [Hx|Hx]; auto. }
    apply submseteq_length in Hsub. rewrite app_length in Hsub. lia.
Qed.

(** * 2. Lists of ballots *)

Lemma existsb_bytes x l : existsb (bytes_eqb x) l = true <-> x ∈ l.
Proof.
  rewrite existsb_exists. split.
  - intros (y & Hy & He). apply bytes_eqb_eq in He. subst. apply elem_of_list_In. exact Hy.
  - intros H. exists x. split; [apply elem_of_list_In; exact H|apply bytes_eqb_refl].
Qed.

Lemma existsb_bytes_false x l : existsb (bytes_eqb x) l = false <-> x ∉ l.
Proof. rewrite <- existsb_bytes. destruct (existsb (bytes_eqb x) l); split; congruence. Qed.

Lemma find_id_cons i b l :
  find_id i (b :: l) = if bytes_eqb (bid b) i then Some b else find_id i l.
Proof. reflexivity. Qed.

Lemma find_id_some i l b : find_id i l = Some b -> b ∈ l /\ bid b = i.
Proof.
  unfold find_id. intros H. apply find_some in H as [H1 H2].
  apply bytes_eqb_eq in H2. split; [apply elem_of_list_In; exact H1|exact H2].
Qed.

Lemma find_id_none i l : find_id i l = None <-> i ∉ map bid l.
Proof.
  induction l as [|b l IH]; [split; [intros _; apply not_elem_of_nil|reflexivity]|].
  rewrite find_id_cons. cbn [map]. rewrite not_elem_of_cons.
  destruct (bytes_eqb (bid b) i) eqn:E.
  - apply bytes_eqb_eq in E. split; [discriminate|]. intros [H _]. congruence.
  - apply bytes_eqb_neq in E. rewrite IH. split; [intros H; split; [congruence|exact H]|tauto].
Qed.

Lemma find_id_unique i l b : NoDup (map bid l) -> b ∈ l -> bid b = i -> find_id i l = Some b.
Proof.
  induction l as [|c l IH]; intros Hnd Hin Hb; [inversion Hin|].
  cbn [map] in Hnd. apply NoDup_cons in Hnd as [Hc Hnd].
  rewrite find_id_cons. apply elem_of_cons in Hin as [->|Hin].
  - subst i. rewrite bytes_eqb_refl. reflexivity.
  - destruct (bytes_eqb (bid c) i) eqn:E; [|auto].
    apply bytes_eqb_eq in E. exfalso. apply Hc. rewrite E, <- Hb.
    apply elem_of_list_fmap. exists b. auto.
Qed.

(** Freshness on stored ballots. *)
Definition live_b (h : Z) (ob : option ballot) : option ballot :=
  match ob with
  | Some b => if expired h b then None else Some b
  | None => None
  end.

Lemma live_b_idem h ob : live_b h (live_b h ob) = live_b h ob.
Proof. destruct ob as [b|]; [|reflexivity]. cbn. destruct (expired h b) eqn:E; cbn; [reflexivity|]. rewrite E. reflexivity. Qed.

Definition tally_of (b : ballot) : tally := mkTally (voters b) (bheight b).

Lemma abs_box_find bs i : abs_box bs i = option_map tally_of (find_id i bs).
Proof. unfold abs_box. destruct (find_id i bs); reflexivity. Qed.

Lemma tprune_abs h bs i :
  tprune h (abs_box bs i) = option_map tally_of (live_b h (find_id i bs)).
Proof.
  rewrite abs_box_find. destruct (find_id i bs) as [b|]; [|reflexivity].
  cbn. unfold expired, block_diff. destruct (h - bheight b >? 20); reflexivity.
Qed.

(** * 3. [Vote] *)

(** Where the new list comes from, ballot by ballot (no premise). *)
Lemma vote_loop_elems id from h bs found nc f :
  vote_loop id from h bs found = inr (nc, f) ->
  forall b, b ∈ nc ->
    (b ∈ bs /\ expired h b = false /\ bid b <> id) \/
    (exists cnd, cnd ∈ bs /\ expired h cnd = false /\ bid cnd = id /\
                 from ∉ voters cnd /\ b = mkBallot id (voters cnd ++ [from]) h).
Proof.
  revert found nc f. induction bs as [|cnd rest IH]; intros found nc f H b Hb.
  - cbn in H. injection H as <- <-. inversion Hb.
  - cbn [vote_loop] in H. destruct (expired h cnd) eqn:Ee.
    + destruct (IH _ _ _ H b Hb) as [(H1 & H2 & H3)|(c & H1 & H2)].
      * left. split; [apply elem_of_cons; auto|auto].
      * right. exists c. split; [apply elem_of_cons; auto|exact H2].
    + destruct (bytes_eqb (bid cnd) id) eqn:Ei.
      * destruct (existsb (bytes_eqb from) (voters cnd)) eqn:Ex; [discriminate|].
        destruct (vote_loop id from h rest _) as [n|[nc' f']] eqn:El; [discriminate|].
        injection H as <- <-. apply elem_of_cons in Hb as [->|Hb].
        -- right. exists cnd. apply bytes_eqb_eq in Ei. apply existsb_bytes_false in Ex.
           split; [apply elem_of_cons; auto|auto].
        -- destruct (IH _ _ _ El b Hb) as [(H1 & H2 & H3)|(c & H1 & H2)].
           ++ left. split; [apply elem_of_cons; auto|auto].
           ++ right. exists c. split; [apply elem_of_cons; auto|exact H2].
      * destruct (vote_loop id from h rest found) as [n|[nc' f']] eqn:El; [discriminate|].
        injection H as <- <-. apply elem_of_cons in Hb as [->|Hb].
        -- left. apply bytes_eqb_neq in Ei. split; [apply elem_of_cons; auto|auto].
        -- destruct (IH _ _ _ El b Hb) as [(H1 & H2 & H3)|(c & H1 & H2)].
           ++ left. split; [apply elem_of_cons; auto|auto].
           ++ right. exists c. split; [apply elem_of_cons; auto|exact H2].
Qed.

(** Ballots of other decisions: exactly the expired ones disappear, the
    others stay as they are, in order (no premise). *)
Definition other (id : bytes) (b : ballot) : bool := negb (bytes_eqb (bid b) id).

Lemma vote_loop_others id from h bs found nc f :
  vote_loop id from h bs found = inr (nc, f) ->
  filter (fun b => other id b = true) nc
  = filter (fun b => other id b = true) (filter (fun b => expired h b = false) bs).
Proof.
  revert found nc f. induction bs as [|cnd rest IH]; intros found nc f H.
  - cbn in H. injection H as <- <-. reflexivity.
  - cbn [vote_loop] in H. destruct (expired h cnd) eqn:Ee.
    + rewrite (filter_cons_False (fun b => expired h b = false)) by (rewrite Ee; discriminate). eauto.
    + rewrite (filter_cons_True (fun b => expired h b = false)) by exact Ee.
      destruct (bytes_eqb (bid cnd) id) eqn:Ei.
      * destruct (existsb (bytes_eqb from) (voters cnd)) eqn:Ex; [discriminate|].
        destruct (vote_loop id from h rest _) as [n|[nc' f']] eqn:El; [discriminate|].
        injection H as <- <-.
        rewrite (filter_cons_False _ cnd) by (unfold other; rewrite Ei; discriminate).
        rewrite filter_cons_False by (unfold other; cbn [bid]; rewrite bytes_eqb_refl; discriminate).
        eauto.
      * destruct (vote_loop id from h rest found) as [n|[nc' f']] eqn:El; [discriminate|].
        injection H as <- <-.
        rewrite (filter_cons_True _ cnd) by (unfold other; rewrite Ei; reflexivity).
        rewrite filter_cons_True by (unfold other; rewrite Ei; reflexivity).
        f_equal. eauto.
Qed.

Lemma sublist_elem {A} (l k : list A) x : l `sublist_of` k -> x ∈ l -> x ∈ k.
Proof. intros Hs Hx. eapply elem_of_submseteq; [exact Hx|]. apply sublist_submseteq. exact Hs. Qed.

Lemma sublist_NoDup {A} (l k : list A) : l `sublist_of` k -> NoDup k -> NoDup l.
Proof.
  induction 1 as [|x l k Hs IH|x l k Hs IH]; intros Hk.
  - constructor.
  - apply NoDup_cons in Hk as [Hx Hk]. apply NoDup_cons. split; [|auto].
    intros Hin. apply Hx. eapply sublist_elem; eauto.
  - apply NoDup_cons in Hk as [_ Hk]. auto.
Qed.

(** The ids of the new list are ids of the old one. *)
Lemma vote_loop_ids id from h bs found nc f :
  vote_loop id from h bs found = inr (nc, f) -> map bid nc `sublist_of` map bid bs.
Proof.
  revert found nc f. induction bs as [|cnd rest IH]; intros found nc f H.
  - cbn in H. injection H as <- <-. constructor.
  - cbn [vote_loop] in H. cbn [map]. destruct (expired h cnd) eqn:Ee.
    + apply sublist_cons. eauto.
    + destruct (bytes_eqb (bid cnd) id) eqn:Ei.
      * destruct (existsb (bytes_eqb from) (voters cnd)) eqn:Ex; [discriminate|].
        destruct (vote_loop id from h rest _) as [n|[nc' f']] eqn:El; [discriminate|].
        injection H as <- <-. cbn [map bid]. apply bytes_eqb_eq in Ei. rewrite Ei.
        apply sublist_skip. eauto.
      * destruct (vote_loop id from h rest found) as [n|[nc' f']] eqn:El; [discriminate|].
        injection H as <- <-. cbn [map]. apply sublist_skip. eauto.
Qed.

(** Full description of the loop when no two stored ballots share an id. *)
Lemma vote_loop_spec id from h bs found :
  NoDup (map bid bs) ->
  match vote_loop id from h bs found with
  | inl n => exists b, find_id id bs = Some b /\ expired h b = false /\
                       from ∈ voters b /\ n = Z.of_nat (length (voters b))
  | inr (nc, f) =>
      (forall i, i <> id -> find_id i nc = live_b h (find_id i bs)) /\
      match live_b h (find_id id bs) with
      | Some b => from ∉ voters b /\
                  find_id id nc = Some (mkBallot id (voters b ++ [from]) h) /\
                  f = Z.of_nat (length (voters b ++ [from]))
      | None => find_id id nc = None /\ f = found
      end
  end.
Proof.
  revert found. induction bs as [|cnd rest IH]; intros found Hnd.
  - cbn. split; [intros; reflexivity|split; reflexivity].
  - cbn [map] in Hnd. apply NoDup_cons in Hnd as [Hc Hnd].
    cbn [vote_loop]. destruct (expired h cnd) eqn:Ee.
    + (* expired: dropped *)
      specialize (IH found Hnd).
      destruct (vote_loop id from h rest found) as [n|[nc f]] eqn:El.
      * destruct IH as (b & H1 & H2). exists b. split; [|exact H2].
        rewrite find_id_cons. destruct (bytes_eqb (bid cnd) id) eqn:Ei; [|exact H1].
        exfalso. apply bytes_eqb_eq in Ei. apply find_id_some in H1 as [H1 H1'].
        apply Hc. rewrite Ei, <- H1'. apply elem_of_list_fmap. eauto.
      * destruct IH as [Ho Hi]. pose proof (vote_loop_ids _ _ _ _ _ _ _ El) as Hsub.
        assert (Hnone : find_id (bid cnd) nc = None).
        { apply find_id_none. intros Hin. apply Hc. eapply sublist_elem; eauto. }
        split.
        -- intros i Hne. rewrite find_id_cons. destruct (bytes_eqb (bid cnd) i) eqn:Ei.
           ++ apply bytes_eqb_eq in Ei. subst i. cbn. rewrite Ee. exact Hnone.
           ++ auto.
        -- rewrite find_id_cons. destruct (bytes_eqb (bid cnd) id) eqn:Ei; [|exact Hi].
           apply bytes_eqb_eq in Ei. subst id. cbn. rewrite Ee.
           split; [exact Hnone|].
           assert (Hr : find_id (bid cnd) rest = None) by (apply find_id_none; exact Hc).
           rewrite Hr in Hi. cbn in Hi. tauto.
    + destruct (bytes_eqb (bid cnd) id) eqn:Ei.
      * (* the ballot of this decision *)
        apply bytes_eqb_eq in Ei.
        assert (Hr : find_id id rest = None) by (apply find_id_none; rewrite <- Ei; exact Hc).
        destruct (existsb (bytes_eqb from) (voters cnd)) eqn:Ex.
        -- exists cnd. rewrite find_id_cons, Ei, bytes_eqb_refl. apply existsb_bytes in Ex. auto.
        -- specialize (IH (Z.of_nat (length (voters cnd ++ [from]))) Hnd).
           destruct (vote_loop id from h rest _) as [n|[nc f]] eqn:El.
           ++ destruct IH as (b & H1 & _). congruence.
           ++ destruct IH as [Ho Hi]. rewrite Hr in Hi. cbn in Hi. destruct Hi as [Hi1 Hi2].
              split.
              ** intros i Hne. rewrite !find_id_cons. cbn [bid]. rewrite Ei.
                 destruct (bytes_eqb id i) eqn:Ei2; [apply bytes_eqb_eq in Ei2; congruence|auto].
              ** rewrite find_id_cons, Ei, bytes_eqb_refl. cbn [live_b]. rewrite Ee.
                 apply existsb_bytes_false in Ex. split; [exact Ex|].
                 rewrite find_id_cons. cbn [bid]. rewrite bytes_eqb_refl. auto.
      * (* a live ballot of another decision: kept *)
        specialize (IH found Hnd).
        destruct (vote_loop id from h rest found) as [n|[nc f]] eqn:El.
        -- destruct IH as (b & H1 & H2). exists b. rewrite find_id_cons, Ei. auto.
        -- destruct IH as [Ho Hi]. split.
           ++ intros i Hne. rewrite !find_id_cons. destruct (bytes_eqb (bid cnd) i) eqn:Ei2.
              ** cbn. rewrite Ee. reflexivity.
              ** auto.
           ++ rewrite !find_id_cons, Ei. exact Hi.
Qed.


Lemma find_id_app i l k :
  find_id i (l ++ k) = match find_id i l with Some b => Some b | None => find_id i k end.
Proof.
  induction l as [|b l IH]; [reflexivity|]. cbn [app]. rewrite !find_id_cons.
  destruct (bytes_eqb (bid b) i); [reflexivity|exact IH].
Qed.

Lemma tlive_abs bs id h :
  tlive (abs_box bs) id h = match live_b h (find_id id bs) with Some b => voters b | None => [] end.
Proof. unfold tlive. rewrite tprune_abs. destruct (live_b h (find_id id bs)); reflexivity. Qed.

Lemma expired_now id vs h : expired h (mkBallot id vs h) = false.
Proof. unfold expired, block_diff. cbn [bheight]. lia. Qed.

(** [Vote] in terms of the tally read off the stored list. *)
Lemma vote_spec id from h bs :
  NoDup (map bid bs) ->
  let vs := tally_incl (abs_box bs) id from h in
  exists bs' b',
    vote bs id from h = (bs', Z.of_nat (length vs)) /\
    NoDup (map bid bs') /\
    find_id id bs' = Some b' /\ voters b' = vs /\ expired h b' = false /\
    (from ∈ stored_tally bs id h -> bs' = bs) /\
    (from ∉ stored_tally bs id h -> bheight b' = h) /\
    (forall i, i <> id -> live_b h (find_id i bs') = live_b h (find_id i bs)).
Proof.
  intros Hnd vs. subst vs. unfold tally_incl, stored_tally. rewrite tlive_abs.
  unfold vote. pose proof (vote_loop_spec id from h bs (-1) Hnd) as Hs.
  destruct (vote_loop id from h bs (-1)) as [n|[nc f]] eqn:El.
  - destruct Hs as (b & Hf & He & Hin & ->). rewrite Hf. cbn [live_b]. rewrite He.
    assert (Hx : existsb (bytes_eqb from) (voters b) = true) by (apply existsb_bytes; exact Hin).
    rewrite Hx. exists bs, b. repeat split; auto. contradiction.
  - destruct Hs as [Ho Hi]. pose proof (vote_loop_ids _ _ _ _ _ _ _ El) as Hsub.
    assert (Hnc : NoDup (map bid nc)) by (eapply sublist_NoDup; eauto).
    destruct (live_b h (find_id id bs)) as [b|] eqn:Elive.
    + destruct Hi as (Hnin & Hf & ->).
      assert (Hx : existsb (bytes_eqb from) (voters b) = false) by (apply existsb_bytes_false; exact Hnin).
      rewrite Hx. assert (Hlt : (Z.of_nat (length (voters b ++ [from])) <? 0) = false) by lia.
      rewrite Hlt. eexists nc, _. split; [reflexivity|]. split; [exact Hnc|].
      split; [exact Hf|]. split; [reflexivity|]. split; [apply expired_now|].
      split; [contradiction|]. split; [reflexivity|].
      intros i Hne. rewrite (Ho i Hne). apply live_b_idem.
    + destruct Hi as (Hf & ->). cbn [existsb app]. change (-1 <? 0) with true. cbn iota.
      assert (Hid : id ∉ map bid nc) by (apply find_id_none; exact Hf).
      eexists _, _. split; [reflexivity|]. split.
      { rewrite map_app. apply NoDup_app. split; [exact Hnc|]. split.
        - intros x Hx Hx'. cbn in Hx'. apply elem_of_list_singleton in Hx'. subst x. contradiction.
        - cbn. apply NoDup_singleton. }
      split. { rewrite find_id_app, Hf. rewrite find_id_cons. cbn [bid]. rewrite bytes_eqb_refl. reflexivity. }
      split; [reflexivity|]. split; [apply expired_now|].
      split. { intros Hin. inversion Hin. }
      split; [reflexivity|].
      intros i Hne. rewrite find_id_app. rewrite (Ho i Hne).
      destruct (live_b h (find_id i bs)) as [b|] eqn:E2.
      * rewrite <- E2. apply live_b_idem.
      * rewrite find_id_cons. cbn [bid].
        destruct (bytes_eqb id i) eqn:E3; [apply bytes_eqb_eq in E3; congruence|reflexivity].
Qed.

(** * 4. [RemoveVotes] *)

Fixpoint remove_first (id : bytes) (bs : list ballot) : list ballot :=
  match bs with
  | [] => []
  | b :: r => if bytes_eqb (bid b) id then r else b :: remove_first id r
  end.

Lemma find_idx_some id bs i j :
  find_idx id bs i = Some j ->
  exists k, j = (i + k)%nat /\ (k < length bs)%nat /\ delete k bs = remove_first id bs.
Proof.
  revert i. induction bs as [|b r IH]; intros i H; [discriminate|].
  cbn [find_idx] in H. cbn [remove_first]. destruct (bytes_eqb (bid b) id).
  - injection H as <-. exists 0%nat. cbn. split; [lia|]. split; [lia|reflexivity].
  - destruct (IH _ H) as (k & -> & Hk & Hd). exists (S k). cbn [length]. split; [lia|].
    split; [lia|]. cbn [delete list_delete]. f_equal. exact Hd.
Qed.

Lemma find_idx_none id bs i : find_idx id bs i = None -> find_id id bs = None.
Proof.
  revert i. induction bs as [|b r IH]; intros i H; [reflexivity|].
  cbn [find_idx] in H. rewrite find_id_cons. destruct (bytes_eqb (bid b) id); [discriminate|eauto].
Qed.

Lemma remove_votes_found id bs b :
  find_id id bs = Some b -> remove_votes bs id = Halt (remove_first id bs).
Proof.
  intros Hf. unfold remove_votes, first_index.
  destruct (find_idx id bs 0) as [j|] eqn:E.
  - apply find_idx_some in E as (k & -> & Hk & Hd). cbn [Nat.add].
    assert (Hlt : (k <? length bs)%nat = true) by lia. rewrite Hlt, Hd. reflexivity.
  - apply find_idx_none in E. congruence.
Qed.

Lemma remove_first_sublist id bs : remove_first id bs `sublist_of` bs.
Proof.
  induction bs as [|b r IH]; [constructor|]. cbn [remove_first].
  destruct (bytes_eqb (bid b) id); [apply sublist_cons; reflexivity|apply sublist_skip; exact IH].
Qed.

Lemma remove_first_ids id bs : map bid (remove_first id bs) `sublist_of` map bid bs.
Proof.
  induction bs as [|b r IH]; [constructor|]. cbn [remove_first map].
  destruct (bytes_eqb (bid b) id); [apply sublist_cons; reflexivity|cbn [map]; apply sublist_skip; exact IH].
Qed.

Lemma remove_first_find_other id bs i :
  i <> id -> find_id i (remove_first id bs) = find_id i bs.
Proof.
  intros Hne. induction bs as [|b r IH]; [reflexivity|]. cbn [remove_first].
  destruct (bytes_eqb (bid b) id) eqn:E.
  - rewrite find_id_cons. apply bytes_eqb_eq in E.
    destruct (bytes_eqb (bid b) i) eqn:E2; [apply bytes_eqb_eq in E2; congruence|reflexivity].
  - rewrite !find_id_cons. destruct (bytes_eqb (bid b) i); [reflexivity|exact IH].
Qed.

Lemma remove_first_find_same id bs :
  NoDup (map bid bs) -> find_id id (remove_first id bs) = None.
Proof.
  induction bs as [|b r IH]; intros Hnd; [reflexivity|].
  cbn [map] in Hnd. apply NoDup_cons in Hnd as [Hb Hnd]. cbn [remove_first].
  destruct (bytes_eqb (bid b) id) eqn:E.
  - apply bytes_eqb_eq in E. apply find_id_none. rewrite <- E. exact Hb.
  - rewrite find_id_cons, E. auto.
Qed.

Lemma remove_first_others id bs :
  filter (fun b => other id b = true) (remove_first id bs) = filter (fun b => other id b = true) bs.
Proof.
  induction bs as [|b r IH]; [reflexivity|]. cbn [remove_first].
  destruct (bytes_eqb (bid b) id) eqn:E.
  - rewrite (filter_cons_False _ b) by (unfold other; rewrite E; discriminate). reflexivity.
  - rewrite !(filter_cons_True _ b) by (unfold other; rewrite E; reflexivity). f_equal. exact IH.
Qed.

(** * 5. The vote-collection block [collect] refines [tcollect] *)

(** Two tally boxes that agree on everything still fresh at height [h]. *)
Definition tb_eq (h : Z) (t1 t2 : tbox) : Prop := forall i, tprune h (t1 i) = tprune h (t2 i).

(** Invariant of the stored list + agreement with a tally box. *)
Definition box_rel (h : Z) (bs : list ballot) (tb : tbox) : Prop :=
  NoDup (map bid bs) /\ tb_eq h (abs_box bs) tb.

Lemma tb_eq_mono h h' t1 t2 : h <= h' -> tb_eq h t1 t2 -> tb_eq h' t1 t2.
Proof.
  intros Hle H i. specialize (H i). unfold tprune in *.
  destruct (t1 i) as [a|], (t2 i) as [b|]; try reflexivity.
  - destruct (h - tlast a >? 20) eqn:E1, (h - tlast b >? 20) eqn:E2.
    + replace (h' - tlast a >? 20) with true by lia. replace (h' - tlast b >? 20) with true by lia. reflexivity.
    + discriminate.
    + discriminate.
    + injection H as ->. reflexivity.
  - destruct (h - tlast a >? 20) eqn:E1; [|discriminate].
    replace (h' - tlast a >? 20) with true by lia. reflexivity.
  - destruct (h - tlast b >? 20) eqn:E1; [|discriminate].
    replace (h' - tlast b >? 20) with true by lia. reflexivity.
Qed.

Lemma box_rel_mono h h' bs tb : h <= h' -> box_rel h bs tb -> box_rel h' bs tb.
Proof. intros Hle [H1 H2]. split; [exact H1|eapply tb_eq_mono; eauto]. Qed.

Lemma tlive_eq h t1 t2 id : tb_eq h t1 t2 -> tlive t1 id h = tlive t2 id h.
Proof. intros H. unfold tlive. rewrite (H id). reflexivity. Qed.

Lemma tally_incl_eq h t1 t2 id from : tb_eq h t1 t2 -> tally_incl t1 id from h = tally_incl t2 id from h.
Proof. intros H. unfold tally_incl. rewrite (tlive_eq _ _ _ _ H). reflexivity. Qed.

Lemma tupd_eq h t1 t2 id v : tb_eq h t1 t2 -> tb_eq h (tupd t1 id v) (tupd t2 id v).
Proof. intros H i. unfold tupd. destruct (bytes_eqb i id); [reflexivity|apply H]. Qed.

(** [tcollect] respects the agreement. *)
Lemma tcollect_eq a h t1 t2 id from :
  tb_eq h t1 t2 ->
  match tcollect a t1 id from h, tcollect a t2 id from h with
  | Halt (t1', g1), Halt (t2', g2) => tb_eq h t1' t2' /\ g1 = g2
  | _, _ => False
  end.
Proof.
  intros H. unfold tcollect. rewrite (tally_incl_eq _ _ _ _ from H), (tlive_eq _ _ _ id H).
  destruct (existsb (bytes_eqb from) (tlive t2 id h));
    destruct (Z.of_nat (length (tally_incl t2 id from h)) <? thr (Z.of_nat (length a)));
    (split; [|reflexivity]); repeat apply tupd_eq; exact H.
Qed.

(** The code's block on a well-formed list = the spec's block on the tally
    read off that list. *)
Lemma collect_abs a h bs id from :
  NoDup (map bid bs) ->
  match collect a bs id from h, tcollect a (abs_box bs) id from h with
  | Halt (bs', g1), Halt (tb', g2) => box_rel h bs' tb' /\ g1 = g2
  | _, _ => False
  end.
Proof.
  intros Hnd. destruct (vote_spec id from h bs Hnd) as (bs1 & b1 & Hv & Hnd1 & Hf1 & Hvs & Hex & Hrep & Hnew & Hoth).
  unfold collect, tcollect. rewrite Hv, threshold_thr.
  set (vs := tally_incl (abs_box bs) id from h) in *.
  set (tb1 := if existsb (bytes_eqb from) (tlive (abs_box bs) id h) then abs_box bs
              else tupd (abs_box bs) id (Some (mkTally vs h))).
  assert (H1 : tb_eq h (abs_box bs1) tb1).
  { intros i. subst tb1. unfold stored_tally in Hrep, Hnew.
    destruct (existsb (bytes_eqb from) (tlive (abs_box bs) id h)) eqn:Ex.
    - apply existsb_bytes in Ex. rewrite (Hrep Ex). reflexivity.
    - apply existsb_bytes_false in Ex. unfold tupd. destruct (bytes_eqb i id) eqn:Ei.
      + apply bytes_eqb_eq in Ei. subst i. rewrite abs_box_find, Hf1. cbn [option_map].
        unfold tally_of. rewrite Hvs, (Hnew Ex). reflexivity.
      + apply bytes_eqb_neq in Ei. rewrite !tprune_abs, (Hoth i Ei). reflexivity. }
  destruct (Z.of_nat (length vs) <? thr (Z.of_nat (length a))).
  - split; [|reflexivity]. split; assumption.
  - rewrite (remove_votes_found _ _ _ Hf1). cbn [obind]. split; [|reflexivity]. split.
    + eapply sublist_NoDup; [apply remove_first_ids|exact Hnd1].
    + intros i. unfold tupd at 1. destruct (bytes_eqb i id) eqn:Ei.
      * apply bytes_eqb_eq in Ei. subst i. rewrite abs_box_find, remove_first_find_same by exact Hnd1. reflexivity.
      * apply bytes_eqb_neq in Ei. rewrite abs_box_find, remove_first_find_other by exact Ei.
        rewrite <- abs_box_find. apply H1.
Qed.

Lemma collect_refines a h bs tb id from :
  box_rel h bs tb ->
  match collect a bs id from h, tcollect a tb id from h with
  | Halt (bs', g1), Halt (tb', g2) => box_rel h bs' tb' /\ g1 = g2
  | _, _ => False
  end.
Proof.
  intros [Hnd Heq]. pose proof (collect_abs a h bs id from Hnd) as H1.
  pose proof (tcollect_eq a h _ _ id from Heq) as H2.
  destruct (collect a bs id from h) as [[bs' g1]|]; [|destruct (tcollect a (abs_box bs) id from h); contradiction].
  destruct (tcollect a (abs_box bs) id from h) as [[t1 g2]|]; [|contradiction].
  destruct (tcollect a tb id from h) as [[t2 g3]|]; [|contradiction].
  destruct H1 as [[Hn He] ->], H2 as [He2 ->]. split; [|reflexivity].
  split; [exact Hn|]. intros i. rewrite (He i). apply He2.
Qed.

(** * 6. The gated methods, generically in the ballot box *)

Section Gated.
  Variable valid_pub : bytes -> bool.
  Variable std_acc : bytes -> bytes.
  Variable del_id : bytes -> bytes.

  Lemma check_witness_halt c b w :
    check_witness valid_pub c b = Halt w -> w = existsb (bytes_eqb b) (witnessed c).
  Proof. unfold check_witness. destruct (_ || _); [|discriminate]. congruence. Qed.

  Lemma inner_ring_invoker_some c ir k :
    inner_ring_invoker valid_pub c ir = Halt (Some k) -> k ∈ ir /\ k ∈ witnessed c.
  Proof.
    induction ir as [|node rest IH]; intros H; [discriminate|].
    cbn [inner_ring_invoker] in H.
    destruct (check_witness valid_pub c node) as [w|] eqn:Ew; cbn [obind] in H; [|discriminate].
    apply check_witness_halt in Ew. destruct w.
    - injection H as <-. symmetry in Ew. apply existsb_bytes in Ew. split; [apply elem_of_cons; auto|exact Ew].
    - destruct (IH H) as [H1 H2]. split; [apply elem_of_cons; auto|exact H2].
  Qed.

  Lemma inner_ring_invoker_stranger c ir :
    (forall k, k ∈ ir -> k ∉ witnessed c) ->
    inner_ring_invoker valid_pub c ir = Halt None \/ inner_ring_invoker valid_pub c ir = Fault.
  Proof.
    induction ir as [|node rest IH]; intros H; [left; reflexivity|].
    cbn [inner_ring_invoker].
    destruct (check_witness valid_pub c node) as [w|] eqn:Ew; cbn [obind]; [|right; reflexivity].
    apply check_witness_halt in Ew.
    assert (Hf : existsb (bytes_eqb node) (witnessed c) = false).
    { apply existsb_bytes_false. apply H. apply elem_of_cons; auto. }
    rewrite Hf in Ew. subst w. apply IH. intros k Hk. apply H. apply elem_of_cons; auto.
  Qed.

  Context {B : Type}.
  Variable collect : list bytes -> B -> bytes -> bytes -> Z -> outcome (B * bool).
  Notation gstate := (gstate (B := B)).
  Notation gexec := (gexec valid_pub std_acc del_id collect).
  Notation gstep := (gstep valid_pub std_acc del_id collect).

  (** The invoker found by the contract is a stored Alphabet key witnessed by
      the transaction. *)
  Lemma alphabet_invoker_member c (s : gstate) k :
    alphabet_invoker valid_pub c s = Halt k -> k ∈ alphabet s /\ k ∈ witnessed c.
  Proof.
    unfold alphabet_invoker.
    destruct (inner_ring_invoker valid_pub c (alphabet s)) as [[k'|]|] eqn:E; cbn [obind]; try discriminate.
    destruct (length k' =? 0)%nat; [discriminate|]. intros H. injection H as <-.
    eapply inner_ring_invoker_some; eauto.
  Qed.

  Lemma alphabet_invoker_stranger c (s : gstate) :
    (forall k, k ∈ alphabet s -> k ∉ witnessed c) -> alphabet_invoker valid_pub c s = Fault.
  Proof.
    intros H. unfold alphabet_invoker.
    destruct (inner_ring_invoker_stranger c (alphabet s) H) as [-> | ->]; reflexivity.
  Qed.

  (** Normal form of a vote-gated invocation: invoker, argument guards, the
      vote-collection block, then the action or nothing. *)
  Definition gated_nf (c : nctx) (s : gstate) (o : nop) (id : bytes)
    : outcome (gstate * bool * list nnotif) :=
    k <-! alphabet_invoker valid_pub c s;
    if args_ok valid_pub o then
      '(b1, go) <-! collect (alphabet s) (box s) id k (height c);
      if go then
        if action_ok c s o then Halt (effect c s b1 o, true, notifs_of o) else Fault
      else Halt (set_box s b1, false, [])
    else Fault.

  Lemma gexec_gated c s o id :
    decision_id del_id c o = Some id -> gexec c s o = gated_nf c s o id.
  Proof.
    intros Hd. unfold gated_nf. destruct o as [cid user amount lockAcc|uid keys|sid key val|key|key|amount];
      cbn [decision_id] in Hd; try discriminate.
    - (* Cheque *)
      injection Hd as ->. cbn [NeoFSVote.gexec args_ok].
      destruct (alphabet_invoker valid_pub c s) as [k|]; cbn [obind]; [|reflexivity].
      destruct (collect (alphabet s) (box s) id k (height c)) as [[b1 go]|]; cbn [obind]; [|reflexivity].
      destruct go; cbn [negb]; [|reflexivity].
      unfold action_ok, gas_transfer.
      destruct (length (self c) =? 20)%nat; cbn [negb orb andb obind]; [|reflexivity].
      destruct (length user =? 20)%nat; cbn [negb orb andb obind]; [|reflexivity].
      destruct (amount <? 0) eqn:E1.
      { replace (0 <=? amount) with false by lia. reflexivity. }
      replace (0 <=? amount) with true by lia. cbn [negb andb].
      destruct (gas_bal (gas s) (self c) <? amount) eqn:E2.
      { replace (amount <=? gas_bal (gas s) (self c)) with false by lia. reflexivity. }
      replace (amount <=? gas_bal (gas s) (self c)) with true by lia. reflexivity.
    - (* AlphabetUpdate *)
      injection Hd as ->. cbn [NeoFSVote.gexec args_ok].
      destruct (length keys =? 0)%nat; cbn [negb oassert obind andb].
      { destruct (alphabet_invoker valid_pub c s); reflexivity. }
      destruct (alphabet_invoker valid_pub c s) as [k|]; cbn [obind]; [|reflexivity].
      destruct (forallb (fun k0 => (length k0 =? 33)%nat) keys); cbn [oassert obind]; [|reflexivity].
      destruct (collect (alphabet s) (box s) id k (height c)) as [[b1 go]|]; cbn [obind]; [|reflexivity].
      destruct go; reflexivity.
    - (* SetConfig *)
      injection Hd as ->. cbn [NeoFSVote.gexec args_ok].
      destruct (alphabet_invoker valid_pub c s) as [k|]; cbn [obind]; [|reflexivity].
      destruct (collect (alphabet s) (box s) id k (height c)) as [[b1 go]|]; cbn [obind]; [|reflexivity].
      destruct go; cbn [negb]; [|reflexivity].
      unfold action_ok. destruct (length key <=? 58)%nat; reflexivity.
    - (* CandidateRemove, not by the candidate *)
      destruct (existsb (bytes_eqb key) (witnessed c)) eqn:Ew; [discriminate|]. injection Hd as <-.
      cbn [NeoFSVote.gexec args_ok]. unfold check_witness at 1. rewrite Ew.
      destruct ((length key =? 20)%nat || valid_pub key); cbn [obind].
      2:{ destruct (alphabet_invoker valid_pub c s); reflexivity. }
      destruct (alphabet_invoker valid_pub c s) as [k|]; cbn [obind]; [|reflexivity].
      destruct (collect (alphabet s) (box s) (del_id key) k (height c)) as [[b1 go]|]; cbn [obind]; [|reflexivity].
      destruct go; reflexivity.
  Qed.

  (** An invocation that is not vote-gated never touches the ballot box and
      does not read it. *)
  Lemma gexec_ungated c s o :
    decision_id del_id c o = None ->
    match gexec c s o with
    | Halt (s', f, ns) => box s' = box s /\ alphabet s' = alphabet s /\ ns = []
    | Fault => True
    end.
  Proof.
    intros Hd. destruct o as [cid user amount lockAcc|uid keys|sid key val|key|key|amount];
      cbn [decision_id] in Hd; try discriminate; cbn [NeoFSVote.gexec].
    - destruct (existsb (bytes_eqb key) (witnessed c)) eqn:Ew; [|discriminate].
      unfold check_witness. rewrite Ew. destruct (_ || _); cbn [obind]; [|exact I]. repeat split; reflexivity.
    - repeat match goal with
             | |- context [obind ?x _] => destruct x as [?|]; cbn [obind]; [|exact I]
             | |- context [let '(_, _) := ?x in _] => destruct x
             end.
      repeat split; reflexivity.
    - destruct (oassert (0 <=? amount)); cbn [obind]; [|exact I]. repeat split; reflexivity.
  Qed.
End Gated.

(** * 7. Simulation between two representations of the ballot box *)

Section Sim.
  Variable valid_pub : bytes -> bool.
  Variable std_acc : bytes -> bytes.
  Variable del_id : bytes -> bytes.
  Context {B1 B2 : Type}.
  Variable c1 : list bytes -> B1 -> bytes -> bytes -> Z -> outcome (B1 * bool).
  Variable c2 : list bytes -> B2 -> bytes -> bytes -> Z -> outcome (B2 * bool).
  Variable R : B1 -> B2 -> Prop.

  Definition st_rel (s1 : gstate (B := B1)) (s2 : gstate (B := B2)) : Prop :=
    same_but_box s1 s2 /\ R (box s1) (box s2).

  Definition res_rel (r1 : outcome (gstate (B := B1) * bool * list nnotif))
                     (r2 : outcome (gstate (B := B2) * bool * list nnotif)) : Prop :=
    match r1, r2 with
    | Halt (s1', f1, n1), Halt (s2', f2, n2) => st_rel s1' s2' /\ f1 = f2 /\ n1 = n2
    | Fault, Fault => True
    | _, _ => False
    end.

  Lemma alphabet_invoker_same c (s1 : gstate (B := B1)) (s2 : gstate (B := B2)) :
    alphabet s1 = alphabet s2 -> alphabet_invoker valid_pub c s1 = alphabet_invoker valid_pub c s2.
  Proof. intros H. unfold alphabet_invoker. rewrite H. reflexivity. Qed.

  Lemma gexec_sim c s1 s2 o :
    st_rel s1 s2 ->
    (forall a id k,
        match c1 a (box s1) id k (height c), c2 a (box s2) id k (height c) with
        | Halt (b1, g1), Halt (b2, g2) => R b1 b2 /\ g1 = g2
        | _, _ => False
        end) ->
    res_rel (gexec valid_pub std_acc del_id c1 c s1 o) (gexec valid_pub std_acc del_id c2 c s2 o).
  Proof.
    intros [Hs HR] Hc. destruct (decision_id del_id c o) as [id|] eqn:Hd.
    - rewrite (gexec_gated _ _ _ c1 c s1 o id Hd), (gexec_gated _ _ _ c2 c s2 o id Hd).
      unfold gated_nf. destruct Hs as (Ha & Hcf & Hcd & Hg).
      rewrite (alphabet_invoker_same c s1 s2 Ha).
      destruct (alphabet_invoker valid_pub c s2) as [k|]; cbn [obind]; [|exact I].
      destruct (args_ok valid_pub o); [|exact I].
      specialize (Hc (alphabet s1) id k). rewrite <- Ha.
      destruct (c1 (alphabet s1) (box s1) id k (height c)) as [[b1 g1]|];
        destruct (c2 (alphabet s1) (box s2) id k (height c)) as [[b2 g2]|]; try contradiction.
      destruct Hc as [Hb ->]. cbn [obind]. destruct g2.
      + assert (Hao : action_ok c s1 o = action_ok c s2 o).
        { unfold action_ok. rewrite Hg. reflexivity. }
        rewrite Hao. destruct (action_ok c s2 o); [|exact I].
        split; [|split; reflexivity]. split; [|destruct o; exact Hb].
        destruct o; unfold effect, set_box, same_but_box; cbn [alphabet config cands gas];
          rewrite ?Ha, ?Hcf, ?Hcd, ?Hg; repeat split; reflexivity.
      + split; [|split; reflexivity]. split; [|exact Hb].
        unfold set_box, same_but_box; cbn [alphabet config cands gas]. auto.
    - destruct s1 as [a1 b1 cf1 cd1 g1], s2 as [a2 b2 cf2 cd2 g2].
      destruct Hs as (Ha & Hcf & Hcd & Hg). cbn [alphabet config cands gas box] in *. subst a2 cf2 cd2 g2.
      destruct o as [cid user amount lockAcc|uid keys|sid key val|key|key|amount];
        cbn [decision_id] in Hd; try discriminate; cbn [NeoFSVote.gexec alphabet config cands gas box].
      + destruct (existsb (bytes_eqb key) (witnessed c)) eqn:Ew; [|discriminate].
        unfold check_witness. rewrite Ew. destruct (_ || _); cbn [obind]; [|exact I].
        split; [|split; reflexivity]. split; [|exact HR]. repeat split; reflexivity.
      + unfold res_rel.
        repeat match goal with
               | |- context [obind ?x _] => destruct x as [?|]; cbn [obind]; [|exact I]
               | |- context [let '(_, _) := ?x in _] => destruct x
               end.
        split; [|split; reflexivity]. split; [|exact HR]. repeat split; reflexivity.
      + destruct (oassert (0 <=? amount)); cbn [obind]; [|exact I].
        split; [|split; reflexivity]. split; [|exact HR]. repeat split; reflexivity.
  Qed.
End Sim.

(** * 8. Ballot-wise invariants of the stored list *)

Lemma vote_forall (Pb : ballot -> Prop) bs id from h bs' n :
  vote bs id from h = (bs', n) -> Forall Pb bs ->
  (forall vs, vs = [from] \/
              (exists cnd, cnd ∈ bs /\ Pb cnd /\ bid cnd = id /\ from ∉ voters cnd /\
                           expired h cnd = false /\ vs = voters cnd ++ [from]) ->
              Pb (mkBallot id vs h)) ->
  Forall Pb bs'.
Proof.
  intros Hv Hall Hnew. rewrite Forall_forall in Hall. unfold vote in Hv.
  destruct (vote_loop id from h bs (-1)) as [m|[nc f]] eqn:El.
  - injection Hv as <- _. apply Forall_forall. exact Hall.
  - assert (Hnc : Forall Pb nc).
    { apply Forall_forall. intros b Hb.
      destruct (vote_loop_elems _ _ _ _ _ _ _ El b Hb) as [(H1 & _)|(cnd & H1 & H2 & H3 & H4 & ->)]; [auto|].
      apply Hnew. right. exists cnd. repeat split; auto. }
    destruct (f <? 0); injection Hv as <- _; [|exact Hnc].
    apply Forall_app. split; [exact Hnc|]. apply Forall_singleton. apply Hnew. left. reflexivity.
Qed.

Lemma collect_forall (Pb : ballot -> Prop) a bs id from h bs' go :
  collect a bs id from h = Halt (bs', go) -> Forall Pb bs ->
  (forall vs, vs = [from] \/
              (exists cnd, cnd ∈ bs /\ Pb cnd /\ bid cnd = id /\ from ∉ voters cnd /\
                           expired h cnd = false /\ vs = voters cnd ++ [from]) ->
              Pb (mkBallot id vs h)) ->
  Forall Pb bs'.
Proof.
  intros Hc Hall Hnew. unfold collect in Hc.
  destruct (vote bs id from h) as [bs1 n] eqn:Ev.
  pose proof (vote_forall Pb _ _ _ _ _ _ Ev Hall Hnew) as H1.
  destruct (n <? threshold a); [injection Hc as <- _; exact H1|].
  unfold remove_votes in Hc. destruct (_ <? _)%nat; cbn [obind] in Hc; [|discriminate].
  injection Hc as <- _. rewrite Forall_forall in H1. apply Forall_forall. intros b Hb.
  apply H1. eapply sublist_elem; [apply sublist_delete|exact Hb].
Qed.

(** * 9. Ballots of other decisions *)

Definition others (id : bytes) (bs : list ballot) : list ballot :=
  filter (fun b => other id b = true) bs.
Definition live_list (h : Z) (bs : list ballot) : list ballot :=
  filter (fun b => expired h b = false) bs.

Lemma vote_others id from h bs bs1 n :
  NoDup (map bid bs) -> vote bs id from h = (bs1, n) ->
  (from ∈ stored_tally bs id h -> bs1 = bs) /\
  (from ∉ stored_tally bs id h -> others id bs1 = others id (live_list h bs)).
Proof.
  intros Hnd Hv. split.
  - intros Hin. destruct (vote_spec id from h bs Hnd) as (bs' & b' & Hv' & _ & _ & _ & _ & Hrep & _).
    rewrite Hv in Hv'. injection Hv' as -> _. auto.
  - intros Hnin. unfold vote in Hv. pose proof (vote_loop_spec id from h bs (-1) Hnd) as Hs.
    destruct (vote_loop id from h bs (-1)) as [m|[nc f]] eqn:El.
    + exfalso. destruct Hs as (b & Hf & He & Hin & _). apply Hnin.
      unfold stored_tally. rewrite tlive_abs, Hf. cbn [live_b]. rewrite He. exact Hin.
    + pose proof (vote_loop_others _ _ _ _ _ _ _ El) as Ho. unfold others, live_list.
      destruct (f <? 0); injection Hv as <- _; [|exact Ho].
      rewrite filter_app, Ho.
      rewrite (filter_cons_False _ (mkBallot id [from] h)) by (unfold other; cbn [bid]; rewrite bytes_eqb_refl; discriminate).
      rewrite filter_nil. apply app_nil_r.
Qed.

Lemma delete_first_index id bs b :
  find_id id bs = Some b -> delete (first_index id bs) bs = remove_first id bs.
Proof.
  intros Hf. unfold first_index. destruct (find_idx id bs 0) as [j|] eqn:E.
  - apply find_idx_some in E as (k & -> & _ & Hd). exact Hd.
  - apply find_idx_none in E. congruence.
Qed.

Lemma collect_others a id from h bs bs' go :
  NoDup (map bid bs) -> collect a bs id from h = Halt (bs', go) ->
  (from ∈ stored_tally bs id h -> others id bs' = others id bs) /\
  (from ∉ stored_tally bs id h -> others id bs' = others id (live_list h bs)).
Proof.
  intros Hnd Hc. unfold collect in Hc. destruct (vote bs id from h) as [bs1 n] eqn:Ev.
  destruct (vote_others _ _ _ _ _ _ Hnd Ev) as [H1 H2].
  destruct (vote_spec id from h bs Hnd) as (bs1' & b' & Hv' & _ & Hf & _).
  rewrite Ev in Hv'. injection Hv' as <- _.
  assert (Hb : others id bs' = others id bs1).
  { destruct (n <? threshold a); [injection Hc as <- _; reflexivity|].
    rewrite (remove_votes_found _ _ _ Hf) in Hc. cbn [obind] in Hc. injection Hc as <- _.
    apply remove_first_others. }
  rewrite Hb. split; intros Hx; [rewrite (H1 Hx); reflexivity|exact (H2 Hx)].
Qed.

(** A repeated vote below the threshold leaves the storage untouched. *)
Lemma collect_repeat_inert a id from h bs bs' :
  NoDup (map bid bs) -> collect a bs id from h = Halt (bs', false) ->
  from ∈ stored_tally bs id h -> bs' = bs.
Proof.
  intros Hnd Hc Hin. unfold collect in Hc. destruct (vote bs id from h) as [bs1 n] eqn:Ev.
  destruct (vote_others _ _ _ _ _ _ Hnd Ev) as [H1 _].
  destruct (n <? threshold a).
  - injection Hc as <-. auto.
  - destruct (remove_votes bs1 id); cbn [obind] in Hc; discriminate.
Qed.

(** * 10. Histories: the stored ballots refine the tally *)

Fixpoint end_height (h0 : Z) (ops : list (nctx * nop)) : Z :=
  match ops with [] => h0 | co :: rest => end_height (height (fst co)) rest end.

Lemma end_height_snoc h0 ops co : end_height h0 (ops ++ [co]) = height (fst co).
Proof. revert h0. induction ops as [|x r IH]; intros h0; [reflexivity|]. cbn. apply IH. Qed.

Lemma heights_from_app h0 ops co :
  heights_from h0 (ops ++ [co]) <-> heights_from h0 ops /\ end_height h0 ops <= height (fst co).
Proof.
  revert h0. induction ops as [|x r IH]; intros h0; cbn; [tauto|]. rewrite IH. tauto.
Qed.

Lemma heights_from_end h0 ops : heights_from h0 ops -> h0 <= end_height h0 ops.
Proof.
  revert h0. induction ops as [|x r IH]; intros h0; cbn; [lia|]. intros [H1 H2].
  specialize (IH _ H2). lia.
Qed.

Lemma heights_from_elem h0 ops co :
  heights_from h0 ops -> co ∈ ops -> height (fst co) <= end_height h0 ops.
Proof.
  revert h0. induction ops as [|x r IH]; intros h0 H Hin; [inversion Hin|].
  cbn in H. destruct H as [H1 H2]. cbn [end_height]. apply elem_of_cons in Hin as [->|Hin].
  - apply heights_from_end. exact H2.
  - eauto.
Qed.

Section Run.
  Variable valid_pub : bytes -> bool.
  Variable std_acc : bytes -> bytes.
  Variable del_id : bytes -> bytes.
  Notation nstep := (nstep valid_pub std_acc del_id).
  Notation tstep := (tstep valid_pub std_acc del_id).
  Notation nrun_from := (nrun_from valid_pub std_acc del_id).
  Notation trun_from := (trun_from valid_pub std_acc del_id).
  Notation nexec := (nexec valid_pub std_acc del_id).

  Lemma grun_snoc {B} (coll : list bytes -> B -> bytes -> bytes -> Z -> outcome (B * bool)) s ops co :
    grun_from valid_pub std_acc del_id coll s (ops ++ [co])
    = gstep_log valid_pub std_acc del_id coll (grun_from valid_pub std_acc del_id coll s ops) co.
  Proof. unfold grun_from. rewrite fold_left_app. reflexivity. Qed.

  Lemma nrun_snoc_state s ops co :
    fst (nrun_from s (ops ++ [co])) = fst (fst (nstep (fst (nrun_from s ops)) co)).
  Proof.
    unfold NeoFSVote.nrun_from. rewrite grun_snoc. unfold gstep_log, NeoFSVote.nstep.
    destruct (gstep _ _ _ _ _ co) as [[s' r] ns]. reflexivity.
  Qed.

  Definition nt_rel (h : Z) (s : nstate) (t : tstate) : Prop := st_rel (box_rel h) s t.

  Lemma nt_rel_mono h h' s t : h <= h' -> nt_rel h s t -> nt_rel h' s t.
  Proof. intros Hle [H1 H2]. split; [exact H1|eapply box_rel_mono; eauto]. Qed.

  Lemma step_refines h c o s t :
    nt_rel h s t -> h <= height c ->
    nt_rel (height c) (fst (fst (nstep s (c, o)))) (fst (fst (tstep t (c, o)))) /\
    snd (fst (nstep s (c, o))) = snd (fst (tstep t (c, o))) /\
    snd (nstep s (c, o)) = snd (tstep t (c, o)).
  Proof.
    intros Hrel Hle. apply (nt_rel_mono _ _ _ _ Hle) in Hrel.
    assert (Hc : forall a id k,
               match collect a (box s) id k (height c), tcollect a (box t) id k (height c) with
               | Halt (b1, g1), Halt (b2, g2) => box_rel (height c) b1 b2 /\ g1 = g2
               | _, _ => False
               end).
    { intros a id k. apply collect_refines. apply Hrel. }
    pose proof (gexec_sim valid_pub std_acc del_id collect tcollect (box_rel (height c)) c s t o Hrel Hc) as Hsim.
    unfold NeoFSVote.nstep, Tally.tstep, gstep. cbn [fst snd].
    destruct (gexec valid_pub std_acc del_id collect c s o) as [[[s' f1] n1]|];
      destruct (gexec valid_pub std_acc del_id tcollect c t o) as [[[t' f2] n2]|];
      cbn [res_rel] in Hsim; try contradiction; cbn [fst snd].
    - destruct Hsim as (H1 & -> & ->). auto.
    - auto.
  Qed.

  Lemma run_refines h0 s t ops :
    nt_rel h0 s t -> heights_from h0 ops ->
    snd (nrun_from s ops) = snd (trun_from t ops) /\
    nt_rel (end_height h0 ops) (fst (nrun_from s ops)) (fst (trun_from t ops)).
  Proof.
    intros Hrel. induction ops as [|co ops IH] using rev_ind; intros Hh.
    - cbn. auto.
    - apply heights_from_app in Hh as [Hh Hle]. destruct (IH Hh) as [Hl Hr].
      unfold NeoFSVote.nrun_from, Tally.trun_from in *. rewrite !grun_snoc. unfold gstep_log.
      destruct co as [c o]. pose proof (step_refines _ c o _ _ Hr Hle) as (H1 & H2 & H3).
      unfold NeoFSVote.nstep, Tally.tstep in *.
      destruct (gstep valid_pub std_acc del_id collect _ (c, o)) as [[s' r1] n1].
      destruct (gstep valid_pub std_acc del_id tcollect _ (c, o)) as [[t' r2] n2].
      cbn [fst snd] in *. subst r2 n2. rewrite Hl, end_height_snoc. auto.
  Qed.

  Lemma init_rel h keys cfg g : nt_rel h (ninit keys cfg g) (tinit keys cfg g).
  Proof.
    split; [repeat split; reflexivity|]. split; [constructor|]. intros i. reflexivity.
  Qed.

  (** The relation that holds when the next invocation starts. *)
  Lemma reach_rel h0 keys cfg g ops c o :
    heights_from h0 (ops ++ [(c, o)]) ->
    nt_rel (height c) (fst (nrun_from (ninit keys cfg g) ops)) (fst (trun_from (tinit keys cfg g) ops)).
  Proof.
    intros Hh. apply heights_from_app in Hh as [Hh Hle].
    eapply nt_rel_mono; [exact Hle|]. apply run_refines; [apply init_rel|exact Hh].
  Qed.
End Run.

(** * 11. One vote-gated invocation, against any tally box the stored list refines *)

Lemma tcollect_go a tb id from h tb' go :
  tcollect a tb id from h = Halt (tb', go) ->
  go = negb (Z.of_nat (length (tally_incl tb id from h)) <? thr (Z.of_nat (length a))) /\
  (go = true -> tb' id = None) /\
  (go = false -> tlive tb' id h = tally_incl tb id from h).
Proof.
  unfold tcollect. intros H.
  destruct (Z.of_nat (length (tally_incl tb id from h)) <? thr (Z.of_nat (length a))) eqn:E;
    injection H as <- <-; (split; [reflexivity|]); split; try discriminate.
  - intros _. unfold tally_incl.
    destruct (existsb (bytes_eqb from) (tlive tb id h)) eqn:Ex; [reflexivity|].
    unfold tlive at 1, tupd. rewrite bytes_eqb_refl. cbn [tprune tlast tvoters].
    replace (h - h >? 20) with false by lia. reflexivity.
  - intros _. unfold tupd. rewrite bytes_eqb_refl. reflexivity.
Qed.

Lemma collect_fired_removed a bs id from h bs' :
  NoDup (map bid bs) -> collect a bs id from h = Halt (bs', true) -> find_id id bs' = None.
Proof.
  intros Hnd Hc. unfold collect in Hc. destruct (vote bs id from h) as [bs1 n] eqn:Ev.
  destruct (vote_spec id from h bs Hnd) as (bs1' & b' & Hv' & Hnd1 & Hf & _).
  rewrite Ev in Hv'. injection Hv' as <- _.
  destruct (n <? threshold a); [discriminate|].
  rewrite (remove_votes_found _ _ _ Hf) in Hc. cbn [obind] in Hc. injection Hc as <-.
  apply remove_first_find_same. exact Hnd1.
Qed.

Section Step.
  Variable valid_pub : bytes -> bool.
  Variable std_acc : bytes -> bytes.
  Variable del_id : bytes -> bytes.
  Notation nstep := (nstep valid_pub std_acc del_id).

  (** The three outcomes of a vote-gated invocation. *)
  Definition gated_outcome (c : nctx) (s : nstate) (tb : tbox) (o : nop) (id : bytes)
             (s' : nstate) (r : option bool) (ns : list nnotif) : Prop :=
    let n := Z.of_nat (length (alphabet s)) in
    let T k := Z.of_nat (length (tally_incl tb id k (height c))) in
    (* rejected *)
    (r = None /\ s' = s /\ ns = [] /\
     (alphabet_invoker valid_pub c s = Fault \/ args_ok valid_pub o = false \/
      exists k, alphabet_invoker valid_pub c s = Halt k /\ thr n <= T k /\ action_ok c s o = false)) \/
    (* counted, below the threshold *)
    (r = Some false /\ ns = [] /\ same_but_box s' s /\
     exists k, alphabet_invoker valid_pub c s = Halt k /\ args_ok valid_pub o = true /\ T k < thr n /\
       stored_tally (box s') id (height c) = tally_incl tb id k (height c) /\
       (k ∈ tlive tb id (height c) -> box s' = box s) /\
       exists tb', tcollect (alphabet s) tb id k (height c) = Halt (tb', false) /\
                   box_rel (height c) (box s') tb') \/
    (* decided *)
    (r = Some true /\ ns = notifs_of o /\ s' = effect c s (box s') o /\ find_id id (box s') = None /\
     exists k, alphabet_invoker valid_pub c s = Halt k /\ args_ok valid_pub o = true /\ thr n <= T k /\
       action_ok c s o = true /\
       exists tb', tcollect (alphabet s) tb id k (height c) = Halt (tb', true) /\
                   box_rel (height c) (box s') tb').

  Lemma effect_box {B} c (s : gstate (B := B)) b o id :
    decision_id del_id c o = Some id -> box (effect c s b o) = b.
  Proof. destruct o; cbn; try discriminate; reflexivity. Qed.

  Lemma nstep_gated c s tb o id :
    decision_id del_id c o = Some id -> box_rel (height c) (box s) tb ->
    gated_outcome c s tb o id (fst (fst (nstep s (c, o)))) (snd (fst (nstep s (c, o)))) (snd (nstep s (c, o))).
  Proof.
    intros Hd Hrel. unfold NeoFSVote.nstep, gstep. cbn [fst snd].
    rewrite (gexec_gated _ _ _ collect c s o id Hd). unfold gated_nf, gated_outcome.
    destruct (alphabet_invoker valid_pub c s) as [k|] eqn:Ek; cbn [obind fst snd].
    2:{ left. repeat split; auto. }
    destruct (args_ok valid_pub o) eqn:Ea; cbn [fst snd].
    2:{ left. repeat split; auto. }
    pose proof (collect_refines (alphabet s) (height c) (box s) tb id k Hrel) as Hc.
    destruct (collect (alphabet s) (box s) id k (height c)) as [[b1 go]|] eqn:Ec;
      destruct (tcollect (alphabet s) tb id k (height c)) as [[tb1 go']|] eqn:Et; try contradiction.
    destruct Hc as [Hb <-]. cbn [obind]. destruct (tcollect_go _ _ _ _ _ _ _ Et) as (Hgo & Hfire & Hcnt).
    destruct go; cbn [fst snd].
    - assert (Hthr : thr (Z.of_nat (length (alphabet s))) <= Z.of_nat (length (tally_incl tb id k (height c)))) by lia.
      destruct (action_ok c s o) eqn:Eo; cbn [fst snd].
      + right. right. rewrite (effect_box c s b1 o id Hd).
        split; [reflexivity|]. split; [reflexivity|]. split; [reflexivity|].
        split; [eapply collect_fired_removed; [apply Hrel|exact Ec]|].
        exists k. repeat split; auto. exists tb1. auto.
      + left. repeat split; auto. right. right. exists k. auto.
    - right. left. split; [reflexivity|]. split; [reflexivity|].
      split; [unfold set_box, same_but_box; cbn; auto|].
      exists k. split; [reflexivity|]. split; [reflexivity|]. split; [lia|].
      cbn [set_box box]. split.
      { unfold stored_tally. rewrite (tlive_eq _ _ _ id (proj2 Hb)). apply Hcnt. reflexivity. }
      split.
      { intros Hin. eapply collect_repeat_inert; [apply Hrel|exact Ec|].
        unfold stored_tally. rewrite (tlive_eq _ _ _ id (proj2 Hrel)). exact Hin. }
      exists tb1. auto.
  Qed.
End Step.

(** * 12. Invariants along histories *)

Section Inv.
  Variable valid_pub : bytes -> bool.
  Variable std_acc : bytes -> bytes.
  Variable del_id : bytes -> bytes.
  Notation nstep := (nstep valid_pub std_acc del_id).
  Notation nrun_from := (nrun_from valid_pub std_acc del_id).

  Lemma run_inv (Inv : nstate -> Prop) (Pop : nctx * nop -> Prop) s0 ops :
    Inv s0 -> (forall s co, Inv s -> Pop co -> Inv (fst (fst (nstep s co)))) ->
    Forall Pop ops -> Inv (fst (nrun_from s0 ops)).
  Proof.
    intros H0 Hstep. induction ops as [|co ops IH] using rev_ind; intros Hall; [exact H0|].
    apply Forall_app in Hall as [Hall Hco]. rewrite Forall_singleton in Hco.
    rewrite nrun_snoc_state. apply Hstep; [apply IH; exact Hall|exact Hco].
  Qed.

  (** The stored Alphabet list changes only by a decided [AlphabetUpdate]. *)
  Lemma nstep_alphabet s c o :
    alphabet (fst (fst (nstep s (c, o)))) = alphabet s \/
    exists id ks, o = AlphabetUpdate id ks /\ alphabet (fst (fst (nstep s (c, o)))) = ks.
  Proof.
    unfold NeoFSVote.nstep, gstep. cbn [fst snd].
    destruct (decision_id del_id c o) as [id|] eqn:Hd.
    - rewrite (gexec_gated _ _ _ collect c s o id Hd). unfold gated_nf.
      destruct (alphabet_invoker valid_pub c s) as [k|]; cbn [obind fst]; [|auto].
      destruct (args_ok valid_pub o); cbn [fst]; [|auto].
      destruct (collect (alphabet s) (box s) id k (height c)) as [[b1 go]|]; cbn [obind fst]; [|auto].
      destruct go; cbn [fst]; [|auto].
      destruct (action_ok c s o); cbn [fst]; [|auto].
      destruct o; cbn; eauto.
    - pose proof (gexec_ungated valid_pub std_acc del_id collect c s o Hd) as H.
      destruct (gexec valid_pub std_acc del_id collect c s o) as [[[s' f] ns]|]; cbn [fst]; [|auto].
      left. apply H.
  Qed.

  (** How the stored ballots evolve, ballot by ballot. *)
  Lemma nstep_box_forall (Pb : ballot -> Prop) c o s :
    Forall Pb (box s) ->
    (forall id k vs,
        decision_id del_id c o = Some id -> alphabet_invoker valid_pub c s = Halt k ->
        vs = [k] \/ (exists cnd, cnd ∈ box s /\ Pb cnd /\ bid cnd = id /\ k ∉ voters cnd /\
                                 expired (height c) cnd = false /\ vs = voters cnd ++ [k]) ->
        Pb (mkBallot id vs (height c))) ->
    Forall Pb (box (fst (fst (nstep s (c, o))))).
  Proof.
    intros Hall Hnew. unfold NeoFSVote.nstep, gstep. cbn [fst snd].
    destruct (decision_id del_id c o) as [id|] eqn:Hd.
    - rewrite (gexec_gated _ _ _ collect c s o id Hd). unfold gated_nf.
      destruct (alphabet_invoker valid_pub c s) as [k|] eqn:Ek; cbn [obind fst]; [|exact Hall].
      destruct (args_ok valid_pub o); cbn [fst]; [|exact Hall].
      destruct (collect (alphabet s) (box s) id k (height c)) as [[b1 go]|] eqn:Ec; cbn [obind fst]; [|exact Hall].
      assert (H1 : Forall Pb b1).
      { eapply collect_forall; [exact Ec|exact Hall|]. intros vs Hvs. eapply Hnew; eauto. }
      destruct go; cbn [fst]; [|exact H1].
      destruct (action_ok c s o); cbn [fst]; [|exact Hall].
      rewrite (effect_box del_id c s b1 o id Hd). exact H1.
    - pose proof (gexec_ungated valid_pub std_acc del_id collect c s o Hd) as H.
      destruct (gexec valid_pub std_acc del_id collect c s o) as [[[s' f] ns]|]; cbn [fst]; [|exact Hall].
      destruct H as [-> _]. exact Hall.
  Qed.

  (** Every stored voter list is without repetition and made of keys that
      were in the stored Alphabet list when they voted. *)
  Definition voters_ok (U : bytes -> Prop) (b : ballot) : Prop :=
    NoDup (voters b) /\ forall k, k ∈ voters b -> U k.

  Definition updates_within (U : bytes -> Prop) (co : nctx * nop) : Prop :=
    forall id ks, snd co = AlphabetUpdate id ks -> forall k, k ∈ ks -> U k.

  Lemma run_voters (U : bytes -> Prop) keys cfg g ops :
    (forall k, k ∈ keys -> U k) -> Forall (updates_within U) ops ->
    let s := fst (nrun_from (ninit keys cfg g) ops) in
    (forall k, k ∈ alphabet s -> U k) /\ Forall (voters_ok U) (box s).
  Proof.
    intros Hk Hops.
    apply (run_inv (fun s => (forall k, k ∈ alphabet s -> U k) /\ Forall (voters_ok U) (box s))
                   (updates_within U)); [split; [exact Hk|constructor]| |exact Hops].
    intros s [c o] [Ha Hb] Hco. split.
    - destruct (nstep_alphabet s c o) as [-> | (id & ks & -> & ->)]; [exact Ha|].
      intros k Hin. eapply (Hco id ks); [reflexivity|exact Hin].
    - apply nstep_box_forall; [exact Hb|]. intros id k vs _ Hinv Hvs.
      apply (alphabet_invoker_member valid_pub) in Hinv as [Hmem _].
      destruct Hvs as [-> | (cnd & _ & [Hn Hu] & _ & Hnin & _ & ->)]; split; cbn [voters].
      + apply NoDup_singleton.
      + intros x Hx. apply elem_of_list_singleton in Hx. subst x. auto.
      + apply NoDup_app. split; [exact Hn|]. split; [|apply NoDup_singleton].
        intros x Hx Hx'. apply elem_of_list_singleton in Hx'. subst x. contradiction.
      + intros x Hx. apply elem_of_app in Hx as [Hx|Hx]; [auto|].
        apply elem_of_list_singleton in Hx. subst x. auto.
  Qed.

  (** A history in which the list is never replaced by a different one. *)
  Definition keeps_list (A : list bytes) (co : nctx * nop) : Prop :=
    forall id ks, snd co = AlphabetUpdate id ks -> ks = A.

  Lemma run_fixed_alphabet A cfg g ops :
    Forall (keeps_list A) ops -> alphabet (fst (nrun_from (ninit A cfg g) ops)) = A.
  Proof.
    apply (run_inv (fun s => alphabet s = A) (keeps_list A)); [reflexivity|].
    intros s [c o] Hs Hco. destruct (nstep_alphabet s c o) as [-> | (id & ks & -> & ->)]; [exact Hs|].
    exact (Hco id ks eq_refl).
  Qed.

  Lemma keeps_list_within A co : keeps_list A co -> updates_within (fun k => k ∈ A) co.
  Proof. intros H id ks Hs k Hk. rewrite (H id ks Hs) in Hk. exact Hk. Qed.

  (** Every stored ballot was stamped by an invocation of the history that
      voted for its id, at that invocation's height. *)
  Definition stamped_by (ops : list (nctx * nop)) (b : ballot) : Prop :=
    exists co, co ∈ ops /\ decision_id del_id (fst co) (snd co) = Some (bid b) /\
               height (fst co) = bheight b.

  Lemma run_stamped keys cfg g ops :
    Forall (stamped_by ops) (box (fst (nrun_from (ninit keys cfg g) ops))).
  Proof.
    induction ops as [|[c o] ops IH] using rev_ind; [constructor|].
    rewrite nrun_snoc_state. apply nstep_box_forall.
    - eapply Forall_impl; [exact IH|]. intros b (co & H1 & H2). exists co. split; [|exact H2].
      apply elem_of_app. auto.
    - intros id k vs Hd _ _. exists (c, o). split; [apply elem_of_app; right; apply elem_of_list_singleton; reflexivity|].
      cbn [fst snd bid bheight]. auto.
  Qed.

  (** No vote for [id] within the last 20 blocks: nothing stored counts. *)
  Lemma stale_stored keys cfg g ops id h :
    (forall co, co ∈ ops -> decision_id del_id (fst co) (snd co) = Some id -> h - height (fst co) > 20) ->
    stored_tally (box (fst (nrun_from (ninit keys cfg g) ops))) id h = [].
  Proof.
    intros Hold. unfold stored_tally. rewrite tlive_abs.
    destruct (find_id id _) as [b|] eqn:Ef; [|reflexivity].
    apply find_id_some in Ef as [Hin Hb].
    pose proof (run_stamped keys cfg g ops) as Hst. rewrite Forall_forall in Hst.
    destruct (Hst b Hin) as (co & Hco & Hd & Hh). rewrite Hb in Hd.
    specialize (Hold co Hco Hd). cbn [live_b]. unfold expired, block_diff.
    replace (h - bheight b >? 20) with true by lia. reflexivity.
  Qed.
End Inv.

(** * 13. With a fixed list the threshold is reached exactly, by a new vote *)

Definition small (a : list bytes) (b : ballot) : Prop :=
  Z.of_nat (length (voters b)) < threshold a.

Lemma collect_exact a bs id from h bs' go :
  NoDup (map bid bs) -> Forall (small a) bs -> collect a bs id from h = Halt (bs', go) ->
  NoDup (map bid bs') /\ Forall (small a) bs' /\
  (go = true -> from ∉ stored_tally bs id h /\
                Z.of_nat (length (tally_incl (abs_box bs) id from h)) = threshold a).
Proof.
  intros Hnd Hsm Hc.
  pose proof (collect_abs a h bs id from Hnd) as Habs. rewrite Hc in Habs.
  destruct (tcollect a (abs_box bs) id from h) as [[tb' g2]|]; [|contradiction].
  destruct Habs as [[Hnd' _] _]. split; [exact Hnd'|].
  unfold collect in Hc. destruct (vote bs id from h) as [bs1 n] eqn:Ev.
  destruct (vote_spec id from h bs Hnd) as (bs1' & b' & Hv' & Hnd1 & Hf & Hvs & _).
  rewrite Ev in Hv'. injection Hv' as <- ->.
  (* ballots of other decisions stay small *)
  assert (Hoth : Forall (fun b => bid b <> id -> small a b) bs1).
  { eapply vote_forall; [exact Ev| |].
    - eapply Forall_impl; [exact Hsm|]. auto.
    - intros vs _ Hne. cbn [bid] in Hne. congruence. }
  rewrite Forall_forall in Hoth.
  assert (Hsame : forall b, b ∈ bs1 -> bid b = id -> b = b').
  { intros b Hb Hi. pose proof (find_id_unique _ _ _ Hnd1 Hb Hi) as H. congruence. }
  (* size of the tally before this vote *)
  assert (Hlive : Z.of_nat (length (stored_tally bs id h)) < threshold a).
  { unfold stored_tally. rewrite tlive_abs. destruct (find_id id bs) as [b|] eqn:Eb; cbn [live_b].
    - apply find_id_some in Eb as [Hin _]. rewrite Forall_forall in Hsm.
      destruct (expired h b); [|apply Hsm; exact Hin].
      cbn [length]. rewrite threshold_thr. unfold thr. Z.div_mod_to_equations. lia.
    - cbn [length]. rewrite threshold_thr. unfold thr. Z.div_mod_to_equations. lia. }
  destruct (Z.of_nat (length (tally_incl (abs_box bs) id from h)) <? threshold a) eqn:Elt.
  - injection Hc as <- <-. split; [|discriminate].
    apply Forall_forall. intros b Hb. destruct (decide (bid b = id)) as [Hi|Hi]; [|auto].
    rewrite (Hsame b Hb Hi). unfold small. rewrite Hvs. lia.
  - rewrite (remove_votes_found _ _ _ Hf) in Hc. cbn [obind] in Hc. injection Hc as <- <-. split.
    + apply Forall_forall. intros b Hb.
      assert (Hb1 : b ∈ bs1) by (eapply sublist_elem; [apply remove_first_sublist|exact Hb]).
      destruct (decide (bid b = id)) as [Hi|Hi]; [|auto]. exfalso.
      pose proof (remove_first_find_same id bs1 Hnd1) as Hnone. apply find_id_none in Hnone.
      apply Hnone. apply elem_of_list_fmap. exists b. split; [symmetry; exact Hi|exact Hb].
    + intros _. unfold tally_incl in *. fold (stored_tally bs id h) in *.
      destruct (existsb (bytes_eqb from) (stored_tally bs id h)) eqn:Ex; [lia|].
      apply existsb_bytes_false in Ex. split; [exact Ex|]. rewrite app_length in *. cbn [length] in *. lia.
Qed.

Section Exact.
  Variable valid_pub : bytes -> bool.
  Variable std_acc : bytes -> bytes.
  Variable del_id : bytes -> bytes.
  Notation nstep := (nstep valid_pub std_acc del_id).
  Notation nrun_from := (nrun_from valid_pub std_acc del_id).

  Definition fixed_inv (A : list bytes) (s : nstate) : Prop :=
    alphabet s = A /\ NoDup (map bid (box s)) /\ Forall (small A) (box s).

  Lemma nstep_fixed A s c o :
    fixed_inv A s -> keeps_list A (c, o) ->
    fixed_inv A (fst (fst (nstep s (c, o)))) /\
    (snd (fst (nstep s (c, o))) = Some true ->
     forall id, decision_id del_id c o = Some id ->
     exists k, alphabet_invoker valid_pub c s = Halt k /\ k ∉ stored_tally (box s) id (height c) /\
               Z.of_nat (length (tally_incl (abs_box (box s)) id k (height c))) = threshold A).
  Proof.
    intros (Ha & Hnd & Hsm) Hk. unfold NeoFSVote.nstep, gstep. cbn [fst snd].
    destruct (decision_id del_id c o) as [id|] eqn:Hd.
    - rewrite (gexec_gated _ _ _ collect c s o id Hd). unfold gated_nf.
      destruct (alphabet_invoker valid_pub c s) as [k|] eqn:Ek; cbn [obind fst snd].
      2:{ split; [repeat split; assumption|discriminate]. }
      destruct (args_ok valid_pub o); cbn [fst snd].
      2:{ split; [repeat split; assumption|discriminate]. }
      destruct (collect (alphabet s) (box s) id k (height c)) as [[b1 go]|] eqn:Ec; cbn [obind fst snd].
      2:{ split; [repeat split; assumption|discriminate]. }
      rewrite Ha in Ec. destruct (collect_exact _ _ _ _ _ _ _ Hnd Hsm Ec) as (Hnd1 & Hsm1 & Hgo).
      destruct go; cbn [fst snd].
      + destruct (action_ok c s o); cbn [fst snd].
        2:{ split; [repeat split; assumption|discriminate]. }
        split.
        * unfold fixed_inv. rewrite (effect_box del_id c s b1 o id Hd). split; [|auto].
          destruct o; cbn [effect alphabet]; try exact Ha; try discriminate.
          exact (Hk _ _ eq_refl).
        * intros _ id' Hid'. injection Hid' as <-. exists k. destruct (Hgo eq_refl). auto.
      + split; [|discriminate]. unfold fixed_inv, set_box. cbn [alphabet box]. auto.
    - pose proof (gexec_ungated valid_pub std_acc del_id collect c s o Hd) as H.
      destruct (gexec valid_pub std_acc del_id collect c s o) as [[[s' f] ns]|]; cbn [fst snd].
      + destruct H as (Hb & Hal & _). split; [|intros _ id' Hid'; discriminate].
        unfold fixed_inv. rewrite Hb, Hal. auto.
      + split; [repeat split; assumption|discriminate].
  Qed.

  Lemma run_fixed A cfg g ops :
    Forall (keeps_list A) ops -> fixed_inv A (fst (nrun_from (ninit A cfg g) ops)).
  Proof.
    apply (run_inv valid_pub std_acc del_id (fixed_inv A) (keeps_list A)).
    - split; [reflexivity|]. split; constructor.
    - intros s [c o] Hs Hco. apply nstep_fixed; assumption.
  Qed.

  (** Ballots of other decisions under one vote-gated invocation. *)
  Lemma nstep_others s c o id :
    decision_id del_id c o = Some id -> NoDup (map bid (box s)) ->
    let bs' := box (fst (fst (nstep s (c, o)))) in
    others id bs' = others id (box s) \/ others id bs' = others id (live_list (height c) (box s)).
  Proof.
    intros Hd Hnd. unfold NeoFSVote.nstep, gstep. cbn [fst snd].
    rewrite (gexec_gated _ _ _ collect c s o id Hd). unfold gated_nf.
    destruct (alphabet_invoker valid_pub c s) as [k|] eqn:Ek; cbn [obind fst]; [|auto].
    destruct (args_ok valid_pub o); cbn [fst]; [|auto].
    destruct (collect (alphabet s) (box s) id k (height c)) as [[b1 go]|] eqn:Ec; cbn [obind fst]; [|auto].
    destruct (collect_others _ _ _ _ _ _ _ Hnd Ec) as [H1 H2].
    assert (Hb1 : others id b1 = others id (box s) \/ others id b1 = others id (live_list (height c) (box s))).
    { destruct (decide (k ∈ stored_tally (box s) id (height c))); auto. }
    destruct go; cbn [fst]; [|exact Hb1].
    destruct (action_ok c s o); cbn [fst]; [|auto].
    rewrite (effect_box del_id c s b1 o id Hd). exact Hb1.
  Qed.

  (** Rejection of invocations that no stored Alphabet key witnesses. *)
  Lemma nstep_stranger s c o :
    decision_id del_id c o <> None -> (forall k, k ∈ alphabet s -> k ∉ witnessed c) ->
    nstep s (c, o) = (s, None, []).
  Proof.
    intros Hd Hs. destruct (decision_id del_id c o) as [id|] eqn:E; [|congruence].
    unfold NeoFSVote.nstep, gstep. cbn [fst snd].
    rewrite (gexec_gated _ _ _ collect c s o id E). unfold gated_nf.
    rewrite (alphabet_invoker_stranger valid_pub c s Hs). reflexivity.
  Qed.
End Exact.

(** * 14. Statements about histories, in the form used by Props/C17.v *)

Lemma end_height_bound h0 ops h :
  h0 <= h -> (forall co, co ∈ ops -> height (fst co) <= h) -> end_height h0 ops <= h.
Proof.
  revert h0. induction ops as [|x r IH]; intros h0 H0 Hall; [exact H0|].
  cbn [end_height]. apply IH.
  - apply Hall. apply elem_of_cons. auto.
  - intros co Hco. apply Hall. apply elem_of_cons. auto.
Qed.

Lemma tally_incl_ok (U : bytes -> Prop) bs id k h :
  Forall (voters_ok U) bs -> U k ->
  NoDup (tally_incl (abs_box bs) id k h) /\ forall x, x ∈ tally_incl (abs_box bs) id k h -> U x.
Proof.
  intros Hall Hk. unfold tally_incl. rewrite tlive_abs.
  set (vs := match live_b h (find_id id bs) with Some b => voters b | None => [] end).
  assert (Hvs : NoDup vs /\ forall x, x ∈ vs -> U x).
  { subst vs. destruct (find_id id bs) as [b|] eqn:Ef; cbn [live_b].
    - apply find_id_some in Ef as [Hin _]. rewrite Forall_forall in Hall.
      destruct (expired h b); [split; [apply NoDup_nil_2|intros x Hx; inversion Hx]|exact (Hall b Hin)].
    - split; [apply NoDup_nil_2|intros x Hx; inversion Hx]. }
  destruct Hvs as [Hn Hu].
  destruct (existsb (bytes_eqb k) vs) eqn:Ex; [split; assumption|].
  apply existsb_bytes_false in Ex. split.
  - apply NoDup_app. split; [exact Hn|]. split; [|apply NoDup_singleton].
    intros x Hx Hx'. apply elem_of_list_singleton in Hx'. subst x. contradiction.
  - intros x Hx. apply elem_of_app in Hx as [Hx|Hx]; [auto|].
    apply elem_of_list_singleton in Hx. subst x. exact Hk.
Qed.

Section History.
  Variable valid_pub : bytes -> bool.
  Variable std_acc : bytes -> bytes.
  Variable del_id : bytes -> bytes.
  Notation nstep := (nstep valid_pub std_acc del_id).
  Notation nrun_from := (nrun_from valid_pub std_acc del_id).
  Notation trun_from := (trun_from valid_pub std_acc del_id).

  Lemma history_gated h0 keys cfg g ops c o id :
    heights_from h0 (ops ++ [(c, o)]) -> decision_id del_id c o = Some id ->
    let s := fst (nrun_from (ninit keys cfg g) ops) in
    let T := box (fst (trun_from (tinit keys cfg g) ops)) in
    gated_outcome valid_pub c s T o id
      (fst (fst (nstep s (c, o)))) (snd (fst (nstep s (c, o)))) (snd (nstep s (c, o))).
  Proof.
    intros Hh Hd s T. apply nstep_gated; [exact Hd|].
    apply (reach_rel valid_pub std_acc del_id h0 keys cfg g ops c o Hh).
  Qed.

  (** Reading the three outcomes as an equivalence. *)
  Lemma gated_outcome_iff c s tb o id s' r ns :
    gated_outcome valid_pub c s tb o id s' r ns ->
    (r = Some true <->
     exists k, alphabet_invoker valid_pub c s = Halt k /\ args_ok valid_pub o = true /\
               thr (Z.of_nat (length (alphabet s))) <= Z.of_nat (length (tally_incl tb id k (height c))) /\
               action_ok c s o = true) /\
    (r = Some true -> s' = effect c s (box s') o /\ ns = notifs_of o /\ find_id id (box s') = None) /\
    (r <> Some true -> ns = [] /\ same_but_box s' s) /\
    (r = None -> s' = s).
  Proof.
    intros [(-> & -> & -> & Hwhy)|[(-> & -> & Hsame & k & Hk & Ha & Hlt & _)|(-> & -> & Hs' & Hnone & k & Hk & Ha & Hge & Hact & _)]].
    - split; [split; [discriminate|]|].
      + intros (k & Hk & Ha & Hge & Hact).
        destruct Hwhy as [Hf|[Hf|(k' & Hk' & _ & Hf)]]; congruence.
      + split; [discriminate|]. split; [intros _; split; [reflexivity|repeat split; reflexivity]|reflexivity].
    - split; [split; [discriminate|]|].
      + intros (k' & Hk' & _ & Hge & _). rewrite Hk in Hk'. injection Hk' as <-. lia.
      + split; [discriminate|]. split; [auto|discriminate].
    - split; [split; [intros _; exists k; auto|reflexivity]|].
      split; [auto|]. split; [congruence|discriminate].
  Qed.
End History.

(** * 15. The history theorems of Props/C17.v in projection form *)

Section Theorems.
  Variable vp : bytes -> bool.
  Variable sa : bytes -> bytes.
  Variable di : bytes -> bytes.
  Notation nstep := (nstep vp sa di).
  Notation nrun_from := (nrun_from vp sa di).
  Notation trun_from := (trun_from vp sa di).

  Lemma refines_tally_thm h0 keys cfg g ops :
    heights_from h0 ops ->
    let sl := nrun_from (ninit keys cfg g) ops in
    let tl := trun_from (tinit keys cfg g) ops in
    snd sl = snd tl /\
    same_but_box (fst sl) (fst tl) /\
    NoDup (map bid (box (fst sl))) /\
    forall id h, h0 <= h -> (forall co, co ∈ ops -> height (fst co) <= h) ->
      stored_tally (box (fst sl)) id h = tlive (box (fst tl)) id h.
  Proof.
    intros Hh sl tl.
    destruct (run_refines vp sa di h0 _ _ ops (init_rel h0 keys cfg g) Hh) as [Hl [Hs [Hn He]]].
    split; [exact Hl|]. split; [exact Hs|]. split; [exact Hn|].
    intros id h H0 Hall. apply tlive_eq. eapply tb_eq_mono; [|exact He].
    apply end_height_bound; assumption.
  Qed.

  Lemma repeated_vote_thm h0 keys cfg g ops c o id :
    heights_from h0 (ops ++ [(c, o)]) -> decision_id di c o = Some id ->
    let s := fst (nrun_from (ninit keys cfg g) ops) in
    let T := box (fst (trun_from (tinit keys cfg g) ops)) in
    forall k, alphabet_invoker vp c s = Halt k -> k ∈ tlive T id (height c) ->
    tally_incl T id k (height c) = tlive T id (height c) /\
    (snd (fst (nstep s (c, o))) = Some false -> fst (fst (nstep s (c, o))) = s).
  Proof.
    intros Hh Hd s T k Hk Hin. split.
    - unfold tally_incl. apply existsb_bytes in Hin. rewrite Hin. reflexivity.
    - pose proof (history_gated vp sa di h0 keys cfg g ops c o id Hh Hd) as Hg. cbn zeta in Hg. fold s T in Hg.
      destruct (nstep s (c, o)) as [[s' r] ns]. cbn [fst snd] in *. intros ->.
      destruct Hg as [(Hr & _)|[(_ & _ & Hsame & k' & Hk' & _ & _ & _ & Hrep & _)|(Hr & _)]]; try discriminate.
      rewrite Hk in Hk'. injection Hk' as <-. specialize (Hrep Hin).
      destruct Hsame as (H1 & H2 & H3 & H4). destruct s', s. cbn in *. congruence.
  Qed.

  Lemma vote_counted_thm h0 keys cfg g ops c o id :
    heights_from h0 (ops ++ [(c, o)]) -> decision_id di c o = Some id ->
    let s := fst (nrun_from (ninit keys cfg g) ops) in
    let T := box (fst (trun_from (tinit keys cfg g) ops)) in
    snd (fst (nstep s (c, o))) = Some false ->
    exists k, alphabet_invoker vp c s = Halt k /\
      stored_tally (box (fst (fst (nstep s (c, o))))) id (height c) = tally_incl T id k (height c) /\
      Z.of_nat (length (tally_incl T id k (height c))) < thr (Z.of_nat (length (alphabet s))).
  Proof.
    intros Hh Hd s T.
    pose proof (history_gated vp sa di h0 keys cfg g ops c o id Hh Hd) as Hg. cbn zeta in Hg. fold s T in Hg.
    destruct (nstep s (c, o)) as [[s' r] ns]. cbn [fst snd] in *. intros ->.
    destruct Hg as [(Hr & _)|[(_ & _ & _ & k & Hk & _ & Hlt & Hst & _)|(Hr & _)]]; try discriminate.
    exists k. auto.
  Qed.

  Lemma fires_once_thm h0 keys cfg g ops c o id :
    heights_from h0 (ops ++ [(c, o)]) -> decision_id di c o = Some id ->
    let s' := fst (nrun_from (ninit keys cfg g) (ops ++ [(c, o)])) in
    let T' := box (fst (trun_from (tinit keys cfg g) (ops ++ [(c, o)]))) in
    snd (fst (nstep (fst (nrun_from (ninit keys cfg g) ops)) (c, o))) = Some true ->
    forall h k, height c <= h ->
      stored_tally (box s') id h = [] /\ tlive T' id h = [] /\ tally_incl T' id k h = [k].
  Proof.
    intros Hh Hd s' T' Hfire h k Hle.
    assert (Hst : stored_tally (box s') id h = []).
    { subst s'. rewrite nrun_snoc_state.
      pose proof (history_gated vp sa di h0 keys cfg g ops c o id Hh Hd) as Hg. cbn zeta in Hg.
      destruct (nstep _ (c, o)) as [[s1 r] ns]. cbn [fst snd] in *. subst r.
      destruct Hg as [(Hr & _)|[(Hr & _)|(_ & _ & _ & Hnone & _)]]; try discriminate.
      unfold stored_tally. rewrite tlive_abs, Hnone. reflexivity. }
    assert (Hrel : tlive T' id h = stored_tally (box s') id h).
    { symmetry. apply tlive_eq.
      destruct (run_refines vp sa di h0 _ _ _ (init_rel h0 keys cfg g) Hh) as [_ [_ [_ He]]].
      rewrite end_height_snoc in He. eapply tb_eq_mono; [|exact He]. exact Hle. }
    rewrite Hst in Hrel. split; [exact Hst|]. split; [exact Hrel|].
    unfold tally_incl. rewrite Hrel. reflexivity.
  Qed.

  Lemma stale_thm h0 keys cfg g ops c o id :
    heights_from h0 (ops ++ [(c, o)]) -> decision_id di c o = Some id ->
    (forall co, co ∈ ops -> decision_id di (fst co) (snd co) = Some id ->
                height c - height (fst co) > 20) ->
    let s := fst (nrun_from (ninit keys cfg g) ops) in
    let T := box (fst (trun_from (tinit keys cfg g) ops)) in
    (forall k, tally_incl T id k (height c) = [k]) /\
    (snd (fst (nstep s (c, o))) = Some true -> length (alphabet s) = 1%nat) /\
    (snd (fst (nstep s (c, o))) = Some false ->
     exists k, alphabet_invoker vp c s = Halt k /\
               stored_tally (box (fst (fst (nstep s (c, o))))) id (height c) = [k]).
  Proof.
    intros Hh Hd Hold s T.
    assert (Hempty : tlive T id (height c) = []).
    { rewrite <- (stale_stored vp sa di keys cfg g ops id (height c) Hold). symmetry.
      apply tlive_eq. apply (reach_rel vp sa di h0 keys cfg g ops c o Hh). }
    assert (Hone : forall k, tally_incl T id k (height c) = [k]).
    { intros k. unfold tally_incl. rewrite Hempty. reflexivity. }
    pose proof (history_gated vp sa di h0 keys cfg g ops c o id Hh Hd) as Hg. cbn zeta in Hg. fold s T in Hg.
    destruct (nstep s (c, o)) as [[s' r] ns]. cbn [fst snd] in *.
    split; [exact Hone|]. split.
    - intros ->. destruct Hg as [(Hr & _)|[(Hr & _)|(_ & _ & _ & _ & k & Hk & _ & Hge & _)]]; try discriminate.
      rewrite Hone in Hge. cbn [length] in Hge.
      apply alphabet_invoker_member in Hk as [Hm _].
      pose proof (thr_one (Z.of_nat (length (alphabet s)))) as H1.
      destruct (alphabet s) as [|x [|y l]]; [inversion Hm|reflexivity|cbn [length] in *; lia].
    - intros ->. destruct Hg as [(Hr & _)|[(_ & _ & _ & k & Hk & _ & _ & Hst & _)|(Hr & _)]]; try discriminate.
      exists k. rewrite Hst, Hone. auto.
  Qed.

  Lemma quorum_thm h0 A cfg g ops c o id :
    heights_from h0 (ops ++ [(c, o)]) -> decision_id di c o = Some id ->
    Forall (keeps_list A) ops ->
    let s := fst (nrun_from (ninit A cfg g) ops) in
    let T := box (fst (trun_from (tinit A cfg g) ops)) in
    snd (fst (nstep s (c, o))) = Some true ->
    alphabet s = A /\
    exists k, alphabet_invoker vp c s = Halt k /\
      let vs := tally_incl T id k (height c) in
      NoDup vs /\ vs ⊆ A /\ Z.of_nat (length vs) = thr (Z.of_nat (length A)) /\
      k ∉ tlive T id (height c).
  Proof.
    intros Hh Hd Hkeep s T Hfire.
    pose proof (run_fixed vp sa di A cfg g ops Hkeep) as Hinv. fold s in Hinv.
    pose proof (reach_rel vp sa di h0 A cfg g ops c o Hh) as [_ [_ Heq]]. fold s T in Heq.
    destruct (run_voters vp sa di (fun k => k ∈ A) A cfg g ops (fun k H => H)
                (Forall_impl _ _ _ Hkeep (keeps_list_within A))) as [_ Hvok]. fold s in Hvok.
    assert (Hex : exists k, alphabet_invoker vp c s = Halt k /\ k ∉ stored_tally (box s) id (height c) /\
                            Z.of_nat (length (tally_incl (abs_box (box s)) id k (height c))) = threshold A).
    { destruct Hinv as (Ha & Hnd & Hsm).
      unfold NeoFSVote.nstep, gstep in Hfire. cbn [fst snd] in Hfire.
      rewrite (gexec_gated vp sa di collect c s o id Hd) in Hfire. unfold gated_nf in Hfire.
      destruct (alphabet_invoker vp c s) as [k|] eqn:Ek; cbn [obind fst snd] in Hfire; [|discriminate].
      destruct (args_ok vp o); cbn [fst snd] in Hfire; [|discriminate].
      destruct (collect (alphabet s) (box s) id k (height c)) as [[b1 go]|] eqn:Ec; cbn [obind fst snd] in Hfire; [|discriminate].
      destruct go; cbn [fst snd] in Hfire; [|discriminate].
      rewrite Ha in Ec. destruct (collect_exact _ _ _ _ _ _ _ Hnd Hsm Ec) as (_ & _ & Hgo).
      exists k. destruct (Hgo eq_refl). auto. }
    destruct Hinv as (Ha & _). split; [exact Ha|].
    destruct Hex as (k & Hk & Hnew & Hlen). exists k. split; [exact Hk|].
    rewrite <- (tally_incl_eq _ _ _ id k Heq). unfold stored_tally in Hnew.
    rewrite <- (tlive_eq _ _ _ id Heq).
    apply alphabet_invoker_member in Hk as [Hm _]. rewrite Ha in Hm.
    destruct (tally_incl_ok (fun k => k ∈ A) (box s) id k (height c) Hvok Hm) as [Hn Hsub].
    split; [exact Hn|]. split; [exact Hsub|]. split; [|exact Hnew].
    rewrite Hlen. apply threshold_thr.
  Qed.

End Theorems.

Lemma quorums_intersect_thm (A q1 q2 : list bytes) :
  NoDup q1 -> NoDup q2 -> q1 ⊆ A -> q2 ⊆ A ->
  thr (Z.of_nat (length A)) <= Z.of_nat (length q1) ->
  thr (Z.of_nat (length A)) <= Z.of_nat (length q2) ->
  exists k, k ∈ q1 /\ k ∈ q2.
Proof.
  intros N1 N2 S1 S2 H1 H2. apply (lists_intersect A); auto.
  destruct A as [|a A'].
  - destruct q1; [cbn in H1; unfold thr in H1; cbn in H1; lia|].
    exfalso. eapply not_elem_of_nil. apply S1. apply elem_of_cons. left. reflexivity.
  - pose proof (thr_bounds (Z.of_nat (length (a :: A')))) as Hb. cbn [length] in *. lia.
Qed.
