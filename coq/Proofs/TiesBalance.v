(** Proofs/TiesBalance.v — ties between the literals of Model/Balance.v and the
    constants of the Go sources as extracted into Gen/Params.v (regenerated from
    /repo's working tree on every run).  A constant edited in the source breaks
    the lemma that names it, and with it Props/C01.v, C02.v, C09.v (which
    Require this file).

    Model/Balance.v keeps accounts in a map keyed by the address, so the
    storage prefix [accPrefix] ('a') does not occur in it; the transfer-detail
    prefixes of common/transfer.go are inline literals of [bexec] /
    [unlock_details], tied here through the details the model emits. *)
From Coq Require Import ZArith NArith List String.
Import ListNotations.
From Verif Require Import Base.Prelude Base.IntCodec Gen.Params Model.Balance Proofs.TiesLib.

(** The details carried by the TransferX notifications of one step. *)
Definition details_of (r : bstate * val * list notif) : list bytes :=
  flat_map (fun n => match n with NTransferX _ _ _ d => [d] | _ => [] end) (snd r).

Definition A1 : bytes := repeat 1%N 20.
Definition A2 : bytes := repeat 2%N 20.
Definition alpha_ctx : bctx := mkCtx [] true.
Definition funded : bstate := fst (fst (bstep binit (alpha_ctx, Mint A1 100 []))).

(** common.mintPrefix = {0x01}: MintTransferDetails *)
Lemma tie_mint_prefix :
  details_of (bstep binit (alpha_ctx, Mint A1 5 [9%N])) = [bytes_of_zs p_common_mintPrefix ++ [9%N]].
Proof. vm_compute. reflexivity. Qed.

(** common.burnPrefix = {0x02}: BurnTransferDetails *)
Lemma tie_burn_prefix :
  details_of (bstep funded (alpha_ctx, Burn A1 5 [9%N])) = [bytes_of_zs p_common_burnPrefix ++ [9%N]].
Proof. vm_compute. reflexivity. Qed.

(** common.lockPrefix = {0x03}: LockTransferDetails *)
Lemma tie_lock_prefix :
  details_of (bstep funded (alpha_ctx, Lock [9%N] A1 A2 5 7)) = [bytes_of_zs p_common_lockPrefix ++ [9%N]].
Proof. vm_compute. reflexivity. Qed.

(** common.unlockPrefix = {0x04}: UnlockTransferDetails(epoch) *)
Lemma tie_unlock_prefix :
  unlock_details 5 = bytes_of_zs p_common_unlockPrefix ++ int_to_bytes 5.
Proof. vm_compute. reflexivity. Qed.

(** ... and the same through a whole history: lock until epoch 7, tick epoch 7. *)
Lemma tie_unlock_prefix_run :
  let s1 := fst (fst (bstep funded (alpha_ctx, Lock [9%N] A1 A2 5 7))) in
  details_of (bstep s1 (alpha_ctx, NewEpoch 7)) = [bytes_of_zs p_common_unlockPrefix ++ int_to_bytes 7].
Proof. vm_compute. reflexivity. Qed.
