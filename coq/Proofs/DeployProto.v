(** Proofs/DeployProto.v — lemmas about the Notary-bootstrap protocol model. *)
From Verif Require Import Base.Prelude Model.DeployProto.
From Coq Require Import ZifyBool ZifyNat ZifyN.
Local Open Scope Z_scope.

(** * Map helpers *)

Lemma m_extract_perm k m v m' :
  m_extract k m = Some (v, m') -> Permutation m ((k, v) :: m').
Proof.
  revert v m'. induction m as [|[j w] m IH]; intros v m' H; [discriminate|].
  cbn [m_extract] in H. destruct (k =? j)%nat eqn:E.
  - injection H as <- <-. apply Nat.eqb_eq in E. subst. reflexivity.
  - destruct (m_extract k m) as [[v0 r]|] eqn:Ex; [|discriminate].
    injection H as <- <-. rewrite (IH _ _ eq_refl). apply perm_swap.
Qed.

Lemma range_map_perm order : forall m, Permutation (range_map order m) (map snd m).
Proof.
  induction order as [|k order IH]; intros m; [reflexivity|].
  cbn [range_map]. destruct (m_extract k m) as [[v m']|] eqn:E; [|apply IH].
  rewrite (Permutation_map snd (m_extract_perm _ _ _ _ E)). cbn [map snd].
  constructor. apply IH.
Qed.

Lemma m_insert_keys_in i v m :
  In i (map fst m) -> map fst (m_insert i v m) = map fst m.
Proof.
  induction m as [|[j w] m IH]; [intros []|].
  cbn [m_insert map fst]. destruct (i =? j)%nat eqn:E.
  - apply Nat.eqb_eq in E. subst. reflexivity.
  - apply Nat.eqb_neq in E. intros [H|H]; [congruence|]. cbn [map fst]. rewrite IH by exact H. reflexivity.
Qed.

Lemma m_insert_keys_notin i v m :
  ~ In i (map fst m) -> map fst (m_insert i v m) = map fst m ++ [i].
Proof.
  induction m as [|[j w] m IH]; [reflexivity|].
  cbn [m_insert map fst]. intros H. destruct (i =? j)%nat eqn:E.
  - apply Nat.eqb_eq in E. subst. exfalso. apply H. left. reflexivity.
  - cbn [map fst app]. rewrite IH; [reflexivity|]. intros H'. apply H. right. exact H'.
Qed.

Lemma m_insert_In i v m e : In e (m_insert i v m) -> e = (i, v) \/ In e m.
Proof.
  induction m as [|[j w] m IH]; cbn [m_insert].
  - intros [<-|[]]. left; reflexivity.
  - destruct (i =? j)%nat.
    + intros [<-|H]; [left; reflexivity|right; right; exact H].
    + intros [<-|H]; [right; left; reflexivity|].
      destruct (IH H) as [->|H']; [left; reflexivity|right; right; exact H'].
Qed.

Lemma m_insert_length i v m : (length m <= length (m_insert i v m) <= S (length m))%nat.
Proof.
  induction m as [|[j w] m IH]; cbn [m_insert length]; [lia|].
  destruct (i =? j)%nat; cbn [length]; lia.
Qed.

Lemma m_insert_NoDup i v m : NoDup (map fst m) -> NoDup (map fst (m_insert i v m)).
Proof.
  intros H. destruct (in_dec Nat.eq_dec i (map fst m)) as [Hin|Hnin].
  - rewrite m_insert_keys_in by exact Hin. exact H.
  - rewrite m_insert_keys_notin by exact Hnin. apply NoDup_app. split; [exact H|]. split.
    + intros x Hx Hx'. apply elem_of_list_singleton in Hx'. subst. apply Hnin.
      apply elem_of_list_In. exact Hx.
    + apply NoDup_singleton.
Qed.

(** * The leader's local invariant *)

(** [P i] restricts which indices may be keys of the map (used twice: with
    the trivial bound for safety, with liveness of the member for the
    blocked-run theorem). *)
Definition m_ok (v : variant) (P : nat -> Prop) (n : nat) (m : list (nat * sigval)) : Prop :=
  NoDup (map fst m) /\ (length m <= maj_m n - 1)%nat /\
  Forall (fun e => sv_by (snd e) = fst e /\ (fst e < v_first v + (n - 1))%nat /\ P (fst e)) m.

(** The remote part of the witness is either not appended yet or the result
    of one finalisation. *)
Definition script_ok (v : variant) (P : nat -> Prop) (n : nat) (sc : list sigval) : Prop :=
  sc = [] \/
  (length sc = (maj_m n - 1)%nat /\ NoDup (map sv_by sc) /\
   Forall (fun s => (sv_by s < v_first v + (n - 1))%nat /\ P (sv_by s)) sc).

Definition linv (v : variant) (P : nat -> Prop) (n : nat) (l : leader) : Prop :=
  (l_full l = false -> l_script l = []) /\ m_ok v P n (l_m l) /\ script_ok v P n (l_script l).

Lemma m_ok_nil v P n : m_ok v P n [].
Proof. split; [constructor|]. split; [simpl; lia|constructor]. Qed.

Lemma linv_leader0 v P n : linv v P n leader0.
Proof. split; [reflexivity|split; [apply m_ok_nil|left; reflexivity]]. Qed.

Lemma linv_reset v P n l : linv v P n (reset_tx l).
Proof. split; [reflexivity|split; [apply m_ok_nil|left; reflexivity]]. Qed.

(** Chain-side premise of the collection loop: which indices may be inserted. *)
Definition recs_ok (P : nat -> Prop) (c : chain) : Prop :=
  forall i r, lookup_sig c i = LRecord r -> sv_by (sr_sig r) = i -> P i.

Lemma collect_step_ok v P n c d m inv i :
  recs_ok P c -> (i < v_first v + (n - 1))%nat ->
  m_ok v P n m -> (length m < maj_m n - 1)%nat ->
  match collect_step n c d (maj_m n - 1) m inv i with
  | CContinue m' _ => m_ok v P n m' /\ (length m' < maj_m n - 1)%nat
  | CBreak m' => m_ok v P n m'
  | CRegenerate => True
  end.
Proof.
  intros Hc Hi (Hnd & Hlen & Hall) Hlt. unfold collect_step.
  destruct (lookup_sig c i) as [| |r] eqn:El; try (split; [split; [|split]|]; assumption).
  destruct (bool_decide (sr_ck r = d)); cbn [negb]; [|split; [split; [|split]|]; assumption].
  destruct (bool_decide (sv_by (sr_sig r) = i)) eqn:Eb; cbn [andb negb].
  2:{ destruct (n <? S inv + maj_m n)%nat; [exact I|]. split; [split; [|split]|]; assumption. }
  destruct (bool_decide (sv_over (sr_sig r) = d)); cbn [negb].
  2:{ destruct (n <? S inv + maj_m n)%nat; [exact I|]. split; [split; [|split]|]; assumption. }
  apply bool_decide_eq_true in Eb.
  pose proof (m_insert_length i (sr_sig r) m) as Hl.
  assert (Hok : m_ok v P n (m_insert i (sr_sig r) m) \/ True) by (right; exact I). clear Hok.
  assert (Hm : NoDup (map fst (m_insert i (sr_sig r) m)) /\
               Forall (fun e => sv_by (snd e) = fst e /\ (fst e < v_first v + (n - 1))%nat /\ P (fst e))
                      (m_insert i (sr_sig r) m)).
  { split; [apply m_insert_NoDup; exact Hnd|].
    apply List.Forall_forall. intros e He. apply m_insert_In in He as [->|He].
    - cbn [fst snd]. split; [exact Eb|]. split; [exact Hi|]. exact (Hc i r El Eb).
    - rewrite List.Forall_forall in Hall. apply Hall. exact He. }
  destruct Hm as [Hnd' Hall'].
  destruct (length (m_insert i (sr_sig r) m) =? maj_m n - 1)%nat eqn:E.
  - apply Nat.eqb_eq in E. split; [exact Hnd'|]. split; [lia|exact Hall'].
  - apply Nat.eqb_neq in E. split; [split; [exact Hnd'|split; [lia|exact Hall']]|lia].
Qed.

Lemma collect_loop_ok v P n c d is : forall m inv,
  recs_ok P c -> Forall (fun i => (i < v_first v + (n - 1))%nat) is ->
  m_ok v P n m -> (length m < maj_m n - 1)%nat ->
  match collect_loop n c d (maj_m n - 1) m inv is with
  | CContinue m' _ => m_ok v P n m' /\ (length m' < maj_m n - 1)%nat
  | CBreak m' => m_ok v P n m'
  | CRegenerate => True
  end.
Proof.
  induction is as [|i is IH]; intros m inv Hc His Hm Hlt; cbn [collect_loop]; [split; assumption|].
  apply Forall_cons_1 in His as [Hi His].
  pose proof (collect_step_ok v P n c d m inv i Hc Hi Hm Hlt) as Hs.
  destruct (collect_step n c d (maj_m n - 1) m inv i) as [m' inv'| m' |]; [|exact Hs|exact I].
  destruct Hs as [Hm' Hlt']. apply IH; assumption.
Qed.

Lemma seq_bound v n : Forall (fun i => (i < v_first v + (n - 1))%nat) (seq (v_first v) (n - 1)).
Proof. apply List.Forall_forall. intros i Hi. apply in_seq in Hi. lia. Qed.

(** * What a tick may do *)

Definition assembled_ok (v : variant) (n : nat) (d : data) (script : list sigval) : Prop :=
  length script = maj_m n /\
  hd_error script = Some (mkSig 0 d) /\
  NoDup (map sv_by (tail script)) /\
  Forall (fun s => (sv_by s < v_first v + (n - 1))%nat) (tail script).

Definition is_designate (w : write) : bool :=
  match w with WDesignate _ _ => true | _ => false end.

Definition is_sigwrite (w : write) : bool :=
  match w with WAddSig _ _ | WSetSig _ _ => true | _ => false end.

(** A signature record may be sent only with a signature of a member in [P]. *)
Definition sent_ok (P : nat -> Prop) (w : write) : Prop :=
  match w with
  | WAddSig _ r | WSetSig _ r => P (sv_by (sr_sig r))
  | _ => True
  end.

Record tick_ok (v : variant) (P : nat -> Prop) (n : nat) (c : chain) (c' : chain) (l' : leader) (ev : list event) : Prop := {
  to_linv : linv v P n l';
  to_des : c_designated c' = c_designated c;
  to_dom : c_txdom c' = c_txdom c /\ c_sigdom c' = c_sigdom c /\ c_height c' = c_height c;
  to_pool : forall e, In e (c_pool c') -> In e (c_pool c) \/ In (ESent (fst e) (snd e)) ev;
  to_asm : forall d sc, In (EAssembled d sc) ev -> assembled_ok v n d sc /\ Forall (fun s => P (sv_by s)) (tail sc);
  to_sent : forall id d sc, In (ESent id (WDesignate d sc)) ev ->
            valid_witness n d sc = true /\ length sc = maj_m n /\ script_ok v P n (tail sc);
  to_kind : forall id w, In (ESent id w) ev -> sent_ok P w
}.

Lemma pool_add_spec c w c' id :
  pool_add c w = (c', id) ->
  c_pool c' = c_pool c ++ [(id, w)] /\ c_designated c' = c_designated c /\
  c_txdom c' = c_txdom c /\ c_sigdom c' = c_sigdom c /\ c_height c' = c_height c.
Proof. unfold pool_add. intros [= <- <-]. cbn. repeat split; reflexivity. Qed.

Lemma gas_ok v P n maxinc nonce b c l c' l' ev :
  generate_and_share maxinc nonce b c l = (c', l', ev) ->
  linv v P n l' /\ c_designated c' = c_designated c /\
  (c_txdom c' = c_txdom c /\ c_sigdom c' = c_sigdom c /\ c_height c' = c_height c) /\
  (forall e, In e (c_pool c') -> In e (c_pool c) \/ In (ESent (fst e) (snd e)) ev) /\
  (forall e, In e ev -> exists id w, e = ESent id w /\ is_designate w = false /\ is_sigwrite w = false).
Proof.
  unfold generate_and_share. set (w := if b then _ else _).
  destruct (write_ok c w); cbn [negb].
  - destruct (pool_add c w) as [c1 id] eqn:Ep. intros [= <- <- <-].
    apply pool_add_spec in Ep as (Hp & Hd & Ht & Hs & Hh).
    split; [split; [reflexivity|split; [apply m_ok_nil|left; reflexivity]]|]. split; [exact Hd|]. split; [auto|]. split.
    + intros e He. rewrite Hp in He. apply in_app_or in He as [He|[<-|[]]]; [left; exact He|].
      right. left. reflexivity.
    + intros e [<-|[]]. exists id, w. split; [reflexivity|]. subst w. destruct b; split; reflexivity.
  - intros [= <- <- <-]. split; [apply linv_reset|]. split; [reflexivity|]. split; [auto|].
    split; [intros e He; left; exact He|intros e []].
Qed.

Lemma gas_tick_ok v P n maxinc nonce b c l c' l' ev :
  generate_and_share maxinc nonce b c l = (c', l', ev) -> tick_ok v P n c c' l' ev.
Proof.
  intros H. apply (gas_ok v P n) in H as (H1 & H2 & H3 & H4 & H5).
  split; try assumption.
  - intros d sc Hin. apply H5 in Hin as (id & w & Hw & _). discriminate.
  - intros id d sc Hin. apply H5 in Hin as (id' & w & Hw & Hd & _). injection Hw as <- <-. discriminate.
  - intros id w Hin. apply H5 in Hin as (id' & w' & Hw & _ & Hk). injection Hw as <- <-.
    destruct w; try exact I; discriminate.
Qed.

(** Events that may precede the outcome of the send within one tick. *)
Definition pre_ok (v : variant) (P : nat -> Prop) (n : nat) (e : event) : Prop :=
  match e with
  | ERejected _ _ => True
  | EAssembled d sc => assembled_ok v n d sc /\ Forall (fun s => P (sv_by s)) (tail sc)
  | ESent _ _ => False
  end.

Lemma tick_ok_prepend v P n c c' l' ev ev0 :
  tick_ok v P n c c' l' ev -> Forall (pre_ok v P n) ev0 -> tick_ok v P n c c' l' (ev0 ++ ev).
Proof.
  intros [H1 H2 H3 H4 H5 H6 H7] H0. rewrite List.Forall_forall in H0. split; try assumption.
  - intros e He. destruct (H4 e He) as [H|H]; [left; exact H|right; apply in_or_app; right; exact H].
  - intros d sc Hin. apply in_app_or in Hin as [Hin|Hin]; [|apply H5; exact Hin].
    exact (H0 _ Hin).
  - intros id d sc Hin. apply in_app_or in Hin as [Hin|Hin]; [|exact (H6 id d sc Hin)].
    destruct (H0 _ Hin).
  - intros id w Hin. apply in_app_or in Hin as [Hin|Hin]; [|exact (H7 id w Hin)].
    destruct (H0 _ Hin).
Qed.

Lemma tick_ok_same v P n c l : linv v P n l -> tick_ok v P n c c l [].
Proof.
  intros H. split; try reflexivity; try exact H; try (intros; contradiction).
  - auto.
  - intros e He. left. exact He.
Qed.

Lemma maj_m_pos n : (1 <= n)%nat -> (1 <= maj_m n)%nat.
Proof.
  intros H. unfold maj_m. pose proof (Nat.div_le_upper_bound (n - 1) 2 (n - 1) ltac:(lia) ltac:(lia)). lia.
Qed.

Lemma node_verdict_accepted n d sc :
  node_verdict n d sc = VAccepted -> valid_witness n d sc = true /\ length sc = maj_m n.
Proof.
  unfold node_verdict. destruct (length sc =? maj_m n)%nat eqn:E; cbn [negb]; [|discriminate].
  destruct (valid_witness n d sc); [|discriminate]. intros _. apply Nat.eqb_eq in E. auto.
Qed.

Lemma range_map_ok v P n order m :
  m_ok v P n m ->
  NoDup (map sv_by (range_map order m)) /\
  Forall (fun s => (sv_by s < v_first v + (n - 1))%nat /\ P (sv_by s)) (range_map order m) /\
  length (range_map order m) = length m.
Proof.
  intros (Hnd & _ & Hall). pose proof (range_map_perm order m) as Hp.
  assert (Hk : map sv_by (map snd m) = map fst m).
  { rewrite map_map. apply map_ext_in. intros e He. rewrite List.Forall_forall in Hall. apply (Hall e He). }
  split; [|split].
  - rewrite (Permutation_map sv_by Hp), Hk. exact Hnd.
  - rewrite Hp. apply List.Forall_forall. intros s Hs. apply in_map_iff in Hs as (e & <- & He).
    rewrite List.Forall_forall in Hall. destruct (Hall e He) as (E & Hlt & HP). rewrite E. auto.
  - rewrite (Permutation_length Hp), map_length. reflexivity.
Qed.

Lemma leader_finish_ok v P n maxinc nonce order c d l c' l' ev :
  (1 <= n)%nat -> linv v P n l ->
  leader_finish v n maxinc nonce order c d l = (c', l', ev) ->
  tick_ok v P n c c' l' ev.
Proof.
  intros Hn Hl. unfold leader_finish.
  destruct (length (l_m l) <? maj_m n - 1)%nat eqn:Elen; [intros [= <- <- <-]; apply tick_ok_same; exact Hl|].
  destruct (bool_decide (is_Some (l_reg l))); [intros [= <- <- <-]; apply tick_ok_same; exact Hl|].
  destruct (l_tried l) eqn:Etried; [apply gas_tick_ok|].
  pose proof (maj_m_pos n Hn) as Hpos.
  assert (Hlen : length (l_m l) = (maj_m n - 1)%nat) by (destruct Hl as (_ & (_ & Hle & _) & _); lia).
  unfold assemble. set (order' := if v_sorted v then seq 0 (S n) else order).
  pose proof (range_map_ok v P n order' (l_m l) (proj1 (proj2 Hl))) as (Hrnd & Hrall & Hrlen).
  (* the (possibly) finalised leader and the event of finalisation *)
  set (lev := if l_full l then _ else _).
  assert (Hlev : linv v P n (fst lev) /\ Forall (pre_ok v P n) (snd lev) /\
                 l_m (fst lev) = l_m l).
  { subst lev. destruct (l_full l) eqn:Ef; cbn [fst snd].
    - split; [exact Hl|]. split; [constructor|reflexivity].
    - rewrite (proj1 Hl Ef). cbn [app].
      split; [split; [discriminate|split; [exact (proj1 (proj2 Hl))|]]|].
      { right. cbn [l_script]. split; [lia|]. split; [exact Hrnd|exact Hrall]. }
      split; [|reflexivity].
      constructor; [|constructor]. cbn [pre_ok]. split.
      + split; [cbn [length]; lia|]. split; [reflexivity|]. cbn [tail]. split; [exact Hrnd|].
        eapply List.Forall_impl; [|exact Hrall]. intros s [H _]. exact H.
      + cbn [tail]. eapply List.Forall_impl; [|exact Hrall]. intros s [_ H]. exact H. }
  destruct lev as [l1 ev1]. cbn [fst snd] in Hlev. destruct Hlev as (Hl1 & Hev1 & Hm1).
  set (w := WDesignate d (mkSig 0 d :: l_script l1)).
  set (vd0 := node_verdict n d (mkSig 0 d :: l_script l1)).
  assert (Hv0 : vd0 = VAccepted -> valid_witness n d (mkSig 0 d :: l_script l1) = true /\
                                 length (mkSig 0 d :: l_script l1) = maj_m n).
  { subst vd0. apply node_verdict_accepted. }
  set (vd := match vd0 with VAccepted => _ | _ => vd0 end).
  assert (Hv : vd = VAccepted -> vd0 = VAccepted).
  { subst vd. destruct vd0; try discriminate; auto. }
  clearbody vd. destruct vd.
  - (* accepted *)
    destruct (pool_add c w) as [c1 id] eqn:Ep. intros [= <- <- <-].
    apply pool_add_spec in Ep as (Hp & Hd & Ht & Hs & Hh).
    change (ev1 ++ [ESent id w]) with (ev1 ++ [ESent id w]).
    apply tick_ok_prepend; [|exact Hev1].
    split.
    + destruct Hl1 as (Ha & Hb & Hc). split; [exact Ha|split; [exact Hb|exact Hc]].
    + exact Hd.
    + auto.
    + intros e He. rewrite Hp in He. apply in_app_or in He as [He|[<-|[]]]; [left; exact He|right; left; reflexivity].
    + intros d0 sc [H|[]]. discriminate.
    + intros id0 d0 sc [H|[]]. injection H as _ <- <-.
      destruct (Hv0 (Hv eq_refl)) as [Hw Hlw]. split; [exact Hw|]. split; [exact Hlw|]. exact (proj2 (proj2 Hl1)).
    + intros id0 w0 [H|[]]. injection H as _ <-. exact I.
  - (* invalid signature *)
    intros [= <- <- <-]. rewrite <- (app_nil_r (ev1 ++ _)).
    apply tick_ok_prepend; [apply tick_ok_same; exact Hl1|].
    apply Forall_app. split; [exact Hev1|]. constructor; [exact I|constructor].
  - (* verification failed *)
    destruct (generate_and_share maxinc nonce true c l1) as [[c1 l2] ev2] eqn:Eg. intros [= <- <- <-].
    apply tick_ok_prepend; [apply (gas_tick_ok v P n) in Eg; exact Eg|].
    apply Forall_app. split; [exact Hev1|]. constructor; [exact I|constructor].
  - (* already known *)
    intros [= <- <- <-]. rewrite <- (app_nil_r (ev1 ++ _)).
    apply tick_ok_prepend; [apply tick_ok_same; exact Hl1|].
    apply Forall_app. split; [exact Hev1|]. constructor; [exact I|constructor].
Qed.

(** The leader tick preserves the local invariant, changes the chain only
    by pooling what it reports as sent, and everything it assembles is
    well-formed. *)
Lemma leader_tick_ok v P n maxinc nonce order c l c' l' ev :
  (1 <= n)%nat -> recs_ok P c -> linv v P n l ->
  leader_tick v n maxinc nonce order c l = (c', l', ev) ->
  tick_ok v P n c c' l' ev.
Proof.
  intros Hn Hc Hl. unfold leader_tick.
  destruct (lookup_tx c) as [| |d].
  - (* missing domain *)
    destruct (bool_decide (is_Some (l_reg l))); [intros [= <- <- <-]; apply tick_ok_same; exact Hl|].
    destruct (pool_add c WRegTx) as [c1 id] eqn:Ep. intros [= <- <- <-].
    apply pool_add_spec in Ep as (Hp & Hd & Ht & Hs & Hh).
    split; try assumption; try (repeat split; assumption).
    + intros e He. rewrite Hp in He. apply in_app_or in He as [He|[<-|[]]]; [left; exact He|right; left; reflexivity].
    + intros d sc [H|[]]. discriminate.
    + intros id' d sc [H|[]]. discriminate.
    + intros id' w [H|[]]. injection H as _ <-. exact I.
  - destruct (bool_decide (is_Some (l_set l))); [intros [= <- <- <-]; apply tick_ok_same; exact Hl|].
    apply gas_tick_ok.
  - destruct (d_vub d <? c_height c); [apply gas_tick_ok|].
    set (l1 := if bool_decide (l_tx l = Some d) then l else _).
    assert (Hl1 : linv v P n l1).
    { subst l1. destruct (bool_decide (l_tx l = Some d)); [exact Hl|].
      destruct Hl as (_ & Hm & _). split; [reflexivity|]. split; [exact Hm|left; reflexivity]. }
    clearbody l1. clear Hl l. rename l1 into l, Hl1 into Hl.
    set (need := (maj_m n - 1)%nat).
    set (collected := if (length (l_m l) <? need)%nat then _ else _).
    assert (Hcol : match collected with
                   | CContinue m' _ | CBreak m' => m_ok v P n m'
                   | CRegenerate => True end).
    { subst collected. destruct (length (l_m l) <? need)%nat eqn:E.
      - pose proof (collect_loop_ok v P n c d (seq (v_first v) (n - 1)) (l_m l) 0%nat Hc (seq_bound v n) (proj1 (proj2 Hl)) ltac:(subst need; lia)) as H.
        fold need in H. destruct (collect_loop n c d need (l_m l) 0 (seq (v_first v) (n - 1))); [apply H|exact H|exact I].
      - exact (proj1 (proj2 Hl)). }
    destruct collected as [m inv|m|]; [| |apply gas_tick_ok].
    + apply leader_finish_ok; [exact Hn|]. split; [exact (proj1 Hl)|split; [exact Hcol|exact (proj2 (proj2 Hl))]].
    + apply leader_finish_ok; [exact Hn|]. split; [exact (proj1 Hl)|split; [exact Hcol|exact (proj2 (proj2 Hl))]].
Qed.

(** * Signer and solo ticks *)

Lemma tick_ok_send v P n c c1 id w l :
  linv v P n l -> pool_add c w = (c1, id) -> is_designate w = false -> sent_ok P w ->
  tick_ok v P n c c1 l [ESent id w].
Proof.
  intros Hl Ep Hw Hk. apply pool_add_spec in Ep as (Hp & Hd & Ht & Hs & Hh).
  split; try assumption; try (repeat split; assumption).
  - intros e He. rewrite Hp in He. apply in_app_or in He as [He|[<-|[]]]; [left; exact He|right; left; reflexivity].
  - intros d sc [H|[]]. discriminate.
  - intros id' d sc [H|[]]. injection H as _ ->. discriminate Hw.
  - intros id' w' [H|[]]. injection H as _ <-. exact Hk.
Qed.

Lemma signer_tick_ok v (P : nat -> Prop) n k c sg c' sg' ev l :
  P k -> linv v P n l -> signer_tick k c sg = (c', sg', ev) -> tick_ok v P n c c' l ev.
Proof.
  intros Hk Hl. unfold signer_tick.
  destruct (lookup_tx c) as [| |d]; try (intros [= <- <- <-]; apply tick_ok_same; exact Hl).
  destruct (d_vub d <? c_height c); [intros [= <- <- <-]; apply tick_ok_same; exact Hl|].
  destruct (lookup_sig c k) as [| |r].
  - destruct (bool_decide (is_Some _)); [intros [= <- <- <-]; apply tick_ok_same; exact Hl|].
    destruct (pool_add c (WRegSig k)) as [c1 id] eqn:Ep. intros [= <- <- <-].
    eapply tick_ok_send; eauto; exact I.
  - destruct (bool_decide (is_Some _)); [intros [= <- <- <-]; apply tick_ok_same; exact Hl|].
    destruct (write_ok c _); cbn [negb]; [|intros [= <- <- <-]; apply tick_ok_same; exact Hl].
    destruct (pool_add c _) as [c1 id] eqn:Ep. intros [= <- <- <-].
    eapply tick_ok_send; eauto; exact Hk.
  - destruct (_ && _); [intros [= <- <- <-]; apply tick_ok_same; exact Hl|].
    destruct (write_ok c _); cbn [negb]; [|intros [= <- <- <-]; apply tick_ok_same; exact Hl].
    destruct (pool_add c _) as [c1 id] eqn:Ep. intros [= <- <- <-].
    eapply tick_ok_send; eauto; exact Hk.
Qed.

Lemma solo_tick_ok v P nonce c p c' p' ev l :
  linv v P 1 l -> solo_tick nonce c p = (c', p', ev) -> tick_ok v P 1 c c' l ev.
Proof.
  intros Hl. unfold solo_tick.
  destruct (bool_decide (is_Some p)); [intros [= <- <- <-]; apply tick_ok_same; exact Hl|].
  destruct (pool_add c _) as [c1 id] eqn:Ep. intros [= <- <- <-].
  apply pool_add_spec in Ep as (Hp & Hd & Ht & Hs & Hh).
  split; try assumption; try (repeat split; assumption).
  - intros e He. rewrite Hp in He. apply in_app_or in He as [He|[<-|[]]]; [left; exact He|right; left; reflexivity].
  - intros d sc [H|[]]. discriminate.
  - intros id' d sc [H|[]]. injection H as _ <- <-. split; [|split; [reflexivity|left; reflexivity]].
    unfold valid_witness. cbn [forallb map strictly_increasing sv_over sv_by].
    rewrite bool_decide_eq_true_2 by reflexivity. reflexivity.
  - intros id' w [H|[]]. injection H as _ <-. exact I.
Qed.

(** * Global invariant over histories *)

Definition ginv (v : variant) (P : nat -> Prop) (n : nat) (s : pstate) (evs : list event) : Prop :=
  linv v P n (p_leader s) /\
  (forall e, In e (c_pool (p_chain s)) -> In (ESent (fst e) (snd e)) evs) /\
  (c_designated (p_chain s) = true -> exists id d sc, In (ESent id (WDesignate d sc)) evs) /\
  (forall d sc, In (EAssembled d sc) evs -> assembled_ok v n d sc /\ Forall (fun s => P (sv_by s)) (tail sc)) /\
  (forall id d sc, In (ESent id (WDesignate d sc)) evs ->
     valid_witness n d sc = true /\ length sc = maj_m n /\ script_ok v P n (tail sc)).

Lemma ginv_init v P n h0 : ginv v P n (pinit h0) [].
Proof.
  split; [apply linv_leader0|]. split; [intros e []|]. split; [discriminate|].
  split; intros; contradiction.
Qed.

Lemma ginv_tick v P n c l sg so c' l' sg' so' ev evs :
  tick_ok v P n c c' l' ev -> ginv v P n (mkP c l sg so) evs -> ginv v P n (mkP c' l' sg' so') (evs ++ ev).
Proof.
  intros [T1 T2 T3 T4 T5 T6 _] (G1 & G2 & G3 & G4 & G5). unfold ginv. cbn [p_chain p_leader] in *.
  split; [exact T1|]. split; [|split; [|split]].
  - intros e He. apply in_or_app. destruct (T4 e He) as [H|H]; [left; apply G2; exact H|right; exact H].
  - rewrite T2. intros Hd. destruct (G3 Hd) as (id & d & sc & Hin). exists id, d, sc. apply in_or_app. left. exact Hin.
  - intros d sc Hin. apply in_app_or in Hin as [Hin|Hin]; [apply G4; exact Hin|apply T5; exact Hin].
  - intros id d sc Hin. apply in_app_or in Hin as [Hin|Hin]; [apply (G5 id); exact Hin|apply (T6 id); exact Hin].
Qed.

Lemma apply_write_pool c w : c_pool (apply_write c w) = c_pool c.
Proof. unfold apply_write. repeat case_match; reflexivity. Qed.

Lemma apply_write_des c w :
  c_designated (apply_write c w) = true -> c_designated c = true \/ is_designate w = true.
Proof. unfold apply_write. repeat case_match; cbn; auto. Qed.

Lemma In_delete {A} (x : A) i (l : list A) : In x (delete i l) -> In x l.
Proof.
  revert i. induction l as [|y l IH]; intros [|i]; cbn; auto.
  intros [H|H]; [left; exact H|right; apply (IH i); exact H].
Qed.

Lemma list_find_In {A} (f : A -> bool) (l : list A) i x :
  list_find (fun e => f e = true) l = Some (i, x) -> In x l.
Proof.
  intros H. apply list_find_Some in H as (H & _ & _).
  apply elem_of_list_In. eapply elem_of_list_lookup_2. exact H.
Qed.

Lemma linv_flags v P n l r s : linv v P n l ->
  linv v P n (mkLeader (l_tx l) (l_script l) (l_m l) (l_full l) (l_tried l) r s).
Proof. intros H. exact H. Qed.

Lemma land_ginv v P n id s evs : ginv v P n s evs -> ginv v P n (land id s) evs.
Proof.
  intros G. unfold land.
  destruct (list_find _ (c_pool (p_chain s))) as [[pos [id' w]]|] eqn:Ef; [|exact G].
  assert (Hin : In (id', w) (c_pool (p_chain s))).
  { apply list_find_Some in Ef as (H & _ & _).
    apply elem_of_list_In. eapply elem_of_list_lookup_2. exact H. }
  destruct G as (G1 & G2 & G3 & G4 & G5).
  unfold ginv, clear_flags. cbn [p_chain p_leader].
  split; [exact G1|]. split; [|split; [|split; assumption]].
  - cbn [c_pool]. intros e He. apply In_delete in He. rewrite apply_write_pool in He. apply G2. exact He.
  - cbn [c_designated]. intros Hd. apply apply_write_des in Hd as [Hd|Hd]; [apply G3; exact Hd|].
    destruct w; try discriminate. exists id', d, script. exact (G2 _ Hin).
Qed.

Lemma land_all_ginv v P n ids : forall s evs,
  ginv v P n s evs -> ginv v P n (fold_left (fun s (e : nat * write) => land (fst e) s) ids s) evs.
Proof.
  induction ids as [|e ids IH]; intros s evs G; [exact G|]. cbn [fold_left]. apply IH. apply land_ginv. exact G.
Qed.

(** One step of any label, under a chain-side premise that bounds what the
    leader may collect. *)
Lemma pstep_ginv v P n maxinc s lb s' ev evs :
  (1 <= n)%nat -> recs_ok P (p_chain s) ->
  (forall k nonce order, lb = LTick k nonce order -> k <> 0%nat -> P k) ->
  pstep v n maxinc s lb = (s', ev) -> ginv v P n s evs -> ginv v P n s' (evs ++ ev).
Proof.
  intros Hn Hc HP Hstep G. destruct s as [c l sg so]. destruct lb as [k nonce order|k|id| | |i recs]; cbn [pstep p_chain p_leader p_signers p_solo] in Hstep.
  - destruct (c_designated c || negb (k <? n)%nat); [injection Hstep as <- <-; rewrite app_nil_r; exact G|].
    destruct (n =? 1)%nat eqn:E1.
    + apply Nat.eqb_eq in E1. subst n.
      destruct (solo_tick nonce c so) as [[c1 p1] ev1] eqn:Et. injection Hstep as <- <-.
      eapply ginv_tick; [|exact G]. eapply solo_tick_ok; [exact (proj1 G)|exact Et].
    + destruct (k =? 0)%nat eqn:E0.
      * destruct (leader_tick v n maxinc nonce order c l) as [[c1 l1] ev1] eqn:Et. injection Hstep as <- <-.
        eapply ginv_tick; [|exact G]. eapply leader_tick_ok; [exact Hn|exact Hc|exact (proj1 G)|exact Et].
      * destruct (signer_tick k c _) as [[c1 sg1] ev1] eqn:Et. injection Hstep as <- <-.
        eapply ginv_tick; [|exact G]. apply Nat.eqb_neq in E0.
        eapply signer_tick_ok; [exact (HP k nonce order eq_refl E0)|exact (proj1 G)|exact Et].
  - destruct (k =? 0)%nat; injection Hstep as <- <-; rewrite app_nil_r;
      destruct G as (G1 & G2 & G3 & G4 & G5); (split; [|split; [|split; [|split]]]; try assumption).
    apply linv_leader0.
  - injection Hstep as <- <-. rewrite app_nil_r. apply land_ginv. exact G.
  - injection Hstep as <- <-. rewrite app_nil_r. apply land_all_ginv. exact G.
  - injection Hstep as <- <-. rewrite app_nil_r. exact G.
  - injection Hstep as <- <-. rewrite app_nil_r. exact G.
Qed.

(** * Safety over every history (arbitrary scheduler, foreign records included) *)

Lemma recs_ok_True c : recs_ok (fun _ => True) c.
Proof. intros i r _ _. exact I. Qed.

Lemma prun_ginv_True v n maxinc ls : forall s evs0,
  (1 <= n)%nat -> ginv v (fun _ => True) n s evs0 ->
  ginv v (fun _ => True) n (fst (prun v n maxinc s ls)) (evs0 ++ snd (prun v n maxinc s ls)).
Proof.
  induction ls as [|lb ls IH]; intros s evs0 Hn G; cbn [prun fst snd]; [rewrite app_nil_r; exact G|].
  destruct (pstep v n maxinc s lb) as [s1 ev1] eqn:Es.
  specialize (IH s1 (evs0 ++ ev1) Hn).
  destruct (prun v n maxinc s1 ls) as [s2 evs2]. cbn [fst snd] in *.
  rewrite app_assoc. apply IH.
  eapply pstep_ginv; [exact Hn|apply recs_ok_True| |exact Es|exact G]. intros; exact I.
Qed.

(** * Runs of a set of live honest members *)

Definition honest (live : nat -> bool) (lb : label) : Prop :=
  match lb with
  | LGarbage _ _ => False
  | LTick k _ _ => live k = true
  | _ => True
  end.

Definition Plive (live : nat -> bool) (i : nat) : Prop := live i = true /\ (1 <= i)%nat.

Definition sig_honest (live : nat -> bool) (r : sigrec) : Prop := Plive live (sv_by (sr_sig r)).

Definition chain_honest (live : nat -> bool) (c : chain) : Prop :=
  (forall i recs r, c_sigdom c !! i = Some recs -> In r recs -> sig_honest live r) /\
  (forall e, In e (c_pool c) -> sent_ok (Plive live) (snd e)).

Lemma chain_honest_recs_ok live c : chain_honest live c -> recs_ok (Plive live) c.
Proof.
  intros [Ha _] i r Hl Hby. unfold lookup_sig in Hl.
  destruct (c_sigdom c !! i) as [[|r0 recs]|] eqn:E; try discriminate. injection Hl as ->.
  specialize (Ha i (r :: recs) r E ltac:(left; reflexivity)). unfold sig_honest in Ha. rewrite Hby in Ha. exact Ha.
Qed.

Lemma chain_honest_tick v live n c c' l' ev :
  tick_ok v (Plive live) n c c' l' ev -> chain_honest live c -> chain_honest live c'.
Proof.
  intros [_ _ (Ht & Hs & Hh) Hp _ _ Hk] [Ha Hb]. split.
  - rewrite Hs. exact Ha.
  - intros e He. destruct (Hp e He) as [H|H]; [apply Hb; exact H|]. exact (Hk _ _ H).
Qed.

Lemma In_tail {A} (x : A) l : In x (tail l) -> In x l.
Proof. destruct l; cbn; auto. Qed.

Lemma apply_write_honest live c w :
  sent_ok (Plive live) w ->
  (forall i recs r, c_sigdom c !! i = Some recs -> In r recs -> sig_honest live r) ->
  (forall i recs r, c_sigdom (apply_write c w) !! i = Some recs -> In r recs -> sig_honest live r).
Proof.
  intros Hw Ha. unfold apply_write. destruct (write_ok c w); cbn [negb]; [|exact Ha].
  destruct w as [| | |j|j r0|j r0|]; try exact Ha.
  - destruct (c_txdom c); exact Ha.
  - destruct (c_sigdom c !! j) eqn:E; [exact Ha|]. cbn [c_sigdom]. intros i recs r Hl Hin.
    destruct (decide (i = j)) as [->|Hne].
    + rewrite lookup_insert in Hl. injection Hl as <-. destruct Hin.
    + rewrite lookup_insert_ne in Hl by congruence. exact (Ha i recs r Hl Hin).
  - cbn [c_sigdom]. intros i recs r Hl Hin.
    destruct (decide (i = j)) as [->|Hne].
    + rewrite lookup_insert in Hl. injection Hl as <-. apply in_app_or in Hin as [Hin|[<-|[]]]; [|exact Hw].
      destruct (c_sigdom c !! j) as [recs0|] eqn:E; [|destruct Hin]. exact (Ha j recs0 r E Hin).
    + rewrite lookup_insert_ne in Hl by congruence. exact (Ha i recs r Hl Hin).
  - cbn [c_sigdom]. intros i recs r Hl Hin.
    destruct (decide (i = j)) as [->|Hne].
    + rewrite lookup_insert in Hl. injection Hl as <-. destruct Hin as [<-|Hin]; [exact Hw|].
      apply In_tail in Hin.
      destruct (c_sigdom c !! j) as [recs0|] eqn:E; [|destruct Hin]. exact (Ha j recs0 r E Hin).
    + rewrite lookup_insert_ne in Hl by congruence. exact (Ha i recs r Hl Hin).
Qed.

Lemma land_honest live id s : chain_honest live (p_chain s) -> chain_honest live (p_chain (land id s)).
Proof.
  intros [Ha Hb]. unfold land.
  destruct (list_find _ (c_pool (p_chain s))) as [[pos [id' w]]|] eqn:Ef; [|split; assumption].
  assert (Hin : In (id', w) (c_pool (p_chain s))).
  { apply list_find_Some in Ef as (H & _ & _).
    apply elem_of_list_In. eapply elem_of_list_lookup_2. exact H. }
  unfold clear_flags. cbn [p_chain]. split.
  - cbn [c_sigdom]. apply apply_write_honest; [exact (Hb _ Hin)|exact Ha].
  - cbn [c_pool]. intros e He. apply In_delete in He. rewrite apply_write_pool in He. exact (Hb e He).
Qed.

Lemma land_all_honest live ids : forall s,
  chain_honest live (p_chain s) ->
  chain_honest live (p_chain (fold_left (fun s (e : nat * write) => land (fst e) s) ids s)).
Proof.
  induction ids as [|e ids IH]; intros s H; [exact H|]. cbn [fold_left]. apply IH. apply land_honest. exact H.
Qed.

Lemma pstep_honest v live n maxinc s lb s' ev evs :
  (1 <= n)%nat -> honest live lb ->
  pstep v n maxinc s lb = (s', ev) ->
  ginv v (Plive live) n s evs -> chain_honest live (p_chain s) ->
  ginv v (Plive live) n s' (evs ++ ev) /\ chain_honest live (p_chain s').
Proof.
  intros Hn Hh Hstep G Hc. split.
  - eapply pstep_ginv; [exact Hn|apply chain_honest_recs_ok; exact Hc| |exact Hstep|exact G].
    intros k nonce order -> Hk. cbn in Hh. split; [exact Hh|lia].
  - destruct s as [c l sg so]. destruct lb as [k nonce order|k|id| | |i recs]; cbn [pstep p_chain p_leader p_signers p_solo] in Hstep.
    + cbn in Hh. destruct (c_designated c || negb (k <? n)%nat); [injection Hstep as <- <-; exact Hc|].
      destruct (n =? 1)%nat eqn:E1.
      * apply Nat.eqb_eq in E1. subst n.
        destruct (solo_tick nonce c so) as [[c1 p1] ev1] eqn:Et. injection Hstep as <- <-. cbn [p_chain].
        eapply chain_honest_tick; [|exact Hc]. eapply solo_tick_ok; [exact (proj1 G)|exact Et].
      * destruct (k =? 0)%nat eqn:E0.
        -- destruct (leader_tick v n maxinc nonce order c l) as [[c1 l1] ev1] eqn:Et. injection Hstep as <- <-. cbn [p_chain].
           eapply chain_honest_tick; [|exact Hc].
           eapply leader_tick_ok; [exact Hn|apply chain_honest_recs_ok; exact Hc|exact (proj1 G)|exact Et].
        -- destruct (signer_tick k c _) as [[c1 sg1] ev1] eqn:Et. injection Hstep as <- <-. cbn [p_chain].
           eapply chain_honest_tick; [|exact Hc]. apply Nat.eqb_neq in E0.
           eapply signer_tick_ok; [|exact (proj1 G)|exact Et]. split; [exact Hh|lia].
    + destruct (k =? 0)%nat; injection Hstep as <- <-; exact Hc.
    + injection Hstep as <- <-. apply land_honest. exact Hc.
    + injection Hstep as <- <-. apply land_all_honest. exact Hc.
    + injection Hstep as <- <-. exact Hc.
    + destruct Hh.
Qed.

Lemma prun_honest v live n maxinc ls : forall s evs0,
  (1 <= n)%nat -> Forall (honest live) ls ->
  ginv v (Plive live) n s evs0 -> chain_honest live (p_chain s) ->
  ginv v (Plive live) n (fst (prun v n maxinc s ls)) (evs0 ++ snd (prun v n maxinc s ls)).
Proof.
  induction ls as [|lb ls IH]; intros s evs0 Hn Hh G Hc; cbn [prun fst snd]; [rewrite app_nil_r; exact G|].
  apply Forall_cons_1 in Hh as [Hh Hhs].
  destruct (pstep v n maxinc s lb) as [s1 ev1] eqn:Es.
  destruct (pstep_honest v live n maxinc s lb s1 ev1 evs0 Hn Hh Es G Hc) as [G1 Hc1].
  specialize (IH s1 (evs0 ++ ev1) Hn Hhs G1 Hc1).
  destruct (prun v n maxinc s1 ls) as [s2 evs2]. cbn [fst snd] in *.
  rewrite app_assoc. exact IH.
Qed.

Lemma chain_honest_init live h0 : chain_honest live (p_chain (pinit h0)).
Proof.
  split.
  - intros i recs r H. cbn in H. rewrite lookup_empty in H. discriminate.
  - intros e [].
Qed.

(** * Pigeonhole: how many signatures the leader can ever hold *)

(** Live members whose signature domain the leader's loop reads and checks
    with their own key (the loop visits [v_first v .. v_first v + n - 2],
    member k >= 1 writes domain k): indices 1..n-2 before fix 70faaf5,
    1..n-1 since. *)
Definition readable (v : variant) (n : nat) (live : nat -> bool) : nat :=
  length (List.filter live (seq 1 (v_first v + (n - 1) - 1))).

Lemma readable_bound v n live (sc : list sigval) :
  NoDup (map sv_by sc) ->
  Forall (fun s => (sv_by s < v_first v + (n - 1))%nat /\ Plive live (sv_by s)) sc ->
  (length sc <= readable v n live)%nat.
Proof.
  intros Hnd Hall. rewrite <- (map_length sv_by). unfold readable.
  apply NoDup_incl_length; [apply NoDup_ListNoDup; exact Hnd|].
  intros x Hx. apply in_map_iff in Hx as (s & <- & Hs).
  rewrite List.Forall_forall in Hall. destruct (Hall s Hs) as (Hlt & Hlive & Hge).
  apply filter_In. split; [|exact Hlive]. apply in_seq. lia.
Qed.

(** If fewer than [maj_m n - 1] live members are readable, no history of
    the live members (any interleaving, restarts, delays) ever assembles a
    witness, sends a designation, or gets the role designated. *)
Lemma blocked v n maxinc h0 live ls :
  (2 <= n)%nat -> (readable v n live < maj_m n - 1)%nat ->
  Forall (honest live) ls ->
  let r := prun v n maxinc (pinit h0) ls in
  (forall d sc, ~ In (EAssembled d sc) (snd r)) /\
  (forall id d sc, ~ In (ESent id (WDesignate d sc)) (snd r)) /\
  c_designated (p_chain (fst r)) = false.
Proof.
  intros Hn Hr Hh r.
  pose proof (prun_honest v live n maxinc ls (pinit h0) [] ltac:(lia) Hh (ginv_init _ _ n h0) (chain_honest_init live h0)) as G.
  fold r in G. cbn [app] in G. destruct G as (_ & _ & G3 & G4 & G5).
  assert (H2 : forall id d sc, ~ In (ESent id (WDesignate d sc)) (snd r)).
  { intros id d sc Hin. destruct (G5 id d sc Hin) as (_ & Hlen & [Hnil|(Hl & Hnd & Hall)]).
    - destruct sc as [|s0 sc]; cbn [tail length] in *; [lia|]. subst sc. cbn [length] in Hlen. lia.
    - pose proof (readable_bound v n live (tail sc) Hnd Hall). lia. }
  split; [|split; [exact H2|]].
  - intros d sc Hin. destruct (G4 d sc Hin) as ((Hlen & _ & Hnd & Hb) & HP).
    assert (Hall : Forall (fun s => (sv_by s < v_first v + (n - 1))%nat /\ Plive live (sv_by s)) (tail sc)).
    { rewrite List.Forall_forall in *. intros s Hs. split; [apply Hb; exact Hs|apply HP; exact Hs]. }
    pose proof (readable_bound v n live (tail sc) Hnd Hall) as Hle.
    destruct sc as [|s0 sc]; cbn [tail length] in *; lia.
  - destruct (c_designated (p_chain (fst r))) eqn:E; [|reflexivity].
    destruct (G3 eq_refl) as (id & d & sc & Hin). destruct (H2 id d sc Hin).
Qed.

(** * Helpers for the computed theorems of Props/C13.v *)

(** Designated on the fair schedule (8 rounds, ascending map order) iff
    enough readable members are live. *)
Definition partial_check (n : nat) (mask : list bool) : bool :=
  Bool.eqb
    (c_designated (p_chain (fst (prun as_pinned n 5760 (pinit 0) (fair_rounds 8 (members mask) 1 (seq 0 n))))))
    (maj_m n - 1 <=? readable as_pinned n (live_of mask))%nat.

Lemma all_masks_complete n : forall mask, length mask = n -> In mask (all_masks n).
Proof.
  induction n as [|n IH]; intros [|b mask] Hl; try discriminate; [left; reflexivity|].
  cbn [all_masks]. apply in_flat_map. exists mask. split; [apply IH; injection Hl as ->; reflexivity|].
  destruct b; [left|right; left]; reflexivity.
Qed.


Fixpoint first_assembled (evs : list event) : option (data * list sigval) :=
  match evs with
  | [] => None
  | EAssembled d sc :: _ => Some (d, sc)
  | _ :: evs' => first_assembled evs'
  end.
Lemma first_assembled_In evs d sc : first_assembled evs = Some (d, sc) -> In (EAssembled d sc) evs.
Proof.
  induction evs as [|e evs IH]; [discriminate|]. destruct e; cbn [first_assembled]; intros H;
    try (right; apply IH; exact H). injection H as -> ->. left. reflexivity.
Qed.


(** Number of live members; the repaired code ignores the proposed map order. *)
Definition live_count (n : nat) (live : nat -> bool) : nat := length (List.filter live (seq 0 n)).

Lemma assemble_repaired_order n o1 o2 m : assemble as_repaired n o1 m = assemble as_repaired n o2 m.
Proof. reflexivity. Qed.

(** * Liveness in the working tree ([as_repaired]) for SYMBOLIC committee
    size: on the canonical fair schedule (every live member ticks, everything
    pooled is executed, a block passes) five rounds designate the role
    whenever the leader and at least M-1 other members are live.  Symbolic
    execution of the model, round by round; the members' ticks are handled by
    induction over the member list. *)
Definition pexec (v : variant) (n : nat) (maxinc : Z) (s : pstate) (ls : list label) : pstate :=
  fst (prun v n maxinc s ls).

Lemma pexec_nil v n maxinc s : pexec v n maxinc s [] = s.
Proof. reflexivity. Qed.

Lemma pexec_cons v n maxinc s lb ls :
  pexec v n maxinc s (lb :: ls) = pexec v n maxinc (fst (pstep v n maxinc s lb)) ls.
Proof.
  unfold pexec. cbn [prun]. destruct (pstep v n maxinc s lb) as [s1 ev1]. cbn [fst].
  destruct (prun v n maxinc s1 ls) as [s2 evs2]. reflexivity.
Qed.

Lemma pexec_app v n maxinc ls1 : forall s ls2,
  pexec v n maxinc s (ls1 ++ ls2) = pexec v n maxinc (pexec v n maxinc s ls1) ls2.
Proof.
  induction ls1 as [|lb ls1 IH]; intros s ls2; [reflexivity|].
  rewrite <- app_comm_cons, !pexec_cons. apply IH.
Qed.

(** * What ticks read of the chain *)
Definition view (c : chain) : Z * option (list data) * gmap nat (list sigrec) * bool :=
  (c_height c, c_txdom c, c_sigdom c, c_designated c).

Lemma view_pool_add c w : view (fst (pool_add c w)) = view c.
Proof. reflexivity. Qed.

Definition add_opt (c : chain) (w : option write) : chain :=
  match w with Some w => fst (pool_add c w) | None => c end.

Lemma view_add_opt c w : view (add_opt c w) = view c.
Proof. destruct w; reflexivity. Qed.

Lemma pool_add_opt c w :
  c_pool (add_opt c w) = c_pool c ++ match w with Some w => [(c_next c, w)] | None => [] end.
Proof. destruct w; cbn; [reflexivity|rewrite app_nil_r; reflexivity]. Qed.

Lemma apply_write_view c1 c2 w :
  view c1 = view c2 -> view (apply_write c1 w) = view (apply_write c2 w).
Proof.
  destruct c1 as [h1 t1 g1 d1 p1 n1], c2 as [h2 t2 g2 d2 p2 n2]. unfold view. cbn.
  intros [= -> -> -> ->]. unfold apply_write, write_ok. cbn.
  repeat case_match; reflexivity.
Qed.

Lemma fold_apply_write_view ws : forall c1 c2,
  view c1 = view c2 -> view (fold_left apply_write ws c1) = view (fold_left apply_write ws c2).
Proof.
  induction ws as [|w ws IH]; intros c1 c2 Hv; [exact Hv|]. cbn [fold_left]. apply IH.
  apply apply_write_view. exact Hv.
Qed.

Lemma apply_write_next c w : c_next (apply_write c w) = c_next c.
Proof. unfold apply_write. repeat case_match; reflexivity. Qed.

(** * Executing everything pooled *)

Definition clear_all (p : list (nat * write)) (f : pending) : pending :=
  fold_left (fun f e => clear (fst e) f) p f.

Lemma clear_all_None p : clear_all p None = None.
Proof. induction p as [|e p IH]; [reflexivity|exact IH]. Qed.

Definition land_fold (p : list (nat * write)) (s : pstate) : pstate :=
  fold_left (fun s (e : nat * write) => land (fst e) s) p s.

Lemma land_head id w p s :
  c_pool (p_chain s) = (id, w) :: p ->
  land id s =
  clear_flags id
    (mkP (let c' := apply_write (p_chain s) w in
          mkChain (c_height c') (c_txdom c') (c_sigdom c') (c_designated c') p (c_next c'))
         (p_leader s) (p_signers s) (p_solo s)).
Proof.
  intros Hp. unfold land. rewrite Hp. cbn [list_find fst].
  rewrite bool_decide_eq_true_2 by reflexivity.
  case_decide as Hd; [|exfalso; apply Hd; exact I].
  rewrite apply_write_pool, Hp. reflexivity.
Qed.

Lemma get_signer_clear id s k :
  get_signer (clear_flags id s) k =
  let sg := get_signer s k in mkSigner (s_tx sg) (clear id (s_reg sg)) (clear id (s_set sg)).
Proof.
  unfold get_signer, clear_flags. cbn [p_signers]. rewrite lookup_fmap.
  destruct (p_signers s !! k) as [sg|]; reflexivity.
Qed.

(** Landing the whole pool, in order: the chain is the fold of the writes,
    the pool is empty, flags are cleared, nothing else changes. *)
Lemma land_fold_spec p : forall s,
  c_pool (p_chain s) = p ->
  let s' := land_fold p s in
  let c' := fold_left apply_write (map snd p) (p_chain s) in
  view (p_chain s') = view c' /\ c_pool (p_chain s') = [] /\ c_next (p_chain s') = c_next (p_chain s) /\
  l_tx (p_leader s') = l_tx (p_leader s) /\ l_script (p_leader s') = l_script (p_leader s) /\
  l_m (p_leader s') = l_m (p_leader s) /\ l_full (p_leader s') = l_full (p_leader s) /\
  l_tried (p_leader s') = l_tried (p_leader s) /\
  l_reg (p_leader s') = clear_all p (l_reg (p_leader s)) /\
  l_set (p_leader s') = clear_all p (l_set (p_leader s)) /\
  (forall k, s_tx (get_signer s' k) = s_tx (get_signer s k) /\
             s_reg (get_signer s' k) = clear_all p (s_reg (get_signer s k)) /\
             s_set (get_signer s' k) = clear_all p (s_set (get_signer s k))).
Proof.
  induction p as [|[id w] p IH]; intros s Hp.
  - cbn. repeat split; try reflexivity. exact Hp.
  - cbn [land_fold fold_left map snd fst]. rewrite (land_head id w p s Hp).
    set (s1 := clear_flags id _).
    assert (Hp1 : c_pool (p_chain s1) = p) by reflexivity.
    specialize (IH s1 Hp1). cbv zeta in IH.
    destruct IH as (I1 & I2 & I3 & I4 & I5 & I6 & I7 & I8 & I9 & I10 & I11).
    assert (Hv : view (fold_left apply_write (map snd p) (p_chain s1)) =
                 view (fold_left apply_write (map snd p) (apply_write (p_chain s) w))).
    { apply fold_apply_write_view. reflexivity. }
    cbv zeta. unfold land_fold in *. rewrite I1, Hv.
    split; [reflexivity|]. split; [exact I2|]. split; [rewrite I3; subst s1; cbn; apply apply_write_next|].
    split; [exact I4|]. split; [exact I5|]. split; [exact I6|]. split; [exact I7|]. split; [exact I8|].
    split; [exact I9|]. split; [exact I10|].
    intros k. destruct (I11 k) as (J1 & J2 & J3). subst s1. rewrite get_signer_clear in J1, J2, J3.
    cbn [s_tx s_reg s_set] in J1, J2, J3. auto.
Qed.

(** * Members' ticks, by induction over the member list *)

Lemma view_fields c1 c2 : view c1 = view c2 ->
  c_height c1 = c_height c2 /\ c_txdom c1 = c_txdom c2 /\ c_sigdom c1 = c_sigdom c2 /\
  c_designated c1 = c_designated c2.
Proof. unfold view. intros [= -> -> -> ->]. auto. Qed.

Lemma pstep_signer v n maxinc s k nonce order :
  c_designated (p_chain s) = false -> (k < n)%nat -> n <> 1%nat -> k <> 0%nat ->
  fst (pstep v n maxinc s (LTick k nonce order)) =
  mkP (fst (fst (signer_tick k (p_chain s) (get_signer s k)))) (p_leader s)
      (<[k := snd (fst (signer_tick k (p_chain s) (get_signer s k)))]> (p_signers s)) (p_solo s).
Proof.
  intros Hd Hk Hn H0. cbn [pstep]. rewrite Hd.
  replace (k <? n)%nat with true by lia. cbn [negb orb].
  replace (n =? 1)%nat with false by lia. replace (k =? 0)%nat with false by lia.
  destruct (signer_tick k (p_chain s) (get_signer s k)) as [[c1 sg1] ev1]. reflexivity.
Qed.

Lemma get_signer_insert_eq c l sg so k x : get_signer (mkP c l (<[k := x]> sg) so) k = x.
Proof. unfold get_signer. cbn [p_signers]. rewrite lookup_insert. reflexivity. Qed.

Lemma get_signer_insert_ne c l sg so k k' x s :
  k <> k' -> p_signers s = sg -> get_signer (mkP c l (<[k := x]> sg) so) k' = get_signer s k'.
Proof. intros Hne <-. unfold get_signer. cbn [p_signers]. rewrite lookup_insert_ne by exact Hne. reflexivity. Qed.

Lemma signers_fold v n maxinc nonce order (act : nat -> option write)
    (Q : signer -> Prop) (R : signer -> signer -> Prop) T : forall s,
  c_designated (p_chain s) = false -> n <> 1%nat -> List.NoDup T ->
  Forall (fun k => (1 <= k < n)%nat) T ->
  (forall c' sg k, view c' = view (p_chain s) -> In k T -> Q sg ->
      exists sg', fst (signer_tick k c' sg) = (add_opt c' (act k), sg') /\ R sg sg') ->
  (forall k, In k T -> Q (get_signer s k)) ->
  let s' := pexec v n maxinc s (map (fun k => LTick k nonce order) T) in
  view (p_chain s') = view (p_chain s) /\
  (exists L, c_pool (p_chain s') = c_pool (p_chain s) ++ L /\ map snd L = omap act T) /\
  p_leader s' = p_leader s /\
  (forall k, In k T -> R (get_signer s k) (get_signer s' k)) /\
  (forall k, ~ In k T -> get_signer s' k = get_signer s k).
Proof.
  induction T as [|k T IH]; intros s Hd Hn Hnd Hall Hact HQ.
  - cbn. repeat split; try reflexivity; [|intros k []]. exists []. rewrite app_nil_r. split; reflexivity.
  - apply List.NoDup_cons_iff in Hnd as [Hk Hnd]. apply Forall_cons_1 in Hall as [Hkn Hall].
    cbn [map]. cbv zeta. rewrite pexec_cons, (pstep_signer v n maxinc s k nonce order Hd) by lia.
    destruct (Hact (p_chain s) (get_signer s k) k eq_refl ltac:(left; reflexivity) (HQ k ltac:(left; reflexivity)))
      as (sg1 & E1 & HR1).
    rewrite E1. cbn [fst snd].
    set (s1 := mkP (add_opt (p_chain s) (act k)) (p_leader s) (<[k := sg1]> (p_signers s)) (p_solo s)).
    assert (Hv1 : view (p_chain s1) = view (p_chain s)) by apply view_add_opt.
    assert (Hg1 : forall k', k' <> k -> get_signer s1 k' = get_signer s k').
    { intros k' Hne. apply get_signer_insert_ne; [congruence|reflexivity]. }
    specialize (IH s1).
    destruct IH as (I1 & I2 & I3 & I4 & I5).
    + apply view_fields in Hv1 as (_ & _ & _ & ->). exact Hd.
    + exact Hn.
    + exact Hnd.
    + exact Hall.
    + intros c' sg k' Hv Hin HQ'. apply (Hact c' sg k'); [rewrite Hv; exact Hv1|right; exact Hin|exact HQ'].
    + intros k' Hin. rewrite Hg1; [apply HQ; right; exact Hin|]. intros ->. contradiction.
    + split; [rewrite I1; exact Hv1|]. split; [|split; [rewrite I3; reflexivity|split]].
      * destruct I2 as (L & I2 & I2'). rewrite I2. subst s1. cbn [p_chain]. rewrite pool_add_opt, <- app_assoc.
        eexists. split; [reflexivity|]. rewrite map_app, I2'. cbn [omap list_omap].
        destruct (act k); reflexivity.
      * intros k' [<-|Hin].
        -- rewrite I5 by exact Hk. subst s1. rewrite get_signer_insert_eq. exact HR1.
        -- rewrite <- Hg1; [apply I4; exact Hin|]. intros ->. contradiction.
      * intros k' Hnin. rewrite I5; [apply Hg1|]; intros H; apply Hnin; [left; congruence|right; exact H].
Qed.

(** The signer's tick in each phase of the exchange, as a function of what it
    reads. [mine k d]: the record member k writes for shared data d. *)
Definition mine (k : nat) (d : data) : sigrec := mkRec d (mkSig k d).

Lemma signer_tick_idle k c sg :
  c_txdom c = None \/ c_txdom c = Some [] ->
  fst (signer_tick k c sg) = (add_opt c None, sg).
Proof. intros [H|H]; unfold signer_tick, lookup_tx; rewrite H; reflexivity. Qed.

Lemma signer_tick_register k c sg d rest :
  c_txdom c = Some (d :: rest) -> (d_vub d <? c_height c) = false ->
  c_sigdom c !! k = None -> s_reg sg = None ->
  exists sg', fst (signer_tick k c sg) = (add_opt c (Some (WRegSig k)), sg') /\ s_set sg' = s_set sg.
Proof.
  intros Ht He Hs Hr. unfold signer_tick, lookup_tx, lookup_sig. rewrite Ht, He, Hs. cbn [s_reg s_set s_tx].
  rewrite Hr. rewrite bool_decide_eq_false_2 by (intros [x Hx]; discriminate).
  destruct (pool_add c (WRegSig k)) as [c1 id] eqn:Ep. eexists. split; [cbn [fst add_opt]; rewrite Ep; reflexivity|reflexivity].
Qed.

Lemma signer_tick_sign k c sg d rest :
  c_txdom c = Some (d :: rest) -> (d_vub d <? c_height c) = false ->
  c_sigdom c !! k = Some [] -> s_set sg = None ->
  exists sg', fst (signer_tick k c sg) = (add_opt c (Some (WAddSig k (mine k d))), sg') /\ True.
Proof.
  intros Ht He Hs Hr. unfold signer_tick, lookup_tx, lookup_sig. rewrite Ht, He, Hs. cbn [s_reg s_set s_tx].
  rewrite Hr. rewrite bool_decide_eq_false_2 by (intros [x Hx]; discriminate).
  unfold write_ok. rewrite Hs. rewrite bool_decide_eq_false_2 by (intros Hin; inversion Hin). cbn [negb andb length].
  change (0 <? max_records)%nat with true. cbn [negb].
  fold (mine k d).
  destruct (pool_add c (WAddSig k (mine k d))) as [c1 id] eqn:Ep. eexists. split; [cbn [fst add_opt]; rewrite Ep; reflexivity|exact I].
Qed.

Lemma signer_tick_signed k c sg d rest recs :
  c_txdom c = Some (d :: rest) -> (d_vub d <? c_height c) = false ->
  c_sigdom c !! k = Some (mine k d :: recs) ->
  exists sg', fst (signer_tick k c sg) = (add_opt c None, sg') /\ True.
Proof.
  intros Ht He Hs. unfold signer_tick, lookup_tx, lookup_sig. rewrite Ht, He, Hs. cbn [s_reg s_set s_tx].
  unfold mine. cbn [sr_ck sr_sig sv_by sv_over].
  rewrite !bool_decide_eq_true_2 by reflexivity. cbn [andb]. eexists. split; [reflexivity|exact I].
Qed.

(** * The leader's collection loop and the finalisation *)

Lemma pstep_leader v n maxinc s nonce order :
  c_designated (p_chain s) = false -> (2 <= n)%nat ->
  fst (pstep v n maxinc s (LTick 0 nonce order)) =
  mkP (fst (fst (leader_tick v n maxinc nonce order (p_chain s) (p_leader s))))
      (snd (fst (leader_tick v n maxinc nonce order (p_chain s) (p_leader s))))
      (p_signers s) (p_solo s).
Proof.
  intros Hd Hn. cbn [pstep]. rewrite Hd.
  replace (0 <? n)%nat with true by lia. cbn [negb orb].
  replace (n =? 1)%nat with false by lia. cbn [Nat.eqb].
  destruct (leader_tick v n maxinc nonce order (p_chain s) (p_leader s)) as [[c1 l1] ev1]. reflexivity.
Qed.

Lemma collect_none n c d need is : forall m inv,
  (forall i, In i is -> c_sigdom c !! i = None \/ c_sigdom c !! i = Some []) ->
  collect_loop n c d need m inv is = CContinue m inv.
Proof.
  induction is as [|i is IH]; intros m inv H; [reflexivity|].
  cbn [collect_loop]. unfold collect_step, lookup_sig.
  destruct (H i ltac:(left; reflexivity)) as [E|E]; rewrite E; apply IH; intros j Hj; apply H; right; exact Hj.
Qed.

Lemma m_insert_notin i x m : ~ In i (map fst m) -> m_insert i x m = m ++ [(i, x)].
Proof.
  induction m as [|[j w] m IH]; intros H; [reflexivity|].
  cbn [m_insert]. destruct (i =? j)%nat eqn:E.
  - apply Nat.eqb_eq in E. subst. exfalso. apply H. left. reflexivity.
  - cbn [app]. rewrite IH; [reflexivity|]. intros H'. apply H. right. exact H'.
Qed.

Definition ent (d : data) (k : nat) : nat * sigval := (k, mkSig k d).

(** Domains of live members hold their record for [d], the others are not
    registered: the loop collects the first [need] live members of [is]. *)
Lemma collect_live n c d need (live : nat -> bool) is : forall m inv,
  (forall i, In i is -> c_sigdom c !! i = if live i then Some [mine i d] else None) ->
  List.NoDup is -> (forall i, In i is -> ~ In i (map fst m)) -> (length m < need)%nat ->
  collect_loop n c d need m inv is =
  let avail := List.filter live is in
  if (length m + length avail <? need)%nat then CContinue (m ++ map (ent d) avail) inv
  else CBreak (m ++ map (ent d) (take (need - length m) avail)).
Proof.
  induction is as [|i is IH]; intros m inv Hs Hnd Hm Hlt.
  - cbn [collect_loop List.filter length map]. cbv zeta. cbn [length map].
    replace (length m + 0 <? need)%nat with true by lia. rewrite app_nil_r. reflexivity.
  - apply List.NoDup_cons_iff in Hnd as [Hi Hnd].
    cbn [collect_loop List.filter]. unfold collect_step, lookup_sig.
    rewrite (Hs i ltac:(left; reflexivity)). destruct (live i) eqn:El.
    + unfold mine. cbn [sr_ck sr_sig sv_by sv_over].
      rewrite !bool_decide_eq_true_2 by reflexivity. cbn [negb andb].
      rewrite (m_insert_notin i (mkSig i d) m (Hm i ltac:(left; reflexivity))).
      rewrite app_length. cbn [length].
      destruct (length m + 1 =? need)%nat eqn:E.
      * apply Nat.eqb_eq in E. cbv zeta. cbn [length].
        replace (length m + S (length (List.filter live is)) <? need)%nat with false by lia.
        replace (need - length m)%nat with 1%nat by lia. cbn [take map]. reflexivity.
      * apply Nat.eqb_neq in E. rewrite IH.
        -- cbv zeta. rewrite app_length. cbn [length].
           replace (length m + 1 + length (List.filter live is) <? need)%nat
             with (length m + S (length (List.filter live is)) <? need)%nat by (f_equal; lia).
           destruct (length m + S (length (List.filter live is)) <? need)%nat.
           ++ rewrite <- app_assoc. reflexivity.
           ++ replace (need - length m)%nat with (S (need - (length m + 1)))%nat by lia.
              cbn [take map]. rewrite <- app_assoc. reflexivity.
        -- intros j Hj. apply Hs. right. exact Hj.
        -- exact Hnd.
        -- intros j Hj. rewrite map_app. cbn [map fst]. intros Hin. apply in_app_or in Hin as [Hin|[<-|[]]].
           ++ apply (Hm j); [right; exact Hj|exact Hin].
           ++ contradiction.
        -- rewrite app_length. cbn [length]. lia.
    + apply IH; [intros j Hj; apply Hs; right; exact Hj|exact Hnd|intros j Hj; apply Hm; right; exact Hj|exact Hlt].
Qed.

Lemma m_extract_notin k m : ~ In k (map fst m) -> m_extract k m = None.
Proof.
  induction m as [|[j w] m IH]; intros H; [reflexivity|].
  cbn [m_extract]. destruct (k =? j)%nat eqn:E.
  - apply Nat.eqb_eq in E. subst. exfalso. apply H. left. reflexivity.
  - rewrite IH; [reflexivity|]. intros H'. apply H. right. exact H'.
Qed.

Lemma range_map_nil order : range_map order [] = [].
Proof. induction order as [|k order IH]; [reflexivity|exact IH]. Qed.

(** Visiting the keys in ascending order leaves a map with ascending keys as it is. *)
Lemma range_map_sorted (f : nat -> sigval) cnt : forall lo ks,
  StronglySorted lt ks -> Forall (fun k => (lo <= k < lo + cnt)%nat) ks ->
  range_map (seq lo cnt) (map (fun k => (k, f k)) ks) = map f ks.
Proof.
  induction cnt as [|cnt IH]; intros lo ks Hs Hb.
  - destruct ks as [|k ks]; [reflexivity|]. apply Forall_cons_1 in Hb as [Hb _]. lia.
  - cbn [seq range_map]. destruct ks as [|k ks]; [apply range_map_nil|].
    apply StronglySorted_inv in Hs as [Hs Hlt]. apply Forall_cons_1 in Hb as [Hk Hb].
    destruct (Nat.eq_dec k lo) as [->|Hne].
    + cbn [map m_extract]. rewrite Nat.eqb_refl. cbn [map]. f_equal. apply IH; [exact Hs|].
      rewrite List.Forall_forall in *. intros j Hj. specialize (Hb j Hj). specialize (Hlt j Hj). lia.
    + rewrite m_extract_notin.
      * apply (IH (S lo) (k :: ks)); [constructor; assumption|].
        constructor; [lia|]. rewrite List.Forall_forall in *. intros j Hj. specialize (Hb j Hj). specialize (Hlt j Hj). lia.
      * rewrite map_map. cbn [fst]. rewrite map_id. intros [H|H]; [lia|].
        rewrite List.Forall_forall in Hlt. specialize (Hlt lo H). lia.
Qed.

Lemma strictly_increasing_sorted l : StronglySorted lt l -> strictly_increasing l = true.
Proof.
  induction l as [|a l IH]; intros Hs; [reflexivity|].
  apply StronglySorted_inv in Hs as [Hs Hlt]. destruct l as [|b l]; [reflexivity|].
  change (strictly_increasing (a :: b :: l)) with ((a <? b)%nat && strictly_increasing (b :: l)).
  apply Forall_cons_1 in Hlt as [Hab _].
  rewrite IH by exact Hs. replace (a <? b)%nat with true by lia. reflexivity.
Qed.

(** The node accepts the leader's signature followed by those of [need]
    members listed in ascending order. *)
Lemma verdict_sorted n d ks :
  (1 <= n)%nat -> StronglySorted lt ks -> Forall (fun k => (1 <= k < n)%nat) ks ->
  S (length ks) = maj_m n ->
  node_verdict n d (mkSig 0 d :: map (fun k => mkSig k d) ks) = VAccepted.
Proof.
  intros Hn Hs Hb Hlen. unfold node_verdict. cbn [length]. rewrite map_length, Hlen, Nat.eqb_refl. cbn [negb].
  unfold valid_witness. cbn [forallb map sv_over sv_by].
  rewrite bool_decide_eq_true_2 by reflexivity. replace (0 <? n)%nat with true by lia. cbn [andb].
  rewrite map_map. cbn [sv_by]. rewrite map_id.
  assert (Hf : forallb (fun s => bool_decide (sv_over s = d) && (sv_by s <? n)%nat) (map (fun k => mkSig k d) ks) = true).
  { apply forallb_forall. intros s Hin. apply in_map_iff in Hin as (k & <- & Hk). cbn [sv_over sv_by].
    rewrite bool_decide_eq_true_2 by reflexivity. rewrite List.Forall_forall in Hb. specialize (Hb k Hk).
    replace (k <? n)%nat with true by lia. reflexivity. }
  rewrite Hf. cbn [andb].
  rewrite (strictly_increasing_sorted (0%nat :: ks)); [reflexivity|].
  constructor; [exact Hs|]. revert Hb. apply List.Forall_impl. intros k Hk. lia.
Qed.

(** * One fair round: leader tick, members' ticks, everything lands, a block *)

Lemma pexec_landall v n maxinc s ls :
  pexec v n maxinc s (LLandAll :: ls) = pexec v n maxinc (land_fold (c_pool (p_chain s)) s) ls.
Proof. rewrite pexec_cons. reflexivity. Qed.

Lemma round_exec v n maxinc nonce order T (act : nat -> option write)
    (Q : signer -> Prop) (R : signer -> signer -> Prop) s c1 l1 ev1 :
  c_designated (p_chain s) = false -> (2 <= n)%nat -> List.NoDup T ->
  Forall (fun k => (1 <= k < n)%nat) T ->
  leader_tick v n maxinc nonce order (p_chain s) (p_leader s) = (c1, l1, ev1) ->
  view c1 = view (p_chain s) ->
  (forall c' sg k, view c' = view (p_chain s) -> In k T -> Q sg ->
      exists sg', fst (signer_tick k c' sg) = (add_opt c' (act k), sg') /\ R sg sg') ->
  (forall k, In k T -> Q (get_signer s k)) ->
  let s' := pexec v n maxinc s (round (0%nat :: T) nonce order) in
  exists L, map snd L = omap act T /\
    let p := c_pool c1 ++ L in
    let cw := fold_left apply_write (map snd p) c1 in
    c_height (p_chain s') = c_height cw + 1 /\ c_txdom (p_chain s') = c_txdom cw /\
    c_sigdom (p_chain s') = c_sigdom cw /\ c_designated (p_chain s') = c_designated cw /\
    c_pool (p_chain s') = [] /\
    l_tx (p_leader s') = l_tx l1 /\ l_script (p_leader s') = l_script l1 /\ l_m (p_leader s') = l_m l1 /\
    l_full (p_leader s') = l_full l1 /\ l_tried (p_leader s') = l_tried l1 /\
    l_reg (p_leader s') = clear_all p (l_reg l1) /\ l_set (p_leader s') = clear_all p (l_set l1) /\
    (forall k, In k T -> exists sg', R (get_signer s k) sg' /\
        s_reg (get_signer s' k) = clear_all p (s_reg sg') /\ s_set (get_signer s' k) = clear_all p (s_set sg')).
Proof.
  intros Hd Hn Hnd Hall Hl Hv1 Hact HQ s'.
  subst s'. unfold round. cbn [map app]. rewrite pexec_cons, (pstep_leader v n maxinc s nonce order Hd Hn), Hl.
  cbn [fst snd]. set (s1 := mkP c1 l1 (p_signers s) (p_solo s)).
  rewrite pexec_app.
  assert (Hd1 : c_designated (p_chain s1) = false).
  { apply view_fields in Hv1 as (_ & _ & _ & E). cbn [p_chain s1]. rewrite E. exact Hd. }
  destruct (signers_fold v n maxinc nonce order act Q R T s1 Hd1 ltac:(lia) Hnd Hall) as (F1 & (L & F2 & F2') & F3 & F4 & F5).
  { intros c' sg k Hv. apply Hact. rewrite Hv. exact Hv1. }
  { intros k Hin. exact (HQ k Hin). }
  set (s2 := pexec v n maxinc s1 (map (fun k => LTick k nonce order) T)) in *.
  rewrite pexec_landall.
  pose proof (land_fold_spec (c_pool (p_chain s2)) s2 eq_refl) as G. cbv zeta in G.
  destruct G as (G1 & G2 & G3 & G4 & G5 & G6 & G7 & G8 & G9 & G10 & G11).
  set (s3 := land_fold (c_pool (p_chain s2)) s2) in *.
  rewrite pexec_cons, pexec_nil. cbn [pstep fst p_chain p_leader c_height c_txdom c_sigdom c_designated c_pool].
  exists L. split; [exact F2'|]. cbv zeta.
  assert (Hp : c_pool (p_chain s2) = c_pool c1 ++ L) by exact F2.
  rewrite Hp in *.
  assert (Hvw : view (fold_left apply_write (map snd (c_pool c1 ++ L)) (p_chain s2)) =
                view (fold_left apply_write (map snd (c_pool c1 ++ L)) c1)).
  { apply fold_apply_write_view. exact F1. }
  rewrite Hvw in G1. apply view_fields in G1 as (H1 & H2 & H3 & H4).
  rewrite H1, H2, H3, H4, G2, G4, G5, G6, G7, G8, G9, G10, F3.
  repeat split; try reflexivity.
  intros k Hin. exists (get_signer s2 k). split; [exact (F4 k Hin)|].
  destruct (G11 k) as (_ & J2 & J3). unfold get_signer in *. cbn [p_signers] in *. auto.
Qed.

(** Effects of the members' writes, all together. *)
Lemma fold_regsig T : forall c,
  List.NoDup T -> (forall k, In k T -> c_sigdom c !! k = None) ->
  let c' := fold_left apply_write (map WRegSig T) c in
  c_height c' = c_height c /\ c_txdom c' = c_txdom c /\ c_designated c' = c_designated c /\
  (forall k, In k T -> c_sigdom c' !! k = Some []) /\
  (forall k, ~ In k T -> c_sigdom c' !! k = c_sigdom c !! k).
Proof.
  induction T as [|k T IH]; intros c Hnd Hs; [cbn; repeat split; auto; intros k []|].
  apply List.NoDup_cons_iff in Hnd as [Hk Hnd]. cbn [map fold_left].
  assert (E : apply_write c (WRegSig k) =
              mkChain (c_height c) (c_txdom c) (<[k := []]> (c_sigdom c)) (c_designated c) (c_pool c) (c_next c)).
  { unfold apply_write. cbn [write_ok negb]. rewrite (Hs k ltac:(left; reflexivity)). reflexivity. }
  rewrite E. set (c1 := mkChain _ _ _ _ _ _).
  destruct (IH c1 Hnd) as (I1 & I2 & I3 & I4 & I5).
  { intros j Hj. cbn [c1 c_sigdom]. rewrite lookup_insert_ne; [apply Hs; right; exact Hj|]. intros ->. contradiction. }
  cbv zeta. split; [exact I1|]. split; [exact I2|]. split; [exact I3|]. split.
  - intros j [<-|Hj]; [|apply I4; exact Hj]. rewrite I5 by exact Hk. cbn [c1 c_sigdom]. apply lookup_insert.
  - intros j Hj. rewrite I5 by (intros H; apply Hj; right; exact H). cbn [c1 c_sigdom].
    apply lookup_insert_ne. intros ->. apply Hj. left. reflexivity.
Qed.

Lemma fold_addsig d T : forall c,
  List.NoDup T -> (forall k, In k T -> c_sigdom c !! k = Some []) ->
  let c' := fold_left apply_write (map (fun k => WAddSig k (mine k d)) T) c in
  c_height c' = c_height c /\ c_txdom c' = c_txdom c /\ c_designated c' = c_designated c /\
  (forall k, In k T -> c_sigdom c' !! k = Some [mine k d]) /\
  (forall k, ~ In k T -> c_sigdom c' !! k = c_sigdom c !! k).
Proof.
  induction T as [|k T IH]; intros c Hnd Hs; [cbn; repeat split; auto; intros k []|].
  apply List.NoDup_cons_iff in Hnd as [Hk Hnd]. cbn [map fold_left].
  assert (E : apply_write c (WAddSig k (mine k d)) =
              mkChain (c_height c) (c_txdom c) (<[k := [mine k d]]> (c_sigdom c)) (c_designated c) (c_pool c) (c_next c)).
  { unfold apply_write, write_ok. rewrite (Hs k ltac:(left; reflexivity)).
    rewrite bool_decide_eq_false_2 by (intros Hin; inversion Hin). reflexivity. }
  rewrite E. set (c1 := mkChain _ _ _ _ _ _).
  destruct (IH c1 Hnd) as (I1 & I2 & I3 & I4 & I5).
  { intros j Hj. cbn [c1 c_sigdom]. rewrite lookup_insert_ne; [apply Hs; right; exact Hj|]. intros ->. contradiction. }
  cbv zeta. split; [exact I1|]. split; [exact I2|]. split; [exact I3|]. split.
  - intros j [<-|Hj]; [|apply I4; exact Hj]. rewrite I5 by exact Hk. cbn [c1 c_sigdom]. apply lookup_insert.
  - intros j Hj. rewrite I5 by (intros H; apply Hj; right; exact H). cbn [c1 c_sigdom].
    apply lookup_insert_ne. intros ->. apply Hj. left. reflexivity.
Qed.

(** * The five rounds *)

Lemma omap_none {A B} (T : list A) : omap (fun _ : A => @None B) T = [].
Proof. induction T as [|a T IH]; [reflexivity|exact IH]. Qed.

Lemma map_snd_nil {A B} (L : list (A * B)) : map snd L = [] -> L = [].
Proof. destruct L; [reflexivity|discriminate]. Qed.

Lemma StronglySorted_filter {A} (Rel : A -> A -> Prop) f l :
  StronglySorted Rel l -> StronglySorted Rel (List.filter f l).
Proof.
  induction 1 as [|a l Hs IH Hall]; [constructor|]. cbn [List.filter]. destruct (f a); [|exact IH].
  constructor; [exact IH|]. rewrite List.Forall_forall in *. intros x Hx. apply filter_In in Hx as [Hx _]. auto.
Qed.

Lemma In_take {A} (x : A) k l : In x (take k l) -> In x l.
Proof.
  revert k. induction l as [|a l IH]; intros [|k]; cbn [take]; try (intros []; fail).
  intros [Hx|Hx]; [left; exact Hx|right; apply (IH k); exact Hx].
Qed.

Lemma StronglySorted_take {A} (Rel : A -> A -> Prop) k l :
  StronglySorted Rel l -> StronglySorted Rel (take k l).
Proof.
  revert k. induction l as [|a l IH]; intros [|k] Hs; cbn [take]; try constructor.
  - apply IH. apply StronglySorted_inv in Hs. tauto.
  - apply StronglySorted_inv in Hs as [_ Hall]. rewrite List.Forall_forall in *. intros x Hx.
    apply Hall. apply (In_take x k). exact Hx.
Qed.

Lemma StronglySorted_seq a b : StronglySorted lt (seq a b).
Proof.
  revert a. induction b as [|b IH]; intros a; [constructor|]. cbn [seq]. constructor; [apply IH|].
  apply List.Forall_forall. intros x Hx. apply in_seq in Hx. lia.
Qed.

Section Live.
  Variables (n : nat) (maxinc h0 nonce : Z) (order : list nat) (live : nat -> bool).
  Hypothesis Hn : (2 <= n)%nat.
  Hypothesis Hinc : 4 <= maxinc.

  (** The live members other than the leader, ascending. *)
  Definition Sl : list nat := List.filter live (seq 1 (n - 1)).
  Definition need : nat := (maj_m n - 1)%nat.
  Hypothesis Hmaj : (need <= length Sl)%nat.

  Lemma Sl_nodup : List.NoDup Sl.
  Proof. apply List.NoDup_filter, seq_NoDup. Qed.
  Lemma Sl_bound : Forall (fun k => (1 <= k < n)%nat) Sl.
  Proof. apply List.Forall_forall. intros k Hk. apply filter_In in Hk as [Hk _]. apply in_seq in Hk. lia. Qed.
  Lemma Sl_sorted : StronglySorted lt Sl.
  Proof. apply StronglySorted_filter, StronglySorted_seq. Qed.
  Lemma Sl_in k : In k Sl <-> (1 <= k < n)%nat /\ live k = true.
  Proof. unfold Sl. rewrite filter_In, in_seq. split; intros [H1 H2]; split; try assumption; lia. Qed.

  Definition inc : Z := vub_increment maxinc.
  Lemma inc_ge : 4 <= inc.
  Proof. unfold inc, vub_increment. destruct (120 <=? maxinc) eqn:E; lia. Qed.

  Notation rnd := (round (0%nat :: Sl) nonce order).
  Notation run := (pexec as_repaired n maxinc).

  (** State at a round boundary. [sg]: records of the live members' signature
      domains ([None]: no signature domain is registered). *)
  Definition bcore (s : pstate) (h : Z) (txd : option (list data))
      (sg : option (nat -> list sigrec)) (ltx : option data) : Prop :=
    c_height (p_chain s) = h /\ c_txdom (p_chain s) = txd /\
    (forall k, c_sigdom (p_chain s) !! k =
               match sg with
               | Some f => if live k && (1 <=? k)%nat && (k <? n)%nat then Some (f k) else None
               | None => None
               end) /\
    c_designated (p_chain s) = false /\ c_pool (p_chain s) = [] /\
    l_tx (p_leader s) = ltx /\ l_script (p_leader s) = [] /\ l_m (p_leader s) = [] /\
    l_full (p_leader s) = false /\ l_tried (p_leader s) = false /\ l_reg (p_leader s) = None.
  Definition boundary (s : pstate) (h : Z) (txd : option (list data))
      (sg : option (nat -> list sigrec)) (ltx : option data) : Prop :=
    bcore s h txd sg ltx /\ (forall k, In k Sl -> s_set (get_signer s k) = None).

  Lemma leader_eta l : l = mkLeader (l_tx l) (l_script l) (l_m l) (l_full l) (l_tried l) (l_reg l) (l_set l).
  Proof. destruct l; reflexivity. Qed.
  Lemma chain_eta c : c = mkChain (c_height c) (c_txdom c) (c_sigdom c) (c_designated c) (c_pool c) (c_next c).
  Proof. destruct c; reflexivity. Qed.

  Lemma live_Sl k : live k && (1 <=? k)%nat && (k <? n)%nat = true <-> In k Sl.
  Proof. rewrite Sl_in. split; [intros H|intros [H1 H2]; rewrite H2]; lia. Qed.

  (** Round 1: the leader registers the shared-data domain. *)
  Lemma round1 :
    let s := run (pinit h0) rnd in
    boundary s (h0 + 1) (Some []) None None /\ l_set (p_leader s) = None /\
    (forall k, In k Sl -> s_reg (get_signer s k) = None).
  Proof.
    intros s.
    destruct (round_exec as_repaired n maxinc nonce order Sl (fun _ => None) (fun _ => True) (fun sg sg' => sg' = sg)
                (pinit h0) (fst (pool_add (chain0 h0) WRegTx))
                (mkLeader None [] [] false false (Some 0%nat) None) [ESent 0 WRegTx]
                eq_refl Hn Sl_nodup Sl_bound eq_refl eq_refl) as (L & HL & H).
    { intros c' sg k Hv _ _. exists sg. split; [|reflexivity]. apply signer_tick_idle. left.
      apply view_fields in Hv as (_ & -> & _). reflexivity. }
    { intros; exact I. }
    rewrite omap_none in HL. apply map_snd_nil in HL. subst L. cbv zeta in H.
    fold s in H. cbn in H.
    destruct H as (A1 & A2 & A3 & A4 & A5 & A6 & A7 & A8 & A9 & A10 & A11 & A12 & A13).
    split; [|split].
    - unfold boundary, bcore. rewrite A1, A2, A3, A4, A5, A6, A7, A8, A9, A10, A11.
      repeat split; try reflexivity.
      intros k Hk. destruct (A13 k Hk) as (sg' & -> & _ & E). exact E.
    - exact A12.
    - intros k Hk. destruct (A13 k Hk) as (sg' & -> & E & _). exact E.
  Qed.

  Lemma is_Some_None_false {A} : bool_decide (is_Some (@None A)) = false.
  Proof. apply bool_decide_eq_false_2. intros [x Hx]. discriminate. Qed.

  (** Round 2: the leader publishes the shared data [d]. *)
  Lemma round2 s h :
    boundary s h (Some []) None None -> l_set (p_leader s) = None ->
    (forall k, In k Sl -> s_reg (get_signer s k) = None) ->
    let s' := run s rnd in
    boundary s' (h + 1) (Some [(h + inc, nonce)]) None None /\
    (forall k, In k Sl -> s_reg (get_signer s' k) = None).
  Proof.
    intros ((B1 & B2 & B3 & B4 & B5 & B6 & B7 & B8 & B9 & B10 & B11) & B12) Hset Hreg s'.
    set (d := (h + inc, nonce)).
    assert (Hl : leader_tick as_repaired n maxinc nonce order (p_chain s) (p_leader s) =
                 (fst (pool_add (p_chain s) (WAddTx d)),
                  mkLeader None [] [] false false None (Some (c_next (p_chain s))),
                  [ESent (c_next (p_chain s)) (WAddTx d)])).
    { unfold leader_tick, lookup_tx. rewrite B2, Hset, is_Some_None_false.
      unfold generate_and_share, write_ok. rewrite B2, B1. fold inc. fold d.
      rewrite bool_decide_eq_false_2 by (intros Hin; inversion Hin). cbn [negb andb length].
      change (0 <? max_records)%nat with true. cbn [negb].
      unfold reset_tx. rewrite B10, B11. cbn [pool_add fst snd l_tx l_script l_m l_full l_tried l_reg]. reflexivity. }
    set (c1 := fst (pool_add (p_chain s) (WAddTx d))) in *.
    assert (Hp1 : c_pool c1 = [(c_next (p_chain s), WAddTx d)]) by (subst c1; cbn; rewrite B5; reflexivity).
    assert (Ew : apply_write c1 (WAddTx d) =
                 mkChain h (Some [d]) (c_sigdom (p_chain s)) false [(c_next (p_chain s), WAddTx d)] (S (c_next (p_chain s)))).
    { subst c1. unfold apply_write, write_ok. cbn [pool_add fst c_txdom c_height c_sigdom c_designated c_pool c_next].
      rewrite B2, B1, B4, B5. rewrite bool_decide_eq_false_2 by (intros Hin; inversion Hin). reflexivity. }
    destruct (round_exec as_repaired n maxinc nonce order Sl (fun _ => None) (fun _ => True) (fun sg sg' => sg' = sg)
                s _ _ _ B4 Hn Sl_nodup Sl_bound Hl eq_refl) as (L & HL & H).
    { intros c' sg k Hv _ _. exists sg. split; [|reflexivity]. apply signer_tick_idle. right.
      apply view_fields in Hv as (_ & -> & _). exact B2. }
    { intros; exact I. }
    rewrite omap_none in HL. apply map_snd_nil in HL. subst L. cbv zeta in H. fold s' in H.
    rewrite app_nil_r, Hp1 in H. cbn [map snd fold_left] in H. rewrite Ew in H.
    cbn [c_height c_txdom c_sigdom c_designated l_tx l_script l_m l_full l_tried l_reg l_set clear_all fold_left fst clear] in H.
    rewrite Nat.eqb_refl in H.
    destruct H as (A1 & A2 & A3 & A4 & A5 & A6 & A7 & A8 & A9 & A10 & A11 & A12 & A13).
    split.
    - unfold boundary, bcore. rewrite A1, A2, A3, A4, A5, A6, A7, A8, A9, A10, A11.
      repeat split; try reflexivity; [exact B3|].
      intros k Hk. destruct (A13 k Hk) as (sg' & -> & _ & E). rewrite E, (B12 k Hk). reflexivity.
    - intros k Hk. destruct (A13 k Hk) as (sg' & -> & E & _). rewrite E, (Hreg k Hk). reflexivity.
  Qed.

  Lemma maj_m_ge2 : (2 <= maj_m n)%nat.
  Proof.
    unfold maj_m. pose proof (Nat.div_mod (n - 1) 2 ltac:(lia)) as H.
    pose proof (Nat.mod_upper_bound (n - 1) 2 ltac:(lia)). lia.
  Qed.
  Lemma need_pos : (1 <= need)%nat.
  Proof. unfold need. pose proof maj_m_ge2. lia. Qed.

  Lemma omap_some {A B} (f : A -> B) (T : list A) : omap (fun k => Some (f k)) T = map f T.
  Proof. induction T as [|a T IH]; [reflexivity|]. cbn. rewrite IH. reflexivity. Qed.

  (** While signatures are missing the leader's tick changes nothing but its
      own transaction. *)
  Lemma leader_wait c l d rest :
    c_txdom c = Some (d :: rest) -> (d_vub d <? c_height c) = false ->
    l_m l = [] -> l_script l = [] ->
    (forall i, In i (seq 1 (n - 1)) -> c_sigdom c !! i = None \/ c_sigdom c !! i = Some []) ->
    leader_tick as_repaired n maxinc nonce order c l =
    (c, mkLeader (Some d) [] [] (l_full l) (l_tried l) (l_reg l) (l_set l), []).
  Proof.
    intros Ht He Hm Hsc Hs. unfold leader_tick, lookup_tx. rewrite Ht, He.
    pose proof need_pos as Hneed. unfold need in Hneed.
    destruct (bool_decide (l_tx l = Some d)) eqn:Eb.
    - apply bool_decide_eq_true in Eb. rewrite Hm. cbn [length].
      replace (0 <? maj_m n - 1)%nat with true by lia. cbn [v_first as_repaired].
      rewrite collect_none by exact Hs. unfold leader_finish, set_m. cbn [l_m length].
      replace (0 <? maj_m n - 1)%nat with true by lia.
      rewrite (leader_eta l) at 1. rewrite Eb, Hm, Hsc. reflexivity.
    - cbn [l_m]. rewrite Hm. cbn [length].
      replace (0 <? maj_m n - 1)%nat with true by lia. cbn [v_first as_repaired].
      rewrite collect_none by exact Hs. unfold leader_finish, set_m. cbn [l_m length l_tx l_script l_full l_tried l_reg l_set].
      replace (0 <? maj_m n - 1)%nat with true by lia. reflexivity.
  Qed.

  (** Round 3: every live member registers its signature domain. *)
  Lemma round3 s h d :
    boundary s h (Some [d]) None None -> h <= d_vub d ->
    (forall k, In k Sl -> s_reg (get_signer s k) = None) ->
    let s' := run s rnd in
    boundary s' (h + 1) (Some [d]) (Some (fun _ => [])) (Some d).
  Proof.
    intros ((B1 & B2 & B3 & B4 & B5 & B6 & B7 & B8 & B9 & B10 & B11) & B12) Hvub Hreg s'.
    assert (He : (d_vub d <? c_height (p_chain s)) = false) by (rewrite B1; lia).
    pose proof (leader_wait (p_chain s) (p_leader s) d [] B2 He B8 B7
                  (fun i _ => or_introl (B3 i))) as Hl.
    destruct (round_exec as_repaired n maxinc nonce order Sl (fun k => Some (WRegSig k))
                (fun sg => s_reg sg = None) (fun sg sg' => s_set sg' = s_set sg)
                s _ _ _ B4 Hn Sl_nodup Sl_bound Hl eq_refl) as (L & HL & H).
    { intros c' sg k Hv Hk HQ. apply view_fields in Hv as (Hv1 & Hv2 & Hv3 & _).
      apply (signer_tick_register k c' sg d []); [rewrite Hv2; exact B2|rewrite Hv1; exact He|rewrite Hv3; apply B3|exact HQ]. }
    { exact Hreg. }
    rewrite omap_some in HL. cbv zeta in H. fold s' in H. rewrite B5 in H. cbn [app] in H. rewrite HL in H.
    destruct (fold_regsig Sl (p_chain s) Sl_nodup (fun k _ => B3 k)) as (W1 & W2 & W3 & W4 & W5). cbv zeta in W1, W2, W3, W4, W5.
    cbn [l_tx l_script l_m l_full l_tried l_reg l_set] in H.
    rewrite W1, W2, W3, B9, B10, B11, clear_all_None in H.
    destruct H as (A1 & A2 & A3 & A4 & A5 & A6 & A7 & A8 & A9 & A10 & A11 & A12 & A13).
    unfold boundary, bcore. rewrite A1, A2, A3, A4, A5, A6, A7, A8, A9, A10, A11, B1, B2, B4.
    repeat split; try reflexivity.
    - intros k. destruct (live k && (1 <=? k)%nat && (k <? n)%nat) eqn:E.
      + apply live_Sl in E. apply W4. exact E.
      + rewrite W5; [apply B3|]. intros Hin. apply live_Sl in Hin. congruence.
    - intros k Hk. destruct (A13 k Hk) as (sg' & Hs' & _ & E). rewrite E, Hs', (B12 k Hk). apply clear_all_None.
  Qed.

  (** Round 4: every live member signs and publishes. *)
  Lemma round4 s h d :
    boundary s h (Some [d]) (Some (fun _ => [])) (Some d) -> h <= d_vub d ->
    let s' := run s rnd in
    bcore s' (h + 1) (Some [d]) (Some (fun k => [mine k d])) (Some d).
  Proof.
    intros ((B1 & B2 & B3 & B4 & B5 & B6 & B7 & B8 & B9 & B10 & B11) & B12) Hvub s'.
    assert (He : (d_vub d <? c_height (p_chain s)) = false) by (rewrite B1; lia).
    assert (Hsd : forall k, In k Sl -> c_sigdom (p_chain s) !! k = Some []).
    { intros k Hk. rewrite B3. apply live_Sl in Hk. rewrite Hk. reflexivity. }
    pose proof (leader_wait (p_chain s) (p_leader s) d [] B2 He B8 B7) as Hl.
    specialize (Hl ltac:(intros i _; rewrite B3; destruct (live i && (1 <=? i)%nat && (i <? n)%nat); auto)).
    destruct (round_exec as_repaired n maxinc nonce order Sl (fun k => Some (WAddSig k (mine k d)))
                (fun sg => s_set sg = None) (fun _ _ => True)
                s _ _ _ B4 Hn Sl_nodup Sl_bound Hl eq_refl) as (L & HL & H).
    { intros c' sg k Hv Hk HQ. apply view_fields in Hv as (Hv1 & Hv2 & Hv3 & _).
      apply (signer_tick_sign k c' sg d []); [rewrite Hv2; exact B2|rewrite Hv1; exact He|rewrite Hv3; apply Hsd; exact Hk|exact HQ]. }
    { exact B12. }
    rewrite omap_some in HL. cbv zeta in H. fold s' in H. rewrite B5 in H. cbn [app] in H. rewrite HL in H.
    destruct (fold_addsig d Sl (p_chain s) Sl_nodup Hsd) as (W1 & W2 & W3 & W4 & W5). cbv zeta in W1, W2, W3, W4, W5.
    cbn [l_tx l_script l_m l_full l_tried l_reg l_set] in H.
    rewrite W1, W2, W3, B9, B10, B11, clear_all_None in H.
    destruct H as (A1 & A2 & A3 & A4 & A5 & A6 & A7 & A8 & A9 & A10 & A11 & A12 & A13).
    unfold bcore. rewrite A1, A2, A3, A4, A5, A6, A7, A8, A9, A10, A11, B1, B2, B4.
    repeat split; try reflexivity.
    - intros k. destruct (live k && (1 <=? k)%nat && (k <? n)%nat) eqn:E.
      + apply live_Sl in E. apply W4. exact E.
      + rewrite W5; [rewrite B3, E; reflexivity|]. intros Hin. apply live_Sl in Hin. congruence.
  Qed.

  (** Round 5: the leader collects, assembles in index order, the node
      accepts, the designation is executed. *)
  Lemma leader_designates c l d :
    c_txdom c = Some [d] -> (d_vub d <? c_height c) = false -> c_pool c = [] ->
    (forall k, c_sigdom c !! k =
               if live k && (1 <=? k)%nat && (k <? n)%nat then Some [mine k d] else None) ->
    l_tx l = Some d -> l_script l = [] -> l_m l = [] -> l_full l = false -> l_tried l = false -> l_reg l = None ->
    exists c1 l1 ev1 sc,
      leader_tick as_repaired n maxinc nonce order c l = (c1, l1, ev1) /\
      view c1 = view c /\ c_pool c1 = [(c_next c, WDesignate d sc)].
  Proof.
    intros Ht He Hp Hs Htx Hsc Hm Hf Htr Hr.
    pose proof need_pos as Hneed. unfold need in Hneed, Hmaj.
    set (ks := take (maj_m n - 1) Sl).
    assert (Hks_len : length ks = (maj_m n - 1)%nat) by (subst ks; rewrite take_length; lia).
    assert (Hks_sorted : StronglySorted lt ks) by (apply StronglySorted_take, Sl_sorted).
    assert (Hks_bound : Forall (fun k => (1 <= k < n)%nat) ks).
    { apply List.Forall_forall. intros k Hk. apply In_take in Hk. pose proof Sl_bound as Hb.
      rewrite List.Forall_forall in Hb. exact (Hb k Hk). }
    unfold leader_tick, lookup_tx. rewrite Ht, He, Htx.
    rewrite bool_decide_eq_true_2 by reflexivity. rewrite Hm. cbn [length].
    replace (0 <? maj_m n - 1)%nat with true by lia. cbn [v_first as_repaired].
    rewrite (collect_live n c d (maj_m n - 1) live (seq 1 (n - 1)) [] 0).
    2:{ intros i Hi. rewrite Hs. apply in_seq in Hi.
        replace (1 <=? i)%nat with true by lia. replace (i <? n)%nat with true by lia.
        rewrite !andb_true_r. reflexivity. }
    2:{ apply seq_NoDup. }
    2:{ intros i _ []. }
    2:{ cbn [length]. lia. }
    cbv zeta. cbn [length app]. fold Sl.
    replace (0 + length Sl <? maj_m n - 1)%nat with false by lia.
    rewrite Nat.sub_0_r. fold ks.
    unfold leader_finish, set_m. cbn [l_m l_reg l_tried l_full l_script l_tx l_set].
    rewrite map_length, Hks_len, Nat.ltb_irrefl, Hr, is_Some_None_false, Htr, Hf, Hsc. cbn [app].
    unfold assemble. cbn [v_sorted as_repaired]. unfold ent.
    rewrite (range_map_sorted (fun k => mkSig k d) (S n) 0 ks Hks_sorted).
    2:{ revert Hks_bound. apply List.Forall_impl. intros k Hk. lia. }
    cbn [l_script].
    rewrite (verdict_sorted n d ks ltac:(lia) Hks_sorted Hks_bound ltac:(lia)).
    rewrite Hp. cbn [map].
    rewrite bool_decide_eq_false_2 by (intros Hin; inversion Hin).
    cbn [pool_add]. eexists _, _, _, _. split; [reflexivity|]. split; [reflexivity|].
    cbn [c_pool]. rewrite Hp. reflexivity.
  Qed.

  Lemma round5 s h d :
    bcore s h (Some [d]) (Some (fun k => [mine k d])) (Some d) -> h <= d_vub d ->
    c_designated (p_chain (run s rnd)) = true.
  Proof.
    intros (B1 & B2 & B3 & B4 & B5 & B6 & B7 & B8 & B9 & B10 & B11) Hvub.
    assert (He : (d_vub d <? c_height (p_chain s)) = false) by (rewrite B1; lia).
    destruct (leader_designates (p_chain s) (p_leader s) d B2 He B5 B3 B6 B7 B8 B9 B10 B11)
      as (c1 & l1 & ev1 & sc & Hl & Hv1 & Hp1).
    destruct (round_exec as_repaired n maxinc nonce order Sl (fun _ => None) (fun _ => True) (fun _ _ => True)
                s _ _ _ B4 Hn Sl_nodup Sl_bound Hl Hv1) as (L & HL & H).
    { intros c' sg k Hv Hk _. apply view_fields in Hv as (Hv1' & Hv2 & Hv3 & _).
      apply (signer_tick_signed k c' sg d [] []); [rewrite Hv2; exact B2|rewrite Hv1'; exact He|].
      rewrite Hv3, B3. apply live_Sl in Hk. rewrite Hk. reflexivity. }
    { intros; exact I. }
    rewrite omap_none in HL. apply map_snd_nil in HL. subst L. cbv zeta in H.
    rewrite app_nil_r, Hp1 in H. cbn [map snd fold_left] in H.
    destruct H as (_ & _ & _ & A4 & _). rewrite A4.
    unfold apply_write. cbn [write_ok negb]. reflexivity.
  Qed.

  Lemma five_rounds :
    c_designated (p_chain (run (pinit h0) (fair_rounds 5 (0%nat :: Sl) nonce order))) = true.
  Proof.
    unfold fair_rounds. cbn [repeat concat]. rewrite app_nil_r, !pexec_app.
    destruct round1 as (R1 & R1s & R1r). cbv zeta in R1, R1s, R1r.
    set (s1 := run (pinit h0) rnd) in *.
    destruct (round2 s1 (h0 + 1) R1 R1s R1r) as (R2 & R2r). cbv zeta in R2, R2r.
    set (s2 := run s1 rnd) in *. set (d := (h0 + 1 + inc, nonce)) in *.
    pose proof inc_ge as Hi.
    pose proof (round3 s2 (h0 + 1 + 1) d R2 ltac:(cbn; lia) R2r) as R3. cbv zeta in R3.
    set (s3 := run s2 rnd) in *.
    pose proof (round4 s3 (h0 + 1 + 1 + 1) d R3 ltac:(cbn; lia)) as R4. cbv zeta in R4.
    set (s4 := run s3 rnd) in *.
    exact (round5 s4 (h0 + 1 + 1 + 1 + 1) d R4 ltac:(cbn; lia)).
  Qed.
End Live.

(** * Once designated, always designated *)
Lemma apply_write_des_mono c w : c_designated c = true -> c_designated (apply_write c w) = true.
Proof. intros H. unfold apply_write. repeat case_match; cbn; auto. Qed.

Lemma land_des_mono id s : c_designated (p_chain s) = true -> c_designated (p_chain (land id s)) = true.
Proof.
  intros H. unfold land. destruct (list_find _ _) as [[pos [id' w]]|]; [|exact H].
  unfold clear_flags. cbn. apply apply_write_des_mono. exact H.
Qed.

Lemma pstep_des_mono v n maxinc s lb :
  c_designated (p_chain s) = true -> c_designated (p_chain (fst (pstep v n maxinc s lb))) = true.
Proof.
  intros H. destruct lb as [k nonce order|k|id| | |i recs]; cbn [pstep].
  - rewrite H. cbn [orb fst]. exact H.
  - destruct (k =? 0)%nat; exact H.
  - apply land_des_mono. exact H.
  - cbn [fst]. generalize (c_pool (p_chain s)). intros p. revert s H.
    induction p as [|e p IH]; intros s H; [exact H|]. cbn [fold_left]. apply IH. apply land_des_mono. exact H.
  - exact H.
  - exact H.
Qed.

Lemma pexec_des_mono v n maxinc ls : forall s,
  c_designated (p_chain s) = true -> c_designated (p_chain (pexec v n maxinc s ls)) = true.
Proof.
  induction ls as [|lb ls IH]; intros s H; [exact H|]. rewrite pexec_cons. apply IH. apply pstep_des_mono. exact H.
Qed.

(** * The statement for the working tree, symbolic committee size *)

Lemma fair_rounds_split r live nonce order :
  (5 <= r)%nat -> fair_rounds r live nonce order = fair_rounds 5 live nonce order ++ fair_rounds (r - 5) live nonce order.
Proof.
  intros H. unfold fair_rounds. replace r with (5 + (r - 5))%nat at 1 by lia.
  rewrite repeat_app, concat_app. reflexivity.
Qed.

Lemma live_members n (live : nat -> bool) :
  (1 <= n)%nat -> live 0%nat = true ->
  List.filter live (seq 0 n) = 0%nat :: Sl n live.
Proof.
  intros Hn H0. destruct n as [|n]; [lia|]. cbn [seq List.filter]. rewrite H0. unfold Sl.
  replace (S n - 1)%nat with n by lia. reflexivity.
Qed.

Lemma live_count_Sl n live :
  (1 <= n)%nat -> live 0%nat = true -> live_count n live = S (length (Sl n live)).
Proof. intros Hn H0. unfold live_count. rewrite live_members by assumption. reflexivity. Qed.

Lemma readable_repaired n live : readable as_repaired n live = length (Sl n live).
Proof. unfold readable, Sl. cbn [v_first as_repaired]. replace (1 + (n - 1) - 1)%nat with (n - 1)%nat by lia. reflexivity. Qed.

Lemma fair_rounds_honest r live0 ks nonce order :
  Forall (fun k => live0 k = true) ks -> Forall (honest live0) (fair_rounds r ks nonce order).
Proof.
  intros Hk. unfold fair_rounds. induction r as [|r IH]; [constructor|]. cbn [repeat concat].
  apply Forall_app. split; [|exact IH]. unfold round. apply Forall_app. split.
  - apply List.Forall_forall. intros lb Hin. apply in_map_iff in Hin as (k & <- & Hin).
    rewrite List.Forall_forall in Hk. exact (Hk k Hin).
  - repeat constructor.
Qed.

(** On the fair schedule of the live members, for every committee size n >= 2,
    every live set containing the leader, every starting height, nonce and
    proposed map order: after five (or more) rounds the role is designated
    if and only if a majority of the members is live. *)
Theorem any_majority_fair n (live : nat -> bool) maxinc h0 nonce order r :
  (2 <= n)%nat -> live 0%nat = true -> 4 <= maxinc -> (5 <= r)%nat ->
  c_designated (p_chain (fst (prun as_repaired n maxinc (pinit h0)
                                   (fair_rounds r (List.filter live (seq 0 n)) nonce order)))) =
  (maj_m n <=? live_count n live)%nat.
Proof.
  intros Hn H0 Hinc Hr.
  rewrite (live_count_Sl n live ltac:(lia) H0).
  destruct (maj_m n <=? S (length (Sl n live)))%nat eqn:E.
  - rewrite (live_members n live ltac:(lia) H0), (fair_rounds_split r _ nonce order Hr).
    change (fst (prun ?v ?n ?m ?s ?ls)) with (pexec v n m s ls). rewrite pexec_app.
    apply pexec_des_mono. apply five_rounds; [exact Hn|exact Hinc|]. unfold need. lia.
  - pose proof (blocked as_repaired n maxinc h0 live
                  (fair_rounds r (List.filter live (seq 0 n)) nonce order) Hn) as Hb.
    rewrite readable_repaired in Hb. cbv zeta in Hb. apply Hb; [lia|].
    apply fair_rounds_honest. apply List.Forall_forall. intros k Hk. apply filter_In in Hk. tauto.
Qed.
