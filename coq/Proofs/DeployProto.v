(** Proofs/DeployProto.v — lemmas about the Notary-bootstrap protocol model. *)
From Verif Require Import Base.Prelude Model.DeployProto.
From Coq Require Import ZifyBool ZifyNat ZifyN.
Local Open Scope Z_scope.

(** * Map helpers *)

Lemma m_extract_perm k m v m' :
  m_extract k m = Some (v, m') -> Permutation m ((k, v) :: m').
Proof.
  revert v m'. induction m as [|[j w] m IH]; intros v m' H; [discriminate|].
  cbn [m_extract] in H. destruct (k =? j)%nat eqn:E.
  - injection H as <- <-. apply Nat.eqb_eq in E. subst. reflexivity.
  - destruct (m_extract k m) as [[v0 r]|] eqn:Ex; [|discriminate].
    injection H as <- <-. rewrite (IH _ _ eq_refl). apply perm_swap.
Qed.

Lemma range_map_perm order : forall m, Permutation (range_map order m) (map snd m).
Proof.
  induction order as [|k order IH]; intros m; [reflexivity|].
  cbn [range_map]. destruct (m_extract k m) as [[v m']|] eqn:E; [|apply IH].
  rewrite (Permutation_map snd (m_extract_perm _ _ _ _ E)). cbn [map snd].
  constructor. apply IH.
Qed.

Lemma m_insert_keys_in i v m :
  In i (map fst m) -> map fst (m_insert i v m) = map fst m.
Proof.
  induction m as [|[j w] m IH]; [intros []|].
  cbn [m_insert map fst]. destruct (i =? j)%nat eqn:E.
  - apply Nat.eqb_eq in E. subst. reflexivity.
  - apply Nat.eqb_neq in E. intros [H|H]; [congruence|]. cbn [map fst]. rewrite IH by exact H. reflexivity.
Qed.

Lemma m_insert_keys_notin i v m :
  ~ In i (map fst m) -> map fst (m_insert i v m) = map fst m ++ [i].
Proof.
  induction m as [|[j w] m IH]; [reflexivity|].
  cbn [m_insert map fst]. intros H. destruct (i =? j)%nat eqn:E.
  - apply Nat.eqb_eq in E. subst. exfalso. apply H. left. reflexivity.
  - cbn [map fst app]. rewrite IH; [reflexivity|]. intros H'. apply H. right. exact H'.
Qed.

Lemma m_insert_In i v m e : In e (m_insert i v m) -> e = (i, v) \/ In e m.
Proof.
  induction m as [|[j w] m IH]; cbn [m_insert].
  - intros [<-|[]]. left; reflexivity.
  - destruct (i =? j)%nat.
    + intros [<-|H]; [left; reflexivity|right; right; exact H].
    + intros [<-|H]; [right; left; reflexivity|].
      destruct (IH H) as [->|H']; [left; reflexivity|right; right; exact H'].
Qed.

Lemma m_insert_length i v m : (length m <= length (m_insert i v m) <= S (length m))%nat.
Proof.
  induction m as [|[j w] m IH]; cbn [m_insert length]; [lia|].
  destruct (i =? j)%nat; cbn [length]; lia.
Qed.

Lemma m_insert_NoDup i v m : NoDup (map fst m) -> NoDup (map fst (m_insert i v m)).
Proof.
  intros H. destruct (in_dec Nat.eq_dec i (map fst m)) as [Hin|Hnin].
  - rewrite m_insert_keys_in by exact Hin. exact H.
  - rewrite m_insert_keys_notin by exact Hnin. apply NoDup_app. split; [exact H|]. split.
    + intros x Hx Hx'. apply elem_of_list_singleton in Hx'. subst. apply Hnin.
      apply elem_of_list_In. exact Hx.
    + apply NoDup_singleton.
Qed.

(** * The leader's local invariant *)

(** [P i] restricts which indices may be keys of the map (used twice: with
    the trivial bound for safety, with liveness of the member for the
    blocked-run theorem). *)
Definition m_ok (v : variant) (P : nat -> Prop) (n : nat) (m : list (nat * sigval)) : Prop :=
  NoDup (map fst m) /\ (length m <= maj_m n - 1)%nat /\
  Forall (fun e => sv_by (snd e) = fst e /\ (fst e < v_first v + (n - 1))%nat /\ P (fst e)) m.

(** The remote part of the witness is either not appended yet or the result
    of one finalisation. *)
Definition script_ok (v : variant) (P : nat -> Prop) (n : nat) (sc : list sigval) : Prop :=
  sc = [] \/
  (length sc = (maj_m n - 1)%nat /\ NoDup (map sv_by sc) /\
   Forall (fun s => (sv_by s < v_first v + (n - 1))%nat /\ P (sv_by s)) sc).

Definition linv (v : variant) (P : nat -> Prop) (n : nat) (l : leader) : Prop :=
  (l_full l = false -> l_script l = []) /\ m_ok v P n (l_m l) /\ script_ok v P n (l_script l).

Lemma m_ok_nil v P n : m_ok v P n [].
Proof. split; [constructor|]. split; [simpl; lia|constructor]. Qed.

Lemma linv_leader0 v P n : linv v P n leader0.
Proof. split; [reflexivity|split; [apply m_ok_nil|left; reflexivity]]. Qed.

Lemma linv_reset v P n l : linv v P n (reset_tx l).
Proof. split; [reflexivity|split; [apply m_ok_nil|left; reflexivity]]. Qed.

(** Chain-side premise of the collection loop: which indices may be inserted. *)
Definition recs_ok (P : nat -> Prop) (c : chain) : Prop :=
  forall i r, lookup_sig c i = LRecord r -> sv_by (sr_sig r) = i -> P i.

Lemma collect_step_ok v P n c d m inv i :
  recs_ok P c -> (i < v_first v + (n - 1))%nat ->
  m_ok v P n m -> (length m < maj_m n - 1)%nat ->
  match collect_step n c d (maj_m n - 1) m inv i with
  | CContinue m' _ => m_ok v P n m' /\ (length m' < maj_m n - 1)%nat
  | CBreak m' => m_ok v P n m'
  | CRegenerate => True
  end.
Proof.
  intros Hc Hi (Hnd & Hlen & Hall) Hlt. unfold collect_step.
  destruct (lookup_sig c i) as [| |r] eqn:El; try (split; [split; [|split]|]; assumption).
  destruct (bool_decide (sr_ck r = d)); cbn [negb]; [|split; [split; [|split]|]; assumption].
  destruct (bool_decide (sv_by (sr_sig r) = i)) eqn:Eb; cbn [andb negb].
  2:{ destruct (n <? S inv + maj_m n)%nat; [exact I|]. split; [split; [|split]|]; assumption. }
  destruct (bool_decide (sv_over (sr_sig r) = d)); cbn [negb].
  2:{ destruct (n <? S inv + maj_m n)%nat; [exact I|]. split; [split; [|split]|]; assumption. }
  apply bool_decide_eq_true in Eb.
  pose proof (m_insert_length i (sr_sig r) m) as Hl.
  assert (Hok : m_ok v P n (m_insert i (sr_sig r) m) \/ True) by (right; exact I). clear Hok.
  assert (Hm : NoDup (map fst (m_insert i (sr_sig r) m)) /\
               Forall (fun e => sv_by (snd e) = fst e /\ (fst e < v_first v + (n - 1))%nat /\ P (fst e))
                      (m_insert i (sr_sig r) m)).
  { split; [apply m_insert_NoDup; exact Hnd|].
    apply List.Forall_forall. intros e He. apply m_insert_In in He as [->|He].
    - cbn [fst snd]. split; [exact Eb|]. split; [exact Hi|]. exact (Hc i r El Eb).
    - rewrite List.Forall_forall in Hall. apply Hall. exact He. }
  destruct Hm as [Hnd' Hall'].
  destruct (length (m_insert i (sr_sig r) m) =? maj_m n - 1)%nat eqn:E.
  - apply Nat.eqb_eq in E. split; [exact Hnd'|]. split; [lia|exact Hall'].
  - apply Nat.eqb_neq in E. split; [split; [exact Hnd'|split; [lia|exact Hall']]|lia].
Qed.

Lemma collect_loop_ok v P n c d is : forall m inv,
  recs_ok P c -> Forall (fun i => (i < v_first v + (n - 1))%nat) is ->
  m_ok v P n m -> (length m < maj_m n - 1)%nat ->
  match collect_loop n c d (maj_m n - 1) m inv is with
  | CContinue m' _ => m_ok v P n m' /\ (length m' < maj_m n - 1)%nat
  | CBreak m' => m_ok v P n m'
  | CRegenerate => True
  end.
Proof.
  induction is as [|i is IH]; intros m inv Hc His Hm Hlt; cbn [collect_loop]; [split; assumption|].
  apply Forall_cons_1 in His as [Hi His].
  pose proof (collect_step_ok v P n c d m inv i Hc Hi Hm Hlt) as Hs.
  destruct (collect_step n c d (maj_m n - 1) m inv i) as [m' inv'| m' |]; [|exact Hs|exact I].
  destruct Hs as [Hm' Hlt']. apply IH; assumption.
Qed.

Lemma seq_bound v n : Forall (fun i => (i < v_first v + (n - 1))%nat) (seq (v_first v) (n - 1)).
Proof. apply List.Forall_forall. intros i Hi. apply in_seq in Hi. lia. Qed.

(** * What a tick may do *)

Definition assembled_ok (v : variant) (n : nat) (d : data) (script : list sigval) : Prop :=
  length script = maj_m n /\
  hd_error script = Some (mkSig 0 d) /\
  NoDup (map sv_by (tail script)) /\
  Forall (fun s => (sv_by s < v_first v + (n - 1))%nat) (tail script).

Definition is_designate (w : write) : bool :=
  match w with WDesignate _ _ => true | _ => false end.

Definition is_sigwrite (w : write) : bool :=
  match w with WAddSig _ _ | WSetSig _ _ => true | _ => false end.

(** A signature record may be sent only with a signature of a member in [P]. *)
Definition sent_ok (P : nat -> Prop) (w : write) : Prop :=
  match w with
  | WAddSig _ r | WSetSig _ r => P (sv_by (sr_sig r))
  | _ => True
  end.

Record tick_ok (v : variant) (P : nat -> Prop) (n : nat) (c : chain) (c' : chain) (l' : leader) (ev : list event) : Prop := {
  to_linv : linv v P n l';
  to_des : c_designated c' = c_designated c;
  to_dom : c_txdom c' = c_txdom c /\ c_sigdom c' = c_sigdom c /\ c_height c' = c_height c;
  to_pool : forall e, In e (c_pool c') -> In e (c_pool c) \/ In (ESent (fst e) (snd e)) ev;
  to_asm : forall d sc, In (EAssembled d sc) ev -> assembled_ok v n d sc /\ Forall (fun s => P (sv_by s)) (tail sc);
  to_sent : forall id d sc, In (ESent id (WDesignate d sc)) ev ->
            valid_witness n d sc = true /\ length sc = maj_m n /\ script_ok v P n (tail sc);
  to_kind : forall id w, In (ESent id w) ev -> sent_ok P w
}.

Lemma pool_add_spec c w c' id :
  pool_add c w = (c', id) ->
  c_pool c' = c_pool c ++ [(id, w)] /\ c_designated c' = c_designated c /\
  c_txdom c' = c_txdom c /\ c_sigdom c' = c_sigdom c /\ c_height c' = c_height c.
Proof. unfold pool_add. intros [= <- <-]. cbn. repeat split; reflexivity. Qed.

Lemma gas_ok v P n maxinc nonce b c l c' l' ev :
  generate_and_share maxinc nonce b c l = (c', l', ev) ->
  linv v P n l' /\ c_designated c' = c_designated c /\
  (c_txdom c' = c_txdom c /\ c_sigdom c' = c_sigdom c /\ c_height c' = c_height c) /\
  (forall e, In e (c_pool c') -> In e (c_pool c) \/ In (ESent (fst e) (snd e)) ev) /\
  (forall e, In e ev -> exists id w, e = ESent id w /\ is_designate w = false /\ is_sigwrite w = false).
Proof.
  unfold generate_and_share. set (w := if b then _ else _).
  destruct (write_ok c w); cbn [negb].
  - destruct (pool_add c w) as [c1 id] eqn:Ep. intros [= <- <- <-].
    apply pool_add_spec in Ep as (Hp & Hd & Ht & Hs & Hh).
    split; [split; [reflexivity|split; [apply m_ok_nil|left; reflexivity]]|]. split; [exact Hd|]. split; [auto|]. split.
    + intros e He. rewrite Hp in He. apply in_app_or in He as [He|[<-|[]]]; [left; exact He|].
      right. left. reflexivity.
    + intros e [<-|[]]. exists id, w. split; [reflexivity|]. subst w. destruct b; split; reflexivity.
  - intros [= <- <- <-]. split; [apply linv_reset|]. split; [reflexivity|]. split; [auto|].
    split; [intros e He; left; exact He|intros e []].
Qed.

Lemma gas_tick_ok v P n maxinc nonce b c l c' l' ev :
  generate_and_share maxinc nonce b c l = (c', l', ev) -> tick_ok v P n c c' l' ev.
Proof.
  intros H. apply (gas_ok v P n) in H as (H1 & H2 & H3 & H4 & H5).
  split; try assumption.
  - intros d sc Hin. apply H5 in Hin as (id & w & Hw & _). discriminate.
  - intros id d sc Hin. apply H5 in Hin as (id' & w & Hw & Hd & _). injection Hw as <- <-. discriminate.
  - intros id w Hin. apply H5 in Hin as (id' & w' & Hw & _ & Hk). injection Hw as <- <-.
    destruct w; try exact I; discriminate.
Qed.

(** Events that may precede the outcome of the send within one tick. *)
Definition pre_ok (v : variant) (P : nat -> Prop) (n : nat) (e : event) : Prop :=
  match e with
  | ERejected _ _ => True
  | EAssembled d sc => assembled_ok v n d sc /\ Forall (fun s => P (sv_by s)) (tail sc)
  | ESent _ _ => False
  end.

Lemma tick_ok_prepend v P n c c' l' ev ev0 :
  tick_ok v P n c c' l' ev -> Forall (pre_ok v P n) ev0 -> tick_ok v P n c c' l' (ev0 ++ ev).
Proof.
  intros [H1 H2 H3 H4 H5 H6 H7] H0. rewrite List.Forall_forall in H0. split; try assumption.
  - intros e He. destruct (H4 e He) as [H|H]; [left; exact H|right; apply in_or_app; right; exact H].
  - intros d sc Hin. apply in_app_or in Hin as [Hin|Hin]; [|apply H5; exact Hin].
    exact (H0 _ Hin).
  - intros id d sc Hin. apply in_app_or in Hin as [Hin|Hin]; [|exact (H6 id d sc Hin)].
    destruct (H0 _ Hin).
  - intros id w Hin. apply in_app_or in Hin as [Hin|Hin]; [|exact (H7 id w Hin)].
    destruct (H0 _ Hin).
Qed.

Lemma tick_ok_same v P n c l : linv v P n l -> tick_ok v P n c c l [].
Proof.
  intros H. split; try reflexivity; try exact H; try (intros; contradiction).
  - auto.
  - intros e He. left. exact He.
Qed.

Lemma maj_m_pos n : (1 <= n)%nat -> (1 <= maj_m n)%nat.
Proof.
  intros H. unfold maj_m. pose proof (Nat.div_le_upper_bound (n - 1) 2 (n - 1) ltac:(lia) ltac:(lia)). lia.
Qed.

Lemma node_verdict_accepted n d sc :
  node_verdict n d sc = VAccepted -> valid_witness n d sc = true /\ length sc = maj_m n.
Proof.
  unfold node_verdict. destruct (length sc =? maj_m n)%nat eqn:E; cbn [negb]; [|discriminate].
  destruct (valid_witness n d sc); [|discriminate]. intros _. apply Nat.eqb_eq in E. auto.
Qed.

Lemma range_map_ok v P n order m :
  m_ok v P n m ->
  NoDup (map sv_by (range_map order m)) /\
  Forall (fun s => (sv_by s < v_first v + (n - 1))%nat /\ P (sv_by s)) (range_map order m) /\
  length (range_map order m) = length m.
Proof.
  intros (Hnd & _ & Hall). pose proof (range_map_perm order m) as Hp.
  assert (Hk : map sv_by (map snd m) = map fst m).
  { rewrite map_map. apply map_ext_in. intros e He. rewrite List.Forall_forall in Hall. apply (Hall e He). }
  split; [|split].
  - rewrite (Permutation_map sv_by Hp), Hk. exact Hnd.
  - rewrite Hp. apply List.Forall_forall. intros s Hs. apply in_map_iff in Hs as (e & <- & He).
    rewrite List.Forall_forall in Hall. destruct (Hall e He) as (E & Hlt & HP). rewrite E. auto.
  - rewrite (Permutation_length Hp), map_length. reflexivity.
Qed.

Lemma leader_finish_ok v P n maxinc nonce order c d l c' l' ev :
  (1 <= n)%nat -> linv v P n l ->
  leader_finish v n maxinc nonce order c d l = (c', l', ev) ->
  tick_ok v P n c c' l' ev.
Proof.
  intros Hn Hl. unfold leader_finish.
  destruct (length (l_m l) <? maj_m n - 1)%nat eqn:Elen; [intros [= <- <- <-]; apply tick_ok_same; exact Hl|].
  destruct (bool_decide (is_Some (l_reg l))); [intros [= <- <- <-]; apply tick_ok_same; exact Hl|].
  destruct (l_tried l) eqn:Etried; [apply gas_tick_ok|].
  pose proof (maj_m_pos n Hn) as Hpos.
  assert (Hlen : length (l_m l) = (maj_m n - 1)%nat) by (destruct Hl as (_ & (_ & Hle & _) & _); lia).
  unfold assemble. set (order' := if v_sorted v then seq 0 (S n) else order).
  pose proof (range_map_ok v P n order' (l_m l) (proj1 (proj2 Hl))) as (Hrnd & Hrall & Hrlen).
  (* the (possibly) finalised leader and the event of finalisation *)
  set (lev := if l_full l then _ else _).
  assert (Hlev : linv v P n (fst lev) /\ Forall (pre_ok v P n) (snd lev) /\
                 l_m (fst lev) = l_m l).
  { subst lev. destruct (l_full l) eqn:Ef; cbn [fst snd].
    - split; [exact Hl|]. split; [constructor|reflexivity].
    - rewrite (proj1 Hl Ef). cbn [app].
      split; [split; [discriminate|split; [exact (proj1 (proj2 Hl))|]]|].
      { right. cbn [l_script]. split; [lia|]. split; [exact Hrnd|exact Hrall]. }
      split; [|reflexivity].
      constructor; [|constructor]. cbn [pre_ok]. split.
      + split; [cbn [length]; lia|]. split; [reflexivity|]. cbn [tail]. split; [exact Hrnd|].
        eapply List.Forall_impl; [|exact Hrall]. intros s [H _]. exact H.
      + cbn [tail]. eapply List.Forall_impl; [|exact Hrall]. intros s [_ H]. exact H. }
  destruct lev as [l1 ev1]. cbn [fst snd] in Hlev. destruct Hlev as (Hl1 & Hev1 & Hm1).
  set (w := WDesignate d (mkSig 0 d :: l_script l1)).
  set (vd0 := node_verdict n d (mkSig 0 d :: l_script l1)).
  assert (Hv0 : vd0 = VAccepted -> valid_witness n d (mkSig 0 d :: l_script l1) = true /\
                                 length (mkSig 0 d :: l_script l1) = maj_m n).
  { subst vd0. apply node_verdict_accepted. }
  set (vd := match vd0 with VAccepted => _ | _ => vd0 end).
  assert (Hv : vd = VAccepted -> vd0 = VAccepted).
  { subst vd. destruct vd0; try discriminate; auto. }
  clearbody vd. destruct vd.
  - (* accepted *)
    destruct (pool_add c w) as [c1 id] eqn:Ep. intros [= <- <- <-].
    apply pool_add_spec in Ep as (Hp & Hd & Ht & Hs & Hh).
    change (ev1 ++ [ESent id w]) with (ev1 ++ [ESent id w]).
    apply tick_ok_prepend; [|exact Hev1].
    split.
    + destruct Hl1 as (Ha & Hb & Hc). split; [exact Ha|split; [exact Hb|exact Hc]].
    + exact Hd.
    + auto.
    + intros e He. rewrite Hp in He. apply in_app_or in He as [He|[<-|[]]]; [left; exact He|right; left; reflexivity].
    + intros d0 sc [H|[]]. discriminate.
    + intros id0 d0 sc [H|[]]. injection H as _ <- <-.
      destruct (Hv0 (Hv eq_refl)) as [Hw Hlw]. split; [exact Hw|]. split; [exact Hlw|]. exact (proj2 (proj2 Hl1)).
    + intros id0 w0 [H|[]]. injection H as _ <-. exact I.
  - (* invalid signature *)
    intros [= <- <- <-]. rewrite <- (app_nil_r (ev1 ++ _)).
    apply tick_ok_prepend; [apply tick_ok_same; exact Hl1|].
    apply Forall_app. split; [exact Hev1|]. constructor; [exact I|constructor].
  - (* verification failed *)
    destruct (generate_and_share maxinc nonce true c l1) as [[c1 l2] ev2] eqn:Eg. intros [= <- <- <-].
    apply tick_ok_prepend; [apply (gas_tick_ok v P n) in Eg; exact Eg|].
    apply Forall_app. split; [exact Hev1|]. constructor; [exact I|constructor].
  - (* already known *)
    intros [= <- <- <-]. rewrite <- (app_nil_r (ev1 ++ _)).
    apply tick_ok_prepend; [apply tick_ok_same; exact Hl1|].
    apply Forall_app. split; [exact Hev1|]. constructor; [exact I|constructor].
Qed.

(** The leader tick preserves the local invariant, changes the chain only
    by pooling what it reports as sent, and everything it assembles is
    well-formed. *)
Lemma leader_tick_ok v P n maxinc nonce order c l c' l' ev :
  (1 <= n)%nat -> recs_ok P c -> linv v P n l ->
  leader_tick v n maxinc nonce order c l = (c', l', ev) ->
  tick_ok v P n c c' l' ev.
Proof.
  intros Hn Hc Hl. unfold leader_tick.
  destruct (lookup_tx c) as [| |d].
  - (* missing domain *)
    destruct (bool_decide (is_Some (l_reg l))); [intros [= <- <- <-]; apply tick_ok_same; exact Hl|].
    destruct (pool_add c WRegTx) as [c1 id] eqn:Ep. intros [= <- <- <-].
    apply pool_add_spec in Ep as (Hp & Hd & Ht & Hs & Hh).
    split; try assumption; try (repeat split; assumption).
    + intros e He. rewrite Hp in He. apply in_app_or in He as [He|[<-|[]]]; [left; exact He|right; left; reflexivity].
    + intros d sc [H|[]]. discriminate.
    + intros id' d sc [H|[]]. discriminate.
    + intros id' w [H|[]]. injection H as _ <-. exact I.
  - destruct (bool_decide (is_Some (l_set l))); [intros [= <- <- <-]; apply tick_ok_same; exact Hl|].
    apply gas_tick_ok.
  - destruct (d_vub d <? c_height c); [apply gas_tick_ok|].
    set (l1 := if bool_decide (l_tx l = Some d) then l else _).
    assert (Hl1 : linv v P n l1).
    { subst l1. destruct (bool_decide (l_tx l = Some d)); [exact Hl|].
      destruct Hl as (_ & Hm & _). split; [reflexivity|]. split; [exact Hm|left; reflexivity]. }
    clearbody l1. clear Hl l. rename l1 into l, Hl1 into Hl.
    set (need := (maj_m n - 1)%nat).
    set (collected := if (length (l_m l) <? need)%nat then _ else _).
    assert (Hcol : match collected with
                   | CContinue m' _ | CBreak m' => m_ok v P n m'
                   | CRegenerate => True end).
    { subst collected. destruct (length (l_m l) <? need)%nat eqn:E.
      - pose proof (collect_loop_ok v P n c d (seq (v_first v) (n - 1)) (l_m l) 0%nat Hc (seq_bound v n) (proj1 (proj2 Hl)) ltac:(subst need; lia)) as H.
        fold need in H. destruct (collect_loop n c d need (l_m l) 0 (seq (v_first v) (n - 1))); [apply H|exact H|exact I].
      - exact (proj1 (proj2 Hl)). }
    destruct collected as [m inv|m|]; [| |apply gas_tick_ok].
    + apply leader_finish_ok; [exact Hn|]. split; [exact (proj1 Hl)|split; [exact Hcol|exact (proj2 (proj2 Hl))]].
    + apply leader_finish_ok; [exact Hn|]. split; [exact (proj1 Hl)|split; [exact Hcol|exact (proj2 (proj2 Hl))]].
Qed.

(** * Signer and solo ticks *)

Lemma tick_ok_send v P n c c1 id w l :
  linv v P n l -> pool_add c w = (c1, id) -> is_designate w = false -> sent_ok P w ->
  tick_ok v P n c c1 l [ESent id w].
Proof.
  intros Hl Ep Hw Hk. apply pool_add_spec in Ep as (Hp & Hd & Ht & Hs & Hh).
  split; try assumption; try (repeat split; assumption).
  - intros e He. rewrite Hp in He. apply in_app_or in He as [He|[<-|[]]]; [left; exact He|right; left; reflexivity].
  - intros d sc [H|[]]. discriminate.
  - intros id' d sc [H|[]]. injection H as _ ->. discriminate Hw.
  - intros id' w' [H|[]]. injection H as _ <-. exact Hk.
Qed.

Lemma signer_tick_ok v (P : nat -> Prop) n k c sg c' sg' ev l :
  P k -> linv v P n l -> signer_tick k c sg = (c', sg', ev) -> tick_ok v P n c c' l ev.
Proof.
  intros Hk Hl. unfold signer_tick.
  destruct (lookup_tx c) as [| |d]; try (intros [= <- <- <-]; apply tick_ok_same; exact Hl).
  destruct (d_vub d <? c_height c); [intros [= <- <- <-]; apply tick_ok_same; exact Hl|].
  destruct (lookup_sig c k) as [| |r].
  - destruct (bool_decide (is_Some _)); [intros [= <- <- <-]; apply tick_ok_same; exact Hl|].
    destruct (pool_add c (WRegSig k)) as [c1 id] eqn:Ep. intros [= <- <- <-].
    eapply tick_ok_send; eauto; exact I.
  - destruct (bool_decide (is_Some _)); [intros [= <- <- <-]; apply tick_ok_same; exact Hl|].
    destruct (write_ok c _); cbn [negb]; [|intros [= <- <- <-]; apply tick_ok_same; exact Hl].
    destruct (pool_add c _) as [c1 id] eqn:Ep. intros [= <- <- <-].
    eapply tick_ok_send; eauto; exact Hk.
  - destruct (_ && _); [intros [= <- <- <-]; apply tick_ok_same; exact Hl|].
    destruct (write_ok c _); cbn [negb]; [|intros [= <- <- <-]; apply tick_ok_same; exact Hl].
    destruct (pool_add c _) as [c1 id] eqn:Ep. intros [= <- <- <-].
    eapply tick_ok_send; eauto; exact Hk.
Qed.

Lemma solo_tick_ok v P nonce c p c' p' ev l :
  linv v P 1 l -> solo_tick nonce c p = (c', p', ev) -> tick_ok v P 1 c c' l ev.
Proof.
  intros Hl. unfold solo_tick.
  destruct (bool_decide (is_Some p)); [intros [= <- <- <-]; apply tick_ok_same; exact Hl|].
  destruct (pool_add c _) as [c1 id] eqn:Ep. intros [= <- <- <-].
  apply pool_add_spec in Ep as (Hp & Hd & Ht & Hs & Hh).
  split; try assumption; try (repeat split; assumption).
  - intros e He. rewrite Hp in He. apply in_app_or in He as [He|[<-|[]]]; [left; exact He|right; left; reflexivity].
  - intros d sc [H|[]]. discriminate.
  - intros id' d sc [H|[]]. injection H as _ <- <-. split; [|split; [reflexivity|left; reflexivity]].
    unfold valid_witness. cbn [forallb map strictly_increasing sv_over sv_by].
    rewrite bool_decide_eq_true_2 by reflexivity. reflexivity.
  - intros id' w [H|[]]. injection H as _ <-. exact I.
Qed.

(** * Global invariant over histories *)

Definition ginv (v : variant) (P : nat -> Prop) (n : nat) (s : pstate) (evs : list event) : Prop :=
  linv v P n (p_leader s) /\
  (forall e, In e (c_pool (p_chain s)) -> In (ESent (fst e) (snd e)) evs) /\
  (c_designated (p_chain s) = true -> exists id d sc, In (ESent id (WDesignate d sc)) evs) /\
  (forall d sc, In (EAssembled d sc) evs -> assembled_ok v n d sc /\ Forall (fun s => P (sv_by s)) (tail sc)) /\
  (forall id d sc, In (ESent id (WDesignate d sc)) evs ->
     valid_witness n d sc = true /\ length sc = maj_m n /\ script_ok v P n (tail sc)).

Lemma ginv_init v P n h0 : ginv v P n (pinit h0) [].
Proof.
  split; [apply linv_leader0|]. split; [intros e []|]. split; [discriminate|].
  split; intros; contradiction.
Qed.

Lemma ginv_tick v P n c l sg so c' l' sg' so' ev evs :
  tick_ok v P n c c' l' ev -> ginv v P n (mkP c l sg so) evs -> ginv v P n (mkP c' l' sg' so') (evs ++ ev).
Proof.
  intros [T1 T2 T3 T4 T5 T6 _] (G1 & G2 & G3 & G4 & G5). unfold ginv. cbn [p_chain p_leader] in *.
  split; [exact T1|]. split; [|split; [|split]].
  - intros e He. apply in_or_app. destruct (T4 e He) as [H|H]; [left; apply G2; exact H|right; exact H].
  - rewrite T2. intros Hd. destruct (G3 Hd) as (id & d & sc & Hin). exists id, d, sc. apply in_or_app. left. exact Hin.
  - intros d sc Hin. apply in_app_or in Hin as [Hin|Hin]; [apply G4; exact Hin|apply T5; exact Hin].
  - intros id d sc Hin. apply in_app_or in Hin as [Hin|Hin]; [apply (G5 id); exact Hin|apply (T6 id); exact Hin].
Qed.

Lemma apply_write_pool c w : c_pool (apply_write c w) = c_pool c.
Proof. unfold apply_write. repeat case_match; reflexivity. Qed.

Lemma apply_write_des c w :
  c_designated (apply_write c w) = true -> c_designated c = true \/ is_designate w = true.
Proof. unfold apply_write. repeat case_match; cbn; auto. Qed.

Lemma In_delete {A} (x : A) i (l : list A) : In x (delete i l) -> In x l.
Proof.
  revert i. induction l as [|y l IH]; intros [|i]; cbn; auto.
  intros [H|H]; [left; exact H|right; apply (IH i); exact H].
Qed.

Lemma list_find_In {A} (f : A -> bool) (l : list A) i x :
  list_find (fun e => f e = true) l = Some (i, x) -> In x l.
Proof.
  intros H. apply list_find_Some in H as (H & _ & _).
  apply elem_of_list_In. eapply elem_of_list_lookup_2. exact H.
Qed.

Lemma linv_flags v P n l r s : linv v P n l ->
  linv v P n (mkLeader (l_tx l) (l_script l) (l_m l) (l_full l) (l_tried l) r s).
Proof. intros H. exact H. Qed.

Lemma land_ginv v P n id s evs : ginv v P n s evs -> ginv v P n (land id s) evs.
Proof.
  intros G. unfold land.
  destruct (list_find _ (c_pool (p_chain s))) as [[pos [id' w]]|] eqn:Ef; [|exact G].
  assert (Hin : In (id', w) (c_pool (p_chain s))).
  { apply list_find_Some in Ef as (H & _ & _).
    apply elem_of_list_In. eapply elem_of_list_lookup_2. exact H. }
  destruct G as (G1 & G2 & G3 & G4 & G5).
  unfold ginv, clear_flags. cbn [p_chain p_leader].
  split; [exact G1|]. split; [|split; [|split; assumption]].
  - cbn [c_pool]. intros e He. apply In_delete in He. rewrite apply_write_pool in He. apply G2. exact He.
  - cbn [c_designated]. intros Hd. apply apply_write_des in Hd as [Hd|Hd]; [apply G3; exact Hd|].
    destruct w; try discriminate. exists id', d, script. exact (G2 _ Hin).
Qed.

Lemma land_all_ginv v P n ids : forall s evs,
  ginv v P n s evs -> ginv v P n (fold_left (fun s (e : nat * write) => land (fst e) s) ids s) evs.
Proof.
  induction ids as [|e ids IH]; intros s evs G; [exact G|]. cbn [fold_left]. apply IH. apply land_ginv. exact G.
Qed.

(** One step of any label, under a chain-side premise that bounds what the
    leader may collect. *)
Lemma pstep_ginv v P n maxinc s lb s' ev evs :
  (1 <= n)%nat -> recs_ok P (p_chain s) ->
  (forall k nonce order, lb = LTick k nonce order -> k <> 0%nat -> P k) ->
  pstep v n maxinc s lb = (s', ev) -> ginv v P n s evs -> ginv v P n s' (evs ++ ev).
Proof.
  intros Hn Hc HP Hstep G. destruct s as [c l sg so]. destruct lb as [k nonce order|k|id| | |i recs]; cbn [pstep p_chain p_leader p_signers p_solo] in Hstep.
  - destruct (c_designated c || negb (k <? n)%nat); [injection Hstep as <- <-; rewrite app_nil_r; exact G|].
    destruct (n =? 1)%nat eqn:E1.
    + apply Nat.eqb_eq in E1. subst n.
      destruct (solo_tick nonce c so) as [[c1 p1] ev1] eqn:Et. injection Hstep as <- <-.
      eapply ginv_tick; [|exact G]. eapply solo_tick_ok; [exact (proj1 G)|exact Et].
    + destruct (k =? 0)%nat eqn:E0.
      * destruct (leader_tick v n maxinc nonce order c l) as [[c1 l1] ev1] eqn:Et. injection Hstep as <- <-.
        eapply ginv_tick; [|exact G]. eapply leader_tick_ok; [exact Hn|exact Hc|exact (proj1 G)|exact Et].
      * destruct (signer_tick k c _) as [[c1 sg1] ev1] eqn:Et. injection Hstep as <- <-.
        eapply ginv_tick; [|exact G]. apply Nat.eqb_neq in E0.
        eapply signer_tick_ok; [exact (HP k nonce order eq_refl E0)|exact (proj1 G)|exact Et].
  - destruct (k =? 0)%nat; injection Hstep as <- <-; rewrite app_nil_r;
      destruct G as (G1 & G2 & G3 & G4 & G5); (split; [|split; [|split; [|split]]]; try assumption).
    apply linv_leader0.
  - injection Hstep as <- <-. rewrite app_nil_r. apply land_ginv. exact G.
  - injection Hstep as <- <-. rewrite app_nil_r. apply land_all_ginv. exact G.
  - injection Hstep as <- <-. rewrite app_nil_r. exact G.
  - injection Hstep as <- <-. rewrite app_nil_r. exact G.
Qed.

(** * Safety over every history (arbitrary scheduler, foreign records included) *)

Lemma recs_ok_True c : recs_ok (fun _ => True) c.
Proof. intros i r _ _. exact I. Qed.

Lemma prun_ginv_True v n maxinc ls : forall s evs0,
  (1 <= n)%nat -> ginv v (fun _ => True) n s evs0 ->
  ginv v (fun _ => True) n (fst (prun v n maxinc s ls)) (evs0 ++ snd (prun v n maxinc s ls)).
Proof.
  induction ls as [|lb ls IH]; intros s evs0 Hn G; cbn [prun fst snd]; [rewrite app_nil_r; exact G|].
  destruct (pstep v n maxinc s lb) as [s1 ev1] eqn:Es.
  specialize (IH s1 (evs0 ++ ev1) Hn).
  destruct (prun v n maxinc s1 ls) as [s2 evs2]. cbn [fst snd] in *.
  rewrite app_assoc. apply IH.
  eapply pstep_ginv; [exact Hn|apply recs_ok_True| |exact Es|exact G]. intros; exact I.
Qed.

(** * Runs of a set of live honest members *)

Definition honest (live : nat -> bool) (lb : label) : Prop :=
  match lb with
  | LGarbage _ _ => False
  | LTick k _ _ => live k = true
  | _ => True
  end.

Definition Plive (live : nat -> bool) (i : nat) : Prop := live i = true /\ (1 <= i)%nat.

Definition sig_honest (live : nat -> bool) (r : sigrec) : Prop := Plive live (sv_by (sr_sig r)).

Definition chain_honest (live : nat -> bool) (c : chain) : Prop :=
  (forall i recs r, c_sigdom c !! i = Some recs -> In r recs -> sig_honest live r) /\
  (forall e, In e (c_pool c) -> sent_ok (Plive live) (snd e)).

Lemma chain_honest_recs_ok live c : chain_honest live c -> recs_ok (Plive live) c.
Proof.
  intros [Ha _] i r Hl Hby. unfold lookup_sig in Hl.
  destruct (c_sigdom c !! i) as [[|r0 recs]|] eqn:E; try discriminate. injection Hl as ->.
  specialize (Ha i (r :: recs) r E ltac:(left; reflexivity)). unfold sig_honest in Ha. rewrite Hby in Ha. exact Ha.
Qed.

Lemma chain_honest_tick v live n c c' l' ev :
  tick_ok v (Plive live) n c c' l' ev -> chain_honest live c -> chain_honest live c'.
Proof.
  intros [_ _ (Ht & Hs & Hh) Hp _ _ Hk] [Ha Hb]. split.
  - rewrite Hs. exact Ha.
  - intros e He. destruct (Hp e He) as [H|H]; [apply Hb; exact H|]. exact (Hk _ _ H).
Qed.

Lemma In_tail {A} (x : A) l : In x (tail l) -> In x l.
Proof. destruct l; cbn; auto. Qed.

Lemma apply_write_honest live c w :
  sent_ok (Plive live) w ->
  (forall i recs r, c_sigdom c !! i = Some recs -> In r recs -> sig_honest live r) ->
  (forall i recs r, c_sigdom (apply_write c w) !! i = Some recs -> In r recs -> sig_honest live r).
Proof.
  intros Hw Ha. unfold apply_write. destruct (write_ok c w); cbn [negb]; [|exact Ha].
  destruct w as [| | |j|j r0|j r0|]; try exact Ha.
  - destruct (c_txdom c); exact Ha.
  - destruct (c_sigdom c !! j) eqn:E; [exact Ha|]. cbn [c_sigdom]. intros i recs r Hl Hin.
    destruct (decide (i = j)) as [->|Hne].
    + rewrite lookup_insert in Hl. injection Hl as <-. destruct Hin.
    + rewrite lookup_insert_ne in Hl by congruence. exact (Ha i recs r Hl Hin).
  - cbn [c_sigdom]. intros i recs r Hl Hin.
    destruct (decide (i = j)) as [->|Hne].
    + rewrite lookup_insert in Hl. injection Hl as <-. apply in_app_or in Hin as [Hin|[<-|[]]]; [|exact Hw].
      destruct (c_sigdom c !! j) as [recs0|] eqn:E; [|destruct Hin]. exact (Ha j recs0 r E Hin).
    + rewrite lookup_insert_ne in Hl by congruence. exact (Ha i recs r Hl Hin).
  - cbn [c_sigdom]. intros i recs r Hl Hin.
    destruct (decide (i = j)) as [->|Hne].
    + rewrite lookup_insert in Hl. injection Hl as <-. destruct Hin as [<-|Hin]; [exact Hw|].
      apply In_tail in Hin.
      destruct (c_sigdom c !! j) as [recs0|] eqn:E; [|destruct Hin]. exact (Ha j recs0 r E Hin).
    + rewrite lookup_insert_ne in Hl by congruence. exact (Ha i recs r Hl Hin).
Qed.

Lemma land_honest live id s : chain_honest live (p_chain s) -> chain_honest live (p_chain (land id s)).
Proof.
  intros [Ha Hb]. unfold land.
  destruct (list_find _ (c_pool (p_chain s))) as [[pos [id' w]]|] eqn:Ef; [|split; assumption].
  assert (Hin : In (id', w) (c_pool (p_chain s))).
  { apply list_find_Some in Ef as (H & _ & _).
    apply elem_of_list_In. eapply elem_of_list_lookup_2. exact H. }
  unfold clear_flags. cbn [p_chain]. split.
  - cbn [c_sigdom]. apply apply_write_honest; [exact (Hb _ Hin)|exact Ha].
  - cbn [c_pool]. intros e He. apply In_delete in He. rewrite apply_write_pool in He. exact (Hb e He).
Qed.

Lemma land_all_honest live ids : forall s,
  chain_honest live (p_chain s) ->
  chain_honest live (p_chain (fold_left (fun s (e : nat * write) => land (fst e) s) ids s)).
Proof.
  induction ids as [|e ids IH]; intros s H; [exact H|]. cbn [fold_left]. apply IH. apply land_honest. exact H.
Qed.

Lemma pstep_honest v live n maxinc s lb s' ev evs :
  (1 <= n)%nat -> honest live lb ->
  pstep v n maxinc s lb = (s', ev) ->
  ginv v (Plive live) n s evs -> chain_honest live (p_chain s) ->
  ginv v (Plive live) n s' (evs ++ ev) /\ chain_honest live (p_chain s').
Proof.
  intros Hn Hh Hstep G Hc. split.
  - eapply pstep_ginv; [exact Hn|apply chain_honest_recs_ok; exact Hc| |exact Hstep|exact G].
    intros k nonce order -> Hk. cbn in Hh. split; [exact Hh|lia].
  - destruct s as [c l sg so]. destruct lb as [k nonce order|k|id| | |i recs]; cbn [pstep p_chain p_leader p_signers p_solo] in Hstep.
    + cbn in Hh. destruct (c_designated c || negb (k <? n)%nat); [injection Hstep as <- <-; exact Hc|].
      destruct (n =? 1)%nat eqn:E1.
      * apply Nat.eqb_eq in E1. subst n.
        destruct (solo_tick nonce c so) as [[c1 p1] ev1] eqn:Et. injection Hstep as <- <-. cbn [p_chain].
        eapply chain_honest_tick; [|exact Hc]. eapply solo_tick_ok; [exact (proj1 G)|exact Et].
      * destruct (k =? 0)%nat eqn:E0.
        -- destruct (leader_tick v n maxinc nonce order c l) as [[c1 l1] ev1] eqn:Et. injection Hstep as <- <-. cbn [p_chain].
           eapply chain_honest_tick; [|exact Hc].
           eapply leader_tick_ok; [exact Hn|apply chain_honest_recs_ok; exact Hc|exact (proj1 G)|exact Et].
        -- destruct (signer_tick k c _) as [[c1 sg1] ev1] eqn:Et. injection Hstep as <- <-. cbn [p_chain].
           eapply chain_honest_tick; [|exact Hc]. apply Nat.eqb_neq in E0.
           eapply signer_tick_ok; [|exact (proj1 G)|exact Et]. split; [exact Hh|lia].
    + destruct (k =? 0)%nat; injection Hstep as <- <-; exact Hc.
    + injection Hstep as <- <-. apply land_honest. exact Hc.
    + injection Hstep as <- <-. apply land_all_honest. exact Hc.
    + injection Hstep as <- <-. exact Hc.
    + destruct Hh.
Qed.

Lemma prun_honest v live n maxinc ls : forall s evs0,
  (1 <= n)%nat -> Forall (honest live) ls ->
  ginv v (Plive live) n s evs0 -> chain_honest live (p_chain s) ->
  ginv v (Plive live) n (fst (prun v n maxinc s ls)) (evs0 ++ snd (prun v n maxinc s ls)).
Proof.
  induction ls as [|lb ls IH]; intros s evs0 Hn Hh G Hc; cbn [prun fst snd]; [rewrite app_nil_r; exact G|].
  apply Forall_cons_1 in Hh as [Hh Hhs].
  destruct (pstep v n maxinc s lb) as [s1 ev1] eqn:Es.
  destruct (pstep_honest v live n maxinc s lb s1 ev1 evs0 Hn Hh Es G Hc) as [G1 Hc1].
  specialize (IH s1 (evs0 ++ ev1) Hn Hhs G1 Hc1).
  destruct (prun v n maxinc s1 ls) as [s2 evs2]. cbn [fst snd] in *.
  rewrite app_assoc. exact IH.
Qed.

Lemma chain_honest_init live h0 : chain_honest live (p_chain (pinit h0)).
Proof.
  split.
  - intros i recs r H. cbn in H. rewrite lookup_empty in H. discriminate.
  - intros e [].
Qed.

(** * Pigeonhole: how many signatures the leader can ever hold *)

(** Live members whose signature domain the leader's loop reads and checks
    with their own key (the loop visits [v_first v .. v_first v + n - 2],
    member k >= 1 writes domain k): indices 1..n-2 before fix 70faaf5,
    1..n-1 since. *)
Definition readable (v : variant) (n : nat) (live : nat -> bool) : nat :=
  length (List.filter live (seq 1 (v_first v + (n - 1) - 1))).

Lemma readable_bound v n live (sc : list sigval) :
  NoDup (map sv_by sc) ->
  Forall (fun s => (sv_by s < v_first v + (n - 1))%nat /\ Plive live (sv_by s)) sc ->
  (length sc <= readable v n live)%nat.
Proof.
  intros Hnd Hall. rewrite <- (map_length sv_by). unfold readable.
  apply NoDup_incl_length; [apply NoDup_ListNoDup; exact Hnd|].
  intros x Hx. apply in_map_iff in Hx as (s & <- & Hs).
  rewrite List.Forall_forall in Hall. destruct (Hall s Hs) as (Hlt & Hlive & Hge).
  apply filter_In. split; [|exact Hlive]. apply in_seq. lia.
Qed.

(** If fewer than [maj_m n - 1] live members are readable, no history of
    the live members (any interleaving, restarts, delays) ever assembles a
    witness, sends a designation, or gets the role designated. *)
Lemma blocked v n maxinc h0 live ls :
  (2 <= n)%nat -> (readable v n live < maj_m n - 1)%nat ->
  Forall (honest live) ls ->
  let r := prun v n maxinc (pinit h0) ls in
  (forall d sc, ~ In (EAssembled d sc) (snd r)) /\
  (forall id d sc, ~ In (ESent id (WDesignate d sc)) (snd r)) /\
  c_designated (p_chain (fst r)) = false.
Proof.
  intros Hn Hr Hh r.
  pose proof (prun_honest v live n maxinc ls (pinit h0) [] ltac:(lia) Hh (ginv_init _ _ n h0) (chain_honest_init live h0)) as G.
  fold r in G. cbn [app] in G. destruct G as (_ & _ & G3 & G4 & G5).
  assert (H2 : forall id d sc, ~ In (ESent id (WDesignate d sc)) (snd r)).
  { intros id d sc Hin. destruct (G5 id d sc Hin) as (_ & Hlen & [Hnil|(Hl & Hnd & Hall)]).
    - destruct sc as [|s0 sc]; cbn [tail length] in *; [lia|]. subst sc. cbn [length] in Hlen. lia.
    - pose proof (readable_bound v n live (tail sc) Hnd Hall). lia. }
  split; [|split; [exact H2|]].
  - intros d sc Hin. destruct (G4 d sc Hin) as ((Hlen & _ & Hnd & Hb) & HP).
    assert (Hall : Forall (fun s => (sv_by s < v_first v + (n - 1))%nat /\ Plive live (sv_by s)) (tail sc)).
    { rewrite List.Forall_forall in *. intros s Hs. split; [apply Hb; exact Hs|apply HP; exact Hs]. }
    pose proof (readable_bound v n live (tail sc) Hnd Hall) as Hle.
    destruct sc as [|s0 sc]; cbn [tail length] in *; lia.
  - destruct (c_designated (p_chain (fst r))) eqn:E; [|reflexivity].
    destruct (G3 eq_refl) as (id & d & sc & Hin). destruct (H2 id d sc Hin).
Qed.

(** * Helpers for the computed theorems of Props/C13.v *)

(** Designated on the fair schedule (8 rounds, ascending map order) iff
    enough readable members are live. *)
Definition partial_check (n : nat) (mask : list bool) : bool :=
  Bool.eqb
    (c_designated (p_chain (fst (prun as_pinned n 5760 (pinit 0) (fair_rounds 8 (members mask) 1 (seq 0 n))))))
    (maj_m n - 1 <=? readable as_pinned n (live_of mask))%nat.

Lemma all_masks_complete n : forall mask, length mask = n -> In mask (all_masks n).
Proof.
  induction n as [|n IH]; intros [|b mask] Hl; try discriminate; [left; reflexivity|].
  cbn [all_masks]. apply in_flat_map. exists mask. split; [apply IH; injection Hl as ->; reflexivity|].
  destruct b; [left|right; left]; reflexivity.
Qed.


Fixpoint first_assembled (evs : list event) : option (data * list sigval) :=
  match evs with
  | [] => None
  | EAssembled d sc :: _ => Some (d, sc)
  | _ :: evs' => first_assembled evs'
  end.
Lemma first_assembled_In evs d sc : first_assembled evs = Some (d, sc) -> In (EAssembled d sc) evs.
Proof.
  induction evs as [|e evs IH]; [discriminate|]. destruct e; cbn [first_assembled]; intros H;
    try (right; apply IH; exact H). injection H as -> ->. left. reflexivity.
Qed.


(** The same check for the repaired variant: designated iff a majority
    (including the leader) is live. The map order is irrelevant there. *)
Definition live_count (n : nat) (live : nat -> bool) : nat := length (List.filter live (seq 0 n)).

Definition repaired_check (n : nat) (mask : list bool) : bool :=
  Bool.eqb
    (c_designated (p_chain (fst (prun as_repaired n 5760 (pinit 0) (fair_rounds 8 (members mask) 1 [])))))
    (maj_m n <=? live_count n (live_of mask))%nat.

Lemma assemble_repaired_order n o1 o2 m : assemble as_repaired n o1 m = assemble as_repaired n o2 m.
Proof. reflexivity. Qed.
