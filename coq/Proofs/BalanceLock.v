(** Proofs/BalanceLock.v — the epoch loop of Balance.NewEpoch: which lock
    accounts a tick releases (C09). *)
From Verif Require Import Base.Prelude Base.IntCodec Model.Balance Proofs.BalanceSum Proofs.Balance.
From Coq Require Import ZifyBool.
Local Open Scope Z_scope.

Lemma hash_len_length k : hash_len k = true -> (length k =? 0)%nat = false.
Proof. unfold hash_len. intros H. apply Nat.eqb_eq in H. rewrite H. reflexivity. Qed.

(** Accounts other than [from] keep their lock metadata and are never debited. *)
Lemma transfer_other c m f t a ir d fn tn m' r ns k :
  transfer c m f t a ir d fn tn = Halt (m', r, ns) -> k <> f ->
  until (get_acc m' k) = until (get_acc m k) /\
  parent (get_acc m' k) = parent (get_acc m k) /\
  bal (get_acc m k) <= bal (get_acc m' k).
Proof.
  unfold transfer. intros H Hk.
  destruct (a <? 0) eqn:Ea; [discriminate|].
  destruct (can_transfer c m f t a ir) as [af|] eqn:Ec.
  2:{ injection H as <- <- <-. repeat split; lia. }
  set (m1 := if hash_len f then
               if bal af =? a then delete f m
               else <[f:=mkAcc (bal af - a) (until af) (parent af)]> m
             else m) in *.
  assert (H1 : get_acc m1 k = get_acc m k).
  { subst m1. destruct (hash_len f); [|reflexivity]. destruct (bal af =? a).
    - rewrite get_acc_delete. apply bytes_eqb_neq in Hk. rewrite Hk. reflexivity.
    - rewrite get_acc_insert. apply bytes_eqb_neq in Hk. rewrite Hk. reflexivity. }
  clearbody m1.
  destruct (hash_len t) eqn:Et; simpl in H.
  - destruct (vm_add (bal (get_acc m1 t)) a) as [nb|] eqn:Ev; simpl in H; [|discriminate].
    apply vm_add_halt in Ev.
    destruct (oassert ((fn || hash_len f) && (tn || true))); simpl in H; [|discriminate].
    injection H as <- <- <-. rewrite get_acc_insert.
    destruct (bytes_eqb k t) eqn:Ekt; simpl.
    + apply bytes_eqb_eq in Ekt. subst k. rewrite H1 in *. repeat split; lia.
    + rewrite H1. repeat split; lia.
  - destruct (oassert ((fn || hash_len f) && (tn || false))); simpl in H; [|discriminate].
    injection H as <- <- <-. rewrite H1. repeat split; lia.
Qed.

(** Releasing a whole lock account [x] to a different account [p]. *)
Lemma transfer_release c m x p d m' r ns :
  transfer c m x p (bal (get_acc m x)) true d false false = Halt (m', r, ns) ->
  x <> p -> hash_len x = true ->
  r = true /\ m' !! x = None /\ hash_len p = true /\
  get_acc m' p = mkAcc (bal (get_acc m p) + bal (get_acc m x)) (until (get_acc m p)) (parent (get_acc m p)) /\
  (forall k, k <> x -> k <> p -> m' !! k = m !! k) /\
  ns = [NTransfer x p (bal (get_acc m x)); NTransferX x p (bal (get_acc m x)) d].
Proof.
  unfold transfer, can_transfer. intros H Hxp Hx. simpl in H.
  destruct (bal (get_acc m x) <? 0) eqn:Ea; [discriminate|].
  rewrite (hash_len_length _ Hx) in H.
  rewrite Z.ltb_irrefl in H. rewrite Hx, Z.eqb_refl in H.
  destruct (hash_len p) eqn:Ep; simpl in H; [|discriminate].
  destruct (vm_add (bal (get_acc (delete x m) p)) (bal (get_acc m x))) as [nb|] eqn:Ev; simpl in H; [|discriminate].
  apply vm_add_halt in Ev. injection H as <- <- <-.
  assert (Hp : get_acc (delete x m) p = get_acc m p).
  { rewrite get_acc_delete. assert (p <> x) as Hpx by congruence. apply bytes_eqb_neq in Hpx. rewrite Hpx. reflexivity. }
  rewrite Hp in *. subst nb.
  split; [reflexivity|]. split.
  { rewrite lookup_insert_ne by congruence. apply lookup_delete. }
  split; [reflexivity|]. split.
  { rewrite get_acc_insert, bytes_eqb_refl. reflexivity. }
  split; [|reflexivity].
  intros k Hkx Hkp. rewrite lookup_insert_ne by congruence. rewrite lookup_delete_ne by congruence. reflexivity.
Qed.

(** An account is *due* at epoch [e]: 20-byte key, a lock account (it has
    a parent) and [e >= Until]. *)
Definition due (e : Z) (m : gmap bytes account) (k : bytes) : bool :=
  hash_len k && is_lock (get_acc m k) && (e >=? until (get_acc m k)).

Lemma is_lock_parent a b : parent a = parent b -> is_lock a = is_lock b.
Proof. unfold is_lock. intros ->. reflexivity. Qed.

Lemma due_present e m k : due e m k = true -> is_Some (m !! k).
Proof.
  unfold due, get_acc. destruct (m !! k); [eauto|]. simpl. rewrite andb_false_r. discriminate.
Qed.

(** ** A: accounts that are not due are never debited by a tick and keep
    their lock metadata. *)
Definition keepI (e : Z) (m0 m : gmap bytes account) : Prop :=
  forall k, due e m0 k = false ->
    until (get_acc m k) = until (get_acc m0 k) /\
    parent (get_acc m k) = parent (get_acc m0 k) /\
    bal (get_acc m0 k) <= bal (get_acc m k).

Lemma epoch_visit_keep c e m0 m ns x m' ns' :
  epoch_visit c e (Halt (m, ns)) x = Halt (m', ns') -> keepI e m0 m -> keepI e m0 m'.
Proof.
  unfold epoch_visit. simpl. intros H HI.
  destruct (negb (hash_len x)) eqn:Ex; [injection H as <- <-; exact HI|].
  destruct (negb (is_lock (get_acc m x))) eqn:Eu; [injection H as <- <-; exact HI|].
  destruct (e >=? until (get_acc m x)) eqn:Ee; [|injection H as <- <-; exact HI].
  destruct (transfer c m x (parent (get_acc m x)) (bal (get_acc m x)) true
              (unlock_details e) false false) as [[[m2 r2] ns2]|] eqn:Et; simpl in H; [|discriminate].
  injection H as <- <-.
  intros k Hk.
  assert (Hkx : k <> x).
  { intros ->. destruct (HI x Hk) as (Hu & Hp & _). unfold due in Hk. rewrite <- Hu in Hk.
    rewrite <- (is_lock_parent _ _ Hp) in Hk. apply negb_false_iff in Eu.
    rewrite Eu, Ee in Hk. apply negb_false_iff in Ex. rewrite Ex in Hk. discriminate. }
  destruct (transfer_other _ _ _ _ _ _ _ _ _ _ _ _ k Et Hkx) as (T1 & T2 & T3).
  destruct (HI k Hk) as (I1 & I2 & I3). repeat split; try congruence. lia.
Qed.

Lemma fold_epoch_keep c e m0 l m ns m' ns' :
  fold_left (epoch_visit c e) l (Halt (m, ns)) = Halt (m', ns') -> keepI e m0 m -> keepI e m0 m'.
Proof.
  revert m ns. induction l as [|x l IH]; cbn [fold_left]; intros m ns H HI.
  - injection H as <- <-. exact HI.
  - destruct (epoch_visit c e (Halt (m, ns)) x) as [[m1 ns1]|] eqn:E1.
    2:{ rewrite fold_epoch_fault in H. discriminate. }
    eapply IH; [exact H|]. eapply epoch_visit_keep; eauto.
Qed.

Lemma new_epoch_keep c m e m' ns k :
  new_epoch c m e = Halt (m', ns) -> due e m k = false ->
  until (get_acc m' k) = until (get_acc m k) /\
  parent (get_acc m' k) = parent (get_acc m k) /\
  bal (get_acc m k) <= bal (get_acc m' k).
Proof.
  unfold new_epoch. intros H Hk.
  eapply (fold_epoch_keep c e m) in H; [apply H; exact Hk|].
  intros k' _. repeat split; lia.
Qed.

(** ** B: every due account is released in full to its parent. *)

(** No due account has a due account (or itself) as parent — true of locks
    created by [Lock] from ordinary accounts. *)
Definition nochain (e : Z) (m : gmap bytes account) : Prop :=
  forall k, due e m k = true -> due e m (parent (get_acc m k)) = false.

(** Decidable form of [nochain], for concrete ledgers ([vm_compute]). *)
Definition nochainb (e : Z) (m : gmap bytes account) : bool :=
  forallb (fun k => negb (due e m k) || negb (due e m (parent (get_acc m k)))) (skeys m).
Lemma nochainb_sound e m : nochainb e m = true -> nochain e m.
Proof.
  unfold nochainb, nochain. intros H k Hk.
  assert (Hin : k ∈ skeys m) by (apply elem_of_skeys; eapply due_present; exact Hk).
  rewrite forallb_forall in H. specialize (H k). rewrite <- elem_of_list_In in H.
  specialize (H Hin). rewrite Hk in H. simpl in H. destruct (due e m (parent (get_acc m k))); [discriminate|reflexivity].
Qed.

(** What the already visited due accounts [V] have paid to [k]. *)
Fixpoint paid (e : Z) (m0 : gmap bytes account) (V : list bytes) (k : bytes) : Z :=
  match V with
  | [] => 0
  | d :: V' =>
      (if due e m0 d && bytes_eqb (parent (get_acc m0 d)) k then bal (get_acc m0 d) else 0)
      + paid e m0 V' k
  end.

Lemma paid_app e m0 V W k : paid e m0 (V ++ W) k = paid e m0 V k + paid e m0 W k.
Proof. induction V as [|d V IH]; simpl; [lia|]. rewrite IH. lia. Qed.

Definition relI (e : Z) (m0 : gmap bytes account) (V : list bytes) (m : gmap bytes account) : Prop :=
  (forall k, due e m0 k = true -> k ∈ V -> m !! k = None) /\
  (forall k, due e m0 k = true -> k ∉ V -> m !! k = m0 !! k) /\
  (forall k, due e m0 k = false ->
     get_acc m k = mkAcc (bal (get_acc m0 k) + paid e m0 V k) (until (get_acc m0 k)) (parent (get_acc m0 k))).

Lemma acc_eta a : mkAcc (bal a) (until a) (parent a) = a.
Proof. destruct a; reflexivity. Qed.

Lemma epoch_visit_rel c e m0 V m ns x m' ns' :
  nochain e m0 -> x ∉ V ->
  epoch_visit c e (Halt (m, ns)) x = Halt (m', ns') -> relI e m0 V m -> relI e m0 (V ++ [x]) m'.
Proof.
  intros Hnc HxV H (R1 & R2 & R3).
  assert (Hskip : due e m0 x = false -> m' = m -> relI e m0 (V ++ [x]) m').
  { intros Hd ->. repeat split.
    - intros k Hk Hin. apply elem_of_app in Hin as [Hin|Hin]; [auto|].
      apply elem_of_list_singleton in Hin. subst. congruence.
    - intros k Hk Hin. apply R2; [exact Hk|]. intros Hin'. apply Hin. apply elem_of_app. auto.
    - intros k Hk. rewrite R3 by exact Hk. rewrite paid_app. simpl. rewrite Hd. simpl.
      f_equal. lia. }
  unfold epoch_visit in H. simpl in H.
  destruct (due e m0 x) eqn:Hd.
  - (* x is due in the pre-state and untouched so far *)
    pose proof (R2 x Hd HxV) as Hx.
    assert (Hacc : get_acc m x = get_acc m0 x) by (unfold get_acc; rewrite Hx; reflexivity).
    unfold due in Hd. rewrite <- Hacc in Hd.
    apply andb_true_iff in Hd as [Hd Hd3]. apply andb_true_iff in Hd as [Hd1 Hd2].
    rewrite Hd1 in H. simpl in H. rewrite Hd2, Hd3 in H. simpl in H.
    destruct (transfer c m x (parent (get_acc m x)) (bal (get_acc m x)) true
                (unlock_details e) false false) as [[[m2 r2] ns2]|] eqn:Et; simpl in H; [|discriminate].
    injection H as <- <-.
    assert (Hdx : due e m0 x = true).
    { unfold due. rewrite <- Hacc, Hd1, Hd2, Hd3. reflexivity. }
    pose proof (Hnc x Hdx) as Hp. rewrite <- Hacc in Hp.
    set (p := parent (get_acc m x)) in *.
    assert (Hxp : x <> p) by (intros E; rewrite <- E in Hp; congruence).
    apply transfer_release in Et; [|exact Hxp|exact Hd1].
    destruct Et as (_ & Tx & Tp & Tpa & Tk & _).
    repeat split.
    + intros k Hk Hin. apply elem_of_app in Hin as [Hin|Hin].
      * assert (k <> x) by (intros ->; contradiction).
        assert (k <> p) by (intros ->; congruence).
        rewrite Tk by assumption. auto.
      * apply elem_of_list_singleton in Hin. subst. exact Tx.
    + intros k Hk Hin.
      assert (k <> x). { intros ->. apply Hin. apply elem_of_app. right. apply elem_of_list_singleton. reflexivity. }
      assert (k <> p) by (intros ->; congruence).
      rewrite Tk by assumption. apply R2; [exact Hk|]. intros Hin'. apply Hin. apply elem_of_app. auto.
    + intros k Hk. rewrite paid_app. simpl. rewrite Hdx. simpl.
      assert (Hkx : k <> x) by (intros ->; congruence).
      destruct (bytes_eqb (parent (get_acc m0 x)) k) eqn:Epk.
      * apply bytes_eqb_eq in Epk. rewrite <- Hacc in Epk. fold p in Epk. subst k.
        rewrite Tpa. rewrite (R3 p Hk). simpl. rewrite Hacc. f_equal. lia.
      * apply bytes_eqb_neq in Epk. rewrite <- Hacc in Epk. fold p in Epk.
        assert (Hg : get_acc m2 k = get_acc m k).
        { unfold get_acc. rewrite Tk by congruence. reflexivity. }
        rewrite Hg, (R3 k Hk). f_equal. lia.
  - (* x is not due: the loop skips it *)
    apply Hskip; [reflexivity|].
    destruct (negb (hash_len x)) eqn:Ex; [injection H as <- <-; reflexivity|].
    pose proof (R3 x Hd) as Hacc.
    assert (Hu : until (get_acc m x) = until (get_acc m0 x)) by (rewrite Hacc; reflexivity).
    assert (Hpa : parent (get_acc m x) = parent (get_acc m0 x)) by (rewrite Hacc; reflexivity).
    unfold due in Hd. rewrite <- Hu, <- (is_lock_parent _ _ Hpa) in Hd.
    apply negb_false_iff in Ex. rewrite Ex in Hd. simpl in Hd.
    destruct (negb (is_lock (get_acc m x))) eqn:Eu; [injection H as <- <-; reflexivity|].
    apply negb_false_iff in Eu. rewrite Eu in Hd. simpl in Hd. rewrite Hd in H. injection H as <- <-. reflexivity.
Qed.

Lemma fold_epoch_rel c e m0 l V m ns m' ns' :
  nochain e m0 -> NoDup (V ++ l) ->
  fold_left (epoch_visit c e) l (Halt (m, ns)) = Halt (m', ns') ->
  relI e m0 V m -> relI e m0 (V ++ l) m'.
Proof.
  intros Hnc. revert V m ns. induction l as [|x l IH]; cbn [fold_left]; intros V m ns Hnd H HI.
  - injection H as <- <-. rewrite app_nil_r. exact HI.
  - destruct (epoch_visit c e (Halt (m, ns)) x) as [[m1 ns1]|] eqn:E1.
    2:{ rewrite fold_epoch_fault in H. discriminate. }
    replace (V ++ x :: l) with ((V ++ [x]) ++ l) in * by (rewrite <- app_assoc; reflexivity).
    eapply IH; [exact Hnd|exact H|].
    eapply epoch_visit_rel; eauto.
    apply NoDup_app in Hnd as (Hnd & _ & _). apply NoDup_app in Hnd as (_ & Hd & _).
    intros Hin. apply (Hd x Hin). apply elem_of_list_singleton. reflexivity.
Qed.

Lemma new_epoch_release c m e m' ns :
  new_epoch c m e = Halt (m', ns) -> nochain e m ->
  (forall k, due e m k = true -> m' !! k = None) /\
  (forall k, due e m k = false ->
     get_acc m' k = mkAcc (bal (get_acc m k) + paid e m (skeys m) k) (until (get_acc m k)) (parent (get_acc m k))).
Proof.
  unfold new_epoch. intros H Hnc.
  apply (fold_epoch_rel c e m (skeys m) [] m [] m' ns Hnc) in H.
  - simpl in H. destruct H as (R1 & _ & R3). split; [|exact R3].
    intros k Hk. apply R1; [exact Hk|]. apply elem_of_skeys. eapply due_present; eauto.
  - simpl. apply NoDup_skeys.
  - repeat split.
    + intros k _ Hin. inversion Hin.
    + intros k Hk. simpl. rewrite Z.add_0_r. symmetry. apply acc_eta.
Qed.

(** ** One-step facts about lock accounts *)

Lemma get_acc_some m k a : m !! k = Some a -> get_acc m k = a.
Proof. unfold get_acc. intros ->. reflexivity. Qed.
Lemma get_acc_none m k : m !! k = None -> get_acc m k = empty_acc.
Proof. unfold get_acc. intros ->. reflexivity. Qed.

(** A successful [Lock] onto a fresh 20-byte target creates the lock account
    holding exactly [a], until [u], parent [f], and debits [f] by [a]. *)
Lemma lock_creates c s d f t a u s' r ns :
  bexec c s (Lock d f t a u) = Halt (s', r, ns) ->
  accts s !! t = None -> f <> t ->
  alpha c = true /\ 0 <= a /\ a <= balance_of s f /\ hash_len f = true /\ hash_len t = true /\
  accts s' !! t = Some (mkAcc a u f) /\
  balance_of s' f = balance_of s f - a /\
  (forall k, k <> f -> k <> t -> accts s' !! k = accts s !! k) /\
  supply s' = supply s.
Proof.
  simpl. intros H Ht Hft.
  destruct (alpha c) eqn:Ea; simpl in H; [|discriminate].
  destruct (transfer c (<[t:=mkAcc 0 u f]> (accts s)) f t a true (3%N :: d) false false) as [[[m r0] ns0]|] eqn:Et; simpl in H; [|discriminate].
  destruct (oassert r0) eqn:Er; simpl in H; [|discriminate]. apply oassert_halt in Er. subst r0.
  destruct (oassert (hash_len f && hash_len t)) eqn:El; simpl in H; [|discriminate].
  apply oassert_halt in El. apply andb_true_iff in El as [Hf Hl].
  injection H as <- <- <-. simpl.
  assert (Hgf : get_acc (<[t:=mkAcc 0 u f]> (accts s)) f = get_acc (accts s) f).
  { rewrite get_acc_insert. apply bytes_eqb_neq in Hft. rewrite Hft. reflexivity. }
  (* unfold the transfer: f <> t, both 20 bytes *)
  unfold transfer, can_transfer in Et. simpl in Et.
  destruct (a <? 0) eqn:Eneg; [discriminate|].
  rewrite (hash_len_length _ Hf) in Et. rewrite Hgf in Et.
  destruct (bal (get_acc (accts s) f) <? a) eqn:Elt; [discriminate|].
  rewrite Hf, Hl in Et. simpl in Et.
  set (m1 := if bal (get_acc (accts s) f) =? a then delete f (<[t:=mkAcc 0 u f]> (accts s))
             else <[f:=mkAcc (bal (get_acc (accts s) f) - a) (until (get_acc (accts s) f)) (parent (get_acc (accts s) f))]>
                    (<[t:=mkAcc 0 u f]> (accts s))) in *.
  assert (Hm1t : get_acc m1 t = mkAcc 0 u f).
  { subst m1. assert (t <> f) as Htf by congruence. apply bytes_eqb_neq in Htf.
    destruct (bal (get_acc (accts s) f) =? a).
    - rewrite get_acc_delete, Htf, get_acc_insert, bytes_eqb_refl. reflexivity.
    - rewrite get_acc_insert, Htf, get_acc_insert, bytes_eqb_refl. reflexivity. }
  assert (Hm1f : bal (get_acc m1 f) = bal (get_acc (accts s) f) - a).
  { subst m1. destruct (bal (get_acc (accts s) f) =? a) eqn:Eb.
    - rewrite get_acc_delete, bytes_eqb_refl. simpl. lia.
    - rewrite get_acc_insert, bytes_eqb_refl. reflexivity. }
  assert (Hm1k : forall k, k <> f -> k <> t -> m1 !! k = accts s !! k).
  { intros k Hkf Hkt. subst m1. destruct (bal (get_acc (accts s) f) =? a).
    - rewrite lookup_delete_ne by congruence. rewrite lookup_insert_ne by congruence. reflexivity.
    - rewrite !lookup_insert_ne by congruence. reflexivity. }
  clearbody m1. rewrite Hm1t in Et. simpl in Et.
  destruct (vm_add 0 a) as [nb|] eqn:Ev; simpl in Et; [|discriminate].
  apply vm_add_halt in Ev. injection Et as <- <-.
  unfold balance_of. simpl.
  split; [reflexivity|]. split; [lia|]. split; [lia|]. split; [exact Hf|]. split; [exact Hl|].
  split. { rewrite lookup_insert. f_equal. f_equal. lia. }
  split. { rewrite get_acc_insert. apply bytes_eqb_neq in Hft. rewrite Hft. exact Hm1f. }
  split; [|reflexivity].
  intros k Hkf Hkt. rewrite lookup_insert_ne by congruence. auto.
Qed.

(** Invocations that do not name [l] leave its account untouched. *)
Definition names (l : bytes) (o : bop) : bool :=
  match o with
  | Transfer f t _ | TransferX f t _ _ => bytes_eqb f l || bytes_eqb t l
  | Mint t _ _ => bytes_eqb t l
  | Burn f _ _ => bytes_eqb f l
  | Lock _ f t _ _ => bytes_eqb f l || bytes_eqb t l
  | NewEpoch _ => true
  end.

Lemma transfer_frame c m f t a ir d fn tn m' r ns l :
  transfer c m f t a ir d fn tn = Halt (m', r, ns) -> l <> f -> l <> t -> m' !! l = m !! l.
Proof.
  intros H Hf Ht. apply transfer_spec in H.
  destruct H as [(_ & -> & _)|(_ & _ & _ & _ & _ & _ & _ & Hk & _)]; [reflexivity|]. apply Hk; assumption.
Qed.

Lemma bexec_frame c s o s' r ns l :
  bexec c s o = Halt (s', r, ns) -> hash_len l = true -> names l o = false ->
  accts s' !! l = accts s !! l.
Proof.
  intros H Hl Hn.
  assert (Hne : l <> []) by (intros ->; discriminate).
  destruct o as [f t a|f t a d|t a d|f a d|d f t a u|e]; simpl in H, Hn; try discriminate.
  - apply orb_false_iff in Hn as [H1 H2]. apply bytes_eqb_neq in H1, H2.
    destruct (transfer c (accts s) f t a false [] false false) as [[[m r0] ns0]|] eqn:Et; simpl in H; [|discriminate].
    injection H as <- <- <-. simpl. eapply transfer_frame; eauto.
  - apply orb_false_iff in Hn as [H1 H2]. apply bytes_eqb_neq in H1, H2.
    destruct (oassert (alpha c)); simpl in H; [|discriminate].
    destruct (transfer c (accts s) f t a true d false false) as [[[m r0] ns0]|] eqn:Et; simpl in H; [|discriminate].
    destruct (oassert r0); simpl in H; [|discriminate].
    injection H as <- <- <-. simpl. eapply transfer_frame; eauto.
  - apply bytes_eqb_neq in Hn.
    destruct (oassert (alpha c)); simpl in H; [|discriminate].
    destruct (transfer c (accts s) [] t a true (1%N :: d) true false) as [[[m r0] ns0]|] eqn:Et; simpl in H; [|discriminate].
    destruct (oassert r0) eqn:Er; simpl in H; [|discriminate].
    destruct (vm_add (supply s) a); simpl in H; [|discriminate].
    injection H as <- <- <-. simpl. eapply transfer_frame; eauto.
  - apply bytes_eqb_neq in Hn.
    destruct (oassert (alpha c)); simpl in H; [|discriminate].
    destruct (transfer c (accts s) f [] a true (2%N :: d) false true) as [[[m r0] ns0]|] eqn:Et; simpl in H; [|discriminate].
    destruct (oassert r0) eqn:Er; simpl in H; [|discriminate].
    destruct (oassert (negb (supply s <? a))); simpl in H; [|discriminate].
    injection H as <- <- <-. simpl. eapply transfer_frame; eauto.
  - apply orb_false_iff in Hn as [H1 H2]. apply bytes_eqb_neq in H1, H2.
    destruct (oassert (alpha c)); simpl in H; [|discriminate].
    destruct (transfer c (<[t:=mkAcc 0 u f]> (accts s)) f t a true (3%N :: d) false false) as [[[m r0] ns0]|] eqn:Et; simpl in H; [|discriminate].
    destruct (oassert r0); simpl in H; [|discriminate].
    destruct (oassert (hash_len f && hash_len t)); simpl in H; [|discriminate].
    injection H as <- <- <-. simpl.
    rewrite (transfer_frame _ _ _ _ _ _ _ _ _ _ _ _ l Et) by congruence.
    rewrite lookup_insert_ne by congruence. reflexivity.
Qed.

(** A burn from the lock account reduces it by exactly the amount; burning
    everything deletes the account (nothing will be returned). *)
Lemma burn_lock c s l x d s' r ns acc :
  bexec c s (Burn l x d) = Halt (s', r, ns) -> hash_len l = true ->
  accts s !! l = Some acc ->
  alpha c = true /\ 0 <= x <= bal acc /\
  accts s' !! l = (if bal acc =? x then None else Some (mkAcc (bal acc - x) (until acc) (parent acc))) /\
  (forall k, k <> l -> accts s' !! k = accts s !! k) /\
  supply s' = supply s - x.
Proof.
  simpl. intros H Hl Hacc.
  destruct (alpha c) eqn:Ea; simpl in H; [|discriminate].
  destruct (transfer c (accts s) l [] x true (2%N :: d) false true) as [[[m r0] ns0]|] eqn:Et; simpl in H; [|discriminate].
  destruct (oassert r0) eqn:Er; simpl in H; [|discriminate]. apply oassert_halt in Er. subst r0.
  destruct (oassert (negb (supply s <? x))); simpl in H; [|discriminate].
  injection H as <- <- <-. simpl.
  unfold transfer, can_transfer in Et. simpl in Et.
  destruct (x <? 0) eqn:Eneg; [discriminate|].
  rewrite (hash_len_length _ Hl) in Et. rewrite (get_acc_some _ _ _ Hacc) in Et.
  destruct (bal acc <? x) eqn:Elt; [discriminate|].
  rewrite Hl in Et. simpl in Et.
  injection Et as <- <-.
  split; [reflexivity|]. split; [lia|].
  destruct (bal acc =? x) eqn:Eb.
  - split; [apply lookup_delete|]. split; [|reflexivity]. intros k Hk. apply lookup_delete_ne. congruence.
  - split; [apply lookup_insert|]. split; [|reflexivity]. intros k Hk. apply lookup_insert_ne. congruence.
Qed.
