(** Proofs/StoreLib.v — lemmas about prefixes, [sfind] and the NeoVM integer
    codec used by the C20 family. *)
From Verif Require Import Base.Prelude Base.IntCodec Model.StoreLib.
From Coq Require Import ZifyBool ZifyNat ZifyN.

(** * Prefixes *)

Lemma is_prefix_nil b : is_prefix [] b = true.
Proof. destruct b; reflexivity. Qed.

Lemma is_prefix_refl_app p r : is_prefix p (p ++ r) = true.
Proof. apply is_prefix_app. eauto. Qed.

Lemma is_prefix_refl p : is_prefix p p = true.
Proof. apply is_prefix_app. exists []. by rewrite app_nil_r. Qed.

Lemma is_prefix_false p b : is_prefix p b = false <-> forall r, b <> p ++ r.
Proof.
  split.
  - intros Hf r ->. rewrite is_prefix_refl_app in Hf. discriminate.
  - intros Hn. destruct (is_prefix p b) eqn:E; [|reflexivity].
    apply is_prefix_app in E as [r ->]. by destruct (Hn r).
Qed.

Lemma is_prefix_app_l p a b : is_prefix (p ++ a) (p ++ b) = is_prefix a b.
Proof. induction p as [|x p IH]; simpl; [reflexivity|]. by rewrite N.eqb_refl, IH. Qed.

Lemma is_prefix_cons x p y b : is_prefix (x :: p) (y :: b) = N.eqb x y && is_prefix p b.
Proof. reflexivity. Qed.

Lemma is_prefix_length p b : is_prefix p b = true -> (length p <= length b)%nat.
Proof. intros [r ->]%is_prefix_app. rewrite app_length. lia. Qed.

Lemma is_prefix_trans a b c : is_prefix a b = true -> is_prefix b c = true -> is_prefix a c = true.
Proof.
  intros [r ->]%is_prefix_app [r' ->]%is_prefix_app. rewrite <- app_assoc. apply is_prefix_refl_app.
Qed.

(** Two strings of the same length, one a prefix of an extension of the
    other, are equal. *)
Lemma is_prefix_same_len a b r : length a = length b -> is_prefix a (b ++ r) = true -> a = b.
Proof.
  intros Hl [r' Hr]%is_prefix_app.
  apply (f_equal (take (length a))) in Hr.
  rewrite take_app_alt in Hr by lia. rewrite take_app_alt in Hr by reflexivity. congruence.
Qed.

(** Prefix-comparable strings: the shorter is a prefix of the longer. *)
Lemma is_prefix_app_cases a x b y :
  is_prefix (a ++ x) (b ++ y) = true -> is_prefix a b = true \/ is_prefix b a = true.
Proof.
  revert b; induction a as [|c a IH]; intros b; [left; apply is_prefix_nil|].
  destruct b as [|d b]; [right; reflexivity|]. simpl.
  intros [Hcd H]%andb_true_iff. rewrite Hcd. simpl. apply IH in H. destruct H as [H|H]; [left|right]; [exact H|].
  rewrite N.eqb_sym, Hcd. exact H.
Qed.

Lemma app_inj_len {A} (a b c d : list A) : length a = length c -> a ++ b = c ++ d -> a = c /\ b = d.
Proof. intros Hl He. by apply app_inj_1. Qed.

(** * [sfind] *)

Lemma sfind_keys_gen (p : bytes) (s : store) (l : list bytes) :
  (forall k, k ∈ l -> is_Some (s !! k)) ->
  map fst (omap (fun k => if is_prefix p k then (fun v => (k, v)) <$> (s !! k) else None) l)
  = filter (fun k => is_prefix p k = true) l.
Proof.
  induction l as [|k l IH]; intros Hs; [reflexivity|].
  destruct (Hs k) as [v Hv]; [left|].
  assert (IH' := IH (fun k' Hk' => Hs k' (elem_of_list_further _ _ _ Hk'))).
  rewrite filter_cons. cbn [omap list_omap]. rewrite Hv.
  destruct (is_prefix p k) eqn:E.
  - rewrite decide_True by reflexivity. cbn. f_equal. exact IH'.
  - rewrite decide_False by discriminate. cbn. exact IH'.
Qed.

Lemma sfind_keys p s : map fst (sfind p s) = filter (fun k => is_prefix p k = true) (skeys s).
Proof. apply sfind_keys_gen. intros k. apply elem_of_skeys. Qed.

Lemma elem_of_sfind p s k v :
  (k, v) ∈ sfind p s <-> s !! k = Some v /\ is_prefix p k = true.
Proof.
  unfold sfind. rewrite elem_of_list_omap. split.
  - intros (k' & Hin & Hf). destruct (is_prefix p k') eqn:E; [|discriminate].
    destruct (s !! k') as [v'|] eqn:Ev; [|discriminate]. simpl in Hf. injection Hf as -> ->. auto.
  - intros [Hv Hp]. exists k. split; [apply elem_of_skeys; eauto|]. by rewrite Hp, Hv.
Qed.

Lemma elem_of_sfind_keys p s k :
  k ∈ map fst (sfind p s) <-> is_Some (s !! k) /\ is_prefix p k = true.
Proof.
  rewrite sfind_keys, elem_of_list_filter, elem_of_skeys. tauto.
Qed.

Lemma NoDup_sfind_keys p s : NoDup (map fst (sfind p s)).
Proof. rewrite sfind_keys. apply NoDup_filter, NoDup_skeys. Qed.

Lemma NoDup_sfind p s : NoDup (sfind p s).
Proof. apply (NoDup_fmap_1 fst). apply NoDup_sfind_keys. Qed.

Lemma StronglySorted_filter {A} (R : relation A) (P : A -> Prop) `{!forall x, Decision (P x)} l :
  StronglySorted R l -> StronglySorted R (filter P l).
Proof.
  induction 1 as [|x l Hs IH Hf]; [constructor|].
  rewrite filter_cons. destruct (decide (P x)); [|exact IH].
  constructor; [exact IH|]. apply Forall_forall. intros y [_ Hy]%elem_of_list_filter.
  rewrite Forall_forall in Hf. auto.
Qed.

(** [Find] order: ascending byte order of the keys. *)
Lemma Sorted_sfind_keys p s : Sorted bytes_le (map fst (sfind p s)).
Proof.
  rewrite sfind_keys. apply StronglySorted_Sorted, StronglySorted_filter.
  apply Sorted_StronglySorted; [apply _|apply Sorted_skeys].
Qed.

(** A sorted duplicate-free listing is determined by its elements. *)
Lemma sorted_keys_unique (l1 l2 : list bytes) :
  Sorted bytes_le l1 -> Sorted bytes_le l2 -> NoDup l1 -> NoDup l2 ->
  (forall k, k ∈ l1 <-> k ∈ l2) -> l1 = l2.
Proof.
  intros S1 S2 N1 N2 He. apply (Sorted_unique bytes_le); auto. by apply NoDup_Permutation.
Qed.

Lemma sfind_insert_match p (s : store) k v :
  s !! k = None -> is_prefix p k = true -> sfind p (<[k := v]> s) ≡ₚ (k, v) :: sfind p s.
Proof.
  intros Hn Hp. apply NoDup_Permutation.
  - apply NoDup_sfind.
  - constructor; [|apply NoDup_sfind]. rewrite elem_of_sfind. intros [H _]. congruence.
  - intros [k' v']. rewrite elem_of_cons, !elem_of_sfind. destruct (decide (k' = k)) as [->|Hne].
    + rewrite lookup_insert. split.
      * intros [[= ->] _]. by left.
      * intros [[= ->]|[H _]]; [auto|congruence].
    + rewrite lookup_insert_ne by congruence. split; [auto|]. intros [[= -> ->]|H]; [done|auto].
Qed.

Lemma sfind_insert_nomatch p (s : store) k v :
  is_prefix p k = false -> sfind p (<[k := v]> s) ≡ₚ sfind p s.
Proof.
  intros Hp. apply NoDup_Permutation; [apply NoDup_sfind..|].
  intros [k' v']. rewrite !elem_of_sfind. destruct (decide (k' = k)) as [->|Hne].
  - rewrite Hp. split; intros [_ ?]; discriminate.
  - by rewrite lookup_insert_ne by congruence.
Qed.

Lemma sfind_empty p : sfind p (∅ : store) = [].
Proof.
  destruct (sfind p ∅) as [|[k v] l] eqn:E; [reflexivity|].
  assert (H : (k, v) ∈ sfind p (∅ : store)) by (rewrite E; left).
  apply elem_of_sfind in H as [H _]. by rewrite lookup_empty in H.
Qed.

(** * [sput] *)
Lemma sput_halt k v s s' : sput k v s = Halt s' -> s' = <[k := v]> s /\ (length k <= 64)%nat.
Proof.
  unfold sput. destruct (_ && _) eqn:E; [|discriminate]. intros [= <-]. split; [reflexivity|lia].
Qed.

(** * Integer codec *)
Local Open Scope Z_scope.

Lemma length_le_bytes n z : length (le_bytes n z) = n.
Proof. revert z; induction n as [|n IH]; intros z; simpl; [reflexivity|]. by rewrite IH. Qed.

Lemma le_to_Z_le_bytes n z : le_to_Z (le_bytes n z) = z mod 256 ^ Z.of_nat n.
Proof.
  revert z; induction n as [|n IH]; intros z.
  - simpl. by rewrite Z.mod_1_r.
  - cbn [le_bytes le_to_Z]. rewrite IH, Z2N.id by (apply Z.mod_pos_bound; lia).
    rewrite Nat2Z.inj_succ, Z.pow_succ_r by lia.
    rewrite Z.rem_mul_r by (try apply Z.pow_nonzero; try apply Z.pow_pos_nonneg; lia).
    reflexivity.
Qed.

Lemma int_nbytes_bound z : z <> 0 ->
  let K := Z.of_nat (int_nbytes z) in
  1 <= K /\ - 2 ^ (8 * K - 1) <= z < 2 ^ (8 * K - 1).
Proof.
  intros Hz. unfold int_nbytes. rewrite (proj2 (Z.eqb_neq z 0) Hz).
  set (m := if z <? 0 then - z - 1 else z).
  assert (Hm : 0 <= m) by (unfold m; destruct (Z.ltb_spec z 0); lia).
  pose proof (Z.log2_nonneg m) as Hl.
  set (K := (Z.log2 m + 1) / 8 + 1).
  assert (HK : 1 <= K /\ Z.log2 m + 1 <= 8 * K - 1).
  { unfold K. pose proof (Z.div_mod (Z.log2 m + 1) 8 ltac:(lia)) as Hd.
    pose proof (Z.mod_pos_bound (Z.log2 m + 1) 8 ltac:(lia)) as Hb.
    pose proof (Z.div_pos (Z.log2 m + 1) 8 ltac:(lia) ltac:(lia)). lia. }
  rewrite Z2Nat.id by lia. cbv zeta. split; [lia|].
  assert (Hmb : m < 2 ^ (8 * K - 1)).
  { destruct (Z.eq_dec m 0) as [->|Hm0]; [apply Z.pow_pos_nonneg; lia|].
    pose proof (Z.log2_spec m ltac:(lia)) as [_ Hu].
    eapply Z.lt_le_trans; [exact Hu|]. replace (Z.succ (Z.log2 m)) with (Z.log2 m + 1) by lia.
    apply Z.pow_le_mono_r; lia. }
  unfold m in Hmb. destruct (Z.ltb_spec z 0); lia.
Qed.

(** (i) decoding inverts encoding, for every integer. *)
Lemma bytes_to_int_to_bytes z : bytes_to_int (int_to_bytes z) = z.
Proof.
  destruct (Z.eq_dec z 0) as [->|Hz]; [reflexivity|].
  pose proof (int_nbytes_bound z Hz) as [HK Hb]. cbv zeta in HK, Hb.
  unfold bytes_to_int, int_to_bytes. rewrite length_le_bytes, le_to_Z_le_bytes.
  set (K := Z.of_nat (int_nbytes z)) in *.
  rewrite (proj2 (Z.eqb_neq K 0)) by lia.
  assert (Hp : (256 : Z) ^ K = 2 ^ (8 * K)) by (rewrite Z.pow_mul_r by lia; reflexivity).
  assert (Hh : 2 ^ (8 * K) = 2 * 2 ^ (8 * K - 1)).
  { rewrite <- Z.pow_succ_r by lia. f_equal. lia. }
  assert (Hpos : 0 < 2 ^ (8 * K - 1)) by (apply Z.pow_pos_nonneg; lia).
  rewrite Hp. destruct (Z_lt_le_dec z 0) as [Hneg|Hnn].
  - assert (Hm : z mod 2 ^ (8 * K) = z + 2 ^ (8 * K)).
    { symmetry. apply (Z.mod_unique_pos _ _ (-1)); lia. }
    rewrite Hm. destruct (Z.ltb_spec (z + 2 ^ (8 * K)) (2 ^ (8 * K - 1))); lia.
  - rewrite Z.mod_small by lia. destruct (Z.ltb_spec z (2 ^ (8 * K - 1))); lia.
Qed.

Lemma int_to_bytes_inj a b : int_to_bytes a = int_to_bytes b -> a = b.
Proof. intros H. rewrite <- (bytes_to_int_to_bytes a), <- (bytes_to_int_to_bytes b). by rewrite H. Qed.

Lemma int_to_bytes_0 : int_to_bytes 0 = [].
Proof. reflexivity. Qed.

(** (ii) the two facts the finding F2 rests on. *)
Lemma int_to_bytes_not_prefix_free :
  exists a b, a <> b /\ is_prefix (int_to_bytes a) (int_to_bytes b) = true.
Proof. exists 1, 257. split; [lia|]. vm_compute. reflexivity. Qed.

Lemma int_to_bytes_0_prefix_of_all x : is_prefix (int_to_bytes 0) x = true.
Proof. apply is_prefix_nil. Qed.

(** Encodings of the same length of different integers: neither is a prefix
    of any extension of the other. *)
Lemma enc_same_len_no_prefix a b r :
  a <> b -> length (int_to_bytes a) = length (int_to_bytes b) ->
  is_prefix (int_to_bytes a) (int_to_bytes b ++ r) = false.
Proof.
  intros Hne Hl. destruct (is_prefix _ _) eqn:E; [|reflexivity].
  apply is_prefix_same_len in E; [|exact Hl]. by apply int_to_bytes_inj in E.
Qed.

(** * Stripping a common prefix keeps order and distinctness *)
Local Close Scope Z_scope.

Lemma is_prefix_split p k : is_prefix p k = true -> k = p ++ drop (length p) k.
Proof. intros [r ->]%is_prefix_app. by rewrite drop_app. Qed.

Lemma bytes_leb_app_l p a b : bytes_leb (p ++ a) (p ++ b) = bytes_leb a b.
Proof.
  induction p as [|x p IH]; [reflexivity|]. cbn [app bytes_leb].
  by rewrite N.ltb_irrefl, N.eqb_refl.
Qed.

Lemma Sorted_strip p (l : list bytes) :
  Forall (fun k => is_prefix p k = true) l -> Sorted bytes_le l ->
  Sorted bytes_le (map (drop (length p)) l).
Proof.
  intros Hf Hs. apply Sorted_StronglySorted in Hs; [|apply _].
  apply StronglySorted_Sorted.
  induction Hs as [|k l Hs IH Hall]; [constructor|].
  apply Forall_cons in Hf as [Hk Hf]. cbn [map]. constructor; [by apply IH|].
  apply Forall_forall. intros r [k' [-> Hk']]%elem_of_list_fmap.
  rewrite Forall_forall in Hall, Hf. specialize (Hall _ Hk'). specialize (Hf _ Hk').
  unfold bytes_le in *. rewrite (is_prefix_split _ _ Hk), (is_prefix_split _ _ Hf) in Hall.
  by rewrite bytes_leb_app_l in Hall.
Qed.

Lemma NoDup_strip p (l : list bytes) :
  Forall (fun k => is_prefix p k = true) l -> NoDup l -> NoDup (map (drop (length p)) l).
Proof.
  intros Hf Hn. apply NoDup_fmap_2_strong; [|exact Hn].
  rewrite Forall_forall in Hf. intros x y Hx Hy He.
  rewrite (is_prefix_split _ _ (Hf _ Hx)), (is_prefix_split _ _ (Hf _ Hy)). by rewrite He.
Qed.

Lemma Forall_sfind_prefix p s : Forall (fun k => is_prefix p k = true) (map fst (sfind p s)).
Proof. apply Forall_forall. intros k Hk. by apply elem_of_sfind_keys in Hk as [_ ?]. Qed.

(** The listing "prefix removed": pairs (rest of the key, value). *)
Definition sfind_strip (p : bytes) (s : store) : list (bytes * bytes) :=
  map (fun kv => (drop (length p) (fst kv), snd kv)) (sfind p s).

Lemma elem_of_sfind_strip p s r v : (r, v) ∈ sfind_strip p s <-> s !! (p ++ r) = Some v.
Proof.
  unfold sfind_strip. rewrite elem_of_list_fmap. split.
  - intros [[k v'] [[= -> ->] [Hv Hp]%elem_of_sfind]]. cbn [fst snd].
    by rewrite <- (is_prefix_split _ _ Hp).
  - intros Hv. exists (p ++ r, v). cbn [fst snd]. rewrite drop_app. split; [reflexivity|].
    apply elem_of_sfind. split; [exact Hv|apply is_prefix_refl_app].
Qed.

Lemma sfind_strip_keys p s : map fst (sfind_strip p s) = map (drop (length p)) (map fst (sfind p s)).
Proof. unfold sfind_strip. rewrite !map_map. reflexivity. Qed.

Lemma NoDup_sfind_strip_keys p s : NoDup (map fst (sfind_strip p s)).
Proof. rewrite sfind_strip_keys. apply NoDup_strip; [apply Forall_sfind_prefix|apply NoDup_sfind_keys]. Qed.

Lemma Sorted_sfind_strip_keys p s : Sorted bytes_le (map fst (sfind_strip p s)).
Proof. rewrite sfind_strip_keys. apply Sorted_strip; [apply Forall_sfind_prefix|apply Sorted_sfind_keys]. Qed.

Lemma elem_of_sfind_strip_keys p s r : r ∈ map fst (sfind_strip p s) <-> is_Some (s !! (p ++ r)).
Proof.
  rewrite elem_of_list_fmap. split.
  - intros [[r' v] [-> H]]. apply elem_of_sfind_strip in H. eauto.
  - intros [v Hv]. exists (r, v). split; [reflexivity|by apply elem_of_sfind_strip].
Qed.

(** Key listing of a whole map, as a sorted duplicate-free list. *)
Lemma skeys_unique {V} (m : gmap bytes V) (l : list bytes) :
  Sorted bytes_le l -> NoDup l -> (forall k, k ∈ l <-> is_Some (m !! k)) -> l = skeys m.
Proof.
  intros Hs Hn He. apply sorted_keys_unique; auto using Sorted_skeys, NoDup_skeys.
  intros k. by rewrite He, elem_of_skeys.
Qed.
