(** Proofs/DeployLive.v — liveness of the Notary bootstrap in the working
    tree ([as_repaired]) for SYMBOLIC committee size: on the canonical fair
    schedule (every live member ticks, everything pooled is executed, a block
    passes) five rounds designate the role whenever the leader and at least
    M-1 other members are live.  Symbolic execution of the model, round by
    round; the members' ticks are handled by induction over the member list. *)
From Verif Require Import Base.Prelude Model.DeployProto Proofs.DeployProto.
From Coq Require Import ZifyBool ZifyNat ZifyN.
Local Open Scope Z_scope.

Definition pexec (v : variant) (n : nat) (maxinc : Z) (s : pstate) (ls : list label) : pstate :=
  fst (prun v n maxinc s ls).

Lemma pexec_nil v n maxinc s : pexec v n maxinc s [] = s.
Proof. reflexivity. Qed.

Lemma pexec_cons v n maxinc s lb ls :
  pexec v n maxinc s (lb :: ls) = pexec v n maxinc (fst (pstep v n maxinc s lb)) ls.
Proof.
  unfold pexec. cbn [prun]. destruct (pstep v n maxinc s lb) as [s1 ev1]. cbn [fst].
  destruct (prun v n maxinc s1 ls) as [s2 evs2]. reflexivity.
Qed.

Lemma pexec_app v n maxinc ls1 : forall s ls2,
  pexec v n maxinc s (ls1 ++ ls2) = pexec v n maxinc (pexec v n maxinc s ls1) ls2.
Proof.
  induction ls1 as [|lb ls1 IH]; intros s ls2; [reflexivity|].
  rewrite <- app_comm_cons, !pexec_cons. apply IH.
Qed.

(** * What ticks read of the chain *)
Definition view (c : chain) : Z * option (list data) * gmap nat (list sigrec) * bool :=
  (c_height c, c_txdom c, c_sigdom c, c_designated c).

Lemma view_pool_add c w : view (fst (pool_add c w)) = view c.
Proof. reflexivity. Qed.

Definition add_opt (c : chain) (w : option write) : chain :=
  match w with Some w => fst (pool_add c w) | None => c end.

Lemma view_add_opt c w : view (add_opt c w) = view c.
Proof. destruct w; reflexivity. Qed.

Lemma pool_add_opt c w :
  c_pool (add_opt c w) = c_pool c ++ match w with Some w => [(c_next c, w)] | None => [] end.
Proof. destruct w; cbn; [reflexivity|rewrite app_nil_r; reflexivity]. Qed.

Lemma apply_write_view c1 c2 w :
  view c1 = view c2 -> view (apply_write c1 w) = view (apply_write c2 w).
Proof.
  destruct c1 as [h1 t1 g1 d1 p1 n1], c2 as [h2 t2 g2 d2 p2 n2]. unfold view. cbn.
  intros [= -> -> -> ->]. unfold apply_write, write_ok. cbn.
  repeat case_match; reflexivity.
Qed.

Lemma fold_apply_write_view ws : forall c1 c2,
  view c1 = view c2 -> view (fold_left apply_write ws c1) = view (fold_left apply_write ws c2).
Proof.
  induction ws as [|w ws IH]; intros c1 c2 Hv; [exact Hv|]. cbn [fold_left]. apply IH.
  apply apply_write_view. exact Hv.
Qed.

Lemma apply_write_next c w : c_next (apply_write c w) = c_next c.
Proof. unfold apply_write. repeat case_match; reflexivity. Qed.

(** * Executing everything pooled *)

Definition clear_all (p : list (nat * write)) (f : pending) : pending :=
  fold_left (fun f e => clear (fst e) f) p f.

Lemma clear_all_None p : clear_all p None = None.
Proof. induction p as [|e p IH]; [reflexivity|exact IH]. Qed.

Definition land_fold (p : list (nat * write)) (s : pstate) : pstate :=
  fold_left (fun s (e : nat * write) => land (fst e) s) p s.

Lemma land_head id w p s :
  c_pool (p_chain s) = (id, w) :: p ->
  land id s =
  clear_flags id
    (mkP (let c' := apply_write (p_chain s) w in
          mkChain (c_height c') (c_txdom c') (c_sigdom c') (c_designated c') p (c_next c'))
         (p_leader s) (p_signers s) (p_solo s)).
Proof.
  intros Hp. unfold land. rewrite Hp. cbn [list_find fst].
  rewrite bool_decide_eq_true_2 by reflexivity.
  case_decide as Hd; [|exfalso; apply Hd; exact I].
  rewrite apply_write_pool, Hp. reflexivity.
Qed.

Lemma get_signer_clear id s k :
  get_signer (clear_flags id s) k =
  let sg := get_signer s k in mkSigner (s_tx sg) (clear id (s_reg sg)) (clear id (s_set sg)).
Proof.
  unfold get_signer, clear_flags. cbn [p_signers]. rewrite lookup_fmap.
  destruct (p_signers s !! k) as [sg|]; reflexivity.
Qed.

(** Landing the whole pool, in order: the chain is the fold of the writes,
    the pool is empty, flags are cleared, nothing else changes. *)
Lemma land_fold_spec p : forall s,
  c_pool (p_chain s) = p ->
  let s' := land_fold p s in
  let c' := fold_left apply_write (map snd p) (p_chain s) in
  view (p_chain s') = view c' /\ c_pool (p_chain s') = [] /\ c_next (p_chain s') = c_next (p_chain s) /\
  l_tx (p_leader s') = l_tx (p_leader s) /\ l_script (p_leader s') = l_script (p_leader s) /\
  l_m (p_leader s') = l_m (p_leader s) /\ l_full (p_leader s') = l_full (p_leader s) /\
  l_tried (p_leader s') = l_tried (p_leader s) /\
  l_reg (p_leader s') = clear_all p (l_reg (p_leader s)) /\
  l_set (p_leader s') = clear_all p (l_set (p_leader s)) /\
  (forall k, s_tx (get_signer s' k) = s_tx (get_signer s k) /\
             s_reg (get_signer s' k) = clear_all p (s_reg (get_signer s k)) /\
             s_set (get_signer s' k) = clear_all p (s_set (get_signer s k))).
Proof.
  induction p as [|[id w] p IH]; intros s Hp.
  - cbn. repeat split; try reflexivity. exact Hp.
  - cbn [land_fold fold_left map snd fst]. rewrite (land_head id w p s Hp).
    set (s1 := clear_flags id _).
    assert (Hp1 : c_pool (p_chain s1) = p) by reflexivity.
    specialize (IH s1 Hp1). cbv zeta in IH.
    destruct IH as (I1 & I2 & I3 & I4 & I5 & I6 & I7 & I8 & I9 & I10 & I11).
    assert (Hv : view (fold_left apply_write (map snd p) (p_chain s1)) =
                 view (fold_left apply_write (map snd p) (apply_write (p_chain s) w))).
    { apply fold_apply_write_view. reflexivity. }
    cbv zeta. unfold land_fold in *. rewrite I1, Hv.
    split; [reflexivity|]. split; [exact I2|]. split; [rewrite I3; subst s1; cbn; apply apply_write_next|].
    split; [exact I4|]. split; [exact I5|]. split; [exact I6|]. split; [exact I7|]. split; [exact I8|].
    split; [exact I9|]. split; [exact I10|].
    intros k. destruct (I11 k) as (J1 & J2 & J3). subst s1. rewrite get_signer_clear in J1, J2, J3.
    cbn [s_tx s_reg s_set] in J1, J2, J3. auto.
Qed.
