(** Proofs/TiesPlacement.v — ties between the literals of Model/Placement.v
    (property C14) and the constants of the Go sources as extracted into
    Gen/Params.v (regenerated from /repo's working tree on every run).  A
    constant edited in the source breaks the lemma that names it.

    The four storage prefixes are named definitions of the model and are tied
    directly, and once more through the raw keys the model's operations write.
    [maxNumOfREPs] is an inline 255 in [add_next_epoch_nodes], [reps_loop] and
    in the reference specification ([add_ok], [reps_ok]); it is tied through
    the acceptance boundary of each of them.

    The keys of the meta map in SubmitObjectPut are inline string literals of the
    Go function body; they are tied to the function's literal list
    [p_container_SubmitObjectPut_strlits] (source order).
    NOT TIED:
    [ctb]'s padding [[0; 0]] / [[0; x]] mirrors the returns of counterToBytes
    (:615, :617), no named constant either.
    Platform constants (not in /repo): [hash256_len] 32 (interop.Hash256Len,
    used directly by the placement methods), [pubkey_len] 33
    (interop.PublicKeyCompressedLen), [sput] 64 / 65535 (storage key / value
    limits), [to_int] 32 (integer size), [byte_of] -128..255 (SETITEM on a
    Buffer), [reps_ok]'s 256 (range of the uint8 index), [counter_max] 65535
    (the largest counter with a two-byte encoding: a bound of the theorem, not
    a constant of the source).  nodeKeyOffset / nodeKeyEndOffset belong to
    isStorageNode (estimations), not to the placement part. *)
From Coq Require Import ZArith NArith List String.
Import ListNotations.
From Verif Require Import Base.Prelude Base.IntCodec Gen.Params Model.Placement Proofs.TiesLib.
Local Open Scope Z_scope.

(** * Storage prefixes *)

(** containersWithMetaPrefix = 'm' *)
Lemma tie_pM : pM = byte_of_z p_container_containersWithMetaPrefix.
Proof. reflexivity. Qed.

(** nodesPrefix = 'n' *)
Lemma tie_pN : pN = byte_of_z p_container_nodesPrefix.
Proof. reflexivity. Qed.

(** replicasNumberPrefix = 'r' *)
Lemma tie_pR : pR = byte_of_z p_container_replicasNumberPrefix.
Proof. reflexivity. Qed.

(** nextEpochNodesPrefix = 'u' *)
Lemma tie_pU : pU = byte_of_z p_container_nextEpochNodesPrefix.
Proof. reflexivity. Qed.

(** * The same through the keys the operations write *)

Definition CID : bytes := repeat 7%N 32.
Definition OID : bytes := repeat 8%N 32.
Definition K1 : bytes := repeat 2%N 33.
Definition K2 : bytes := repeat 3%N 33.
Definition RAW : bytes := [1%N].

(** Section variables: every signature is valid, every key decodes, the one
    raw meta blob deserialises to a well-formed map, network magic 42. *)
Definition sigv (_ _ _ : bytes) : bool := true.
Definition pubv (_ : bytes) : bool := true.
Definition META : list (bytes * val) :=
  [(k_cid, VBytes CID); (k_oid, VBytes OID); (k_network, VInt 42); (k_size, VInt 1);
   (k_deleted, VList []); (k_locked, VList []); (k_validuntil, VInt 100)].
Definition deser_c (_ : bytes) : option (list (bytes * val)) := Some META.
Definition fits (_ : bytes) : bool := true.
Definition run := prun_from sigv pubv deser_c fits 42.
Definition step := pstep sigv pubv deser_c fits 42.

(** All raw keys of a store, in byte order. *)
Definition keys_of (s : store) : list bytes := map fst (sfind [] s).

(** addNextEpochNodes writes nextEpochNodesPrefix ++ cid ++ vector ++ counter. *)
Lemma tie_next_epoch_nodes_key :
  keys_of (run ∅ [OAdd true CID 0 [K1; K2]])
  = [byte_of_z p_container_nextEpochNodesPrefix :: CID ++ [0; 0; 1]%N;
     byte_of_z p_container_nextEpochNodesPrefix :: CID ++ [0; 0; 2]%N].
Proof. vm_compute. reflexivity. Qed.

(** commitContainerListUpdate moves them under nodesPrefix and writes the REP
    numbers under replicasNumberPrefix ++ cid ++ index. *)
Lemma tie_nodes_replicas_keys :
  keys_of (run ∅ [OAdd true CID 0 [K1; K2]; OCommit true CID (Some [2; 1])])
  = [byte_of_z p_container_nodesPrefix :: CID ++ [0; 0; 1]%N;
     byte_of_z p_container_nodesPrefix :: CID ++ [0; 0; 2]%N;
     byte_of_z p_container_replicasNumberPrefix :: CID ++ [0%N];
     byte_of_z p_container_replicasNumberPrefix :: CID ++ [1%N]].
Proof. vm_compute. reflexivity. Qed.

(** submitObjectPut looks the container up under containersWithMetaPrefix ++ cid:
    with that key (and a committed roster of one node, REP 1) it notifies,
    without it it faults. *)
Definition roster : list pop := [OAdd true CID 0 [K1]; OCommit true CID (Some [1])].
Definition meta_key : bytes := byte_of_z p_container_containersWithMetaPrefix :: CID.

Lemma tie_meta_key :
  (snd (step (run ∅ (roster ++ [OOther [(meta_key, Some [])]])) (OSubmit RAW [[ [5%N] ]] 10)),
   snd (step (run ∅ roster) (OSubmit RAW [[ [5%N] ]] 10)))
  = ([NObjectPut CID OID], []).
Proof. vm_compute. reflexivity. Qed.

(** * maxNumOfREPs = 255 *)

Definition halts {A} (o : outcome A) : bool := match o with Halt _ => true | Fault => false end.

(** A store in which the vectors maxNumOfREPs-2 and maxNumOfREPs-1 of CID have
    a pending node each, so that validatePlacementIndex passes for the two
    vectors compared. *)
Definition s_vec : store :=
  <[pU :: CID ++ [byte_of_z (p_container_maxNumOfREPs - 1); 0; 1]%N := K1]>
    (<[pU :: CID ++ [byte_of_z (p_container_maxNumOfREPs - 2); 0; 1]%N := K1]> ∅).

(** addNextEpochNodes: [placementVector >= maxNumOfREPs] panics. *)
Lemma tie_max_reps_vector :
  (halts (add_next_epoch_nodes true s_vec CID (p_container_maxNumOfREPs - 1) [K2]),
   halts (add_next_epoch_nodes true s_vec CID p_container_maxNumOfREPs [K2])) = (true, false).
Proof. vm_compute. reflexivity. Qed.

(** commitContainerListUpdate: [replica > maxNumOfREPs] panics. *)
Lemma tie_max_reps_replica :
  (halts (commit_list_update true ∅ CID (Some [p_container_maxNumOfREPs])),
   halts (commit_list_update true ∅ CID (Some [p_container_maxNumOfREPs + 1]))) = (true, false).
Proof. vm_compute. reflexivity. Qed.

(** The reference specification: [add_ok] (vector < maxNumOfREPs) ... *)
Definition a_full : astate := mkA (fun _ _ => [K1]) (fun _ _ => []) (fun _ => []).

Lemma tie_max_reps_add_ok :
  (add_ok a_full true CID (p_container_maxNumOfREPs - 1) [K2],
   add_ok a_full true CID p_container_maxNumOfREPs [K2]) = (true, false).
Proof. vm_compute. reflexivity. Qed.

(** ... and [reps_ok] (REP number <= maxNumOfREPs). *)
Lemma tie_max_reps_reps_ok :
  (reps_ok (Some [p_container_maxNumOfREPs]), reps_ok (Some [p_container_maxNumOfREPs + 1]))
  = (true, false).
Proof. vm_compute. reflexivity. Qed.

(** * Keys of the object meta map (string literals inside SubmitObjectPut, in source order;
      the last literal of the function is the notification name) *)
Lemma tie_meta_keys :
  [k_cid; k_oid; k_network; k_size; k_deleted; k_locked; k_validuntil]
  = map bytes_of_string (firstn 7 p_container_SubmitObjectPut_strlits).
Proof. vm_compute. reflexivity. Qed.
