(** Proofs/NNSSyntaxF12.v — the repair proposed for finding F12
    (Model/NNSSyntaxF12.v) makes checkIPv6 accept exactly [valid_AAAA]. *)
From Verif Require Import Base.Prelude Model.NNSSyntax Model.NNSSyntaxF12 Spec.Grammar
  Proofs.NNSSyntaxLib Proofs.NNSSyntaxIP6 Proofs.NNSSyntaxBool.
From Coq Require Import ZifyBool ZifyNat ZifyN.
Local Open Scope Z_scope.

Lemma fixed_unfold s :
  checkIPv6_fixed s =
  if (len s <? 2) || (39 <? len s) then Halt false
  else
    fragments <-! std_string_split s 58;
    if (len fragments <? 3) || (9 <? len fragments) then Halt false
    else
      ok9 <-! (if len fragments =? 9 then nine_ok fragments else Halt true);
      if negb ok9 then Halt false
      else
        r <-! run fragments;
        match r with
        | None => Halt false
        | Some (hasEmpty, nums) =>
            if (len fragments <? 8) && negb hasEmpty then Halt false else gcheck nums
        end.
Proof. reflexivity. Qed.

(** What the old code accepts, the new code accepts. *)
Lemma old_accept_fixed s : checkIPv6 s = Halt true -> checkIPv6_fixed s = Halt true.
Proof.
  rewrite checkIPv6_unfold, fixed_unfold.
  destruct ((len s <? 2) || (39 <? len s)); [discriminate|].
  destruct (std_string_split s 58) as [F|]; [|discriminate]. cbn [obind].
  destruct ((len F <? 3) || (8 <? len F)) eqn:E; [discriminate|].
  replace ((len F <? 3) || (9 <? len F)) with false by lia.
  replace (len F =? 9) with false by lia. cbn [obind negb]. trivial.
Qed.

(** With at most eight fragments nothing changed. *)
Lemma fixed_accept_old s :
  len (strings_split 58 s) <> 9 -> checkIPv6_fixed s = Halt true -> checkIPv6 s = Halt true.
Proof.
  intros H9. rewrite checkIPv6_unfold, fixed_unfold.
  destruct ((len s <? 2) || (39 <? len s)); [discriminate|].
  destruct (std_string_split s 58) as [F|] eqn:Es; [|discriminate]. cbn [obind].
  apply std_split_inv in Es. subst F. set (F := strings_split 58 s) in *.
  destruct ((len F <? 3) || (9 <? len F)) eqn:E; [discriminate|].
  replace ((len F <? 3) || (8 <? len F)) with false by lia.
  replace (len F =? 9) with false by lia. cbn [obind negb]. trivial.
Qed.

Lemma list_len9 {A} (l : list A) : length l = 9%nat ->
  exists a b c d e f g h i, l = [a; b; c; d; e; f; g; h; i].
Proof.
  destruct l as [|a [|b [|c [|d [|e [|f [|g [|h [|i [|]]]]]]]]]]; try discriminate. eauto 12.
Qed.

(** Nine fragments: only seven groups followed by "::" survive. *)
Lemma nine_fragments (F : list bytes) he nums :
  len F = 9 -> nine_ok F = Halt true -> run F = Halt (Some (he, nums)) -> gcheck nums = Halt true ->
  exists L, length L = 7%nat /\ Forall hexgroup L /\ F = L ++ [[]; []] /\
            he = true /\ nums = vals L ++ zeros 1.
Proof.
  intros H9 Hok Hrun Hg.
  destruct (list_len9 F ltac:(unfold len in H9; lia)) as (f0 & f1 & f2 & f3 & f4 & f5 & f6 & f7 & f8 & HF).
  subst F.
  destruct f0 as [|c0 f0]; [destruct f1 as [|c1 f1]|].
  - (* "::" and seven more fragments: never global unicast *)
    exfalso. clear Hok. set (t2 := [f2; f3; f4; f5; f6; f7; f8]) in *.
    change ([] :: [] :: t2) with (([] : bytes) :: [] :: t2) in Hrun.
    assert (Ht2 : t2 <> []) by discriminate.
    assert (Hl2 : (length t2 <= 7)%nat) by (cbn; lia).
    destruct (nonempty_prefix t2) as (R & tail2 & Ht2eq & HR & [->|(t3 & ->)]).
    + rewrite app_nil_r in Ht2eq. subst R.
      destruct (groups_or_bad t2 HR) as [HG|Hbad].
      * rewrite run_left in Hrun by assumption. injection Hrun as <- <-.
        change (8 - length t2)%nat with 1%nat in Hg. exact (gcheck_zero _ Hg).
      * refine (loop_bad _ _ _ _ _ _ _ _ Hrun). apply Exists_cons_tl, Exists_cons_tl. assumption.
    + rewrite run_left_start in Hrun by assumption. rewrite Ht2eq in Hrun.
      destruct t3 as [|f t3].
      * destruct R as [|r0 R0]; [discriminate|].
        refine (loop_last_empty _ (r0 :: R0) [[]; []] _ _ _ _ HR _ _ _ Hrun);
          [discriminate|reflexivity|reflexivity].
      * refine (loop_inner_empty _ _ _ _ _ _ _ _ _ Hrun); [lia| |exists R, (f :: t3); split; [reflexivity|discriminate]].
        rewrite <- Ht2eq. reflexivity.
  - (* an empty first fragment needs an empty second one *)
    exfalso. unfold run in Hrun. rewrite loop_cons in Hrun.
    change (len [] =? 0) with true in Hrun. cbv iota in Hrun.
    change (0 =? 0) with true in Hrun. cbv iota in Hrun.
    rewrite (index_nth _ 1 1 (c1 :: f1)) in Hrun by (reflexivity || lia). cbn [obind] in Hrun.
    replace (len (c1 :: f1) =? 0) with false in Hrun
      by (rewrite len_cons; pose proof (len_nonneg f1); lia).
    discriminate.
  - (* the first fragment is a group: the last two must be empty *)
    unfold nine_ok in Hok.
    cbn [index Z.ltb Z.compare Z.to_nat Pos.to_nat Pos.iter_op Init.Nat.add nth_error obind] in Hok.
    injection Hok as Hok.
    replace (len (c0 :: f0) =? 0) with false in Hok
      by (rewrite len_cons; pose proof (len_nonneg f0); lia).
    cbn [negb orb andb] in Hok. apply negb_true_iff in Hok.
    rewrite orb_false_iff, !negb_false_iff, !len_zero_iff in Hok. destruct Hok as [-> ->].
    set (P := [c0 :: f0; f1; f2; f3; f4; f5; f6]) in *.
    change (run [c0 :: f0; f1; f2; f3; f4; f5; f6; []; []]) with (run (P ++ [[]; []])) in Hrun.
    destruct (nonempty_prefix P) as (gs & tail & HP & Hgs & [->|(t & ->)]).
    + rewrite app_nil_r in HP. subst gs.
      destruct (groups_or_bad P Hgs) as [HG|Hbad].
      * rewrite run_right in Hrun by (assumption || discriminate || (cbn; lia)).
        injection Hrun as <- <-. exists P. repeat split; try assumption; reflexivity.
      * exfalso. refine (loop_bad _ _ _ _ _ _ _ _ Hrun). apply Exists_app. left. assumption.
    + exfalso. destruct gs as [|g0 gs0]; [discriminate|].
      set (gs := g0 :: gs0) in *.
      assert (Hgne : gs <> []) by discriminate.
      destruct (groups_or_bad gs Hgs) as [GG|Hbad].
      2:{ refine (loop_bad _ _ _ _ _ _ _ _ Hrun). rewrite HP, <- app_assoc.
          apply Exists_app. left. assumption. }
      assert (Hlg : (length gs + S (length t) = 7)%nat).
      { assert (H7 : length P = 7%nat) by reflexivity. rewrite HP, app_length in H7. cbn [length] in H7. exact H7. }
      unfold run in Hrun. rewrite HP in Hrun. rewrite <- app_assoc in Hrun.
      set (F := gs ++ ([] :: t) ++ [[]; []]) in *.
      assert (HlF : len F = 9).
      { subst F. rewrite !len_app, len_cons. llia. }
      replace (zeros 8) with ([] ++ zeros (length gs) ++ zeros (8 - length gs)) in Hrun
        by (cbn [app]; rewrite <- zeros_split; f_equal; lia).
      rewrite (loop_groups F (len F) gs (([] :: t) ++ [[]; []]) 0 false []) in Hrun;
        [|assumption|apply repeat_length|reflexivity].
      cbn [app] in Hrun. rewrite loop_cons in Hrun.
      change (len [] =? 0) with true in Hrun. cbv iota in Hrun.
      pose proof (len_pos_nonnil gs Hgne) as Hg1.
      replace (0 + len gs =? 0) with false in Hrun by lia.
      replace (0 + len gs =? len F - 1) with false in Hrun by (rewrite HlF; llia).
      cbv zeta in Hrun.
      destruct (zero_fill _ _ _) as [nums'|] in Hrun; [|discriminate]. cbn [obind] in Hrun.
      refine (loop_inner_empty _ _ _ _ _ _ _ _ _ Hrun).
      * lia.
      * rewrite HlF, len_app. llia.
      * exists t, [[]]. split; [reflexivity|discriminate].
Qed.
