(** Proofs/NNSSyntaxF12.v — lemmas for C18, part 4b (AAAA records): checkIPv6
    of the working tree (with the repair 7bd3a2c of finding F12) accepts
    exactly [valid_AAAA]; the function before the repair is [checkIPv6_old]. *)
From Verif Require Import Base.Prelude Model.NNSSyntax Model.NNSSyntaxF12 Spec.Grammar
  Proofs.NNSSyntaxLib Proofs.NNSSyntaxIP6 Proofs.NNSSyntaxBool.
From Coq Require Import ZifyBool ZifyNat ZifyN.
Local Open Scope Z_scope.

Lemma fixed_unfold s :
  checkIPv6 s =
  if (len s <? 2) || (39 <? len s) then Halt false
  else
    fragments <-! std_string_split s 58;
    if (len fragments <? 3) || (9 <? len fragments) then Halt false
    else
      ok9 <-! (if len fragments =? 9 then nine_ok fragments else Halt true);
      if negb ok9 then Halt false
      else
        r <-! run fragments;
        match r with
        | None => Halt false
        | Some (hasEmpty, nums) =>
            if (len fragments <? 8) && negb hasEmpty then Halt false else gcheck nums
        end.
Proof. reflexivity. Qed.

(** What the old code accepts, the new code accepts. *)
Lemma old_accept_fixed s : checkIPv6_old s = Halt true -> checkIPv6 s = Halt true.
Proof.
  rewrite checkIPv6_old_unfold, fixed_unfold.
  destruct ((len s <? 2) || (39 <? len s)); [discriminate|].
  destruct (std_string_split s 58) as [F|]; [|discriminate]. cbn [obind].
  destruct ((len F <? 3) || (8 <? len F)) eqn:E; [discriminate|].
  replace ((len F <? 3) || (9 <? len F)) with false by lia.
  replace (len F =? 9) with false by lia. cbn [obind negb]. trivial.
Qed.

(** With at most eight fragments nothing changed. *)
Lemma fixed_accept_old s :
  len (strings_split 58 s) <> 9 -> checkIPv6 s = Halt true -> checkIPv6_old s = Halt true.
Proof.
  intros H9. rewrite checkIPv6_old_unfold, fixed_unfold.
  destruct ((len s <? 2) || (39 <? len s)); [discriminate|].
  destruct (std_string_split s 58) as [F|] eqn:Es; [|discriminate]. cbn [obind].
  apply std_split_inv in Es. subst F. set (F := strings_split 58 s) in *.
  destruct ((len F <? 3) || (9 <? len F)) eqn:E; [discriminate|].
  replace ((len F <? 3) || (8 <? len F)) with false by lia.
  replace (len F =? 9) with false by lia. cbn [obind negb]. trivial.
Qed.

Lemma list_len9 {A} (l : list A) : length l = 9%nat ->
  exists a b c d e f g h i, l = [a; b; c; d; e; f; g; h; i].
Proof.
  destruct l as [|a [|b [|c [|d [|e [|f [|g [|h [|i [|]]]]]]]]]]; try discriminate. eauto 12.
Qed.

(** Nine fragments: only seven groups followed by "::" survive. *)
Lemma nine_fragments (F : list bytes) he nums :
  len F = 9 -> nine_ok F = Halt true -> run F = Halt (Some (he, nums)) -> gcheck nums = Halt true ->
  exists L, length L = 7%nat /\ Forall hexgroup L /\ F = L ++ [[]; []] /\
            he = true /\ nums = vals L ++ zeros 1.
Proof.
  intros H9 Hok Hrun Hg.
  destruct (list_len9 F ltac:(unfold len in H9; lia)) as (f0 & f1 & f2 & f3 & f4 & f5 & f6 & f7 & f8 & HF).
  subst F.
  destruct f0 as [|c0 f0]; [destruct f1 as [|c1 f1]|].
  - (* "::" and seven more fragments: never global unicast *)
    exfalso. clear Hok. set (t2 := [f2; f3; f4; f5; f6; f7; f8]) in *.
    change ([] :: [] :: t2) with (([] : bytes) :: [] :: t2) in Hrun.
    assert (Ht2 : t2 <> []) by discriminate.
    assert (Hl2 : (length t2 <= 7)%nat) by (cbn; lia).
    destruct (nonempty_prefix t2) as (R & tail2 & Ht2eq & HR & [->|(t3 & ->)]).
    + rewrite app_nil_r in Ht2eq. subst R.
      destruct (groups_or_bad t2 HR) as [HG|Hbad].
      * rewrite run_left in Hrun by assumption. injection Hrun as <- <-.
        change (8 - length t2)%nat with 1%nat in Hg. exact (gcheck_zero _ Hg).
      * refine (loop_bad _ _ _ _ _ _ _ _ Hrun). apply Exists_cons_tl, Exists_cons_tl. assumption.
    + rewrite run_left_start in Hrun by assumption. rewrite Ht2eq in Hrun.
      destruct t3 as [|f t3].
      * destruct R as [|r0 R0]; [discriminate|].
        refine (loop_last_empty _ (r0 :: R0) [[]; []] _ _ _ _ HR _ _ _ Hrun);
          [discriminate|reflexivity|reflexivity].
      * refine (loop_inner_empty _ _ _ _ _ _ _ _ _ Hrun); [lia| |exists R, (f :: t3); split; [reflexivity|discriminate]].
        rewrite <- Ht2eq. reflexivity.
  - (* an empty first fragment needs an empty second one *)
    exfalso. unfold run in Hrun. rewrite loop_cons in Hrun.
    change (len [] =? 0) with true in Hrun. cbv iota in Hrun.
    change (0 =? 0) with true in Hrun. cbv iota in Hrun.
    rewrite (index_nth _ 1 1 (c1 :: f1)) in Hrun by (reflexivity || lia). cbn [obind] in Hrun.
    replace (len (c1 :: f1) =? 0) with false in Hrun
      by (rewrite len_cons; pose proof (len_nonneg f1); lia).
    discriminate.
  - (* the first fragment is a group: the last two must be empty *)
    unfold nine_ok in Hok.
    cbn [index Z.ltb Z.compare Z.to_nat Pos.to_nat Pos.iter_op Init.Nat.add nth_error obind] in Hok.
    injection Hok as Hok.
    replace (len (c0 :: f0) =? 0) with false in Hok
      by (rewrite len_cons; pose proof (len_nonneg f0); lia).
    cbn [negb orb andb] in Hok. apply negb_true_iff in Hok.
    rewrite orb_false_iff, !negb_false_iff, !len_zero_iff in Hok. destruct Hok as [-> ->].
    set (P := [c0 :: f0; f1; f2; f3; f4; f5; f6]) in *.
    change (run [c0 :: f0; f1; f2; f3; f4; f5; f6; []; []]) with (run (P ++ [[]; []])) in Hrun.
    destruct (nonempty_prefix P) as (gs & tail & HP & Hgs & [->|(t & ->)]).
    + rewrite app_nil_r in HP. subst gs.
      destruct (groups_or_bad P Hgs) as [HG|Hbad].
      * rewrite run_right in Hrun by (assumption || discriminate || (cbn; lia)).
        injection Hrun as <- <-. exists P. repeat split; try assumption; reflexivity.
      * exfalso. refine (loop_bad _ _ _ _ _ _ _ _ Hrun). apply Exists_app. left. assumption.
    + exfalso. destruct gs as [|g0 gs0]; [discriminate|].
      set (gs := g0 :: gs0) in *.
      assert (Hgne : gs <> []) by discriminate.
      destruct (groups_or_bad gs Hgs) as [GG|Hbad].
      2:{ refine (loop_bad _ _ _ _ _ _ _ _ Hrun). rewrite HP, <- app_assoc.
          apply Exists_app. left. assumption. }
      assert (Hlg : (length gs + S (length t) = 7)%nat).
      { assert (H7 : length P = 7%nat) by reflexivity. rewrite HP, app_length in H7. cbn [length] in H7. exact H7. }
      unfold run in Hrun. rewrite HP in Hrun. rewrite <- app_assoc in Hrun.
      set (F := gs ++ ([] :: t) ++ [[]; []]) in *.
      assert (HlF : len F = 9).
      { subst F. rewrite !len_app, len_cons. llia. }
      replace (zeros 8) with ([] ++ zeros (length gs) ++ zeros (8 - length gs)) in Hrun
        by (cbn [app]; rewrite <- zeros_split; f_equal; lia).
      rewrite (loop_groups F (len F) gs (([] :: t) ++ [[]; []]) 0 false []) in Hrun;
        [|assumption|apply repeat_length|reflexivity].
      cbn [app] in Hrun. rewrite loop_cons in Hrun.
      change (len [] =? 0) with true in Hrun. cbv iota in Hrun.
      pose proof (len_pos_nonnil gs Hgne) as Hg1.
      replace (0 + len gs =? 0) with false in Hrun by lia.
      replace (0 + len gs =? len F - 1) with false in Hrun by (rewrite HlF; llia).
      cbv zeta in Hrun.
      destruct (zero_fill _ _ _) as [nums'|] in Hrun; [|discriminate]. cbn [obind] in Hrun.
      refine (loop_inner_empty _ _ _ _ _ _ _ _ _ Hrun).
      * lia.
      * rewrite HlF, len_app. llia.
      * exists t, [[]]. split; [reflexivity|discriminate].
Qed.

Lemma list_len7 {A} (l : list A) : length l = 7%nat ->
  exists a b c d e f g, l = [a; b; c; d; e; f; g].
Proof.
  destruct l as [|a [|b [|c [|d [|e [|f [|g [|]]]]]]]]; try discriminate. eauto 10.
Qed.

(** Seven groups and "::" are now accepted. *)
Lemma seven_accept L :
  length L = 7%nat -> Forall hexgroup L -> global_unicast6 (map hexval L ++ repeat 0 1) ->
  checkIPv6 (join 58 L ++ [58; 58]%N) = Halt true.
Proof.
  intros H7 GL Hg. rewrite fixed_unfold.
  assert (HLne : L <> []) by (destruct L; discriminate).
  pose proof (join_len_lt L HLne GL) as HubL.
  set (s := join 58 L ++ [58; 58]%N).
  assert (Hls : (2 <= length s <= 39)%nat).
  { subst s. rewrite !app_length. cbn [length]. lia. }
  assert (Hasc : Forall (fun c => (c < 128)%N) s).
  { subst s. apply Forall_app. split; [apply join_ascii, GL|repeat constructor; lia]. }
  replace ((len s <? 2) || (39 <? len s)) with false by (unfold len; lia).
  rewrite std_split_ok by (try assumption; unfold len; lia). cbn [obind].
  assert (HF : strings_split 58 s = L ++ [[]; []]).
  { subst s. pose proof (split_compressed L [] GL ltac:(constructor)) as H.
    cbn [join] in H. rewrite app_nil_r in H. rewrite H.
    destruct L; [discriminate|reflexivity]. }
  rewrite HF.
  assert (H9 : len (L ++ [[]; []]) = 9) by (rewrite len_app; llia).
  rewrite H9. cbn [Z.ltb Z.compare Pos.compare Pos.compare_cont orb Z.eqb Pos.eqb].
  assert (Hok : nine_ok (L ++ [[]; []]) = Halt true).
  { destruct (list_len7 L H7) as (a & b & c & d & e & f & g & ->).
    unfold nine_ok, index. cbn [app Z.ltb Z.compare].
    change (Z.to_nat 0) with 0%nat. change (Z.to_nat 1) with 1%nat.
    change (Z.to_nat 7) with 7%nat. change (Z.to_nat 8) with 8%nat. cbn [nth_error obind].
    change (len [] =? 0) with true. cbn [negb orb]. rewrite andb_false_r. reflexivity. }
  rewrite Hok. cbn [obind negb].
  rewrite run_right by (assumption || lia). cbn [obind negb]. rewrite andb_false_r.
  apply gcheck_len8; [|rewrite H7; exact Hg].
  unfold vals. rewrite app_length, map_length, repeat_length. lia.
Qed.

(** The repaired checkIPv6_old accepts exactly the RFC 4291 text (forms 1 and 2)
    of global unicast addresses. *)
Theorem ipv6_equiv s : checkIPv6 s = Halt true <-> valid_AAAA s.
Proof.
  split.
  - intros H. destruct (Z.eq_dec (len (strings_split 58 s)) 9) as [H9|H9].
    + rewrite fixed_unfold in H.
      destruct ((len s <? 2) || (39 <? len s)); [discriminate|].
      destruct (std_string_split s 58) as [F|] eqn:Es; [|discriminate]. cbn [obind] in H.
      apply std_split_inv in Es. rewrite <- Es in H9.
      destruct ((len F <? 3) || (9 <? len F)); [discriminate|].
      replace (len F =? 9) with true in H by lia.
      destruct (nine_ok F) as [[|]|] eqn:Eok; try discriminate. cbn [obind negb] in H.
      destruct (run F) as [[[he nums]|]|] eqn:Erun; try discriminate. cbn [obind] in H.
      destruct ((len F <? 8) && negb he); [discriminate|].
      destruct (nine_fragments F he nums H9 Eok Erun H) as (L & H7 & GL & HF & -> & ->).
      exists (map hexval L ++ repeat 0 1). split.
      * pose proof (T6_compressed L [] GL ltac:(constructor) ltac:(cbn [length]; lia)) as Ht.
        cbn [join map length] in Ht. rewrite !app_nil_r, Nat.sub_0_r, H7 in Ht.
        rewrite <- (join_split 58 s), <- Es, HF, join_right by (destruct L; discriminate). exact Ht.
      * apply gcheck_len8; [|exact H].
        unfold vals. rewrite app_length, map_length, repeat_length. lia.
    + apply ipv6_sound, fixed_accept_old; assumption.
  - intros (g & Ht & Hg).
    destruct (ipv6_complete_or s g Ht Hg) as [H|(L & H7 & GL & -> & ->)].
    + apply old_accept_fixed, H.
    + apply seven_accept; assumption.
Qed.

(** The repair loses nothing and adds exactly the F12 strings. *)
Corollary ipv6_now_vs_old s :
  checkIPv6 s = Halt true <->
  checkIPv6_old s = Halt true \/ (f12_shape s /\ valid_AAAA s).
Proof.
  rewrite ipv6_equiv, ipv6_old_equiv. split.
  - intros Hv. destruct (f12_shapeb s) eqn:E.
    + right. split; [apply f12_shapeb_spec, E|assumption].
    + left. split; [assumption|]. intros H. apply f12_shapeb_spec in H. congruence.
  - intros [[Hv _]|[_ Hv]]; assumption.
Qed.
Print Assumptions ipv6_equiv.
