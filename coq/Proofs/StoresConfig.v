(** Proofs/StoresConfig.v — C20, configuration maps of Netmap and NeoFS:
    the storage under "config" refines a map keyed by the configuration key. *)
From Verif Require Import Base.Prelude Base.IntCodec Model.StoreLib Model.Config Spec.Stores
  Proofs.StoreLib.
From Coq Require Import ZifyBool ZifyNat ZifyN.

(** Refinement relation: the entry under "config" ++ k is the spec's k. *)
Definition cR (s : store) (m : gmap bytes bytes) : Prop :=
  forall k, s !! (config_pfx ++ k) = m !! k.

Lemma cR_insert s m k v : cR s m -> cR (<[config_pfx ++ k := v]> s) (<[k := v]> m).
Proof.
  intros H k'. destruct (decide (k' = k)) as [->|Hne].
  - by rewrite !lookup_insert.
  - rewrite !lookup_insert_ne; [apply H|congruence|]. intros E. apply app_inv_head in E. congruence.
Qed.

Lemma cR_init_gen pairs : forall s m, cR s m ->
  cR (fold_left (fun s kv => <[config_pfx ++ fst kv := snd kv]> s) pairs s)
     (fold_left (fun m kv => <[fst kv := snd kv]> m) pairs m).
Proof.
  induction pairs as [|kv pairs IH]; intros s m H; [exact H|]. cbn [fold_left]. apply IH.
  by apply cR_insert.
Qed.

Lemma cR_init pairs : cR (cinit pairs) (spec_cinit pairs).
Proof. apply cR_init_gen. intros k. by rewrite !lookup_empty. Qed.

Definition cnotif (kd : ckind) (id key v : bytes) : list val :=
  match kd with CNetmap => [] | CNeoFS => [VList [VBytes id; VBytes key; VBytes v]] end.

(** One call: accepted exactly when the Alphabet signs, the value is a byte
    string (or, for Netmap, an Integer / Boolean, stored in canonical form)
    and the platform's key/value limits are met; it then writes exactly
    "config" ++ key. *)
Lemma cstep_cases kd s alpha id key v :
  cstep kd s (CSet alpha id key v) =
  if spec_caccept kd (CSet alpha id key v)
  then (<[config_pfx ++ key := spec_cval (CSet alpha id key v)]> s, VNull,
        cnotif kd id key (spec_cval (CSet alpha id key v)))
  else (s, VFault, []).
Proof.
  unfold cstep, cexec, cset, spec_caccept, spec_cval, cop_as_set, sput, oassert.
  destruct alpha; cbn [obind andb]; [|reflexivity].
  destruct (val_bytes v) as [b|]; cbn [obind default]; [|by rewrite andb_false_r].
  rewrite app_length. change (length config_pfx) with 6%nat.
  destruct (Nat.leb_spec (6 + length key) 64), (Nat.leb_spec (length key) 58); try lia;
    cbn [andb obind]; [|reflexivity].
  destruct (Z.of_nat (length b) <=? 65535)%Z; cbn [obind andb]; [|reflexivity].
  destruct kd; [reflexivity|]. by destruct (is_bytes v).
Qed.

(** A vote (NeoFS without notary): of a non-member it faults; of a member it
    halts, and changes the configuration exactly when it completes the tally —
    then exactly as the authorised [SetConfig] with the same arguments. *)
Lemma cstep_vote_cases kd s member applied id key v :
  cstep kd s (CVote member applied id key v) =
  if member then
    if applied then cstep kd s (CSet true id key v) else (s, VNull, [])
  else (s, VFault, []).
Proof. unfold cstep, cexec, oassert. destruct member; cbn [obind]; [|reflexivity]. by destruct applied. Qed.

Lemma cstep_R kd s m o : cR s m -> cR (fst (fst (cstep kd s o))) (spec_cstep kd m o).
Proof.
  intros H. destruct o as [alpha id key v|member applied id key v].
  - rewrite cstep_cases. unfold spec_cstep, spec_ckey. cbn [cop_as_set].
    destruct (spec_caccept _ _); cbn [fst]; [by apply cR_insert|exact H].
  - rewrite cstep_vote_cases. unfold spec_cstep, spec_ckey, spec_cval. cbn [cop_as_set].
    destruct member, applied; cbn [andb fst]; try exact H.
    rewrite cstep_cases.
    change (spec_caccept kd (CVote true true id key v)) with (spec_caccept kd (CSet true id key v)).
    unfold spec_cval. cbn [cop_as_set]. destruct (spec_caccept _ _); cbn [fst]; [by apply cR_insert|exact H].
Qed.

Lemma crun_R kd ops : forall s m, cR s m -> cR (crun kd s ops) (spec_crun kd m ops).
Proof.
  induction ops as [|o ops IH]; intros s m H; [exact H|]. unfold crun, spec_crun. cbn [fold_left].
  apply IH. by apply cstep_R.
Qed.

(** What the getters return, given the refinement. *)
Lemma cget_R s m k : cR s m -> cget s k = m !! k.
Proof. intros H. apply H. Qed.

Lemma clist_R s m : cR s m ->
  map fst (clist s) = skeys m /\ (forall k v, (k, v) ∈ clist s <-> m !! k = Some v).
Proof.
  intros H. change (clist s) with (sfind_strip config_pfx s). split.
  - apply skeys_unique; [apply Sorted_sfind_strip_keys|apply NoDup_sfind_strip_keys|].
    intros k. rewrite elem_of_sfind_strip_keys. by rewrite H.
  - intros k v. rewrite elem_of_sfind_strip. by rewrite H.
Qed.

Theorem config_exact kd init ops :
  let s := crun kd (cinit init) ops in
  let m := spec_crun kd (spec_cinit init) ops in
  (forall k, cget s k = m !! k) /\
  map fst (clist s) = skeys m /\
  (forall k v, (k, v) ∈ clist s <-> m !! k = Some v).
Proof.
  intros s m. assert (H : cR s m) by (apply crun_R, cR_init).
  split; [intros k; by apply cget_R|by apply clist_R].
Qed.

(** Last-write reading of the spec: the value of [k] is the value of the last
    accepted [SetConfig] under exactly [k], else the deployment value. *)
Lemma spec_crun_snoc kd m0 ops o : spec_crun kd m0 (ops ++ [o]) = spec_cstep kd (spec_crun kd m0 ops) o.
Proof. unfold spec_crun. by rewrite fold_left_app. Qed.

Lemma spec_crun_last kd m0 ops o k :
  spec_crun kd m0 (ops ++ [o]) !! k =
  if spec_caccept kd o && bytes_eqb (spec_ckey o) k
  then Some (spec_cval o) else spec_crun kd m0 ops !! k.
Proof.
  rewrite spec_crun_snoc. unfold spec_cstep. destruct (spec_caccept _ _); cbn [andb]; [|reflexivity].
  destruct (bytes_eqb (spec_ckey o) k) eqn:E.
  - apply bytes_eqb_eq in E as ->. by rewrite lookup_insert.
  - apply bytes_eqb_neq in E. by rewrite lookup_insert_ne.
Qed.

(** The call [Config(k)]: a key longer than 58 bytes makes the storage key
    longer than 64 bytes, and the call faults. *)
Lemma cget_call_spec s k :
  cget_call s k = if (length k <=? 58)%nat then Halt (cget s k) else Fault.
Proof.
  unfold cget_call, with_key, key_ok. rewrite app_length. change (length config_pfx) with 6%nat.
  by destruct (Nat.leb_spec (6 + length k) 64), (Nat.leb_spec (length k) 58); try lia.
Qed.
