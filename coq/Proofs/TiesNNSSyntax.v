(** Proofs/TiesNNSSyntax.v — ties between the literals of Model/NNSSyntax.v
    (with Model/NNSSyntaxRun.v, Model/NNSSyntaxF12.v) and of Spec/Grammar.v
    (property C18) and the constants of the Go sources as extracted into
    Gen/Params.v (regenerated from /repo's working tree on every run): the
    length limits of contracts/nns/contract.go:50-63 and the record type codes
    of contracts/nns/recordtype/recordtype.go.  A constant edited in the
    source breaks the lemma that names it.

    Model/NNSSyntax.v names the five limits; the record type codes are inline
    literals of [record_data_ok], tied here by the checker each extracted code
    selects (for every data) and by the closed list of the codes that select
    one.  Spec/Grammar.v repeats the limits and the codes as inline literals
    of its declarative and boolean definitions; each is tied by restating the
    definition with the extracted constant in the literal's place (conversion
    only), so the grammar cannot drift from the source either.

    Model/NNSSyntaxRun.v has no literal of the source ([typ = 0] for "a name"
    is a convention between the harness and the cases files);
    Model/NNSSyntaxF12.v is [checkIPv6] with the historical [8 < l].

    NOT TIED (not constants of the source, Gen/Params.v has nothing to offer):
    - [std_max_input_length] = 1024: stdMaxInputLength of neo-go
      pkg/core/native/std.go, a platform limit;
    The character classes of [isAlNum] / [checkFragment] ('a' 'z' '0' '9' '-') and the
    separator '.' are unnamed literals inside Go function bodies; they are tied to the
    per-function literal lists of Gen/Params.v (p_nns_<func>_{int,str}lits, the literals
    of the body in source order), see the last section.  The bounds of [checkIPv4] and
    [checkIPv6] are PINNED there: the literal lists of the two functions are required to be
    the ones the model was written against, so that an edited bound is noticed by C18's
    obligations (the model then has to be re-examined). *)
From Coq Require Import ZArith NArith List String.
Import ListNotations.
From Verif Require Import Base.Prelude Base.IntCodec Gen.Params
  Model.NNSSyntax Model.NNSSyntaxRun Model.NNSSyntaxF12 Spec.Grammar Proofs.TiesLib.
Local Open Scope Z_scope.

(* ------------------------------------------------------------------ *)
(** * Model/NNSSyntax.v: the named limits (contracts/nns/contract.go:50-63) *)

Lemma tie_maxRootLength : maxRootLength = p_nns_maxRootLength.
Proof. reflexivity. Qed.
Lemma tie_maxDomainNameFragmentLength : maxDomainNameFragmentLength = p_nns_maxDomainNameFragmentLength.
Proof. reflexivity. Qed.
Lemma tie_minDomainNameLength : minDomainNameLength = p_nns_minDomainNameLength.
Proof. reflexivity. Qed.
Lemma tie_maxDomainNameLength : maxDomainNameLength = p_nns_maxDomainNameLength.
Proof. reflexivity. Qed.
Lemma tie_maxTXTRecordLength : maxTXTRecordLength = p_nns_maxTXTRecordLength.
Proof. reflexivity. Qed.

(** ... and each is the limit of the check it is named after: the verdicts
    at the extracted bound and one byte beyond.  [lbl n] is "aa..a", n bytes. *)
Definition lbl (n : Z) : bytes := repeat 97%N (Z.to_nat n).
Definition dot : bytes := [46%N].

Lemma tie_fragment_limit_obs :
  checkFragment (lbl p_nns_maxDomainNameFragmentLength) false = true /\
  checkFragment (lbl (p_nns_maxDomainNameFragmentLength + 1)) false = false.
Proof. vm_compute. split; reflexivity. Qed.

Lemma tie_root_limit_obs :
  checkFragment (lbl p_nns_maxRootLength) true = true /\
  checkFragment (lbl (p_nns_maxRootLength + 1)) true = false.
Proof. vm_compute. split; reflexivity. Qed.

(** "aa" / "aaa": a single well-formed root label, only the length differs. *)
Lemma tie_min_name_obs :
  name_obs (lbl (p_nns_minDomainNameLength - 1)) = VBool false /\
  name_obs (lbl p_nns_minDomainNameLength) = VBool true.
Proof. vm_compute. split; reflexivity. Qed.

(** Four full labels and a full root: every fragment of both names passes
    [checkFragment], only the total length differs. *)
Definition long_name (k : Z) : bytes :=
  let f := lbl p_nns_maxDomainNameFragmentLength in
  f ++ dot ++ f ++ dot ++ f ++ dot ++ lbl k ++ dot ++ lbl p_nns_maxRootLength.
Definition long_k : Z :=
  p_nns_maxDomainNameLength - 3 * (p_nns_maxDomainNameFragmentLength + 1) - 1 - p_nns_maxRootLength.
Lemma tie_max_name_obs :
  len (long_name long_k) = p_nns_maxDomainNameLength /\
  name_obs (long_name long_k) = VBool true /\
  checkFragment (lbl (long_k + 1)) false = true /\
  name_obs (long_name (long_k + 1)) = VBool false.
Proof. vm_compute. repeat split; reflexivity. Qed.

(* ------------------------------------------------------------------ *)
(** * Model/NNSSyntax.v: the record type codes (recordtype.go:9-21), inline in
    [record_data_ok].  Under each extracted code the model runs the checker
    that [checkRecord] (contract.go:555-573) runs under the constant. *)

Lemma tie_recordtype_A data : record_data_ok p_recordtype_A data = checkIPv4 data.
Proof. reflexivity. Qed.

Lemma tie_recordtype_CNAME data :
  record_data_ok p_recordtype_CNAME data =
  (r <-! safeSplitAndCheck data; Halt (match r with Some _ => true | None => false end)).
Proof. reflexivity. Qed.

Lemma tie_recordtype_TXT data :
  record_data_ok p_recordtype_TXT data = Halt (len data <=? p_nns_maxTXTRecordLength).
Proof. reflexivity. Qed.

Lemma tie_recordtype_AAAA data : record_data_ok p_recordtype_AAAA data = checkIPv6 data.
Proof. reflexivity. Qed.

(** SOA carries no user data: [checkRecord] has no case for it. *)
Lemma tie_recordtype_SOA data : record_data_ok p_recordtype_SOA data = Fault.
Proof. reflexivity. Qed.

(** recordtype.Type is a byte: of the 256 codes, the ones under which the
    model does not panic "unsupported record type" are exactly the four. *)
Definition all_type_codes : list Z := map Z.of_nat (seq 0 256).
Definition is_vfault (v : val) : bool := match v with VFault => true | _ => false end.
Lemma tie_supported_record_types :
  List.filter (fun t => negb (is_vfault (record_obs t []))) all_type_codes =
  [p_recordtype_A; p_recordtype_CNAME; p_recordtype_TXT; p_recordtype_AAAA].
Proof. vm_compute. reflexivity. Qed.

(** The same dispatch seen from outside, on one string per record syntax:
    the codes accepting each of them (TXT takes any short string). *)
Definition ip4_sample : bytes := bytes_of_string "8.8.8.8".
Definition ip6_sample : bytes := bytes_of_string "2a00:1450::8a".
Definition cname_sample : bytes := bytes_of_string "example.org".
Definition accepting (data : bytes) : list Z :=
  List.filter (fun t => is_true (record_obs t data)) all_type_codes.

Lemma tie_recordtype_A_obs : accepting ip4_sample = [p_recordtype_A; p_recordtype_TXT].
Proof. vm_compute. reflexivity. Qed.
Lemma tie_recordtype_CNAME_obs : accepting cname_sample = [p_recordtype_CNAME; p_recordtype_TXT].
Proof. vm_compute. reflexivity. Qed.
Lemma tie_recordtype_AAAA_obs : accepting ip6_sample = [p_recordtype_TXT; p_recordtype_AAAA].
Proof. vm_compute. reflexivity. Qed.
Lemma tie_recordtype_TXT_obs :
  accepting (lbl p_nns_maxTXTRecordLength) = [p_recordtype_TXT] /\
  accepting (lbl (p_nns_maxTXTRecordLength + 1)) = [].
Proof. vm_compute. split; reflexivity. Qed.

(** Model/NNSSyntaxRun.v: what the cases files evaluate is the same dispatch. *)
Lemma tie_run_model_obs data :
  model_obs p_recordtype_A data = record_obs p_recordtype_A data /\
  model_obs p_recordtype_CNAME data = record_obs p_recordtype_CNAME data /\
  model_obs p_recordtype_TXT data = record_obs p_recordtype_TXT data /\
  model_obs p_recordtype_AAAA data = record_obs p_recordtype_AAAA data.
Proof. repeat split; reflexivity. Qed.

(* ------------------------------------------------------------------ *)
(** * Spec/Grammar.v: the same limits and codes, inline in the declarative
    definitions and in their decision procedures.  Each lemma is the
    definition with the extracted constant where the literal stands. *)
Definition nat_of (z : Z) : nat := Z.to_nat z.

Lemma tie_grammar_valid_label l :
  valid_label l =
  ((1 <= length l <= nat_of p_nns_maxDomainNameFragmentLength)%nat /\ Forall label_char l /\
   head l <> Some 45%N /\ last l <> Some 45%N).
Proof. reflexivity. Qed.

Lemma tie_grammar_valid_labelb l :
  valid_labelb l =
  ((1 <=? length l)%nat && (length l <=? nat_of p_nns_maxDomainNameFragmentLength)%nat &&
   forallb label_charb l && negb (is45 (head l)) && negb (is45 (last l))).
Proof. reflexivity. Qed.

Lemma tie_grammar_valid_tld l :
  valid_tld l =
  (valid_label l /\ (length l <= nat_of p_nns_maxRootLength)%nat /\
   exists c, head l = Some c /\ lower c).
Proof. reflexivity. Qed.

Lemma tie_grammar_valid_tldb l :
  valid_tldb l =
  (valid_labelb l && (length l <=? nat_of p_nns_maxRootLength)%nat &&
   match head l with Some c => lowerb c | None => false end).
Proof. reflexivity. Qed.

Lemma tie_grammar_valid_name s :
  valid_name s =
  ((nat_of p_nns_minDomainNameLength <= length s <= nat_of p_nns_maxDomainNameLength)%nat /\
   exists labels tld, s = join 46 (labels ++ [tld]) /\ Forall valid_label labels /\ valid_tld tld).
Proof. reflexivity. Qed.

Lemma tie_grammar_valid_nameb s :
  valid_nameb s =
  ((nat_of p_nns_minDomainNameLength <=? length s)%nat &&
   (length s <=? nat_of p_nns_maxDomainNameLength)%nat && labels_okb (fields 46 s)).
Proof. reflexivity. Qed.

Lemma tie_grammar_valid_record_data typ data :
  valid_record_data typ data =
  ((typ = p_recordtype_A /\ valid_A data) \/ (typ = p_recordtype_CNAME /\ valid_name data) \/
   (typ = p_recordtype_TXT /\ (length data <= nat_of p_nns_maxTXTRecordLength)%nat) \/
   (typ = p_recordtype_AAAA /\ valid_AAAA data)).
Proof. reflexivity. Qed.

Lemma tie_grammar_valid_record_datab typ data :
  valid_record_datab typ data =
  (if typ =? p_recordtype_A then valid_Ab data
   else if typ =? p_recordtype_CNAME then valid_nameb data
   else if typ =? p_recordtype_TXT then (length data <=? nat_of p_nns_maxTXTRecordLength)%nat
   else if typ =? p_recordtype_AAAA then valid_AAAAb data
   else false).
Proof. reflexivity. Qed.

(** ... and observed: the grammar's verdicts at the extracted bounds, and the
    codes under which it accepts anything at all. *)
Lemma tie_grammar_limits_obs :
  valid_labelb (lbl p_nns_maxDomainNameFragmentLength) = true /\
  valid_labelb (lbl (p_nns_maxDomainNameFragmentLength + 1)) = false /\
  valid_tldb (lbl p_nns_maxRootLength) = true /\
  valid_tldb (lbl (p_nns_maxRootLength + 1)) = false /\
  valid_nameb (lbl (p_nns_minDomainNameLength - 1)) = false /\
  valid_nameb (lbl p_nns_minDomainNameLength) = true /\
  valid_nameb (long_name long_k) = true /\
  valid_nameb (long_name (long_k + 1)) = false.
Proof. vm_compute. repeat split; reflexivity. Qed.

Lemma tie_grammar_record_types_obs :
  List.filter (fun t => valid_record_datab t ip4_sample) all_type_codes = [p_recordtype_A; p_recordtype_TXT] /\
  List.filter (fun t => valid_record_datab t cname_sample) all_type_codes = [p_recordtype_CNAME; p_recordtype_TXT] /\
  List.filter (fun t => valid_record_datab t ip6_sample) all_type_codes = [p_recordtype_TXT; p_recordtype_AAAA] /\
  List.filter (fun t => valid_record_datab t (lbl p_nns_maxTXTRecordLength)) all_type_codes = [p_recordtype_TXT] /\
  List.filter (fun t => valid_record_datab t (lbl (p_nns_maxTXTRecordLength + 1))) all_type_codes = [].
Proof. vm_compute. repeat split; reflexivity. Qed.

(* ------------------------------------------------------------------ *)
(** * Literals written inline in Go function bodies *)

Definition in_rangeZ (c : N) (lo hi : Z) : bool := (lo <=? Z.of_N c) && (Z.of_N c <=? hi).
Definition all_bytes : list N := map N.of_nat (seq 0 256).

(** isAlNum: [c >= 'a' && c <= 'z' || c >= '0' && c <= '9'], on every byte value. *)
Lemma tie_isAlNum :
  let l := p_nns_isAlNum_intlits in
  forallb (fun c => Bool.eqb (isAlNum c) (in_rangeZ c (nth 0 l 0) (nth 1 l 0) || in_rangeZ c (nth 2 l 0) (nth 3 l 0)))
          all_bytes = true /\ length l = 4%nat.
Proof. split; vm_compute; reflexivity. Qed.

(** checkFragment: a root starts with ['a'..'z'] (literals 2, 3 of the body); inner
    characters are alphanumeric or '-' (literal 6). *)
Lemma tie_checkFragment_chars :
  let l := p_nns_checkFragment_intlits in
  forallb (fun c => Bool.eqb (checkFragment [c; 97%N] true) (in_rangeZ c (nth 2 l 0) (nth 3 l 0))) all_bytes = true /\
  forallb (fun c => Bool.eqb (checkFragment [97%N; c; 97%N] false) (isAlNum c || (Z.of_N c =? nth 6 l 0))) all_bytes = true /\
  length l = 8%nat.
Proof. repeat split; vm_compute; reflexivity. Qed.

(** safeSplitAndCheck: std.StringSplit(name, ".") *)
Lemma tie_name_separator :
  let sep := bytes_of_string (nth 0 p_nns_safeSplitAndCheck_strlits EmptyString) in
  safeSplitAndCheck ([97; 98]%N ++ sep ++ [99; 100]%N) = Halt (Some [[97; 98]%N; [99; 100]%N]) /\
  length sep = 1%nat.
Proof. split; vm_compute; reflexivity. Qed.

(** checkIPv4 / checkIPv6: the separators are tied, the numeric bounds are pinned. *)
Lemma tie_ip_separators :
  let dot := bytes_of_string (nth 0 p_nns_checkIPv4_strlits EmptyString) in
  let colon := bytes_of_string (nth 0 p_nns_checkIPv6_strlits EmptyString) in
  checkIPv4 ([56]%N ++ dot ++ [56]%N ++ dot ++ [56]%N ++ dot ++ [56]%N) = Halt true /\
  checkIPv6 ([50; 97; 48; 48]%N ++ colon ++ [49]%N ++ colon ++ colon ++ [49]%N) = Halt true /\
  p_nns_checkIPv6_strlits = [":"; "0"]%string.
Proof. repeat split; vm_compute; reflexivity. Qed.

Lemma pin_checkIPv4_literals :
  p_nns_checkIPv4_intlits =
  [7; 15; 4; 4; 0; 0; 48; 57; 0; 0; 255; 0; 0; 48; 0; 1; 0; 1; 3; 0; 10; 127; 224; 169; 254; 172; 16; 31;
   192; 168; 0; 255].
Proof. reflexivity. Qed.

Lemma pin_checkIPv6_literals :
  p_nns_checkIPv6_intlits =
  [2; 39; 3; 9; 9; 0; 0; 1; 0; 7; 0; 8; 0; 8; 0; 0; 1; 0; 0; 1; 1; 0; 7; 0; 9; 0; 4; 16; 65535; 8; 8; 0;
   8192; 8194; 16382; 16383; 8193; 1; 512; 3512].
Proof. reflexivity. Qed.
