(** Proofs/Balance.v — lemmas about Model/Balance.v used by Props/C01, C02, C09. *)
From Verif Require Import Base.Prelude Base.IntCodec Model.Balance Proofs.BalanceSum.
From Coq Require Import ZifyBool.
Local Open Scope Z_scope.

Ltac dmatch :=
  match goal with
  | H : context [match ?x with _ => _ end] |- _ =>
      let E := fresh "E" in destruct x eqn:E; try discriminate
  | H : context [if ?x then _ else _] |- _ =>
      let E := fresh "E" in destruct x eqn:E; try discriminate
  end.

Lemma vm_add_halt a b z : vm_add a b = Halt z -> z = a + b.
Proof. unfold vm_add. destruct (int_ok (a + b)); [|discriminate]. congruence. Qed.

Lemma oassert_halt b u : oassert b = Halt u -> b = true.
Proof. destruct b; [reflexivity|discriminate]. Qed.

(** What [can_transfer] guarantees. *)
Lemma can_transfer_some c m f t a ir af :
  can_transfer c m f t a ir = Some af ->
  (ir = true /\ f = [] /\ af = empty_acc) \/
  (af = get_acc m f /\ a <= bal (get_acc m f) /\
   (ir = false -> usable c f = true /\ hash_len t = true)).
Proof.
  unfold can_transfer. intros H.
  destruct ir; simpl in H.
  - destruct (length f =? 0)%nat eqn:E.
    + left. injection H as <-. split; [reflexivity|]. split; [|reflexivity].
      destruct f; [reflexivity|discriminate].
    + right. destruct (bal (get_acc m f) <? a) eqn:E2; [discriminate|].
      injection H as <-. split; [reflexivity|]. split; [lia|]. discriminate.
  - destruct (hash_len t) eqn:Et; simpl in H; [|discriminate].
    destruct (usable c f) eqn:Eu; simpl in H; [|discriminate].
    right. destruct (bal (get_acc m f) <? a) eqn:E2; [discriminate|].
    injection H as <-. split; [reflexivity|]. split; [lia|]. auto.
Qed.

Definition dlt (b : bool) (a : Z) : Z := if b then a else 0.

(** Full specification of one [Token.transfer]. *)
Lemma transfer_spec c m f t a ir d fn tn m' r ns :
  transfer c m f t a ir d fn tn = Halt (m', r, ns) ->
  (r = false /\ m' = m /\ ns = []) \/
  (r = true /\ 0 <= a /\ ns = [NTransfer f t a; NTransferX f t a d] /\
   (fn || hash_len f) && (tn || hash_len t) = true /\
   (hash_len f = true -> a <= bal (get_acc m f)) /\
   (ir = false -> usable c f = true /\ hash_len t = true) /\
   (forall k, bal (get_acc m' k) = bal (get_acc m k)
        - dlt (hash_len f && bytes_eqb k f) a
        + dlt (hash_len t && bytes_eqb k t) a) /\
   (forall k, k <> f -> k <> t -> m' !! k = m !! k) /\
   msum m' = msum m - dlt (hash_len f) a + dlt (hash_len t) a).
Proof.
  unfold transfer. intros H.
  destruct (a <? 0) eqn:Ea; [discriminate|].
  destruct (can_transfer c m f t a ir) as [af|] eqn:Ec.
  2:{ injection H as <- <- <-. left. auto. }
  right.
  apply can_transfer_some in Ec.
  set (m1 := if hash_len f then
               if bal af =? a then delete f m
               else <[f:=mkAcc (bal af - a) (until af) (parent af)]> m
             else m) in *.
  assert (Hm1 : forall k, bal (get_acc m1 k) = bal (get_acc m k) - dlt (hash_len f && bytes_eqb k f) a).
  { intros k. subst m1. destruct (hash_len f) eqn:Ef; simpl; [|lia].
    destruct Ec as [(_ & -> & _)|(-> & Hle & _)]; [discriminate|].
    destruct (bal (get_acc m f) =? a) eqn:Eb.
    - rewrite get_acc_delete. destruct (bytes_eqb k f) eqn:Ek; simpl; [|lia].
      apply bytes_eqb_eq in Ek. subst. lia.
    - rewrite get_acc_insert. destruct (bytes_eqb k f) eqn:Ek; simpl; [|lia].
      apply bytes_eqb_eq in Ek. subst. lia. }
  assert (Hs1 : msum m1 = msum m - dlt (hash_len f) a).
  { subst m1. destruct (hash_len f) eqn:Ef; simpl; [|lia].
    destruct Ec as [(_ & -> & _)|(-> & Hle & _)]; [discriminate|].
    destruct (bal (get_acc m f) =? a) eqn:Eb.
    - rewrite msum_delete'. lia.
    - rewrite msum_insert. simpl. lia. }
  assert (Hk1 : forall k, k <> f -> m1 !! k = m !! k).
  { intros k Hk. subst m1. destruct (hash_len f); [|reflexivity].
    destruct (bal af =? a); [rewrite lookup_delete_ne by congruence|rewrite lookup_insert_ne by congruence]; reflexivity. }
  clearbody m1.
  destruct (hash_len t) eqn:Et; simpl in H.
  - destruct (vm_add (bal (get_acc m1 t)) a) as [nb|] eqn:Ev; simpl in H; [|discriminate].
    apply vm_add_halt in Ev.
    destruct (oassert ((fn || hash_len f) && (tn || true))) eqn:Eo; simpl in H; [|discriminate].
    apply oassert_halt in Eo.
    injection H as <- <- <-.
    split; [reflexivity|]. split; [lia|]. split; [reflexivity|].
    split; [exact Eo|].
    split. { intros Hf. destruct Ec as [(_ & -> & _)|(_ & Hle & _)]; [discriminate|exact Hle]. }
    split. { intros Hir. destruct Ec as [(Hir' & _)|(_ & _ & Hu)]; [congruence|auto]. }
    split. { intros k. rewrite get_acc_insert. destruct (bytes_eqb k t) eqn:Ek; simpl.
             - apply bytes_eqb_eq in Ek. subst k. rewrite Ev, Hm1. lia.
             - rewrite Hm1. lia. }
    split. { intros k Hkf Hkt. rewrite lookup_insert_ne by congruence. auto. }
    rewrite msum_insert. simpl. rewrite Hs1. simpl. lia.
  - destruct (oassert ((fn || hash_len f) && (tn || false))) eqn:Eo; simpl in H; [|discriminate].
    apply oassert_halt in Eo.
    injection H as <- <- <-.
    split; [reflexivity|]. split; [lia|]. split; [reflexivity|].
    split; [exact Eo|].
    split. { intros Hf. destruct Ec as [(_ & -> & _)|(_ & Hle & _)]; [discriminate|exact Hle]. }
    split. { intros Hir. destruct Ec as [(Hir' & _)|(_ & _ & Hu)]; [congruence|]. destruct (Hu Hir). congruence. }
    split. { intros k. rewrite Hm1. simpl. lia. }
    split. { intros k Hkf Hkt. auto. }
    rewrite Hs1. simpl. lia.
Qed.

(** * Replaying notifications *)

Definition ndelta (n : notif) (k : bytes) : Z :=
  match n with
  | NTransfer f t a => dlt (hash_len t && bytes_eqb k t) a - dlt (hash_len f && bytes_eqb k f) a
  | _ => 0
  end.
Definition nsum (ns : list notif) (k : bytes) : Z :=
  fold_right (fun n acc => ndelta n k + acc) 0 ns.
Definition ntot1 (n : notif) : Z :=
  match n with
  | NTransfer f t a => dlt (hash_len t) a - dlt (hash_len f) a
  | _ => 0
  end.
Definition ntotal (ns : list notif) : Z := fold_right (fun n acc => ntot1 n + acc) 0 ns.

Lemma nsum_app a b k : nsum (a ++ b) k = nsum a k + nsum b k.
Proof. induction a as [|x a IH]; simpl; [lia|]. rewrite IH. lia. Qed.
Lemma ntotal_app a b : ntotal (a ++ b) = ntotal a + ntotal b.
Proof. induction a as [|x a IH]; simpl; [lia|]. rewrite IH. lia. Qed.

(** Every [Transfer] is immediately followed by the [TransferX] carrying the
    same from/to/amount, and every [TransferX] is so preceded. *)
Fixpoint paired (ns : list notif) : bool :=
  match ns with
  | [] => true
  | NTransfer f t a :: NTransferX f' t' a' _ :: rest =>
      bytes_eqb f f' && bytes_eqb t t' && (a =? a') && paired rest
  | NLock _ _ _ _ _ :: rest => paired rest
  | _ => false
  end.

Lemma paired_app a b : paired a = true -> paired b = true -> paired (a ++ b) = true.
Proof.
  revert b. induction a as [a IH] using (induction_ltof1 _ (@length _)). unfold ltof in IH.
  intros b Ha Hb. destruct a as [|x a]; [exact Hb|].
  destruct x; simpl in Ha; try discriminate.
  - destruct a as [|y a]; [discriminate|]. destruct y; try discriminate.
    simpl. apply andb_true_iff in Ha as [Ha1 Ha2]. rewrite Ha1. simpl.
    apply IH; auto. simpl. lia.
  - simpl. apply IH; auto.
Qed.

Definition nonneg (m : gmap bytes account) : Prop := forall k, 0 <= bal (get_acc m k).

(** [trel m m' ns]: going from [m] to [m'] is exactly accounted for by the
    notifications [ns]. *)
Definition trel (m m' : gmap bytes account) (ns : list notif) : Prop :=
  (forall k, bal (get_acc m' k) = bal (get_acc m k) + nsum ns k) /\
  msum m' = msum m + ntotal ns /\
  (nonneg m -> nonneg m') /\
  paired ns = true.

Lemma trel_refl m : trel m m [].
Proof. repeat split; simpl; intros; auto; lia. Qed.

Lemma trel_trans m1 m2 m3 a b : trel m1 m2 a -> trel m2 m3 b -> trel m1 m3 (a ++ b).
Proof.
  intros (A1 & A2 & A3 & A4) (B1 & B2 & B3 & B4). repeat split.
  - intros k. rewrite B1, A1, nsum_app. lia.
  - rewrite B2, A2, ntotal_app. lia.
  - auto.
  - apply paired_app; auto.
Qed.

Lemma transfer_trel c m f t a ir d fn tn m' r ns :
  transfer c m f t a ir d fn tn = Halt (m', r, ns) -> trel m m' ns.
Proof.
  intros H. apply transfer_spec in H.
  destruct H as [(-> & -> & ->)|(-> & Ha & -> & Hn & Hle & _ & Hb & _ & Hs)].
  - apply trel_refl.
  - repeat split.
    + intros k. rewrite Hb. simpl. lia.
    + rewrite Hs. simpl. lia.
    + intros Hnn k. rewrite Hb. specialize (Hnn k).
      destruct (hash_len f && bytes_eqb k f) eqn:E1; simpl.
      * apply andb_true_iff in E1 as [E1 E2]. apply bytes_eqb_eq in E2. subst k.
        specialize (Hle E1). destruct (hash_len t && bytes_eqb f t); simpl; lia.
      * destruct (hash_len t && bytes_eqb k t); simpl; lia.
    + simpl. rewrite !bytes_eqb_refl, Z.eqb_refl. reflexivity.
Qed.

(** * The epoch loop *)

Lemma fold_epoch_fault c e l : fold_left (epoch_visit c e) l Fault = Fault.
Proof. induction l as [|x l IH]; simpl; auto. Qed.

Lemma epoch_visit_trel c e m ns addr m' ns' :
  epoch_visit c e (Halt (m, ns)) addr = Halt (m', ns') ->
  exists d, ns' = ns ++ d /\ trel m m' d.
Proof.
  unfold epoch_visit. simpl. intros H.
  destruct (negb (hash_len addr)).
  { injection H as <- <-. exists []. rewrite app_nil_r. split; [reflexivity|apply trel_refl]. }
  destruct (negb (is_lock (get_acc m addr))).
  { injection H as <- <-. exists []. rewrite app_nil_r. split; [reflexivity|apply trel_refl]. }
  destruct (e >=? until (get_acc m addr)).
  2:{ injection H as <- <-. exists []. rewrite app_nil_r. split; [reflexivity|apply trel_refl]. }
  destruct (transfer c m addr (parent (get_acc m addr)) (bal (get_acc m addr)) true
              (unlock_details e) false false) as [[[m2 r2] ns2]|] eqn:Et; simpl in H; [|discriminate].
  injection H as <- <-. exists ns2. split; [reflexivity|].
  eapply transfer_trel; eauto.
Qed.

Lemma fold_epoch_trel c e l m ns m' ns' :
  fold_left (epoch_visit c e) l (Halt (m, ns)) = Halt (m', ns') ->
  exists d, ns' = ns ++ d /\ trel m m' d.
Proof.
  revert m ns. induction l as [|x l IH]; cbn [fold_left]; intros m ns H.
  - injection H as <- <-. exists []. rewrite app_nil_r. split; [reflexivity|apply trel_refl].
  - destruct (epoch_visit c e (Halt (m, ns)) x) as [[m1 ns1]|] eqn:E1.
    2:{ rewrite fold_epoch_fault in H. discriminate. }
    apply epoch_visit_trel in E1 as (d1 & -> & T1).
    apply IH in H as (d2 & -> & T2).
    exists (d1 ++ d2). rewrite app_assoc. split; [reflexivity|].
    eapply trel_trans; eauto.
Qed.

Lemma new_epoch_trel c m e m' ns : new_epoch c m e = Halt (m', ns) -> trel m m' ns.
Proof.
  unfold new_epoch. intros H. apply fold_epoch_trel in H as (d & -> & T). exact T.
Qed.

Lemma transfer_ntotal_plain c m f t a ir d m' r ns :
  transfer c m f t a ir d false false = Halt (m', r, ns) -> ntotal ns = 0.
Proof.
  intros H. apply transfer_spec in H.
  destruct H as [(-> & -> & ->)|(-> & Ha & -> & Hn & _)]; [reflexivity|].
  simpl in Hn. apply andb_true_iff in Hn as [H1 H2]. simpl. rewrite H1, H2. simpl. lia.
Qed.

Lemma fold_epoch_ntotal c e l m ns m' ns' :
  fold_left (epoch_visit c e) l (Halt (m, ns)) = Halt (m', ns') ->
  ntotal ns' = ntotal ns.
Proof.
  revert m ns. induction l as [|x l IH]; cbn [fold_left]; intros m ns H.
  - injection H as <- <-. reflexivity.
  - destruct (epoch_visit c e (Halt (m, ns)) x) as [[m1 ns1]|] eqn:E1.
    2:{ rewrite fold_epoch_fault in H. discriminate. }
    apply IH in H. rewrite H. clear H IH.
    unfold epoch_visit in E1. simpl in E1.
    destruct (negb (hash_len x)); [injection E1 as <- <-; reflexivity|].
    destruct (negb (is_lock (get_acc m x))); [injection E1 as <- <-; reflexivity|].
    destruct (e >=? until (get_acc m x)); [|injection E1 as <- <-; reflexivity].
    destruct (transfer c m x (parent (get_acc m x)) (bal (get_acc m x)) true
                (unlock_details e) false false) as [[[m2 r2] ns2]|] eqn:Et; simpl in E1; [|discriminate].
    injection E1 as <- <-. apply transfer_ntotal_plain in Et. rewrite ntotal_app. lia.
Qed.

(** * One invocation *)

Definition lock_fresh (s : bstate) (o : bop) : bool :=
  match o with Lock _ _ t _ _ => balance_of s t =? 0 | _ => true end.

Definition sdelta (o : bop) : Z :=
  match o with Mint _ a _ => a | Burn _ a _ => - a | _ => 0 end.

Lemma nsum_snoc_lock ns d f t a u k : nsum (ns ++ [NLock d f t a u]) k = nsum ns k.
Proof. rewrite nsum_app. simpl. lia. Qed.

Lemma bexec_spec c s o s' r ns :
  bexec c s o = Halt (s', r, ns) -> lock_fresh s o = true ->
  trel (accts s) (accts s') ns /\
  ((r = VBool false /\ s' = s /\ ns = []) \/
   (r <> VBool false /\ supply s' = supply s + sdelta o /\ ntotal ns = sdelta o /\
    (0 <= supply s -> 0 <= supply s'))).
Proof.
  intros H Hf. destruct o as [f t a|f t a d|t a d|f a d|d f t a u|e]; simpl in H.
  - (* Transfer *)
    destruct (transfer c (accts s) f t a false [] false false) as [[[m r0] ns0]|] eqn:Et; simpl in H; [|discriminate].
    injection H as <- <- <-. split; [eapply transfer_trel; eauto|].
    pose proof (transfer_ntotal_plain _ _ _ _ _ _ _ _ _ _ Et) as Hn.
    apply transfer_spec in Et. destruct Et as [(-> & -> & ->)|(-> & _)].
    + left. destruct s; auto.
    + right. simpl. split; [discriminate|]. repeat split; auto; lia.
  - (* TransferX *)
    destruct (oassert (alpha c)); simpl in H; [|discriminate].
    destruct (transfer c (accts s) f t a true d false false) as [[[m r0] ns0]|] eqn:Et; simpl in H; [|discriminate].
    destruct (oassert r0) eqn:Er; simpl in H; [|discriminate].
    injection H as <- <- <-. split; [eapply transfer_trel; eauto|].
    right. simpl. split; [discriminate|]. apply transfer_ntotal_plain in Et. repeat split; auto; lia.
  - (* Mint *)
    destruct (oassert (alpha c)); simpl in H; [|discriminate].
    destruct (transfer c (accts s) [] t a true (1%N :: d) true false) as [[[m r0] ns0]|] eqn:Et; simpl in H; [|discriminate].
    destruct (oassert r0) eqn:Er; simpl in H; [|discriminate]. apply oassert_halt in Er. subst r0.
    destruct (vm_add (supply s) a) as [sup|] eqn:Ev; simpl in H; [|discriminate].
    apply vm_add_halt in Ev. injection H as <- <- <-.
    split; [eapply transfer_trel; eauto|].
    right. simpl. split; [discriminate|].
    apply transfer_spec in Et. destruct Et as [(? & _)|(_ & Ha & -> & Hn & _)]; [discriminate|].
    simpl in Hn. simpl. rewrite Hn. simpl. repeat split; lia.
  - (* Burn *)
    destruct (oassert (alpha c)); simpl in H; [|discriminate].
    destruct (transfer c (accts s) f [] a true (2%N :: d) false true) as [[[m r0] ns0]|] eqn:Et; simpl in H; [|discriminate].
    destruct (oassert r0) eqn:Er; simpl in H; [|discriminate]. apply oassert_halt in Er. subst r0.
    destruct (oassert (negb (supply s <? a))) eqn:Es; simpl in H; [|discriminate]. apply oassert_halt in Es.
    injection H as <- <- <-.
    split; [eapply transfer_trel; eauto|].
    right. simpl. split; [discriminate|].
    apply transfer_spec in Et. destruct Et as [(? & _)|(_ & Ha & -> & Hn & _)]; [discriminate|].
    simpl in Hn. rewrite andb_true_r in Hn. simpl. rewrite Hn. simpl. repeat split; lia.
  - (* Lock *)
    destruct (oassert (alpha c)); simpl in H; [|discriminate].
    destruct (transfer c (<[t:=mkAcc 0 u f]> (accts s)) f t a true (3%N :: d) false false) as [[[m r0] ns0]|] eqn:Et; simpl in H; [|discriminate].
    destruct (oassert r0) eqn:Er; simpl in H; [|discriminate].
    destruct (oassert (hash_len f && hash_len t)) eqn:El; simpl in H; [|discriminate].
    injection H as <- <- <-. simpl in Hf. unfold balance_of in Hf.
    assert (T0 : trel (accts s) (<[t:=mkAcc 0 u f]> (accts s)) []).
    { repeat split; simpl.
      - intros k. rewrite get_acc_insert. destruct (bytes_eqb k t) eqn:Ek; simpl; [|lia].
        apply bytes_eqb_eq in Ek. subst. lia.
      - rewrite msum_insert. simpl. lia.
      - intros Hnn k. rewrite get_acc_insert. destruct (bytes_eqb k t); simpl; [lia|apply Hnn]. }
    pose proof (transfer_ntotal_plain _ _ _ _ _ _ _ _ _ _ Et) as Hn.
    apply transfer_trel in Et.
    pose proof (trel_trans _ _ _ _ _ T0 Et) as T. simpl in T.
    split.
    + destruct T as (T1 & T2 & T3 & T4). repeat split; simpl; auto.
      * intros k. rewrite nsum_snoc_lock. apply T1.
      * rewrite ntotal_app. simpl. lia.
      * apply paired_app; auto.
    + right. split; [discriminate|]. simpl. rewrite ntotal_app. simpl. repeat split; auto; lia.
  - (* NewEpoch *)
    destruct (oassert (alpha c)); simpl in H; [|discriminate].
    destruct (new_epoch c (accts s) e) as [[m ns0]|] eqn:En; simpl in H; [|discriminate].
    injection H as <- <- <-. split; [eapply new_epoch_trel; eauto|].
    right. split; [discriminate|]. simpl.
    unfold new_epoch in En. apply fold_epoch_ntotal in En. simpl in En.
    repeat split; auto; lia.
Qed.

Lemma bexec_auth c s o s' r ns k :
  bexec c s o = Halt (s', r, ns) ->
  balance_of s' k < balance_of s k ->
  alpha c = true \/ (exists f t a, o = Transfer f t a /\ k = f /\ usable c f = true).
Proof.
  intros H Hlt. destruct o as [f t a|f t a d|t a d|f a d|d f t a u|e]; simpl in H;
    try (destruct (alpha c); [left; reflexivity|discriminate]).
  right. exists f, t, a. split; [reflexivity|].
  destruct (transfer c (accts s) f t a false [] false false) as [[[m r0] ns0]|] eqn:Et; simpl in H; [|discriminate].
  injection H as <- <- <-. unfold balance_of in Hlt. simpl in Hlt.
  apply transfer_spec in Et. destruct Et as [(-> & -> & ->)|(-> & Ha & -> & Hn & Hle & Hu & Hb & _)]; [lia|].
  destruct (Hu eq_refl) as [Hu1 Hu2]. split; [|exact Hu1].
  rewrite Hb in Hlt.
  destruct (hash_len f && bytes_eqb k f) eqn:E1.
  - apply andb_true_iff in E1 as [_ E1]. apply bytes_eqb_eq in E1. exact E1.
  - simpl in Hlt. destruct (hash_len t && bytes_eqb k t); simpl in Hlt; lia.
Qed.

(** * Histories *)

Definition Inv (s : bstate) : Prop :=
  msum (accts s) = supply s /\ nonneg (accts s) /\ 0 <= supply s.

Lemma Inv_init : Inv binit.
Proof. unfold Inv, binit, nonneg, get_acc. simpl. rewrite msum_empty. repeat split; try lia.
  intros k. rewrite lookup_empty. simpl. lia. Qed.

Fixpoint wf_bal (s : bstate) (ops : list (bctx * bop)) : bool :=
  match ops with
  | [] => true
  | co :: rest => lock_fresh s (snd co) && wf_bal (fst (fst (bstep s co))) rest
  end.

Lemma bstep_cases s co :
  (exists s' r ns, bexec (fst co) s (snd co) = Halt (s', r, ns) /\ bstep s co = (s', r, ns)) \/
  (bexec (fst co) s (snd co) = Fault /\ bstep s co = (s, VFault, [])).
Proof.
  unfold bstep. destruct (bexec (fst co) s (snd co)) as [[[s' r] ns]|]; [left|right]; eauto.
Qed.

Lemma bstep_inv s co : lock_fresh s (snd co) = true -> Inv s -> Inv (fst (fst (bstep s co))).
Proof.
  intros Hf HI. destruct (bstep_cases s co) as [(s' & r & ns & He & ->)|(_ & ->)]; [|exact HI].
  simpl. apply bexec_spec in He; [|exact Hf].
  destruct He as [(T1 & T2 & T3 & T4) [(_ & -> & _)|(_ & Hs & Hn & Hp)]]; [exact HI|].
  destruct HI as (I1 & I2 & I3). repeat split; auto. lia.
Qed.

Lemma brun_inv_from s ops : wf_bal s ops = true -> Inv s ->
  Inv (fold_left (fun s co => fst (fst (bstep s co))) ops s).
Proof.
  revert s. induction ops as [|co ops IH]; simpl; intros s Hw HI; [exact HI|].
  apply andb_true_iff in Hw as [H1 H2]. apply IH; [exact H2|]. apply bstep_inv; auto.
Qed.

Lemma brun_inv ops : wf_bal binit ops = true -> Inv (brun ops).
Proof. intros H. apply brun_inv_from; [exact H|apply Inv_init]. Qed.

(** Replaying the whole notification stream reproduces every balance. *)
Lemma brun_from_fst s ops :
  fst (brun_from s ops) = fold_left (fun s co => fst (fst (bstep s co))) ops s.
Proof.
  unfold brun_from. generalize (@nil notif) as ns. revert s.
  induction ops as [|co ops IH]; simpl; intros s ns; [reflexivity|].
  unfold bstep_full at 2. simpl. destruct (bstep s co) as [[s' r] ns']. simpl. apply IH.
Qed.

Lemma brun_replay_gen s ns0 ops k :
  wf_bal s ops = true ->
  let '(s', ns') := fold_left bstep_full ops (s, ns0) in
  balance_of s' k - nsum ns' k = balance_of s k - nsum ns0 k /\ (paired ns0 = true -> paired ns' = true).
Proof.
  revert s ns0. induction ops as [|co ops IH]; simpl; intros s ns0 Hw; [split; auto|].
  apply andb_true_iff in Hw as [H1 H2].
  unfold bstep_full at 2. simpl.
  destruct (bstep_cases s co) as [(s' & r & ns & He & Hb)|(_ & Hb)]; rewrite Hb in *; simpl in *.
  - specialize (IH s' (ns0 ++ ns) H2).
    destruct (fold_left bstep_full ops (s', ns0 ++ ns)) as [s2 ns2].
    apply bexec_spec in He; [|exact H1]. destruct He as [(T1 & _ & _ & T4) _].
    destruct IH as [IH1 IH2]. split.
    + rewrite IH1. unfold balance_of. rewrite T1, nsum_app. ring.
    + intros Hp. apply IH2. apply paired_app; auto.
  - specialize (IH s (ns0 ++ []) H2). rewrite app_nil_r in *.
    destruct (fold_left bstep_full ops (s, ns0)) as [s2 ns2]. exact IH.
Qed.

Lemma brun_replay ops k :
  wf_bal binit ops = true ->
  balance_of (fst (brun_from binit ops)) k = nsum (snd (brun_from binit ops)) k /\
  paired (snd (brun_from binit ops)) = true.
Proof.
  intros Hw. pose proof (brun_replay_gen binit [] ops k Hw) as H. unfold brun_from.
  destruct (fold_left bstep_full ops (binit, [])) as [s' ns']. simpl.
  destruct H as [H1 H2]. split; [|apply H2; reflexivity].
  assert (H0 : balance_of binit k = 0).
  { unfold balance_of, binit, get_acc. simpl. rewrite lookup_empty. reflexivity. }
  rewrite H0 in H1. simpl in H1. lia.
Qed.

Lemma bexec_ret c s o s' r ns :
  bexec c s o = Halt (s', r, ns) ->
  (r = VNull /\ (forall f t a, o <> Transfer f t a)) \/
  (exists b f t a, r = VBool b /\ o = Transfer f t a).
Proof.
  intros H. destruct o as [f t a|f t a d|t a d|f a d|d f t a u|e]; simpl in H.
  - right. destruct (transfer c (accts s) f t a false [] false false) as [[[m r0] ns0]|]; simpl in H; [|discriminate].
    injection H as <- <- <-. exists r0, f, t, a. auto.
  - left. destruct (oassert (alpha c)); simpl in H; [|discriminate].
    destruct (transfer c (accts s) f t a true d false false) as [[[m r0] ns0]|]; simpl in H; [|discriminate].
    destruct (oassert r0); simpl in H; [|discriminate].
    injection H as <- <- <-. split; [reflexivity|discriminate].
  - left. destruct (oassert (alpha c)); simpl in H; [|discriminate].
    destruct (transfer c (accts s) [] t a true (1%N :: d) true false) as [[[m r0] ns0]|]; simpl in H; [|discriminate].
    destruct (oassert r0); simpl in H; [|discriminate].
    destruct (vm_add (supply s) a); simpl in H; [|discriminate].
    injection H as <- <- <-. split; [reflexivity|discriminate].
  - left. destruct (oassert (alpha c)); simpl in H; [|discriminate].
    destruct (transfer c (accts s) f [] a true (2%N :: d) false true) as [[[m r0] ns0]|]; simpl in H; [|discriminate].
    destruct (oassert r0); simpl in H; [|discriminate].
    destruct (oassert (negb (supply s <? a))); simpl in H; [|discriminate].
    injection H as <- <- <-. split; [reflexivity|discriminate].
  - left. destruct (oassert (alpha c)); simpl in H; [|discriminate].
    destruct (transfer c (<[t:=mkAcc 0 u f]> (accts s)) f t a true (3%N :: d) false false) as [[[m r0] ns0]|]; simpl in H; [|discriminate].
    destruct (oassert r0); simpl in H; [|discriminate].
    destruct (oassert (hash_len f && hash_len t)); simpl in H; [|discriminate].
    injection H as <- <- <-. split; [reflexivity|discriminate].
  - left. destruct (oassert (alpha c)); simpl in H; [|discriminate].
    destruct (new_epoch c (accts s) e) as [[m ns0]|]; simpl in H; [|discriminate].
    injection H as <- <- <-. split; [reflexivity|discriminate].
Qed.

Lemma bstep_failed_inert : forall s co,
  let '(s', r, ns) := bstep s co in
  (r = VFault \/ r = VBool false) -> s' = s /\ ns = [].
Proof.
  intros s co. destruct (bstep_cases s co) as [(s' & r & ns & He & ->)|(_ & ->)]; [|auto].
  intros Hr.
  destruct (bexec_ret _ _ _ _ _ _ He) as [(-> & _)|(b & f & t & a & -> & Ho)].
  - destruct Hr; discriminate.
  - destruct Hr as [Hr|Hr]; [discriminate|]. injection Hr as Hb. subst b.
    rewrite Ho in He. simpl in He.
    destruct (transfer (fst co) (accts s) f t a false [] false false) as [[[m r0] ns0]|] eqn:Et; simpl in He; [|discriminate].
    injection He as E1 E2 E3. subst s' r0 ns.
    apply transfer_spec in Et. destruct Et as [(_ & -> & ->)|(? & _)]; [|discriminate].
    destruct s; auto.
Qed.
