(** Proofs/GasNonneg.v — native GAS never drives a balance below zero:
    [gas_transfer] (any callback, any witness flag, any amount, any data) and
    [gas_mint] of a non-negative amount keep every balance non-negative.  This
    discharges, for the two native entry points, the non-negativity premise
    that the emit theorems of Proofs/GasAlphabet.v take as a hypothesis. *)
From Verif Require Import Base.Prelude Base.IntCodec Model.Gas Proofs.GasLedger.
From Coq Require Import ZifyBool ZifyNat ZifyN.
Local Open Scope Z_scope.

Definition nonneg (l : ledger) : Prop := forall k, 0 <= gbal l k.

Lemma nonneg_empty : nonneg ∅.
Proof. intros k. unfold gbal. rewrite lookup_empty. cbn. lia. Qed.

Lemma gas_move_nonneg l f t a :
  nonneg l -> 0 <= a -> a <= gbal l f -> nonneg (gas_move l f t a).
Proof.
  intros H Ha Hb k. rewrite gbal_move. unfold ind.
  pose proof (H k) as Hk.
  destruct (bytes_eqb k f) eqn:Ef, (bytes_eqb k t) eqn:Et; try lia.
  apply bytes_eqb_eq in Ef. subst k. lia.
Qed.

Lemma gas_transfer_nonneg cb g wt l f t a d l' ok ns :
  nonneg l -> gas_transfer cb g wt l f t a d = Halt (l', ok, ns) -> nonneg l'.
Proof.
  intros H. unfold gas_transfer.
  destruct (negb (hash_len f && hash_len t)); [discriminate|].
  destruct ((a <? 0) || negb wt || (gbal l f <? a)) eqn:E.
  - intros [= <- _ _]. exact H.
  - destruct (cb g t f a d) as [cns|]; [|discriminate]. cbn [obind].
    intros [= <- _ _]. apply gas_move_nonneg; [exact H|lia|lia].
Qed.

(** The refusal branch is exact: a transfer that would overdraw returns
    [false] and leaves the ledger as it was. *)
Lemma gas_transfer_overdraw cb g wt l f t a d :
  hash_len f = true -> hash_len t = true -> gbal l f < a ->
  gas_transfer cb g wt l f t a d = Halt (l, false, []).
Proof.
  intros Hf Ht Hlt. unfold gas_transfer. rewrite Hf, Ht. cbn [andb negb].
  destruct ((a <? 0) || negb wt || (gbal l f <? a)) eqn:E; [reflexivity|lia].
Qed.

Lemma gas_mint_nonneg cb g l t a l' ns :
  nonneg l -> 0 <= a -> gas_mint cb g l t a = Halt (l', ns) -> nonneg l'.
Proof.
  intros H Ha. unfold gas_mint. destruct (a =? 0).
  - intros [= <- _]. exact H.
  - destruct (cb g t [] a DNull) as [cns|]; [|discriminate]. cbn [obind].
    intros [= <- _] k. rewrite gbal_insert. pose proof (H k) as Hk. pose proof (H t) as Ht.
    destruct (bytes_eqb k t); lia.
Qed.
