(** Proofs/NetmapTick.v — the epoch tick of Model/Netmap.v (C06): reachable
    state invariant (count positive and below 255, ring index in range,
    subscriber keys indexed 0,1,2,..., per-epoch lists only for past epochs),
    the exact outcome of [NewEpoch], monotonicity of the epoch, publication,
    fan-out, idempotent subscription. *)
From Verif Require Import Base.Prelude Base.IntCodec Model.Netmap Spec.NetmapSpec
  Proofs.NetmapBase Proofs.NetmapCand.
From Coq Require Import ZifyBool ZifyNat ZifyN.
Local Open Scope Z_scope.

(** * Projections of [tick_state] *)

Definition tick_lists (s : nstate) (e : Z) : gmap bytes (gmap bytes node2) :=
  let ins := <[four_bytes_be e := cands2 s ∪ default ∅ (nodes2 s !! four_bytes_be e)]> (nodes2 s) in
  if e >? count s then drop_netmap ins (e - count s) else ins.

Lemma tick_state_eq s e h id key :
  tick_state s e h id key =
  mkN e h (count s) id (<[key := filter_netmap s]> (ring s)) (cands s) (cands2 s)
      (tick_lists s e) (subs s) (config s).
Proof.
  unfold tick_state, tick_lists. cbv zeta.
  change (count (fill_netmap (set_epoch s e h) e)) with (count s).
  destruct (e >? count s); reflexivity.
Qed.

(** * Subscribers *)

(** The subscribed contracts in call order: the suffixes of the [e<idx>]
    keys in ascending key order. *)
Definition subscribers (s : nstate) : list bytes := tail <$> skeys (subs s).

Definition sub_key (i : nat) (h : bytes) : bytes := N.of_nat i :: h.

(** Keys are [0::h0; 1::h1; ...] for distinct hashes. *)
Definition subs_indexed (s : nstate) : Prop :=
  exists hs, NoDup hs /\ (length hs <= 256)%nat /\ skeys (subs s) = imap sub_key hs.

Lemma fmap_tail_imap (f : nat -> bytes -> bytes) hs :
  (forall i h, tail (f i h) = h) -> tail <$> imap f hs = hs.
Proof.
  revert f; induction hs as [|h hs IH]; intros f Hf; [reflexivity|].
  rewrite imap_cons. cbn [fmap list_fmap]. rewrite Hf. f_equal. apply IH. intros i x. apply Hf.
Qed.

Lemma imap_sub_key_tail hs : tail <$> imap sub_key hs = hs.
Proof. apply fmap_tail_imap. reflexivity. Qed.

Lemma subs_indexed_subscribers s hs :
  skeys (subs s) = imap sub_key hs -> subscribers s = hs.
Proof. unfold subscribers. intros ->. apply imap_sub_key_tail. Qed.

Lemma imap_sub_key_nonempty hs : Forall (fun k => k <> []) (imap sub_key hs).
Proof.
  apply Forall_forall. intros k Hk. apply elem_of_lookup_imap in Hk as (i & h & -> & _). discriminate.
Qed.

Lemma Sorted_imap_sub_key_from o hs :
  Sorted bytes_le (imap (fun i h => sub_key (o + i) h) hs).
Proof.
  revert o; induction hs as [|h hs IH]; intros o; [constructor|].
  rewrite imap_cons. constructor.
  - rewrite (imap_ext _ (fun i h => sub_key (S o + i) h)); [apply IH|].
    intros i x _. cbn. f_equal. lia.
  - destruct hs as [|h' hs]; [constructor|]. rewrite imap_cons. constructor.
    unfold bytes_le, sub_key. cbn [bytes_leb compose].
    destruct (N.ltb_spec (N.of_nat (o + 0)) (N.of_nat (o + 1))); [reflexivity|lia].
Qed.

Lemma Sorted_imap_sub_key hs : Sorted bytes_le (imap sub_key hs).
Proof. apply (Sorted_imap_sub_key_from 0). Qed.

Lemma NoDup_imap_sub_key hs : NoDup (imap sub_key hs).
Proof.
  apply NoDup_alt. intros i j k Hi Hj.
  apply list_lookup_imap_Some in Hi as (h1 & _ & ->).
  apply list_lookup_imap_Some in Hj as (h2 & _ & H). unfold sub_key in H.
  injection H as H _. lia.
Qed.

Lemma bytes_eqb_true_iff a b : bytes_eqb a b = true <-> a = b.
Proof. apply bytes_eqb_eq. Qed.

(** [find_sub] over well-formed keys: is [h] among the suffixes? *)
Lemma find_sub_spec h keys :
  Forall (fun k => k <> []) keys ->
  find_sub h keys = Halt (bool_decide (h ∈ tail <$> keys)).
Proof.
  intros Hne. unfold find_sub.
  assert (G : forall acc, fold_left (fun acc k => found <-! acc;
                 raw <-! (match k with [] => Fault | _ :: r => Halt r end);
                 Halt (found || bytes_eqb h raw)) keys (Halt acc)
              = Halt (acc || bool_decide (h ∈ tail <$> keys))).
  { induction Hne as [|k keys Hk _ IH]; intros acc.
    - cbn. rewrite bool_decide_eq_false_2 by apply not_elem_of_nil. by rewrite orb_false_r.
    - cbn [fold_left]. destruct k as [|x r]; [done|]. cbn [obind]. rewrite IH.
      f_equal. cbn [fmap list_fmap tail]. rewrite <- orb_assoc. f_equal.
      destruct (bytes_eqb h r) eqn:E.
      + apply bytes_eqb_eq in E. subst. cbn. symmetry. apply bool_decide_eq_true_2. left.
      + apply bytes_eqb_neq in E. cbn. apply bool_decide_ext. rewrite elem_of_cons. tauto. }
  apply (G false).
Qed.

  (** * Invariant of reachable states *)

  Definition ring_ok (s : nstate) : Prop := 1 <= count s <= 254 /\ 0 <= cur s < count s.

  (** Structured lists exist only under the keys of past epochs. *)
  Definition lists_bounded (s : nstate) : Prop :=
    forall p, is_Some (nodes2 s !! p) -> exists e', 0 < e' <= epoch s /\ p = four_bytes_be e'.

  Definition tick_inv (s : nstate) : Prop :=
    ring_ok s /\ subs_indexed s /\ 0 <= epoch s /\ lists_bounded s.

  (** The exact outcome of [NewEpoch]. *)
  Definition tick_result (c : nctx) (s : nstate) (e : Z) : nstate :=
    let id := (cur s + 1) mod count s in tick_state s e (height c) id id.

  Lemma usc_inv s n s' :
    update_snapshot_count s n = Halt s' ->
    1 <= n <= 254 /\ n <> count s /\
    exists r2, resize_ring (ring s) (count s) n (cur s) = Halt r2 /\
      s' = mkN (epoch s) (eblock s) n (resize_cur (count s) n (cur s)) r2 (cands s) (cands2 s)
               (resize_lists (nodes2 s) (epoch s) (count s) n) (subs s) (config s).
  Proof.
    unfold update_snapshot_count. intros H. inv_ob H. injection H as <-.
    split; [lia|]. split; [lia|]. exists x. split; reflexivity.
  Qed.

  Lemma resize_lists_subset m e old n p :
    is_Some (resize_lists m e old n !! p) -> is_Some (m !! p).
  Proof.
    unfold resize_lists. generalize (zrange (e - old + 1) (e - n + 1)). intros l. revert m.
    induction l as [|k l IH]; intros m; [done|]. cbn [fold_left]. intros H. apply IH in H.
    unfold drop_netmap in H. destruct (decide (four_bytes_be k = p)) as [<-|Hne].
    - rewrite lookup_delete in H. by apply is_Some_None in H.
    - by rewrite lookup_delete_ne in H by exact Hne.
  Qed.

  Lemma skeys_insert_last (m : gmap bytes unit) hs h :
    skeys m = imap sub_key hs -> h ∉ hs ->
    skeys (<[sub_key (length hs) h := tt]> m) = imap sub_key (hs ++ [h]).
  Proof.
    intros Hk Hn. apply sorted_keys_unique.
    - apply Sorted_skeys.
    - apply Sorted_imap_sub_key.
    - apply NoDup_skeys.
    - apply NoDup_imap_sub_key.
    - intros k. rewrite elem_of_skeys, lookup_insert_is_Some', imap_app, elem_of_app.
      rewrite <- elem_of_skeys, Hk. cbn. rewrite elem_of_list_singleton, Nat.add_0_r.
      split; intros [H|H]; auto.
  Qed.

  (** * Publication *)

  Lemma tick_publishes c s e :
    tick_inv s -> epoch s < e < 2 ^ 32 ->
    let s' := tick_result c s e in
    r_netmap s' = Halt (filter_netmap s) /\
    r_list_nodes s' e = mvals (cands2 s) /\
    nodes2 s' !! four_bytes_be e = Some (cands2 s) /\
    epoch s' = e /\ eblock s' = height c /\
    cands s' = cands s /\ cands2 s' = cands2 s /\ count s' = count s /\
    subs s' = subs s /\ config s' = config s.
  Proof.
    intros ((Hc & Hi) & Hs & He & Hl) Hlt. cbv zeta. unfold tick_result. cbv zeta.
    rewrite tick_state_eq.
    pose proof (Z.mod_pos_bound (cur s + 1) (count s) ltac:(lia)) as Hm.
    assert (Hlook : tick_lists s e !! four_bytes_be e = Some (cands2 s)).
    { unfold tick_lists. cbv zeta.
      assert (Hnone : nodes2 s !! four_bytes_be e = None).
      { destruct (nodes2 s !! four_bytes_be e) eqn:E; [|reflexivity]. exfalso.
        destruct (Hl (four_bytes_be e)) as (e' & He' & Heq); [by rewrite E|].
        apply four_bytes_be_inj in Heq; lia. }
      rewrite Hnone. cbn [default]. rewrite (right_id_L ∅ (∪)).
      destruct (e >? count s) eqn:Eg; [|by rewrite lookup_insert].
      unfold drop_netmap. rewrite lookup_delete_ne; [by rewrite lookup_insert|].
      intros Heq. apply four_bytes_be_inj in Heq; lia. }
    split; [|split; [|split; [exact Hlook|repeat split]]].
    - unfold r_netmap. cbn [cur]. rewrite ring_key_byte by lia. cbn [obind].
      unfold get_snapshot. cbn [ring]. by rewrite lookup_insert.
    - unfold r_list_nodes. cbn [nodes2]. by rewrite Hlook.
  Qed.

(** * Clean-up (fan-out) *)

Section Tick.
  Variable sub_ok : bytes -> bool.
  Variable sub_accepts : bytes -> Z -> bool.
  Notation nexec := (nexec sub_ok sub_accepts).
  Notation nstep := (nstep sub_ok sub_accepts).
  Notation nrun_from := (nrun_from sub_ok sub_accepts).

  Lemma cleanup_fold_fault e keys :
    fold_left (cleanup_visit sub_accepts e) keys Fault = Fault.
  Proof. induction keys as [|k keys IH]; [reflexivity|]. exact IH. Qed.

  Lemma cleanup_fold e keys acc :
    Forall (fun k => k <> []) keys ->
    fold_left (cleanup_visit sub_accepts e) keys (Halt acc) =
    if forallb (fun h => sub_accepts h e) (tail <$> keys)
    then Halt (acc ++ map (fun h => NCall h e) (tail <$> keys)) else Fault.
  Proof.
    intros Hne. revert acc. induction Hne as [|k keys Hk _ IH]; intros acc.
    - cbn. by rewrite app_nil_r.
    - cbn [fold_left]. destruct k as [|x h]; [done|]. unfold cleanup_visit at 2. cbn [obind].
      cbn [fmap list_fmap tail forallb map].
      destruct (sub_accepts h e); cbn [andb]; [|apply cleanup_fold_fault].
      rewrite IH. destruct (forallb _ _); [|reflexivity]. by rewrite <- app_assoc.
  Qed.



  Lemma nexec_new_epoch c s e :
    ring_ok s -> subs_indexed s ->
    nexec c s (NewEpoch e) =
    if alpha c && (epoch s <? e) && forallb (fun h => sub_accepts h e) (subscribers s)
    then Halt (tick_result c s e, map (fun h => NCall h e) (subscribers s) ++ [NNewEpoch e])
    else Fault.
  Proof.
    intros [Hc Hi] (hs & _ & _ & Hk). cbn [nexec].
    destruct (alpha c); cbn [oassert obind andb]; [|reflexivity].
    replace (negb (e <=? epoch s)) with (epoch s <? e) by lia.
    destruct (epoch s <? e); cbn [oassert obind andb]; [|reflexivity].
    rewrite vm_mod_pos by lia. cbn [obind].
    pose proof (Z.mod_pos_bound (cur s + 1) (count s) ltac:(lia)) as Hm.
    rewrite ring_key_byte by lia. cbn [obind].
    unfold cleanup. rewrite tick_state_eq. cbn [subs].
    rewrite cleanup_fold by (rewrite Hk; apply imap_sub_key_nonempty).
    fold (subscribers s). destruct (forallb _ _); [|reflexivity].
    cbn [obind app]. unfold tick_result. cbv zeta. rewrite tick_state_eq. reflexivity.
  Qed.

  (** What each kind of operation can change. *)
  Lemma nexec_cand_frame c s o s' ns :
    is_cand_op o = true -> nexec c s o = Halt (s', ns) -> same_but_cands s s'.
  Proof.
    intros Ho H. destruct o; try discriminate Ho; cbn [nexec] in H.
    - inv_ob H. unfold add_to_netmap in H. inv_ob H. injection H as <- <-. repeat split.
    - inv_ob H. unfold add_to_netmap in H. inv_ob H. injection H as <- <-. repeat split.
    - inv_ob H. injection H as <- <-. repeat split.
    - inv_ob H. by apply update_candidate_state_spec in H as (_ & _ & H & _).
    - inv_ob H. by apply update_candidate_state_spec in H as (_ & _ & H & _).
    - inv_ob H. by apply update_candidate_state_spec in H as (_ & _ & H & _).
  Qed.




  Lemma nexec_subscribe c s h s' ns :
    subs_indexed s -> nexec c s (Subscribe h) = Halt (s', ns) ->
    alpha c = true /\ sub_ok h = true /\
    ((h ∈ subscribers s /\ s' = s /\ ns = []) \/
     (h ∉ subscribers s /\ ns = [NSubscription h] /\
      s' = set_subs s (<[sub_key (length (subscribers s)) h := tt]> (subs s)) /\
      subscribers s' = subscribers s ++ [h] /\ subs_indexed s')).
  Proof.
    intros (hs & Hnd & Hlen & Hk) H. cbn [nexec] in H. inv_ob H.
    rewrite find_sub_spec in Eo by (rewrite Hk; apply imap_sub_key_nonempty).
    injection Eo as <-. fold (subscribers s) in H.
    pose proof (subs_indexed_subscribers s hs Hk) as Hs. rewrite Hs in *.
    split; [assumption|]. split; [assumption|].
    destruct (decide (h ∈ hs)) as [Hin|Hin];
      [rewrite bool_decide_eq_true_2 in H by exact Hin
      |rewrite bool_decide_eq_false_2 in H by exact Hin].
    - injection H as <- <-. left. auto.
    - inv_ob H. injection H as <- <-. right. rewrite Hk, imap_length in *.
      assert (Hkey : Z.to_N (Z.of_nat (length hs)) :: h = sub_key (length hs) h)
        by (unfold sub_key; f_equal; lia).
      rewrite Hkey. pose proof (skeys_insert_last (subs s) hs h Hk Hin) as Hk'.
      split; [exact Hin|]. split; [reflexivity|]. split; [reflexivity|]. split.
      + unfold subscribers, set_subs. simpl subs. rewrite <- (imap_sub_key_tail (hs ++ [h])). f_equal. exact Hk'.
      + exists (hs ++ [h]). split; [|split].
        * apply NoDup_app. split; [exact Hnd|]. split; [|apply NoDup_singleton].
          intros x Hx Hx'. apply elem_of_list_singleton in Hx'. by subst.
        * rewrite app_length. cbn. lia.
        * exact Hk'.
  Qed.

  (** Preservation, one halting invocation. *)
  Lemma nexec_tick_inv c s o s' ns :
    tick_inv s -> nexec c s o = Halt (s', ns) -> tick_inv s'.
  Proof.
    intros (Hr & Hs & He & Hl) H.
    destruct (is_cand_op o) eqn:Hop.
    { apply nexec_cand_frame in H; [|exact Hop].
      destruct H as (H1 & H2 & H3 & H4 & H5 & H6 & H7 & H8).
      unfold tick_inv, ring_ok, subs_indexed, lists_bounded in *.
      rewrite H1, H3, H4, H6, H7. auto. }
    destruct o; try discriminate Hop.
    - (* NewEpoch *)
      rewrite nexec_new_epoch in H by assumption.
      destruct (alpha c && (epoch s <? e) && _) eqn:Hg; [|discriminate].
      injection H as <- <-. apply andb_true_iff in Hg as [Hg _]. apply andb_true_iff in Hg as [_ Hg].
      unfold tick_result. cbv zeta. rewrite tick_state_eq.
      destruct Hr as [Hc Hi]. pose proof (Z.mod_pos_bound (cur s + 1) (count s) ltac:(lia)) as Hm.
      split; [split; cbn; lia|]. split; [exact Hs|]. split; [cbn; lia|].
      intros p. cbn [nodes2 epoch]. unfold tick_lists. cbv zeta. intros Hp.
      assert (Hp' : is_Some (<[four_bytes_be e := cands2 s ∪ default ∅ (nodes2 s !! four_bytes_be e)]> (nodes2 s) !! p)).
      { destruct (e >? count s); [|exact Hp]. unfold drop_netmap in Hp.
        destruct (decide (four_bytes_be (e - count s) = p)) as [<-|Hne].
        - rewrite lookup_delete in Hp. by apply is_Some_None in Hp.
        - by rewrite lookup_delete_ne in Hp by exact Hne. }
      apply lookup_insert_is_Some' in Hp' as [<-|Hp'].
      + exists e. split; [lia|reflexivity].
      + apply Hl in Hp' as (e' & He' & ->). exists e'. split; [lia|reflexivity].
    - (* UpdateSnapshotCount *)
      cbn [nexec] in H. inv_ob H. injection H as <- <-.
      apply usc_inv in Eo as (Hn & Hne & r2 & _ & ->).
      split; [|split; [exact Hs|split; [exact He|]]].
      + destruct Hr as [Hc Hi]. split; cbn; [lia|]. unfold resize_cur.
        destruct (Z.ltb_spec (count s) n); cbn [orb]; [lia|].
        destruct (Z.ltb_spec (cur s) n); lia.
      + intros p Hp. cbn [nodes2 epoch] in *. apply resize_lists_subset in Hp. by apply Hl.
    - (* Subscribe *)
      apply nexec_subscribe in H; [|exact Hs].
      destruct H as (_ & _ & [(_ & -> & _)|(_ & _ & -> & _ & Hs')]).
      + split; [exact Hr|]. split; [exact Hs|]. split; [exact He|exact Hl].
      + split; [exact Hr|]. split; [exact Hs'|]. split; [exact He|exact Hl].
    - (* SetConfig *)
      cbn [nexec] in H. inv_ob H. injection H as <- <-.
      split; [exact Hr|]. split; [exact Hs|]. split; [exact He|exact Hl].
  Qed.

  Lemma nstep_tick_inv s co : tick_inv s -> tick_inv (nstep_state sub_ok sub_accepts s co).
  Proof.
    intros Hi. unfold nstep_state, Netmap.nstep.
    destruct (nexec (fst co) s (snd co)) as [[s' ns]|] eqn:He; [|exact Hi].
    cbn. by eapply nexec_tick_inv.
  Qed.

  Lemma ninit_tick_inv cfg : tick_inv (ninit cfg).
  Proof.
    split; [split; cbn; unfold DefaultSnapshotCount; lia|]. split.
    - exists []. split; [constructor|]. split; [cbn; lia|]. cbn [ninit subs]. apply skeys_empty.
    - split; [cbn; lia|]. intros p Hp. cbn in Hp. rewrite lookup_empty in Hp. by apply is_Some_None in Hp.
  Qed.

  Lemma nrun_tick_inv s ops : tick_inv s -> tick_inv (nrun_from s ops).
  Proof.
    revert s; induction ops as [|co ops IH]; intros s Hi; [exact Hi|].
    cbn [Netmap.nrun_from fold_left]. apply IH. by apply nstep_tick_inv.
  Qed.

  (** * Epoch monotone *)

  Lemma nexec_epoch c s o s' ns :
    tick_inv s -> nexec c s o = Halt (s', ns) ->
    (epoch s' = epoch s /\ eblock s' = eblock s /\ (forall e, o <> NewEpoch e)) \/
    (exists e, o = NewEpoch e /\ epoch s < e /\ epoch s' = e /\ eblock s' = height c).
  Proof.
    intros (Hr & Hs & He & Hl) H.
    destruct (is_cand_op o) eqn:Hop.
    { left. pose proof (nexec_cand_frame _ _ _ _ _ Hop H) as (H1 & H2 & _).
      repeat split; try assumption. intros e ->. discriminate. }
    destruct o; try discriminate Hop.
    - right. rewrite nexec_new_epoch in H by assumption.
      destruct (alpha c && (epoch s <? e) && _) eqn:Hg; [|discriminate].
      injection H as <- <-. apply andb_true_iff in Hg as [Hg _]. apply andb_true_iff in Hg as [_ Hg].
      exists e. unfold tick_result. cbv zeta. rewrite tick_state_eq. cbn. repeat split; lia.
    - left. cbn [nexec] in H. inv_ob H. injection H as <- <-.
      apply usc_inv in Eo as (_ & _ & r2 & _ & ->). cbn. repeat split; discriminate.
    - left. apply nexec_subscribe in H; [|exact Hs].
      destruct H as (_ & _ & [(_ & -> & _)|(_ & _ & -> & _)]); repeat split; discriminate.
    - left. cbn [nexec] in H. inv_ob H. injection H as <- <-. repeat split; discriminate.
  Qed.

  Lemma nstep_epoch_mono s co : tick_inv s -> epoch s <= epoch (nstep_state sub_ok sub_accepts s co).
  Proof.
    intros Hi. unfold nstep_state, Netmap.nstep.
    destruct (nexec (fst co) s (snd co)) as [[s' ns]|] eqn:He; cbn; [|lia].
    destruct (nexec_epoch _ _ _ _ _ Hi He) as [(-> & _)|(e & _ & Hlt & -> & _)]; lia.
  Qed.

  Lemma nrun_epoch_mono s ops : tick_inv s -> epoch s <= epoch (nrun_from s ops).
  Proof.
    revert s; induction ops as [|co ops IH]; intros s Hi; [cbn; lia|].
    cbn [Netmap.nrun_from fold_left]. etransitivity; [apply (nstep_epoch_mono s co Hi)|].
    apply IH. by apply nstep_tick_inv.
  Qed.

End Tick.
