(** Proofs/GasNeoFS.v — what each GAS-handling method of the NeoFS model does,
    for every callback [cb] (every behaviour of the receivers), every state
    and every argument. *)
From Verif Require Import Base.Prelude Base.IntCodec Model.Gas Model.NeoFSGas Proofs.GasLedger.
From Coq Require Import ZifyBool ZifyNat ZifyN.
Local Open Scope Z_scope.

Ltac ob H :=
  match type of H with
  | obind ?o _ = Halt _ =>
      let E := fresh "E" in destruct o eqn:E; [cbn [obind] in H|discriminate H]
  end.

Tactic Notation "ob" hyp(H) "as" simple_intropattern(p) ident(E) :=
  match type of H with
  | obind ?o _ = Halt _ => destruct o as [p|] eqn:E; [cbn [obind] in H|discriminate H]
  end.

Lemma oassert_halt b u : oassert b = Halt u -> b = true.
Proof. destruct b; [reflexivity|discriminate]. Qed.

(** ** OnNEP17Payment *)
Definition markerb (d : data) : bool :=
  match data_bytes d with Halt (Some b) => bytes_eqb b marker | _ => false end.
Definition data_len_okb (d : data) : bool :=
  match data_bytes d with
  | Halt None => true
  | Halt (Some b) => (length b =? 0)%nat || hash_len b
  | Fault => false
  end.
Definition deposit_okb (a : Z) (d : data) : bool :=
  (0 <? a) && (a <=? max_balance_amount_gas) && data_len_okb d.
(** The receiver named by the Deposit notification: [data] if it is 20 bytes,
    else the sender. *)
Definition deposit_rcv (from : bytes) (d : data) : bytes :=
  match data_bytes d with Halt (Some b) => if hash_len b then b else from | _ => from end.

(** The whole callback as one equation. *)
Lemma on_payment_total g tx caller from a d :
  hash160_ok from = true ->
  neofs_on_payment g tx caller from a d =
    if markerb d then Halt []
    else if bytes_eqb caller g && deposit_okb a d
         then Halt [EDeposit from a (deposit_rcv from d) tx]
         else Fault.
Proof.
  intros Hf. unfold neofs_on_payment, markerb, deposit_okb, data_len_okb, deposit_rcv.
  destruct (data_bytes d) as [[b|]|] eqn:Ed; cbn [obind].
  - destruct (bytes_eqb b marker) eqn:Em; [reflexivity|].
    destruct (a <=? 0) eqn:E1.
    + replace (0 <? a) with false by lia. rewrite andb_false_r. reflexivity.
    + replace (0 <? a) with true by lia.
      destruct (max_balance_amount_gas <? a) eqn:E2.
      * replace (a <=? max_balance_amount_gas) with false by lia. rewrite andb_false_r. reflexivity.
      * replace (a <=? max_balance_amount_gas) with true by lia.
        destruct (bytes_eqb caller g); cbn [negb andb]; [|reflexivity].
        destruct (hash_len b) eqn:Hb.
        -- rewrite orb_true_r. cbn [obind]. unfold hash160_ok at 2. rewrite Hb, orb_true_r, Hf. reflexivity.
        -- destruct (length b =? 0)%nat; cbn [orb obind]; [|reflexivity].
           rewrite Hf. reflexivity.
  - destruct (a <=? 0) eqn:E1.
    + replace (0 <? a) with false by lia. rewrite andb_false_r. reflexivity.
    + replace (0 <? a) with true by lia.
      destruct (max_balance_amount_gas <? a) eqn:E2.
      * replace (a <=? max_balance_amount_gas) with false by lia. rewrite andb_false_r. reflexivity.
      * replace (a <=? max_balance_amount_gas) with true by lia.
        destruct (bytes_eqb caller g); cbn [negb andb obind]; [|reflexivity].
        rewrite Hf. reflexivity.
  - rewrite !andb_false_r. reflexivity.
Qed.

(** Whatever [from] is: no marker and another caller than GAS is refused. *)
Lemma on_payment_not_gas g tx caller from a d :
  markerb d = false -> caller <> g -> neofs_on_payment g tx caller from a d = Fault.
Proof.
  intros Hm Hc. unfold neofs_on_payment, markerb in *.
  destruct (data_bytes d) as [[b|]|]; cbn [obind]; [rewrite Hm| |reflexivity];
    (destruct (a <=? 0); [reflexivity|]); (destruct (max_balance_amount_gas <? a); [reflexivity|]);
    (assert (bytes_eqb caller g = false) as -> by (apply bytes_eqb_neq; exact Hc)); reflexivity.
Qed.

Lemma on_payment_quiet g tx caller from a d ns :
  neofs_on_payment g tx caller from a d = Halt ns -> quiet ns.
Proof.
  unfold neofs_on_payment. intros H. ob H as rcv Er.
  destruct (match rcv with Some b => bytes_eqb b marker | None => false end); [injection H as <-; reflexivity|].
  destruct (a <=? 0); [discriminate|]. destruct (max_balance_amount_gas <? a); [discriminate|].
  destruct (negb (bytes_eqb caller g)); [discriminate|].
  ob H as r Err. ob H as u Eu. injection H as <-. reflexivity.
Qed.

(** A Deposit is emitted only when the caller is GAS, with the arguments of
    the callback. *)
Lemma on_payment_deposit g tx caller from a d ns :
  neofs_on_payment g tx caller from a d = Halt ns ->
  ns = [] \/ (caller = g /\ 0 < a <= max_balance_amount_gas /\ exists r, ns = [EDeposit from a r tx]).
Proof.
  unfold neofs_on_payment. intros H. ob H as rcv Er.
  destruct (match rcv with Some b => bytes_eqb b marker | None => false end); [injection H as <-; auto|].
  destruct (a <=? 0) eqn:E1; [discriminate|]. destruct (max_balance_amount_gas <? a) eqn:E2; [discriminate|].
  destruct (bytes_eqb caller g) eqn:Ec; [|discriminate]. cbn [negb] in H.
  ob H as r Err. ob H as u Eu. injection H as <-. right. apply bytes_eqb_eq in Ec. split; [exact Ec|]. split; [lia|]. eauto.
Qed.

(** ** Generic pieces *)
Definition fee_val (fee : option Z) : Z := match fee with Some a => a | None => 0 end.

(** Events of paying [a] from [u] to each of [rcpts] in turn. *)
Fixpoint pay_all (cb : callback) (g u : bytes) (a : Z) (d : data) (rcpts : list bytes)
  : outcome (list ev) :=
  match rcpts with
  | [] => Halt []
  | r :: rest =>
      cns <-! cb g r u a d;
      rns <-! pay_all cb g u a d rest;
      Halt (EGas u r a :: cns ++ rns)
  end.

Definition moves (u : bytes) (a : Z) (rcpts : list bytes) (l : ledger) : ledger :=
  fold_left (fun l r => gas_move l u r a) rcpts l.

Fixpoint count_occ_b (k : bytes) (l : list bytes) : Z :=
  match l with [] => 0 | x :: r => ind (bytes_eqb k x) 1 + count_occ_b k r end.

Lemma gbal_moves u a rcpts : forall l k,
  gbal (moves u a rcpts l) k =
    gbal l k + a * count_occ_b k rcpts - ind (bytes_eqb k u) (a * Z.of_nat (length rcpts)).
Proof.
  unfold moves. induction rcpts as [|r rest IH]; intros l k; cbn [fold_left count_occ_b length].
  - unfold ind. destruct (bytes_eqb k u); lia.
  - rewrite IH, gbal_move. unfold ind. destruct (bytes_eqb k u), (bytes_eqb k r); lia.
Qed.

Lemma lsum_moves u a rcpts : forall l, lsum (moves u a rcpts l) = lsum l.
Proof.
  unfold moves. induction rcpts as [|r rest IH]; intros l; cbn [fold_left]; [reflexivity|].
  rewrite IH. apply lsum_move.
Qed.

Section Methods.
  Variable cb : callback.
  Variable e : env.
  Variable c : ctx.

  Lemma fs_transfer_spec l f t a d l' ok ns :
    fs_transfer cb e c l f t a d = Halt (l', ok, ns) ->
    exists x, a = Some x /\
      gas_transfer cb (gasH e) (bytes_eqb f (fsH e) || inb f (wit c)) l f t x d = Halt (l', ok, ns).
  Proof. unfold fs_transfer. destruct a as [x|]; [eauto|discriminate]. Qed.

  (** *** Withdraw *)
  Lemma withdraw_nodes_spec user fee nodes : forall l ns0 l' ns,
    withdraw_nodes cb e c user fee nodes l ns0 = Halt (l', ns) ->
    exists rcpts evs,
      mapM (std_acc e) nodes = Some rcpts /\
      l' = moves user (fee_val fee) rcpts l /\
      pay_all cb (gasH e) user (fee_val fee) (DBytes []) rcpts = Halt evs /\
      ns = ns0 ++ evs /\
      (rcpts <> [] ->
         fee = Some (fee_val fee) /\ 0 <= fee_val fee /\ hash_len user = true /\
         (bytes_eqb user (fsH e) || inb user (wit c)) = true /\
         Forall (fun r => hash_len r = true) rcpts).
  Proof.
    induction nodes as [|node rest IH]; intros l ns0 l' ns H; cbn [withdraw_nodes] in H.
    - injection H as <- <-. exists [], []. cbn. rewrite app_nil_r. repeat split; congruence.
    - unfold std_acc_o in H. destruct (std_acc e node) as [addr|] eqn:Ea; [|discriminate].
      cbn [obind] in H. ob H as [[l1 ok] ns1] Et. ob H as uu Eo.
      apply oassert_halt in Eo. subst ok.
      apply fs_transfer_spec in Et as (x & -> & Ht).
      apply gas_transfer_spec in Ht as (Hu & Hr & [(Hk & _)|(_ & Hx & Hw & -> & cns & Hc & ->)]); [discriminate|].
      apply IH in H as (rcpts & evs & Hm & -> & Hp & -> & Hne).
      exists (addr :: rcpts), (EGas user addr x :: cns ++ evs).
      cbn [fee_val] in *. split.
      { cbn. rewrite Ea. cbn. rewrite Hm. reflexivity. }
      split; [reflexivity|]. split.
      { cbn [pay_all]. rewrite Hc. cbn [obind]. rewrite Hp. reflexivity. }
      split.
      { rewrite <- app_assoc. reflexivity. }
      intros _. split; [reflexivity|]. split; [lia|]. split; [exact Hu|]. split; [exact Hw|].
      constructor; [exact Hr|].
      destruct rcpts as [|r0 rr]; [constructor|]. apply Hne. discriminate.
  Qed.

  Definition withdraw_rcpts (s : fstate) : option (list bytes) :=
    if notary_off s then mapM (std_acc e) (alphabet s) else Some [procH s].

  Lemma withdraw_spec w u x w' ns :
    neofs_withdraw cb e c w u x = Halt (w', ns) ->
    check_witness e c u = Halt true /\
    0 <= x <= max_balance_amount /\ fs w' = fs w /\
    exists fee rcpts evs,
      config_int (fs w) withdraw_fee_key = Halt fee /\
      withdraw_rcpts (fs w) = Some rcpts /\
      gas w' = moves u (fee_val fee) rcpts (gas w) /\
      pay_all cb (gasH e) u (fee_val fee) (DBytes []) rcpts = Halt evs /\
      ns = evs ++ [EWithdraw u (x * 100000000) (txhash c)] /\
      (rcpts <> [] -> fee = Some (fee_val fee) /\ 0 <= fee_val fee /\ hash_len u = true /\
                      inb u (wit c) = true).
  Proof.
    unfold neofs_withdraw. intros H. ob H as wok Ew. ob H as uu Eo. apply oassert_halt in Eo. subst wok.
    destruct (x <? 0) eqn:E1; [discriminate|]. destruct (x >? max_balance_amount) eqn:E2; [discriminate|].
    cbv zeta in H. ob H as fee Efee.
    split; [reflexivity|]. split; [lia|].
    unfold withdraw_rcpts. destruct (notary_off (fs w)) eqn:En.
    - ob H as [l ns1] E3. ob H as u2 Eh. injection H as <- <-. split; [reflexivity|].
      apply withdraw_nodes_spec in E3 as (rcpts & evs & Hm & -> & Hp & -> & Hne).
      exists fee, rcpts, evs. repeat split; try assumption; try reflexivity.
      + apply Hne; assumption.
      + apply Hne; assumption.
      + apply Hne; assumption.
      + destruct (Hne H) as (_ & _ & Hu & Hw & _).
        unfold check_witness in Ew. rewrite Hu in Ew. injection Ew as Ew. exact Ew.
    - ob H as [l ns1] E3. ob H as u2 Eh. injection H as <- <-. split; [reflexivity|].
      ob E3 as [[l1 ok] ns2] Et. ob E3 as u3 Eo. apply oassert_halt in Eo. subst ok.
      injection E3 as <- <-.
      apply fs_transfer_spec in Et as (f & -> & Ht).
      apply gas_transfer_spec in Ht as (Hu & Hr & [(Hk & _)|(_ & Hx & Hw & -> & cns & Hc & ->)]); [discriminate|].
      exists (Some f), [procH (fs w)], (EGas u (procH (fs w)) f :: cns).
      cbn [fee_val pay_all moves fold_left]. rewrite Hc. cbn [obind]. rewrite app_nil_r.
      repeat split; try reflexivity; try lia; try assumption.
      unfold check_witness in Ew. rewrite Hu in Ew. injection Ew as Ew. exact Ew.
  Qed.

  (** *** Cheque *)
  Lemma alpha_gate_notary s id bs go :
    notary_off s = false -> alpha_gate e c s id = Halt (bs, go) ->
    go = true /\ bs = ballots s /\ inb (alpha_addr c) (wit c) = true.
  Proof.
    unfold alpha_gate. intros -> H. ob H as uu E. apply oassert_halt in E. injection H as <- <-. auto.
  Qed.

  Lemma cheque_spec w id u a lock w' ns :
    neofs_cheque cb e c w id u a lock = Halt (w', ns) ->
    exists bs go, alpha_gate e c (fs w) id = Halt (bs, go) /\ fs w' = set_ballots (fs w) bs /\
      ((go = false /\ gas w' = gas w /\ ns = []) \/
       (go = true /\ 0 <= a <= gbal (gas w) (fsH e) /\ hash_len u = true /\ hash_len (fsH e) = true /\
        gas w' = gas_move (gas w) (fsH e) u a /\
        exists cns, cb (gasH e) u (fsH e) a DNull = Halt cns /\
                    ns = EGas (fsH e) u a :: cns ++ [ECheque id u a lock])).
  Proof.
    unfold neofs_cheque. cbv zeta. intros H. ob H as [bs go] Eg. exists bs, go. split; [reflexivity|].
    destruct go; cbn [negb] in H.
    - ob H as [[l ok] ns1] Et. ob H as uu Eo. apply oassert_halt in Eo. subst ok. ob H as u2 Eh.
      injection H as <- <-. split; [reflexivity|]. right.
      apply gas_transfer_spec in Et as (Hf & Hu & [(Hk & _)|(_ & Hx & _ & -> & cns & Hc & ->)]); [discriminate|].
      repeat split; try assumption; try lia. exists cns. split; [exact Hc|]. reflexivity.
    - injection H as <- <-. split; [reflexivity|]. left. auto.
  Qed.

  (** *** InnerRingCandidateAdd *)
  Lemma cand_add_spec w key w' ns :
    neofs_cand_add cb e c w key = Halt (w', ns) ->
    check_witness e c key = Halt true /\ cands (fs w) !! key = None /\
    exists from fee cns,
      std_acc e key = Some from /\
      config_int (fs w) candidate_fee_key = Halt (Some fee) /\
      0 <= fee <= gbal (gas w) from /\ hash_len from = true /\ hash_len (fsH e) = true /\
      (bytes_eqb from (fsH e) || inb from (wit c)) = true /\
      gas w' = gas_move (gas w) from (fsH e) fee /\
      cb (gasH e) (fsH e) from fee (DBytes marker) = Halt cns /\
      ns = EGas from (fsH e) fee :: cns /\
      fs w' = mkF (notary_off (fs w)) (procH (fs w)) (alphabet (fs w)) (<[key := tt]> (cands (fs w)))
                  (config (fs w)) (ballots (fs w)).
  Proof.
    unfold neofs_cand_add. cbv zeta. intros H. ob H as wok Ew. ob H as uu Eo. apply oassert_halt in Eo. subst wok.
    destruct (bool_decide (is_Some (cands (fs w) !! key))) eqn:Ec; [discriminate|].
    apply bool_decide_eq_false in Ec.
    unfold std_acc_o in H. destruct (std_acc e key) as [from|] eqn:Ea; [|discriminate]. cbn [obind] in H.
    ob H as fee Efee. ob H as [[l ok] ns1] Et. ob H as u2 Eo2. apply oassert_halt in Eo2. subst ok.
    ob H as u3 Ek. injection H as <- <-.
    apply fs_transfer_spec in Et as (x & -> & Ht).
    apply gas_transfer_spec in Ht as (Hf & Hn & [(Hk & _)|(_ & Hx & Hw & -> & cns & Hc & ->)]); [discriminate|].
    split; [reflexivity|]. split.
    { destruct (cands (fs w) !! key) eqn:El; [exfalso; apply Ec; eauto|reflexivity]. }
    exists from, x, cns. repeat split; try assumption; try lia; try reflexivity.
  Qed.

  (** *** Soundness of the Transfer events, and: GAS leaves the contract only
      through a cheque. *)
  Hypothesis Hq : cb_quiet cb.

  Definition out_ok (ns : list ev) : Prop := outflow (fsH e) ns = cheques ns.

  Lemma pay_all_sound u a d rcpts : forall l evs,
    pay_all cb (gasH e) u a d rcpts = Halt evs -> gas_sound l evs (moves u a rcpts l).
  Proof.
    induction rcpts as [|r rest IH]; intros l evs H; cbn [pay_all] in H.
    - injection H as <-. apply gas_sound_nil.
    - ob H as cns Ec. ob H as rns Er. injection H as <-. unfold moves. cbn [fold_left].
      change (EGas u r a :: cns ++ rns) with ((EGas u r a :: cns) ++ rns).
      eapply gas_sound_app; [|apply IH; reflexivity].
      intros k. cbn [inflow outflow fold_right]. fold (inflow k cns). fold (outflow k cns).
      destruct (quiet_flows k cns (Hq _ _ _ _ _ _ Ec)) as (-> & -> & _). rewrite gbal_move. lia.
  Qed.

  Lemma pay_all_out u a d rcpts : forall evs,
    u <> fsH e -> pay_all cb (gasH e) u a d rcpts = Halt evs ->
    outflow (fsH e) evs = 0 /\ cheques evs = 0.
  Proof.
    induction rcpts as [|r rest IH]; intros evs Hu H; cbn [pay_all] in H.
    - injection H as <-. auto.
    - ob H as cns Ec. ob H as rns Er. injection H as <-.
      destruct (IH _ Hu eq_refl) as (H1 & H2).
      destruct (quiet_flows (fsH e) cns (Hq _ _ _ _ _ _ Ec)) as (_ & H3 & H4).
      cbn [outflow cheques fold_right]. fold (outflow (fsH e) (cns ++ rns)). fold (cheques (cns ++ rns)).
      rewrite outflow_app, cheques_app, H1, H2, H3, H4.
      assert (bytes_eqb (fsH e) u = false) as -> by (apply bytes_eqb_neq; congruence).
      cbn. auto.
  Qed.
End Methods.

(** ** The acceptance rule in words *)
(** [d] is the internal marker "\x57\x0b" (as a byte string, or anything whose
    byte conversion is that string). *)
Definition is_marker (d : data) : Prop := data_bytes d = Halt (Some marker).
(** [d], converted to bytes, has [n] bytes (Null counts as empty). *)
Definition data_len (d : data) (n : nat) : Prop :=
  match data_bytes d with
  | Halt None => n = 0%nat
  | Halt (Some b) => length b = n
  | Fault => False
  end.
Definition deposit_ok (a : Z) (d : data) : Prop :=
  0 < a <= max_balance_amount_gas /\ (data_len d 0 \/ data_len d 20).

Lemma markerb_spec d : markerb d = true <-> is_marker d.
Proof.
  unfold markerb, is_marker. destruct (data_bytes d) as [[b|]|].
  - rewrite bytes_eqb_eq. split; [intros ->; reflexivity|intros [= ->]; reflexivity].
  - split; discriminate.
  - split; discriminate.
Qed.

Lemma markerb_false d : markerb d = false <-> ~ is_marker d.
Proof. rewrite <- markerb_spec. destruct (markerb d); split; congruence. Qed.

Lemma deposit_okb_spec a d : deposit_okb a d = true <-> deposit_ok a d.
Proof.
  unfold deposit_okb, deposit_ok, data_len_okb, data_len, hash_len.
  destruct (data_bytes d) as [[b|]|].
  - rewrite !andb_true_iff, orb_true_iff, !Nat.eqb_eq. lia.
  - rewrite !andb_true_iff. lia.
  - rewrite !andb_true_iff. split; [intros (_ & H); discriminate|intros (_ & [[]|[]])].
Qed.

Lemma deposit_okb_false a d : deposit_okb a d = false <-> ~ deposit_ok a d.
Proof. rewrite <- deposit_okb_spec. destruct (deposit_okb a d); split; congruence. Qed.

(** The receiver named in the Deposit: [data] when it is 20 bytes, else [from]. *)
Lemma deposit_rcv_spec from d :
  (data_len d 20 -> data_bytes d = Halt (Some (deposit_rcv from d))) /\
  (data_len d 0 -> deposit_rcv from d = from).
Proof.
  unfold data_len, deposit_rcv, hash_len. destruct (data_bytes d) as [[b|]|]; split; intros H;
    try discriminate; try contradiction; try reflexivity.
  - rewrite H. reflexivity.
  - rewrite H. reflexivity.
Qed.
