(** Proofs/BalanceSum.v — sum of balances over the account map. *)
From Verif Require Import Base.Prelude Base.IntCodec Model.Balance.
Local Open Scope Z_scope.

Definition msum (m : gmap bytes account) : Z :=
  map_fold (fun _ v acc => bal v + acc) 0 m.

Lemma msum_empty : msum ∅ = 0.
Proof. unfold msum. apply map_fold_empty. Qed.

Lemma msum_insert_fresh m k v :
  m !! k = None -> msum (<[k:=v]> m) = bal v + msum m.
Proof.
  intros H. unfold msum.
  rewrite map_fold_insert_L; [reflexivity| |exact H].
  intros; lia.
Qed.

Lemma msum_delete m k v :
  m !! k = Some v -> msum (delete k m) = msum m - bal v.
Proof.
  intros H.
  rewrite <- (insert_delete m k v H) at 2.
  rewrite msum_insert_fresh by apply lookup_delete. lia.
Qed.

Lemma msum_delete' m k : msum (delete k m) = msum m - bal (get_acc m k).
Proof.
  unfold get_acc. destruct (m !! k) as [v|] eqn:E; simpl.
  - apply msum_delete; assumption.
  - rewrite delete_notin by assumption. lia.
Qed.

Lemma msum_insert m k v :
  msum (<[k:=v]> m) = msum m - bal (get_acc m k) + bal v.
Proof.
  rewrite <- insert_delete_insert.
  rewrite msum_insert_fresh by apply lookup_delete.
  rewrite msum_delete'. lia.
Qed.

Lemma get_acc_insert m k v k' :
  get_acc (<[k:=v]> m) k' = if bytes_eqb k' k then v else get_acc m k'.
Proof.
  unfold get_acc. destruct (bytes_eqb k' k) eqn:E.
  - apply bytes_eqb_eq in E. subst. rewrite lookup_insert. reflexivity.
  - apply bytes_eqb_neq in E. rewrite lookup_insert_ne by congruence. reflexivity.
Qed.

Lemma get_acc_delete m k k' :
  get_acc (delete k m) k' = if bytes_eqb k' k then empty_acc else get_acc m k'.
Proof.
  unfold get_acc. destruct (bytes_eqb k' k) eqn:E.
  - apply bytes_eqb_eq in E. subst. rewrite lookup_delete. reflexivity.
  - apply bytes_eqb_neq in E. rewrite lookup_delete_ne by congruence. reflexivity.
Qed.
