(** Proofs/PlacementCodec.v — the roster counter codec
    (counterToBytes / counterFromBytes, contract.go:609-638).

    The encoding of the counter is the VM's minimal little-endian integer
    encoding with the first two bytes swapped. It is 2 bytes long up to 32767
    and 3 bytes long (third byte 0) from 32768 to 65535; on the whole range
    [0, 65535] the byte order of the encodings ([storage.Find] order) is the
    numeric order and decoding inverts encoding. At 65536 the order breaks:
    the encoding [0;0;1] sorts before the encoding of 1.

    Facts about a finite range are established by computation ([vm_compute]
    over the 65536 values) and lifted to quantified statements. *)
From Verif Require Import Base.Prelude Base.IntCodec Model.Placement.
From Coq Require Import ZifyBool ZifyNat ZifyN.
Local Open Scope Z_scope.

Definition bytes_lt (a b : bytes) : Prop := bytes_leb a b = true /\ a <> b.

Lemma bytes_lt_trans a b c : bytes_lt a b -> bytes_lt b c -> bytes_lt a c.
Proof.
  intros [H1 N1] [H2 N2]. split; [by eapply bytes_leb_trans|].
  intros ->. apply N2. by apply bytes_leb_antisym.
Qed.

Lemma bytes_lt_irrefl a : ~ bytes_lt a a.
Proof. intros [_ H]. by apply H. Qed.

Lemma bytes_lt_not_le a b : bytes_lt a b -> bytes_leb b a = false.
Proof.
  intros [H N]. destruct (bytes_leb b a) eqn:E; [|reflexivity]. exfalso. apply N. by apply bytes_leb_antisym.
Qed.

(** [P] holds on [start, start + n): checked without building a list. *)
Fixpoint forall_range (P : Z -> bool) (start : Z) (n : nat) : bool :=
  match n with
  | O => true
  | S n' => if P start then forall_range P (start + 1) n' else false
  end.

Lemma forall_range_spec (P : Z -> bool) n : forall start,
  forall_range P start n = true -> forall z, start <= z < start + Z.of_nat n -> P z = true.
Proof.
  induction n as [|n IH]; intros start H z Hz; [lia|].
  simpl in H. destruct (P start) eqn:E; [|discriminate].
  destruct (Z.eq_dec z start) as [->|]; [exact E|]. apply (IH (start + 1)); [exact H|lia].
Qed.

(** One step of the order, the round trip and the length, checked for every
    counter value of the range. *)
Definition ctb_step_ok (a : Z) : bool :=
  bytes_leb (ctb a) (ctb (a + 1)) && negb (bytes_eqb (ctb a) (ctb (a + 1)))
  && match cfb (ctb a) with Halt z => z =? a | Fault => false end
  && (2 <=? length (ctb a))%nat && (length (ctb a) <=? 3)%nat.

Lemma ctb_steps_computed : forall_range ctb_step_ok 0 (Z.to_nat 65535) = true.
Proof. vm_cast_no_check (@eq_refl bool true). Qed.  (* evaluated once, by the kernel's VM at Qed *)

Lemma ctb_last_computed :
  cfb (ctb 65535) = Halt 65535 /\ length (ctb 65535) = 3%nat.
Proof. vm_compute. auto. Qed.

Lemma ctb_step a : 0 <= a < 65535 ->
  bytes_lt (ctb a) (ctb (a + 1)) /\ cfb (ctb a) = Halt a /\ (2 <= length (ctb a) <= 3)%nat.
Proof.
  intros Ha. pose proof (forall_range_spec _ _ _ ctb_steps_computed a ltac:(lia)) as H.
  unfold ctb_step_ok in H. repeat (apply andb_true_iff in H as [H ?]).
  apply Nat.leb_le in H0, H1.
  split; [split; [exact H|]|].
  - intros He. rewrite He, bytes_eqb_refl in H3. discriminate.
  - split; [|split; assumption]. destruct (cfb (ctb a)) as [z|]; [|discriminate].
    apply Z.eqb_eq in H2. by subst.
Qed.

(** Round trip and length on the whole range. *)
Lemma cfb_ctb a : 0 <= a <= 65535 -> cfb (ctb a) = Halt a.
Proof.
  intros Ha. destruct (Z.eq_dec a 65535) as [->|]; [apply ctb_last_computed|].
  apply ctb_step. lia.
Qed.

Lemma ctb_length a : 0 <= a <= 65535 -> (2 <= length (ctb a) <= 3)%nat.
Proof.
  intros Ha. destruct (Z.eq_dec a 65535) as [->|]; [rewrite (proj2 ctb_last_computed); lia|].
  apply ctb_step. lia.
Qed.

(** Byte order of the encodings = numeric order of the counters. *)
Lemma ctb_lt a b : 0 <= a -> a < b -> b <= 65535 -> bytes_lt (ctb a) (ctb b).
Proof.
  intros Ha Hab Hb. remember (Z.to_nat (b - a - 1)) as d eqn:Hd.
  revert b Hab Hb Hd. induction d as [|d IH]; intros b Hab Hb Hd.
  - assert (b = a + 1) as -> by lia. apply ctb_step. lia.
  - apply (bytes_lt_trans _ (ctb (b - 1))).
    + apply IH; lia.
    + replace b with (b - 1 + 1) at 2 by lia. apply ctb_step. lia.
Qed.

Lemma ctb_le_iff a b : 0 <= a <= 65535 -> 0 <= b <= 65535 ->
  bytes_leb (ctb a) (ctb b) = true <-> a <= b.
Proof.
  intros Ha Hb. split.
  - intros H. destruct (Z_le_gt_dec a b) as [|Hgt]; [assumption|].
    pose proof (bytes_lt_not_le _ _ (ctb_lt b a ltac:(lia) ltac:(lia) ltac:(lia))). congruence.
  - intros H. destruct (Z.eq_dec a b) as [->|]; [apply bytes_leb_refl|].
    apply ctb_lt; lia.
Qed.

Lemma ctb_inj a b : 0 <= a <= 65535 -> 0 <= b <= 65535 -> ctb a = ctb b -> a = b.
Proof.
  intros Ha Hb He. pose proof (cfb_ctb a Ha) as H1. rewrite He, (cfb_ctb b Hb) in H1. congruence.
Qed.

(** The range is sharp: the encoding of 65536 sorts before the encoding of
    1, and reading it back through the "last key" logic of
    AddNextEpochNodes would not find it. *)
Lemma ctb_order_breaks : bytes_lt (ctb 65536) (ctb 1) /\ ctb 65536 = [0; 0; 1]%N /\ ctb 1 = [0; 1]%N.
Proof. vm_compute. repeat split; auto. discriminate. Qed.

(** The literal shape of the encoding (documentation; by computation on
    samples around every boundary). *)
Lemma ctb_samples :
  map ctb [0; 1; 127; 128; 255; 256; 257; 32767; 32768; 65535]
  = [[0;0]; [0;1]; [0;127]; [0;128]; [0;255]; [1;0]; [1;1]; [127;255]; [128;0;0]; [255;255;0]]%N.
Proof. vm_compute. reflexivity. Qed.
