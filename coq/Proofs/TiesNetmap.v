(** Proofs/TiesNetmap.v — ties between the literals of Model/Netmap.v and
    Spec/NetmapSpec.v (properties C06, C07, C08) and the constants of
    contracts/netmap/contract.go and contracts/netmap/nodestate/type.go as
    extracted into Gen/Params.v (regenerated from /repo's working tree on every
    run).  A constant edited in the source breaks the lemma that names it.

    Named model constants (node states, DefaultSnapshotCount) are tied directly.
    Inline literals are tied through closed terms that depend on them: the
    outcome of the model's functions at a boundary value and one beyond, the
    keys a step leaves in the model's maps, the moves of the ring rotation on
    small concrete triples; the expected values are written with the source's
    constants / the integer literals of the Go function bodies
    (p_netmap_<func>_intlits, whose lengths are asserted as well, so that an
    inserted literal is noticed).  Section WithSubscribers is instantiated with
    subscribers that all exist and accept.

    Not tied, because they are constants of the platform (neo-go), not of /repo:
    - 64, the storage key limit (Netmap.key_ok);
    - 33 = interop.PublicKeyCompressedLen (Netmap.pk_len, the [33] of
      [slice 2 33] and of NetmapSpec.info_key; nodeKeyEndOffset - nodeKeyOffset
      is tied to it below through the source's own definition);
    - -128..255 and [mod 256] of a byte conversion (Netmap.ring_key), the 255
      of [append(key, num)] (nexec Subscribe: [num <=? 255]);
    - 2^255 of Prelude.int_ok (vm_sub in r_snapshot_by_epoch);
    - 65535, the storage value limit, and gas: not modelled;
    - 20 = interop.Hash160Len: a subscriber's hash is opaque to the model
      ([sub_ok] is abstract).

    Not tied, because the model abstracts them away:
    - the scalar storage keys snapshotCountKey, snapshotCurrentIDKey,
      snapshotEpoch, snapshotBlockKey (fields [count], [cur], [epoch], [eblock]
      of the state record), the bytes of snapshotKeyPrefix (the ring is a map
      keyed by the byte value of the index), of candidatePrefix,
      node2CandidatePrefix, node2NetmapPrefix, newEpochSubscribersPrefix and
      configPrefix (typed maps keyed by the suffix).  Only the LENGTHS of
      candidatePrefix, configPrefix and newEpochSubscribersPrefix occur (in the
      key-length guards) and are tied below.  What the typed maps rely on — no
      key space of the contract is a prefix of another one — is checked on the
      source's strings in [tie_key_spaces_disjoint];
    - cleanupEpochMethod and the "newEpoch"/1 of management.HasMethod: [NCall]
      carries no method name, [sub_ok] / [sub_accepts] are abstract; the model
      does assume that both are the same method ([tie_cleanup_method]);
    - the notification names "AddPeerSuccess", "AddNode", "UpdateStateSuccess",
      "NewEpoch", "NewEpochSubscription": constructors of [nnotif]; the harness
      (harness/netmap_test.go) maps the names to the constructors;
    - the literals of _deploy's configuration loop (ln%2, i*2, i*2+1): [ninit]
      takes the pairs; the update branch of _deploy (16*1000, 17000, 19000,
      byte(0), byte(1)) is contract update, not modelled here (Props/C16). *)
From Coq Require Import ZArith NArith List String.
Import ListNotations.
From Verif Require Import Base.Prelude Base.IntCodec Gen.Params Model.Netmap Spec.NetmapSpec Proofs.TiesLib.
Local Open Scope Z_scope.

(** * Helpers *)

(** The [i]-th integer literal of a Go function body. *)
Definition lit (l : list Z) (i : nat) : Z := nth i l 0.
Definition nlit (l : list Z) (i : nat) : nat := Z.to_nat (lit l i).

Definition is_halt {A} (o : outcome A) : bool := match o with Halt _ => true | Fault => false end.

(** All subscribers exist and accept; the Alphabet signs at height 7. *)
Definition okS : bytes -> bool := fun _ => true.
Definition accS : bytes -> Z -> bool := fun _ _ => true.
Definition al (w : list bytes) : nctx := mkNC w true 7.
Definition step (w : list bytes) (s : nstate) (o : nop) : nstate * bool * list nnotif := nstep okS accS s (al w, o).
Definition st_of (r : nstate * bool * list nnotif) : nstate := fst (fst r).
Definition ok_of (r : nstate * bool * list nnotif) : bool := snd (fst r).
Definition run (ops : list nop) : nstate := fold_left (fun s o => st_of (step [] s o)) ops (ninit []).

Definition D_INT : list Z := p_netmap__deploy_intlits.
Definition NE_INT : list Z := p_netmap_NewEpoch_intlits.
Definition SN_INT : list Z := p_netmap_Snapshot_intlits.
Definition US_INT : list Z := p_netmap_UpdateSnapshotCount_intlits.
Definition SUB_INT : list Z := p_netmap_SubscribeForNewEpoch_intlits.
Definition CL_INT : list Z := p_netmap_cleanup_intlits.
Definition FB_INT : list Z := p_netmap_fourBytesBE_intlits.

Definition P_CAND : bytes := bytes_of_zs p_netmap_candidatePrefix.
Definition P_CFG : bytes := bytes_of_zs p_netmap_configPrefix.
Definition P_SUB : bytes := bytes_of_string p_netmap_newEpochSubscribersPrefix.
Definition P_C2 : bytes := bytes_of_string p_netmap_node2CandidatePrefix.
Definition P_N2 : bytes := bytes_of_string p_netmap_node2NetmapPrefix.
Definition P_COUNT : Z := p_netmap_DefaultSnapshotCount.

(** * Node states (contracts/netmap/nodestate/type.go) *)

Lemma tie_Online : Online = p_nodestate_Online.
Proof. reflexivity. Qed.

Lemma tie_Offline : Offline = p_nodestate_Offline.
Proof. reflexivity. Qed.

Lemma tie_Maintenance : Maintenance = p_nodestate_Maintenance.
Proof. reflexivity. Qed.

(** ... and through updateCandidateState's switch: on a structured candidate,
    Online and Maintenance are accepted and stored, Offline removes, the values
    around the enumeration (0 = the skipped iota, Maintenance + 1) fault. *)
Definition K33 : bytes := 2%N :: repeat 7%N 32.
Definition with_node : nstate := st_of (step [K33] (ninit []) (AddNode (mkNode2 [] [] K33 p_nodestate_Online))).

Lemma tie_node_states_run :
  map (fun st => let r := step [] with_node (UpdateStateIR st K33) in
                 (ok_of r, map n2st (r_list_candidates (st_of r))))
      [p_nodestate_Online - 1; p_nodestate_Online; p_nodestate_Offline; p_nodestate_Maintenance;
       p_nodestate_Maintenance + 1] =
  [(false, [p_nodestate_Online]); (true, [p_nodestate_Online]); (true, []);
   (true, [p_nodestate_Maintenance]); (false, [p_nodestate_Online])].
Proof. vm_compute. reflexivity. Qed.

(** AddNode: [n.State != nodestate.Online] panics. *)
Lemma tie_add_node_online :
  map (fun st => ok_of (step [K33] (ninit []) (AddNode (mkNode2 [] [] K33 st))))
      [p_nodestate_Online; p_nodestate_Offline; p_nodestate_Maintenance] = [true; false; false].
Proof. vm_compute. reflexivity. Qed.

(** filterNetmap: [item.State != nodestate.Offline].  A legacy candidate put
    into Maintenance is published by the next tick, one stored as Offline
    (state written directly: the contract itself deletes such a node) is not. *)
Lemma tie_filter_netmap_offline :
  map (fun st => map nst (filter_netmap (set_cands (ninit []) {[ K33 := mkNode [] st ]})))
      [p_nodestate_Online; p_nodestate_Offline; p_nodestate_Maintenance] =
  [[p_nodestate_Online]; []; [p_nodestate_Maintenance]].
Proof. vm_compute. reflexivity. Qed.

(** * DefaultSnapshotCount and _deploy *)

Lemma tie_DefaultSnapshotCount : DefaultSnapshotCount = p_netmap_DefaultSnapshotCount.
Proof. reflexivity. Qed.

(** _deploy (not an update): [Put(snapshotEpoch, 0)], [Put(snapshotBlockKey, 0)],
    [for i := 0; i < DefaultSnapshotCount; i++] empty snapshots,
    [Put(snapshotCurrentIDKey, 0)], [Put(snapshotCountKey, DefaultSnapshotCount)]:
    the last four integer literals of the function body (Params:
    p_netmap__deploy_intlits, 19 literals) and the named constant. *)
Lemma tie_ninit :
  let s := ninit [] in
  (epoch s, eblock s, cur s, count s) = (lit D_INT 15, lit D_INT 16, lit D_INT 18, P_COUNT) /\
  map (fun i => ring s !! i) (zrange (lit D_INT 17 - 1) (P_COUNT + 1)) =
    ([None] ++ repeat (Some []) (Z.to_nat P_COUNT) ++ [None])%list /\
  length D_INT = 19%nat.
Proof. vm_compute. auto. Qed.

(** Spec/NetmapSpec.v h_init: both ghost windows start at the default count. *)
Lemma tie_h_init : (win h_init, win2 h_init) = (P_COUNT, P_COUNT).
Proof. reflexivity. Qed.

(** * Node key offsets: nodeInfo[nodeKeyOffset:nodeKeyEndOffset] *)

Definition P_OFF : nat := Z.to_nat p_netmap_nodeKeyOffset.
Definition P_END : nat := Z.to_nat p_netmap_nodeKeyEndOffset.
Definition INFO (n : nat) : bytes := map N.of_nat (seq 0 n).
Definition INFO_KEY : bytes := take (P_END - P_OFF) (drop P_OFF (INFO P_END)).

(** The [slice 2 33] of nexec AddPeerIR: an info of nodeKeyEndOffset bytes is
    the shortest accepted; the candidate is stored under bytes
    nodeKeyOffset .. nodeKeyEndOffset-1. *)
Lemma tie_node_key_offsets_AddPeerIR :
  map (fun n => skeys (cands (st_of (step [] (ninit []) (AddPeerIR (INFO n))))))
      [P_END - 1; P_END; P_END + 1]%nat = [[]; [INFO_KEY]; [INFO_KEY]].
Proof. vm_compute. reflexivity. Qed.

(** The same for AddPeer, whose witness is the sliced key. *)
Lemma tie_node_key_offsets_AddPeer :
  map (fun n => skeys (cands (st_of (step [INFO_KEY] (ninit []) (AddPeer (INFO n))))))
      [P_END - 1; P_END; P_END + 1]%nat = [[]; [INFO_KEY]; [INFO_KEY]].
Proof. vm_compute. reflexivity. Qed.

(** Spec/NetmapSpec.v info_key: the inline 35, 33, 2. *)
Lemma tie_info_key :
  map (fun n => info_key (INFO n)) [P_END - 1; P_END; P_END + 1]%nat = [None; Some INFO_KEY; Some INFO_KEY].
Proof. vm_compute. reflexivity. Qed.

(** nodeKeyEndOffset = nodeKeyOffset + interop.PublicKeyCompressedLen: the
    sliced key has the length [pk_len] asks for. *)
Lemma tie_node_key_len : pk_len INFO_KEY = true.
Proof. reflexivity. Qed.

(** * Key-length guards: the lengths of the storage prefixes *)

(** candidatePrefix = []byte("candidate"): the [key_ok 9] of add_to_netmap,
    remove_from_netmap, update_netmap_state; 64 is the platform's limit.
    (Observable on remove_from_netmap only: the other two also ask for a
    33-byte key or an existing candidate.) *)
Lemma tie_candidate_prefix_len :
  map (fun n => is_halt (remove_from_netmap (ninit []) (repeat 0%N n)))
      [64 - length P_CAND; S (64 - length P_CAND)]%nat = [true; false].
Proof. vm_compute. reflexivity. Qed.

(** node2CandidatePrefix = "2": the [key_ok 1] of remove_from_netmap and
    update_netmap_state always follows [key_ok 9] on the same key, so its
    literal cannot be observed on the model: it is redundant as long as "2" is
    not longer than "candidate". *)
(* NOT TIED: the literal 1 of [key_ok 1] (unobservable, see above). *)
Lemma tie_node2_candidate_prefix_shadowed : (length P_C2 <=? length P_CAND)%nat = true.
Proof. reflexivity. Qed.

(** configPrefix = []byte("config"): the [key_ok 6] of nexec SetConfig and of
    r_config. *)
Lemma tie_config_prefix_len_set :
  map (fun n => ok_of (step [] (ninit []) (SetConfig (repeat 0%N n) [9%N])))
      [64 - length P_CFG; S (64 - length P_CFG)]%nat = [true; false].
Proof. vm_compute. reflexivity. Qed.

Lemma tie_config_prefix_len_get :
  map (fun n => r_config (ninit []) (repeat 0%N n))
      [64 - length P_CFG; S (64 - length P_CFG)]%nat = [Halt None; Fault].
Proof. vm_compute. reflexivity. Qed.

(** fillNetmap's Put key: node2NetmapPrefix ++ fourBytesBE(epoch) ++ key.  The
    model does not guard it ("Keys of [cands2] are 33 bytes ... within the
    limit"): the claim, on the source's prefix and width. *)
Lemma tie_fill_netmap_key_fits : (length P_N2 + nlit FB_INT 0 + 33 <=? 64)%nat = true.
Proof. reflexivity. Qed.

(** * fourBytesBE: make([]byte, 4) *)

Definition P_W : nat := nlit FB_INT 0.

Lemma tie_four_bytes_be :
  map four_bytes_be [0; 1; 258; 2 ^ 31; 2 ^ 32 + 1; -1] =
  map (fun z => rev (take P_W (int_to_bytes z ++ repeat 0%N P_W))) [0; 1; 258; 2 ^ 31; 2 ^ 32 + 1; -1] /\
  length FB_INT = 1%nat.
Proof. vm_compute. auto. Qed.

(** The opcode that turns the little-endian copy around is the model's [rev]. *)
Lemma tie_four_bytes_be_reverse :
  p_netmap_fourBytesBE_strlits = ["REVERSEITEMS"%string] /\ four_bytes_be 258 = rev [2; 1; 0; 0]%N.
Proof. vm_compute. auto. Qed.

(** ... and at work: a structured candidate is published by the tick of epoch
    258 under the four-byte image of 258. *)
Lemma tie_fill_netmap_run :
  skeys (nodes2 (st_of (step [] with_node (NewEpoch 258)))) =
  [rev (take P_W (int_to_bytes 258 ++ repeat 0%N P_W))].
Proof. vm_compute. reflexivity. Qed.

(** The literal 2 ^ 32 of Props/C06.v, Props/C08.v (epochs that do not alias
    under four-byte keys): 8 bits for each of the four bytes. *)
Lemma tie_epoch_alias_bound : 2 ^ 32 = 2 ^ (8 * lit FB_INT 0).
Proof. reflexivity. Qed.

(** * NewEpoch: id = (id + 1) % snapCount *)

Lemma tie_new_epoch_next_id :
  cur (run [NewEpoch 1]) = Z.rem (lit D_INT 18 + lit NE_INT 0) P_COUNT /\
  cur (run [NewEpoch 1; NewEpoch 2]) = Z.rem (lit D_INT 18 + lit NE_INT 0 + lit NE_INT 0) P_COUNT /\
  length NE_INT = 1%nat.
Proof. vm_compute. auto. Qed.

(** * Snapshot: diff < 0 || count <= diff *)

Lemma tie_snapshot_bounds :
  map (fun d => is_halt (r_snapshot (ninit []) d))
      [lit SN_INT 0 - 1; lit SN_INT 0; P_COUNT - 1; P_COUNT] = [false; true; true; false] /\
  length SN_INT = 1%nat.
Proof. vm_compute. auto. Qed.

(** * UpdateSnapshotCount *)

(** The integer literals of the function body, in source order (Params:
    p_netmap_UpdateSnapshotCount_intlits = [0; 255; 1; 1; 1; 1; 1; 1; 1; 1]):
      0  count <= 0                     1  count >= 255
      2  lower := diff + id + 1         3  k := count - 1
      4  delStart = id+1                5  delFinish = id+1+diff
      6  start = id + 1 (K2)            7  step = id - count + 1 (K1)
      8  Put(snapshotCurrentIDKey, count-1)
      9  k := curEpoch - oldCount + 1 *)
Lemma tie_update_count_literals : length US_INT = 10%nat.
Proof. reflexivity. Qed.

(** The guards: 0 and 255 are refused, 1 and 254 accepted (from the deployed
    count 10). *)
Lemma tie_update_count_bounds :
  map (fun n => ok_of (step [] (ninit []) (UpdateSnapshotCount n)))
      [lit US_INT 0; lit US_INT 0 + 1; lit US_INT 1 - 1; lit US_INT 1] = [false; true; true; false].
Proof. vm_compute. reflexivity. Qed.

(** update_snapshot_count itself, and the bound of Props/C06.v / C08.v
    ("1 <= count s <= 254", "255 <= n"). *)
Lemma tie_update_count_bounds_fn :
  map (fun n => is_halt (update_snapshot_count (ninit []) n))
      [lit US_INT 0; lit US_INT 0 + 1; lit US_INT 1 - 1; lit US_INT 1] = [false; true; true; false] /\
  (1, 254, 255) = (lit US_INT 0 + 1, lit US_INT 1 - 1, lit US_INT 1).
Proof. vm_compute. auto. Qed.

(** DefaultSnapshotCount "must be less than 255": the deployed count is one
    that UpdateSnapshotCount itself would accept. *)
Lemma tie_default_count_in_range : (lit US_INT 0 <? P_COUNT) && (P_COUNT <? lit US_INT 1) = true.
Proof. reflexivity. Qed.

(** Enlarging 5 -> 8 at index 1 (diff = 3): the first move is (k-diff, k) for
    k = count-1, the last one for k = lower = diff+id+1. *)
Lemma tie_resize_enlarge_moves :
  resize_moves 5 8 1 = [(4, 7); (3, 6); (2, 5)] /\
  head (resize_moves 5 8 1) = Some (8 - lit US_INT 3 - 3, 8 - lit US_INT 3) /\
  last (resize_moves 5 8 1) = Some (1 + lit US_INT 2, 3 + 1 + lit US_INT 2).
Proof. vm_compute. auto. Qed.

(** Enlarging 5 -> 6 at index 1: delete [id+1, id+1+diff) (below oldCount). *)
Lemma tie_resize_enlarge_dels :
  resize_dels 5 6 1 = zrange (1 + lit US_INT 4) (1 + lit US_INT 5 + (6 - 5)) /\
  resize_dels 5 6 1 = [2].
Proof. vm_compute. auto. Qed.

(** Shrinking 6 -> 4 at index 1 < 4 ("K2"): start = id+1, step = oldCount-count. *)
Lemma tie_resize_shrink_k2 :
  resize_moves 6 4 1 = map (fun k => (k + (6 - 4), k)) (zrange (1 + lit US_INT 6) 4) /\
  resize_moves 6 4 1 = [(4, 2); (5, 3)] /\
  resize_cur 6 4 1 = 1.
Proof. vm_compute. auto. Qed.

(** Shrinking 6 -> 3 at index 4 >= 3 ("K1"): step = id-count+1, start = 0, the
    current id becomes count-1. *)
Lemma tie_resize_shrink_k1 :
  resize_moves 6 3 4 = map (fun k => (k + (4 - 3 + lit US_INT 7), k)) (zrange 0 3) /\
  resize_moves 6 3 4 = [(2, 0); (3, 1); (4, 2)] /\
  resize_cur 6 3 4 = 3 - lit US_INT 8.
Proof. vm_compute. auto. Qed.

(** The clean-up of the per-epoch lists:
    [for k := curEpoch-oldCount+1; k <= curEpoch-count; k++ { dropNetmap(k) }].
    Lists of epochs 0..7, current epoch 6, shrinking 6 -> 3: epochs 1..3 go. *)
Definition LISTS : gmap bytes (gmap bytes node2) :=
  list_to_map (map (fun k => (four_bytes_be k, (∅ : gmap bytes node2))) (zrange 0 8)).

Lemma tie_resize_lists :
  skeys (resize_lists LISTS 6 6 3) =
    map four_bytes_be
        (List.filter (fun k => negb ((6 - 6 + lit US_INT 9 <=? k) && (k <=? 6 - 3))) (zrange 0 8)) /\
  skeys (resize_lists LISTS 6 6 3) = map four_bytes_be [0; 4; 5; 6; 7].
Proof. vm_compute. auto. Qed.

(** * Subscribers *)

Definition SUB_A : bytes := repeat 5%N 20.
Definition SUB_B : bytes := repeat 6%N 20.

(** SubscribeForNewEpoch (Params: p_netmap_SubscribeForNewEpoch_intlits =
    [1; 1; 1]: HasMethod(contract, "newEpoch", 1); [1:] "1 byte is an index";
    num += 1).  The key is newEpochSubscribersPrefix ++ [num] ++ contract: the
    [key_ok 2] of nexec Subscribe is the prefix length plus the index byte
    (a [byte] variable: its width is the Go type's). *)
Lemma tie_subscribe_key_len :
  map (fun n => ok_of (step [] (ninit []) (Subscribe (repeat 5%N n))))
      [64 - length P_SUB - 1; S (64 - length P_SUB - 1)]%nat = [true; false] /\
  length SUB_INT = 3%nat.
Proof. vm_compute. auto. Qed.

(** The index of the first subscriber is the zero value of [var num byte], of
    the second one [num += 1] more. *)
Lemma tie_subscribe_index :
  skeys (subs (run [Subscribe SUB_A; Subscribe SUB_B])) =
  [0%N :: SUB_A; byte_of_z (0 + lit SUB_INT 2) :: SUB_B].
Proof. vm_compute. reflexivity. Qed.

(** [iterator.Value(it).([]byte)[1:]]: find_sub compares with the key less
    its index byte. *)
Lemma tie_subscribe_strip :
  find_sub SUB_A [9%N :: SUB_A] = Halt (bytes_eqb SUB_A (drop (nlit SUB_INT 1) (9%N :: SUB_A))) /\
  find_sub SUB_A [9%N :: SUB_A] = Halt true /\
  step [] (run [Subscribe SUB_A]) (Subscribe SUB_A) = (run [Subscribe SUB_A], true, []).
Proof. vm_compute. auto. Qed.

(** cleanup: [iterator.Value(it).([]byte)[1:]] "one byte is for number prefix"
    (Params: p_netmap_cleanup_intlits = [1]): the tick calls the stored key
    less its first byte. *)
Lemma tie_cleanup_strip :
  snd (step [] (run [Subscribe SUB_A]) (NewEpoch 1)) =
    [NCall (drop (nlit CL_INT 0) (0%N :: SUB_A)) 1; NNewEpoch 1] /\
  length CL_INT = 1%nat.
Proof. vm_compute. auto. Qed.

(** cleanupEpochMethod = "newEpoch".  [NCall] carries no method name; what the
    model assumes (Section WithSubscribers: [sub_ok h] = "has newEpoch/1",
    [sub_accepts h e] = "its newEpoch(e) returns") is that the method
    SubscribeForNewEpoch checks for is the one cleanup calls, with the one
    argument [NCall h e] carries. *)
Lemma tie_cleanup_method :
  nth 0 p_netmap_SubscribeForNewEpoch_strlits EmptyString = p_netmap_cleanupEpochMethod /\
  lit SUB_INT 0 = 1.
Proof. vm_compute. auto. Qed.

(** * The key spaces of the contract do not overlap *)

(** Model/Netmap.v keeps every key space in a component of its own ("the
    prefixes do not overlap"): a [storage.Find] by one prefix must not see
    the entries of another key space, and no two spaces may produce the same
    key.  On the source's strings: no key / prefix of the contract is a prefix
    of another one. *)
Definition key_spaces : list bytes :=
  [ bytes_of_string p_netmap_snapshotCountKey; bytes_of_string p_netmap_snapshotKeyPrefix;
    bytes_of_string p_netmap_snapshotCurrentIDKey; bytes_of_string p_netmap_snapshotEpoch;
    bytes_of_string p_netmap_snapshotBlockKey;
    bytes_of_string p_netmap_containerContractKey; bytes_of_string p_netmap_balanceContractKey;
    bytes_of_string p_netmap_switchToNotary_notaryDisabledKey;
    P_SUB; P_C2; P_N2; P_CFG; P_CAND ].

Definition no_overlap (l : list bytes) : bool :=
  forallb (fun i => forallb (fun j => (i =? j)%nat || negb (is_prefix (nth i l []) (nth j l [])))
                            (seq 0 (length l)))
          (seq 0 (length l)).

Lemma tie_key_spaces_disjoint : no_overlap key_spaces = true.
Proof. vm_compute. reflexivity. Qed.

(** The one-byte prefixes the model's header quotes ([p<...>], [e<idx><hash>],
    [2<key>]) and the lengths its guards use. *)
Lemma tie_prefix_lengths :
  (length P_SUB, length P_C2, length P_N2, length P_CFG, length P_CAND) = (1, 1, 1, 6, 9)%nat.
Proof. reflexivity. Qed.

(** * Literals in the statements of Props/C07.v *)

(** "(length info < 35)" *)
Lemma tie_c07_info_len : 35%nat = Z.to_nat p_netmap_nodeKeyEndOffset.
Proof. reflexivity. Qed.
