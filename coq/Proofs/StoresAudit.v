(** Proofs/StoresAudit.v — C20, Audit: Get and the four listings for every
    history, in terms of the accepted results. *)
From Verif Require Import Base.Prelude Base.IntCodec Model.StoreLib Model.Audit Spec.Stores
  Proofs.StoreLib.
From Coq Require Import ZifyBool ZifyNat ZifyN.
Local Open Scope Z_scope.

Notation enc := int_to_bytes.

Lemma existsb_bytes_elem (x : bytes) l : existsb (bytes_eqb x) l = true <-> x ∈ l.
Proof.
  rewrite existsb_exists. split.
  - intros (y & Hy & ->%bytes_eqb_eq). by apply elem_of_list_In.
  - intros H. exists x. split; [by apply elem_of_list_In|apply bytes_eqb_refl].
Qed.

(** An accepted Put: the header parses, the reporter is a designated Inner
    Ring key and witnesses the transaction; exactly one key is written. *)
Lemma aput_halt s ir wit raw hk s' : aput s ir wit raw hk = Halt s' ->
  exists h, parse_hdr raw = Halt h /\ h_from h ∈ ir /\ h_from h ∈ wit /\
            s' = <[aid (h_epoch h) (h_cid h) hk := raw]> s.
Proof.
  unfold aput. destruct (parse_hdr raw) as [h|]; cbn [obind]; [|discriminate].
  unfold oassert. destruct (existsb (bytes_eqb (h_from h)) wit && _) eqn:E; cbn [obind]; [|discriminate].
  apply andb_true_iff in E as [E1 E2]. apply existsb_bytes_elem in E1, E2.
  intros Hs. apply sput_halt in Hs as [-> _]. eauto 6.
Qed.

(** Get(id) = the result accepted last under exactly that id. *)
Definition aA (s : store) (l : list aentry) : Prop := forall id, s !! id = spec_aget l id.

Lemma spec_aget_snoc l x id :
  spec_aget (l ++ [x]) id = if decide (ae_id x = id) then Some (ae_raw x) else spec_aget l id.
Proof.
  unfold spec_aget. rewrite filter_app, filter_cons, filter_nil.
  destruct (decide (ae_id x = id)); [by rewrite last_snoc|by rewrite app_nil_r].
Qed.

Lemma arun_gen (P : store -> list aentry -> Prop) :
  (forall s l ir wit raw hk s' h, P s l -> aput s ir wit raw hk = Halt s' -> parse_hdr raw = Halt h ->
     P s' (l ++ [mkAE (h_epoch h) (h_cid h) (h_from h) hk raw])) ->
  forall ops s l, P s l -> P (fold_left (fun s o => fst (astep s o)) ops s) (l ++ alog_from s ops).
Proof.
  intros Hstep. induction ops as [|[ir wit raw hk] ops IH]; intros s l H.
  - cbn. by rewrite app_nil_r.
  - cbn [fold_left alog_from]. unfold astep. cbn [aexec].
    destruct (aput s ir wit raw hk) as [s'|] eqn:E; cbn [fst]; [|by apply IH].
    destruct (aput_halt _ _ _ _ _ _ E) as (h & Hh & _). rewrite Hh.
    match goal with |- P _ (l ++ ?x :: ?r) => replace (l ++ x :: r) with ((l ++ [x]) ++ r)
      by (by rewrite <- app_assoc) end.
    apply IH. eapply Hstep; eauto.
Qed.

Lemma aA_step s l ir wit raw hk s' h : aA s l -> aput s ir wit raw hk = Halt s' -> parse_hdr raw = Halt h ->
  aA s' (l ++ [mkAE (h_epoch h) (h_cid h) (h_from h) hk raw]).
Proof.
  intros H Hp Hh id.
  destruct (aput_halt _ _ _ _ _ _ Hp) as (h' & Hh' & _ & _ & ->). rewrite Hh in Hh'. injection Hh' as <-.
  rewrite spec_aget_snoc. unfold ae_id. cbn [ae_epoch ae_cid ae_hk ae_raw].
  destruct (decide (aid (h_epoch h) (h_cid h) hk = id)) as [<-|Hne].
  - by rewrite lookup_insert.
  - rewrite lookup_insert_ne by exact Hne. apply H.
Qed.

Lemma aA_run ops : aA (arun ops) (alog ops).
Proof. apply (arun_gen aA aA_step ops ∅ []). intros id. by rewrite lookup_empty. Qed.

Theorem aget_exact ops id : aget (arun ops) id = spec_aget (alog ops) id.
Proof. apply aA_run. Qed.

Lemma spec_aget_is_Some l id : is_Some (spec_aget l id) <-> exists x, x ∈ l /\ ae_id x = id.
Proof.
  unfold spec_aget. rewrite fmap_is_Some. split.
  - intros [x Hx]. apply last_Some in Hx as [l' Hl']. exists x.
    assert (Hin : x ∈ filter (fun x => ae_id x = id) l) by (rewrite Hl'; apply elem_of_app; right; left).
    by apply elem_of_list_filter in Hin as [? ?].
  - intros (x & Hin & He).
    assert (Hf : x ∈ filter (fun x => ae_id x = id) l) by (by apply elem_of_list_filter).
    destruct (filter _ l) as [|y f'] eqn:Ef using rev_ind; [by apply elem_of_nil in Hf|].
    rewrite last_snoc. eauto.
Qed.

(** Every listing = Find over a prefix of the id: exact characterisation for
    every history. *)
Theorem afind_char ops pfx id :
  id ∈ map fst (sfind pfx (arun ops)) <->
  exists x, x ∈ alog ops /\ id = ae_id x /\ is_prefix pfx (ae_id x) = true.
Proof.
  rewrite elem_of_sfind_keys, (aA_run ops id), spec_aget_is_Some. split.
  - intros [(x & Hin & <-) Hp]. eauto.
  - intros (x & Hin & -> & Hp). eauto.
Qed.

(** Exactness by the numbers under "no foreign entry has the queried
    encoding as a prefix". *)
Definition alist_epoch_ok (l : list aentry) (e : Z) : Prop :=
  forall x, x ∈ l -> ae_epoch x <> e -> is_prefix (enc e) (ae_id x) = false.
Definition alist_cid_ok (l : list aentry) (e : Z) (c : bytes) : Prop :=
  forall x, x ∈ l -> (ae_epoch x, ae_cid x) <> (e, c) -> is_prefix (enc e ++ c) (ae_id x) = false.
Definition alist_node_ok (l : list aentry) (e : Z) (c hk : bytes) : Prop :=
  forall x, x ∈ l -> (ae_epoch x, ae_cid x, ae_hk x) <> (e, c, hk) -> is_prefix (aid e c hk) (ae_id x) = false.

Theorem alist_epoch_exact_partial ops e : alist_epoch_ok (alog ops) e ->
  forall id, id ∈ alist_epoch (arun ops) e <-> exists x, x ∈ alog ops /\ ae_epoch x = e /\ id = ae_id x.
Proof.
  intros Hok id. unfold alist_epoch. rewrite afind_char. split.
  - intros (x & Hin & -> & Hp). destruct (decide (ae_epoch x = e)) as [He|Hne]; [eauto|].
    rewrite (Hok _ Hin Hne) in Hp. discriminate.
  - intros (x & Hin & <- & ->). exists x. split; [exact Hin|]. split; [reflexivity|].
    unfold ae_id, aid. apply is_prefix_refl_app.
Qed.

Theorem alist_cid_exact_partial ops e c : alist_cid_ok (alog ops) e c ->
  forall id, id ∈ alist_cid (arun ops) e c <->
             exists x, x ∈ alog ops /\ ae_epoch x = e /\ ae_cid x = c /\ id = ae_id x.
Proof.
  intros Hok id. unfold alist_cid. rewrite afind_char. split.
  - intros (x & Hin & -> & Hp). destruct (decide ((ae_epoch x, ae_cid x) = (e, c))) as [[= He Hc]|Hne]; [eauto 6|].
    rewrite (Hok _ Hin Hne) in Hp. discriminate.
  - intros (x & Hin & <- & <- & ->). exists x. split; [exact Hin|]. split; [reflexivity|].
    unfold ae_id, aid. rewrite app_assoc. apply is_prefix_refl_app.
Qed.

Theorem alist_node_exact_partial ops e c hk : alist_node_ok (alog ops) e c hk ->
  forall id, id ∈ alist_node (arun ops) e c hk <->
             exists x, x ∈ alog ops /\ ae_epoch x = e /\ ae_cid x = c /\ ae_hk x = hk /\ id = ae_id x.
Proof.
  intros Hok id. unfold alist_node. rewrite afind_char. split.
  - intros (x & Hin & -> & Hp).
    destruct (decide ((ae_epoch x, ae_cid x, ae_hk x) = (e, c, hk))) as [[= He Hc Hh]|Hne]; [eauto 7|].
    rewrite (Hok _ Hin Hne) in Hp. discriminate.
  - intros (x & Hin & <- & <- & <- & ->). exists x. split; [exact Hin|]. split; [reflexivity|].
    apply is_prefix_refl.
Qed.

(** Sufficient: all epochs of one encoding length (and container ids / node
    hashes of one length — they are SHA-256 digests). *)
Lemma alist_epoch_ok_same_len l e :
  (forall x, x ∈ l -> length (enc (ae_epoch x)) = length (enc e)) -> alist_epoch_ok l e.
Proof.
  intros H x Hin Hne. unfold ae_id, aid. apply enc_same_len_no_prefix; [congruence|]. symmetry. auto.
Qed.

Lemma is_prefix_same_len_false (a b r : bytes) :
  length a = length b -> a <> b -> is_prefix a (b ++ r) = false.
Proof.
  intros Hl Hne. destruct (is_prefix a (b ++ r)) eqn:E; [|reflexivity].
  by apply is_prefix_same_len in E.
Qed.

Lemma alist_cid_ok_same_len l e c :
  (forall x, x ∈ l -> length (enc (ae_epoch x)) = length (enc e) /\ length (ae_cid x) = length c) ->
  alist_cid_ok l e c.
Proof.
  intros H x Hin Hne. destruct (H _ Hin) as [He Hc]. unfold ae_id, aid. rewrite app_assoc.
  apply is_prefix_same_len_false; [rewrite !app_length; lia|].
  intros E. apply app_inj_1 in E as [E1 E2]; [|done]. apply int_to_bytes_inj in E1. subst. by destruct Hne.
Qed.

Lemma alist_node_ok_same_len l e c hk :
  (forall x, x ∈ l -> length (enc (ae_epoch x)) = length (enc e) /\ length (ae_cid x) = length c
                      /\ length (ae_hk x) = length hk) ->
  alist_node_ok l e c hk.
Proof.
  intros H x Hin Hne. destruct (H _ Hin) as (He & Hc & Hh). unfold ae_id.
  rewrite <- (app_nil_r (aid (ae_epoch x) _ _)).
  apply is_prefix_same_len_false; [unfold aid; rewrite !app_length; lia|].
  unfold aid. intros E. apply app_inj_1 in E as [E1 E2]; [|done].
  apply app_inj_1 in E2 as [E2 E3]; [|done]. apply int_to_bytes_inj in E1. subst. by destruct Hne.
Qed.

(** With ids of one shape the id determines the numbers. *)
Lemma aid_inj e c hk e' c' hk' :
  length c = length c' -> length hk = length hk' -> aid e c hk = aid e' c' hk' ->
  e = e' /\ c = c' /\ hk = hk'.
Proof.
  intros Hc Hh E. assert (Hl : length (enc e) = length (enc e')).
  { apply (f_equal length) in E. unfold aid in E. rewrite !app_length in E. lia. }
  unfold aid in E. apply app_inj_1 in E as [E1 E2]; [|done]. apply app_inj_1 in E2 as [E2 E3]; [|done].
  by apply int_to_bytes_inj in E1.
Qed.

(** Listings are duplicate-free and sorted. *)
Lemma alist_epoch_NoDup s e : NoDup (alist_epoch s e) /\ Sorted bytes_le (alist_epoch s e).
Proof. split; [apply NoDup_sfind_keys|apply Sorted_sfind_keys]. Qed.

(** Access. *)
Lemma astep_access s ir wit raw hk : snd (astep s (APut ir wit raw hk)) = VNull ->
  exists h, parse_hdr raw = Halt h /\ h_from h ∈ ir /\ h_from h ∈ wit.
Proof.
  unfold astep. cbn [aexec]. destruct (aput s ir wit raw hk) eqn:E; [|discriminate]. intros _.
  destruct (aput_halt _ _ _ _ _ _ E) as (h & ? & ? & ? & _). eauto.
Qed.
