(** Proofs/StoresReputation.v — C20, Reputation: what ListByEpoch / Get /
    GetByID return, for every history, in terms of the accepted puts. *)
From Verif Require Import Base.Prelude Base.IntCodec Model.StoreLib Model.Reputation Spec.Stores
  Proofs.StoreLib.
From Coq Require Import ZifyBool ZifyNat ZifyN.
Local Open Scope Z_scope.

Notation enc := int_to_bytes.

Definition rcnt (s : store) (id : bytes) : Z :=
  match s !! (rep_cnt_pfx :: id) with Some raw => bytes_to_int raw | None => 0 end.

(** An accepted put writes the counter and one fresh-numbered value key. *)
Lemma rput_halt s a e p v s' : rput s a e p v = Halt s' ->
  a = true /\
  let id := rep_id e p in
  let c := rcnt s id + 1 in
  s' = <[rep_val_pfx :: id ++ enc c := v]> (<[rep_cnt_pfx :: id := enc c]> s).
Proof.
  unfold rput, oassert. destruct a; cbn [obind]; [|discriminate]. fold (rcnt s (rep_id e p)).
  unfold vm_add. destruct (int_ok _); cbn [obind]; [|discriminate].
  destruct (sput (rep_cnt_pfx :: rep_id e p) _ s) as [s1|] eqn:E1; cbn [obind]; [|discriminate].
  intros E2. apply sput_halt in E1 as [-> _]. apply sput_halt in E2 as [-> _]. auto.
Qed.

(** * ListByEpoch: exact characterisation for every history *)

(** Counter keys present = ids of accepted puts. *)
Definition rA (s : store) (l : list (Z * bytes * bytes)) : Prop :=
  forall id, is_Some (s !! (rep_cnt_pfx :: id)) <->
             exists e p v, (e, p, v) ∈ l /\ rep_id e p = id.

Lemma rA_step s l a e p v s' : rA s l -> rput s a e p v = Halt s' -> rA s' (l ++ [(e, p, v)]).
Proof.
  intros H Hp. apply rput_halt in Hp as [_ ->]. intros id.
  rewrite lookup_insert_ne by (unfold rep_val_pfx, rep_cnt_pfx; congruence).
  destruct (decide (rep_id e p = id)) as [<-|Hne].
  - rewrite lookup_insert. split; [intros _|eauto]. exists e, p, v. split; [|reflexivity].
    apply elem_of_app. right. left.
  - rewrite lookup_insert_ne by congruence. rewrite (H id). split.
    + intros (e' & p' & v' & Hin & He). exists e', p', v'. split; [|exact He]. apply elem_of_app. by left.
    + intros (e' & p' & v' & Hin & He). apply elem_of_app in Hin as [Hin|Hin]; [eauto 6|].
      apply elem_of_list_singleton in Hin as [= -> -> ->]. done.
Qed.

Lemma rrun_gen (P : store -> list (Z * bytes * bytes) -> Prop) :
  (forall s l a e p v s', P s l -> rput s a e p v = Halt s' -> P s' (l ++ [(e, p, v)])) ->
  forall ops s l, P s l -> P (fold_left (fun s o => fst (rstep s o)) ops s) (l ++ rlog_from s ops).
Proof.
  intros Hstep. induction ops as [|[a e p v] ops IH]; intros s l H.
  - cbn. by rewrite app_nil_r.
  - cbn [fold_left rlog_from]. unfold rstep. cbn [rexec].
    destruct (rput s a e p v) as [s'|] eqn:E; cbn [fst].
    + replace (l ++ (e, p, v) :: rlog_from s' ops) with ((l ++ [(e, p, v)]) ++ rlog_from s' ops)
        by (by rewrite <- app_assoc).
      apply IH. eapply Hstep; eauto.
    + by apply IH.
Qed.

Lemma rA_run ops : rA (rrun ops) (rlog ops).
Proof.
  apply (rrun_gen rA rA_step ops ∅ []). intros id. rewrite lookup_empty. split.
  - intros [? ?]; discriminate.
  - intros (e & p & v & Hin & _). by apply elem_of_nil in Hin.
Qed.

Lemma rlist_keys s e : rlist s e = map (drop 1) (map fst (sfind (rep_cnt_pfx :: enc e) s)).
Proof. unfold rlist. by rewrite map_map. Qed.

Lemma elem_of_rlist s e id :
  id ∈ rlist s e <-> is_Some (s !! (rep_cnt_pfx :: id)) /\ is_prefix (enc e) id = true.
Proof.
  rewrite rlist_keys, elem_of_list_fmap. split.
  - intros (k & -> & [Hs Hp]%elem_of_sfind_keys). destruct k as [|x k]; [discriminate|].
    rewrite is_prefix_cons in Hp. apply andb_true_iff in Hp as [->%N.eqb_eq Hp]. cbn [drop]. auto.
  - intros [Hs Hp]. exists (rep_cnt_pfx :: id). split; [reflexivity|]. apply elem_of_sfind_keys.
    split; [exact Hs|]. by rewrite is_prefix_cons, N.eqb_refl.
Qed.

Lemma rlist_prefix1 s e : Forall (fun k => is_prefix [rep_cnt_pfx] k = true) (map fst (sfind (rep_cnt_pfx :: enc e) s)).
Proof.
  eapply Forall_impl; [apply Forall_sfind_prefix|]. intros k Hk. cbn beta in Hk.
  destruct k as [|x k]; [discriminate|]. rewrite is_prefix_cons in Hk |- *.
  apply andb_true_iff in Hk as [-> _]. apply is_prefix_nil.
Qed.

Lemma NoDup_rlist s e : NoDup (rlist s e).
Proof. rewrite rlist_keys. apply (NoDup_strip [rep_cnt_pfx]); [apply rlist_prefix1|apply NoDup_sfind_keys]. Qed.

Lemma Sorted_rlist s e : Sorted bytes_le (rlist s e).
Proof. rewrite rlist_keys. apply (Sorted_strip [rep_cnt_pfx]); [apply rlist_prefix1|apply Sorted_sfind_keys]. Qed.

(** ListByEpoch(e) returns exactly the ids of the accepted puts whose id has
    the ENCODING of [e] as a prefix — for every history. *)
Theorem rlist_char ops e id :
  id ∈ rlist (rrun ops) e <->
  exists e' p' v, (e', p', v) ∈ rlog ops /\ id = rep_id e' p' /\ is_prefix (enc e) (rep_id e' p') = true.
Proof.
  rewrite elem_of_rlist, (rA_run ops id). split.
  - intros [(e' & p' & v & Hin & <-) Hp]. eauto 7.
  - intros (e' & p' & v & Hin & -> & Hp). eauto 7.
Qed.

(** Exactness by the numbers, under the condition that no put of another
    epoch has an id with the queried encoding as a prefix. *)
Definition rlist_ok (l : list (Z * bytes * bytes)) (e : Z) : Prop :=
  forall e' p' v, (e', p', v) ∈ l -> e' <> e -> is_prefix (enc e) (rep_id e' p') = false.

Theorem rlist_exact_partial ops e : rlist_ok (rlog ops) e ->
  forall id, id ∈ rlist (rrun ops) e <-> exists p v, (e, p, v) ∈ rlog ops /\ id = rep_id e p.
Proof.
  intros Hok id. rewrite rlist_char. split.
  - intros (e' & p' & v & Hin & -> & Hp). destruct (decide (e' = e)) as [->|Hne]; [eauto|].
    rewrite (Hok _ _ _ Hin Hne) in Hp. discriminate.
  - intros (p & v & Hin & ->). exists e, p, v. split; [exact Hin|]. split; [reflexivity|].
    apply is_prefix_refl_app.
Qed.

Lemma rlist_ok_same_len l e :
  (forall e' p' v, (e', p', v) ∈ l -> length (enc e') = length (enc e)) -> rlist_ok l e.
Proof.
  intros H e' p' v Hin Hne. unfold rep_id. apply enc_same_len_no_prefix; [congruence|].
  symmetry. eauto.
Qed.

(** * Get / GetByID *)

Definition incomparable (a b : bytes) : Prop := is_prefix a b = false /\ is_prefix b a = false.

(** The condition: every accepted put is either under exactly (e, p) or has
    an id that is prefix-incomparable with the queried id. *)
Definition rget_ok (l : list (Z * bytes * bytes)) (e : Z) (p : bytes) : Prop :=
  forall e' p' v, (e', p', v) ∈ l -> (e', p') = (e, p) \/ incomparable (rep_id e p) (rep_id e' p').

Definition rkeys (id : bytes) (vals : list bytes) : list (bytes * bytes) :=
  imap (fun j v => (rep_val_pfx :: id ++ enc (Z.of_nat (S j)), v)) vals.

Definition rB (e : Z) (p : bytes) (s : store) (l : list (Z * bytes * bytes)) : Prop :=
  rget_ok l e p ->
  rcnt s (rep_id e p) = Z.of_nat (length (spec_rget l e p)) /\
  sfind (rep_val_pfx :: rep_id e p) s ≡ₚ rkeys (rep_id e p) (spec_rget l e p).

Lemma spec_rget_snoc l e p e' p' v :
  spec_rget (l ++ [(e', p', v)]) e p =
  spec_rget l e p ++ (if (e' =? e) && bytes_eqb p' p then [v] else []).
Proof. unfold spec_rget. rewrite omap_app. cbn. by destruct ((e' =? e) && bytes_eqb p' p). Qed.

Lemma rget_ok_app_l l x e p : rget_ok (l ++ [x]) e p -> rget_ok l e p.
Proof. intros H e' p' v Hin. apply (H e' p' v). apply elem_of_app. by left. Qed.

Lemma rkeys_snoc id vals v :
  rkeys id (vals ++ [v]) = rkeys id vals ++ [(rep_val_pfx :: id ++ enc (Z.of_nat (S (length vals))), v)].
Proof. unfold rkeys. rewrite imap_app. cbn. by rewrite Nat.add_0_r. Qed.

Lemma elem_of_rkeys id vals k v :
  (k, v) ∈ rkeys id vals -> exists j, (j < length vals)%nat /\ k = rep_val_pfx :: id ++ enc (Z.of_nat (S j)).
Proof.
  unfold rkeys. intros (j & v' & [= -> ->] & Hj)%elem_of_lookup_imap.
  exists j. split; [by apply lookup_lt_Some in Hj|reflexivity].
Qed.

Lemma rB_step e p s l a e' p' v s' :
  rB e p s l -> rput s a e' p' v = Halt s' -> rB e p s' (l ++ [(e', p', v)]).
Proof.
  intros HB Hp Hok. destruct (HB (rget_ok_app_l _ _ _ _ Hok)) as [Hc Hf].
  apply rput_halt in Hp as [_ ->]. cbv zeta. rewrite spec_rget_snoc.
  set (id := rep_id e p) in *. set (id' := rep_id e' p').
  set (vals := spec_rget l e p) in *.
  assert (Hcase : (e', p') = (e, p) \/ incomparable id id').
  { apply (Hok e' p' v). apply elem_of_app. right. left. }
  destruct Hcase as [[= -> ->]|[Hi1 Hi2]].
  - (* a put under exactly (e, p): the counter moves to n+1, one new value key *)
    rewrite Z.eqb_refl, bytes_eqb_refl. cbn [andb]. fold id. subst id'. fold id.
    rewrite Hc. replace (Z.of_nat (length vals) + 1) with (Z.of_nat (S (length vals))) by lia.
    split.
    + unfold rcnt. rewrite lookup_insert_ne by (unfold rep_val_pfx, rep_cnt_pfx; congruence).
      rewrite lookup_insert, bytes_to_int_to_bytes, app_length. cbn. lia.
    + rewrite rkeys_snoc, <- Permutation_cons_append.
      rewrite sfind_insert_match.
      * apply Permutation_skip. rewrite sfind_insert_nomatch; [exact Hf|reflexivity].
      * rewrite lookup_insert_ne by (unfold rep_val_pfx, rep_cnt_pfx; congruence).
        destruct (s !! _) as [x|] eqn:Ex; [|reflexivity]. exfalso.
        assert (Hin : (rep_val_pfx :: id ++ enc (Z.of_nat (S (length vals))), x)
                      ∈ sfind (rep_val_pfx :: id) s).
        { apply elem_of_sfind. split; [exact Ex|]. rewrite is_prefix_cons, N.eqb_refl. apply is_prefix_refl_app. }
        rewrite Hf in Hin. apply elem_of_rkeys in Hin as (j & Hj & [= Hk]).
        apply app_inv_head, int_to_bytes_inj in Hk. lia.
      * rewrite is_prefix_cons, N.eqb_refl. apply is_prefix_refl_app.
  - (* a put under an incomparable id: nothing under the queried id moves *)
    assert (Hne : id' <> id) by (intros E; rewrite E, is_prefix_refl in Hi1; discriminate).
    assert (Hnn : (e' =? e) && bytes_eqb p' p = false).
    { destruct ((e' =? e) && bytes_eqb p' p) eqn:E; [|reflexivity].
      apply andb_true_iff in E as [->%Z.eqb_eq ->%bytes_eqb_eq]. done. }
    rewrite Hnn, app_nil_r. split.
    + unfold rcnt. rewrite lookup_insert_ne by (unfold rep_val_pfx, rep_cnt_pfx; congruence).
      rewrite lookup_insert_ne by congruence. exact Hc.
    + rewrite sfind_insert_nomatch.
      * rewrite sfind_insert_nomatch; [exact Hf|reflexivity].
      * rewrite is_prefix_cons, N.eqb_refl. cbn [andb].
        destruct (is_prefix id (id' ++ enc (rcnt s id' + 1))) eqn:E; [|reflexivity].
        rewrite <- (app_nil_r id) in E. apply is_prefix_app_cases in E as [E|E]; congruence.
Qed.

Lemma rB_run ops e p : rB e p (rrun ops) (rlog ops).
Proof.
  apply (rrun_gen (rB e p) (rB_step e p) ops ∅ []). intros _. split; [reflexivity|].
  by rewrite sfind_empty.
Qed.

Lemma map_snd_rkeys id vals : map snd (rkeys id vals) = vals.
Proof.
  unfold rkeys. change (map snd ?l) with (snd <$> l). rewrite fmap_imap.
  change (fun (n : nat) (v : bytes) => _) with (fun (_ : nat) (v : bytes) => v).
  induction vals as [|v vals IH] using rev_ind; [reflexivity|]. rewrite imap_app, IH. reflexivity.
Qed.

(** Get(e, p) = the values put under exactly (e, p), as a multiset (the
    contract lists them in the byte order of the encoded counters). *)
Theorem rget_exact_partial ops e p : rget_ok (rlog ops) e p ->
  rget (rrun ops) e p ≡ₚ spec_rget (rlog ops) e p.
Proof.
  intros Hok. destruct (rB_run ops e p Hok) as [_ Hf]. unfold rget, rget_by_id.
  rewrite Hf. by rewrite map_snd_rkeys.
Qed.

(** Sufficient: all peers of one length, all epochs of one encoding length. *)
Lemma rget_ok_same_len l e p :
  (forall e' p' v, (e', p', v) ∈ l ->
     length (enc e') = length (enc e) /\ length p' = length p) -> rget_ok l e p.
Proof.
  intros H e' p' v Hin. destruct (H _ _ _ Hin) as [He Hp].
  destruct (decide ((e', p') = (e, p))) as [|Hne]; [by left|]. right.
  assert (Hl : length (rep_id e p) = length (rep_id e' p')) by (unfold rep_id; rewrite !app_length; lia).
  assert (G : forall a b : bytes, length a = length b -> a <> b -> is_prefix a b = false).
  { intros a b Hab Hn. destruct (is_prefix a b) eqn:E; [|reflexivity]. exfalso. apply Hn.
    rewrite <- (app_nil_r b) in E. by apply is_prefix_same_len in E. }
  assert (Hid : rep_id e p <> rep_id e' p').
  { unfold rep_id. intros E. apply app_inj_1 in E as [E1 E2]; [|done].
    apply int_to_bytes_inj in E1. subst. by destruct Hne. }
  split; apply G; congruence.
Qed.

(** Access: only the Alphabet stores reputation values. *)
Lemma rstep_alpha s a e p v : snd (rstep s (RPut a e p v)) = VNull -> a = true.
Proof.
  unfold rstep. cbn [rexec]. destruct (rput s a e p v) eqn:E; [|discriminate].
  intros _. by apply rput_halt in E as [-> _].
Qed.
