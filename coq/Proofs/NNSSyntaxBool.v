(** Proofs/NNSSyntaxBool.v — lemmas for C18, part 5: the boolean decision
    procedures of Spec/Grammar.v ([valid_nameb], [valid_Ab], [valid_AAAAb],
    [f12_shapeb], [valid_record_datab]) decide the declarative grammar.  They
    are what the correspondence check evaluates on the recorded strings (the
    monitor [MG] of cases_C18*.v).  Nothing here mentions the model. *)
From Verif Require Import Base.Prelude Model.NNSSyntax Spec.Grammar Proofs.NNSSyntaxLib
  Proofs.NNSSyntax Proofs.NNSSyntaxIP4 Proofs.NNSSyntaxIP6.
From Coq Require Import ZifyBool ZifyNat ZifyN.
Local Open Scope Z_scope.

(* ------------------------------------------------------------------ *)
(** * Names *)

Lemma label_charb_spec c : label_charb c = true <-> label_char c.
Proof. unfold label_charb, lowerb, digitb, label_char, lower, digit. lia. Qed.

Lemma lowerb_spec c : lowerb c = true <-> lower c.
Proof. unfold lowerb, lower. lia. Qed.

Lemma is45_spec o : is45 o = false <-> o <> Some 45%N.
Proof.
  destruct o as [c|]; cbn; [|split; [discriminate|reflexivity]].
  destruct (N.eqb_spec c 45); split; congruence.
Qed.

Lemma valid_labelb_spec l : valid_labelb l = true <-> valid_label l.
Proof.
  unfold valid_labelb, valid_label.
  rewrite !andb_true_iff, !negb_true_iff, !is45_spec, !Nat.leb_le.
  rewrite (forallb_Forall _ label_char) by apply label_charb_spec. tauto.
Qed.

Lemma valid_tldb_spec l : valid_tldb l = true <-> valid_tld l.
Proof.
  unfold valid_tldb, valid_tld. rewrite !andb_true_iff, valid_labelb_spec, Nat.leb_le.
  destruct (head l) as [c|].
  - rewrite lowerb_spec. split.
    + intros [[H1 H2] H3]. eauto.
    + intros (H1 & H2 & c' & [= <-] & H3). auto.
  - split; [intros [_ H]; discriminate|intros (_ & _ & c' & H & _); discriminate].
Qed.

Lemma labels_okb_spec ls :
  labels_okb ls = true <->
  exists labels tld, ls = labels ++ [tld] /\ Forall valid_label labels /\ valid_tld tld.
Proof.
  induction ls as [|l ls IH]; cbn [labels_okb].
  - split; [discriminate|]. intros (labels & tld & H & _). destruct labels; discriminate.
  - destruct ls as [|l2 ls'].
    + rewrite valid_tldb_spec. split.
      * intros H. exists [], l. repeat split; [constructor|apply H..].
      * intros (labels & tld & Heq & _ & Ht).
        destruct labels as [|? [|? ?]]; cbn in Heq; try discriminate. injection Heq as ->. exact Ht.
    + rewrite andb_true_iff, valid_labelb_spec, IH. split.
      * intros [Hl (labels & tld & Heq & HF & Ht)]. exists (l :: labels), tld.
        rewrite Heq. repeat split; [constructor; assumption|apply Ht..].
      * intros (labels & tld & Heq & HF & Ht).
        destruct labels as [|l' labels]; [discriminate|]. injection Heq as -> Heq.
        apply Forall_cons in HF as [Hl HF]. split; [assumption|]. eauto.
Qed.

Theorem valid_nameb_spec s : valid_nameb s = true <-> valid_name s.
Proof.
  unfold valid_nameb, valid_name.
  rewrite !andb_true_iff, !Nat.leb_le, labels_okb_spec, fields_split. split.
  - intros [Hl (labels & tld & Heq & HF & Ht)]. split; [lia|].
    exists labels, tld. rewrite <- Heq, join_split. auto.
  - intros (Hl & labels & tld & -> & HF & Ht). split; [lia|].
    exists labels, tld. split; [|auto].
    apply split_join; [destruct labels; discriminate|].
    apply Forall_app. split; [|constructor; [apply valid_label_nodot, Ht|constructor]].
    eapply Forall_impl; [exact HF|]. intros l Hv. apply valid_label_nodot, Hv.
Qed.

(* ------------------------------------------------------------------ *)
(** * A *)

Lemma digitb_spec c : digitb c = true <-> digit c.
Proof. unfold digitb, digit. lia. Qed.

Lemma octetb_spec f n : octetb f = Some n <-> octet f n.
Proof.
  unfold octetb, octet.
  set (nolead := match f with c :: _ :: _ => negb (c =? 48)%N | _ => true end).
  assert (Hnl : nolead = true <-> (head f = Some 48%N -> f = [48%N])).
  { subst nolead. destruct f as [|c [|d r]]; cbn.
    - split; [discriminate|reflexivity].
    - split; [intros _ [= ->]; reflexivity|reflexivity].
    - destruct (N.eqb_spec c 48) as [->|Hc]; cbn; split.
      + discriminate.
      + intros H. specialize (H eq_refl). discriminate.
      + intros _ [= ->]. congruence.
      + reflexivity. }
  destruct (negb (length f =? 0)%nat && forallb digitb f && nolead && (dec_val f <=? 255)) eqn:E.
  - rewrite !andb_true_iff, negb_true_iff, Nat.eqb_neq in E.
    destruct E as [[[Hlen HF] Hn] Hle].
    rewrite (forallb_Forall _ digit) in HF by apply digitb_spec. pose proof (proj1 Hnl Hn) as Hz.
    split.
    + intros [= <-]. repeat split; try assumption; try lia. intros ->. apply Hlen. reflexivity.
    + intros (_ & _ & _ & -> & _). reflexivity.
  - split; [discriminate|]. intros (Hne & HF & Hz & -> & Hle). exfalso.
    rewrite <- (forallb_Forall _ digit) in HF by apply digitb_spec. apply (proj2 Hnl) in Hz.
    rewrite HF, Hz in E. destruct f; [congruence|]. cbn [length Nat.eqb negb andb] in E. lia.
Qed.

Theorem valid_Ab_spec s : valid_Ab s = true <-> valid_A s.
Proof.
  unfold valid_Ab, valid_A, canonical_ipv4. rewrite fields_split. split.
  - destruct (strings_split 46 s) as [|fa [|fb [|fc [|fd [|]]]]] eqn:Es; try discriminate.
    destruct (octetb fa) as [a|] eqn:Ea; [|discriminate].
    destruct (octetb fb) as [b|] eqn:Eb; [|discriminate].
    destruct (octetb fc) as [c|] eqn:Ec; [|discriminate].
    destruct (octetb fd) as [d|] eqn:Ed; [|discriminate].
    intros Hp. apply octetb_spec in Ea, Eb, Ec, Ed. apply public4_spec in Hp.
    exists a, b, c, d. split; [|assumption].
    exists fa, fb, fc, fd. rewrite <- Es, join_split. auto.
  - intros (a & b & c & d & (fa & fb & fc & fd & -> & Ha & Hb & Hc & Hd) & Hp).
    rewrite split_join.
    + apply octetb_spec in Ha, Hb, Hc, Hd. rewrite Ha, Hb, Hc, Hd. apply public4_spec, Hp.
    + discriminate.
    + repeat constructor; apply digits_ascii; [apply Ha|apply Hb|apply Hc|apply Hd].
Qed.

(* ------------------------------------------------------------------ *)
(** * AAAA *)

Lemma side6_spec X V :
  side6 X = Some V <-> exists Y, Forall hexgroup Y /\ V = map hexval Y /\ X = side Y.
Proof.
  unfold side6. destruct X as [|x X].
  - split; [discriminate|]. intros (Y & _ & _ & H). destruct Y; discriminate.
  - destruct x as [|c x].
    + destruct X as [|x2 X].
      * split.
        -- intros [= <-]. exists []. repeat split. constructor.
        -- intros (Y & HY & -> & H). destruct Y as [|y Y]; [reflexivity|].
           cbn in H. injection H as <- <-. apply Forall_cons in HY as [[Hy _] _]. cbn in Hy. lia.
      * cbn [forallb]. change (hexgroupb []) with false. cbn [andb]. split; [discriminate|].
        intros (Y & HY & -> & H). destruct Y as [|y Y]; [discriminate|].
        cbn in H. injection H as <- _. apply Forall_cons in HY as [[Hy _] _]. cbn in Hy. lia.
    + destruct (forallb _ _) eqn:E.
      * rewrite (forallb_Forall _ hexgroup) in E by apply hexgroupb_spec. split.
        -- intros [= <-]. exists ((c :: x) :: X). auto.
        -- intros (Y & HY & -> & H). destruct Y as [|y Y]; [discriminate|].
           cbn [side] in H. rewrite H. reflexivity.
      * split; [discriminate|]. intros (Y & HY & -> & H). exfalso.
        destruct Y as [|y Y]; [discriminate|]. cbn [side] in H. rewrite <- H in HY.
        rewrite <- (forallb_Forall _ hexgroup) in HY by apply hexgroupb_spec. congruence.
Qed.

Lemma join_sides L R : Forall hexgroup L -> Forall hexgroup R ->
  join 58 (side L ++ [] :: side R) = join 58 L ++ [58; 58]%N ++ join 58 R.
Proof.
  intros GL GR. rewrite <- (join_split 58 (join 58 L ++ [58; 58]%N ++ join 58 R)).
  rewrite split_compressed by assumption. reflexivity.
Qed.

Lemma side_len Y : length (side Y) = Nat.max 1 (length Y).
Proof. destruct Y; cbn; lia. Qed.

Lemma form1_spec fs g :
  form1_6 fs = Some g <-> (length fs = 8%nat /\ Forall hexgroup fs /\ g = map hexval fs).
Proof.
  unfold form1_6. destruct ((length fs =? 8)%nat && forallb hexgroupb fs) eqn:E.
  - rewrite andb_true_iff, Nat.eqb_eq, (forallb_Forall _ hexgroup) in E by apply hexgroupb_spec.
    split; [intros [= <-]; tauto|intros (_ & _ & ->); reflexivity].
  - split; [discriminate|]. intros (H8 & HG & _). exfalso.
    rewrite <- (forallb_Forall _ hexgroup) in HG by apply hexgroupb_spec.
    rewrite HG, H8 in E. discriminate.
Qed.

Lemma take_drop_nth {A} (l : list A) : forall k x,
  nth_error l k = Some x -> l = firstn k l ++ x :: skipn (S k) l.
Proof.
  induction l as [|a l IH]; intros [|k] x H; try discriminate.
  - injection H as ->. reflexivity.
  - cbn [nth_error] in H. cbn [firstn skipn app]. f_equal. apply IH, H.
Qed.

Lemma skipn_S_app {A} (a : list A) x b : skipn (S (length a)) (a ++ x :: b) = b.
Proof. induction a as [|y a IH]; [reflexivity|exact IH]. Qed.

Lemma form2_spec fs k g :
  form2_6 fs k = Some g <->
  exists L R, Forall hexgroup L /\ Forall hexgroup R /\ (length L + length R <= 7)%nat /\
              fs = side L ++ [] :: side R /\ k = length (side L) /\
              g = map hexval L ++ repeat 0 (8 - length L - length R) ++ map hexval R.
Proof.
  unfold form2_6. split.
  - destruct (nth_error fs k) as [[|c x]|] eqn:En; try discriminate.
    destruct (side6 (firstn k fs)) as [Lv|] eqn:EL; [|discriminate].
    destruct (side6 (skipn (S k) fs)) as [Rv|] eqn:ER; [|discriminate].
    apply side6_spec in EL as (L & GL & -> & HL). apply side6_spec in ER as (R & GR & -> & HR).
    rewrite !map_length.
    destruct (length L + length R <=? 7)%nat eqn:E7; [|discriminate]. apply Nat.leb_le in E7.
    intros [= <-]. exists L, R. repeat split; try assumption.
    + rewrite <- HL, <- HR. apply take_drop_nth, En.
    + rewrite <- HL. rewrite firstn_length_le; [reflexivity|].
      apply Nat.lt_le_incl, nth_error_Some. congruence.
  - intros (L & R & GL & GR & H7 & -> & -> & ->).
    rewrite nth_error_app2 by lia. rewrite Nat.sub_diag. cbn [nth_error].
    rewrite firstn_app_exact, skipn_S_app.
    replace (side6 (side L)) with (Some (map hexval L))
      by (symmetry; apply side6_spec; eauto).
    replace (side6 (side R)) with (Some (map hexval R))
      by (symmetry; apply side6_spec; eauto).
    rewrite !map_length. replace (length L + length R <=? 7)%nat with true by lia. reflexivity.
Qed.

Theorem readings_spec s g : In g (ipv6_readings s) <-> textual_ipv6 s g.
Proof.
  unfold ipv6_readings. rewrite fields_split, in_app_iff, in_flat_map. split.
  - intros [H1|(k & Hk & H2)].
    + destruct (form1_6 (strings_split 58 s)) as [g'|] eqn:E; [|destruct H1].
      destruct H1 as [<-|[]]. apply form1_spec in E as (H8 & HG & ->).
      rewrite <- (join_split 58 s) at 1. apply T6_full; assumption.
    + destruct (form2_6 (strings_split 58 s) k) as [g'|] eqn:E; [|destruct H2].
      destruct H2 as [<-|[]]. apply form2_spec in E as (L & R & GL & GR & H7 & Hfs & _ & ->).
      rewrite <- (join_split 58 s) at 1. rewrite Hfs, join_sides by assumption.
      apply T6_compressed; assumption.
  - intros [G H8 HG|L R GL GR H7].
    + left. rewrite split_join_groups by (assumption || (destruct G; discriminate)).
      replace (form1_6 G) with (Some (map hexval G)) by (symmetry; apply form1_spec; auto).
      left. reflexivity.
    + right. rewrite split_compressed by assumption. exists (length (side L)). split.
      * apply in_seq. rewrite app_length. cbn [length]. lia.
      * replace (form2_6 (side L ++ [] :: side R) (length (side L)))
          with (Some (map hexval L ++ repeat 0 (8 - length L - length R) ++ map hexval R)).
        -- left. reflexivity.
        -- symmetry. apply form2_spec. exists L, R. auto 8.
Qed.

Theorem valid_AAAAb_spec s : valid_AAAAb s = true <-> valid_AAAA s.
Proof.
  unfold valid_AAAAb, valid_AAAA. rewrite existsb_exists. split.
  - intros (g & Hin & Hg). exists g. rewrite <- readings_spec, <- global6_spec. auto.
  - intros (g & Ht & Hg). exists g. rewrite readings_spec, global6_spec. auto.
Qed.

(* ------------------------------------------------------------------ *)
(** * The F12 shape and the record dispatch *)

Theorem f12_shapeb_spec s : f12_shapeb s = true <-> f12_shape s.
Proof.
  unfold f12_shapeb, f12_shape. rewrite fields_split. split.
  - destruct (strings_split 58 s) as [|a [|b [|c [|d [|e [|f [|g [|[|? ?] [|[|? ?] [|? ?]]]]]]]]]] eqn:Es;
      try discriminate.
    intros HG. rewrite (forallb_Forall _ hexgroup) in HG by apply hexgroupb_spec.
    exists [a; b; c; d; e; f; g]. repeat split; [assumption|].
    rewrite <- (join_split 58 s), Es.
    change [a; b; c; d; e; f; g; []; []] with ([a; b; c; d; e; f; g] ++ [[]; []]).
    rewrite join_right by discriminate. reflexivity.
  - intros (L & H7 & GL & ->).
    pose proof (split_compressed L [] GL ltac:(constructor)) as H.
    cbn [join] in H. rewrite app_nil_r in H. rewrite H.
    destruct L as [|a [|b [|c [|d [|e [|f [|g [|? ?]]]]]]]]; try discriminate.
    cbn [side app]. apply (forallb_Forall _ hexgroup); [apply hexgroupb_spec|assumption].
Qed.

Theorem valid_record_datab_spec typ data :
  valid_record_datab typ data = true <-> valid_record_data typ data.
Proof.
  unfold valid_record_datab, valid_record_data.
  destruct (Z.eqb_spec typ 1) as [->|H1].
  { rewrite valid_Ab_spec. intuition (try discriminate; try lia). }
  destruct (Z.eqb_spec typ 5) as [->|H5].
  { rewrite valid_nameb_spec. intuition (try discriminate; try lia). }
  destruct (Z.eqb_spec typ 16) as [->|H16].
  { rewrite Nat.leb_le. intuition (try discriminate; try lia). }
  destruct (Z.eqb_spec typ 28) as [->|H28].
  { rewrite valid_AAAAb_spec. intuition (try discriminate; try lia). }
  intuition (try discriminate; try lia).
Qed.
