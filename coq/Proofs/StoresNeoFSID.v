(** Proofs/StoresNeoFSID.v — C20, NeoFSID: the storage under 'o' refines a
    set of (owner, key) bindings; the fixed owner length (25) makes the
    per-owner prefix scan exact. *)
From Verif Require Import Base.Prelude Base.IntCodec Model.StoreLib Model.NeoFSID Spec.Stores
  Proofs.StoreLib.
From Coq Require Import ZifyBool ZifyNat ZifyN.

Lemma nkey_of_inj w k w' k' : length w = length w' -> nkey_of w k = nkey_of w' k' -> w = w' /\ k = k'.
Proof. unfold nkey_of. intros Hl [= He]. by apply app_inj_1. Qed.

(** Folds of inserts / deletes over a key list. *)
Lemma fold_insert_is_Some {A} (f : A -> bytes) (v : bytes) ks : forall (s : store) x,
  is_Some (fold_left (fun s k => <[f k := v]> s) ks s !! x) <->
  is_Some (s !! x) \/ exists k, k ∈ ks /\ f k = x.
Proof.
  induction ks as [|k ks IH]; intros s x; cbn [fold_left].
  - split; [auto|]. intros [H|(k & Hk & _)]; [exact H|by apply elem_of_nil in Hk].
  - rewrite IH. destruct (decide (f k = x)) as [<-|Hne].
    + rewrite lookup_insert. split; [|intros _; left; eauto].
      intros _. right. exists k. split; [left|reflexivity].
    + rewrite lookup_insert_ne by exact Hne. split.
      * intros [H|(k' & Hk' & He)]; [by left|]. right. exists k'. split; [by right|exact He].
      * intros [H|(k' & Hk' & He)]; [by left|]. apply elem_of_cons in Hk' as [->|Hk']; [done|].
        right. eauto.
Qed.

Lemma fold_delete_is_Some {A} (f : A -> bytes) ks : forall (s : store) x,
  is_Some (fold_left (fun s k => delete (f k) s) ks s !! x) <->
  is_Some (s !! x) /\ ~ exists k, k ∈ ks /\ f k = x.
Proof.
  induction ks as [|k ks IH]; intros s x; cbn [fold_left].
  - split; [intros H; split; [exact H|]|tauto]. intros (k & Hk & _). by apply elem_of_nil in Hk.
  - rewrite IH. destruct (decide (f k = x)) as [<-|Hne].
    + rewrite lookup_delete. split.
      * intros [[v Hv] _]. discriminate.
      * intros [_ Hn]. destruct Hn. exists k. split; [left|reflexivity].
    + rewrite lookup_delete_ne by exact Hne. split.
      * intros [H Hn]. split; [exact H|]. intros (k' & Hk' & He).
        apply elem_of_cons in Hk' as [->|Hk']; [done|]. apply Hn. eauto.
      * intros [H Hn]. split; [exact H|]. intros (k' & Hk' & He). apply Hn. exists k'.
        split; [by right|exact He].
Qed.

(** Guards = the acceptance predicate of the spec. *)
Lemma nguards_spec a w ks :
  nguards a w ks = if naccept (NAdd a w ks) then Halt tt else Fault.
Proof.
  unfold nguards, naccept, oassert. destruct (length w =? owner_size)%nat; cbn [obind andb]; [|reflexivity].
  match goal with |- context [forallb ?f ks] => destruct (forallb f ks) end; cbn [obind andb]; [|reflexivity].
  by destruct a.
Qed.

Lemma naccept_lens a w ks : naccept (NAdd a w ks) = true ->
  length w = owner_size /\ Forall (fun k => length k = pubkey_len) ks /\ a = true.
Proof.
  unfold naccept. intros [[H1 H2]%andb_true_iff H3]%andb_true_iff.
  apply Nat.eqb_eq in H1. split; [exact H1|]. split; [|exact H3].
  apply Forall_forall. intros k Hk. rewrite forallb_forall in H2.
  apply Nat.eqb_eq, H2. by apply elem_of_list_In.
Qed.

(** With the guards passed no [storage.Put] can fault: 1+25+33 <= 64. *)
Lemma nadd_fold w ks : length w = owner_size -> Forall (fun k => length k = pubkey_len) ks ->
  forall s, fold_left (fun acc k => s' <-! acc; sput (nkey_of w k) [1%N] s') ks (Halt s)
            = Halt (fold_left (fun s k => <[nkey_of w k := [1%N]]> s) ks s).
Proof.
  intros Hw Hks. induction Hks as [|k ks Hk Hks IH]; intros s; [reflexivity|]. cbn [fold_left obind].
  unfold sput at 2. cbn [length]. unfold nkey_of at 2. cbn [length]. rewrite app_length, Hw, Hk.
  cbn. apply IH.
Qed.

Lemma nexec_cases s o :
  nexec s o =
  if naccept o then
    match o with
    | NAdd _ w ks => Halt (fold_left (fun s k => <[nkey_of w k := [1%N]]> s) ks s)
    | NRemove _ w ks => Halt (fold_left (fun s k => delete (nkey_of w k) s) ks s)
    end
  else Fault.
Proof.
  destruct o as [a w ks|a w ks]; cbn [nexec]; unfold nadd, nremove; rewrite nguards_spec.
  - destruct (naccept (NAdd a w ks)) eqn:E; cbn [obind]; [|reflexivity].
    apply naccept_lens in E as (Hw & Hks & _). by apply nadd_fold.
  - change (naccept (NRemove a w ks)) with (naccept (NAdd a w ks)).
    by destruct (naccept (NAdd a w ks)).
Qed.

(** Refinement relation (owners of the protocol length). *)
Definition nR (s : store) (S : gset (bytes * bytes)) : Prop :=
  forall w k, length w = owner_size -> is_Some (s !! nkey_of w k) <-> (w, k) ∈ S.

Lemma elem_of_pairs (w w' k' : bytes) (ks : list bytes) :
  (w', k') ∈ (list_to_set (map (pair w) ks) : gset (bytes * bytes)) <-> w' = w /\ k' ∈ ks.
Proof.
  rewrite elem_of_list_to_set, elem_of_list_fmap. split.
  - intros (k & [= -> ->] & Hk). auto.
  - intros [-> Hk]. eauto.
Qed.

Lemma nstep_R s S o : nR s S -> nR (fst (nstep s o)) (spec_nstep S o).
Proof.
  intros H. unfold nstep, spec_nstep. rewrite nexec_cases.
  destruct (naccept o) eqn:E; [|exact H].
  destruct o as [a w ks|a w ks]; cbn [fst]; intros w' k' Hw';
    (assert (Hw : length w = owner_size) by (by apply naccept_lens in E as (? & _ & _))).
  - rewrite fold_insert_is_Some, elem_of_union, elem_of_pairs, (H w' k' Hw'). split.
    + intros [?|(k & Hk & He)]; [by left|]. right.
      apply nkey_of_inj in He as [-> ->]; [auto|congruence].
    + intros [?|[-> Hk]]; [by left|]. right. eauto.
  - rewrite fold_delete_is_Some, elem_of_difference, elem_of_pairs, (H w' k' Hw'). split.
    + intros [? Hn]. split; [done|]. intros [-> Hk]. apply Hn. eauto.
    + intros [? Hn]. split; [done|]. intros (k & Hk & He). apply Hn.
      apply nkey_of_inj in He as [-> ->]; [auto|congruence].
Qed.

Lemma nrun_R_gen ops : forall s S, nR s S ->
  nR (fold_left (fun s o => fst (nstep s o)) ops s) (fold_left spec_nstep ops S).
Proof.
  induction ops as [|o ops IH]; intros s S H; [exact H|]. cbn [fold_left]. apply IH. by apply nstep_R.
Qed.

Lemma nrun_R ops : nR (nrun ops) (spec_nrun ops).
Proof.
  apply nrun_R_gen. intros w k _. rewrite lookup_empty. split; [intros [? ?]; discriminate|].
  intros H. by apply elem_of_empty in H.
Qed.

(** [Key(owner)] under the refinement. *)
Lemma nkeys_R s S w : nR s S -> length w = owner_size ->
  exists l, nkeys s w = Halt l /\ (forall k, k ∈ l <-> (w, k) ∈ S) /\ NoDup l /\ Sorted bytes_le l.
Proof.
  intros H Hw. unfold nkeys, oassert. rewrite Hw, Nat.eqb_refl. cbn [obind].
  set (l := map _ _).
  assert (Hl : l = map fst (sfind_strip (owner_pfx :: w) s)).
  { unfold l. rewrite sfind_strip_keys, map_map. cbn [length]. by rewrite Hw. }
  exists l. split; [reflexivity|]. rewrite Hl. split; [|split].
  - intros k. rewrite elem_of_sfind_strip_keys. exact (H w k Hw).
  - apply NoDup_sfind_strip_keys.
  - apply Sorted_sfind_strip_keys.
Qed.

Lemma nkeys_badlen s w : length w <> owner_size -> nkeys s w = Fault.
Proof.
  intros Hw. unfold nkeys, oassert. destruct (Nat.eqb_spec (length w) owner_size); [done|reflexivity].
Qed.

(** Bindings are well-formed: 25-byte owners, 33-byte keys. *)
Lemma spec_nrun_wf ops w k : (w, k) ∈ spec_nrun ops -> length w = owner_size /\ length k = pubkey_len.
Proof.
  unfold spec_nrun. revert w k.
  assert (G : forall ops (S : gset (bytes * bytes)),
    (forall w k, (w, k) ∈ S -> length w = owner_size /\ length k = pubkey_len) ->
    forall w k, (w, k) ∈ fold_left spec_nstep ops S -> length w = owner_size /\ length k = pubkey_len).
  { clear ops. induction ops as [|o ops IH]; intros S HS; [exact HS|]. cbn [fold_left]. apply IH.
    intros w k. unfold spec_nstep. destruct (naccept o) eqn:E; [|apply HS].
    destruct o as [a w0 ks|a w0 ks].
    - rewrite elem_of_union, elem_of_pairs. intros [?|[-> Hk]]; [by apply HS|].
      apply naccept_lens in E as (Hw & Hks & _). split; [exact Hw|].
      rewrite Forall_forall in Hks. by apply Hks.
    - rewrite elem_of_difference. intros [? _]. by apply HS. }
  apply G. intros w k H. by apply elem_of_empty in H.
Qed.

Theorem neofsid_exact ops w :
  (length w = owner_size ->
   exists l, nkeys (nrun ops) w = Halt l /\ (forall k, k ∈ l <-> (w, k) ∈ spec_nrun ops)
             /\ NoDup l /\ Sorted bytes_le l) /\
  (length w <> owner_size -> nkeys (nrun ops) w = Fault).
Proof. split; [apply nkeys_R, nrun_R|apply nkeys_badlen]. Qed.

Lemma nstep_result s o : snd (nstep s o) = if naccept o then VNull else VFault.
Proof. unfold nstep. rewrite nexec_cases. destruct (naccept o); [by destruct o|reflexivity]. Qed.
