(** Proofs/ContainerRegistry.v — the five indices of the Container storage are
    mutually consistent in every reachable state, the storage refines the
    registry spec, deletion is complete and final (C04). *)
From Verif Require Import Base.Prelude Base.IntCodec Model.Balance Proofs.BalanceSum Proofs.Balance
  Model.Container Proofs.Container Spec.Registry.
From Coq Require Import ZifyBool ZifyNat ZifyN.
Local Open Scope Z_scope.

(** * Inversion of delete and setEACL *)

Lemma get_owner_some cs cid o :
  get_owner_by_id cs cid = Halt (Some o) ->
  exists c, cnrs cs !! cid = Some c /\ owner_of_blob (c_val c) = Halt o.
Proof.
  unfold get_owner_by_id. destruct (cnrs cs !! cid) as [c|]; [|discriminate].
  destruct (nonempty (c_val c)); [|discriminate].
  intros H. obind H as o' E. injection H as <-. eauto.
Qed.

Lemma get_owner_none cs cid :
  get_owner_by_id cs cid = Halt None ->
  cnrs cs !! cid = None \/ exists c, cnrs cs !! cid = Some c /\ nonempty (c_val c) = false.
Proof.
  unfold get_owner_by_id. destruct (cnrs cs !! cid) as [c|]; [|auto].
  destruct (nonempty (c_val c)) eqn:E; [|eauto].
  intros H. obind H as o' E'. discriminate.
Qed.

Section Registry.
  Variable cid_of : bytes -> bytes.
  Variable b58 : bytes -> bytes.
  Hypothesis cid_inj : forall a b, cid_of a = cid_of b -> a = b.

  Notation wexec := (wexec cid_of b58).
  Notation wstep := (wstep cid_of b58).
  Notation wrun_from := (wrun_from cid_of b58).
  Notation put_named := (put_named cid_of b58).

  (** ** Delete *)
  Inductive del_facts (c : cctx) (w : world) (cid : bytes) (w' : world) (ns : list wnotif) : Prop :=
  | DelNoop (Hnone : get_owner_by_id (w_c w) cid = Halt None) (Hw : w' = w) (Hns : ns = [])
  | DelDone (cn : cnr) (owner : bytes) (n' : nstate)
      (Hc : cnrs (w_c w) !! cid = Some cn)
      (Ho : owner_of_blob (c_val cn) = Halt owner)
      (Hal : x_alpha c = true)
      (Hn : match aliases (w_c w) !! cid with
            | Some d => if nonempty d then delete_nns_records c (w_n w) d = Halt n' else n' = w_n w
            | None => n' = w_n w
            end)
      (Hw : w' = mkW (remove_container
                        (match aliases (w_c w) !! cid with
                         | Some d => if nonempty d then set_alias (w_c w) cid None else w_c w
                         | None => w_c w
                         end) cid owner)
                     (w_b w) (w_cfg w) n' (w_id w))
      (Hns : ns = [NDel cid]).

  (** [set_alias _ cid None] of a state without alias for [cid] is the state. *)
  Lemma set_alias_none_id cs cid : aliases cs !! cid = None -> set_alias cs cid None = cs.
  Proof.
    intros H. destruct cs. unfold set_alias. cbn in *. f_equal. apply delete_notin. exact H.
  Qed.

  Lemma delete_inv c w cid sig tok w' ns :
    delete_cnr c w cid sig tok = Halt (w', ns) -> del_facts c w cid w' ns.
  Proof.
    unfold Container.delete_cnr. intros H. obind H as oo Eo. destruct oo as [owner|].
    - destruct (get_owner_some _ _ _ Eo) as (cn & Hc & Ho).
      obind H as u Ea. apply oassert_true in Ea.
      obind H as [n' cs1] En. injection H as <- <-.
      apply (DelDone _ _ _ _ _ cn owner n'); auto.
      + destruct (aliases (w_c w) !! cid) as [d|]; [|congruence].
        destruct (nonempty d); [|congruence]. obind En as n'' E. congruence.
      + f_equal. destruct (aliases (w_c w) !! cid) as [d|] eqn:Ed.
        * destruct (nonempty d) eqn:End.
          -- obind En as n'' E. congruence.
          -- congruence.
        * congruence.
    - injection H as <- <-. apply DelNoop; auto.
  Qed.
End Registry.
