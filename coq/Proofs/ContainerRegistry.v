(** Proofs/ContainerRegistry.v — the five indices of the Container storage are
    mutually consistent in every reachable state, the storage refines the
    registry spec, deletion is complete and final (C04). *)
From Verif Require Import Base.Prelude Base.IntCodec Model.Balance Proofs.BalanceSum Proofs.Balance
  Model.Container Proofs.Container Spec.Registry.
From Coq Require Import ZifyBool ZifyNat ZifyN.
Local Open Scope Z_scope.

(** * Inversion of delete and setEACL *)

Lemma get_owner_some cs cid o :
  get_owner_by_id cs cid = Halt (Some o) ->
  exists c, cnrs cs !! cid = Some c /\ owner_of_blob (c_val c) = Halt o.
Proof.
  unfold get_owner_by_id. destruct (cnrs cs !! cid) as [c|]; [|discriminate].
  destruct (nonempty (c_val c)); [|discriminate].
  intros H. obind H as o' E. injection H as <-. eauto.
Qed.

Lemma get_owner_none cs cid :
  get_owner_by_id cs cid = Halt None ->
  cnrs cs !! cid = None \/ exists c, cnrs cs !! cid = Some c /\ nonempty (c_val c) = false.
Proof.
  unfold get_owner_by_id. destruct (cnrs cs !! cid) as [c|]; [|auto].
  destruct (nonempty (c_val c)) eqn:E; [|eauto].
  intros H. obind H as o' E'. discriminate.
Qed.

Section Registry.
  Variable cid_of : bytes -> bytes.
  Variable b58 : bytes -> bytes.
  Hypothesis cid_inj : forall a b, cid_of a = cid_of b -> a = b.

  Notation wexec := (wexec cid_of b58).
  Notation wstep := (wstep cid_of b58).
  Notation wrun_from := (wrun_from cid_of b58).
  Notation put_named := (put_named cid_of b58).

  (** ** Delete *)
  Inductive del_facts (c : cctx) (w : world) (cid : bytes) (w' : world) (ns : list wnotif) : Prop :=
  | DelNoop (Hnone : get_owner_by_id (w_c w) cid = Halt None) (Hw : w' = w) (Hns : ns = [])
  | DelDone (cn : cnr) (owner : bytes) (n' : nstate)
      (Hc : cnrs (w_c w) !! cid = Some cn)
      (Ho : owner_of_blob (c_val cn) = Halt owner)
      (Hal : x_alpha c = true)
      (Hn : match aliases (w_c w) !! cid with
            | Some d => if nonempty d then delete_nns_records c (w_n w) d = Halt n' else n' = w_n w
            | None => n' = w_n w
            end)
      (Hw : w' = mkW (remove_container
                        (match aliases (w_c w) !! cid with
                         | Some d => if nonempty d then set_alias (w_c w) cid None else w_c w
                         | None => w_c w
                         end) cid owner)
                     (w_b w) (w_cfg w) n' (w_id w))
      (Hns : ns = [NDel cid]).

  (** [set_alias _ cid None] of a state without alias for [cid] is the state. *)
  Lemma set_alias_none_id cs cid : aliases cs !! cid = None -> set_alias cs cid None = cs.
  Proof.
    intros H. destruct cs. unfold set_alias. cbn in *. f_equal. apply delete_notin. exact H.
  Qed.

  Lemma delete_inv c w cid sig tok w' ns :
    delete_cnr c w cid sig tok = Halt (w', ns) -> del_facts c w cid w' ns.
  Proof.
    unfold Container.delete_cnr. intros H. obind H as oo Eo. destruct oo as [owner|].
    - destruct (get_owner_some _ _ _ Eo) as (cn & Hc & Ho).
      obind H as u Ea. apply oassert_true in Ea.
      obind H as [n' cs1] En. injection H as <- <-.
      apply (DelDone _ _ _ _ _ cn owner n'); auto.
      + destruct (aliases (w_c w) !! cid) as [d|]; [|congruence].
        destruct (nonempty d); [|congruence]. obind En as n'' E. congruence.
      + f_equal. destruct (aliases (w_c w) !! cid) as [d|] eqn:Ed.
        * destruct (nonempty d) eqn:End.
          -- obind En as n'' E. congruence.
          -- congruence.
        * congruence.
    - injection H as <- <-. apply DelNoop; auto.
  Qed.

  (** ** SetEACL *)
  Inductive eacl_facts (c : cctx) (w : world) (e sig pub tok : bytes) (w' : world)
      (ns : list wnotif) : Prop :=
  | EaclDone (cid : bytes) (cn : cnr) (owner : bytes)
      (Hcid : eacl_cid e = Some cid)
      (Hc : cnrs (w_c w) !! cid = Some cn)
      (Ho : owner_of_blob (c_val cn) = Halt owner)
      (Hal : x_alpha c = true)
      (Hpub : length pub = 33%nat)
      (Hw : w' = mkW (set_eacl_rec (w_c w) cid (mkCnr e sig pub tok)) (w_b w) (w_cfg w) (w_n w) (w_id w))
      (Hns : ns = [NEacl cid pub]).

  Lemma set_eacl_inv c w e sig pub tok w' ns :
    set_eacl c w e sig pub tok = Halt (w', ns) -> eacl_facts c w e sig pub tok w' ns.
  Proof.
    unfold Container.set_eacl. intros H. obind H as v Ev. obind H as cid Ec. obind H as oo Eo.
    destruct oo as [owner|]; [|discriminate].
    destruct (get_owner_some _ _ _ Eo) as (cn & Hc & Ho).
    obind H as u Ea. apply oassert_true in Ea. obind H as u2 Ep. apply oassert_true in Ep.
    apply Nat.eqb_eq in Ep. injection H as <- <-.
    apply (EaclDone _ _ _ _ _ _ _ _ cid cn owner); auto.
    unfold eacl_cid. rewrite Ev, Ec. reflexivity.
  Qed.

  (** ** The consistency invariant of the six indices *)
  Definition owner_is (c : cnr) (o : bytes) : Prop := owner_of_blob (c_val c) = Halt o.

  Record CInv (cs : cstate) : Prop := {
    ci_cnr : forall cid c, cnrs cs !! cid = Some c ->
             cid = cid_of (c_val c) /\ exists o, owner_is c o /\ oidx cs !! (o ++ cid) = Some cid;
    ci_idx : forall k v : bytes, oidx cs !! k = Some v ->
             exists c o, cnrs cs !! v = Some c /\ owner_is c o /\ k = o ++ v;
    ci_dead : forall cid, cid ∈ tomb cs -> cnrs cs !! cid = None;
    ci_eacl : forall cid e, eacls cs !! cid = Some e -> is_Some (cnrs cs !! cid);
    ci_alias : forall (cid d : bytes), aliases cs !! cid = Some d ->
               is_Some (cnrs cs !! cid) /\ nonempty d = true;
    ci_meta : forall cid, cid ∈ metas cs -> is_Some (cnrs cs !! cid)
  }.

  Lemma CInv_init root : CInv (cinit root).
  Proof.
    split; unfold cinit; cbn; intros *; try rewrite lookup_empty; try discriminate;
      try (intros H; apply elem_of_empty in H; contradiction).
  Qed.

  Lemma owner_key_inj (o1 c1 o2 c2 : bytes) :
    length o1 = 25%nat -> length o2 = 25%nat -> o1 ++ c1 = o2 ++ c2 -> o1 = o2 /\ c1 = c2.
  Proof. intros H1 H2 H. apply app_inj_1; congruence. Qed.

  Lemma owner_is_len c o : owner_is c o -> length o = 25%nat.
  Proof. apply owner_of_blob_length. Qed.

  Lemma owner_is_fun c o1 o2 : owner_is c o1 -> owner_is c o2 -> o1 = o2.
  Proof. unfold owner_is. congruence. Qed.

  (** [addContainer] (possibly after [PutMeta] has set the flag of the same id). *)
  Lemma CInv_add cs cs0 blob o c' :
    CInv cs ->
    cnrs cs0 = cnrs cs -> oidx cs0 = oidx cs -> tomb cs0 = tomb cs -> eacls cs0 = eacls cs ->
    aliases cs0 = aliases cs ->
    (forall x, x ∈ metas cs0 -> x ∈ metas cs \/ x = cid_of blob) ->
    owner_of_blob blob = Halt o -> c_val c' = blob -> cid_of blob ∉ tomb cs ->
    CInv (add_container cs0 (cid_of blob) o c').
  Proof.
    intros [I1 I2 I3 I4 I5 I6] Ec Eo Et Ee Ea Hm Ho Hv Hnd.
    set (cid := cid_of blob) in *.
    assert (Hol : length o = 25%nat) by (eapply owner_of_blob_length; eauto).
    split; unfold add_container; cbn [cnrs oidx tomb eacls aliases metas]; rewrite ?Ec, ?Eo, ?Et, ?Ee, ?Ea.
    - intros k c Hk. destruct (decide (k = cid)) as [->|Hne].
      + rewrite lookup_insert in Hk. injection Hk as <-. split; [rewrite Hv; reflexivity|].
        exists o. split; [unfold owner_is; rewrite Hv; exact Ho|]. apply lookup_insert.
      + rewrite lookup_insert_ne in Hk by congruence.
        destruct (I1 _ _ Hk) as (Hcid & o0 & Ho0 & Hi). split; [exact Hcid|].
        exists o0. split; [exact Ho0|]. rewrite lookup_insert_ne; [exact Hi|].
        intros Heq. apply owner_key_inj in Heq as [_ Heq]; [congruence|exact Hol|eapply owner_is_len; eauto].
    - intros k v Hk. destruct (decide (k = o ++ cid)) as [->|Hne].
      + rewrite lookup_insert in Hk. injection Hk as <-. exists c', o.
        rewrite lookup_insert. split; [reflexivity|]. split; [unfold owner_is; rewrite Hv; exact Ho|reflexivity].
      + rewrite lookup_insert_ne in Hk by congruence.
        destruct (I2 _ _ Hk) as (c0 & o0 & Hc0 & Ho0 & ->).
        destruct (decide (v = cid)) as [->|Hv'].
        * exfalso. destruct (I1 _ _ Hc0) as (Hcid & _). apply cid_inj in Hcid.
          unfold owner_is in Ho0. rewrite <- Hcid in Ho0. rewrite Ho in Ho0. injection Ho0 as <-.
          congruence.
        * exists c0, o0. rewrite lookup_insert_ne by congruence. auto.
    - intros k Hk. rewrite lookup_insert_ne; [apply I3; exact Hk|]. intros <-. contradiction.
    - intros k e Hk. apply lookup_insert_is_Some'. right. eapply I4; eauto.
    - intros k d Hk. destruct (I5 _ _ Hk) as [Hs Hd]. split; [|exact Hd].
      apply lookup_insert_is_Some'. right. exact Hs.
    - intros k Hk. apply lookup_insert_is_Some'. destruct (Hm _ Hk) as [Hk' | ->]; [right; eapply I6; eauto|left; reflexivity].
  Qed.

  Lemma CInv_set_alias cs cid d :
    CInv cs -> is_Some (cnrs cs !! cid) -> nonempty d = true -> CInv (set_alias cs cid (Some d)).
  Proof.
    intros [I1 I2 I3 I4 I5 I6] Hs Hd. split; unfold set_alias; cbn [cnrs oidx tomb eacls aliases metas]; auto.
    intros k d' Hk. destruct (decide (k = cid)) as [->|Hne].
    - rewrite lookup_insert in Hk. injection Hk as <-. auto.
    - rewrite lookup_insert_ne in Hk by congruence. eauto.
  Qed.

  Lemma CInv_set_eacl cs cid e :
    CInv cs -> is_Some (cnrs cs !! cid) -> CInv (set_eacl_rec cs cid e).
  Proof.
    intros [I1 I2 I3 I4 I5 I6] Hs. split; unfold set_eacl_rec; cbn [cnrs oidx tomb eacls aliases metas]; auto.
    intros k e' Hk. destruct (decide (k = cid)) as [->|Hne]; [exact Hs|].
    rewrite lookup_insert_ne in Hk by congruence. eauto.
  Qed.

  (** [removeContainer] after the alias marker has been dropped. *)
  Lemma CInv_remove cs cs1 cid cn owner :
    CInv cs -> cnrs cs !! cid = Some cn -> owner_is cn owner ->
    cnrs cs1 = cnrs cs -> oidx cs1 = oidx cs -> tomb cs1 = tomb cs -> eacls cs1 = eacls cs ->
    metas cs1 = metas cs -> aliases cs1 = delete cid (aliases cs) ->
    CInv (remove_container cs1 cid owner).
  Proof.
    intros [I1 I2 I3 I4 I5 I6] Hc Ho Ec Eo Et Ee Em Ea.
    assert (Hol : length owner = 25%nat) by (eapply owner_is_len; eauto).
    split; unfold remove_container; cbn [cnrs oidx tomb eacls aliases metas]; rewrite ?Ec, ?Eo, ?Et, ?Ee, ?Ea, ?Em.
    - intros k c Hk. apply lookup_delete_Some in Hk as [Hne Hk].
      destruct (I1 _ _ Hk) as (Hcid & o0 & Ho0 & Hi). split; [exact Hcid|].
      exists o0. split; [exact Ho0|]. rewrite lookup_delete_ne; [exact Hi|].
      intros Heq. apply owner_key_inj in Heq as [_ Heq]; [congruence|exact Hol|eapply owner_is_len; eauto].
    - intros k v Hk. apply lookup_delete_Some in Hk as [Hne Hk].
      destruct (I2 _ _ Hk) as (c0 & o0 & Hc0 & Ho0 & ->).
      destruct (decide (v = cid)) as [->|Hv'].
      + exfalso. pose proof (eq_trans (eq_sym Hc) Hc0) as Heq. injection Heq as <-.
        rewrite (owner_is_fun _ _ _ Ho Ho0) in Hne. congruence.
      + exists c0, o0. rewrite lookup_delete_ne by congruence. auto.
    - intros k Hk. apply elem_of_union in Hk as [Hk|Hk].
      + apply elem_of_singleton in Hk as ->. apply lookup_delete.
      + apply lookup_delete_None. right. apply I3. exact Hk.
    - intros k e Hk. apply lookup_delete_Some in Hk as [Hne Hk].
      rewrite lookup_delete_ne by congruence. eauto.
    - intros k d Hk. apply lookup_delete_Some in Hk as [Hne Hk].
      rewrite lookup_delete_ne by congruence. eauto.
    - intros k Hk. apply elem_of_difference in Hk as [Hk Hne].
      rewrite lookup_delete_ne; [eauto|]. intros <-. apply Hne. apply elem_of_singleton. reflexivity.
  Qed.

  (** ** Every invocation preserves the invariant *)

  Lemma domain_nonempty cs name zone : nonempty (domain_of cs name zone) = true.
  Proof. unfold domain_of. destruct name; reflexivity. Qed.

  (** The container state after a successful put, as a function of the pre-state. *)
  Definition put_state (cs : cstate) (blob owner : bytes) (c' : cnr) (nm : option bytes)
      (meta : bool) : cstate :=
    let cid := cid_of blob in
    let cs0 := if meta then set_meta cs cid else cs in
    let cs1 := add_container cs0 cid owner c' in
    match nm with Some d => set_alias cs1 cid (Some d) | None => cs1 end.

  Definition name_opt (root name zone : bytes) : option bytes :=
    if nonempty name then Some (name ++ dot :: (if nonempty zone then zone else root)) else None.

  Lemma put_state_eq c w o blob sig pub tok name zone w' r ns :
    put_shape o = Some (blob, sig, pub, tok, name, zone) ->
    wexec c w o = Halt (w', r, ns) ->
    exists owner, owner_of_blob blob = Halt owner /\ cid_of blob ∉ tomb (w_c w) /\
      w_c w' = put_state (w_c w) blob owner (mkCnr blob sig pub tok)
                 (name_opt (nroot (w_c w)) name zone) (meta_flag o).
  Proof.
    intros Hs H. destruct (wexec_put _ _ _ _ _ _ _ _ _ _ _ _ _ _ Hs H) as [_ Hp].
    destruct (put_named_inv _ _ _ _ _ _ _ _ _ _ _ _ Hp)
      as [owner fee0 fee b' bns n' id' need Hown Hdead _ _ _ _ _ _ _ _ _ _ Hw _].
    rewrite pre_put_tomb in Hdead.
    exists owner. split; [exact Hown|]. split; [exact Hdead|]. subst w'. cbn [w_c].
    unfold put_state, name_opt, domain_of. rewrite pre_put_nroot. unfold pre_put.
    destruct (meta_flag o), (nonempty name); reflexivity.
  Qed.

  Lemma CInv_put_state cs blob owner c' nm meta :
    CInv cs -> owner_of_blob blob = Halt owner -> c_val c' = blob -> cid_of blob ∉ tomb cs ->
    (forall d, nm = Some d -> nonempty d = true) ->
    CInv (put_state cs blob owner c' nm meta).
  Proof.
    intros HI Ho Hv Hd Hnm. unfold put_state.
    assert (H1 : CInv (add_container (if meta then set_meta cs (cid_of blob) else cs) (cid_of blob) owner c')).
    { apply (CInv_add cs); auto; destruct meta; try reflexivity.
      - cbn [set_meta metas]. intros x Hx. apply elem_of_union in Hx as [Hx|Hx]; [right|left; exact Hx].
        apply elem_of_singleton in Hx. exact Hx.
      - auto. }
    destruct nm as [d|]; [|exact H1].
    apply CInv_set_alias; [exact H1| |auto].
    unfold add_container. cbn [cnrs]. rewrite lookup_insert. eauto.
  Qed.

  Lemma name_opt_nonempty root name zone d : name_opt root name zone = Some d -> nonempty d = true.
  Proof.
    unfold name_opt. destruct (nonempty name) eqn:E; [|discriminate]. intros [= <-].
    destruct name; [discriminate|reflexivity].
  Qed.

  (** The container state after a successful delete of a live container. *)
  Definition del_state (cs : cstate) (cid owner : bytes) : cstate :=
    remove_container (set_alias cs cid None) cid owner.

  Lemma del_state_eq c w cid sig tok w' ns :
    CInv (w_c w) ->
    delete_cnr c w cid sig tok = Halt (w', ns) ->
    (cnrs (w_c w) !! cid = None /\ w' = w /\ ns = []) \/
    (exists cn owner, cnrs (w_c w) !! cid = Some cn /\ owner_is cn owner /\ x_alpha c = true /\
       w_c w' = del_state (w_c w) cid owner /\ ns = [NDel cid] /\
       w_b w' = w_b w /\ w_cfg w' = w_cfg w /\ w_id w' = w_id w /\
       match aliases (w_c w) !! cid with
       | Some d => delete_nns_records c (w_n w) d = Halt (w_n w')
       | None => w_n w' = w_n w
       end).
  Proof.
    intros HI H. destruct (delete_inv _ _ _ _ _ _ _ H) as [Hn -> ->|cn owner n' Hc Ho Hal Hn Hw Hns].
    - left. split; [|auto]. apply get_owner_none in Hn as [Hn|(c0 & Hc0 & He)]; [exact Hn|].
      exfalso. destruct (ci_cnr _ HI _ _ Hc0) as (_ & o & Ho & _).
      apply owner_blob_nonempty in Ho. congruence.
    - right. exists cn, owner. subst w'. cbn [w_c w_b w_cfg w_id w_n].
      split; [exact Hc|]. split; [exact Ho|]. split; [exact Hal|].
      destruct (aliases (w_c w) !! cid) as [d|] eqn:Ed.
      + destruct (ci_alias _ HI _ _ Ed) as [_ Hd]. rewrite Hd in Hn |- *. auto 10.
      + unfold del_state. rewrite set_alias_none_id by exact Ed. auto 10.
  Qed.

  Lemma CInv_del_state cs cid cn owner :
    CInv cs -> cnrs cs !! cid = Some cn -> owner_is cn owner -> CInv (del_state cs cid owner).
  Proof.
    intros HI Hc Ho. unfold del_state. eapply (CInv_remove cs); eauto.
  Qed.

  Lemma wexec_other c w o w' r ns :
    put_shape o = None -> (forall cid s t, o <> Delete cid s t) -> (forall e s p t, o <> SetEACL e s p t) ->
    wexec c w o = Halt (w', r, ns) -> w_c w' = w_c w /\ (forall n, In n ns -> exists b, n = NBal b).
  Proof.
    intros Hs Hd He H. destruct o; try discriminate; cbn [Container.wexec] in H.
    - exfalso. eapply Hd; eauto.
    - exfalso. eapply He; eauto.
    - obind H as [[b' r'] ns'] E. injection H as <- _ <-. split; [reflexivity|].
      intros n Hn. apply in_map_iff in Hn as (b & <- & _). eauto.
    - obind H as u E. injection H as <- _ <-. split; [reflexivity|]. intros n [].
    - obind H as [n' r'] E. injection H as <- _ <-. split; [reflexivity|]. intros n [].
    - obind H as n' E. injection H as <- _ <-. split; [reflexivity|]. intros n [].
    - obind H as n' E. injection H as <- _ <-. split; [reflexivity|]. intros n [].
  Qed.

  Lemma wexec_CInv c w o w' r ns :
    CInv (w_c w) -> wexec c w o = Halt (w', r, ns) ->
    CInv (w_c w') /\ nroot (w_c w') = nroot (w_c w).
  Proof.
    intros HI H. destruct (put_shape o) as [[[[[[blob sig] pub] tok] name] zone]|] eqn:Hs.
    { destruct (put_state_eq _ _ _ _ _ _ _ _ _ _ _ _ Hs H) as (owner & Ho & Hd & ->). split.
      - apply CInv_put_state; auto. intros d. apply name_opt_nonempty.
      - unfold put_state. destruct (name_opt _ _ _), (meta_flag o); reflexivity. }
    destruct o; try discriminate.
    - cbn [Container.wexec] in H. obind H as [w1 ns1] E. injection H as <- _ _.
      destruct (del_state_eq _ _ _ _ _ _ _ HI E) as [(_ & -> & _)|(cn & owner & Hc & Ho & _ & -> & _)]; [auto|].
      split; [eapply CInv_del_state; eauto|reflexivity].
    - cbn [Container.wexec] in H. obind H as [w1 ns1] E. injection H as <- _ _.
      destruct (set_eacl_inv _ _ _ _ _ _ _ _ E) as [cid cn owner _ Hc _ _ _ -> _]. cbn [w_c].
      split; [apply CInv_set_eacl; eauto|reflexivity].
    - destruct (wexec_other _ _ _ _ _ _ Hs ltac:(discriminate) ltac:(discriminate) H) as [-> _]. auto.
    - destruct (wexec_other _ _ _ _ _ _ Hs ltac:(discriminate) ltac:(discriminate) H) as [-> _]. auto.
    - destruct (wexec_other _ _ _ _ _ _ Hs ltac:(discriminate) ltac:(discriminate) H) as [-> _]. auto.
    - destruct (wexec_other _ _ _ _ _ _ Hs ltac:(discriminate) ltac:(discriminate) H) as [-> _]. auto.
    - destruct (wexec_other _ _ _ _ _ _ Hs ltac:(discriminate) ltac:(discriminate) H) as [-> _]. auto.
  Qed.

  Lemma wstep_CInv w co :
    CInv (w_c w) -> CInv (w_c (fst (fst (wstep w co)))) /\
                    nroot (w_c (fst (fst (wstep w co)))) = nroot (w_c w).
  Proof.
    intros HI. destruct (wstep_cases cid_of b58 w co) as [(w' & r & ns & He & ->)|(_ & ->)]; [|auto].
    cbn [fst]. eapply wexec_CInv; eauto.
  Qed.

  Lemma wrun_CInv w ops :
    CInv (w_c w) -> CInv (w_c (wrun_from w ops)) /\ nroot (w_c (wrun_from w ops)) = nroot (w_c w).
  Proof.
    unfold Container.wrun_from. revert w. induction ops as [|co ops IH]; intros w HI; [auto|].
    cbn [fold_left]. destruct (wstep_CInv w co HI) as [H1 H2].
    destruct (IH _ H1) as [H3 H4]. split; [exact H3|congruence].
  Qed.

  (** ** Abstraction to the registry spec *)

  Definition info_of (cs : cstate) (cid : bytes) (c : cnr) : info :=
    mkInfo c (eacls cs !! cid) (aliases cs !! cid) (bool_decide (cid ∈ metas cs)).

  Definition abs (cs : cstate) : registry :=
    mkReg (map_imap (fun cid c => Some (info_of cs cid c)) (cnrs cs)) (tomb cs).

  Lemma abs_live cs k : live (abs cs) !! k = info_of cs k <$> (cnrs cs !! k).
  Proof.
    unfold abs. cbn [live]. rewrite map_lookup_imap. destruct (cnrs cs !! k); reflexivity.
  Qed.

  Lemma CInv_dead_satellites cs cid :
    CInv cs -> cnrs cs !! cid = None ->
    eacls cs !! cid = None /\ aliases cs !! cid = None /\ cid ∉ metas cs.
  Proof.
    intros HI Hn. repeat split.
    - destruct (eacls cs !! cid) as [e|] eqn:E; [|reflexivity].
      destruct (ci_eacl _ HI _ _ E) as [x Hx]. congruence.
    - destruct (aliases cs !! cid) as [d|] eqn:E; [|reflexivity].
      destruct (ci_alias _ HI _ _ E) as [[x Hx] _]. congruence.
    - intros Hm. destruct (ci_meta _ HI _ Hm) as [x Hx]. congruence.
  Qed.

  Lemma abs_put cs blob owner c' nm meta :
    CInv cs ->
    abs (put_state cs blob owner c' nm meta) = reg_put (abs cs) (cid_of blob) c' nm meta.
  Proof.
    intros HI. set (cid := cid_of blob).
    assert (Hc : cnrs (put_state cs blob owner c' nm meta) = <[cid := c']> (cnrs cs)).
    { unfold put_state. destruct nm, meta; reflexivity. }
    assert (He : eacls (put_state cs blob owner c' nm meta) = eacls cs).
    { unfold put_state. destruct nm, meta; reflexivity. }
    assert (Ha : aliases (put_state cs blob owner c' nm meta) =
                 match nm with Some d => <[cid := d]> (aliases cs) | None => aliases cs end).
    { unfold put_state. destruct nm, meta; reflexivity. }
    assert (Hm : metas (put_state cs blob owner c' nm meta) =
                 if meta then {[cid]} ∪ metas cs else metas cs).
    { unfold put_state. destruct nm, meta; reflexivity. }
    assert (Ht : tomb (put_state cs blob owner c' nm meta) = tomb cs).
    { unfold put_state. destruct nm, meta; reflexivity. }
    unfold reg_put. unfold abs at 1. rewrite Ht. f_equal.
    apply map_eq. intros k. rewrite map_lookup_imap, Hc.
    destruct (decide (k = cid)) as [->|Hne].
    - rewrite !lookup_insert. cbn [mbind option_bind]. f_equal.
      unfold info_of. rewrite He, Ha, Hm, abs_live.
      destruct (cnrs cs !! cid) as [c0|] eqn:E0; cbn [fmap option_fmap option_map mbind option_bind default i_eacl i_alias i_meta info_of].
      + f_equal.
        * destruct nm; [rewrite lookup_insert|]; reflexivity.
        * destruct meta; cbn [orb]; [|reflexivity].
          apply bool_decide_eq_true. apply elem_of_union. left. apply elem_of_singleton. reflexivity.
      + destruct (CInv_dead_satellites _ _ HI E0) as (H1 & H2 & H3). f_equal.
        * exact H1.
        * destruct nm; [rewrite lookup_insert|]; auto.
        * destruct meta; cbn [orb].
          -- apply bool_decide_eq_true. apply elem_of_union. left. apply elem_of_singleton. reflexivity.
          -- apply bool_decide_eq_false. exact H3.
    - rewrite !lookup_insert_ne by congruence. rewrite abs_live.
      destruct (cnrs cs !! k) as [c0|]; [|reflexivity]. cbn. f_equal. unfold info_of. rewrite He, Ha, Hm. f_equal.
      + destruct nm; [rewrite lookup_insert_ne by congruence|]; reflexivity.
      + destruct meta; [|reflexivity]. apply bool_decide_ext. rewrite elem_of_union, elem_of_singleton. tauto.
  Qed.

  Lemma abs_del cs cid cn owner :
    cnrs cs !! cid = Some cn -> abs (del_state cs cid owner) = reg_delete (abs cs) cid.
  Proof.
    intros Hc. unfold reg_delete. rewrite abs_live, Hc. cbn [fmap option_fmap option_map].
    unfold abs at 1, del_state, remove_container, set_alias. cbn [cnrs oidx tomb eacls aliases metas].
    f_equal. apply map_eq. intros k. rewrite map_lookup_imap.
    destruct (decide (k = cid)) as [->|Hne].
    - rewrite !lookup_delete. reflexivity.
    - rewrite !lookup_delete_ne by congruence. rewrite abs_live.
      destruct (cnrs cs !! k) as [c0|]; [|reflexivity]. cbn. f_equal. unfold info_of.
      cbn [eacls aliases metas]. rewrite !lookup_delete_ne by congruence. f_equal.
      apply bool_decide_ext. rewrite elem_of_difference, elem_of_singleton. tauto.
  Qed.

  Lemma abs_eacl cs cid cn e :
    cnrs cs !! cid = Some cn -> abs (set_eacl_rec cs cid e) = reg_set_eacl (abs cs) cid e.
  Proof.
    intros Hc. unfold reg_set_eacl. rewrite abs_live, Hc. cbn [fmap option_fmap option_map].
    unfold abs at 1, set_eacl_rec. cbn [cnrs oidx tomb eacls aliases metas].
    f_equal. apply map_eq. intros k. rewrite map_lookup_imap.
    destruct (decide (k = cid)) as [->|Hne].
    - rewrite lookup_insert, Hc. cbn. unfold info_of. cbn [eacls aliases metas i_cnr i_alias i_meta].
      rewrite lookup_insert. reflexivity.
    - rewrite lookup_insert_ne by congruence. rewrite abs_live.
      destruct (cnrs cs !! k) as [c0|]; [|reflexivity]. cbn. unfold info_of. cbn [eacls aliases metas].
      rewrite lookup_insert_ne by congruence. reflexivity.
  Qed.

  (** One successful invocation = the spec's effect. *)
  Lemma wexec_refines c w o w' r ns :
    CInv (w_c w) -> wexec c w o = Halt (w', r, ns) ->
    abs (w_c w') = spec_apply cid_of (nroot (w_c w)) (abs (w_c w)) o.
  Proof.
    intros HI H. destruct (put_shape o) as [[[[[[blob sig] pub] tok] name] zone]|] eqn:Hs.
    { destruct (put_state_eq _ _ _ _ _ _ _ _ _ _ _ _ Hs H) as (owner & Ho & Hd & ->).
      rewrite abs_put by exact HI.
      destruct o; try discriminate; injection Hs as <- <- <- <- <- <-; reflexivity. }
    destruct o; try discriminate.
    - cbn [Container.wexec] in H. obind H as [w1 ns1] E. injection H as <- _ _. cbn [spec_apply].
      destruct (del_state_eq _ _ _ _ _ _ _ HI E) as [(Hn & -> & _)|(cn & owner & Hc & Ho & _ & -> & _)].
      + unfold reg_delete. rewrite abs_live, Hn. reflexivity.
      + eapply abs_del; eauto.
    - cbn [Container.wexec] in H. obind H as [w1 ns1] E. injection H as <- _ _. cbn [spec_apply].
      destruct (set_eacl_inv _ _ _ _ _ _ _ _ E) as [cid cn owner Hcid Hc _ _ _ -> _]. cbn [w_c].
      rewrite Hcid. eapply abs_eacl; eauto.
    - destruct (wexec_other _ _ _ _ _ _ Hs ltac:(discriminate) ltac:(discriminate) H) as [-> _]. reflexivity.
    - destruct (wexec_other _ _ _ _ _ _ Hs ltac:(discriminate) ltac:(discriminate) H) as [-> _]. reflexivity.
    - destruct (wexec_other _ _ _ _ _ _ Hs ltac:(discriminate) ltac:(discriminate) H) as [-> _]. reflexivity.
    - destruct (wexec_other _ _ _ _ _ _ Hs ltac:(discriminate) ltac:(discriminate) H) as [-> _]. reflexivity.
    - destruct (wexec_other _ _ _ _ _ _ Hs ltac:(discriminate) ltac:(discriminate) H) as [-> _]. reflexivity.
  Qed.

  (** The spec run: apply the effect of every call that did not fault. *)
  Fixpoint spec_run (root : bytes) (w : world) (r : registry) (ops : list (cctx * wop)) : registry :=
    match ops with
    | [] => r
    | co :: rest =>
        let '(w', res, _) := wstep w co in
        spec_run root w' (if val_eqb res VFault then r else spec_apply cid_of root r (snd co)) rest
    end.

  Lemma wrun_refines w ops :
    CInv (w_c w) ->
    abs (w_c (wrun_from w ops)) = spec_run (nroot (w_c w)) w (abs (w_c w)) ops.
  Proof.
    unfold Container.wrun_from. revert w. induction ops as [|co ops IH]; intros w HI; [reflexivity|].
    cbn [fold_left spec_run].
    destruct (wstep_CInv w co HI) as [H1 H2].
    destruct (wstep_cases cid_of b58 w co) as [(w' & r & ns & He & Hw)|(_ & Hw)]; rewrite Hw in *; cbn [fst] in *.
    - rewrite IH by exact H1. rewrite H2.
      assert (Hr : val_eqb r VFault = false).
      { pose proof (wexec_ret _ _ _ _ _ _ _ _ He) as Hr. destruct r; try reflexivity. congruence. }
      rewrite Hr. destruct co as [c o]. cbn [fst snd] in *.
      rewrite (wexec_refines _ _ _ _ _ _ HI He). reflexivity.
    - rewrite IH by exact HI. reflexivity.
  Qed.

  (** ** The read API is the registry's *)

  Lemma CInv_nonempty cs cid c : CInv cs -> cnrs cs !! cid = Some c -> nonempty (c_val c) = true.
  Proof.
    intros HI Hc. destruct (ci_cnr _ HI _ _ Hc) as (_ & o & Ho & _). eapply owner_blob_nonempty; eauto.
  Qed.

  Lemma get_spec cs cid : CInv cs -> get cs cid = spec_get (abs cs) cid.
  Proof.
    intros HI. unfold get, spec_get. rewrite abs_live.
    destruct (cnrs cs !! cid) as [c|] eqn:E; [|reflexivity]. cbn.
    rewrite (CInv_nonempty _ _ _ HI E). reflexivity.
  Qed.

  Lemma get_owner_by_id_spec cs cid :
    CInv cs ->
    get_owner_by_id cs cid =
      match cnrs cs !! cid with
      | Some c => Halt (match owner_of_blob (c_val c) with Halt o => Some o | Fault => None end)
      | None => Halt None
      end /\
    (forall c, cnrs cs !! cid = Some c -> exists o, owner_of_blob (c_val c) = Halt o).
  Proof.
    intros HI. split.
    - unfold get_owner_by_id. destruct (cnrs cs !! cid) as [c|] eqn:E; [|reflexivity].
      rewrite (CInv_nonempty _ _ _ HI E). destruct (ci_cnr _ HI _ _ E) as (_ & o & Ho & _).
      unfold owner_is in Ho. rewrite Ho. reflexivity.
    - intros c E. destruct (ci_cnr _ HI _ _ E) as (_ & o & Ho & _). eauto.
  Qed.

  Lemma owner_spec cs cid : CInv cs -> owner cs cid = spec_owner (abs cs) cid.
  Proof.
    intros HI. unfold owner, spec_owner. rewrite abs_live.
    destruct (get_owner_by_id_spec cs cid HI) as [-> Hex].
    destruct (cnrs cs !! cid) as [c|] eqn:E; [|reflexivity]. cbn.
    destruct (Hex c eq_refl) as [o ->]. reflexivity.
  Qed.

  Lemma alias_spec cs cid : CInv cs -> alias cs cid = spec_alias (abs cs) cid.
  Proof.
    intros HI. unfold alias, spec_alias. rewrite abs_live.
    destruct (get_owner_by_id_spec cs cid HI) as [-> Hex].
    destruct (cnrs cs !! cid) as [c|] eqn:E; [|reflexivity]. cbn.
    destruct (Hex c eq_refl) as [o ->]. reflexivity.
  Qed.

  Lemma eacl_spec cs cid : CInv cs -> eacl cs cid = spec_eacl (abs cs) cid.
  Proof.
    intros HI. unfold eacl, spec_eacl. rewrite abs_live.
    destruct (get_owner_by_id_spec cs cid HI) as [-> Hex].
    destruct (cnrs cs !! cid) as [c|] eqn:E; [|reflexivity]. cbn.
    destruct (Hex c eq_refl) as [o ->]. reflexivity.
  Qed.

  Lemma length_skeys {V} (m : gmap bytes V) : length (skeys m) = size m.
  Proof.
    rewrite (Permutation_length (skeys_perm m)), map_length. reflexivity.
  Qed.

  Lemma count_spec cs : count cs = spec_count (abs cs).
  Proof.
    unfold count, spec_count. rewrite length_skeys. f_equal.
    rewrite <- !(size_dom (D := gset bytes)). f_equal. apply set_eq. intros k.
    rewrite !elem_of_dom, abs_live, fmap_is_Some. reflexivity.
  Qed.

  (** get returns a pre-image of the id. *)
  Lemma get_preimage cs cid c : CInv cs -> get cs cid = Halt c -> cid_of (c_val c) = cid.
  Proof.
    intros HI. unfold get. destruct (cnrs cs !! cid) as [c0|] eqn:E; [|discriminate].
    destruct (nonempty (c_val c0)); [|discriminate]. intros [= <-].
    destruct (ci_cnr _ HI _ _ E) as (-> & _). reflexivity.
  Qed.

  (** Every getter reports 'not found' for ids that are not live (no invariant needed). *)
  Lemma not_found cs cid :
    cnrs cs !! cid = None ->
    get cs cid = Fault /\ owner cs cid = Fault /\ alias cs cid = Fault /\ eacl cs cid = Fault.
  Proof.
    intros H. unfold get, owner, alias, eacl, get_owner_by_id. rewrite H. auto.
  Qed.

  (** *** Listings *)
  Lemma sentries_fst {V} (m : gmap bytes V) : fst <$> sentries m = skeys m.
  Proof.
    unfold sentries. assert (H : forall k, k ∈ skeys m -> is_Some (m !! k)) by (intros k; apply elem_of_skeys).
    induction (skeys m) as [|k l IH]; [reflexivity|]. cbn [omap list_omap].
    destruct (H k ltac:(left)) as [v Hv]. rewrite Hv. cbn. f_equal. apply IH. intros k' Hk'. apply H. right. exact Hk'.
  Qed.

  Lemma elem_of_sentries {V} (m : gmap bytes V) k v : (k, v) ∈ sentries m <-> m !! k = Some v.
  Proof.
    unfold sentries. rewrite elem_of_list_omap. split.
    - intros (k' & _ & H). destruct (m !! k') as [v'|] eqn:E; [|discriminate]. cbn in H. congruence.
    - intros H. exists k. split; [apply elem_of_skeys; eauto|]. rewrite H. reflexivity.
  Qed.

  Lemma NoDup_sentries {V} (m : gmap bytes V) : NoDup (sentries m).
  Proof. apply (NoDup_fmap_1 fst). rewrite sentries_fst. apply NoDup_skeys. Qed.

  Lemma elem_of_find_vals {V} (p : bytes) (m : gmap bytes V) (v : V) :
    v ∈ find_vals p m <-> exists k, m !! k = Some v /\ is_prefix p k = true.
  Proof.
    unfold find_vals. rewrite elem_of_list_In, in_map_iff. split.
    - intros ([k v'] & <- & H). apply filter_In in H as [H1 H2]. cbn in *.
      apply elem_of_list_In, elem_of_sentries in H1. eauto.
    - intros (k & H1 & H2). exists (k, v). split; [reflexivity|]. apply filter_In. split; [|exact H2].
      apply elem_of_list_In, elem_of_sentries. exact H1.
  Qed.

  Lemma is_prefix_app_short (p a b : bytes) :
    (length p <= length a)%nat -> is_prefix p (a ++ b) = is_prefix p a.
  Proof.
    revert a. induction p as [|x p IH]; intros a Hl; [reflexivity|].
    destruct a as [|y a]; [cbn in Hl; lia|]. cbn. f_equal. apply IH. cbn in Hl. lia.
  Qed.

  Lemma containers_of_spec cs p cid :
    CInv cs -> (length p <= 25)%nat ->
    cid ∈ containers_of cs p <-> spec_owned (abs cs) p cid.
  Proof.
    intros HI Hp. unfold containers_of, spec_owned. rewrite elem_of_find_vals. split.
    - intros (k & Hk & Hpre). destruct (ci_idx _ HI _ _ Hk) as (c & o & Hc & Ho & ->).
      exists (info_of cs cid c), o. rewrite abs_live, Hc. split; [reflexivity|]. split; [exact Ho|].
      rewrite is_prefix_app_short in Hpre; [exact Hpre|]. rewrite (owner_is_len _ _ Ho). exact Hp.
    - intros (i & o & Hl & Ho & Hpre). rewrite abs_live in Hl.
      destruct (cnrs cs !! cid) as [c|] eqn:Hc; [|discriminate]. injection Hl as <-. cbn in Ho.
      destruct (ci_cnr _ HI _ _ Hc) as (_ & o' & Ho' & Hi).
      unfold owner_is in Ho'. rewrite Ho in Ho'. injection Ho' as <-.
      exists (o ++ cid). split; [exact Hi|]. rewrite is_prefix_app_short; [exact Hpre|].
      rewrite (owner_of_blob_length _ _ Ho). exact Hp.
  Qed.

  Lemma containers_of_nodup cs p : CInv cs -> NoDup (containers_of cs p).
  Proof.
    intros HI. unfold containers_of, find_vals.
    apply NoDup_fmap_2_strong.
    - intros [k1 v1] [k2 v2] H1 H2 Hv. cbn in Hv. subst v2.
      apply elem_of_list_In, filter_In in H1 as [H1 _]. apply elem_of_list_In, filter_In in H2 as [H2 _].
      apply elem_of_list_In, elem_of_sentries in H1, H2.
      destruct (ci_idx _ HI _ _ H1) as (c1 & o1 & Hc1 & Ho1 & ->).
      destruct (ci_idx _ HI _ _ H2) as (c2 & o2 & Hc2 & Ho2 & ->).
      pose proof (eq_trans (eq_sym Hc1) Hc2) as Heq. injection Heq as <-.
      rewrite (owner_is_fun _ _ _ Ho1 Ho2). reflexivity.
    - apply NoDup_ListNoDup, List.NoDup_filter, NoDup_ListNoDup, NoDup_sentries.
  Qed.

  (** [list] of an empty owner: all live ids, ascending, without duplicates;
      of a non-empty owner: [containersOf]. *)
  Lemma list_all_spec cs cid :
    cid ∈ list_cnrs cs [] <-> is_Some (live (abs cs) !! cid).
  Proof.
    unfold list_cnrs. cbn [nonempty]. rewrite elem_of_skeys, abs_live, fmap_is_Some. reflexivity.
  Qed.

  Lemma list_all_sorted cs : Sorted bytes_le (list_cnrs cs []) /\ NoDup (list_cnrs cs []).
  Proof. unfold list_cnrs. cbn [nonempty]. split; [apply Sorted_skeys|apply NoDup_skeys]. Qed.

  Lemma list_owner_eq cs p : nonempty p = true -> list_cnrs cs p = containers_of cs p.
  Proof. unfold list_cnrs, containers_of. intros ->. reflexivity. Qed.

  (** ** Deletion removes every trace in the Container storage *)
  Lemma del_state_clean cs cid cn owner :
    CInv cs -> cnrs cs !! cid = Some cn -> owner_is cn owner ->
    let cs' := del_state cs cid owner in
    cnrs cs' !! cid = None /\ eacls cs' !! cid = None /\ aliases cs' !! cid = None /\
    cid ∉ metas cs' /\ cid ∈ tomb cs' /\
    (forall k v, oidx cs' !! k = Some v -> v <> cid /\ exists o, length o = 25%nat /\ k = o ++ v).
  Proof.
    intros HI Hc Ho cs'. pose proof (CInv_del_state _ _ _ _ HI Hc Ho) as HI'.
    assert (Hn : cnrs cs' !! cid = None) by apply lookup_delete.
    split; [exact Hn|]. destruct (CInv_dead_satellites _ _ HI' Hn) as (H1 & H2 & H3).
    split; [exact H1|]. split; [exact H2|]. split; [exact H3|]. split.
    { subst cs'. unfold del_state, remove_container. cbn [tomb]. apply elem_of_union. left.
      apply elem_of_singleton. reflexivity. }
    intros k v Hk. destruct (ci_idx _ HI' _ _ Hk) as (c0 & o0 & Hc0 & Ho0 & ->).
    split; [|exists o0; split; [eapply owner_is_len; eauto|reflexivity]].
    intros ->. fold cs' in Hc0. pose proof (eq_trans (eq_sym Hn) Hc0) as Heq. discriminate.
  Qed.

  (** ** Tombstones are monotone: deletion is final *)
  Lemma wexec_tomb c w o w' r ns :
    CInv (w_c w) -> wexec c w o = Halt (w', r, ns) -> tomb (w_c w) ⊆ tomb (w_c w').
  Proof.
    intros HI H. destruct (put_shape o) as [[[[[[blob sig] pub] tok] name] zone]|] eqn:Hs.
    { destruct (put_state_eq _ _ _ _ _ _ _ _ _ _ _ _ Hs H) as (owner & Ho & Hd & ->).
      unfold put_state. destruct (name_opt _ _ _), (meta_flag o); reflexivity. }
    destruct o; try discriminate.
    - cbn [Container.wexec] in H. obind H as [w1 ns1] E. injection H as <- _ _.
      destruct (del_state_eq _ _ _ _ _ _ _ HI E) as [(_ & -> & _)|(cn & owner & Hc & Ho & _ & -> & _)]; [reflexivity|].
      unfold del_state, remove_container. cbn [tomb set_alias]. apply union_subseteq_r.
    - cbn [Container.wexec] in H. obind H as [w1 ns1] E. injection H as <- _ _.
      destruct (set_eacl_inv _ _ _ _ _ _ _ _ E) as [cid cn owner _ Hc _ _ _ -> _]. reflexivity.
    - destruct (wexec_other _ _ _ _ _ _ Hs ltac:(discriminate) ltac:(discriminate) H) as [-> _]. reflexivity.
    - destruct (wexec_other _ _ _ _ _ _ Hs ltac:(discriminate) ltac:(discriminate) H) as [-> _]. reflexivity.
    - destruct (wexec_other _ _ _ _ _ _ Hs ltac:(discriminate) ltac:(discriminate) H) as [-> _]. reflexivity.
    - destruct (wexec_other _ _ _ _ _ _ Hs ltac:(discriminate) ltac:(discriminate) H) as [-> _]. reflexivity.
    - destruct (wexec_other _ _ _ _ _ _ Hs ltac:(discriminate) ltac:(discriminate) H) as [-> _]. reflexivity.
  Qed.

  Lemma wrun_tomb w ops : CInv (w_c w) -> tomb (w_c w) ⊆ tomb (w_c (wrun_from w ops)).
  Proof.
    unfold Container.wrun_from. revert w. induction ops as [|co ops IH]; intros w HI; [reflexivity|].
    cbn [fold_left]. destruct (wstep_CInv w co HI) as [H1 _].
    etransitivity; [|apply IH; exact H1].
    destruct (wstep_cases cid_of b58 w co) as [(w' & r & ns & He & ->)|(_ & ->)]; [|reflexivity].
    cbn [fst]. eapply wexec_tomb; eauto.
  Qed.

  Lemma delete_final w ops cid :
    CInv (w_c w) -> cid ∈ tomb (w_c w) ->
    let w' := wrun_from w ops in
    cid ∈ tomb (w_c w') /\ live (abs (w_c w')) !! cid = None /\ get (w_c w') cid = Fault.
  Proof.
    intros HI Hd w'. destruct (wrun_CInv w ops HI) as [HI' _]. fold w' in HI'.
    assert (Hd' : cid ∈ tomb (w_c w')) by (eapply wrun_tomb; eauto).
    pose proof (ci_dead _ HI' _ Hd') as Hn.
    split; [exact Hd'|]. split; [rewrite abs_live, Hn; reflexivity|].
    apply not_found. exact Hn.
  Qed.

  (** ** Notifications *)
  Definition cnotifs (ns : list wnotif) : list wnotif :=
    List.filter (fun n => match n with NBal _ => false | _ => true end) ns.

  Definition expected_notifs (cs : cstate) (o : wop) : list wnotif :=
    match o with
    | Put b _ p _ | PutNamed b _ p _ _ _ | PutMeta b _ p _ _ => [NPut (cid_of b) p]
    | Delete cid _ _ => match cnrs cs !! cid with Some _ => [NDel cid] | None => [] end
    | SetEACL e _ p _ => match eacl_cid e with Some cid => [NEacl cid p] | None => [] end
    | _ => []
    end.

  Lemma cnotifs_bal l rest : cnotifs (map NBal l ++ rest) = cnotifs rest.
  Proof. induction l as [|x l IH]; [reflexivity|]. cbn. exact IH. Qed.

  Lemma cnotifs_only_bal ns : (forall n, In n ns -> exists b, n = NBal b) -> cnotifs ns = [].
  Proof.
    induction ns as [|n ns IH]; intros H; [reflexivity|]. cbn.
    destruct (H n ltac:(left; reflexivity)) as [b ->]. apply IH. intros n' Hn'. apply H. right. exact Hn'.
  Qed.

  Lemma wexec_notifs c w o w' r ns :
    CInv (w_c w) -> wexec c w o = Halt (w', r, ns) -> cnotifs ns = expected_notifs (w_c w) o.
  Proof.
    intros HI H. destruct (put_shape o) as [[[[[[blob sig] pub] tok] name] zone]|] eqn:Hs.
    { destruct (put_exact _ _ _ _ _ _ _ _ _ _ _ _ _ _ Hs H) as (ow & fee & _ & _ & _ & _ & _ & _ & _ & _ & _ & _ & -> & _).
      rewrite cnotifs_bal. destruct o; try discriminate; injection Hs as <- <- <- <- <- <-; reflexivity. }
    destruct o; try discriminate.
    - cbn [Container.wexec] in H. obind H as [w1 ns1] E. injection H as _ _ <-. cbn [expected_notifs].
      destruct (del_state_eq _ _ _ _ _ _ _ HI E) as [(Hn & _ & ->)|(cn & owner & Hc & _ & _ & _ & -> & _)].
      + rewrite Hn. reflexivity.
      + rewrite Hc. reflexivity.
    - cbn [Container.wexec] in H. obind H as [w1 ns1] E. injection H as _ _ <-. cbn [expected_notifs].
      destruct (set_eacl_inv _ _ _ _ _ _ _ _ E) as [cid cn owner Hcid _ _ _ _ _ ->]. rewrite Hcid. reflexivity.
    - destruct (wexec_other _ _ _ _ _ _ Hs ltac:(discriminate) ltac:(discriminate) H) as [_ Hb]. apply cnotifs_only_bal, Hb.
    - destruct (wexec_other _ _ _ _ _ _ Hs ltac:(discriminate) ltac:(discriminate) H) as [_ Hb]. apply cnotifs_only_bal, Hb.
    - destruct (wexec_other _ _ _ _ _ _ Hs ltac:(discriminate) ltac:(discriminate) H) as [_ Hb]. apply cnotifs_only_bal, Hb.
    - destruct (wexec_other _ _ _ _ _ _ Hs ltac:(discriminate) ltac:(discriminate) H) as [_ Hb]. apply cnotifs_only_bal, Hb.
    - destruct (wexec_other _ _ _ _ _ _ Hs ltac:(discriminate) ltac:(discriminate) H) as [_ Hb]. apply cnotifs_only_bal, Hb.
  Qed.

  (** *** Order of an owner's listing: ascending ids *)
  Lemma SS_filter {A} (R : A -> A -> Prop) (f : A -> bool) l :
    StronglySorted R l -> StronglySorted R (List.filter f l).
  Proof.
    induction 1 as [|x l Hs IH Hf]; cbn; [constructor|].
    destruct (f x); [|exact IH]. constructor; [exact IH|].
    apply List.Forall_forall. intros y Hy. apply filter_In in Hy as [Hy _].
    eapply List.Forall_forall in Hf; eauto.
  Qed.

  Lemma bytes_leb_app_l (o a b : bytes) : bytes_leb (o ++ a) (o ++ b) = bytes_leb a b.
  Proof.
    induction o as [|x o IH]; [reflexivity|]. cbn. rewrite N.ltb_irrefl, N.eqb_refl. exact IH.
  Qed.

  Lemma is_prefix_same_len (p o : bytes) : length p = length o -> is_prefix p o = true -> p = o.
  Proof.
    revert o. induction p as [|x p IH]; intros [|y o] Hl H; try discriminate; [reflexivity|].
    cbn in H. apply andb_true_iff in H as [H1 H2]. apply N.eqb_eq in H1. subst y.
    f_equal. apply IH; [cbn in Hl; lia|exact H2].
  Qed.

  Lemma containers_of_sorted cs o :
    CInv cs -> length o = 25%nat -> Sorted bytes_le (containers_of cs o).
  Proof.
    intros HI Hl. apply StronglySorted_Sorted.
    unfold containers_of, find_vals.
    assert (Hss : StronglySorted bytes_le (fst <$> List.filter (fun kv => is_prefix o (fst kv)) (sentries (oidx cs)))).
    { assert (Hk : StronglySorted bytes_le (skeys (oidx cs))).
      { apply Sorted_StronglySorted; [intros x y z; apply bytes_le_trans|apply Sorted_skeys]. }
      rewrite <- sentries_fst in Hk.
      revert Hk. generalize (sentries (oidx cs)). intros l Hk.
      induction l as [|[k v] l IH]; cbn; [constructor|].
      cbn in Hk. apply StronglySorted_inv in Hk as [Hk1 Hk2].
      destruct (is_prefix o k); [|apply IH; exact Hk1].
      cbn. constructor; [apply IH; exact Hk1|].
      apply List.Forall_forall. intros y Hy. apply in_map_iff in Hy as ([k' v'] & <- & Hy).
      apply filter_In in Hy as [Hy _]. eapply List.Forall_forall in Hk2; [exact Hk2|].
      apply in_map_iff. exists (k', v'). auto. }
    assert (Hkeys : forall kv, In kv (List.filter (fun kv => is_prefix o (fst kv)) (sentries (oidx cs))) ->
                    fst kv = o ++ snd kv).
    { intros [k v] Hin. apply filter_In in Hin as [Hin Hp]. cbn in *.
      apply elem_of_list_In, elem_of_sentries in Hin.
      destruct (ci_idx _ HI _ _ Hin) as (c & o' & _ & Ho' & ->).
      rewrite is_prefix_app_short in Hp by (rewrite (owner_is_len _ _ Ho'); lia).
      apply is_prefix_same_len in Hp; [congruence|]. rewrite (owner_is_len _ _ Ho'). exact Hl. }
    revert Hss Hkeys. generalize (List.filter (fun kv => is_prefix o (fst kv)) (sentries (oidx cs))).
    intros l Hss Hkeys. induction l as [|[k v] l IH]; cbn; [constructor|].
    cbn in Hss. apply StronglySorted_inv in Hss as [Hs1 Hs2].
    constructor; [apply IH; [exact Hs1|intros kv Hkv; apply Hkeys; right; exact Hkv]|].
    apply List.Forall_forall. intros y Hy. apply in_map_iff in Hy as ([k' v'] & <- & Hy). cbn.
    pose proof (Hkeys (k, v) ltac:(left; reflexivity)) as E1. pose proof (Hkeys (k', v') ltac:(right; exact Hy)) as E2.
    cbn in E1, E2. eapply List.Forall_forall in Hs2; [|apply in_map_iff; exists (k', v'); split; [reflexivity|exact Hy]].
    cbn in Hs2. unfold bytes_le in *. rewrite E1, E2, bytes_leb_app_l in Hs2. exact Hs2.
  Qed.
End Registry.
