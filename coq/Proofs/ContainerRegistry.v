(** Proofs/ContainerRegistry.v — the five indices of the Container storage are
    mutually consistent in every reachable state, the storage refines the
    registry spec, deletion is complete and final (C04). *)
From Verif Require Import Base.Prelude Base.IntCodec Model.Balance Proofs.BalanceSum Proofs.Balance
  Model.Container Proofs.Container Spec.Registry.
From Coq Require Import ZifyBool ZifyNat ZifyN.
Local Open Scope Z_scope.

(** * Inversion of delete and setEACL *)

Lemma get_owner_some cs cid o :
  get_owner_by_id cs cid = Halt (Some o) ->
  exists c, cnrs cs !! cid = Some c /\ owner_of_blob (c_val c) = Halt o.
Proof.
  unfold get_owner_by_id. destruct (cnrs cs !! cid) as [c|]; [|discriminate].
  destruct (nonempty (c_val c)); [|discriminate].
  intros H. obind H as o' E. injection H as <-. eauto.
Qed.

Lemma get_owner_none cs cid :
  get_owner_by_id cs cid = Halt None ->
  cnrs cs !! cid = None \/ exists c, cnrs cs !! cid = Some c /\ nonempty (c_val c) = false.
Proof.
  unfold get_owner_by_id. destruct (cnrs cs !! cid) as [c|]; [|auto].
  destruct (nonempty (c_val c)) eqn:E; [|eauto].
  intros H. obind H as o' E'. discriminate.
Qed.

Section Registry.
  Variable cid_of : bytes -> bytes.
  Variable b58 : bytes -> bytes.
  Hypothesis cid_inj : forall a b, cid_of a = cid_of b -> a = b.

  Notation wexec := (wexec cid_of b58).
  Notation wstep := (wstep cid_of b58).
  Notation wrun_from := (wrun_from cid_of b58).
  Notation put_named := (put_named cid_of b58).

  (** ** Delete *)
  Inductive del_facts (c : cctx) (w : world) (cid : bytes) (w' : world) (ns : list wnotif) : Prop :=
  | DelNoop (Hnone : get_owner_by_id (w_c w) cid = Halt None) (Hw : w' = w) (Hns : ns = [])
  | DelDone (cn : cnr) (owner : bytes) (n' : nstate)
      (Hc : cnrs (w_c w) !! cid = Some cn)
      (Ho : owner_of_blob (c_val cn) = Halt owner)
      (Hal : x_alpha c = true)
      (Hn : match aliases (w_c w) !! cid with
            | Some d => if nonempty d then delete_nns_records c (w_n w) d = Halt n' else n' = w_n w
            | None => n' = w_n w
            end)
      (Hw : w' = mkW (remove_container
                        (match aliases (w_c w) !! cid with
                         | Some d => if nonempty d then set_alias (w_c w) cid None else w_c w
                         | None => w_c w
                         end) cid owner)
                     (w_b w) (w_cfg w) n' (w_id w))
      (Hns : ns = [NDel cid]).

  (** [set_alias _ cid None] of a state without alias for [cid] is the state. *)
  Lemma set_alias_none_id cs cid : aliases cs !! cid = None -> set_alias cs cid None = cs.
  Proof.
    intros H. destruct cs. unfold set_alias. cbn in *. f_equal. apply delete_notin. exact H.
  Qed.

  Lemma delete_inv c w cid sig tok w' ns :
    delete_cnr c w cid sig tok = Halt (w', ns) -> del_facts c w cid w' ns.
  Proof.
    unfold Container.delete_cnr. intros H. obind H as oo Eo. destruct oo as [owner|].
    - destruct (get_owner_some _ _ _ Eo) as (cn & Hc & Ho).
      obind H as u Ea. apply oassert_true in Ea.
      obind H as [n' cs1] En. injection H as <- <-.
      apply (DelDone _ _ _ _ _ cn owner n'); auto.
      + destruct (aliases (w_c w) !! cid) as [d|]; [|congruence].
        destruct (nonempty d); [|congruence]. obind En as n'' E. congruence.
      + f_equal. destruct (aliases (w_c w) !! cid) as [d|] eqn:Ed.
        * destruct (nonempty d) eqn:End.
          -- obind En as n'' E. congruence.
          -- congruence.
        * congruence.
    - injection H as <- <-. apply DelNoop; auto.
  Qed.

  (** ** SetEACL *)
  Inductive eacl_facts (c : cctx) (w : world) (e sig pub tok : bytes) (w' : world)
      (ns : list wnotif) : Prop :=
  | EaclDone (cid : bytes) (cn : cnr) (owner : bytes)
      (Hcid : eacl_cid e = Some cid)
      (Hc : cnrs (w_c w) !! cid = Some cn)
      (Ho : owner_of_blob (c_val cn) = Halt owner)
      (Hal : x_alpha c = true)
      (Hpub : length pub = 33%nat)
      (Hw : w' = mkW (set_eacl_rec (w_c w) cid (mkCnr e sig pub tok)) (w_b w) (w_cfg w) (w_n w) (w_id w))
      (Hns : ns = [NEacl cid pub]).

  Lemma set_eacl_inv c w e sig pub tok w' ns :
    set_eacl c w e sig pub tok = Halt (w', ns) -> eacl_facts c w e sig pub tok w' ns.
  Proof.
    unfold Container.set_eacl. intros H. obind H as v Ev. obind H as cid Ec. obind H as oo Eo.
    destruct oo as [owner|]; [|discriminate].
    destruct (get_owner_some _ _ _ Eo) as (cn & Hc & Ho).
    obind H as u Ea. apply oassert_true in Ea. obind H as u2 Ep. apply oassert_true in Ep.
    apply Nat.eqb_eq in Ep. injection H as <- <-.
    apply (EaclDone _ _ _ _ _ _ _ _ cid cn owner); auto.
    unfold eacl_cid. rewrite Ev, Ec. reflexivity.
  Qed.

  (** ** The consistency invariant of the six indices *)
  Definition owner_is (c : cnr) (o : bytes) : Prop := owner_of_blob (c_val c) = Halt o.

  Record CInv (cs : cstate) : Prop := {
    ci_cnr : forall cid c, cnrs cs !! cid = Some c ->
             cid = cid_of (c_val c) /\ exists o, owner_is c o /\ oidx cs !! (o ++ cid) = Some cid;
    ci_idx : forall k v, oidx cs !! k = Some v ->
             exists c o, cnrs cs !! v = Some c /\ owner_is c o /\ k = o ++ v;
    ci_dead : forall cid, cid ∈ tomb cs -> cnrs cs !! cid = None;
    ci_eacl : forall cid e, eacls cs !! cid = Some e -> is_Some (cnrs cs !! cid);
    ci_alias : forall cid d, aliases cs !! cid = Some d ->
               is_Some (cnrs cs !! cid) /\ nonempty d = true;
    ci_meta : forall cid, cid ∈ metas cs -> is_Some (cnrs cs !! cid)
  }.

  Lemma CInv_init root : CInv (cinit root).
  Proof.
    split; unfold cinit; cbn; intros *; try rewrite lookup_empty; try discriminate;
      try (intros H; apply elem_of_empty in H; contradiction).
  Qed.

  Lemma owner_key_inj (o1 c1 o2 c2 : bytes) :
    length o1 = 25%nat -> length o2 = 25%nat -> o1 ++ c1 = o2 ++ c2 -> o1 = o2 /\ c1 = c2.
  Proof. intros H1 H2 H. apply app_inj_1; congruence. Qed.

  Lemma owner_is_len c o : owner_is c o -> length o = 25%nat.
  Proof. apply owner_of_blob_length. Qed.

  Lemma owner_is_fun c o1 o2 : owner_is c o1 -> owner_is c o2 -> o1 = o2.
  Proof. unfold owner_is. congruence. Qed.

  (** [addContainer] (possibly after [PutMeta] has set the flag of the same id). *)
  Lemma CInv_add cs cs0 blob o c' :
    CInv cs ->
    cnrs cs0 = cnrs cs -> oidx cs0 = oidx cs -> tomb cs0 = tomb cs -> eacls cs0 = eacls cs ->
    aliases cs0 = aliases cs ->
    (forall x, x ∈ metas cs0 -> x ∈ metas cs \/ x = cid_of blob) ->
    owner_of_blob blob = Halt o -> c_val c' = blob -> cid_of blob ∉ tomb cs ->
    CInv (add_container cs0 (cid_of blob) o c').
  Proof.
    intros [I1 I2 I3 I4 I5 I6] Ec Eo Et Ee Ea Hm Ho Hv Hnd.
    set (cid := cid_of blob) in *.
    assert (Hol : length o = 25%nat) by (eapply owner_of_blob_length; eauto).
    split; unfold add_container; cbn [cnrs oidx tomb eacls aliases metas]; rewrite ?Ec, ?Eo, ?Et, ?Ee, ?Ea.
    - intros k c Hk. destruct (decide (k = cid)) as [->|Hne].
      + rewrite lookup_insert in Hk. injection Hk as <-. split; [rewrite Hv; reflexivity|].
        exists o. split; [unfold owner_is; rewrite Hv; exact Ho|]. apply lookup_insert.
      + rewrite lookup_insert_ne in Hk by congruence.
        destruct (I1 _ _ Hk) as (Hcid & o0 & Ho0 & Hi). split; [exact Hcid|].
        exists o0. split; [exact Ho0|]. rewrite lookup_insert_ne; [exact Hi|].
        intros Heq. apply owner_key_inj in Heq as [_ Heq]; [congruence|exact Hol|eapply owner_is_len; eauto].
    - intros k v Hk. destruct (decide (k = o ++ cid)) as [->|Hne].
      + rewrite lookup_insert in Hk. injection Hk as <-. exists c', o.
        rewrite lookup_insert. split; [reflexivity|]. split; [unfold owner_is; rewrite Hv; exact Ho|reflexivity].
      + rewrite lookup_insert_ne in Hk by congruence.
        destruct (I2 _ _ Hk) as (c0 & o0 & Hc0 & Ho0 & ->).
        destruct (decide (v = cid)) as [->|Hv'].
        * exfalso. destruct (I1 _ _ Hc0) as (Hcid & _). apply cid_inj in Hcid.
          unfold owner_is in Ho0. rewrite <- Hcid in Ho0. rewrite Ho in Ho0. injection Ho0 as <-.
          congruence.
        * exists c0, o0. rewrite lookup_insert_ne by congruence. auto.
    - intros k Hk. rewrite lookup_insert_ne; [apply I3; exact Hk|]. intros <-. contradiction.
    - intros k e Hk. apply lookup_insert_is_Some'. right. eapply I4; eauto.
    - intros k d Hk. destruct (I5 _ _ Hk) as [Hs Hd]. split; [|exact Hd].
      apply lookup_insert_is_Some'. right. exact Hs.
    - intros k Hk. apply lookup_insert_is_Some'. destruct (Hm _ Hk) as [Hk' | ->]; [right; eapply I6; eauto|left; reflexivity].
  Qed.

  Lemma CInv_set_alias cs cid d :
    CInv cs -> is_Some (cnrs cs !! cid) -> nonempty d = true -> CInv (set_alias cs cid (Some d)).
  Proof.
    intros [I1 I2 I3 I4 I5 I6] Hs Hd. split; unfold set_alias; cbn [cnrs oidx tomb eacls aliases metas]; auto.
    intros k d' Hk. destruct (decide (k = cid)) as [->|Hne].
    - rewrite lookup_insert in Hk. injection Hk as <-. auto.
    - rewrite lookup_insert_ne in Hk by congruence. eauto.
  Qed.

  Lemma CInv_set_eacl cs cid e :
    CInv cs -> is_Some (cnrs cs !! cid) -> CInv (set_eacl_rec cs cid e).
  Proof.
    intros [I1 I2 I3 I4 I5 I6] Hs. split; unfold set_eacl_rec; cbn [cnrs oidx tomb eacls aliases metas]; auto.
    intros k e' Hk. destruct (decide (k = cid)) as [->|Hne]; [exact Hs|].
    rewrite lookup_insert_ne in Hk by congruence. eauto.
  Qed.

  (** [removeContainer] after the alias marker has been dropped. *)
  Lemma CInv_remove cs cs1 cid cn owner :
    CInv cs -> cnrs cs !! cid = Some cn -> owner_is cn owner ->
    cnrs cs1 = cnrs cs -> oidx cs1 = oidx cs -> tomb cs1 = tomb cs -> eacls cs1 = eacls cs ->
    metas cs1 = metas cs -> aliases cs1 = delete cid (aliases cs) ->
    CInv (remove_container cs1 cid owner).
  Proof.
    intros [I1 I2 I3 I4 I5 I6] Hc Ho Ec Eo Et Ee Em Ea.
    assert (Hol : length owner = 25%nat) by (eapply owner_is_len; eauto).
    split; unfold remove_container; cbn [cnrs oidx tomb eacls aliases metas]; rewrite ?Ec, ?Eo, ?Et, ?Ee, ?Ea, ?Em.
    - intros k c Hk. apply lookup_delete_Some in Hk as [Hne Hk].
      destruct (I1 _ _ Hk) as (Hcid & o0 & Ho0 & Hi). split; [exact Hcid|].
      exists o0. split; [exact Ho0|]. rewrite lookup_delete_ne; [exact Hi|].
      intros Heq. apply owner_key_inj in Heq as [_ Heq]; [congruence|exact Hol|eapply owner_is_len; eauto].
    - intros k v Hk. apply lookup_delete_Some in Hk as [Hne Hk].
      destruct (I2 _ _ Hk) as (c0 & o0 & Hc0 & Ho0 & ->).
      destruct (decide (v = cid)) as [->|Hv'].
      + exfalso. pose proof (eq_trans (eq_sym Hc) Hc0) as Heq. injection Heq as <-.
        rewrite (owner_is_fun _ _ _ Ho Ho0) in Hne. congruence.
      + exists c0, o0. rewrite lookup_delete_ne by congruence. auto.
    - intros k Hk. apply elem_of_union in Hk as [Hk|Hk].
      + apply elem_of_singleton in Hk as ->. apply lookup_delete.
      + apply lookup_delete_None. right. apply I3. exact Hk.
    - intros k e Hk. apply lookup_delete_Some in Hk as [Hne Hk].
      rewrite lookup_delete_ne by congruence. eauto.
    - intros k d Hk. apply lookup_delete_Some in Hk as [Hne Hk].
      rewrite lookup_delete_ne by congruence. eauto.
    - intros k Hk. apply elem_of_difference in Hk as [Hk Hne].
      rewrite lookup_delete_ne; [eauto|]. intros <-. apply Hne. apply elem_of_singleton. reflexivity.
  Qed.
End Registry.
