(** Proofs/TiesVote.v — ties between the literals of Model/Vote.v,
    Model/NeoFSVote.v and Spec/Tally.v (property C17) and the constants of the
    Go sources (common/vote.go, contracts/neofs/contract.go) as extracted into
    Gen/Params.v (regenerated from /repo's working tree on every run).  A
    constant edited in the source breaks the lemma that names it.

    Named definitions of the models ([block_diff], [threshold],
    [candidate_fee_key], [thr]) are tied directly.  Inline literals are tied
    through a closed observable term: the freshness rule [> 20] of
    [Tally.tprune] by evaluating it at the ages [blockDiff] and [blockDiff+1];
    the key-length limits 58 and 54 of [gexec] by running SetConfig /
    InnerRingCandidateAdd on keys of the limit length and one byte more.

    The models keep the storage as record fields and maps keyed by the suffix,
    so "alphabet", "ballots", "notary" and the prefixes "config" / "candidates"
    occur only through these two limits; the section variables of
    Model/NeoFSVote.v (cryptography) are instantiated with trivial functions. *)
From Coq Require Import ZArith NArith List String.
Import ListNotations.
From Verif Require Import Base.Prelude Base.IntCodec Gen.Params Model.Vote Model.NeoFSVote
  Spec.Tally Proofs.TiesLib.
Local Open Scope Z_scope.

(** Environments of the extracted expressions: exactly one name is bound. *)
Definition no_var : string -> Z := fun _ => 0.
Definition only (name : string) (v : Z) : string -> Z :=
  fun x => if String.eqb x name then v else 0.

(** * common/vote.go *)

(** common.blockDiff = 20 *)
Lemma tie_block_diff : block_diff = p_common_blockDiff.
Proof. reflexivity. Qed.

(** ... and the inline [> 20] of the spec's freshness rule: a tally whose last
    counted vote is blockDiff blocks old still counts, one block more voids it. *)
Definition t100 : tally := mkTally [[1%N]] 100.
Lemma tie_tally_fresh :
  tprune (100 + p_common_blockDiff) (Some t100) = Some t100 /\
  tprune (100 + p_common_blockDiff + 1) (Some t100) = None.
Proof. split; vm_compute; reflexivity. Qed.

(** The same two ages through the model of [Vote]: the second vote joins the
    ballot at age blockDiff and opens a new one (count 1) at blockDiff+1. *)
Lemma tie_block_diff_run :
  let bs := fst (vote [] [7%N] [1%N] 100) in
  snd (vote bs [7%N] [2%N] (100 + p_common_blockDiff)) = 2 /\
  snd (vote bs [7%N] [2%N] (100 + p_common_blockDiff + 1)) = 1.
Proof. split; vm_compute; reflexivity. Qed.

(** * contracts/neofs/contract.go: threshold := len(alphabet)*2/3 + 1
    (the four vote-gated methods share [Vote.collect], hence [Vote.threshold]) *)

Lemma tie_threshold_cheque al :
  threshold al = teval_div no_var (only "alphabet" (Z.of_nat (length al))) p_neofs_Cheque_threshold_expr.
Proof. reflexivity. Qed.

Lemma tie_threshold_alphabet_update al :
  threshold al = teval_div no_var (only "alphabet" (Z.of_nat (length al))) p_neofs_AlphabetUpdate_threshold_expr.
Proof. reflexivity. Qed.

Lemma tie_threshold_set_config al :
  threshold al = teval_div no_var (only "alphabet" (Z.of_nat (length al))) p_neofs_SetConfig_threshold_expr.
Proof. reflexivity. Qed.

Lemma tie_threshold_candidate_remove al :
  threshold al = teval_div no_var (only "alphabet" (Z.of_nat (length al))) p_neofs_InnerRingCandidateRemove_threshold_expr.
Proof. reflexivity. Qed.

(** The spec writes the threshold [2 * n / 3 + 1]. *)
Lemma tie_thr_cheque n :
  thr n = teval_div no_var (only "alphabet" n) p_neofs_Cheque_threshold_expr.
Proof. unfold thr. rewrite Z.mul_comm. reflexivity. Qed.

Lemma tie_thr_alphabet_update n :
  thr n = teval_div no_var (only "alphabet" n) p_neofs_AlphabetUpdate_threshold_expr.
Proof. unfold thr. rewrite Z.mul_comm. reflexivity. Qed.

Lemma tie_thr_set_config n :
  thr n = teval_div no_var (only "alphabet" n) p_neofs_SetConfig_threshold_expr.
Proof. unfold thr. rewrite Z.mul_comm. reflexivity. Qed.

Lemma tie_thr_candidate_remove n :
  thr n = teval_div no_var (only "alphabet" n) p_neofs_InnerRingCandidateRemove_threshold_expr.
Proof. unfold thr. rewrite Z.mul_comm. reflexivity. Qed.

(** * contracts/neofs/contract.go: configuration keys and storage prefixes *)

(** CandidateFeeConfigKey = "InnerRingCandidateFee" *)
Lemma tie_candidate_fee_key : candidate_fee_key = bytes_of_string p_neofs_CandidateFeeConfigKey.
Proof. vm_compute. reflexivity. Qed.

(** Platform constant (neo-go storage key limit), not a constant of /repo. *)
Definition storage_key_limit : Z := 64.

(** A one-key alphabet (threshold 1): every vote is decisive. *)
Definition K1 : bytes := repeat 1%N 33.
Definition H0 : bytes := repeat 0%N 20.
Definition HC : bytes := repeat 9%N 20.
Definition key_of_len (n : Z) : bytes := repeat 5%N (Z.to_nat n).
Definition nstep0 := nstep (fun _ => true) (fun _ => HC) (fun k => k).
Definition outcome_of (r : nstate * option bool * list nnotif) : option bool := snd (fst r).

(** configPrefix = []byte("config"): [setConfig] stores at configPrefix ++ key,
    so the inline limit 58 of SetConfig is 64 - len(configPrefix). *)
Definition set_config_len (n : Z) : option bool :=
  outcome_of (nstep0 (ninit [K1] ∅ ∅) (mkNCtx [K1] 0 H0, SetConfig [7%N] (key_of_len n) [1%N])).
Lemma tie_config_prefix_limit :
  let n := storage_key_limit - Z.of_nat (length p_neofs_configPrefix) in
  set_config_len n = Some true /\ set_config_len (n + 1) = None.
Proof. split; vm_compute; reflexivity. Qed.

(** candidatesKey = "candidates": InnerRingCandidateAdd stores at
    []byte(candidatesKey) ++ key, so the inline limit 54 is 64 - len(candidatesKey).
    (The fee is read under [candidate_fee_key]: zero here.) *)
Definition cand_add_len (n : Z) : option bool :=
  let k := key_of_len n in
  outcome_of (nstep0 (ninit [K1] {[ candidate_fee_key := int_to_bytes 0 ]} ∅)
                     (mkNCtx [k; HC] 0 H0, CandidateAdd k)).
Lemma tie_candidates_prefix_limit :
  let n := storage_key_limit - Z.of_nat (String.length p_neofs_candidatesKey) in
  cand_add_len n = Some false /\ cand_add_len (n + 1) = None.
Proof. split; vm_compute; reflexivity. Qed.

(** ... and the same fee key as the source: with the fee stored under
    CandidateFeeConfigKey the registration goes through, without it it faults. *)
Lemma tie_candidate_fee_key_run :
  let k := key_of_len 33 in
  let go cfg := outcome_of (nstep0 (ninit [K1] cfg ∅) (mkNCtx [k; HC] 0 H0, CandidateAdd k)) in
  go {[ bytes_of_string p_neofs_CandidateFeeConfigKey := int_to_bytes 0 ]} = Some false /\
  go ∅ = None.
Proof. split; vm_compute; reflexivity. Qed.

(* NOT TIED: the suffix "delete" of the removal ballot id
   (contracts/neofs/contract.go:181, []byte("delete") inside
   InnerRingCandidateRemove) is not extracted into Gen/Params.v; Model/NeoFSVote.v
   abstracts the whole id as the section variable [del_id]. *)
(* NOT TIED: the notification names "Cheque" / "AlphabetUpdate" / "SetConfig"
   (contracts/neofs/contract.go:358, :450, :495, literals of runtime.Notify calls)
   are not extracted; the model names notifications by constructor. *)
(* NOT TIED (logic, not constants): found = -1 / found = 1 of common.Vote
   (common/vote.go:37, :69). *)
(* Platform constants, not in /repo: Hash160 length 20, compressed public key
   length 33, storage key limit 64, 32-byte integer limit. *)
