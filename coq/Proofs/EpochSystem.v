(** Proofs/EpochSystem.v — the composed epoch tick (Model/EpochSystem.v):
    the fan-out loop threads the Balance and Estimations states exactly once
    each, the composed tick is the Netmap tick of Model/Netmap.v with
    [sub_accepts] instantiated by the callee models, whole-transaction
    atomicity, and the bridges by which the C09 / C20 tick theorems apply to
    ticks delivered through Netmap. *)
From Verif Require Import Base.Prelude Base.IntCodec Model.StoreLib.
From Verif Require Import Model.Netmap Spec.NetmapSpec Proofs.NetmapBase Proofs.NetmapCand Proofs.NetmapTick.
From Verif Require Model.Balance Model.Estimations.
From Verif Require Import Model.EpochSystem.
From Coq Require Import ZifyBool ZifyNat ZifyN.
Local Open Scope Z_scope.

Section SystemProofs.
  Variables (d1 d2 : Z) (cap : list Z -> bool).
  Variables (nmH balH cntH : bytes).
  Variable other_ok : bytes -> bool.
  Variable other_accepts : bytes -> Z -> bool.
  Hypothesis Hdistinct : balH <> cntH.

  Notation bal_tick := (bal_tick nmH).
  Notation est_tick := (est_tick d1 d2 cap).
  Notation call_sub := (call_sub d1 d2 cap nmH balH cntH other_accepts).
  Notation sys_new_epoch := (sys_new_epoch d1 d2 cap nmH balH cntH other_accepts).
  Notation sys_exec := (sys_exec d1 d2 cap nmH balH cntH other_ok other_accepts).
  Notation sys_step := (sys_step d1 d2 cap nmH balH cntH other_ok other_accepts).
  Notation sys_sub_ok := (sys_sub_ok balH cntH other_ok).

  (** [sub_accepts] of Model/Netmap.v, instantiated by the callee models in
      the states [b], [es] the callees are in when the tick starts. *)
  Definition sys_accepts (c : sctx) (b : Balance.bstate) (es : Estimations.estate)
    : bytes -> Z -> bool :=
    fun h e =>
      if bytes_eqb h balH then match bal_tick c b e with Halt _ => true | Fault => false end
      else if bytes_eqb h cntH then match est_tick c es e with Halt _ => true | Fault => false end
      else other_accepts h e.

  (** The callee states after the fan-out over the subscribers [hs]: the
      callee's own tick applied once if it is subscribed, untouched otherwise. *)
  Definition bal_after (c : sctx) (b : Balance.bstate) (e : Z) (hs : list bytes) : Balance.bstate :=
    if decide (balH ∈ hs) then match bal_tick c b e with Halt (b', _) => b' | Fault => b end else b.
  Definition est_after (c : sctx) (es : Estimations.estate) (e : Z) (hs : list bytes)
    : Estimations.estate :=
    if decide (cntH ∈ hs) then match est_tick c es e with Halt es' => es' | Fault => es end else es.
  Definition call_events (c : sctx) (b : Balance.bstate) (e : Z) (h : bytes) : list snotif :=
    SN (NCall h e) ::
    (if bytes_eqb h balH then match bal_tick c b e with Halt (_, ns) => map SB ns | Fault => [] end
     else []).

  Lemma call_fold_fault c e ks : fold_left (call_sub c e) ks Fault = Fault.
  Proof. induction ks as [|k ks IH]; [reflexivity|]. exact IH. Qed.

  Lemma sys_accepts_other_b c b b' es h e : h <> balH ->
    sys_accepts c b' es h e = sys_accepts c b es h e.
  Proof. intros Hne. unfold sys_accepts. apply bytes_eqb_neq in Hne. by rewrite Hne. Qed.

  Lemma sys_accepts_other_es c b es es' h e : h <> cntH ->
    sys_accepts c b es' h e = sys_accepts c b es h e.
  Proof.
    intros Hne. unfold sys_accepts. apply bytes_eqb_neq in Hne. rewrite Hne. reflexivity.
  Qed.

  Lemma forallb_ext_in {A} (f g : A -> bool) l :
    (forall x, x ∈ l -> f x = g x) -> forallb f l = forallb g l.
  Proof.
    induction l as [|x l IH]; intros H; [reflexivity|]. cbn. rewrite (H x) by left.
    rewrite IH; [reflexivity|]. intros y Hy. apply H. by right.
  Qed.

  Lemma flat_map_ext_in {A B} (f g : A -> list B) l :
    (forall x, x ∈ l -> f x = g x) -> flat_map f l = flat_map g l.
  Proof.
    induction l as [|x l IH]; intros H; [reflexivity|]. cbn. rewrite (H x) by left.
    rewrite IH; [reflexivity|]. intros y Hy. apply H. by right.
  Qed.

  (** The fan-out loop. *)
  Lemma call_fold c e ks : Forall (fun k => k <> []) ks -> NoDup (tail <$> ks) ->
    forall b es ns,
    fold_left (call_sub c e) ks (Halt (b, es, ns)) =
    if forallb (fun h => sys_accepts c b es h e) (tail <$> ks)
    then Halt (bal_after c b e (tail <$> ks), est_after c es e (tail <$> ks),
               ns ++ flat_map (call_events c b e) (tail <$> ks))
    else Fault.
  Proof.
    intros Hne. induction Hne as [|k ks Hk _ IH]; intros Hnd b es ns.
    - cbn. unfold bal_after, est_after. rewrite !decide_False by apply not_elem_of_nil.
      by rewrite app_nil_r.
    - destruct k as [|x h]; [done|]. cbn [fmap list_fmap tail] in *.
      apply NoDup_cons in Hnd as [Hnin Hnd]. specialize (IH Hnd).
      cbn [fold_left forallb flat_map]. unfold call_sub at 2, EpochSystem.call_sub. cbn [obind].
      unfold sys_accepts at 1, call_events at 1.
      destruct (bytes_eqb h balH) eqn:Eb.
      + apply bytes_eqb_eq in Eb. subst h.
        destruct (bal_tick c b e) as [[b' bns]|] eqn:Et; cbn [obind andb]; [|apply call_fold_fault].
        rewrite IH.
        rewrite (forallb_ext_in (fun h => sys_accepts c b' es h e) (fun h => sys_accepts c b es h e))
          by (intros h Hh; apply sys_accepts_other_b; intros ->; contradiction).
        destruct (forallb _ _); [|reflexivity]. f_equal. f_equal; [f_equal|].
        * unfold bal_after. rewrite decide_False by exact Hnin. rewrite decide_True by left.
          by rewrite Et.
        * unfold est_after. apply decide_ext. rewrite elem_of_cons. split; [auto|].
          intros [Heq|?]; [by destruct Hdistinct|done].
        * rewrite <- app_assoc. f_equal. cbn [app]. f_equal. f_equal.
          apply flat_map_ext_in. intros h Hh. unfold call_events.
          assert (Hne : bytes_eqb h balH = false) by (apply bytes_eqb_neq; intros ->; contradiction).
          by rewrite Hne.
      + destruct (bytes_eqb h cntH) eqn:Ec.
        * apply bytes_eqb_eq in Ec. subst h.
          destruct (est_tick c es e) as [es'|] eqn:Et; cbn [obind andb]; [|apply call_fold_fault].
          rewrite IH.
          rewrite (forallb_ext_in (fun h => sys_accepts c b es' h e) (fun h => sys_accepts c b es h e))
            by (intros h Hh; apply sys_accepts_other_es; intros ->; contradiction).
          destruct (forallb _ _); [|reflexivity]. f_equal. f_equal; [f_equal|].
          -- unfold bal_after. apply decide_ext. rewrite elem_of_cons. split; [auto|].
             intros [Heq|?]; [by destruct Hdistinct|done].
          -- unfold est_after. rewrite decide_False by exact Hnin. rewrite decide_True by left.
             by rewrite Et.
          -- by rewrite <- app_assoc.
        * destruct (other_accepts h e); cbn [andb]; [|apply call_fold_fault].
          rewrite IH. destruct (forallb _ _); [|reflexivity]. f_equal. f_equal; [f_equal|].
          -- unfold bal_after. apply decide_ext. rewrite elem_of_cons. split; [auto|].
             intros [Heq|?]; [|done]. apply bytes_eqb_neq in Eb. congruence.
          -- unfold est_after. apply decide_ext. rewrite elem_of_cons. split; [auto|].
             intros [Heq|?]; [|done]. apply bytes_eqb_neq in Ec. congruence.
          -- by rewrite <- app_assoc.
  Qed.

  (** The composed tick, as an equation. *)
  Definition sys_tick_cond (c : sctx) (S : sys) (e : Z) : bool :=
    s_alpha c && (epoch (s_nm S) <? e) &&
    forallb (fun h => sys_accepts c (s_bal S) (s_est S) h e) (subscribers (s_nm S)).

  Definition sys_tick_result (c : sctx) (S : sys) (e : Z) : sys :=
    mkSys (tick_result (nctx_of c) (s_nm S) e)
          (bal_after c (s_bal S) e (subscribers (s_nm S)))
          (est_after c (s_est S) e (subscribers (s_nm S))).

  Lemma sys_new_epoch_eq c S e :
    tick_inv (s_nm S) ->
    sys_new_epoch c S e =
    if sys_tick_cond c S e
    then Halt (sys_tick_result c S e,
               flat_map (call_events c (s_bal S) e) (subscribers (s_nm S)) ++ [SN (NNewEpoch e)])
    else Fault.
  Proof.
    intros ((Hc & Hi) & (hs & Hnd & _ & Hk) & _). unfold EpochSystem.sys_new_epoch, sys_tick_cond. cbv zeta.
    destruct (s_alpha c); cbn [oassert obind andb]; [|reflexivity].
    replace (negb (e <=? epoch (s_nm S))) with (epoch (s_nm S) <? e) by lia.
    destruct (epoch (s_nm S) <? e); cbn [oassert obind andb]; [|reflexivity].
    rewrite vm_mod_pos by lia. cbn [obind].
    pose proof (Z.mod_pos_bound (cur (s_nm S) + 1) (count (s_nm S)) ltac:(lia)) as Hm.
    rewrite ring_key_byte by lia. cbn [obind]. rewrite tick_state_eq. cbn [subs].
    rewrite call_fold.
    - fold (subscribers (s_nm S)). destruct (forallb _ _); [|reflexivity]. cbn [obind app].
      unfold sys_tick_result, tick_result. cbv zeta. rewrite tick_state_eq. reflexivity.
    - rewrite Hk. apply imap_sub_key_nonempty.
    - rewrite Hk, imap_sub_key_tail. exact Hnd.
  Qed.

  (** ... which is the Netmap tick with the instantiated [sub_accepts]. *)
  Lemma sys_tick_is_netmap_tick c S e :
    tick_inv (s_nm S) ->
    nexec sys_sub_ok (sys_accepts c (s_bal S) (s_est S)) (nctx_of c) (s_nm S) (NewEpoch e) =
    if sys_tick_cond c S e
    then Halt (tick_result (nctx_of c) (s_nm S) e,
               map (fun h => NCall h e) (subscribers (s_nm S)) ++ [NNewEpoch e])
    else Fault.
  Proof. intros (Hr & Hs & _). rewrite nexec_new_epoch by assumption. reflexivity. Qed.

  (** The composed system keeps the Netmap invariant. *)
  Lemma sys_exec_tick_inv c S o S' r ns :
    tick_inv (s_nm S) -> sys_exec c S o = Halt (S', r, ns) -> tick_inv (s_nm S').
  Proof.
    intros Hi H. destruct o as [o'| | |]; cbn [EpochSystem.sys_exec] in H.
    - destruct o'; try (inv_ob H; destruct x as [nm' ns']; injection H as <- _ _;
                        cbn [s_nm]; eapply nexec_tick_inv; eassumption).
      inv_ob H. destruct x as [S1 ns1]. injection H as <- _ _.
      rewrite sys_new_epoch_eq in Eo by exact Hi.
      destruct (sys_tick_cond c S e) eqn:Hc; [|discriminate]. injection Eo as <- _. cbn [s_nm sys_tick_result].
      pose proof (sys_tick_is_netmap_tick c S e Hi) as Hn. rewrite Hc in Hn.
      eapply nexec_tick_inv; eassumption.
    - inv_ob H. destruct x as [[b' r'] ns']. injection H as <- _ _. exact Hi.
    - inv_ob H. injection H as <- _ _. exact Hi.
    - inv_ob H. injection H as <- _ _. exact Hi.
  Qed.

  Lemma sys_step_tick_inv S co : tick_inv (s_nm S) -> tick_inv (s_nm (fst (fst (sys_step S co)))).
  Proof.
    intros Hi. unfold EpochSystem.sys_step.
    destruct (sys_exec (fst co) S (snd co)) as [[[S' r] ns]|] eqn:He; [|exact Hi].
    cbn. eapply sys_exec_tick_inv; eassumption.
  Qed.

  Lemma sys_run_tick_inv S ops :
    tick_inv (s_nm S) ->
    tick_inv (s_nm (sys_run_from d1 d2 cap nmH balH cntH other_ok other_accepts S ops)).
  Proof.
    revert S; induction ops as [|co ops IH]; intros S Hi; [exact Hi|].
    cbn [sys_run_from fold_left]. apply IH. by apply sys_step_tick_inv.
  Qed.

  (** The bridges: what a successful composed tick did to each callee. *)
  Lemma sys_tick_balance c S e S' r ns :
    tick_inv (s_nm S) -> sys_exec c S (SNm (NewEpoch e)) = Halt (S', r, ns) ->
    (balH ∈ subscribers (s_nm S) ->
       exists r' bns, Balance.bexec (callee_bctx nmH c) (s_bal S) (Balance.NewEpoch e)
                      = Halt (s_bal S', r', bns)) /\
    (balH ∉ subscribers (s_nm S) -> s_bal S' = s_bal S).
  Proof.
    intros Hi H. cbn [EpochSystem.sys_exec] in H. inv_ob H. destruct x as [S1 ns1]. injection H as <- _ _.
    rewrite sys_new_epoch_eq in Eo by exact Hi.
    destruct (sys_tick_cond c S e) eqn:Hc; [|discriminate]. injection Eo as <- _.
    cbn [s_bal sys_tick_result]. unfold bal_after. split; intros Hin.
    - rewrite decide_True by exact Hin.
      unfold sys_tick_cond in Hc. apply andb_true_iff in Hc as [_ Hf]. rewrite forallb_forall in Hf.
      specialize (Hf balH ltac:(by apply elem_of_list_In)). unfold sys_accepts in Hf.
      rewrite bytes_eqb_refl in Hf. unfold EpochSystem.bal_tick in *.
      destruct (Balance.bexec _ _ _) as [[[b' r'] bns]|]; [|discriminate]. cbn. eauto.
    - by rewrite decide_False by exact Hin.
  Qed.

  Lemma sys_tick_estimations c S e S' r ns :
    tick_inv (s_nm S) -> sys_exec c S (SNm (NewEpoch e)) = Halt (S', r, ns) ->
    (cntH ∈ subscribers (s_nm S) ->
       Estimations.eexec d1 d2 cap (s_est S) (Estimations.ETick (s_alpha c) e) = Halt (s_est S')) /\
    (cntH ∉ subscribers (s_nm S) -> s_est S' = s_est S).
  Proof.
    intros Hi H. cbn [EpochSystem.sys_exec] in H. inv_ob H. destruct x as [S1 ns1]. injection H as <- _ _.
    rewrite sys_new_epoch_eq in Eo by exact Hi.
    destruct (sys_tick_cond c S e) eqn:Hc; [|discriminate]. injection Eo as <- _.
    cbn [s_est sys_tick_result]. unfold est_after. split; intros Hin.
    - rewrite decide_True by exact Hin.
      unfold sys_tick_cond in Hc. apply andb_true_iff in Hc as [_ Hf]. rewrite forallb_forall in Hf.
      specialize (Hf cntH ltac:(by apply elem_of_list_In)). unfold sys_accepts in Hf.
      assert (Hne : bytes_eqb cntH balH = false) by (apply bytes_eqb_neq; congruence).
      rewrite Hne, bytes_eqb_refl in Hf. unfold EpochSystem.est_tick in *.
      destruct (Estimations.eexec _ _ _ _ _) as [es'|]; [reflexivity|discriminate].
    - by rewrite decide_False by exact Hin.
  Qed.

  (** When does the composed tick halt. *)
  Lemma sys_tick_halts_iff c S e :
    tick_inv (s_nm S) ->
    (exists S' r ns, sys_exec c S (SNm (NewEpoch e)) = Halt (S', r, ns)) <->
    (s_alpha c = true /\ epoch (s_nm S) < e /\
     forall h, h ∈ subscribers (s_nm S) -> sys_accepts c (s_bal S) (s_est S) h e = true).
  Proof.
    intros Hi. cbn [EpochSystem.sys_exec]. rewrite sys_new_epoch_eq by exact Hi. unfold sys_tick_cond.
    destruct (s_alpha c); cbn [andb].
    2:{ split; [intros (? & ? & ? & [=])|intros ([=] & _)]. }
    destruct (Z.ltb_spec (epoch (s_nm S)) e) as [Hlt|Hge]; cbn [andb].
    2:{ split; [intros (? & ? & ? & [=])|intros (_ & ? & _); lia]. }
    destruct (forallb _ (subscribers (s_nm S))) eqn:Hf; cbn [obind].
    - split; [|eauto]. intros _. rewrite forallb_forall in Hf. repeat split; [exact Hlt|].
      intros h Hh. apply Hf. by apply elem_of_list_In.
    - split; [intros (? & ? & ? & [=])|]. intros (_ & _ & Hall). exfalso.
      assert (forallb (fun h => sys_accepts c (s_bal S) (s_est S) h e) (subscribers (s_nm S)) = true);
        [|congruence].
      apply forallb_forall. intros h Hh. apply Hall. by apply elem_of_list_In.
  Qed.
  (** Shape of a successful composed tick. *)
  Lemma sys_tick_shape c S e S' r ns :
    tick_inv (s_nm S) -> sys_exec c S (SNm (NewEpoch e)) = Halt (S', r, ns) ->
    sys_tick_cond c S e = true /\ S' = sys_tick_result c S e /\ r = VNull /\
    ns = flat_map (call_events c (s_bal S) e) (subscribers (s_nm S)) ++ [SN (NNewEpoch e)].
  Proof.
    intros Hi H. cbn [EpochSystem.sys_exec] in H. inv_ob H. destruct x as [S1 ns1]. injection H as <- <- <-.
    rewrite sys_new_epoch_eq in Eo by exact Hi.
    destruct (sys_tick_cond c S e) eqn:Hc; [|discriminate]. injection Eo as <- <-. auto.
  Qed.

  (** Atomicity: a rejecting subscriber (a callee whose own step faults)
      makes the whole transaction fault. *)
  Lemma sys_tick_rejected c S e h :
    tick_inv (s_nm S) -> h ∈ subscribers (s_nm S) ->
    sys_accepts c (s_bal S) (s_est S) h e = false ->
    sys_step S (c, SNm (NewEpoch e)) = (S, VFault, []).
  Proof.
    intros Hi Hin Hrej. unfold EpochSystem.sys_step. cbn [fst snd].
    destruct (sys_exec c S (SNm (NewEpoch e))) as [[[S' r] ns]|] eqn:He; [|reflexivity]. exfalso.
    assert (Hh : exists S' r ns, sys_exec c S (SNm (NewEpoch e)) = Halt (S', r, ns)) by eauto.
    apply (sys_tick_halts_iff c S e Hi) in Hh as (_ & _ & Hall). rewrite (Hall h Hin) in Hrej. discriminate.
  Qed.
End SystemProofs.
