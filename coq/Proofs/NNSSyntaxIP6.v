(** Proofs/NNSSyntaxIP6.v — lemmas for C18, part 4 (AAAA records): the loop
    of checkIPv6 (Model/NNSSyntax.v) on every shape of the fragment list, and
    from it what the function accepted BEFORE commit 7bd3a2c
    ([checkIPv6_old], Model/NNSSyntaxF12.v): [valid_AAAA] of Spec/Grammar.v
    (RFC 4291 text forms 1 and 2 of a global unicast address) minus the form
    "seven groups followed by ::" (finding F12).  Proofs/NNSSyntaxF12.v lifts
    this to the current function, which accepts exactly [valid_AAAA]. *)
From Verif Require Import Base.Prelude Model.NNSSyntax Model.NNSSyntaxF12 Spec.Grammar Proofs.NNSSyntaxLib.
From Coq Require Import ZifyBool ZifyNat ZifyN.
Local Open Scope Z_scope.

(* ------------------------------------------------------------------ *)
(** * Hexadecimal groups: the model's functions are the grammar's *)

Lemma hex_digit_hexd c : hex_digit c = hexd c.
Proof.
  unfold hex_digit, hexd, byte_in.
  destruct ((48 <=? c) && (c <=? 57))%N; [reflexivity|].
  destruct ((97 <=? c) && (c <=? 102))%N; [f_equal; lia|].
  destruct ((65 <=? c) && (c <=? 70))%N; [f_equal; lia|reflexivity].
Qed.

Lemma hex_digit_val_hexdv c : hex_digit_val c = hexdv c.
Proof. unfold hex_digit_val, hexdv. rewrite hex_digit_hexd. reflexivity. Qed.

Lemma hex_value_hexval_from g a :
  fold_left (fun acc c => 16 * acc + hex_digit_val c) g a =
  fold_left (fun acc c => 16 * acc + hexdv c) g a.
Proof.
  revert a. induction g as [|c g IH]; intros a; cbn [fold_left]; [reflexivity|].
  rewrite hex_digit_val_hexdv. apply IH.
Qed.

Lemma hex_value_hexval g : hex_value g = hexval g.
Proof. apply hex_value_hexval_from. Qed.

Lemma is_hex_spec c : is_hex c = true <-> hexd c <> None.
Proof.
  unfold is_hex. rewrite hex_digit_hexd. destruct (hexd c); split; congruence.
Qed.

Lemma is_hex_forallb g : forallb is_hex g = true <-> Forall (fun c => hexd c <> None) g.
Proof.
  induction g as [|c g IH]; simpl; [split; [constructor|reflexivity]|].
  rewrite andb_true_iff, Forall_cons, is_hex_spec, IH. tauto.
Qed.

Lemma hexd_ascii c : hexd c <> None -> (c < 128)%N /\ c <> 58%N.
Proof.
  unfold hexd.
  destruct ((48 <=? c) && (c <=? 57))%N eqn:E1; [lia|].
  destruct ((97 <=? c) && (c <=? 102))%N eqn:E2; [lia|].
  destruct ((65 <=? c) && (c <=? 70))%N eqn:E3; [lia|congruence].
Qed.

Lemma hexdv_range c : 0 <= hexdv c <= 15.
Proof.
  unfold hexdv, hexd.
  destruct ((48 <=? c) && (c <=? 57))%N eqn:E1; [lia|].
  destruct ((97 <=? c) && (c <=? 102))%N eqn:E2; [lia|].
  destruct ((65 <=? c) && (c <=? 70))%N eqn:E3; lia.
Qed.

Lemma hexgroup_chars g : hexgroup g ->
  Forall (fun c => (c < 128)%N) g /\ Forall (fun c => c <> 58%N) g.
Proof.
  intros [_ H]. split; eapply Forall_impl; try exact H; intros c Hc; apply hexd_ascii in Hc; tauto.
Qed.

(** A group of at most four hexadecimal digits is a 16-bit number. *)
Lemma hexval_range g : (length g <= 4)%nat -> 0 <= hexval g <= 65535.
Proof.
  intros Hl. unfold hexval.
  destruct g as [|a [|b [|c [|d [|e g]]]]]; cbn [fold_left length] in *; try lia;
    pose proof (hexdv_range a); try pose proof (hexdv_range b);
    try pose proof (hexdv_range c); try pose proof (hexdv_range d); lia.
Qed.

Lemma hexgroupb_spec g : hexgroupb g = true <-> hexgroup g.
Proof.
  unfold hexgroupb, hexgroup. rewrite !andb_true_iff, !Nat.leb_le.
  assert (H : forallb (fun c => match hexd c with Some _ => true | None => false end) g = true <->
              Forall (fun c => hexd c <> None) g).
  { induction g as [|c g IH]; simpl; [split; [constructor|reflexivity]|].
    rewrite andb_true_iff, Forall_cons, IH. destruct (hexd c); intuition congruence. }
  rewrite H. tauto.
Qed.

Lemma hexgroup_dec g : hexgroup g \/ ~ hexgroup g.
Proof. rewrite <- hexgroupb_spec. destruct (hexgroupb g); [left|right]; congruence. Qed.

(** [std.Atoi("0"+g, 16)] of a group is its value ... *)
Lemma parse_good g : hexgroup g -> parse_group g = Halt (hexval g).
Proof.
  intros Hg. destruct (hexgroup_chars g Hg) as [Hasc _]. destruct Hg as [Hl Hh].
  unfold parse_group, std_atoi16.
  rewrite to_limited_ok; [|constructor; [lia|assumption]|unfold len; cbn [length]; lia].
  cbn [obind]. apply is_hex_forallb in Hh.
  cbn [forallb]. rewrite Hh. change (is_hex 48) with true. cbn [andb negb].
  change (hex_digit_val 48) with 0. change (8 <=? 0) with false. cbn iota.
  rewrite <- hex_value_hexval. reflexivity.
Qed.

(** ... and of anything else of length 1..4 a fault of the native. *)
Lemma parse_bad g : ~ hexgroup g -> g <> [] -> len g <= 4 -> parse_group g = Fault.
Proof.
  intros Hn Hne Hl. unfold parse_group, std_atoi16.
  destruct (to_limited_string (48%N :: g)) as [s'|] eqn:E; [|reflexivity].
  apply to_limited_inv in E. subst s'. cbn [obind forallb].
  change (is_hex 48) with true. cbn [andb].
  destruct (forallb is_hex g) eqn:Eh; [|reflexivity].
  exfalso. apply Hn. split.
  - destruct g; [congruence|]. unfold len in Hl. cbn [length] in *. lia.
  - apply is_hex_forallb. assumption.
Qed.

(* ------------------------------------------------------------------ *)
(** * Array writes *)

Lemma len_app {A} (a b : list A) : len (a ++ b) = len a + len b.
Proof. unfold len. rewrite app_length. lia. Qed.
Lemma len_cons {A} (x : A) (a : list A) : len (x :: a) = 1 + len a.
Proof. unfold len. cbn [length]. lia. Qed.
Lemma len_nonneg {A} (a : list A) : 0 <= len a.
Proof. unfold len. lia. Qed.

Lemma set_num_mid (pre : list Z) x post k n :
  k = len pre -> set_num (pre ++ x :: post) k n = Halt (pre ++ n :: post).
Proof.
  intros ->. unfold set_num. rewrite len_app, len_cons.
  pose proof (len_nonneg pre). pose proof (len_nonneg post).
  replace ((0 <=? len pre) && (len pre <? len pre + (1 + len post))) with true by lia.
  f_equal. unfold len. rewrite Nat2Z.id.
  rewrite insert_app_r_alt by lia. rewrite Nat.sub_diag. reflexivity.
Qed.

Lemma zero_fill_mid junk : forall (pre post : list Z) j,
  j = len pre ->
  zero_fill (pre ++ junk ++ post) j (length junk) = Halt (pre ++ repeat 0 (length junk) ++ post).
Proof.
  induction junk as [|x junk IH]; intros pre post j Hj; cbn [zero_fill length repeat app].
  - reflexivity.
  - rewrite (set_num_mid pre x (junk ++ post) j 0 Hj). cbn [obind].
    change (pre ++ 0 :: junk ++ post) with (pre ++ [0] ++ junk ++ post).
    rewrite app_assoc. rewrite IH by (rewrite len_app, len_cons; unfold len at 2; cbn; lia).
    rewrite <- app_assoc. reflexivity.
Qed.

(* ------------------------------------------------------------------ *)
(** * The loop of checkIPv6_old *)

Lemma loop_cons (F : list bytes) (l : Z) (f : bytes) (rest' : list bytes) (i : Z) (hasEmpty : bool) (nums : list Z) :
  ipv6_loop F l (f :: rest') i hasEmpty nums =
      (if len f =? 0 then
        if i =? 0 then
          f1 <-! index F 1;
          if negb (len f1 =? 0) then Halt None
          else
            nums' <-! set_num nums i 0;
            ipv6_loop F l rest' (i + 1) hasEmpty nums'
        else if i =? l - 1 then
          fp <-! index F (i - 1);
          if negb (len fp =? 0) then Halt None
          else
            nums' <-! set_num nums 7 0;
            ipv6_loop F l rest' (i + 1) hasEmpty nums'
        else if hasEmpty then Halt None
        else
          let endIndex := 9 - l + i in
          nums' <-! zero_fill nums i (Z.to_nat (endIndex - i));
          ipv6_loop F l rest' (i + 1) true nums'
      else
        if 4 <? len f then Halt None
        else
          n <-! parse_group f;
          if 65535 <? n then Fault
          else
            let idx := if hasEmpty then i + 8 - l else i in
            nums' <-! set_num nums idx n;
            ipv6_loop F l rest' (i + 1) hasEmpty nums').
Proof. reflexivity. Qed.

Lemma len_zero_iff (f : bytes) : (len f =? 0) = true <-> f = [].
Proof. unfold len. destruct f; cbn [length]; split; try congruence; lia. Qed.

Lemma hexgroup_len g : hexgroup g -> 1 <= len g <= 4.
Proof. intros [H _]. unfold len. lia. Qed.

(** A run of groups is stored left to right. *)
Lemma loop_groups F l gs : forall rest' i (he : bool) (pre junk post : list Z),
  Forall hexgroup gs -> length junk = length gs ->
  (if he then i + 8 - l else i) = len pre ->
  ipv6_loop F l (gs ++ rest') i he (pre ++ junk ++ post) =
  ipv6_loop F l rest' (i + len gs) he (pre ++ map hexval gs ++ post).
Proof.
  induction gs as [|g gs IH]; intros rest' i he pre junk post HF Hj Hi.
  - destruct junk; [|discriminate]. cbn [app map]. f_equal. unfold len. cbn. lia.
  - destruct junk as [|x junk]; [discriminate|]. apply Forall_cons in HF as [Hg HF].
    cbn [app]. rewrite loop_cons.
    pose proof (hexgroup_len g Hg) as Hl.
    replace (len g =? 0) with false by lia. replace (4 <? len g) with false by lia.
    rewrite (parse_good g Hg). cbn [obind].
    pose proof (hexval_range g ltac:(destruct Hg; lia)) as Hr.
    replace (65535 <? hexval g) with false by lia. cbv zeta.
    rewrite (set_num_mid pre x (junk ++ post) _ (hexval g) Hi). cbn [obind].
    change (pre ++ hexval g :: junk ++ post) with (pre ++ [hexval g] ++ junk ++ post).
    rewrite app_assoc.
    rewrite (IH rest' (i + 1) he (pre ++ [hexval g]) junk post HF).
    + rewrite <- app_assoc. cbn [map app]. f_equal. rewrite len_cons. lia.
    + cbn [length] in Hj. lia.
    + rewrite len_app. change (len [hexval g]) with 1. destruct he; lia.
Qed.

Ltac step :=
  match goal with
  | |- context [obind ?o _] => destruct o eqn:?; cbn [obind]
  | |- context [if ?b then _ else _] => destruct b eqn:?
  end.

(** A non-empty fragment that is not a group is never accepted. *)
Lemma loop_bad F l rest : forall i he nums,
  Exists (fun f => f <> [] /\ ~ hexgroup f) rest ->
  forall r, ipv6_loop F l rest i he nums <> Halt (Some r).
Proof.
  induction rest as [|f rest IH]; intros i he nums Hex r.
  - inversion Hex.
  - rewrite loop_cons. apply Exists_cons in Hex.
    destruct (len f =? 0) eqn:E0.
    + apply len_zero_iff in E0. destruct Hex as [[Hne _]|Hex]; [congruence|].
      repeat step; try discriminate; apply IH; assumption.
    + destruct (4 <? len f) eqn:E4; [discriminate|].
      destruct Hex as [[Hne Hbad]|Hex].
      * rewrite (parse_bad f Hbad Hne) by lia. discriminate.
      * cbv zeta. repeat step; try discriminate; apply IH; assumption.
Qed.

(** After the "::" a second empty fragment that is not the last one is fatal. *)
Lemma loop_inner_empty F l rest : forall i nums,
  1 <= i -> i + len rest = l ->
  (exists a b, rest = a ++ [] :: b /\ b <> []) ->
  forall r, ipv6_loop F l rest i true nums <> Halt (Some r).
Proof.
  induction rest as [|f rest IH]; intros i nums Hi Hl (a & b & Hab & Hb) r.
  - destruct a; discriminate.
  - rewrite loop_cons. rewrite len_cons in Hl.
    destruct a as [|x a].
    + cbn [app] in Hab. injection Hab as -> ->.
      change (len [] =? 0) with true. cbv iota.
      assert (0 < len b) by (destruct b; [congruence|rewrite len_cons; pose proof (len_nonneg b); lia]).
      replace (i =? 0) with false by lia. replace (i =? l - 1) with false by lia.
      discriminate.
    + cbn [app] in Hab. injection Hab as -> ->.
      assert (Hlen : 0 < len (a ++ [] :: b)).
      { rewrite len_app, len_cons. pose proof (len_nonneg a). pose proof (len_nonneg b). lia. }
      assert (Hrec : forall nums', ipv6_loop F l (a ++ [] :: b) (i + 1) true nums' <> Halt (Some r)).
      { intros nums'. apply IH; [lia|lia|eauto]. }
      replace (i =? 0) with false by lia. replace (i =? l - 1) with false by lia.
      cbv zeta. repeat step; try discriminate; apply Hrec.
Qed.

(** An empty last fragment needs an empty fragment before it. *)
Lemma loop_last_empty (F gs : list bytes) : forall (preF : list bytes) i he nums,
  gs <> [] -> Forall (fun f => f <> []) gs ->
  F = preF ++ gs ++ [[]] -> i = len preF ->
  forall r, ipv6_loop F (len F) (gs ++ [[]]) i he nums <> Halt (Some r).
Proof.
  induction gs as [|g gs IH]; intros preF i he nums Hne HF HFeq Hi r; [congruence|].
  apply Forall_cons in HF as [Hg HF]. cbn [app]. rewrite loop_cons.
  replace (len g =? 0) with false
    by (symmetry; apply not_true_is_false; rewrite len_zero_iff; assumption).
  destruct gs as [|g2 gs].
  - (* the next fragment is the last one and [g] precedes it *)
    cbn [app]. cbv zeta.
    assert (HlF : len F = i + 2).
    { rewrite HFeq, len_app. cbn [app]. rewrite !len_cons. unfold len at 2. cbn [length]. lia. }
    assert (Hidx : @index bytes F (i + 1 - 1) = Halt g).
    { unfold index. pose proof (len_nonneg preF).
      replace (i + 1 - 1 <? 0) with false by lia.
      replace (Z.to_nat (i + 1 - 1)) with (length preF) by (unfold len in Hi; lia).
      rewrite HFeq. rewrite nth_error_app2 by lia. rewrite Nat.sub_diag. reflexivity. }
    repeat step; try discriminate.
    all: rewrite loop_cons; change (len [] =? 0) with true; cbv iota.
    all: pose proof (len_nonneg preF).
    all: replace (i + 1 =? 0) with false by lia.
    all: replace (i + 1 =? len F - 1) with true by lia.
    all: rewrite Hidx; cbn [obind].
    all: replace (len g =? 0) with false
           by (symmetry; apply not_true_is_false; rewrite len_zero_iff; assumption).
    all: discriminate.
  - assert (Hrec : forall he' nums', ipv6_loop F (len F) ((g2 :: gs) ++ [[]]) (i + 1) he' nums' <> Halt (Some r)).
    { intros he' nums'. apply (IH (preF ++ [g])); [discriminate|assumption| |].
      - rewrite HFeq, <- app_assoc. reflexivity.
      - rewrite len_app. change (len [g]) with 1. lia. }
    cbv zeta. repeat step; try discriminate; apply Hrec.
Qed.

(* ------------------------------------------------------------------ *)
(** * The five accepted shapes of the fragment list *)

Definition run (F : list bytes) : outcome (option (bool * list Z)) :=
  ipv6_loop F (len F) F 0 false (repeat 0 8).

Definition vals (gs : list bytes) : list Z := map hexval gs.
Notation zeros := (repeat 0).

Lemma zeros_split (a b : nat) : zeros (a + b) = zeros a ++ zeros b.
Proof. apply repeat_app. Qed.

Lemma len_vals gs : len (vals gs) = len gs.
Proof. unfold len, vals. rewrite map_length. reflexivity. Qed.
Lemma len_zeros n : len (zeros n) = Z.of_nat n.
Proof. unfold len. rewrite repeat_length. reflexivity. Qed.

(** Form 1 (and its prefixes): groups only. *)
Lemma run_groups (G : list bytes) :
  Forall hexgroup G -> (length G <= 8)%nat ->
  run G = Halt (Some (false, vals G ++ zeros (8 - length G))).
Proof.
  intros HG Hl. unfold run.
  replace 8%nat with (length G + (8 - length G))%nat at 1 by lia. rewrite zeros_split.
  pose proof (loop_groups G (len G) G [] 0 false [] (zeros (length G)) (zeros (8 - length G)) HG) as H.
  rewrite app_nil_r in H. cbn [app] in H. rewrite H; [reflexivity|apply repeat_length|reflexivity].
Qed.

(** "L::t": the groups before the compression and the compression itself
    (it is neither the first nor the last fragment). *)
Lemma run_mid_start (L t : list bytes) :
  L <> [] -> t <> [] -> Forall hexgroup L -> (length L + length t <= 7)%nat ->
  run (L ++ [] :: t) =
  ipv6_loop (L ++ [] :: t) (len (L ++ [] :: t)) t (0 + len L + 1) true
    (vals L ++ zeros (8 - length L - length t) ++ zeros (length t)).
Proof.
  intros HL HR GL Hlen. unfold run.
  set (F := L ++ [] :: t). set (l := len F).
  assert (Hl : l = len L + 1 + len t) by (subst l F; rewrite len_app, len_cons; lia).
  assert (HL1 : 1 <= len L) by (destruct L; [congruence|rewrite len_cons; pose proof (len_nonneg L); lia]).
  assert (HR1 : 1 <= len t) by (destruct t; [congruence|rewrite len_cons; pose proof (len_nonneg t); lia]).
  set (k := (8 - length L - length t)%nat).
  replace 8%nat with (length L + (k + length t))%nat by (subst k; lia).
  rewrite !zeros_split.
  unfold F at 2.
  pose proof (loop_groups F l L ([] :: t) 0 false [] (zeros (length L)) (zeros k ++ zeros (length t)) GL) as H1.
  cbn [app] in H1. rewrite H1; [|apply repeat_length|reflexivity]. clear H1.
  rewrite loop_cons. change (len [] =? 0) with true. cbv iota.
  replace (0 + len L =? 0) with false by lia.
  replace (0 + len L =? l - 1) with false by lia. cbv zeta.
  replace (Z.to_nat (9 - l + (0 + len L) - (0 + len L))) with (length (zeros k))
    by (rewrite repeat_length; subst k; unfold len in *; lia).
  rewrite (zero_fill_mid (zeros k) (map hexval L) (zeros (length t)))
    by (fold (vals L); rewrite len_vals; lia).
  cbn [obind]. rewrite repeat_length. reflexivity.
Qed.

(** L :: R with both sides present. *)
Lemma run_mid (L R : list bytes) :
  L <> [] -> R <> [] -> Forall hexgroup L -> Forall hexgroup R -> (length L + length R <= 7)%nat ->
  run (L ++ [] :: R) =
  Halt (Some (true, vals L ++ zeros (8 - length L - length R) ++ vals R)).
Proof.
  intros HL HR GL GR Hlen. rewrite run_mid_start by assumption.
  set (F := L ++ [] :: R). set (l := len F).
  assert (Hl : l = len L + 1 + len R) by (subst l F; rewrite len_app, len_cons; lia).
  set (k := (8 - length L - length R)%nat).
  pose proof (loop_groups F l R [] (0 + len L + 1) true (vals L ++ zeros k) (zeros (length R)) [] GR) as H2.
  rewrite !app_nil_r in H2. rewrite <- !app_assoc in H2. rewrite H2.
  - reflexivity.
  - apply repeat_length.
  - rewrite len_app, len_vals, len_zeros. subst k. unfold len in *. lia.
Qed.

Lemma index_nth {A} (F : list A) (z : Z) (k : nat) (x : A) :
  0 <= z -> Z.to_nat z = k -> nth_error F k = Some x -> index F z = Halt x.
Proof.
  intros Hz <- H. unfold index. replace (z <? 0) with false by lia.
  rewrite H. reflexivity.
Qed.

(** "::t": the two empty fragments of a leading compression. *)
Lemma run_left_start (t : list bytes) :
  t <> [] -> (length t <= 7)%nat ->
  run (([] : bytes) :: [] :: t) =
  ipv6_loop (([] : bytes) :: [] :: t) (len (([] : bytes) :: [] :: t)) t (0 + 1 + 1) true
    (zeros (8 - length t) ++ zeros (length t)).
Proof.
  intros HR Hlen. unfold run.
  set (F := ([] : bytes) :: [] :: t). set (l := len F).
  assert (Hl : l = 2 + len t) by (subst l F; unfold len; cbn [length]; lia).
  assert (HR1 : 1 <= len t) by (destruct t; [congruence|rewrite len_cons; pose proof (len_nonneg t); lia]).
  unfold F at 2. rewrite loop_cons. change (len [] =? 0) with true. cbv iota.
  change (0 =? 0) with true. cbv iota.
  rewrite (index_nth F 1 1 []) by (reflexivity || lia). cbn [obind]. change (len [] =? 0) with true. cbn [negb].
  change (set_num (zeros 8) 0 0) with (Halt (zeros 8)). cbn [obind].
  rewrite loop_cons. change (len [] =? 0) with true. cbv iota.
  change (0 + 1 =? 0) with false. replace (0 + 1 =? l - 1) with false by lia. cbv iota zeta.
  set (k := (7 - length t)%nat). set (m := (8 - length t)%nat).
  replace 8%nat with (1 + (k + length t))%nat by (subst k; lia).
  rewrite !zeros_split.
  replace (Z.to_nat (9 - l + (0 + 1) - (0 + 1))) with (length (zeros (k)))
    by (rewrite repeat_length; subst k; unfold len in *; lia).
  rewrite (zero_fill_mid (zeros (k)) (zeros 1) (zeros (length t))) by reflexivity.
  cbn [obind]. rewrite repeat_length.
  rewrite (app_assoc (zeros 1)), <- zeros_split. do 3 f_equal. subst k m. lia.
Qed.

(** "::R": the compression at the left end. *)
Lemma run_left (R : list bytes) :
  R <> [] -> Forall hexgroup R -> (length R <= 7)%nat ->
  run (([] : bytes) :: [] :: R) = Halt (Some (true, zeros (8 - length R) ++ vals R)).
Proof.
  intros HR GR Hlen. rewrite run_left_start by assumption.
  set (F := ([] : bytes) :: [] :: R). set (l := len F).
  assert (Hl : l = 2 + len R) by (subst l F; unfold len; cbn [length]; lia).
  pose proof (loop_groups F l R [] (0 + 1 + 1) true (zeros (8 - length R)) (zeros (length R)) [] GR) as H2.
  rewrite !app_nil_r in H2. rewrite H2.
  - reflexivity.
  - apply repeat_length.
  - rewrite len_zeros. unfold len in *. lia.
Qed.

(** "L::": the compression at the right end. *)
Lemma run_right (L : list bytes) :
  L <> [] -> Forall hexgroup L -> (length L <= 7)%nat ->
  run (L ++ [[]; []]) = Halt (Some (true, vals L ++ zeros (8 - length L))).
Proof.
  intros HL GL Hlen. unfold run.
  set (F := L ++ [[]; []]). set (l := len F).
  assert (Hl : l = len L + 2) by (subst l F; rewrite len_app; reflexivity).
  assert (HL1 : 1 <= len L) by (destruct L; [congruence|rewrite len_cons; pose proof (len_nonneg L); lia]).
  set (k := (7 - length L)%nat).
  replace 8%nat with (length L + (k + 1))%nat at 1 by (subst k; lia).
  rewrite !zeros_split.
  unfold F at 2.
  pose proof (loop_groups F l L [[]; []] 0 false [] (zeros (length L)) (zeros (k) ++ zeros 1) GL) as H1.
  cbn [app] in H1. cbn [app]. rewrite H1; [|apply repeat_length|reflexivity]. clear H1.
  rewrite loop_cons. change (len [] =? 0) with true. cbv iota.
  replace (0 + len L =? 0) with false by lia.
  replace (0 + len L =? l - 1) with false by lia. cbv zeta.
  replace (Z.to_nat (9 - l + (0 + len L) - (0 + len L))) with (length (zeros (k)))
    by (rewrite repeat_length; subst k; unfold len in *; lia).
  rewrite (zero_fill_mid (zeros (k)) (map hexval L) (zeros 1))
    by (fold (vals L); rewrite len_vals; lia).
  cbn [obind]. rewrite repeat_length.
  rewrite loop_cons. change (len [] =? 0) with true. cbv iota.
  replace (0 + len L + 1 =? 0) with false by lia.
  replace (0 + len L + 1 =? l - 1) with true by lia.
  rewrite (index_nth F _ (length L) []).
  2:{ lia. }
  2:{ unfold len. lia. }
  2:{ subst F. rewrite nth_error_app2 by lia. rewrite Nat.sub_diag. reflexivity. }
  cbn [obind]. change (len [] =? 0) with true. cbn [negb].
  change (zeros 1) with [0].
  rewrite app_assoc. rewrite (set_num_mid (map hexval L ++ zeros (k)) 0 [] 7 0).
  2:{ rewrite len_app. fold (vals L). rewrite len_vals, len_zeros. subst k. unfold len in *. lia. }
  cbn [obind ipv6_loop]. rewrite <- app_assoc.
  do 3 f_equal. f_equal. change [0] with (zeros 1). rewrite <- zeros_split. f_equal. subst k. lia.
Qed.

(** "::" alone. *)
Lemma run_unspecified : run [[]; []; []] = Halt (Some (true, zeros 8)).
Proof. reflexivity. Qed.

(* ------------------------------------------------------------------ *)
(** * Nothing else is accepted *)

Lemma nonempty_prefix (F : list bytes) :
  exists gs tail, F = gs ++ tail /\ Forall (fun f => f <> []) gs /\
                  (tail = [] \/ exists t, tail = [] :: t).
Proof.
  induction F as [|f F (gs & tail & -> & Hgs & Ht)].
  - exists [], []. repeat split; [constructor|left; reflexivity].
  - destruct f as [|c f].
    + exists [], ([] :: gs ++ tail). repeat split; [constructor|right; eauto].
    + exists ((c :: f) :: gs), tail. repeat split; [constructor; [discriminate|assumption]|assumption].
Qed.

Lemma groups_or_bad (F : list bytes) :
  Forall (fun f => f <> []) F ->
  Forall hexgroup F \/ Exists (fun f => f <> [] /\ ~ hexgroup f) F.
Proof.
  induction 1 as [|f F Hf _ [IH|IH]].
  - left. constructor.
  - destruct (hexgroup_dec f) as [Hg|Hg].
    + left. constructor; assumption.
    + right. apply Exists_cons_hd. split; assumption.
  - right. apply Exists_cons_tl. assumption.
Qed.

Ltac llia := unfold len, bytes in *; cbn [length] in *; lia.

Definition shape2 (F : list bytes) (g : list Z) : Prop :=
  (F = [[]; []; []] /\ g = zeros 8)
  \/ (exists R, R <> [] /\ Forall hexgroup R /\ F = [] :: [] :: R /\
                g = zeros (8 - length R) ++ vals R)
  \/ (exists L, L <> [] /\ Forall hexgroup L /\ F = L ++ [[]; []] /\
                g = vals L ++ zeros (8 - length L))
  \/ (exists L R, L <> [] /\ R <> [] /\ Forall hexgroup L /\ Forall hexgroup R /\
                  F = L ++ [] :: R /\
                  g = vals L ++ zeros (8 - length L - length R) ++ vals R).

Lemma len_pos_nonnil {A} (l : list A) : l <> [] -> 1 <= len l.
Proof. destruct l; [congruence|]. rewrite len_cons. pose proof (len_nonneg l). lia. Qed.

(** The fragments after the compression (state [he = true]): groups only, or
    exactly one more empty fragment at the very end right after the "::". *)
Theorem run_inv (F : list bytes) he nums' :
  3 <= len F <= 8 -> run F = Halt (Some (he, nums')) ->
  (he = false /\ Forall hexgroup F /\ nums' = vals F ++ zeros (8 - length F))
  \/ (he = true /\ shape2 F nums').
Proof.
  intros Hl Hrun.
  destruct (nonempty_prefix F) as (L & tail & HF & HL & [->|(t & ->)]); unfold bytes in *.
  - (* no empty fragment at all *)
    rewrite app_nil_r in HF. subst L.
    destruct (groups_or_bad F HL) as [HG|Hbad].
    + rewrite run_groups in Hrun by (assumption || llia).
      injection Hrun as <- <-. left. auto.
    + exfalso. exact (loop_bad _ _ _ _ _ _ Hbad _ Hrun).
  - right.
    destruct L as [|g0 L0].
    + (* the first fragment is empty *)
      cbn [app] in HF. subst F.
      destruct t as [|f1 t2]; [unfold len in Hl; cbn in Hl; llia|].
      destruct f1 as [|c f1].
      2:{ exfalso. unfold run in Hrun. rewrite loop_cons in Hrun.
          change (len [] =? 0) with true in Hrun. cbv iota in Hrun.
          change (0 =? 0) with true in Hrun. cbv iota in Hrun.
          rewrite (index_nth _ 1 1 (c :: f1)) in Hrun by (reflexivity || llia).
          cbn [obind] in Hrun.
          replace (len (c :: f1) =? 0) with false in Hrun by (rewrite len_cons; pose proof (len_nonneg f1); llia).
          discriminate. }
      assert (Ht2 : t2 <> []) by (intros ->; unfold len in Hl; cbn in Hl; llia).
      assert (Hl2 : (length t2 <= 6)%nat) by (unfold len, bytes in *; cbn [length] in Hl; llia).
      destruct (nonempty_prefix t2) as (R & tail2 & Ht2eq & HR & [->|(t3 & ->)]).
      * rewrite app_nil_r in Ht2eq. subst R.
        destruct (groups_or_bad t2 HR) as [HG|Hbad].
        -- rewrite run_left in Hrun by (assumption || llia). injection Hrun as <- <-.
           split; [reflexivity|]. right; left. exists t2. auto.
        -- exfalso. refine (loop_bad _ _ _ _ _ _ _ _ Hrun).
           apply Exists_cons_tl, Exists_cons_tl. assumption.
      * rewrite run_left_start in Hrun by (assumption || llia).
        destruct t3 as [|f3 t3].
        -- destruct R as [|r0 R0].
           ++ cbn [app] in Ht2eq. subst t2. vm_compute in Hrun. injection Hrun as <- <-.
              split; [reflexivity|left; split; reflexivity].
           ++ exfalso. subst t2.
              refine (loop_last_empty _ (r0 :: R0) [[]; []] _ _ _ _ HR _ _ _ Hrun);
                [discriminate|reflexivity|reflexivity].
        -- exfalso. subst t2.
           refine (loop_inner_empty _ _ _ _ _ _ _ _ _ Hrun); [llia| |exists R, (f3 :: t3); split; [reflexivity|discriminate]].
           unfold len, bytes. cbn [length]. llia.
    + (* groups, then an empty fragment *)
      set (L := g0 :: L0) in *.
      assert (HLne : L <> []) by discriminate.
      destruct (groups_or_bad L HL) as [GL|Hbad].
      2:{ exfalso. refine (loop_bad _ _ _ _ _ _ _ _ Hrun). subst F. apply Exists_app. left. assumption. }
      destruct t as [|f1 t1].
      { exfalso. unfold run in Hrun. subst F.
        exact (loop_last_empty (L ++ [[]]) L [] 0 false _ HLne HL eq_refl eq_refl _ Hrun). }
      set (t := f1 :: t1) in *.
      assert (Htne : t <> []) by discriminate.
      assert (Hlen : (length L + length t <= 7)%nat).
      { subst F. rewrite len_app, len_cons in Hl. unfold len in Hl. llia. }
      subst F. rewrite run_mid_start in Hrun by assumption.
      destruct (nonempty_prefix t) as (R & tail2 & Hteq & HR & [->|(t3 & ->)]).
      * rewrite app_nil_r in Hteq. subst R.
        destruct (groups_or_bad t HR) as [GR|Hbad].
        -- rewrite <- run_mid_start in Hrun by assumption.
           rewrite run_mid in Hrun by assumption. injection Hrun as <- <-.
           split; [reflexivity|]. right; right; right. exists L, t. auto 7.
        -- exfalso. exact (loop_bad _ _ _ _ _ _ Hbad _ Hrun).
      * destruct t3 as [|f3 t3].
        -- destruct R as [|r0 R0].
           ++ cbn [app] in Hteq. rewrite Hteq in Hrun. rewrite <- Hteq in Hrun at 3.
              rewrite Hteq in Hrun. rewrite <- run_mid_start in Hrun; [| assumption|discriminate|assumption|].
              2:{ rewrite Hteq in Hlen. exact Hlen. }
              rewrite run_right in Hrun; [|assumption|assumption|rewrite Hteq in Hlen; cbn [length] in Hlen; llia].
              injection Hrun as <- <-. split; [reflexivity|]. right; right; left.
              exists L. rewrite Hteq. auto.
           ++ exfalso. rewrite Hteq in Hrun.
              refine (loop_last_empty _ (r0 :: R0) (L ++ [[]]) _ _ _ _ HR _ _ _ Hrun).
              ** discriminate.
              ** rewrite <- app_assoc. reflexivity.
              ** rewrite len_app. change (len [[]]) with 1. llia.
        -- exfalso. rewrite Hteq in Hrun.
           refine (loop_inner_empty _ _ _ _ _ _ _ _ _ Hrun).
           ++ pose proof (len_nonneg L). llia.
           ++ repeat (rewrite len_app || rewrite len_cons). llia.
           ++ exists R, (f3 :: t3). split; [reflexivity|discriminate].
Qed.

(* ------------------------------------------------------------------ *)
(** * The global-unicast test *)

Definition gcheck (nums : list Z) : outcome bool :=
  let f0 := nth 0 nums 0 in
  if (f0 <? 0x2000) || (f0 =? 0x2002) || (f0 =? 0x3ffe) || (0x3fff <? f0) then Halt false
  else if f0 =? 0x2001 then
    let f1 := nth 1 nums 0 in
    if (f1 <? 0x200) || (f1 =? 0xdb8) then Halt false else Halt true
  else Halt true.

Lemma checkIPv6_old_unfold s :
  checkIPv6_old s =
  if (len s <? 2) || (39 <? len s) then Halt false
  else
    fragments <-! std_string_split s 58;
    if (len fragments <? 3) || (8 <? len fragments) then Halt false
    else
      r <-! run fragments;
      match r with
      | None => Halt false
      | Some (hasEmpty, nums) =>
          if (len fragments <? 8) && negb hasEmpty then Halt false else gcheck nums
      end.
Proof. reflexivity. Qed.

Lemma global6_spec g : global_unicast6b g = true <-> global_unicast6 g.
Proof.
  unfold global_unicast6b, global_unicast6. split.
  - destruct g as [|g0 [|g1 rest]]; try discriminate. intros H.
    exists g0, g1, rest. split; [reflexivity|]. lia.
  - intros (g0 & g1 & rest & -> & H). lia.
Qed.

Lemma gcheck_spec g0 g1 rest :
  gcheck (g0 :: g1 :: rest) = Halt true <-> global_unicast6 (g0 :: g1 :: rest).
Proof.
  rewrite <- global6_spec. unfold gcheck, global_unicast6b. cbn [nth].
  destruct ((g0 <? 0x2000) || (g0 =? 0x2002) || (g0 =? 0x3ffe) || (0x3fff <? g0)) eqn:E1.
  - split; [discriminate|lia].
  - destruct (g0 =? 0x2001) eqn:E2.
    + destruct ((g1 <? 0x200) || (g1 =? 0xdb8)) eqn:E3; split; try discriminate; try reflexivity; lia.
    + split; [lia|reflexivity].
Qed.

Lemma gcheck_len8 g : length g = 8%nat -> (gcheck g = Halt true <-> global_unicast6 g).
Proof.
  destruct g as [|g0 [|g1 rest]]; try discriminate. intros _. apply gcheck_spec.
Qed.

Lemma gcheck_zero rest : gcheck (0 :: rest) <> Halt true.
Proof. unfold gcheck. cbn [nth]. cbn. discriminate. Qed.

Lemma global_zero rest : ~ global_unicast6 (0 :: rest).
Proof. intros (g0 & g1 & r & [= <- _] & H). lia. Qed.

(* ------------------------------------------------------------------ *)
(** * From text to fragments and back *)

Lemma groups_colonfree G : Forall hexgroup G ->
  Forall (Forall (fun c => c <> 58%N)) G /\ Forall (Forall (fun c => (c < 128)%N)) G.
Proof.
  intros H. split; eapply Forall_impl; try exact H; intros g Hg; apply hexgroup_chars in Hg; tauto.
Qed.

Lemma split_join_groups G : G <> [] -> Forall hexgroup G -> strings_split 58 (join 58 G) = G.
Proof. intros Hne HG. apply split_join; [assumption|apply groups_colonfree, HG]. Qed.

(** The side of a "::" as a fragment list: absent = one empty fragment. *)
Definition side (X : list bytes) : list bytes := match X with [] => [[]] | _ => X end.

Lemma split_side X : Forall hexgroup X -> strings_split 58 (join 58 X) = side X.
Proof.
  intros HX. destruct X as [|x X]; [reflexivity|]. apply split_join_groups; [discriminate|assumption].
Qed.

Lemma split_compressed L R : Forall hexgroup L -> Forall hexgroup R ->
  strings_split 58 (join 58 L ++ [58; 58]%N ++ join 58 R) = side L ++ [] :: side R.
Proof.
  intros HL HR. cbn [app].
  rewrite split_app. change (58%N :: join 58 R) with ([] ++ 58%N :: join 58 R).
  rewrite (split_app 58 [] (join 58 R)).
  rewrite !split_side by assumption. reflexivity.
Qed.

Lemma join_len_le X : Forall hexgroup X -> (length (join 58 X) <= 5 * length X)%nat.
Proof.
  intros HX. destruct X as [|x X]; [simpl; lia|].
  pose proof (join_length 58 (x :: X) ltac:(discriminate)) as H1.
  pose proof (sumlen1_bounds 1 4 (x :: X)) as H2.
  assert (Hb : Forall (fun l : list N => (1 <= length l <= 4)%nat) (x :: X)).
  { eapply Forall_impl; [exact HX|]. intros g [Hg _]. exact Hg. }
  specialize (H2 Hb). unfold bytes in *. lia.
Qed.

Lemma join_len_ge X : X <> [] -> Forall hexgroup X -> (2 * length X <= length (join 58 X) + 1)%nat.
Proof.
  intros Hne HX.
  pose proof (join_length 58 X Hne) as H1.
  pose proof (sumlen1_bounds 1 4 X) as H2.
  assert (Hb : Forall (fun l : list N => (1 <= length l <= 4)%nat) X).
  { eapply Forall_impl; [exact HX|]. intros g [Hg _]. exact Hg. }
  specialize (H2 Hb). unfold bytes in *. lia.
Qed.

Lemma join_ascii X : Forall hexgroup X -> Forall (fun c => (c < 128)%N) (join 58 X).
Proof. intros HX. apply join_all; [lia|apply groups_colonfree, HX]. Qed.

(** Reading the text back from the fragments. *)
Lemma join_left R : R <> [] -> join 58 (([] : bytes) :: [] :: R) = [58; 58]%N ++ join 58 R.
Proof. intros HR. destruct R; [congruence|]. reflexivity. Qed.

Lemma join_right L : L <> [] -> join 58 (L ++ [[]; []]) = join 58 L ++ [58; 58]%N.
Proof. intros HL. rewrite join_app by (assumption || discriminate). reflexivity. Qed.

Lemma join_mid L R : L <> [] -> R <> [] ->
  join 58 (L ++ [] :: R) = join 58 L ++ [58; 58]%N ++ join 58 R.
Proof.
  intros HL HR. rewrite join_app by (assumption || discriminate).
  destruct R; [congruence|]. reflexivity.
Qed.

Lemma join_len_lt X : X <> [] -> Forall hexgroup X -> (length (join 58 X) + 1 <= 5 * length X)%nat.
Proof.
  intros Hne HX.
  pose proof (join_length 58 X Hne) as H1.
  pose proof (sumlen1_bounds 1 4 X) as H2.
  assert (Hb : Forall (fun l : list N => (1 <= length l <= 4)%nat) X).
  { eapply Forall_impl; [exact HX|]. intros g [Hg _]. exact Hg. }
  specialize (H2 Hb). unfold bytes in *. lia.
Qed.

Lemma zeros_succ n : zeros (S n) = 0 :: zeros n.
Proof. reflexivity. Qed.

(* ------------------------------------------------------------------ *)
(** * checkIPv6_old against the grammar *)

(** Soundness: every accepted string is the text of a global unicast address. *)
Theorem ipv6_sound s : checkIPv6_old s = Halt true -> valid_AAAA s.
Proof.
  rewrite checkIPv6_old_unfold.
  destruct ((len s <? 2) || (39 <? len s)) eqn:El; [discriminate|].
  destruct (std_string_split s 58) as [F|] eqn:Es; [|discriminate]. cbn [obind].
  apply std_split_inv in Es.
  destruct ((len F <? 3) || (8 <? len F)) eqn:ElF; [discriminate|].
  destruct (run F) as [[[he nums]|]|] eqn:Erun; try discriminate. cbn [obind].
  destruct ((len F <? 8) && negb he) eqn:E8; [discriminate|].
  intros Hg.
  assert (Hs : s = join 58 F) by (rewrite Es, join_split; reflexivity).
  apply run_inv in Erun; [|lia].
  destruct Erun as [(-> & HG & ->)|(-> & Hshape)].
  - (* form 1 *)
    assert (H8 : length F = 8%nat) by (unfold len in *; cbn [negb] in E8; lia).
    rewrite H8 in Hg. cbn [Nat.sub repeat] in Hg. rewrite app_nil_r in Hg.
    exists (map hexval F). split.
    + rewrite Hs. apply T6_full; assumption.
    + apply gcheck_len8; [unfold vals; rewrite map_length; assumption|exact Hg].
  - destruct Hshape as [(HF & ->)|[(R & HR & GR & HF & ->)|[(L & HL & GL & HF & ->)|(L & R & HL & HR & GL & GR & HF & ->)]]].
    + exfalso. exact (gcheck_zero _ Hg).
    + exfalso. assert (Hn : (length R <= 6)%nat) by (rewrite HF in ElF; llia).
      replace (8 - length R)%nat with (S (7 - length R)) in Hg by lia.
      rewrite zeros_succ in Hg. exact (gcheck_zero _ Hg).
    + assert (Hn : (length L <= 6)%nat) by (rewrite HF, len_app in ElF; llia).
      pose proof (T6_compressed L [] GL ltac:(constructor) ltac:(cbn [length]; lia)) as Ht.
      cbn [join map length] in Ht. rewrite !app_nil_r, Nat.sub_0_r in Ht.
      exists (map hexval L ++ zeros (8 - length L)). split.
      * rewrite Hs, HF, join_right by assumption. exact Ht.
      * apply gcheck_len8; [|exact Hg].
        rewrite app_length, map_length, repeat_length. lia.
    + assert (Hn : (length L + length R <= 7)%nat) by (rewrite HF, len_app, len_cons in ElF; llia).
      exists (map hexval L ++ zeros (8 - length L - length R) ++ map hexval R). split.
      * rewrite Hs, HF, join_mid by assumption. apply T6_compressed; assumption.
      * apply gcheck_len8; [|exact Hg].
        rewrite !app_length, !map_length, repeat_length. lia.
Qed.

(** Finding F12: seven groups followed by "::" make nine fragments. *)
Theorem ipv6_f12_rejected s : f12_shape s -> checkIPv6_old s = Halt false.
Proof.
  intros (L & HL7 & GL & ->). rewrite checkIPv6_old_unfold.
  set (s := join 58 L ++ [58; 58]%N).
  destruct ((len s <? 2) || (39 <? len s)) eqn:El; [reflexivity|].
  assert (Hasc : Forall (fun c => (c < 128)%N) s).
  { apply Forall_app. split; [apply join_ascii, GL|repeat constructor; lia]. }
  rewrite std_split_ok by (try assumption; lia). cbn [obind].
  assert (HF : strings_split 58 s = L ++ [[]; []]).
  { subst s. pose proof (split_compressed L [] GL ltac:(constructor)) as H.
    cbn [join] in H. rewrite app_nil_r in H. rewrite H.
    destruct L; [discriminate|reflexivity]. }
  rewrite HF. replace (len (L ++ [[]; []])) with 9 by (rewrite len_app; llia).
  reflexivity.
Qed.

(** Completeness: form 1 ... *)
Lemma full_accept G :
  length G = 8%nat -> Forall hexgroup G -> global_unicast6 (map hexval G) ->
  checkIPv6_old (join 58 G) = Halt true.
Proof.
  intros HG8 GG Hg. rewrite checkIPv6_old_unfold.
  assert (Hne : G <> []) by (destruct G; [discriminate|discriminate]).
  pose proof (join_len_lt G Hne GG) as Hub. pose proof (join_len_ge G Hne GG) as Hlb.
  replace ((len (join 58 G) <? 2) || (39 <? len (join 58 G))) with false by (unfold len; lia).
  rewrite std_split_ok by (try apply join_ascii; try assumption; unfold len; lia). cbn [obind].
  rewrite split_join_groups by assumption.
  replace ((len G <? 3) || (8 <? len G)) with false by (unfold len; lia).
  rewrite run_groups by (assumption || lia). cbn [obind].
  replace ((len G <? 8) && negb false) with false by (unfold len; lia).
  rewrite HG8. cbn [Nat.sub repeat]. rewrite app_nil_r.
  apply gcheck_len8; [unfold vals; rewrite map_length; assumption|exact Hg].
Qed.

(** ... and form 2, unless the "::" follows seven groups. *)
Lemma compressed_accept L R :
  L <> [] -> Forall hexgroup L -> Forall hexgroup R -> (length L + length R <= 7)%nat ->
  (R = [] -> (length L <= 6)%nat) ->
  global_unicast6 (map hexval L ++ repeat 0 (8 - length L - length R) ++ map hexval R) ->
  checkIPv6_old (join 58 L ++ [58; 58]%N ++ join 58 R) = Halt true.
Proof.
  intros HLne GL GR Hlen Hn6 Hg. rewrite checkIPv6_old_unfold.
  pose proof (join_len_lt L HLne GL) as HubL. pose proof (join_len_le R GR) as HubR.
  set (s := join 58 L ++ [58; 58]%N ++ join 58 R).
  assert (Hls : (2 <= length s <= 39)%nat).
  { subst s. rewrite !app_length. cbn [length]. lia. }
  assert (Hasc : Forall (fun c => (c < 128)%N) s).
  { subst s. rewrite !Forall_app. repeat split; try apply join_ascii; try assumption.
    repeat constructor; lia. }
  replace ((len s <? 2) || (39 <? len s)) with false by (unfold len; lia).
  rewrite std_split_ok by (try assumption; unfold len; lia). cbn [obind].
  subst s. rewrite split_compressed by assumption.
  replace (side L) with L by (destruct L; [congruence|reflexivity]).
  destruct R as [|r0 R0].
  - (* "L::" *)
    cbn [side]. specialize (Hn6 eq_refl).
    replace ((len (L ++ [[]; []]) <? 3) || (8 <? len (L ++ [[]; []]))) with false
      by (rewrite len_app; pose proof (len_pos_nonnil L HLne); llia).
    rewrite run_right by (assumption || lia). cbn [obind negb]. rewrite andb_false_r.
    cbn [map length] in Hg. rewrite app_nil_r, Nat.sub_0_r in Hg.
    apply gcheck_len8; [|exact Hg].
    unfold vals. rewrite app_length, map_length, repeat_length. lia.
  - (* "L::R" *)
    set (R := r0 :: R0) in *.
    assert (HRne : R <> []) by discriminate.
    change (side R) with R.
    replace ((len (L ++ [] :: R) <? 3) || (8 <? len (L ++ [] :: R))) with false
      by (rewrite len_app, len_cons; pose proof (len_pos_nonnil L HLne); pose proof (len_pos_nonnil R HRne); llia).
    rewrite run_mid by assumption. cbn [obind negb]. rewrite andb_false_r.
    apply gcheck_len8; [|exact Hg].
    unfold vals. rewrite !app_length, !map_length, repeat_length. lia.
Qed.

(** Every global unicast text is accepted, or it is seven groups and "::". *)
Lemma ipv6_complete_or s g :
  textual_ipv6 s g -> global_unicast6 g ->
  checkIPv6_old s = Halt true \/
  (exists L, length L = 7%nat /\ Forall hexgroup L /\ s = join 58 L ++ [58; 58]%N /\
             g = map hexval L ++ repeat 0 1).
Proof.
  intros Ht Hg. destruct Ht as [G HG8 GG|L R GL GR Hlen].
  - left. apply full_accept; assumption.
  - destruct L as [|l0 L0].
    { exfalso. cbn [map app length Nat.sub] in Hg.
      replace (8 - length R)%nat with (S (7 - length R)) in Hg by (cbn [length] in Hlen; lia).
      rewrite zeros_succ in Hg. exact (global_zero _ Hg). }
    set (L := l0 :: L0) in *.
    assert (HLne : L <> []) by discriminate.
    destruct R as [|r0 R0].
    + destruct (le_lt_dec (length L) 6) as [Hsmall|Hbig].
      * left. apply compressed_accept; try assumption. intros _. assumption.
      * right. exists L. cbn [length] in Hlen.
        split; [lia|split; [assumption|]]. cbn [join map length]. rewrite !app_nil_r.
        split; [reflexivity|]. do 2 f_equal. lia.
    + left. apply compressed_accept; try assumption. discriminate.
Qed.

(** Completeness outside F12. *)
Theorem ipv6_complete s : valid_AAAA s -> ~ f12_shape s -> checkIPv6_old s = Halt true.
Proof.
  intros (g & Ht & Hg) Hn12.
  destruct (ipv6_complete_or s g Ht Hg) as [H|(L & H7 & GL & -> & _)]; [exact H|].
  exfalso. apply Hn12. exists L. auto.
Qed.

(** The full characterisation of what ships. *)
Theorem ipv6_old_equiv s : checkIPv6_old s = Halt true <-> valid_AAAA s /\ ~ f12_shape s.
Proof.
  split.
  - intros H. split; [apply ipv6_sound, H|].
    intros H12. apply ipv6_f12_rejected in H12. congruence.
  - intros [Hv Hn]. apply ipv6_complete; assumption.
Qed.
