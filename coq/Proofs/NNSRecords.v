(** Proofs/NNSRecords.v — lemmas for property C12 (NNS records and
    resolution).  Model: Model/NNS.v; shared tactics: Proofs/NNSBase.v.

    Contents
      1. generic list facts (strictly sorted listings are determined by their
         elements; [omap] over a contiguous index range);
      2. the record-store invariant [rec_inv] and its preservation by every
         step of every history;
      3. the listing lemmas: [find_by_type] / [rec_entries] computed from
         lookups ([spec_ents]);
      4. step semantics of AddRecord / SetRecord / DeleteRecords on the
         specification lists [spec_recs];
      5. location (token of a name), SOA serial, conflict, expiry, resolve,
         distinctness (finding F14). *)
From Verif Require Import Base.Prelude Model.NNS Proofs.NNSBase.
From Coq Require Import ZifyBool ZifyNat ZifyN.
Local Open Scope Z_scope.

(** * 1. Generic list facts *)

(** A listing that is strictly sorted is determined by its set of elements. *)
Lemma strict_sorted_unique {A} (R : relation A) (l1 l2 : list A) :
  (forall x y, R x y -> R y x -> False) ->
  StronglySorted R l1 -> StronglySorted R l2 -> (forall x, x ∈ l1 <-> x ∈ l2) -> l1 = l2.
Proof.
  intros Hasym S1. revert l2. induction S1 as [|x l1 S1 IH F1]; intros l2 S2 He.
  - destruct l2 as [|y l2]; [reflexivity|]. exfalso. apply (not_elem_of_nil y). apply He. left.
  - destruct S2 as [|y l2 S2 F2].
    { exfalso. apply (not_elem_of_nil x). apply He. left. }
    rewrite Forall_forall in F1, F2.
    assert (Hxy : x = y).
    { assert (Hx : x ∈ y :: l2) by (apply He; left).
      assert (Hy : y ∈ x :: l1) by (apply He; left).
      apply elem_of_cons in Hx as [Hx|Hx]; [assumption|].
      apply elem_of_cons in Hy as [Hy|Hy]; [congruence|].
      exfalso. eauto. }
    subst y. f_equal. apply IH; [assumption|]. intros z. split; intros Hz.
    + assert (Hz' : z ∈ x :: l2) by (apply He; right; assumption).
      apply elem_of_cons in Hz' as [->|Hz']; [|assumption]. exfalso. eauto.
    + assert (Hz' : z ∈ x :: l1) by (apply He; right; assumption).
      apply elem_of_cons in Hz' as [->|Hz']; [|assumption]. exfalso. eauto.
Qed.

Lemma SSorted_filter {A} (R : relation A) (P : A -> Prop) `{!forall x, Decision (P x)} l :
  StronglySorted R l -> StronglySorted R (filter P l).
Proof.
  induction 1 as [|x l Hs IH Hf]; [constructor|].
  rewrite filter_cons. destruct (decide (P x)); [|exact IH].
  constructor; [exact IH|]. apply Forall_forall. intros y [_ Hy]%elem_of_list_filter.
  rewrite Forall_forall in Hf. auto.
Qed.

Lemma SSorted_app {A} (R : relation A) (l1 l2 : list A) :
  StronglySorted R l1 -> StronglySorted R l2 -> (forall x y, x ∈ l1 -> y ∈ l2 -> R x y) ->
  StronglySorted R (l1 ++ l2).
Proof.
  induction 1 as [|x l1 S1 IH F1]; intros S2 Hc; [exact S2|].
  simpl. constructor.
  - apply IH; [assumption|]. intros a b Ha Hb. apply Hc; [right; assumption|assumption].
  - apply Forall_app. split; [assumption|]. apply Forall_forall. intros b Hb. apply Hc; [left|assumption].
Qed.

Lemma NoDup_fmap_omap {A B C} (f : A -> option B) (g : B -> C) (l : list A) :
  NoDup l ->
  (forall x y b1 b2, x ∈ l -> y ∈ l -> f x = Some b1 -> f y = Some b2 -> g b1 = g b2 -> x = y) ->
  NoDup (map g (omap f l)).
Proof.
  induction 1 as [|x l Hx Hl IH]; intros Hinj; [constructor|].
  assert (IH' : NoDup (map g (omap f l))).
  { apply IH. intros a b b1 b2 Ha Hb. apply Hinj; right; assumption. }
  simpl. destruct (f x) as [b|] eqn:Ef; [|exact IH'].
  simpl. constructor; [|exact IH'].
  intros Hin. apply elem_of_list_fmap in Hin as [b2 [Hg Hb2]].
  apply elem_of_list_omap in Hb2 as [y [Hy Hfy]].
  assert (x = y) by (apply (Hinj x y b b2); [left|right; assumption|assumption|assumption|assumption]).
  subst y. contradiction.
Qed.

Lemma omap_none {A B} (f : A -> option B) (l : list A) :
  (forall x, x ∈ l -> f x = None) -> omap f l = [].
Proof.
  induction l as [|x l IH]; intros H; [reflexivity|].
  simpl. rewrite (H x) by left. apply IH. intros y Hy. apply H. right. assumption.
Qed.

Lemma omap_seq_full {A} (f : nat -> option A) n :
  (forall i, (i < n)%nat -> is_Some (f i)) ->
  length (omap f (seq 0 n)) = n /\ forall j, (j < n)%nat -> omap f (seq 0 n) !! j = f j.
Proof.
  induction n as [|n IH]; intros H.
  - split; [reflexivity|]. intros j Hj. lia.
  - destruct IH as [IH1 IH2]; [intros i Hi; apply H; lia|].
    rewrite seq_S, omap_app. simpl. destruct (H n ltac:(lia)) as [v Hv]. rewrite Hv. simpl.
    split; [rewrite app_length; simpl; lia|].
    intros j Hj. destruct (decide (j = n)) as [->|Hne].
    + rewrite lookup_app_r by lia. rewrite IH1, Nat.sub_diag. simpl. symmetry. exact Hv.
    + rewrite lookup_app_l by lia. apply IH2. lia.
Qed.

(** [omap] over an index range on which [f] is defined exactly on an initial
    segment: position [j] of the result is [f j]. *)
Lemma omap_seq_contig {A} (f : nat -> option A) k n :
  (k <= n)%nat -> (forall i, is_Some (f i) <-> (i < k)%nat) ->
  length (omap f (seq 0 n)) = k /\ forall j, omap f (seq 0 n) !! j = f j.
Proof.
  intros Hkn Hf.
  assert (E : omap f (seq 0 n) = omap f (seq 0 k)).
  { replace n with (k + (n - k))%nat by lia. rewrite seq_app, omap_app.
    rewrite (omap_none f (seq (0 + k) (n - k))); [apply app_nil_r|].
    intros x Hx. apply elem_of_seq in Hx. destruct (f x) eqn:Ex; [|reflexivity].
    assert (x < k)%nat by (apply Hf; eauto). lia. }
  rewrite E. destruct (omap_seq_full f k) as [L1 L2]; [intros i Hi; apply Hf; assumption|].
  split; [exact L1|]. intros j. destruct (decide (j < k)%nat) as [Hj|Hj]; [apply L2; assumption|].
  rewrite lookup_ge_None_2 by lia. destruct (f j) eqn:Ej; [|reflexivity].
  exfalso. apply Hj. apply Hf. eauto.
Qed.

(** * 2. Entries and their order *)
Definition elt (x y : ent) : Prop := (fst x < fst y)%N.

Global Instance ent_le_total : Total ent_le.
Proof. intros x y. unfold ent_le. lia. Qed.
Global Instance ent_le_trans : Transitive ent_le.
Proof. intros x y z. unfold ent_le. lia. Qed.

Lemma elt_asym x y : elt x y -> elt y x -> False.
Proof. unfold elt. lia. Qed.

Lemma SSorted_le_lt (l : list ent) :
  StronglySorted ent_le l -> NoDup (map fst l) -> StronglySorted elt l.
Proof.
  induction 1 as [|x l S IH F]; intros Hnd; [constructor|].
  simpl in Hnd. apply NoDup_cons in Hnd as [Hx Hnd].
  constructor; [apply IH; assumption|].
  rewrite Forall_forall in F. apply Forall_forall. intros y Hy.
  assert (Hle := F y Hy). unfold ent_le in Hle. unfold elt.
  assert (fst x <> fst y).
  { intros E. apply Hx. rewrite E. apply elem_of_list_fmap. eauto. }
  lia.
Qed.

Lemma SSorted_omap_seq (f : nat -> option ent) (c : nat -> N) a n :
  (forall i j, (i < j)%nat -> (c i < c j)%N) ->
  (forall j e, f j = Some e -> fst e = c j) ->
  StronglySorted elt (omap f (seq a n)).
Proof.
  intros Hc Hf. revert a. induction n as [|n IH]; intros a; [constructor|].
  simpl. destruct (f a) as [e|] eqn:Ea; [|apply IH].
  constructor; [apply IH|]. apply Forall_forall. intros e' He'.
  apply elem_of_list_omap in He' as [j [Hj Hfj]]. apply elem_of_seq in Hj.
  unfold elt. rewrite (Hf _ _ Ea), (Hf _ _ Hfj). apply Hc. lia.
Qed.

Lemma to_byte_halt z b : to_byte z = Halt b -> -128 <= z <= 255 /\ b = Z.to_N (z mod 256).
Proof.
  unfold to_byte. destruct ((-128 <=? z) && (z <=? 255)) eqn:E; [|discriminate].
  intros H. injection H as <-. split; [lia|reflexivity].
Qed.

Lemma to_byte_lt z b : to_byte z = Halt b -> (b < 256)%N.
Proof. intros [_ ->]%to_byte_halt. assert (0 <= z mod 256 < 256) by (apply Z.mod_pos_bound; lia). lia. Qed.

Lemma to_byte_nonneg z b : to_byte z = Halt b -> 0 <= z -> z = Z.of_N b.
Proof. intros [Hr ->]%to_byte_halt Hz. rewrite Z.mod_small by lia. lia. Qed.

Lemma to_byte_of_N b : (b < 256)%N -> to_byte (Z.of_N b) = Halt b.
Proof.
  intros Hb. unfold to_byte. destruct ((-128 <=? Z.of_N b) && (Z.of_N b <=? 255)) eqn:E; [|lia].
  rewrite Z.mod_small by lia. f_equal. lia.
Qed.

Lemma map_fmap {A B} (f : A -> B) (l : list A) : map f l = f <$> l.
Proof. reflexivity. Qed.

Lemma set_records_twice s a b : set_records (set_records s a) b = set_records s b.
Proof. reflexivity. Qed.
Lemma records_set_records s a : records (set_records s a) = a.
Proof. reflexivity. Qed.

Ltac disc := let H := fresh in intros H; discriminate H.

Section Records.
Variable hash : bytes -> bytes.
Variable valid_name : bytes -> bool.
Variable valid_data : Z -> bytes -> bool.
Variable str_ok : bytes -> bool.
Hypothesis hash_inj : forall a b, hash a = hash b -> a = b.
(* [lia] (zify) mentions every hypothesis of the context in its proof term; clear
   the section variables first so that lemmas depend only on what they use *)
Ltac lia := try clear hash_inj; try clear str_ok; try clear valid_data; try clear valid_name; try clear hash; Lia.lia.

Notation nexec := (nexec hash valid_name valid_data str_ok).
Notation nstep := (nstep hash valid_name valid_data str_ok).
Notation nrun := (nrun hash valid_name valid_data str_ok).
Notation nrun_from := (nrun_from hash valid_name valid_data str_ok).
Notation tok_of := (token_id_from_name hash valid_name).

(** ** The invariant of the record store *)
(** the record type bytes that ever reach storage *)
Definition tyb (tb : N) : Prop := (tb = 1 \/ tb = 5 \/ tb = 6 \/ tb = 16 \/ tb = 28)%N.

(** a stored record agrees with its key *)
Definition rec_wf (nk : bytes) (tb i : N) (r : rstate) : Prop :=
  hash (r_name r) = nk /\ r_type r = Z.of_N tb /\ r_id r = Z.of_N i /\ tyb tb.

(** the ids present under (token, name, type) are exactly [0 .. k-1] *)
Definition count_ok (m : gmap rkey rstate) (tk nk : bytes) (tb k : N) : Prop :=
  (forall i, is_Some (m !! (tk, nk, tb, i)) <-> (i < k)%N) /\ (k <= 16)%N /\
  ((tb = 5 \/ tb = 6)%N -> (k <= 1)%N).

Definition minv (m : gmap rkey rstate) : Prop :=
  (forall tk nk tb i r, m !! (tk, nk, tb, i) = Some r -> rec_wf nk tb i r) /\
  (forall tk nk tb, exists k, count_ok m tk nk tb k).

Definition rec_inv (s : nstate) : Prop := minv (records s).

Lemma count_ok_fun m tk nk tb k1 k2 : count_ok m tk nk tb k1 -> count_ok m tk nk tb k2 -> k1 = k2.
Proof.
  intros [H1 _] [H2 _].
  destruct (N.lt_trichotomy k1 k2) as [Hlt|[->|Hlt]]; [|reflexivity|].
  - assert (k1 < k1)%N by (apply H1, H2; exact Hlt). lia.
  - assert (k2 < k2)%N by (apply H2, H1; exact Hlt). lia.
Qed.

Lemma minv_small m tk nk tb i : minv m -> is_Some (m !! (tk, nk, tb, i)) -> (i < 16)%N /\ tyb tb.
Proof.
  intros [Hwf Hc] [r Hr]. destruct (Hc tk nk tb) as [k (Hk & Hk16 & _)].
  assert (i < k)%N by (apply Hk; eauto). split; [lia|]. apply (Hwf _ _ _ _ _ Hr).
Qed.

Lemma minv_empty : minv ∅.
Proof.
  split.
  - intros tk nk tb i r H. rewrite lookup_empty in H. discriminate.
  - intros tk nk tb. exists 0%N. split; [|lia]. intros i. rewrite lookup_empty. split; [intros [x Hx]; discriminate|lia].
Qed.

(** writing id [i <= k] (an existing id or the next free one) keeps the invariant *)
Lemma minv_insert m tk nk tb i k r :
  minv m -> count_ok m tk nk tb k -> (i <= k)%N -> (i < 16)%N ->
  ((tb = 5 \/ tb = 6)%N -> i = 0%N) -> rec_wf nk tb i r ->
  minv (<[(tk, nk, tb, i) := r]> m).
Proof.
  intros [Hwf Hc] (Hk & Hk16 & Hk1) Hik Hi16 Hi0 Hr. split.
  - intros tk' nk' tb' i' r'. destruct (decide ((tk', nk', tb', i') = (tk, nk, tb, i))) as [E|NE].
    + injection E as -> -> -> ->. rewrite lookup_insert. intros [= <-]. exact Hr.
    + rewrite lookup_insert_ne by congruence. apply Hwf.
  - intros tk' nk' tb'. destruct (decide ((tk', nk', tb') = (tk, nk, tb))) as [E|NE].
    + injection E as -> -> ->. exists (N.max k (i + 1)). split; [|split].
      * intros i'. destruct (decide (i' = i)) as [->|Hne].
        -- rewrite lookup_insert. split; [lia|eauto].
        -- rewrite lookup_insert_ne by congruence. rewrite Hk. lia.
      * lia.
      * intros Ht. specialize (Hk1 Ht). specialize (Hi0 Ht). lia.
    + destruct (Hc tk' nk' tb') as [k' (Hk' & Hk16' & Hk1')]. exists k'. split; [|split; assumption].
      intros i'. rewrite lookup_insert_ne by congruence. apply Hk'.
Qed.

(** removing all ids of one (token, name, type) keeps the invariant *)
Lemma minv_delete_type m m' tk nk tb :
  minv m -> (forall i, m' !! (tk, nk, tb, i) = None) ->
  (forall tk' nk' tb' i, (tk', nk', tb') <> (tk, nk, tb) -> m' !! (tk', nk', tb', i) = m !! (tk', nk', tb', i)) ->
  minv m'.
Proof.
  intros [Hwf Hc] Hnone Hsame. split.
  - intros tk' nk' tb' i r Hr. destruct (decide ((tk', nk', tb') = (tk, nk, tb))) as [E|NE].
    + injection E as -> -> ->. rewrite Hnone in Hr. discriminate.
    + rewrite Hsame in Hr by assumption. eapply Hwf; eassumption.
  - intros tk' nk' tb'. destruct (decide ((tk', nk', tb') = (tk, nk, tb))) as [E|NE].
    + injection E as -> -> ->. exists 0%N. split; [|lia]. intros i. rewrite Hnone. split; [intros [x Hx]; discriminate|lia].
    + destruct (Hc tk' nk' tb') as [k' (Hk' & Hk16' & Hk1')]. exists k'. split; [|split; assumption].
      intros i. rewrite Hsame by assumption. apply Hk'.
Qed.

(** * 3. Listings computed from lookups *)
(** the entries of (token, name, type) in id order, from lookups only *)
Definition spec_ents (m : gmap rkey rstate) (tk nk : bytes) (tb : N) : list ent :=
  omap (fun j => (fun r => ((tb * 256 + N.of_nat j)%N, r)) <$> m !! (tk, nk, tb, N.of_nat j)) (seq 0 16).
(** the specification list: the data of ids 0, 1, ... *)
Definition spec_recs (s : nstate) (tk nk : bytes) (tb : N) : list bytes :=
  (fun e : ent => r_data (snd e)) <$> spec_ents (records s) tk nk tb.

Lemma elem_of_spec_ents m tk nk tb e :
  e ∈ spec_ents m tk nk tb <->
  exists i, (i < 16)%N /\ m !! (tk, nk, tb, i) = Some (snd e) /\ fst e = (tb * 256 + i)%N.
Proof.
  unfold spec_ents. rewrite elem_of_list_omap. split.
  - intros [j [Hj Hf]]. apply elem_of_seq in Hj.
    destruct (m !! (tk, nk, tb, N.of_nat j)) as [r|] eqn:Er; [|discriminate].
    simpl in Hf. injection Hf as <-. exists (N.of_nat j). simpl. split; [lia|]. split; [assumption|reflexivity].
  - intros [i (Hi & Hm & Hc)]. exists (N.to_nat i). split; [apply elem_of_seq; lia|].
    rewrite N2Nat.id, Hm. simpl. destruct e as [c r]. simpl in *. subst c. reflexivity.
Qed.

Lemma elem_of_rec_entries m tk nk e :
  e ∈ rec_entries m tk nk <->
  exists t i, m !! (tk, nk, t, i) = Some (snd e) /\ fst e = (t * 256 + i)%N.
Proof.
  unfold rec_entries. rewrite merge_sort_Permutation, elem_of_list_omap. split.
  - intros [[[[[a b] t] i] r] [Hin Hf]]. apply elem_of_map_to_list in Hin.
    destruct (bytes_eqb a tk) eqn:Ea; [|discriminate]. destruct (bytes_eqb b nk) eqn:Eb; [|discriminate].
    apply bytes_eqb_eq in Ea, Eb. subst a b. simpl in Hf. injection Hf as <-. exists t, i. auto.
  - intros [t [i [Hm Hc]]]. exists ((tk, nk, t, i), snd e). split; [apply elem_of_map_to_list; assumption|].
    rewrite !bytes_eqb_refl. simpl. destruct e as [c r]. simpl in *. subst c. reflexivity.
Qed.

Lemma SSorted_rec_entries m tk nk : minv m -> StronglySorted elt (rec_entries m tk nk).
Proof.
  intros Hinv. apply SSorted_le_lt.
  - unfold rec_entries. apply StronglySorted_merge_sort; apply _.
  - unfold rec_entries. rewrite merge_sort_Permutation. apply NoDup_fmap_omap; [apply NoDup_map_to_list|].
    intros [[[[a1 b1] t1] i1] r1] [[[[a2 b2] t2] i2] r2] e1 e2 H1 H2 F1 F2 Hc.
    apply elem_of_map_to_list in H1, H2.
    destruct (bytes_eqb a1 tk) eqn:Ea1; [|discriminate]. destruct (bytes_eqb b1 nk) eqn:Eb1; [|discriminate].
    destruct (bytes_eqb a2 tk) eqn:Ea2; [|discriminate]. destruct (bytes_eqb b2 nk) eqn:Eb2; [|discriminate].
    apply bytes_eqb_eq in Ea1, Eb1, Ea2, Eb2. subst a1 b1 a2 b2. simpl in F1, F2.
    injection F1 as <-. injection F2 as <-. simpl in Hc.
    destruct (minv_small _ _ _ _ _ Hinv (ex_intro _ _ H1)) as [Hi1 _].
    destruct (minv_small _ _ _ _ _ Hinv (ex_intro _ _ H2)) as [Hi2 _].
    assert (t1 = t2 /\ i1 = i2) as [-> ->] by lia.
    rewrite H1 in H2. injection H2 as ->. reflexivity.
Qed.

Lemma SSorted_spec_ents m tk nk tb : StronglySorted elt (spec_ents m tk nk tb).
Proof.
  unfold spec_ents. apply (SSorted_omap_seq _ (fun j => (tb * 256 + N.of_nat j)%N)).
  - intros i j Hij. lia.
  - intros j e He. destruct (m !! (tk, nk, tb, N.of_nat j)); [|discriminate]. simpl in He. injection He as <-. reflexivity.
Qed.

(** Listing lemma: the iterator of [storage.Find] by (token, name, type) is
    the list of lookups in id order. *)
Lemma find_by_type_spec m tk nk tb : minv m -> find_by_type m tk nk tb = spec_ents m tk nk tb.
Proof.
  intros Hinv. apply (strict_sorted_unique elt); [exact elt_asym| | |].
  - unfold find_by_type. apply SSorted_filter. apply SSorted_rec_entries. assumption.
  - apply SSorted_spec_ents.
  - intros e. unfold find_by_type. rewrite elem_of_list_filter, elem_of_rec_entries, elem_of_spec_ents. split.
    + intros [Hd [t [i [Hm Hc]]]].
      destruct (minv_small _ _ _ _ _ Hinv (ex_intro _ _ Hm)) as [Hi _].
      rewrite Hc in Hd. assert (t = tb).
      { apply N.eqb_eq in Hd. rewrite N.div_add_l in Hd by lia. rewrite N.div_small in Hd by lia. lia. }
      subst t. exists i. auto.
    + intros [i (Hi & Hm & Hc)]. split; [|eauto].
      rewrite Hc. apply N.eqb_eq. rewrite N.div_add_l by lia. rewrite N.div_small by lia. lia.
Qed.

(** position [j] of the listing is the lookup of id [j] *)
Lemma spec_ents_lookup m tk nk tb k j :
  count_ok m tk nk tb k ->
  length (spec_ents m tk nk tb) = N.to_nat k /\
  spec_ents m tk nk tb !! j = (fun r => ((tb * 256 + N.of_nat j)%N, r)) <$> m !! (tk, nk, tb, N.of_nat j).
Proof.
  intros (Hk & Hk16 & _). unfold spec_ents.
  destruct (omap_seq_contig (fun j => (fun r => ((tb * 256 + N.of_nat j)%N, r)) <$> m !! (tk, nk, tb, N.of_nat j))
              (N.to_nat k) 16) as [L1 L2]; [lia| |].
  - intros i. rewrite fmap_is_Some, Hk. lia.
  - split; [exact L1|apply L2].
Qed.


(** * 4. Inversion of the helpers *)
Definition soa_key (tok : bytes) : bytes * bytes * N * N := (hash tok, hash tok, 6%N, 0%N).
Definition serial_data (c : nctx) (f0 f1 f3 f4 f5 f6 : bytes) : bytes :=
  f0 ++ SPACE :: f1 ++ SPACE :: itoa (now c) ++ SPACE :: f3 ++ SPACE :: f4 ++ SPACE :: f5 ++ SPACE :: f6.
(** [new] is [old] with field 3 (the serial) of its seven space-separated
    fields replaced by the block time; name, type and id are kept. *)
Definition soa_refreshed (c : nctx) (old new : rstate) : Prop :=
  exists f0 f1 f2 f3 f4 f5 f6, split_nonempty (r_data old) = [f0; f1; f2; f3; f4; f5; f6] /\
    new = mkR (r_name old) (r_type old) (serial_data c f0 f1 f3 f4 f5 f6) (r_id old).

Lemma update_soa_serial_halt c s tok s' :
  update_soa_serial hash str_ok c s tok = Halt s' ->
  exists old new, records s !! soa_key tok = Some old /\ str_ok (r_data old) = true /\
    soa_refreshed c old new /\ s' = set_records s (<[soa_key tok := new]> (records s)).
Proof.
  unfold update_soa_serial. cbv zeta. match goal with |- match ?x with Some _ => _ | None => _ end = _ -> _ => destruct x as [old|] eqn:Eo end; [|disc].
  destruct (str_ok (r_data old)) eqn:Es; cbn [negb]; cbv beta iota; [|disc].
  destruct (split_nonempty (r_data old)) as [|f0 [|f1 [|f2 [|f3 [|f4 [|f5 [|f6 [|f7 fs]]]]]]]] eqn:Ef; cbv beta iota; try disc.
  intros H. injection H as <-. eexists old, _. split; [exact Eo|]. split; [exact Es|]. split; [|reflexivity].
  exists f0, f1, f2, f3, f4, f5, f6. split; [exact Ef|reflexivity].
Qed.

Lemma update_soa_serial_fault c s tok :
  records s !! soa_key tok = None -> update_soa_serial hash str_ok c s tok = Fault.
Proof. unfold update_soa_serial, soa_key. cbv zeta. intros ->. reflexivity. Qed.

Lemma put_soa_halt c s name email a b d e s' :
  put_soa hash valid_name c s name email a b d e = Halt s' ->
  exists tok, tok_of c s name = Halt tok /\
    s' = set_records s (<[(hash tok, hash name, 6%N, 0%N) := mkR name T_SOA (soa_data c name email a b d e) 0]> (records s)).
Proof. unfold put_soa. intros H. inv1 H. injection H as <-. exists x. split; reflexivity. Qed.

Lemma save_domain_halt c s name email a b d e owner s' :
  save_domain hash valid_name c s name email a b d e owner = Halt s' ->
  exists tok data, records s' = <[(hash tok, hash name, 6%N, 0%N) := mkR name T_SOA data 0]> (records s).
Proof.
  unfold save_domain. intros H. inv_binds H. apply put_soa_halt in H as [tok [_ ->]]. exists tok. eexists. reflexivity.
Qed.

Lemma check_record_halt c s name typ data tok :
  check_record hash valid_name valid_data c s name typ data = Halt tok ->
  tok_of c s name = Halt tok /\ (typ = 1 \/ typ = 5 \/ typ = 16 \/ typ = 28) /\ valid_data typ data = true /\
  length (split_dot tok) <> 1%nat /\
  exists ns, get_frag_ns hash c s tok (split_dot tok) = Halt ns /\ may_admin c ns = true.
Proof.
  unfold check_record. intros H. inv_binds H. injection H as <-.
  split; [reflexivity|]. split; [unfold T_A, T_CNAME, T_TXT, T_AAAA in *; lia|]. split; [reflexivity|].
  split; [lia|]. eexists. split; [first [eassumption|reflexivity]|]. eapply check_admin_halt; eassumption.
Qed.

Lemma to_byte_small z b : to_byte z = Halt b -> (b < 128)%N -> z = Z.of_N b.
Proof.
  intros H Hb. destruct (Z_lt_le_dec z 0) as [Hz|Hz]; [|apply to_byte_nonneg; assumption].
  exfalso. apply to_byte_halt in H as [Hr ->].
  assert (E : z + 256 = z mod 256) by (apply (Z.mod_unique z 256 (-1)); lia). lia.
Qed.

(** every change of the record store is of one of these shapes *)
Lemma nexec_records_cases c s o s' v ns :
  nexec c s o = Halt (s', v, ns) ->
  records s' = records s \/
  (exists tok name data, records s' = <[(hash tok, hash name, 6%N, 0%N) := mkR name T_SOA data 0]> (records s)) \/
  (exists name typ data, o = AddRecord name typ data) \/
  (exists name typ id data, o = SetRecord name typ id data) \/
  (exists name typ, o = DeleteRecords name typ).
Proof.
  intros H. destruct o; unfold NNS.nexec in H; cbv zeta in H;
    try (right; right; left; eexists _, _, _; reflexivity);
    try (right; right; right; left; eexists _, _, _, _; reflexivity);
    try (right; right; right; right; eexists _, _; reflexivity).
  - (* Register *) inv_binds H.
    destruct (get_ns hash s name) as [ns0|].
    + destruct (now c <? ns_exp ns0).
      * injection H as <- _ _. left. reflexivity.
      * inv_binds H. injection H as <- _ _. right; left.
        match goal with E : save_domain _ _ _ _ _ _ _ _ _ _ _ = Halt _ |- _ => apply save_domain_halt in E as [tok [data E]]; exists tok, name, data; exact E end.
    + inv_binds H. injection H as <- _ _. right; left.
      match goal with E : save_domain _ _ _ _ _ _ _ _ _ _ _ = Halt _ |- _ => apply save_domain_halt in E as [tok [data E]]; exists tok, name, data; exact E end.
  - (* RegisterTLD *) inv_binds H. injection H as <- _ _. right; left.
    match goal with E : save_domain _ _ _ _ _ _ _ _ _ _ _ = Halt _ |- _ => apply save_domain_halt in E as [tok [data E]]; exists tok, name, data; exact E end.
  - (* Transfer *) inv_binds H. left.
    match type of H with (if ?b then _ else _) = _ => destruct b end; [injection H as <- _ _; reflexivity|].
    inv_binds H. injection H as <- _ _.
    match goal with |- records (if ?b then _ else _) = _ => destruct b end; reflexivity.
  - (* Renew *) inv_binds H. injection H as <- _ _. left. reflexivity.
  - (* SetAdmin *) inv_binds H. injection H as <- _ _. left. reflexivity.
  - (* UpdateSOA *) inv_binds H. injection H as <- _ _. right; left.
    match goal with E : put_soa _ _ _ _ _ _ _ _ _ _ = Halt _ |- _ => apply put_soa_halt in E as [tok [_ ->]]; exists tok, name; eexists; reflexivity end.
  - (* SetPrice *) inv_binds H. injection H as <- _ _. left. reflexivity.
  - (* IsAvailable *) inv_binds H. left.
    destruct (roots s !! List.last (split_dot name) []).
    + match type of H with (if ?b then _ else _) = _ => destruct b end; [injection H as <- _ _; reflexivity|].
      inv_binds H. injection H as <- _ _; reflexivity.
    + match type of H with (if ?b then _ else _) = _ => destruct b end; [discriminate H|]. injection H as <- _ _; reflexivity.
  - inv_binds H. injection H as <- _ _. left. reflexivity.
  - inv_binds H. injection H as <- _ _. left. reflexivity.
  - inv_binds H. injection H as <- _ _. left. reflexivity.
  - inv_binds H. injection H as <- _ _. left. reflexivity.
  - inv_binds H. injection H as <- _ _. left. reflexivity.
  - inv_binds H. injection H as <- _ _. left. reflexivity.
  - inv_binds H. injection H as <- _ _. left. reflexivity.
  - inv_binds H. injection H as <- _ _. left. reflexivity.
  - inv_binds H. injection H as <- _ _. left. reflexivity.
  - inv_binds H. injection H as <- _ _. left. reflexivity.
  - inv_binds H. injection H as <- _ _. left. reflexivity.
Qed.

(** ** The listings under the invariant *)
Lemma count_ok_ex s tk nk tb : rec_inv s -> exists k, count_ok (records s) tk nk tb k.
Proof. intros [_ Hc]. apply Hc. Qed.

Lemma spec_recs_lookup s tk nk tb k j :
  count_ok (records s) tk nk tb k ->
  length (spec_recs s tk nk tb) = N.to_nat k /\
  spec_recs s tk nk tb !! j = r_data <$> records s !! (tk, nk, tb, N.of_nat j).
Proof.
  intros Hk. destruct (spec_ents_lookup _ _ _ _ _ j Hk) as [L1 L2]. unfold spec_recs.
  split; [rewrite fmap_length; exact L1|].
  rewrite list_lookup_fmap. etrans; [exact (f_equal (fmap (fun e : ent => r_data (snd e))) L2)|]. destruct (records s !! (tk, nk, tb, N.of_nat j)); reflexivity.
Qed.

Lemma elem_of_spec_ents_wf m tk nk tb e :
  minv m -> e ∈ spec_ents m tk nk tb -> rec_wf nk tb (fst e mod 256) (snd e) /\ (fst e / 256 = tb)%N /\
  is_Some (m !! (tk, nk, tb, (fst e mod 256)%N)).
Proof.
  intros [Hwf _] He. apply elem_of_spec_ents in He as [i (Hi & Hm & Hc)].
  assert (Em : (fst e mod 256 = i)%N).
  { rewrite Hc, N.add_comm, N.mod_add by lia. apply N.mod_small. lia. }
  rewrite Em. split; [eapply Hwf; eassumption|]. split; [|eauto].
  rewrite Hc, N.div_add_l by lia. rewrite N.div_small by lia. lia.
Qed.

Lemma elem_of_spec_recs s tk nk tb d :
  d ∈ spec_recs s tk nk tb <-> exists e, e ∈ spec_ents (records s) tk nk tb /\ d = r_data (snd e).
Proof.
  unfold spec_recs. rewrite elem_of_list_fmap. split; intros [e [H1 H2]]; exists e; auto.
Qed.

(** ** AddRecord *)
Lemma add_record_halt c s name typ data s' v ns :
  rec_inv s -> nexec c s (AddRecord name typ data) = Halt (s', v, ns) ->
  exists tok tb k old new,
    check_record hash valid_name valid_data c s name typ data = Halt tok /\
    typ = Z.of_N tb /\ (tb = 1 \/ tb = 5 \/ tb = 16 \/ tb = 28)%N /\
    count_ok (records s) (hash tok) (hash name) tb k /\ (k < 16)%N /\ (tb = 5%N -> k = 0%N) /\
    data ∉ spec_recs s (hash tok) (hash name) tb /\
    records s !! soa_key tok = Some old /\ soa_refreshed c old new /\
    s' = set_records s (<[soa_key tok := new]>
           (<[(hash tok, hash name, tb, k) := mkR name typ data (Z.of_N k)]> (records s))) /\
    v = VNull /\ ns = [].
Proof.
  intros Hinv H. unfold NNS.nexec in H. cbv zeta in H.
  destruct (check_record hash valid_name valid_data c s name typ data) as [tok|] eqn:Ecr; [|discriminate H].
  cbn [obind] in H.
  destruct (to_byte typ) as [tb|] eqn:Etb; [|discriminate H]. cbn [obind] in H.
  rewrite (find_by_type_spec _ _ _ _ Hinv) in H.
  destruct (check_record_halt _ _ _ _ _ _ Ecr) as (Etok & Htyp & _).
  assert (Htb : typ = Z.of_N tb) by (apply to_byte_nonneg; [assumption|lia]).
  destruct (count_ok_ex s (hash tok) (hash name) tb Hinv) as [k Hk].
  destruct (spec_ents_lookup _ _ _ _ _ 0%nat Hk) as [Hlen _]. rewrite Hlen in H.
  inv1 H. inv1 H. inv1 H. 
  destruct (to_byte (Z.of_nat (N.to_nat k))) as [ib|] eqn:Eib; [|discriminate H]. cbn [obind] in H.
  assert (Hib : ib = k) by (apply to_byte_nonneg in Eib; lia). subst ib.
  unfold store_record in H.
  destruct (update_soa_serial hash str_ok c _ tok) as [s2|] eqn:Eu; [|discriminate H]. cbn [obind] in H.
  injection H as <- <- <-.
  apply update_soa_serial_halt in Eu as (old & new & Eold & _ & Href & ->).
  rewrite records_set_records in Eold.
  assert (Hne : soa_key tok <> (hash tok, hash name, tb, k)).
  { unfold soa_key. intros Heq. injection Heq as _ Heq _. lia. }
  rewrite lookup_insert_ne in Eold by (intros Heq; apply Hne; symmetry; exact Heq).
  exists tok, tb, k, old, new.
  split; [reflexivity|]. split; [exact Htb|]. split; [lia|]. split; [exact Hk|].
  unfold maxRecordID, T_CNAME in *.
  split; [lia|]. split; [lia|]. split.
  - intros Hin. apply elem_of_spec_recs in Hin as [e [He Hd]].
    apply negb_true_iff, not_true_iff_false in E. apply E. clear E.
    apply existsb_exists. exists e. split; [apply elem_of_list_In; exact He|].
    destruct (elem_of_spec_ents_wf _ _ _ _ _ Hinv He) as [(Hn & Ht & _) _].
    apply hash_inj in Hn. rewrite !andb_true_iff. split; [split|].
    + apply bytes_eqb_eq. exact Hn.
    + apply Z.eqb_eq. congruence.
    + apply bytes_eqb_eq. symmetry. exact Hd.
  - split; [exact Eold|]. split; [exact Href|]. split; [|split; reflexivity].
    rewrite set_records_twice, records_set_records.
    replace (Z.of_nat (N.to_nat k)) with (Z.of_N k) by lia. reflexivity.
Qed.

(** ** SetRecord *)
Lemma set_record_halt c s name typ id data s' v ns :
  rec_inv s -> nexec c s (SetRecord name typ id data) = Halt (s', v, ns) ->
  exists tok tb ib k old new,
    check_record hash valid_name valid_data c s name typ data = Halt tok /\
    typ = Z.of_N tb /\ (tb = 1 \/ tb = 5 \/ tb = 16 \/ tb = 28)%N /\ id = Z.of_N ib /\
    count_ok (records s) (hash tok) (hash name) tb k /\ (ib < k)%N /\
    (forall j, j <> N.to_nat ib -> spec_recs s (hash tok) (hash name) tb !! j <> Some data) /\
    records s !! soa_key tok = Some old /\ soa_refreshed c old new /\
    s' = set_records s (<[soa_key tok := new]>
           (<[(hash tok, hash name, tb, ib) := mkR name typ data id]> (records s))) /\
    v = VNull /\ ns = [].
Proof.
  intros Hinv H. unfold NNS.nexec in H. cbv zeta in H.
  destruct (check_record hash valid_name valid_data c s name typ data) as [tok|] eqn:Ecr; [|discriminate H].
  cbn [obind] in H.
  destruct (to_byte typ) as [tb|] eqn:Etb; [|discriminate H]. cbn [obind] in H.
  destruct (to_byte id) as [ib|] eqn:Eib; [|discriminate H]. cbn [obind] in H.
  destruct (records s !! (hash tok, hash name, tb, ib)) as [r0|] eqn:Er0; cbv beta iota in H; [|discriminate H].
  rewrite (find_by_type_spec _ _ _ _ Hinv) in H. inv1 H.
  destruct (check_record_halt _ _ _ _ _ _ Ecr) as (Etok & Htyp & _).
  assert (Htb : typ = Z.of_N tb) by (apply to_byte_nonneg; [assumption|lia]).
  destruct (count_ok_ex s (hash tok) (hash name) tb Hinv) as [k Hk].
  assert (Hik : (ib < k)%N) by (apply Hk; eauto).
  assert (Hk16 : (k <= 16)%N) by apply Hk.
  assert (Hid : id = Z.of_N ib) by (apply to_byte_small; [assumption|lia]).
  unfold store_record in H.
  destruct (update_soa_serial hash str_ok c _ tok) as [s2|] eqn:Eu; [|discriminate H]. cbn [obind] in H.
  injection H as <- <- <-.
  apply update_soa_serial_halt in Eu as (old & new & Eold & _ & Href & ->).
  rewrite records_set_records in Eold.
  assert (Hne : soa_key tok <> (hash tok, hash name, tb, ib)).
  { unfold soa_key. intros Heq. injection Heq as _ Heq _. lia. }
  rewrite lookup_insert_ne in Eold by (intros Heq; apply Hne; symmetry; exact Heq).
  exists tok, tb, ib, k, old, new.
  split; [reflexivity|]. split; [exact Htb|]. split; [lia|]. split; [exact Hid|]. split; [exact Hk|].
  split; [exact Hik|]. split; [|split; [exact Eold|]; split; [exact Href|]; split; [|split; reflexivity];
    rewrite set_records_twice, records_set_records; reflexivity].
  intros j Hj Hd. destruct (spec_recs_lookup s _ _ _ _ j Hk) as [_ Hl]. rewrite Hl in Hd.
  destruct (records s !! (hash tok, hash name, tb, N.of_nat j)) as [r|] eqn:Er; [|discriminate Hd].
  simpl in Hd. injection Hd as Hd.
  apply negb_true_iff, not_true_iff_false in E. apply E. clear E.
  apply existsb_exists. exists ((tb * 256 + N.of_nat j)%N, r). split.
  { apply elem_of_list_In, elem_of_spec_ents. exists (N.of_nat j). simpl.
    assert (N.of_nat j < k)%N by (apply Hk; eauto). split; [lia|]. split; [exact Er|reflexivity]. }
  destruct Hinv as [Hwf _]. destruct (Hwf _ _ _ _ _ Er) as (Hn & Ht & Hi & _). apply hash_inj in Hn.
  cbn [snd]. rewrite !andb_true_iff. split; [split; [split|]|].
  - apply negb_true_iff, Z.eqb_neq. lia.
  - apply bytes_eqb_eq. exact Hn.
  - apply Z.eqb_eq. congruence.
  - apply bytes_eqb_eq. exact Hd.
Qed.

(** ** DeleteRecords *)
Lemma fold_delete_cases (tk nk : bytes) (tb : N) (es : list ent) (m : gmap rkey rstate) (key : bytes * bytes * N * N) :
  fold_left (fun m (e : ent) => delete (tk, nk, tb, (fst e mod 256)%N) m) es m !! key = m !! key \/
  fold_left (fun m (e : ent) => delete (tk, nk, tb, (fst e mod 256)%N) m) es m !! key = None.
Proof.
  revert m. induction es as [|e es IH]; intros m; [left; reflexivity|].
  simpl. destruct (IH (delete (tk, nk, tb, (fst e mod 256)%N) m)) as [IH'|IH']; [|right; exact IH'].
  rewrite IH'. destruct (decide (key = (tk, nk, tb, (fst e mod 256)%N))) as [->|Hne].
  - right. apply lookup_delete.
  - left. apply lookup_delete_ne. congruence.
Qed.

Lemma fold_delete_other (tk nk : bytes) (tb : N) (es : list ent) (m : gmap rkey rstate) (key : bytes * bytes * N * N) :
  (forall i, key <> (tk, nk, tb, i)) ->
  fold_left (fun m (e : ent) => delete (tk, nk, tb, (fst e mod 256)%N) m) es m !! key = m !! key.
Proof.
  intros Hk. revert m. induction es as [|e es IH]; intros m; [reflexivity|].
  simpl. rewrite IH. apply lookup_delete_ne. intros Heq. apply (Hk (fst e mod 256)%N). congruence.
Qed.

Lemma fold_delete_hit (tk nk : bytes) (tb : N) (es : list ent) (m : gmap rkey rstate) (e : ent) :
  e ∈ es ->
  fold_left (fun m (e : ent) => delete (tk, nk, tb, (fst e mod 256)%N) m) es m !! (tk, nk, tb, (fst e mod 256)%N) = None.
Proof.
  intros He. revert m. induction es as [|e' es IH]; intros m; [inversion He|].
  simpl. apply elem_of_cons in He as [->|He]; [|apply IH; exact He].
  destruct (fold_delete_cases tk nk tb es (delete (tk, nk, tb, (fst e' mod 256)%N) m) (tk, nk, tb, (fst e' mod 256)%N)) as [Hc|Hc];
    [|exact Hc].
  rewrite Hc. apply lookup_delete.
Qed.

Lemma to_byte_6 z : to_byte z = Halt 6%N -> z = 6.
Proof. intros H. apply to_byte_small in H; lia. Qed.

(** without any invariant: the store after the deletion loop *)
Definition deleted (m : gmap rkey rstate) (tk nk : bytes) (tb : N) : gmap rkey rstate :=
  fold_left (fun m (e : ent) => delete (tk, nk, tb, (fst e mod 256)%N) m) (find_by_type m tk nk tb) m.

Lemma deleted_other m tk nk tb tk' nk' tb' i :
  (tk', nk', tb') <> (tk, nk, tb) -> deleted m tk nk tb !! (tk', nk', tb', i) = m !! (tk', nk', tb', i).
Proof. intros Hne. unfold deleted. apply fold_delete_other. intros i' Heq. apply Hne. congruence. Qed.

Lemma delete_records_halt0 c s name typ s' v ns :
  nexec c s (DeleteRecords name typ) = Halt (s', v, ns) ->
  exists tok tb ns0 old new,
    typ <> T_SOA /\ tok_of c s name = Halt tok /\ length (split_dot tok) <> 1%nat /\
    get_frag_ns hash c s tok (split_dot tok) = Halt ns0 /\ may_admin c ns0 = true /\
    to_byte typ = Halt tb /\ tb <> 6%N /\
    records s !! soa_key tok = Some old /\ soa_refreshed c old new /\
    s' = set_records s (<[soa_key tok := new]> (deleted (records s) (hash tok) (hash name) tb)) /\
    v = VNull /\ ns = [].
Proof.
  intros H. unfold NNS.nexec in H. cbv zeta in H.
  inv1 H. inv1 H. inv1 H. inv1 H. inv1 H. inv1 H.
  rename x into tok. rename x2 into tb.
  fold (deleted (records s) (hash tok) (hash name) tb) in H.
  destruct (update_soa_serial hash str_ok c (set_records s (deleted (records s) (hash tok) (hash name) tb)) tok) as [s2|] eqn:Eu;
    [|discriminate H].
  cbn [obind] in H. injection H as <- <- <-.
  apply update_soa_serial_halt in Eu as (old & new & Eold & _ & Href & ->).
  rewrite records_set_records in Eold.
  assert (Htb6 : tb <> 6%N).
  { intros ->. match goal with Hb : to_byte typ = Halt 6%N |- _ => apply to_byte_6 in Hb end.
    unfold T_SOA in *. lia. }
  assert (Eold' : records s !! soa_key tok = Some old).
  { rewrite <- Eold. symmetry. unfold soa_key. apply deleted_other. intros Heq. apply Htb6. congruence. }
  exists tok, tb. eexists _, old, new.
  split; [unfold T_SOA in *; lia|]. split; [reflexivity|]. split; [lia|].
  split; [first [eassumption|reflexivity]|]. split; [eapply check_admin_halt; eassumption|].
  split; [reflexivity|]. split; [exact Htb6|].
  split; [exact Eold'|]. split; [exact Href|]. split; [|split; reflexivity].
  rewrite set_records_twice. reflexivity.
Qed.

Lemma deleted_none m tk nk tb i : minv m -> deleted m tk nk tb !! (tk, nk, tb, i) = None.
Proof.
  intros Hinv. unfold deleted. rewrite (find_by_type_spec _ _ _ _ Hinv).
  destruct (proj2 Hinv tk nk tb) as [k Hk].
  destruct (m !! (tk, nk, tb, i)) as [r|] eqn:Er.
  - assert (Hi : (i < k)%N) by (apply Hk; eauto). assert (Hk16 : (k <= 16)%N) by apply Hk.
    assert (He : ((tb * 256 + i)%N, r) ∈ spec_ents m tk nk tb).
    { apply elem_of_spec_ents. exists i. simpl. split; [lia|]. split; [exact Er|reflexivity]. }
    assert (Em : ((tb * 256 + i) mod 256 = i)%N).
    { rewrite N.add_comm, N.mod_add by lia. apply N.mod_small. lia. }
    rewrite <- Em at 1. apply (fold_delete_hit _ _ _ _ _ ((tb * 256 + i)%N, r) He).
  - destruct (fold_delete_cases tk nk tb (spec_ents m tk nk tb) m (tk, nk, tb, i)) as [Hc|Hc]; [|exact Hc].
    rewrite Hc. exact Er.
Qed.

Lemma delete_records_halt c s name typ s' v ns :
  rec_inv s -> nexec c s (DeleteRecords name typ) = Halt (s', v, ns) ->
  exists tok tb ns0 m1 old new,
    typ <> T_SOA /\ tok_of c s name = Halt tok /\ length (split_dot tok) <> 1%nat /\
    get_frag_ns hash c s tok (split_dot tok) = Halt ns0 /\ may_admin c ns0 = true /\
    to_byte typ = Halt tb /\ tb <> 6%N /\
    (forall i, m1 !! (hash tok, hash name, tb, i) = None) /\
    (forall tk nk tb' i, (tk, nk, tb') <> (hash tok, hash name, tb) ->
       m1 !! (tk, nk, tb', i) = records s !! (tk, nk, tb', i)) /\
    records s !! soa_key tok = Some old /\ soa_refreshed c old new /\
    s' = set_records s (<[soa_key tok := new]> m1) /\ v = VNull /\ ns = [].
Proof.
  intros Hinv H. apply delete_records_halt0 in H as (tok & tb & ns0 & old & new & H1 & H2 & H3 & H4 & H5 & H6 & H7 & H8 & H9 & H10 & H11 & H12).
  exists tok, tb, ns0, (deleted (records s) (hash tok) (hash name) tb), old, new.
  split; [exact H1|]. split; [exact H2|]. split; [exact H3|]. split; [exact H4|]. split; [exact H5|].
  split; [exact H6|]. split; [exact H7|]. split; [intros i; apply deleted_none; exact Hinv|].
  split; [intros tk nk tb' i Hne; apply deleted_other; exact Hne|].
  split; [exact H8|]. split; [exact H9|]. split; [exact H10|]. split; [exact H11|exact H12].
Qed.

(** * 5. Preservation of the invariant *)
Lemma minv_soa_insert m tok name data :
  minv m -> minv (<[(hash tok, hash name, 6%N, 0%N) := mkR name T_SOA data 0]> m).
Proof.
  intros Hinv. destruct (proj2 Hinv (hash tok) (hash name) 6%N) as [k Hk].
  apply (minv_insert _ _ _ _ _ k); [assumption|assumption|lia|lia|reflexivity|].
  split; [reflexivity|]. split; [reflexivity|]. split; [reflexivity|]. right; right; left; reflexivity.
Qed.

Lemma minv_soa_refresh c m tok old new :
  minv m -> m !! soa_key tok = Some old -> soa_refreshed c old new -> minv (<[soa_key tok := new]> m).
Proof.
  intros Hinv Ho (f0 & f1 & f2 & f3 & f4 & f5 & f6 & _ & ->).
  destruct (proj2 Hinv (hash tok) (hash tok) 6%N) as [k Hk]. unfold soa_key.
  apply (minv_insert _ _ _ _ _ k); [assumption|assumption|lia|lia|reflexivity|].
  exact (proj1 Hinv _ _ _ _ _ Ho).
Qed.

Lemma nexec_inv c s o s' v ns : rec_inv s -> nexec c s o = Halt (s', v, ns) -> rec_inv s'.
Proof.
  intros Hinv H. unfold rec_inv.
  destruct (nexec_records_cases _ _ _ _ _ _ H) as [E|[(tok & name & data & E)|[(name & typ & data & ->)|[(name & typ & id & data & ->)|(name & typ & ->)]]]].
  - rewrite E. exact Hinv.
  - rewrite E. apply minv_soa_insert. exact Hinv.
  - apply add_record_halt in H as (tok & tb & k & old & new & _ & Ht & Htb & Hk & Hk16 & Hk5 & _ & Ho & Hr & -> & _); [|exact Hinv].
    rewrite records_set_records. apply (minv_soa_refresh c _ _ old); [| |exact Hr].
    + apply (minv_insert _ _ _ _ _ k); [exact Hinv|exact Hk|lia|lia|lia|].
      split; [reflexivity|]. split; [exact Ht|]. split; [reflexivity|]. unfold tyb. lia.
    + rewrite lookup_insert_ne; [exact Ho|]. unfold soa_key. intros Heq. injection Heq as _ Heq _. lia.
  - apply set_record_halt in H as (tok & tb & ib & k & old & new & _ & Ht & Htb & Hid & Hk & Hik & _ & Ho & Hr & -> & _); [|exact Hinv].
    rewrite records_set_records. apply (minv_soa_refresh c _ _ old); [| |exact Hr].
    + assert (Hk16 : (k <= 16)%N) by apply Hk.
      assert (Hk5 : (tb = 5 \/ tb = 6)%N -> (k <= 1)%N) by apply Hk.
      apply (minv_insert _ _ _ _ _ k); [exact Hinv|exact Hk|lia|lia|lia|].
      split; [reflexivity|]. split; [exact Ht|]. split; [exact Hid|]. unfold tyb. lia.
    + rewrite lookup_insert_ne; [exact Ho|]. unfold soa_key. intros Heq. injection Heq as _ Heq _. lia.
  - apply delete_records_halt in H as (tok & tb & ns0 & m1 & old & new & _ & _ & _ & _ & _ & _ & Htb6 & Hnone & Hsame & Ho & Hr & -> & _); [|exact Hinv].
    rewrite records_set_records. apply (minv_soa_refresh c _ _ old); [| |exact Hr].
    + apply (minv_delete_type (records s) m1 (hash tok) (hash name) tb); assumption.
    + rewrite <- Ho. unfold soa_key. apply Hsame. intros Heq. apply Htb6. congruence.
Qed.

Lemma nstep_inv s co : rec_inv s -> rec_inv (fst (fst (nstep s co))).
Proof.
  intros Hinv. destruct (nstep_cases hash valid_name valid_data str_ok s co) as [(s' & r & ns & He & ->)|[_ ->]].
  - simpl. eapply nexec_inv; eassumption.
  - exact Hinv.
Qed.

Lemma nrun_from_inv ops s : rec_inv s -> rec_inv (nrun_from s ops).
Proof.
  revert s. induction ops as [|co ops IH]; intros s Hinv; [exact Hinv|].
  unfold NNS.nrun_from. simpl. apply IH. apply nstep_inv. exact Hinv.
Qed.

Lemma nrun_inv ops : rec_inv (nrun ops).
Proof. apply nrun_from_inv. exact minv_empty. Qed.

(** * 6. The specification lists and the step semantics on them *)
Lemma omap_ext_in {A B} (f g : A -> option B) (l : list A) :
  (forall x, x ∈ l -> f x = g x) -> omap f l = omap g l.
Proof.
  induction l as [|x l IH]; intros H; [reflexivity|].
  csimpl. rewrite (H x) by left. rewrite IH; [reflexivity|]. intros y Hy. apply H. right. exact Hy.
Qed.

(** a list depends only on the lookups of its own keys *)
Lemma spec_recs_ext s s' tk nk tb :
  (forall i, records s' !! (tk, nk, tb, i) = records s !! (tk, nk, tb, i)) ->
  spec_recs s' tk nk tb = spec_recs s tk nk tb.
Proof.
  intros H. unfold spec_recs, spec_ents. f_equal. apply omap_ext_in. intros j _. rewrite H. reflexivity.
Qed.

Lemma spec_recs_nil s tk nk tb :
  (forall i, records s !! (tk, nk, tb, i) = None) -> spec_recs s tk nk tb = [].
Proof.
  intros H. unfold spec_recs, spec_ents. rewrite omap_none; [reflexivity|]. intros j _. rewrite H. reflexivity.
Qed.

(** shape of the lists: contiguous ids, at most 16, at most one CNAME / SOA,
    only the five record types *)
Lemma spec_recs_shape s tk nk tb :
  rec_inv s ->
  (forall j, spec_recs s tk nk tb !! j = r_data <$> records s !! (tk, nk, tb, N.of_nat j)) /\
  (forall i, is_Some (records s !! (tk, nk, tb, i)) <-> (N.to_nat i < length (spec_recs s tk nk tb))%nat) /\
  (length (spec_recs s tk nk tb) <= 16)%nat /\
  ((tb = 5 \/ tb = 6)%N -> (length (spec_recs s tk nk tb) <= 1)%nat) /\
  (spec_recs s tk nk tb <> [] -> tyb tb).
Proof.
  intros Hinv. destruct (count_ok_ex s tk nk tb Hinv) as [k Hk].
  assert (Hlen : length (spec_recs s tk nk tb) = N.to_nat k) by apply (spec_recs_lookup s tk nk tb k 0%nat Hk).
  destruct Hk as (Hk & Hk16 & Hk1).
  split; [intros j; apply (spec_recs_lookup s tk nk tb k j); split; [exact Hk|split; assumption]|].
  split; [intros i; rewrite Hk, Hlen; lia|]. split; [lia|]. split; [intros Ht; specialize (Hk1 Ht); lia|].
  intros Hne. assert (Hpos : (0 < k)%N).
  { destruct (spec_recs s tk nk tb); [contradiction|]. simpl in Hlen. lia. }
  apply Hk in Hpos. apply (minv_small _ _ _ _ _ Hinv Hpos).
Qed.

Lemma NoDup_short {A} (l : list A) : (length l <= 1)%nat -> NoDup l.
Proof.
  destruct l as [|x [|y l]]; simpl; intros H; [constructor| |lia].
  apply NoDup_singleton.
Qed.

(** AddRecord appends to exactly one list *)
Lemma add_record_spec c s name typ data s' v ns :
  rec_inv s -> nexec c s (AddRecord name typ data) = Halt (s', v, ns) ->
  exists tok tb,
    tok_of c s name = Halt tok /\ typ = Z.of_N tb /\ (tb = 1 \/ tb = 5 \/ tb = 16 \/ tb = 28)%N /\
    data ∉ spec_recs s (hash tok) (hash name) tb /\
    (length (spec_recs s (hash tok) (hash name) tb) < 16)%nat /\
    (tb = 5%N -> spec_recs s (hash tok) (hash name) tb = []) /\
    spec_recs s' (hash tok) (hash name) tb = spec_recs s (hash tok) (hash name) tb ++ [data] /\
    (forall tk nk tb', (tk, nk, tb') <> (hash tok, hash name, tb) -> (tk, nk, tb') <> (hash tok, hash tok, 6%N) ->
       spec_recs s' tk nk tb' = spec_recs s tk nk tb') /\
    (forall tk nk tb' i, (tk, nk, tb') <> (hash tok, hash name, tb) -> (tk, nk, tb', i) <> soa_key tok ->
       records s' !! (tk, nk, tb', i) = records s !! (tk, nk, tb', i)) /\
    names s' = names s /\ roots s' = roots s /\ supply s' = supply s /\ balances s' = balances s /\
    acctok s' = acctok s /\ price s' = price s /\ v = VNull /\ ns = [].
Proof.
  intros Hinv H. assert (Hinv' : rec_inv s') by (eapply nexec_inv; eassumption).
  apply add_record_halt in H as (tok & tb & k & old & new & Hcr & Ht & Htb & Hk & Hk16 & Hk5 & Hnin & Ho & Hr & -> & -> & ->); [|exact Hinv].
  apply check_record_halt in Hcr as (Etok & _).
  destruct (spec_recs_lookup s _ _ _ _ 0%nat Hk) as [Hlen _].
  assert (Hframe : forall tk nk tb' i, (tk, nk, tb', i) <> (hash tok, hash name, tb, k) -> (tk, nk, tb', i) <> soa_key tok ->
     records (set_records s (<[soa_key tok := new]> (<[(hash tok, hash name, tb, k) := mkR name typ data (Z.of_N k)]> (records s))))
       !! (tk, nk, tb', i) = records s !! (tk, nk, tb', i)).
  { intros tk nk tb' i H1 H2. rewrite records_set_records.
    rewrite lookup_insert_ne by (intros Heq; apply H2; symmetry; exact Heq).
    rewrite lookup_insert_ne by (intros Heq; apply H1; symmetry; exact Heq). reflexivity. }
  exists tok, tb. split; [exact Etok|]. split; [exact Ht|]. split; [exact Htb|]. split; [exact Hnin|].
  split; [lia|]. split.
  { intros H5. specialize (Hk5 H5). subst k. destruct (spec_recs s (hash tok) (hash name) tb); [reflexivity|discriminate Hlen]. }
  split.
  { apply list_eq. intros j.
    destruct (count_ok_ex _ (hash tok) (hash name) tb Hinv') as [k' Hk'].
    destruct (spec_recs_lookup _ _ _ _ _ j Hk') as [_ ->].
    rewrite records_set_records.
    rewrite lookup_insert_ne by (unfold soa_key; intros Heq; injection Heq as _ Heq _; lia).
    destruct (decide (j = N.to_nat k)) as [->|Hne].
    - rewrite N2Nat.id, lookup_insert. rewrite lookup_app_r by lia. rewrite Hlen, Nat.sub_diag. reflexivity.
    - rewrite lookup_insert_ne by (intros Heq; injection Heq as Heq; lia).
      destruct (spec_recs_lookup s _ _ _ _ j Hk) as [_ Hl].
      destruct (decide (j < N.to_nat k)%nat) as [Hlt|Hge].
      + rewrite lookup_app_l by lia. symmetry. exact Hl.
      + rewrite lookup_ge_None_2 by (rewrite app_length; simpl; lia).
        destruct (records s !! (hash tok, hash name, tb, N.of_nat j)) as [r|] eqn:Er; [|reflexivity].
        exfalso. assert (N.of_nat j < k)%N by (apply Hk; eauto). lia. }
  split.
  { intros tk nk tb' H1 H2. apply spec_recs_ext. intros i. apply Hframe.
    - intros Heq. apply H1. congruence.
    - unfold soa_key. intros Heq. apply H2. congruence. }
  split.
  { intros tk nk tb' i H1 H2. apply Hframe; [|exact H2]. intros Heq. apply H1. congruence. }
  repeat (split; [reflexivity|]). reflexivity.
Qed.

(** SetRecord replaces one position of one list *)
Lemma set_record_spec c s name typ id data s' v ns :
  rec_inv s -> nexec c s (SetRecord name typ id data) = Halt (s', v, ns) ->
  exists tok tb,
    tok_of c s name = Halt tok /\ typ = Z.of_N tb /\ (tb = 1 \/ tb = 5 \/ tb = 16 \/ tb = 28)%N /\
    0 <= id /\ (Z.to_nat id < length (spec_recs s (hash tok) (hash name) tb))%nat /\
    (forall j, j <> Z.to_nat id -> spec_recs s (hash tok) (hash name) tb !! j <> Some data) /\
    spec_recs s' (hash tok) (hash name) tb = <[Z.to_nat id := data]> (spec_recs s (hash tok) (hash name) tb) /\
    (forall tk nk tb', (tk, nk, tb') <> (hash tok, hash name, tb) -> (tk, nk, tb') <> (hash tok, hash tok, 6%N) ->
       spec_recs s' tk nk tb' = spec_recs s tk nk tb') /\
    (forall tk nk tb' i, (tk, nk, tb', i) <> (hash tok, hash name, tb, Z.to_N id) -> (tk, nk, tb', i) <> soa_key tok ->
       records s' !! (tk, nk, tb', i) = records s !! (tk, nk, tb', i)) /\
    records s' !! (hash tok, hash name, tb, Z.to_N id) = Some (mkR name typ data id) /\
    names s' = names s /\ roots s' = roots s /\ supply s' = supply s /\ balances s' = balances s /\
    acctok s' = acctok s /\ price s' = price s /\ v = VNull /\ ns = [].
Proof.
  intros Hinv H. assert (Hinv' : rec_inv s') by (eapply nexec_inv; eassumption).
  apply set_record_halt in H as (tok & tb & ib & k & old & new & Hcr & Ht & Htb & Hid & Hk & Hik & Hnd & Ho & Hr & -> & -> & ->); [|exact Hinv].
  apply check_record_halt in Hcr as (Etok & _).
  destruct (spec_recs_lookup s _ _ _ _ 0%nat Hk) as [Hlen _].
  assert (Eid : Z.to_N id = ib) by lia. assert (Eid' : Z.to_nat id = N.to_nat ib) by lia.
  rewrite Eid, Eid'.
  assert (Hnes : soa_key tok <> (hash tok, hash name, tb, ib)).
  { unfold soa_key; intros Heq; injection Heq as _ Heq _; lia. }
  assert (Hframe : forall tk nk tb' i, (tk, nk, tb', i) <> (hash tok, hash name, tb, ib) -> (tk, nk, tb', i) <> soa_key tok ->
     records (set_records s (<[soa_key tok := new]> (<[(hash tok, hash name, tb, ib) := mkR name typ data id]> (records s))))
       !! (tk, nk, tb', i) = records s !! (tk, nk, tb', i)).
  { intros tk nk tb' i H1 H2. rewrite records_set_records.
    rewrite lookup_insert_ne by (intros Heq; apply H2; symmetry; exact Heq).
    rewrite lookup_insert_ne by (intros Heq; apply H1; symmetry; exact Heq). reflexivity. }
  exists tok, tb. split; [exact Etok|]. split; [exact Ht|]. split; [exact Htb|]. split; [lia|].
  split; [lia|]. split; [exact Hnd|]. split.
  { apply list_eq. intros j.
    destruct (count_ok_ex _ (hash tok) (hash name) tb Hinv') as [k' Hk'].
    destruct (spec_recs_lookup _ _ _ _ _ j Hk') as [_ ->].
    rewrite records_set_records.
    rewrite lookup_insert_ne by (unfold soa_key; intros Heq; injection Heq as _ Heq _; lia).
    destruct (decide (j = N.to_nat ib)) as [->|Hne].
    - rewrite N2Nat.id, lookup_insert. rewrite list_lookup_insert by lia. reflexivity.
    - rewrite lookup_insert_ne by (intros Heq; injection Heq as Heq; lia).
      rewrite list_lookup_insert_ne by lia.
      destruct (spec_recs_lookup s _ _ _ _ j Hk) as [_ Hl]. symmetry. exact Hl. }
  split.
  { intros tk nk tb' H1 H2. apply spec_recs_ext. intros i. apply Hframe.
    - intros Heq. apply H1. congruence.
    - unfold soa_key. intros Heq. apply H2. congruence. }
  split; [exact Hframe|]. split.
  { rewrite records_set_records. rewrite lookup_insert_ne by exact Hnes. apply lookup_insert. }
  repeat (split; [reflexivity|]). reflexivity.
Qed.

(** DeleteRecords empties exactly one list; nothing of type SOA disappears *)
Lemma delete_records_spec c s name typ s' v ns :
  rec_inv s -> nexec c s (DeleteRecords name typ) = Halt (s', v, ns) ->
  exists tok tb,
    tok_of c s name = Halt tok /\ to_byte typ = Halt tb /\ tb <> 6%N /\
    spec_recs s' (hash tok) (hash name) tb = [] /\
    (forall tk nk tb', (tk, nk, tb') <> (hash tok, hash name, tb) -> (tk, nk, tb') <> (hash tok, hash tok, 6%N) ->
       spec_recs s' tk nk tb' = spec_recs s tk nk tb') /\
    (forall i, records s' !! (hash tok, hash name, tb, i) = None) /\
    (forall tk nk tb' i, (tk, nk, tb') <> (hash tok, hash name, tb) -> (tk, nk, tb', i) <> soa_key tok ->
       records s' !! (tk, nk, tb', i) = records s !! (tk, nk, tb', i)) /\
    is_Some (records s' !! soa_key tok) /\
    names s' = names s /\ roots s' = roots s /\ supply s' = supply s /\ balances s' = balances s /\
    acctok s' = acctok s /\ price s' = price s /\ v = VNull /\ ns = [].
Proof.
  intros Hinv H.
  apply delete_records_halt in H as (tok & tb & ns0 & m1 & old & new & _ & Etok & _ & _ & _ & Etb & Htb6 & Hnone & Hsame & Ho & Hr & -> & -> & ->); [|exact Hinv].
  assert (Hnone' : forall i, records (set_records s (<[soa_key tok := new]> m1)) !! (hash tok, hash name, tb, i) = None).
  { intros i. rewrite records_set_records. rewrite lookup_insert_ne; [apply Hnone|].
    unfold soa_key. intros Heq. apply Htb6. congruence. }
  assert (Hframe : forall tk nk tb' i, (tk, nk, tb') <> (hash tok, hash name, tb) -> (tk, nk, tb', i) <> soa_key tok ->
     records (set_records s (<[soa_key tok := new]> m1)) !! (tk, nk, tb', i) = records s !! (tk, nk, tb', i)).
  { intros tk nk tb' i H1 H2. rewrite records_set_records.
    rewrite lookup_insert_ne by (intros Heq; apply H2; symmetry; exact Heq). apply Hsame. exact H1. }
  exists tok, tb. split; [exact Etok|]. split; [exact Etb|]. split; [exact Htb6|].
  split; [apply spec_recs_nil; exact Hnone'|]. split.
  { intros tk nk tb' H1 H2. apply spec_recs_ext. intros i. apply Hframe; [exact H1|].
    unfold soa_key. intros Heq. apply H2. congruence. }
  split; [exact Hnone'|]. split; [exact Hframe|]. split.
  { rewrite records_set_records, lookup_insert. eauto. }
  repeat (split; [reflexivity|]). reflexivity.
Qed.

(** for ALL states (no invariant): a halting DeleteRecords keeps every key of
    type byte 6; [typ = 6] is refused and no other [typ] maps to byte 6 *)
Lemma delete_never_soa c s name typ s' v ns :
  nexec c s (DeleteRecords name typ) = Halt (s', v, ns) ->
  typ <> 6 /\
  exists tok, tok_of c s name = Halt tok /\
    (forall tk nk i, is_Some (records s !! (tk, nk, 6%N, i)) -> is_Some (records s' !! (tk, nk, 6%N, i))) /\
    (forall tk nk i, (tk, nk, 6%N, i) <> soa_key tok -> records s' !! (tk, nk, 6%N, i) = records s !! (tk, nk, 6%N, i)).
Proof.
  intros H.
  apply delete_records_halt0 in H as (tok & tb & ns0 & old & new & Ht & Etok & _ & _ & _ & Etb & Htb6 & Ho & Hr & -> & _).
  split; [exact Ht|]. exists tok. split; [exact Etok|].
  assert (Hsame : forall tk nk i, deleted (records s) (hash tok) (hash name) tb !! (tk, nk, 6%N, i) = records s !! (tk, nk, 6%N, i)).
  { intros tk nk i. apply deleted_other. intros Heq. apply Htb6. congruence. }
  split.
  - intros tk nk i Hs. rewrite records_set_records.
    destruct (decide ((tk, nk, 6%N, i) = soa_key tok)) as [->|Hne]; [rewrite lookup_insert; eauto|].
    rewrite lookup_insert_ne by (intros Heq; apply Hne; symmetry; exact Heq). rewrite Hsame. exact Hs.
  - intros tk nk i Hne. rewrite records_set_records.
    rewrite lookup_insert_ne by (intros Heq; apply Hne; symmetry; exact Heq). apply Hsame.
Qed.

Lemma delete_soa_faults c s name : nexec c s (DeleteRecords name T_SOA) = Fault.
Proof. reflexivity. Qed.

(** every successful record mutation refreshes the serial of the token's SOA *)
Lemma mutation_soa_serial c s o s' v ns name :
  rec_inv s -> nexec c s o = Halt (s', v, ns) ->
  (exists typ data, o = AddRecord name typ data) \/ (exists typ id data, o = SetRecord name typ id data) \/
  (exists typ, o = DeleteRecords name typ) ->
  exists tok old new, tok_of c s name = Halt tok /\
    records s !! soa_key tok = Some old /\ records s' !! soa_key tok = Some new /\ soa_refreshed c old new.
Proof.
  intros Hinv H [(typ & data & ->)|[(typ & id & data & ->)|(typ & ->)]].
  - apply add_record_halt in H as (tok & tb & k & old & new & Hcr & _ & _ & _ & _ & _ & _ & Ho & Hr & -> & _); [|exact Hinv].
    apply check_record_halt in Hcr as (Etok & _). exists tok, old, new.
    split; [exact Etok|]. split; [exact Ho|]. split; [|exact Hr]. rewrite records_set_records. apply lookup_insert.
  - apply set_record_halt in H as (tok & tb & ib & k & old & new & Hcr & _ & _ & _ & _ & _ & _ & Ho & Hr & -> & _); [|exact Hinv].
    apply check_record_halt in Hcr as (Etok & _). exists tok, old, new.
    split; [exact Etok|]. split; [exact Ho|]. split; [|exact Hr]. rewrite records_set_records. apply lookup_insert.
  - apply delete_records_halt0 in H as (tok & tb & ns0 & old & new & _ & Etok & _ & _ & _ & _ & _ & Ho & Hr & -> & _).
    exists tok, old, new.
    split; [exact Etok|]. split; [exact Ho|]. split; [|exact Hr]. rewrite records_set_records. apply lookup_insert.
Qed.

(** * 7. The readers *)
Definition blk (e : ent) : N := (fst e / 256)%N.

Lemma elt_of_blk x y : (blk x < blk y)%N -> elt x y.
Proof.
  unfold blk, elt. intros H. destruct (N.lt_ge_cases (fst x) (fst y)) as [Hlt|Hge]; [exact Hlt|].
  exfalso. assert (fst y / 256 <= fst x / 256)%N by (apply N.div_le_mono; [lia|exact Hge]). lia.
Qed.

Lemma spec_ents_blk m tk nk tb e : e ∈ spec_ents m tk nk tb -> blk e = tb.
Proof.
  intros He. apply elem_of_spec_ents in He as [i (Hi & _ & Hc)]. unfold blk. rewrite Hc.
  rewrite N.div_add_l by lia. rewrite N.div_small by lia. lia.
Qed.

Lemma SSorted_app_blk (l1 l2 : list ent) t :
  StronglySorted elt l1 -> StronglySorted elt l2 -> (forall e, e ∈ l1 -> blk e = t) ->
  (forall e, e ∈ l2 -> (t < blk e)%N) -> StronglySorted elt (l1 ++ l2).
Proof.
  intros S1 S2 H1 H2. apply SSorted_app; [exact S1|exact S2|].
  intros x y Hx Hy. apply elt_of_blk. rewrite (H1 x Hx). apply H2. exact Hy.
Qed.

(** all entries of (token, name): the five type blocks in ascending order *)
Definition all_ents (m : gmap rkey rstate) (tk nk : bytes) : list ent :=
  spec_ents m tk nk 1 ++ spec_ents m tk nk 5 ++ spec_ents m tk nk 6 ++ spec_ents m tk nk 16 ++ spec_ents m tk nk 28.

Lemma rec_entries_spec m tk nk : minv m -> rec_entries m tk nk = all_ents m tk nk.
Proof.
  intros Hinv. apply (strict_sorted_unique elt); [exact elt_asym| | |].
  - apply SSorted_rec_entries. exact Hinv.
  - unfold all_ents.
    apply (SSorted_app_blk _ _ 1%N); [apply SSorted_spec_ents| |apply spec_ents_blk|].
    2:{ intros e. rewrite !elem_of_app. intros [He|[He|[He|He]]]; apply spec_ents_blk in He; lia. }
    apply (SSorted_app_blk _ _ 5%N); [apply SSorted_spec_ents| |apply spec_ents_blk|].
    2:{ intros e. rewrite !elem_of_app. intros [He|[He|He]]; apply spec_ents_blk in He; lia. }
    apply (SSorted_app_blk _ _ 6%N); [apply SSorted_spec_ents| |apply spec_ents_blk|].
    2:{ intros e. rewrite !elem_of_app. intros [He|He]; apply spec_ents_blk in He; lia. }
    apply (SSorted_app_blk _ _ 16%N); [apply SSorted_spec_ents|apply SSorted_spec_ents|apply spec_ents_blk|].
    intros e He. apply spec_ents_blk in He. lia.
  - intros e. rewrite elem_of_rec_entries. unfold all_ents. rewrite !elem_of_app, !elem_of_spec_ents. split.
    + intros [t [i [Hm Hc]]]. destruct (minv_small _ _ _ _ _ Hinv (ex_intro _ _ Hm)) as [Hi Ht].
      destruct Ht as [->|[->|[->|[->| ->]]]]; [left|right; left|right; right; left|right; right; right; left|right; right; right; right];
        exists i; auto.
    + intros [He|[He|[He|[He|He]]]]; destruct He as [i (Hi & Hm & Hc)]; eauto.
Qed.

Lemma filter_all {A} (P : A -> Prop) `{!forall x, Decision (P x)} (l : list A) :
  (forall x, x ∈ l -> P x) -> filter P l = l.
Proof.
  induction l as [|x l IH]; intros Hall; [reflexivity|].
  rewrite filter_cons. destruct (decide (P x)) as [_|Hn]; [|exfalso; apply Hn, Hall; left].
  f_equal. apply IH. intros y Hy. apply Hall. right. exact Hy.
Qed.

Lemma filter_none {A} (P : A -> Prop) `{!forall x, Decision (P x)} (l : list A) :
  (forall x, x ∈ l -> ~ P x) -> filter P l = [].
Proof.
  induction l as [|x l IH]; intros Hall; [reflexivity|].
  rewrite filter_cons. destruct (decide (P x)) as [Hp|_]; [exfalso; apply (Hall x); [left|exact Hp]|].
  apply IH. intros y Hy. apply Hall. right. exact Hy.
Qed.

Lemma tyb_lt tb : tyb tb -> (tb < 128)%N.
Proof. unfold tyb. lia. Qed.

Lemma map_vbytes_data (l : list ent) :
  map (fun e : ent => VBytes (r_data (snd e))) l = map VBytes ((fun e : ent => r_data (snd e)) <$> l).
Proof. rewrite !map_fmap, <- list_fmap_compose. reflexivity. Qed.

(** GetRecords returns the specification list *)
Lemma get_records_spec c s name typ s' v ns :
  rec_inv s -> nexec c s (GetRecords name typ) = Halt (s', v, ns) ->
  exists tok tb nst,
    length (split_dot name) <> 1%nat /\ tok_of c s name = Halt tok /\
    get_frag_ns hash c s tok [] = Halt nst /\ to_byte typ = Halt tb /\
    s' = s /\ ns = [] /\ v = VList (map VBytes (spec_recs s (hash tok) (hash name) tb)).
Proof.
  intros Hinv H. unfold NNS.nexec in H. cbv zeta in H.
  inv1 H. inv1 H. inv1 H. inv1 H. injection H as <- <- <-.
  rename x into tok. rename x1 into tb.
  exists tok, tb. eexists. split; [lia|]. split; [reflexivity|]. split; [first [eassumption|reflexivity]|].
  split; [reflexivity|]. split; [reflexivity|]. split; [reflexivity|]. f_equal.
  rewrite (find_by_type_spec _ _ _ _ Hinv). rewrite filter_all.
  - apply map_vbytes_data.
  - intros e He. destruct (elem_of_spec_ents_wf _ _ _ _ _ Hinv He) as [(_ & Ht & _ & Hty) _].
    apply Z.eqb_eq. rewrite Ht. symmetry. apply to_byte_small; [assumption|]. apply tyb_lt. exact Hty.
Qed.

(** the value of one entry, from the specification list *)
Definition rec_vals (name : bytes) (tb : N) (l : list bytes) : list val :=
  imap (fun j d => VList [VBytes name; VInt (Z.of_N tb); VBytes d; VInt (Z.of_nat j)]) l.

Lemma ent_vals_spec s tk name tb :
  rec_inv s ->
  ent_val <$> spec_ents (records s) tk (hash name) tb = rec_vals name tb (spec_recs s tk (hash name) tb).
Proof.
  intros Hinv. destruct (count_ok_ex s tk (hash name) tb Hinv) as [k Hk].
  apply list_eq. intros j. unfold rec_vals. rewrite list_lookup_fmap, list_lookup_imap.
  destruct (spec_ents_lookup _ _ _ _ _ j Hk) as [_ L2].
  destruct (spec_recs_lookup _ _ _ _ _ j Hk) as [_ L3]. rewrite L3.
  etrans; [exact (f_equal (fmap ent_val) L2)|].
  destruct (records s !! (tk, hash name, tb, N.of_nat j)) as [r|] eqn:Er; [|reflexivity].
  simpl. destruct (proj1 Hinv _ _ _ _ _ Er) as (Hn & Ht & Hi & _). apply hash_inj in Hn.
  unfold ent_val. simpl. rewrite Hn, Ht, Hi. replace (Z.of_N (N.of_nat j)) with (Z.of_nat j) by lia. reflexivity.
Qed.

Definition all_vals (s : nstate) (tk : bytes) (name : bytes) : list val :=
  rec_vals name 1 (spec_recs s tk (hash name) 1) ++ rec_vals name 5 (spec_recs s tk (hash name) 5) ++
  rec_vals name 6 (spec_recs s tk (hash name) 6) ++ rec_vals name 16 (spec_recs s tk (hash name) 16) ++
  rec_vals name 28 (spec_recs s tk (hash name) 28).

Lemma get_all_records_halt c s name frags es :
  get_all_records hash valid_name c s name frags = Halt es ->
  exists tok nst, tok_of c s name = Halt tok /\ get_frag_ns hash c s tok [] = Halt nst /\
    es = rec_entries (records s) (hash tok) (hash name).
Proof.
  unfold get_all_records. intros H. inv1 H. inv1 H. injection H as <-.
  eexists _, _. split; [reflexivity|]. split; [first [eassumption|reflexivity]|reflexivity].
Qed.

(** GetAllRecords = the five lists in ascending type order *)
Lemma get_all_records_spec c s name s' v ns :
  rec_inv s -> nexec c s (GetAllRecords name) = Halt (s', v, ns) ->
  exists tok nst,
    length (split_dot name) <> 1%nat /\ tok_of c s name = Halt tok /\
    get_frag_ns hash c s tok [] = Halt nst /\
    s' = s /\ ns = [] /\ v = VList (all_vals s (hash tok) name).
Proof.
  intros Hinv H. unfold NNS.nexec in H. cbv zeta in H.
  inv1 H. inv1 H. injection H as <- <- <-.
  match goal with E : get_all_records _ _ _ _ _ _ = Halt _ |- _ =>
    apply get_all_records_halt in E as (tok & nst & Etok & Ens & ->) end.
  exists tok, nst. split; [lia|]. split; [exact Etok|]. split; [exact Ens|].
  split; [reflexivity|]. split; [reflexivity|]. f_equal.
  rewrite (rec_entries_spec _ _ _ Hinv). unfold all_ents, all_vals. rewrite map_fmap, !fmap_app.
  rewrite !(ent_vals_spec s (hash tok) name) by exact Hinv. reflexivity.
Qed.

(** * 8. Distinctness *)
Definition distinct_inv (s : nstate) : Prop := forall tk nk tb, NoDup (spec_recs s tk nk tb).

Lemma distinct_from_non_soa s :
  rec_inv s -> (forall tk nk tb, tb <> 6%N -> NoDup (spec_recs s tk nk tb)) -> distinct_inv s.
Proof.
  intros Hinv H tk nk tb. destruct (decide (tb = 6%N)) as [->|Hne]; [|apply H; exact Hne].
  apply NoDup_short. apply (spec_recs_shape s tk nk 6%N Hinv). right. reflexivity.
Qed.

Lemma NoDup_snoc {A} (l : list A) x : NoDup l -> x ∉ l -> NoDup (l ++ [x]).
Proof.
  intros Hl Hx. apply NoDup_app. split; [exact Hl|]. split; [|apply NoDup_singleton].
  intros y Hy Hy'. apply elem_of_list_singleton in Hy'. subst y. contradiction.
Qed.

Lemma NoDup_insert_fresh {A} (l : list A) i x :
  NoDup l -> (forall j, j <> i -> l !! j <> Some x) -> NoDup (<[i := x]> l).
Proof.
  intros Hl Hx. apply NoDup_alt. intros a b y Ha Hb.
  destruct (decide (a = i)) as [->|Hai]; destruct (decide (b = i)) as [->|Hbi]; [reflexivity| | |].
  - apply list_lookup_insert_Some in Ha as [(_ & -> & _)|[Hc _]]; [|contradiction].
    rewrite list_lookup_insert_ne in Hb by congruence. exfalso. apply (Hx b); [exact Hbi|exact Hb].
  - apply list_lookup_insert_Some in Hb as [(_ & -> & _)|[Hc _]]; [|contradiction].
    rewrite list_lookup_insert_ne in Ha by congruence. exfalso. apply (Hx a); [exact Hai|exact Ha].
  - rewrite list_lookup_insert_ne in Ha by congruence. rewrite list_lookup_insert_ne in Hb by congruence.
    eapply NoDup_alt; eassumption.
Qed.

Lemma nexec_distinct c s o s' v ns :
  rec_inv s -> distinct_inv s -> nexec c s o = Halt (s', v, ns) -> distinct_inv s'.
Proof.
  intros Hinv Hd H. assert (Hinv' : rec_inv s') by (eapply nexec_inv; eassumption).
  apply distinct_from_non_soa; [exact Hinv'|]. intros tk nk tb Htb6.
  destruct (nexec_records_cases _ _ _ _ _ _ H) as [E|[(tok & name & data & E)|[(name & typ & data & ->)|[(name & typ & id & data & ->)|(name & typ & ->)]]]].
  - rewrite (spec_recs_ext s s'); [apply Hd|]. intros i. rewrite E. reflexivity.
  - rewrite (spec_recs_ext s s'); [apply Hd|]. intros i. rewrite E.
    apply lookup_insert_ne. intros Heq. apply Htb6. congruence.
  - apply add_record_spec in H as (tok & tb0 & _ & _ & _ & Hnin & _ & _ & Happ & Hoth & _); [|exact Hinv].
    destruct (decide ((tk, nk, tb) = (hash tok, hash name, tb0))) as [Heq|Hne].
    + injection Heq as -> -> ->. rewrite Happ. apply NoDup_snoc; [apply Hd|exact Hnin].
    + rewrite Hoth; [apply Hd|exact Hne|]. intros Heq. apply Htb6. congruence.
  - apply set_record_spec in H as (tok & tb0 & _ & _ & _ & _ & _ & Hfresh & Hrep & Hoth & _); [|exact Hinv].
    destruct (decide ((tk, nk, tb) = (hash tok, hash name, tb0))) as [Heq|Hne].
    + injection Heq as -> -> ->. rewrite Hrep. apply NoDup_insert_fresh; [apply Hd|exact Hfresh].
    + rewrite Hoth; [apply Hd|exact Hne|]. intros Heq. apply Htb6. congruence.
  - apply delete_records_spec in H as (tok & tb0 & _ & _ & _ & Hnil & Hoth & _); [|exact Hinv].
    destruct (decide ((tk, nk, tb) = (hash tok, hash name, tb0))) as [Heq|Hne].
    + injection Heq as -> -> ->. rewrite Hnil. constructor.
    + rewrite Hoth; [apply Hd|exact Hne|]. intros Heq. apply Htb6. congruence.
Qed.

Lemma distinct_init : distinct_inv ninit.
Proof. intros tk nk tb. rewrite spec_recs_nil; [constructor|]. intros i. apply lookup_empty. Qed.

Lemma nrun_from_distinct ops s : rec_inv s -> distinct_inv s -> distinct_inv (nrun_from s ops).
Proof.
  revert s. induction ops as [|co ops IH]; intros s Hinv Hd; [exact Hd|].
  unfold NNS.nrun_from. simpl. apply IH; [apply nstep_inv; exact Hinv|].
  destruct (nstep_cases hash valid_name valid_data str_ok s co) as [(s' & r & ns & He & ->)|[_ ->]].
  - simpl. eapply nexec_distinct; eassumption.
  - exact Hd.
Qed.

Lemma nrun_distinct ops : distinct_inv (nrun ops).
Proof. apply nrun_from_distinct; [exact minv_empty|exact distinct_init]. Qed.

(** only the three record methods change the lists (type SOA aside, which
    registration and updateSOA write) *)
Definition is_mutator (o : nop) : bool :=
  match o with AddRecord _ _ _ | SetRecord _ _ _ _ | DeleteRecords _ _ => true | _ => false end.

Lemma other_ops_keep_lists s co tk nk tb :
  is_mutator (snd co) = false -> tb <> 6%N ->
  spec_recs (fst (fst (nstep s co))) tk nk tb = spec_recs s tk nk tb /\
  forall i, records (fst (fst (nstep s co))) !! (tk, nk, tb, i) = records s !! (tk, nk, tb, i).
Proof.
  intros Hm Htb.
  assert (Hk : forall i, records (fst (fst (nstep s co))) !! (tk, nk, tb, i) = records s !! (tk, nk, tb, i)).
  { destruct (nstep_cases hash valid_name valid_data str_ok s co) as [(s' & r & ns & He & ->)|[_ ->]]; [|reflexivity].
    cbn [fst]. intros i.
    destruct (nexec_records_cases _ _ _ _ _ _ He) as [E|[(tok & name & data & E)|[(name & typ & data & Eo)|[(name & typ & id & data & Eo)|(name & typ & Eo)]]]];
      try (rewrite Eo in Hm; discriminate Hm).
    - rewrite E. reflexivity.
    - rewrite E. apply lookup_insert_ne. intros Heq. apply Htb. congruence. }
  split; [apply spec_recs_ext; exact Hk|exact Hk].
Qed.

(** * 9. Location: the token of a name *)
Lemma head_filter_lookup {A} (P : A -> Prop) `{!forall x, Decision (P x)} (l : list A) :
  match head (filter P l) with
  | Some x => exists i, l !! i = Some x /\ P x /\ forall j y, (j < i)%nat -> l !! j = Some y -> ~ P y
  | None => forall y, y ∈ l -> ~ P y
  end.
Proof.
  induction l as [|x l IH]; [simpl; intros y Hy; inversion Hy|].
  rewrite filter_cons. destruct (decide (P x)) as [Hp|Hn].
  - simpl. exists 0%nat. split; [reflexivity|]. split; [exact Hp|]. intros j y Hj. lia.
  - destruct (head (filter P l)) as [y|].
    + destruct IH as [i (Hi & Hpy & Hlt)]. exists (S i). split; [exact Hi|]. split; [exact Hpy|].
      intros [|j] z Hj Hz; [simpl in Hz; injection Hz as <-; exact Hn|]. simpl in Hz. apply (Hlt j); [lia|exact Hz].
    + intros y Hy. apply elem_of_cons in Hy as [->|Hy]; [exact Hn|apply IH; exact Hy].
Qed.

(** the name made of the fragments from index [i] on *)
Definition suffix_name (name : bytes) (i : nat) : bytes := join_dot (drop i (split_dot name)).

(** [tokenIDFromName]: the longest live suffix that is not the TLD, else the
    name itself *)
Lemma tok_of_spec c s name tok :
  tok_of c s name = Halt tok ->
  valid_name name = true /\
  ((exists i, (i < length (split_dot name) - 1)%nat /\ tok = suffix_name name i /\ live hash c s tok = true /\
      forall j, (j < i)%nat -> live hash c s (suffix_name name j) = false) \/
   (tok = name /\ forall j, (j < length (split_dot name) - 1)%nat -> live hash c s (suffix_name name j) = false)).
Proof.
  unfold token_id_from_name. destruct (valid_name name); [|disc]. cbv zeta. intros H. injection H as <-.
  split; [reflexivity|].
  pose proof (head_filter_lookup (fun n => live hash c s n = true)
                (map (fun i => join_dot (drop i (split_dot name))) (seq 0 (length (split_dot name) - 1)))) as Hh.
  destruct (head (filter (fun n => live hash c s n = true) _)) as [t|].
  - left. destruct Hh as [i (Hi & Hl & Hlt)]. rewrite map_fmap, list_lookup_fmap in Hi.
    destruct (seq 0 (length (split_dot name) - 1) !! i) as [i'|] eqn:Es; [|discriminate Hi].
    apply lookup_seq in Es as [-> Hi']. simpl in Hi. injection Hi as <-.
    exists i. split; [exact Hi'|]. split; [reflexivity|]. split; [exact Hl|].
    intros j Hj. destruct (live hash c s (suffix_name name j)) eqn:El; [|reflexivity].
    exfalso. apply (Hlt j (suffix_name name j)); [exact Hj| |exact El].
    rewrite map_fmap, list_lookup_fmap, lookup_seq_lt by lia. reflexivity.
  - right. split; [reflexivity|]. intros j Hj.
    destruct (live hash c s (suffix_name name j)) eqn:El; [|reflexivity].
    exfalso. apply (Hh (suffix_name name j)); [|exact El].
    rewrite map_fmap. apply elem_of_list_fmap. exists j. split; [reflexivity|]. apply elem_of_seq. lia.
Qed.

(** a successful record mutation of [name] touches only keys under its token *)
Lemma mutation_location c s o s' v ns name :
  rec_inv s -> nexec c s o = Halt (s', v, ns) ->
  (exists typ data, o = AddRecord name typ data) \/ (exists typ id data, o = SetRecord name typ id data) \/
  (exists typ, o = DeleteRecords name typ) ->
  exists tok, tok_of c s name = Halt tok /\
    forall tk nk tb i, tk <> hash tok -> records s' !! (tk, nk, tb, i) = records s !! (tk, nk, tb, i).
Proof.
  intros Hinv H [(typ & data & ->)|[(typ & id & data & ->)|(typ & ->)]].
  - apply add_record_spec in H as (tok & tb & Etok & _ & _ & _ & _ & _ & _ & _ & Hfr & _); [|exact Hinv].
    exists tok. split; [exact Etok|]. intros tk nk tb' i Hne. apply Hfr; [congruence|]. unfold soa_key. congruence.
  - apply set_record_spec in H as (tok & tb & Etok & _ & _ & _ & _ & _ & _ & _ & Hfr & _); [|exact Hinv].
    exists tok. split; [exact Etok|]. intros tk nk tb' i Hne. apply Hfr; [congruence|]. unfold soa_key. congruence.
  - apply delete_records_spec in H as (tok & tb & Etok & _ & _ & _ & _ & _ & Hfr & _); [|exact Hinv].
    exists tok. split; [exact Etok|]. intros tk nk tb' i Hne. apply Hfr; [congruence|]. unfold soa_key. congruence.
Qed.

(** * 10. Conflict with records held by the parent token *)
Lemma register_conflict c s name owner email a b d e nk tb i r :
  records s !! (hash (suffix_name name 1), nk, tb, i) = Some r -> proper_suffix name (r_name r) = true ->
  nexec c s (Register name owner email a b d e) = Fault.
Proof.
  intros Hr Hp. destruct (nexec c s (Register name owner email a b d e)) as [[[s' v] ns]|] eqn:H; [|reflexivity].
  exfalso. unfold NNS.nexec in H. cbv zeta in H. inv1 H. inv1 H. inv1 H. inv1 H. inv1 H. inv1 H.
  match goal with E : negb (parent_conflict _ _ _ _) = true |- _ => apply negb_true_iff, not_true_iff_false in E; apply E end.
  unfold parent_conflict. apply existsb_exists. exists r. split; [|exact Hp].
  apply elem_of_list_In. unfold token_records. apply elem_of_list_omap.
  exists ((hash (suffix_name name 1), nk, tb, i), r). split; [apply elem_of_map_to_list; exact Hr|].
  unfold suffix_name. rewrite bytes_eqb_refl. reflexivity.
Qed.

(** * 11. Expiry *)
Lemma join_split sep s : join_with sep (split_on sep s) = s.
Proof.
  induction s as [|ch s IH]; [reflexivity|].
  simpl. destruct (N.eqb_spec ch sep) as [->|Hne].
  - simpl. destruct (split_on sep s) as [|f fs] eqn:Es; [destruct s; simpl in Es; [discriminate Es|]|].
    + destruct (n =? sep)%N; [discriminate Es|]. destruct (split_on sep s); discriminate Es.
    + rewrite IH. reflexivity.
  - destruct (split_on sep s) as [|f fs] eqn:Es.
    + exfalso. destruct s; simpl in Es; [discriminate Es|]. destruct (n =? sep)%N; [discriminate Es|].
      destruct (split_on sep s); discriminate Es.
    + simpl in IH |- *. destruct fs as [|g gs]; [rewrite IH; reflexivity|]. simpl. rewrite <- IH. reflexivity.
Qed.

Lemma split_on_length sep s : (1 <= length (split_on sep s))%nat.
Proof.
  induction s as [|ch s IH]; [simpl; lia|]. simpl. destruct (ch =? sep)%N; [simpl; lia|].
  destruct (split_on sep s); simpl in *; lia.
Qed.

(** the expiry walk with "split on its own": the token and every enclosing
    name (the TLD included) are stored and unexpired *)
Lemma get_frag_ns_nil_iff c s tok :
  (exists nst, get_frag_ns hash c s tok [] = Halt nst) <-> parent_expired hash c s 0 (split_dot tok) = false.
Proof.
  assert (Hpe : parent_expired hash c s 0 (split_dot tok) =
                negb (live hash c s tok) || parent_expired hash c s 1 (split_dot tok)).
  { unfold parent_expired. rewrite Nat.sub_0_r.
    pose proof (split_on_length DOT tok) as Hl. unfold split_dot.
    destruct (length (split_on DOT tok)) as [|n] eqn:El; [lia|].
    replace (S n - 1)%nat with n by lia. cbn [seq existsb drop]. unfold join_dot. rewrite drop_0, join_split. reflexivity. }
  rewrite Hpe. unfold get_frag_ns, get_ns_with_key, live, get_ns. split.
  - intros [nst H]. destruct (names s !! hash tok) as [ns0|]; [|discriminate H].
    destruct (now c >=? ns_exp ns0) eqn:Ee; [discriminate H|]. cbn [obind] in H.
    destruct (parent_expired hash c s 1 (split_dot tok)); [discriminate H|].
    replace (now c <? ns_exp ns0) with true by lia. reflexivity.
  - intros H. destruct (names s !! hash tok) as [ns0|]; [|discriminate H].
    destruct (parent_expired hash c s 1 (split_dot tok)); [rewrite orb_true_r in H; discriminate H|].
    rewrite orb_false_r in H. apply negb_false_iff in H.
    replace (now c >=? ns_exp ns0) with false by lia. cbn [obind]. eauto.
Qed.

Lemma readers_fault_expired c s name typ tok :
  tok_of c s name = Halt tok -> parent_expired hash c s 0 (split_dot tok) = true ->
  nexec c s (GetRecords name typ) = Fault /\ nexec c s (GetAllRecords name) = Fault /\
  (N.eqb (List.last name 0%N) DOT = false -> nexec c s (Resolve name typ) = Fault).
Proof.
  intros Etok Hpe.
  assert (Hf : get_frag_ns hash c s tok [] = Fault).
  { destruct (get_frag_ns hash c s tok []) as [nst|] eqn:E; [|reflexivity].
    assert (parent_expired hash c s 0 (split_dot tok) = false) by (apply get_frag_ns_nil_iff; eauto). congruence. }
  split; [|split].
  - unfold NNS.nexec. cbv zeta. destruct (negb (length (split_dot name) =? 1)%nat); [|reflexivity].
    cbn [oassert obind]. rewrite Etok. cbn [obind]. rewrite Hf. reflexivity.
  - unfold NNS.nexec, get_all_records. cbv zeta. destruct (negb (length (split_dot name) =? 1)%nat); [|reflexivity].
    cbn [oassert obind]. rewrite Etok. cbn [obind]. rewrite Hf. reflexivity.
  - intros Hdot. unfold NNS.nexec. destruct (negb (length (split_dot name) =? 1)%nat); [|reflexivity].
    cbn [oassert obind]. cbn [resolve]. destruct (length name =? 0)%nat; [reflexivity|]. rewrite Hdot.
    unfold get_all_records. rewrite Etok. cbn [obind]. rewrite Hf. reflexivity.
Qed.

(** the readers halt exactly on readable names *)
Definition readable (c : nctx) (s : nstate) (name : bytes) : Prop :=
  exists tok, tok_of c s name = Halt tok /\ parent_expired hash c s 0 (split_dot tok) = false.

Lemma get_all_records_halts_iff c s name :
  (exists s' v ns, nexec c s (GetAllRecords name) = Halt (s', v, ns)) <->
  length (split_dot name) <> 1%nat /\ readable c s name.
Proof.
  unfold NNS.nexec, readable. cbv zeta. split.
  - intros (s' & v & ns & H). inv1 H. inv1 H. split; [lia|].
    match goal with E : get_all_records _ _ _ _ _ _ = Halt _ |- _ =>
      apply get_all_records_halt in E as (tok & nst & Etok & Ens & _) end.
    exists tok. split; [exact Etok|]. apply get_frag_ns_nil_iff. eauto.
  - intros [Hl [tok [Etok Hpe]]]. apply get_frag_ns_nil_iff in Hpe as [nst Hn]. unfold get_all_records.
    replace (negb (length (split_dot name) =? 1)%nat) with true by lia.
    cbn [oassert obind]. rewrite Etok. cbn [obind]. rewrite Hn. cbn [obind]. eauto.
Qed.

Lemma get_records_halts_iff c s name typ :
  (exists s' v ns, nexec c s (GetRecords name typ) = Halt (s', v, ns)) <->
  length (split_dot name) <> 1%nat /\ readable c s name /\ -128 <= typ <= 255.
Proof.
  unfold NNS.nexec, readable. cbv zeta. split.
  - intros (s' & v & ns & H). inv1 H. inv1 H. inv1 H. inv1 H. split; [lia|]. split.
    + eexists. split; [reflexivity|]. apply get_frag_ns_nil_iff. eauto.
    + match goal with Hb : to_byte typ = Halt _ |- _ => apply to_byte_halt in Hb as [Hb _]; exact Hb end.
  - intros [Hl [[tok [Etok Hpe]] Ht]]. apply get_frag_ns_nil_iff in Hpe as [nst Hn].
    replace (negb (length (split_dot name) =? 1)%nat) with true by lia.
    cbn [oassert obind]. rewrite Etok. cbn [obind]. rewrite Hn. cbn [obind].
    unfold to_byte. replace ((-128 <=? typ) && (typ <=? 255)) with true by lia. cbn [obind]. eauto.
Qed.

(** * 12. Resolve *)
(** the records of one type among all entries of a name *)
Definition typ_recs (s : nstate) (tk nk : bytes) (typ : Z) : list bytes :=
  if typ =? 1 then spec_recs s tk nk 1 else if typ =? 5 then spec_recs s tk nk 5
  else if typ =? 6 then spec_recs s tk nk 6 else if typ =? 16 then spec_recs s tk nk 16
  else if typ =? 28 then spec_recs s tk nk 28 else [].

Lemma block_filter s tk nk tb typ :
  rec_inv s ->
  (fun e : ent => r_data (snd e)) <$>
    filter (fun e : ent => (r_type (snd e) =? typ) = true) (spec_ents (records s) tk nk tb) =
  if typ =? Z.of_N tb then spec_recs s tk nk tb else [].
Proof.
  intros Hinv. destruct (Z.eqb_spec typ (Z.of_N tb)) as [->|Hne].
  - rewrite filter_all; [unfold spec_recs; reflexivity|]. intros e He.
    destruct (elem_of_spec_ents_wf _ _ _ _ _ Hinv He) as [(_ & Ht & _) _]. apply Z.eqb_eq. exact Ht.
  - rewrite filter_none; [reflexivity|]. intros e He.
    destruct (elem_of_spec_ents_wf _ _ _ _ _ Hinv He) as [(_ & Ht & _) _]. rewrite Ht. intros Heq. apply Z.eqb_eq in Heq. lia.
Qed.

Lemma sel5 {A} (typ : Z) (l1 l5 l6 l16 l28 : list A) :
  (if typ =? 1 then l1 else []) ++ (if typ =? 5 then l5 else []) ++ (if typ =? 6 then l6 else []) ++
  (if typ =? 16 then l16 else []) ++ (if typ =? 28 then l28 else []) =
  if typ =? 1 then l1 else if typ =? 5 then l5 else if typ =? 6 then l6 else if typ =? 16 then l16
  else if typ =? 28 then l28 else [].
Proof.
  destruct (Z.eqb_spec typ 1) as [E1|E1], (Z.eqb_spec typ 5) as [E5|E5], (Z.eqb_spec typ 6) as [E6|E6],
    (Z.eqb_spec typ 16) as [E16|E16], (Z.eqb_spec typ 28) as [E28|E28]; try (exfalso; lia);
    cbn [app]; rewrite ?app_nil_r; reflexivity.
Qed.

Lemma all_ents_filter s tk nk typ :
  rec_inv s ->
  (fun e : ent => r_data (snd e)) <$>
    filter (fun e : ent => (r_type (snd e) =? typ) = true) (all_ents (records s) tk nk) = typ_recs s tk nk typ.
Proof.
  intros Hinv. unfold all_ents. rewrite !filter_app, !fmap_app.
  rewrite !(block_filter s tk nk _ typ Hinv). unfold typ_recs.
  change (Z.of_N 1) with 1. change (Z.of_N 5) with 5. change (Z.of_N 6) with 6.
  change (Z.of_N 16) with 16. change (Z.of_N 28) with 28.
  apply sel5.
Qed.

Lemma all_ents_filter_map s tk nk typ :
  rec_inv s ->
  map (fun e : ent => r_data (snd e))
    (filter (fun e : ent => (r_type (snd e) =? typ) = true) (all_ents (records s) tk nk)) = typ_recs s tk nk typ.
Proof. intros Hinv. rewrite map_fmap. apply all_ents_filter. exact Hinv. Qed.

(** [resolve] strips one trailing dot *)
Definition strip_dot (name : bytes) : bytes :=
  if N.eqb (List.last name 0%N) DOT then removelast name else name.

(** what [resolve] sees at one visited name: its records of the requested
    type and its CNAME target ([[]] if none) *)
Definition rnode (c : nctx) (s : nstate) (name : bytes) (typ : Z) : outcome (list bytes * bytes) :=
  if (length name =? 0)%nat then Fault else
  let n := strip_dot name in
  tok <-! tok_of c s n;
  _ <-! get_frag_ns hash c s tok [];
  Halt (typ_recs s (hash tok) (hash n) typ, List.last (spec_recs s (hash tok) (hash n) 5) []).

(** the specification of [resolve] with an explicit budget of visited names *)
Fixpoint resolve_spec (c : nctx) (s : nstate) (budget : nat) (name : bytes) (typ : Z) : outcome (list bytes) :=
  match budget with
  | O => Fault
  | S b =>
      hl <-! rnode c s name typ;
      if (length (snd hl) =? 0)%nat || (typ =? T_CNAME) then Halt (fst hl)
      else rest <-! resolve_spec c s b (snd hl) typ; Halt (fst hl ++ rest)
  end.

Lemma resolve_eq c s fuel res name typ :
  rec_inv s ->
  resolve hash valid_name c s fuel res name typ = (r <-! resolve_spec c s fuel name typ; Halt (res ++ r)).
Proof.
  intros Hinv. revert res name. induction fuel as [|fuel IH]; intros res name; [reflexivity|].
  cbn [resolve resolve_spec]. unfold rnode. destruct (length name =? 0)%nat; [reflexivity|].
  cbv zeta. change (if (List.last name 0 =? DOT)%N then removelast name else name) with (strip_dot name).
  generalize (strip_dot name). intros n.
  unfold get_all_records.
  destruct (tok_of c s n) as [tok|]; [|reflexivity]. cbn [obind].
  destruct (get_frag_ns hash c s tok []) as [nst|]; [|reflexivity]. cbn [obind fst snd].
  rewrite (rec_entries_spec _ _ _ Hinv).
  rewrite !(all_ents_filter_map s (hash tok) (hash n) typ Hinv).
  rewrite !(all_ents_filter_map s (hash tok) (hash n) T_CNAME Hinv).
  assert (E5 : typ_recs s (hash tok) (hash n) T_CNAME = spec_recs s (hash tok) (hash n) 5) by reflexivity.
  rewrite E5.
  destruct ((length (List.last (spec_recs s (hash tok) (hash n) 5) []) =? 0)%nat || (typ =? T_CNAME));
    [reflexivity|].
  rewrite IH. destruct (resolve_spec c s fuel _ typ) as [rest|]; [|reflexivity].
  cbn [obind]. rewrite app_assoc. reflexivity.
Qed.

Lemma resolve_op_spec c s name typ :
  rec_inv s ->
  nexec c s (Resolve name typ) =
    (_ <-! oassert (negb (length (split_dot name) =? 1)%nat);
     r <-! resolve_spec c s 3 name typ; Halt (s, VList (map VBytes r), [])).
Proof.
  intros Hinv. unfold NNS.nexec. destruct (negb (length (split_dot name) =? 1)%nat); [|reflexivity].
  cbn [oassert obind]. rewrite (resolve_eq c s 3 [] name typ Hinv).
  destruct (resolve_spec c s 3 name typ) as [r|]; reflexivity.
Qed.

(** the CNAME list has at most one element: the link is that element *)
Lemma link_spec s tk nk :
  rec_inv s ->
  (spec_recs s tk nk 5 = [] /\ List.last (spec_recs s tk nk 5) [] = []) \/
  (exists d, spec_recs s tk nk 5 = [d] /\ List.last (spec_recs s tk nk 5) [] = d).
Proof.
  intros Hinv. assert (Hl : (length (spec_recs s tk nk 5) <= 1)%nat) by (apply (spec_recs_shape s tk nk 5%N Hinv); left; reflexivity).
  destruct (spec_recs s tk nk 5) as [|d [|d' l]]; [left; split; reflexivity|right; exists d; split; reflexivity|simpl in Hl; lia].
Qed.

(** corollaries: chains of 0, 1, 2 links halt with the concatenation; a chain
    of three links (cycles included) faults; an unreadable node faults *)
Lemma resolve_spec_0 c s b name typ r0 l0 :
  rnode c s name typ = Halt (r0, l0) -> l0 = [] \/ typ = T_CNAME ->
  resolve_spec c s (S b) name typ = Halt r0.
Proof.
  intros H0 Hc. cbn [resolve_spec]. rewrite H0. cbn [obind fst snd].
  replace ((length l0 =? 0)%nat || (typ =? T_CNAME)) with true; [reflexivity|].
  destruct Hc as [->| ->]; [reflexivity|]. rewrite orb_true_r. reflexivity.
Qed.

Lemma resolve_spec_step c s b name typ r0 l0 :
  rnode c s name typ = Halt (r0, l0) -> l0 <> [] -> typ <> T_CNAME ->
  resolve_spec c s (S b) name typ = (rest <-! resolve_spec c s b l0 typ; Halt (r0 ++ rest)).
Proof.
  intros H0 Hl Ht. cbn [resolve_spec]. rewrite H0. cbn [obind fst snd].
  replace ((length l0 =? 0)%nat || (typ =? T_CNAME)) with false; [reflexivity|].
  symmetry. apply orb_false_iff. split; [destruct l0; [contradiction|reflexivity]|apply Z.eqb_neq; exact Ht].
Qed.

Lemma resolve_spec_fault_node c s b name typ :
  rnode c s name typ = Fault -> resolve_spec c s b name typ = Fault.
Proof. intros H0. destruct b; [reflexivity|]. cbn [resolve_spec]. rewrite H0. reflexivity. Qed.

Lemma resolve_chain_1 c s name typ r0 c1 r1 l1 :
  typ <> T_CNAME -> rnode c s name typ = Halt (r0, c1) -> c1 <> [] ->
  rnode c s c1 typ = Halt (r1, l1) -> l1 = [] ->
  resolve_spec c s 3 name typ = Halt (r0 ++ r1).
Proof.
  intros Ht H0 Hc1 H1 Hl1. rewrite (resolve_spec_step _ _ _ _ _ _ _ H0 Hc1 Ht).
  rewrite (resolve_spec_0 _ _ _ _ _ _ _ H1 (or_introl Hl1)). reflexivity.
Qed.

Lemma resolve_chain_2 c s name typ r0 c1 r1 c2 r2 l2 :
  typ <> T_CNAME -> rnode c s name typ = Halt (r0, c1) -> c1 <> [] ->
  rnode c s c1 typ = Halt (r1, c2) -> c2 <> [] ->
  rnode c s c2 typ = Halt (r2, l2) -> l2 = [] ->
  resolve_spec c s 3 name typ = Halt (r0 ++ r1 ++ r2).
Proof.
  intros Ht H0 Hc1 H1 Hc2 H2 Hl2. rewrite (resolve_spec_step _ _ _ _ _ _ _ H0 Hc1 Ht).
  rewrite (resolve_spec_step _ _ _ _ _ _ _ H1 Hc2 Ht).
  rewrite (resolve_spec_0 _ _ _ _ _ _ _ H2 (or_introl Hl2)). reflexivity.
Qed.

Lemma resolve_chain_3 c s name typ r0 c1 r1 c2 r2 c3 :
  typ <> T_CNAME -> rnode c s name typ = Halt (r0, c1) -> c1 <> [] ->
  rnode c s c1 typ = Halt (r1, c2) -> c2 <> [] ->
  rnode c s c2 typ = Halt (r2, c3) -> c3 <> [] ->
  resolve_spec c s 3 name typ = Fault.
Proof.
  intros Ht H0 Hc1 H1 Hc2 H2 Hc3. rewrite (resolve_spec_step _ _ _ _ _ _ _ H0 Hc1 Ht).
  rewrite (resolve_spec_step _ _ _ _ _ _ _ H1 Hc2 Ht).
  rewrite (resolve_spec_step _ _ _ _ _ _ _ H2 Hc3 Ht). reflexivity.
Qed.

End Records.
